/-
  C09 §8 (acceptance with exponential epochs), after the event loop — the document of `finishDoc` in closed form (`finDocV`), that
  `finishDoc` returns it, and that it is well-formed (`DocWFV`).
-/
import DemesVerif.Proofs.MsGrowAccFinishDoc
import DemesVerif.Proofs.MsAccFinishWF
namespace Demes.Proofs.MsGrow
open Demes Demes.Ms Demes.Spec Demes.Spec.C08 Demes.Proofs.FromMs
open Demes.Proofs.MsAcc (AncWF PulseWF DocMigsWF DAncWF DMigsWF DPulseWF name_of_getElem names_nodup
  getElem_of_mem_demes etime_lt_of_lt_of_le nonTransient_of_alive transient_not_ref pulse_refOK mig_refOK
  removeTransient_succeeds pulses_getD isIdentifier_demeName)

/-- **the document `finishDoc` returns**: the finalised non-transient demes, stably sorted by start time;
the scaled migrations; the pulses, reversed -/
def finDocV (N0 : Q) (s : BState) (migs0 : List BMigration) : MsDoc :=
  { demes := sortDemesByAncestry ((s.demes.map finDemeV).filter nonTransient),
    migrations := migs0.map (scaleMig N0), pulses := s.pulses.map List.reverse, numPops := s.numDemes }

/-! ## membership -/

theorem mem_finDocV {N0 : Q} {s : BState} {migs0 : List BMigration} {d : BDeme} :
    d ∈ (finDocV N0 s migs0).demes ↔ ∃ (j : Nat) (d0 : BDeme), s.demes[j]? = some d0 ∧ nonTransient d0 = true ∧ d = finDemeV d0 := by
  show d ∈ sortDemesByAncestry _ ↔ _
  rw [(sortDemes_perm _).mem_iff, List.mem_filter, List.mem_map]
  constructor
  · rintro ⟨⟨d0, hd0, rfl⟩, hnt⟩
    obtain ⟨j, hj⟩ := getElem_of_mem_demes hd0
    rw [finDemeV_nonTransient] at hnt
    exact ⟨j, d0, hj, hnt, rfl⟩
  · rintro ⟨j, d0, hj, hnt, rfl⟩
    refine ⟨⟨d0, List.mem_iff_getElem?.2 ⟨j, hj⟩, rfl⟩, ?_⟩
    rw [finDemeV_nonTransient]; exact hnt

/-- a name the state may refer to is the name of a deme of the document, with the same times -/
theorem refOK_mem {N0 : Q} {s : BState} {migs0 : List BMigration} {k : Nat} {dk : BDeme}
    (hn : NameInv s) (hk : s.demes[k]? = some dk) (hnt : nonTransient dk = true) :
    finDemeV dk ∈ (finDocV N0 s migs0).demes ∧ (finDemeV dk).name = Ms.demeName k
      ∧ bEndTime (finDemeV dk) = bEndTime dk ∧ (finDemeV dk).startTime = dk.startTime :=
  ⟨mem_finDocV.2 ⟨k, dk, hk, hnt, rfl⟩, by rw [(finDemeV_header dk).1, name_of_getElem hn hk],
    finDemeV_bEnd dk, (finDemeV_header dk).2.1⟩

/-! ## the demes of the document -/

theorem finDocV_nodup {N0 : Q} {s : BState} {migs0 : List BMigration} (hn : NameInv s) :
    ((finDocV N0 s migs0).demes.map (·.name)).Nodup := by
  show ((sortDemesByAncestry _).map (·.name)).Nodup
  rw [((sortDemes_perm _).map _).nodup_iff]
  have hsub : (((s.demes.map finDemeV).filter nonTransient).map (·.name)).Sublist ((s.demes.map finDemeV).map (·.name)) :=
    (List.filter_sublist).map _
  rw [finDemeV_names] at hsub
  exact (names_nodup hn).sublist hsub

theorem finDocV_ne {N0 : Q} {T : Q} {s : BState} {migs0 : List BMigration} (hinv : AccInvV T s) :
    (finDocV N0 s migs0).demes ≠ [] := by
  obtain ⟨j, d, hj, hnt⟩ := exists_nonTransient hinv
  have : finDemeV d ∈ (finDocV N0 s migs0).demes := mem_finDocV.2 ⟨j, d, hj, hnt, rfl⟩
  intro e
  rw [e] at this
  cases this

theorem finDocV_sorted {N0 : Q} {s : BState} {migs0 : List BMigration} :
    (finDocV N0 s migs0).demes.Pairwise (fun a b => b.startTime ≤ a.startTime) :=
  (sortDemesByAncestry_stable _).sorted

/-- the ancestry -/
theorem finDocV_anc {N0 : Q} {s : BState} {migs0 : List BMigration} (hn : NameInv s) {j : Nat} {Tj : Q}
    {d0 : BDeme} (hj : s.demes[j]? = some d0) (ha : AncWF s j Tj d0) :
    DAncWF (finDocV N0 s migs0).demes Tj (finDemeV d0) := by
  obtain ⟨as, has, hne, hnd, hall, hpr⟩ := ha.anc
  refine ⟨as, by rw [(finDemeV_header d0).2.2.1, has], hne, hnd, ?_, ?_⟩
  · intro a hma
    obtain ⟨k, dk, hak, hkj, hdk, h1, h2⟩ := hall a hma
    have hnt := nonTransient_of_alive h1 h2
    obtain ⟨m1, m2, m3, m4⟩ := refOK_mem (N0 := N0) (migs0 := migs0) hn hdk hnt
    refine ⟨finDemeV dk, m1, by rw [m2, hak], ?_, by rw [m3]; exact h1, by rw [m4]; exact h2⟩
    rw [(finDemeV_header d0).1, name_of_getElem hn hj, hak]
    intro e
    exact hkj (demeName_inj e)
  · rw [(finDemeV_header d0).2.2.2]
    exact hpr

/-- a deme of the document -/
theorem finDocV_deme {N0 : Q} {T : Q} {s : BState} {migs0 : List BMigration} (hinv : AccInvV T s) (hn : NameInv s)
    (hgc : GrowthClosed s)
    {j : Nat} {d0 : BDeme} (hj : s.demes[j]? = some d0) (hnt : nonTransient d0 = true) :
    DDemeWFV (finDocV N0 s migs0).demes (finDemeV d0) := by
  have hw := hinv.demes j d0 hj
  obtain ⟨e, r, he⟩ := List.exists_cons_of_ne_nil hw.ep.ne
  have hcl : d0.startTime = .inf → e.growthRate.getD 0 = 0 := fun hi => by
    rw [← curGrowth_cons he]; exact hgc j d0 hj hi
  have hfe := finDemeV_epochs he hcl
  have hsz := hw.ep.sizes
  rw [he] at hsz
  have hse := hsz e List.mem_cons_self
  refine ⟨?_, ?_, ?_, ?_, ?_, ?_, ?_, ?_, ?_, ?_⟩
  · rw [(finDemeV_header d0).1, name_of_getElem hn hj]
    exact isIdentifier_demeName j
  · rw [hfe]; exact List.cons_ne_nil _ _
  · intro e' he'
    rw [hfe] at he'
    rcases List.mem_cons.1 he' with rfl | h
    · exact hse
    · exact hsz e' (List.mem_cons_of_mem _ h)
  · intro e' he'
    rw [hfe] at he'
    rcases List.mem_cons.1 he' with rfl | h
    · exact ⟨rfl, finSize d0 e, rfl, by rw [finSize_coef]; exact hse⟩
    · exact hw.ep.closed e r he e' h
  · intro hinf e' r' h'
    rw [(finDemeV_header d0).2.1] at hinf
    rw [hfe] at h'
    obtain ⟨rfl, _⟩ := List.cons.inj h'
    show some (finSize d0 e) = some e.endSize
    rw [finSize_inf hinf]
  · rw [finDemeV_times]; exact hw.ep.times
  · rw [finDemeV_bEnd]; exact hw.ep.last0
  · intro e' r' h'
    rw [hfe] at h'
    obtain ⟨rfl, _⟩ := List.cons.inj h'
    rw [(finDemeV_header d0).2.1]
    exact (headLt_of_nonTransient hw hnt he : ETime.fin e.endTime < d0.startTime)
  · intro hinf
    rw [(finDemeV_header d0).2.1] at hinf
    rw [(finDemeV_header d0).2.2.1, (finDemeV_header d0).2.2.2]
    by_cases hjn : s.joined.contains j = true
    · obtain ⟨Tj, hst, _⟩ := hw.dead hjn
      rw [hst] at hinf; cases hinf
    · have hjn' : s.joined.contains j = false := by simpa using hjn
      exact (hw.live hjn').2
  · intro Tj hfin
    rw [(finDemeV_header d0).2.1] at hfin
    by_cases hjn : s.joined.contains j = true
    · obtain ⟨Tj', hst, h0, _, _, hanc⟩ := hw.dead hjn
      rw [hst] at hfin
      have : Tj' = Tj := ETime.fin.inj hfin
      subst this
      exact ⟨h0, finDocV_anc hn hj hanc⟩
    · have hjn' : s.joined.contains j = false := by simpa using hjn
      rw [(hw.live hjn').1] at hfin; cases hfin

/-! ## migrations and pulses of the document -/

theorem finDocV_migs {N0 : Q} {s : BState} {migs0 : List BMigration} (hn : NameInv s)
    (hmw : DocMigsWF s (migs0.map (scaleMig N0))) :
    DMigsWF (finDocV N0 s migs0).demes (finDocV N0 s migs0).migrations := by
  refine ⟨?_, hmw.disjoint, ?_⟩
  · intro m hm
    obtain ⟨j, k, q, dj, dk, hs, hd, hjk, hr, hq0, hq1, hdj, hdk, h0, h1, h2, h3, h4⟩ := hmw.shape m hm
    have hntj := nonTransient_of_alive h1 (etime_lt_of_lt_of_le h0 h3)
    have hntk := nonTransient_of_alive h2 (etime_lt_of_lt_of_le h0 h4)
    obtain ⟨a1, a2, a3, a4⟩ := refOK_mem (N0 := N0) (migs0 := migs0) hn hdj hntj
    obtain ⟨b1, b2, b3, b4⟩ := refOK_mem (N0 := N0) (migs0 := migs0) hn hdk hntk
    refine ⟨q, finDemeV dj, a1, finDemeV dk, b1, by rw [b2, hs], by rw [a2, hd], ?_, hr, hq0, hq1, h0,
      by rw [a3]; exact h1, by rw [b3]; exact h2, by rw [a4]; exact h3, by rw [b4]; exact h4⟩
    rw [a2, b2]
    intro e
    exact hjk (demeName_inj e)
  · intro d hd t
    obtain ⟨j, d0, hj, _, rfl⟩ := mem_finDocV.1 hd
    rw [(finDemeV_header d0).1, name_of_getElem hn hj]
    exact hmw.ingress j t

theorem finDocV_pulse {N0 : Q} {T : Q} {s : BState} {migs0 : List BMigration} (hinv : AccInvV T s) (hn : NameInv s)
    {p : BPulse} (hp : p ∈ (finDocV N0 s migs0).pulses.getD []) : DPulseWF (finDocV N0 s migs0).demes p := by
  have hp' : p ∈ s.pulses.getD [] := (pulses_getD s.pulses p).1 hp
  obtain ⟨j, k, q, dj, dk, hs, hd, hpr, hkj, hq0, hq1, ht0, _, hdj, hdk, h1, h2, h3, h4⟩ := (hinv.pulses p hp').shape
  have hntj := nonTransient_of_alive (Rat.le_of_lt h1) h3
  have hntk := nonTransient_of_alive h2 h4
  obtain ⟨a1, a2, a3, a4⟩ := refOK_mem (N0 := N0) (migs0 := migs0) hn hdj hntj
  obtain ⟨b1, b2, b3, b4⟩ := refOK_mem (N0 := N0) (migs0 := migs0) hn hdk hntk
  refine ⟨q, finDemeV dj, a1, finDemeV dk, b1, by rw [b2, hs], by rw [a2, hd], ?_, hpr, hq0, hq1, ht0,
    by rw [a3]; exact h1, by rw [b3]; exact h2, by rw [a4]; exact h3, by rw [b4]; exact h4⟩
  rw [a2, b2]
  intro e
  exact hkj (demeName_inj e)

/-- **the document of `finishDoc` is well-formed** -/
theorem finDocV_wf {N0 : Q} {T : Q} {s : BState} {migs0 : List BMigration} (hinv : AccInvV T s) (hn : NameInv s)
    (hgc : GrowthClosed s) (hmw : DocMigsWF s (migs0.map (scaleMig N0))) : DocWFV (finDocV N0 s migs0) := by
  refine ⟨finDocV_ne hinv, finDocV_nodup hn, finDocV_sorted, ?_, finDocV_migs hn hmw, fun p hp => finDocV_pulse hinv hn hp⟩
  intro d hd
  obtain ⟨j, d0, hj, hnt, rfl⟩ := mem_finDocV.1 hd
  exact finDocV_deme hinv hn hgc hj hnt

/-! ## `finishDoc` succeeds -/

/-- no pulse, migration or ancestor list mentions a transient deme -/
theorem finDocV_unreferenced {N0 : Q} {T : Q} {s : BState} {migs0 : List BMigration} (hinv : AccInvV T s)
    (hn : NameInv s) (hmw : DocMigsWF s (migs0.map (scaleMig N0))) {d : BDeme}
    (hd : d ∈ s.demes.map finDemeV) (hnt : nonTransient d = false) :
    Unreferenced { demes := s.demes.map finDemeV, migrations := migs0.map (scaleMig N0), pulses := s.pulses,
                   numPops := s.numDemes } (s.demes.map finDemeV) d := by
  obtain ⟨d0, hd0, rfl⟩ := List.mem_map.1 hd
  obtain ⟨j, hj⟩ := getElem_of_mem_demes hd0
  rw [finDemeV_nonTransient] at hnt
  unfold Unreferenced
  dsimp only
  rw [(finDemeV_header d0).1]
  refine ⟨?_, ?_, ?_⟩
  · intro p hp
    obtain ⟨r1, r2⟩ := pulse_refOK (hinv.pulses p hp)
    exact ⟨fun hmem => transient_not_ref hn hj hnt (r2 _ hmem),
      fun e => transient_not_ref hn hj hnt (e ▸ r1)⟩
  · intro m hm
    obtain ⟨r1, r2⟩ := mig_refOK hmw hm
    exact ⟨fun e => transient_not_ref hn hj hnt (e ▸ r1), fun e => transient_not_ref hn hj hnt (e ▸ r2)⟩
  · intro o ho hmem
    obtain ⟨o0, ho0, rfl⟩ := List.mem_map.1 ho
    obtain ⟨i, hi⟩ := getElem_of_mem_demes ho0
    rw [(finDemeV_header o0).2.2.1] at hmem
    exact transient_not_ref hn hj hnt (anc_refOK (hinv.demes i o0 hi) hmem)

/-- **`finishDoc` succeeds and returns `finDocV`** -/
theorem finishDoc_eqV {N0 : Q} {T : Q} {s : BState} {migs0 : List BMigration} (hinv : AccInvV T s) (hn : NameInv s)
    (hgc : GrowthClosed s)
    (hm : addMigrationsFromMatrices ((List.range s.numDemes).map Ms.demeName) s.mmList s.mmEndTimes = .ok migs0)
    (hmw : DocMigsWF s (migs0.map (scaleMig N0))) : finishDoc N0 s = .ok (finDocV N0 s migs0) := by
  have hnames : (s.demes.map finDemeV).map (·.name) = (List.range s.numDemes).map Ms.demeName := by
    rw [finDemeV_names]; exact hn
  have hne : s.demes.map finDemeV ≠ [] := by
    obtain ⟨j, d, hj, _⟩ := exists_nonTransient hinv
    intro e
    have : finDemeV d ∈ s.demes.map finDemeV := List.mem_map.2 ⟨d, List.mem_iff_getElem?.2 ⟨j, hj⟩, rfl⟩
    rw [e] at this; cases this
  have hrem := removeTransient_succeeds
    (doc := { demes := s.demes.map finDemeV, migrations := migs0.map (scaleMig N0), pulses := s.pulses,
              numPops := s.numDemes })
    hne (by rw [hnames]; rw [← hn]; exact names_nodup hn)
    (fun d hd hnt => finDocV_unreferenced hinv hn hmw hd hnt)
  unfold finishDoc
  rw [mapM_finaliseV hinv hgc]
  show (addMigrationsFromMatrices ((s.demes.map finDemeV).map (·.name)) s.mmList s.mmEndTimes >>= _) = _
  rw [hnames, hm]
  show (removeTransientDemes
    { demes := s.demes.map finDemeV, migrations := migs0.map (scaleMig N0), pulses := s.pulses, numPops := s.numDemes }
      >>= _) = _
  rw [hrem]
  rfl

end Demes.Proofs.MsGrow
