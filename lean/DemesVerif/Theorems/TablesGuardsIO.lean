/-
  Semantic tie of the load / dump helpers (C16): `_no_null_values`, `_stringify_infinities`,
  `_unstringify_infinities` of demes/load_dump.py.

  * `_no_null_values` and its three nested helpers are compiled, whole, into `Bool` functions
    ("does not raise") in which a call of a helper is a call of a function parameter
    (`Generated.io_*`).  The Model's `noNullObj` / `noNullList` / `noNullVal` / `noNullValues`
    (`Model/LoadDump.lean`) are proved to satisfy exactly these equations for ALL documents:
    which values are searched (`isinstance(.., dict)`, `isinstance(.., list)`), what is rejected
    (`is None`), what is skipped (the top-level key `metadata`).
  * `_stringify_infinities` / `_unstringify_infinities`: each `if` test is translated into a `Bool`
    function (`Generated.guard_stringify_*`, `guard_unstringify_*`) and the Model's functions are proved
    equal, for ALL documents, to their `…With` forms (Proofs/Guards2IO.lean) over these; the loops
    (which keys of the document are visited) and the assignments (what is written where, under which
    tests) are pinned as tables.
-/
import DemesVerif.Generated.GuardsIO
import DemesVerif.Proofs.Guards2IO
import DemesVerif.Model.ValueEq
import DemesVerif.Proofs.Guards
namespace Demes.Tables
open Demes Demes.Proofs.Guards Demes.Proofs.Guards2
set_option linter.unusedSimpArgs false

/-! ### `_no_null_values` -/

theorem guards_no_null_helpers :
    Generated.ioNoNullHelpers = ["check_if_None", "assert_no_nulls_in_list", "assert_no_nulls"] := by decide +kernel

/-- `check_if_None(key, val)` read on a Model value -/
def nnCheck (_k : String) (v : Value) : Bool := Generated.io_check_if_None (p2 := v)

/-- `check_if_None` rejects `None` and nothing else -/
theorem guards_tie_check_if_none (k : String) (v : Value) : nnCheck k v = !v.isNull := by
  unfold nnCheck Generated.io_check_if_None
  first | done | rfl

/-- what the Model does with one value is the source's three-way branch -/
theorem guards_tie_no_null_val (k : String) (v : Value) :
    noNullVal v = (if v.isDict then nnObj v else if v.isList then nnList k v else nnCheck k v) := by
  cases v <;> simp [noNullVal, nnObj, nnList, guards_tie_check_if_none, Value.isDict, Value.isList, Value.isNull]

/-- `assert_no_nulls(d)` -/
theorem guards_tie_no_null_obj (kvs : Obj) :
    noNullObj kvs = Generated.io_assert_no_nulls (assert_no_nulls := nnObj) (assert_no_nulls_in_list := nnList)
      (check_if_None := nnCheck) (p5 := .obj kvs) := by
  unfold Generated.io_assert_no_nulls
  rw [noNullObj_eq_all]
  simp only [Value.items]
  congr 1
  funext ⟨k, v⟩
  exact guards_tie_no_null_val k v

/-- `assert_no_nulls_in_list(k, v)` -/
theorem guards_tie_no_null_list (k : String) (xs : List Value) :
    noNullList xs = Generated.io_assert_no_nulls_in_list (assert_no_nulls := nnObj) (assert_no_nulls_in_list := nnList)
      (check_if_None := nnCheck) (p3 := k) (p4 := .list xs) := by
  unfold Generated.io_assert_no_nulls_in_list
  rw [noNullList_eq_all]
  simp only [Value.elems]
  congr 1
  funext v
  exact guards_tie_no_null_val k v

/-- `_no_null_values(data)`: everything but the top-level `metadata` -/
theorem guards_tie_no_null_values (data : Obj) :
    (noNullValues data).isOk = Generated.io_no_null_values (assert_no_nulls := nnObj) (p0 := .obj data) := by
  unfold noNullValues Generated.io_no_null_values
  have h : (fun (kv : String × Value) => decide (kv.1 ≠ "metadata"))
      = (fun (x : String × Value) => match x with | (k, _v) => k != "metadata") := by
    funext ⟨k, v⟩
    by_cases hk : k = "metadata" <;> simp [hk, bne]
  simp only [Value.items, nnObj, h]
  split <;> simp_all [Except.isOk, Except.toBool, pure, Except.pure, valueErr]

/-! ### `_stringify_infinities` -/

theorem guards_sites_io : Generated.guardSitesIO =
    [("_stringify_infinities", 2, 0), ("_unstringify_infinities", 4, 0)] := by decide +kernel

theorem guards_context_io : Generated.guardContextIO =
    [("guard_stringify_deme", ["for v0 in p0['demes']"]),
     ("guard_stringify_migration", ["for v1 in p0.get('migrations', [])"]),
     ("guard_unstringify_deme", ["for v0 in p0['demes']"]),
     ("guard_unstringify_migration", ["for v2 in p0.get('migrations', [])"]),
     ("guard_unstringify_default_key", ["for v3 in p0.get('defaults', [])"]),
     ("guard_unstringify_default", ["for v3 in p0.get('defaults', [])", "if v3 in ['migration', 'deme']"])] := by
  decide +kernel

theorem guards_stringify_loops : Generated.ioStringifyLoops =
    ["for v0 in p0['demes']", "for v1 in p0.get('migrations', [])"] := by decide +kernel

/-- only `start_time` is written, with `_INFINITY_STR` (tied to `infinityStr` by `tables_infinity_str`) -/
theorem guards_stringify_assignments : Generated.ioStringifyAssignments =
    [("v0['start_time']", "_INFINITY_STR", ["for v0 in p0['demes']",
        "if 'start_time' in v0 and math.isinf(v0['start_time'])"]),
     ("v1['start_time']", "_INFINITY_STR", ["for v1 in p0.get('migrations', [])",
        "if 'start_time' in v1 and math.isinf(v1['start_time'])"])] := by decide +kernel

/-- `"start_time" in deme and math.isinf(deme["start_time"])` -/
theorem guard_stringify_deme_meaning (n : Num) :
    Generated.guard_stringify_deme (has_v0_start_time := true) (v0_start_time := n) = n.isInf := by
  unfold Generated.guard_stringify_deme
  cases n <;> guard_close

theorem guard_stringify_migration_meaning (n : Num) :
    Generated.guard_stringify_migration (has_v1_start_time := true) (v1_start_time := n) = n.isInf := by
  unfold Generated.guard_stringify_migration
  cases n <;> guard_close

theorem guards_tie_stringify_infinities : stringifyInfinities = stringifyInfinitiesWith
    (fun h n => Generated.guard_stringify_deme (has_v0_start_time := h) (v0_start_time := n))
    (fun h n => Generated.guard_stringify_migration (has_v1_start_time := h) (v1_start_time := n)) := by
  exact (stringifyInfinitiesWith_eq _ _ guard_stringify_deme_meaning guard_stringify_migration_meaning).symm

/-! ### `_unstringify_infinities` -/

theorem guards_unstringify_loops : Generated.ioUnstringifyLoops =
    ["for v0 in p0['demes']", "for v2 in p0.get('migrations', [])",
     "for v3 in p0.get('defaults', [])"] := by decide +kernel

/-- only `start_time` is written, with `float(start_time)` = `float("Infinity")` under the test -/
theorem guards_unstringify_assignments : Generated.ioUnstringifyAssignments =
    [("v0['start_time']", "float(v1)", ["for v0 in p0['demes']", "if v1 == _INFINITY_STR"]),
     ("v2['start_time']", "float(v1)", ["for v2 in p0.get('migrations', [])",
        "if v1 == _INFINITY_STR"]),
     ("p0['defaults'][v3]['start_time']", "float(v1)", ["for v3 in p0.get('defaults', [])",
        "if v3 in ['migration', 'deme']", "if v1 == _INFINITY_STR"])] := by decide +kernel

/-- `deme.get("start_time") == _INFINITY_STR` -/
theorem guard_unstringify_deme_meaning (s : String) :
    Generated.guard_unstringify_deme (v0_get_start_time := s) = decide (s = infinityStr) := by
  unfold Generated.guard_unstringify_deme infinityStr
  first | rfl | simp | grind

theorem guard_unstringify_migration_meaning (s : String) :
    Generated.guard_unstringify_migration (v2_get_start_time := s) = decide (s = infinityStr) := by
  unfold Generated.guard_unstringify_migration infinityStr
  first | rfl | simp | grind

/-- `default in ["migration", "deme"]` -/
theorem guard_unstringify_default_key_meaning (s : String) :
    Generated.guard_unstringify_default_key (v3 := s) = (decide (s = "migration") || decide (s = "deme")) := by
  unfold Generated.guard_unstringify_default_key
  by_cases h1 : s = "migration" <;> by_cases h2 : s = "deme" <;> simp [h1, h2]

/-- `data["defaults"][default].get("start_time") == _INFINITY_STR` -/
theorem guard_unstringify_default_meaning (s : String) :
    Generated.guard_unstringify_default (p0_defaults_v3_get_start_time := s) = decide (s = infinityStr) := by
  unfold Generated.guard_unstringify_default infinityStr
  first | rfl | simp | grind

theorem guards_tie_unstringify_infinities : unstringifyInfinities = unstringifyInfinitiesWith
    (fun s => Generated.guard_unstringify_deme (v0_get_start_time := s))
    (fun s => Generated.guard_unstringify_migration (v2_get_start_time := s))
    (fun s => Generated.guard_unstringify_default_key (v3 := s))
    (fun s => Generated.guard_unstringify_default (p0_defaults_v3_get_start_time := s)) := by
  exact (unstringifyInfinitiesWith_eq _ _ _ _ guard_unstringify_deme_meaning guard_unstringify_migration_meaning
    guard_unstringify_default_key_meaning guard_unstringify_default_meaning).symm

/-! ### the entry points: which helper / codec / resolver is called where

`load_asdict` (and `load_all`, per document): parse, then `_no_null_values`, then `_unstringify_infinities`
(Model: `loadAsdictValue`); `dump`: `asdict_simplified()` or `asdict()`, `_stringify_infinities` for JSON only, and
`json.dump(.., allow_nan=False, ..)` (Model: `dumpValue`); `loads` / `load`: `Graph.fromdict` of that (Model: `load`). -/

theorem guards_io_pipeline : Generated.ioPipeline =
    [
   ("loads_asdict", [("load_asdict(v0, format=format)", ["With"])]),
     ("load_asdict", [("json.load(v0)", ["if format == 'json'", "With"]), ("_load_yaml_asdict(v0)", ["else of if format == 'json'", "if format == 'yaml'", "With"]), ("_no_null_values(v1)", []), ("_unstringify_infinities(v1)", [])]),
     ("loads", [("loads_asdict(string, format=format)", []), ("demes.Graph.fromdict(v0)", [])]),
     ("load", [("load_asdict(filename, format=format)", []), ("demes.Graph.fromdict(v0)", [])]),
     ("load_all", [("v1.load_all(v0)", ["With", "With"]), ("_no_null_values(v2)", ["With", "With", "for v2 in v1.load_all(v0)"]), ("_unstringify_infinities(v2)", ["With", "With", "for v2 in v1.load_all(v0)"]), ("demes.Graph.fromdict(v2)", ["With", "With", "for v2 in v1.load_all(v0)"])]),
     ("dumps", [("dump(graph, v0, format=format, simplified=simplified)", ["With"])]),
     ("dump", [("graph.asdict_simplified()", ["if simplified"]), ("graph.asdict()", ["else of if simplified"]), ("_stringify_infinities(v0)", ["if format == 'json'", "With"]), ("json.dump(v0, v1, allow_nan=False, indent=2)", ["if format == 'json'", "With"]), ("_dump_yaml_fromdict(v0, v1)", ["else of if format == 'json'", "if format == 'yaml'", "With"])]),
     ("dump_all", [("v1.asdict_simplified()", ["With", "for v1 in graphs", "if simplified"]), ("v1.asdict()", ["With", "for v1 in graphs", "else of if simplified"]), ("_dump_yaml_fromdict(v2, v0, multidoc=True)", ["With", "for v1 in graphs"])])] := by decide +kernel

/-! ### the generated functions and the `…With` forms really depend on their arguments -/

section sensitivity

def exDoc : Obj :=
  [("time_units", .str "generations"), ("metadata", .obj [("x", .null)]),
   ("demes", .list [.obj [("name", .str "a"), ("start_time", .num .pinf),
      ("epochs", .list [.obj [("start_size", .num (.fin 1)), ("end_time", .num (.fin 0))]])]])]

example : Generated.io_no_null_values (assert_no_nulls := nnObj) (p0 := .obj exDoc) = true := by decide +kernel
example : Generated.io_no_null_values (assert_no_nulls := nnObj) (p0 := .obj (exDoc ++ [("doi", .list [.null])])) = false := by
  decide +kernel
example : Generated.io_no_null_values (assert_no_nulls := nnObj)
    (p0 := .obj (exDoc ++ [("defaults", .obj [("epoch", .obj [("end_time", .null)])])])) = false := by decide +kernel
-- nested lists are searched
example : nnList "k" (.list [.list [.list [.null]]]) = false ∧ nnList "k" (.list [.list [.list [.str "x"]]]) = true := by
  decide +kernel
example : (stringifyInfinities exDoc).lookup "demes" = some (.list [.obj [("name", .str "a"), ("start_time", .str "Infinity"),
      ("epochs", .list [.obj [("start_size", .num (.fin 1)), ("end_time", .num (.fin 0))]])]]) := by decide +kernel
example : stringifyInfinitiesWith (fun _ _ => false) (fun _ _ => true) exDoc = exDoc := by decide +kernel
example : (unstringifyInfinitiesWith (fun _ => true) (fun _ => false) (fun _ => false) (fun _ => false)
      [("demes", .list [.obj [("start_time", .str "whatever")]])]).toOption
    = some [("demes", .list [.obj [("start_time", .num .pinf)]])] := by decide +kernel

end sensitivity

end Demes.Tables
