/-
  C07 — the shape of the `-es` / `-ej` options, and the populations a split creates.
-/
import DemesVerif.Proofs.ToMsAlive
set_option linter.unusedSimpArgs false
set_option linter.unusedVariables false
namespace Demes.Proofs.ToMs
open Demes Demes.Ms Demes.Spec Demes.Spec.C07 Demes.Proofs.RV

/-! ### the arguments of the ancestry options -/

/-- a well-formed `-es` / `-ej` option over `n0` graph populations -/
def AncEvOk (n0 : Nat) : Event Growth → Prop
  | .split _ t i p => (∃ q, t = .fin q) ∧ (∃ y, p = .fin y ∧ 0 ≤ y ∧ y ≤ 1) ∧ 1 ≤ i ∧ i ≤ (n0 : Int)
  | .join _ t i j => (∃ q, t = .fin q) ∧ 1 ≤ i ∧ 1 ≤ j ∧ j ≤ (n0 : Int) ∧ i ≠ j
  | _ => False

theorem idOf_range {g : Graph} {name : String} (h : (g.demeId? name).isSome = true) :
    1 ≤ idOf g name ∧ idOf g name ≤ (g.demes.length : Int) :=
  ⟨by have := idOf_pos g name; omega, idOf_le h⟩

theorem tailProp_range {d : Deme} (hpos : ∀ p ∈ d.proportions, 0 < p) {k : Nat} (hk : k < d.proportions.length) :
    0 ≤ 1 - tailProp d k ∧ 1 - tailProp d k ≤ 1 := by
  have hpk : d.proportions[k]? = some d.proportions[k] := List.getElem?_eq_getElem hk
  have hp : 0 < d.proportions[k] := hpos _ (List.getElem_mem _)
  have hge := sumFrom_ge hpos hpk
  have hdpos : 0 < sumFrom d.proportions k := by grind
  have hgetD : d.proportions.getD k 0 = d.proportions[k] := by simp [List.getD, hpk]
  have h1 : tailProp d k ≤ 1 := by unfold tailProp; rw [hgetD]; exact div_le_one hdpos hge
  have h0 : 0 < tailProp d k := by unfold tailProp; rw [hgetD]; exact (InGen.div_pos hdpos).2 hp
  constructor <;> grind

theorem ancEvOk_ancDemeEvs {g : Graph} (c : Clauses g) {d : Deme} (hd : d ∈ g.demes) {ev : Event Growth} :
    ∀ (aks : List (String × Nat)) (n : Nat), g.demes.length ≤ n →
      (∀ ak ∈ aks, ak.1 ∈ d.ancestors ∧ ak.2 < d.ancestors.length) →
      ev ∈ ancDemeEvs g d n aks → AncEvOk g.demes.length ev
  | [], _, _, _, h => by simp [ancDemeEvs] at h
  | (a, k) :: r, n, hn, hmem, h => by
    have hok := demeAncOk_of_valid c hd
    obtain ⟨ha, hk⟩ := hmem (a, k) List.mem_cons_self
    obtain ⟨t, hst, _⟩ := hok.start (List.ne_nil_of_mem ha)
    have hme := idOf_range hok.me
    have han := idOf_range (hok.anc a ha)
    have hne : idOf g d.name ≠ idOf g a := by
      intro heq
      have := idOf_inj hok.me (hok.anc a ha) heq
      have h2 := c.h2
      simp only [v2, List.all_eq_true, Bool.and_eq_true, decide_eq_true_eq, Bool.not_eq_true'] at h2
      obtain ⟨i, hi⟩ := List.mem_iff_getElem?.mp hd
      have hz : (d, i) ∈ g.demes.zipIdx := by rw [List.mem_zipIdx_iff_getElem?]; simpa using hi
      have := (h2 (d, i) hz).2
      rw [← ‹d.name = a›] at ha
      simp [ha] at this
    have hrec : ∀ n', g.demes.length ≤ n' → ev ∈ ancDemeEvs g d n' r → AncEvOk g.demes.length ev :=
      fun n' hn' h' => ancEvOk_ancDemeEvs c hd r n' hn' (fun ak hak => hmem ak (List.mem_cons_of_mem _ hak)) h'
    simp only [ancDemeEvs] at h
    split at h
    · rcases List.mem_cons.1 h with h | h
      · subst h
        exact ⟨⟨t, by simp [hst, Num.ofETime]⟩, hme.1, han.1, han.2, hne⟩
      · exact hrec n hn h
    · rcases List.mem_cons.1 h with h | h
      · subst h
        have hkp : k < d.proportions.length := by rw [hok.len]; exact hk
        exact ⟨⟨t, by simp [hst, Num.ofETime]⟩, ⟨_, rfl, (tailProp_range hok.pos hkp).1, (tailProp_range hok.pos hkp).2⟩,
          hme.1, hme.2⟩
      · rcases List.mem_cons.1 h with h | h
        · subst h
          refine ⟨⟨t, by simp [hst, Num.ofETime]⟩, by omega, han.1, han.2, ?_⟩
          have := han.2
          omega
        · exact hrec (n + 1) (by omega) h

theorem ancEvOk_ancEvs {g : Graph} (c : Clauses g) (hx : MsExpressible g = true) {ev : Event Growth} :
    ∀ (xs : List DemeOrPulse) (n : Nat), g.demes.length ≤ n → (∀ x ∈ xs, InGraph g x) →
      ev ∈ ancEvs g n xs → AncEvOk g.demes.length ev
  | [], _, _, _, h => by simp [ancEvs] at h
  | .deme d :: r, n, hn, hmem, h => by
    simp only [ancEvs, List.mem_append] at h
    rcases h with h | h
    · exact ancEvOk_ancDemeEvs c (hmem _ List.mem_cons_self) _ n hn (fun ak hak => mem_zipIdx_anc hak) h
    · exact ancEvOk_ancEvs c hx r _ (Nat.le_trans hn (ancDemeCount_ge d _ n))
        (fun x hx' => hmem x (List.mem_cons_of_mem _ hx')) h
  | .pulse p :: r, n, hn, hmem, h => by
    simp only [ancEvs, List.mem_append] at h
    rcases h with h | h
    · have hp : p ∈ g.pulses := hmem _ List.mem_cons_self
      have hok := pulseOk_of_valid c hx hp
      obtain ⟨s, hs, hsid⟩ := hok.src
      obtain ⟨p0, hp0, hpos, hle⟩ := hok.prop
      have hhd : p.proportions.headD 0 = p0 := by
        cases hpp : p.proportions with
        | nil => simp [hpp] at hp0
        | cons x xs => simp [hpp] at hp0 ⊢; exact hp0
      have hd := idOf_range hok.dest
      have hsr := idOf_range hsid
      simp only [pulseEvs, List.mem_cons, List.not_mem_nil, or_false] at h
      rcases h with rfl | rfl
      · exact ⟨⟨_, rfl⟩, ⟨_, rfl, by rw [hhd]; grind, by rw [hhd]; grind⟩, hd.1, hd.2⟩
      · rw [hs]
        simp only [List.headD_cons]
        refine ⟨⟨_, rfl⟩, by omega, hsr.1, hsr.2, ?_⟩
        have := hsr.2
        omega
    · exact ancEvOk_ancEvs c hx r _ (by omega) (fun x hx' => hmem x (List.mem_cons_of_mem _ hx')) h

/-! ### which split created the population an `-ej` joins -/

def isSplitEv : Event Growth → Bool
  | .split .. => true
  | _ => false

theorem wn_join_new (n0 : Nat) : ∀ (n : Nat) (L : List (Event Growth)), wellNumbered n0 n L = true →
    ∀ A o t i' j B, L = A ++ Event.join o t i' j :: B → (n0 : Int) < i' →
      ∃ A' sp, A = A' ++ [sp] ∧ isSplitEv sp = true ∧ i' = ((n + (A'.filter isSplitEv).length + 1 : Nat) : Int) := by
  intro n L
  induction n, L using wellNumbered.induct with
  | case1 n => intro _ A o t i' j B h; simp at h
  | case2 n o1 t1 i1 p1 o2 t2 i2 j2 r ih =>
    intro hw A o t i' j B h hlt
    rw [wellNumbered_split] at hw
    simp only [Bool.and_eq_true, beq_iff_eq, decide_eq_true_eq] at hw
    obtain ⟨⟨⟨⟨⟨⟨_, hi2⟩, _⟩, _⟩, _⟩, _⟩, hwr⟩ := hw
    cases A with
    | nil => simp at h
    | cons a A1 =>
      simp only [List.cons_append, List.cons.injEq] at h
      obtain ⟨rfl, h⟩ := h
      cases A1 with
      | nil =>
        simp only [List.nil_append, List.cons.injEq, Event.join.injEq] at h
        obtain ⟨⟨_, _, rfl, _⟩, _⟩ := h
        exact ⟨[], _, rfl, rfl, by simp [hi2]⟩
      | cons b A2 =>
        simp only [List.cons_append, List.cons.injEq] at h
        obtain ⟨rfl, h⟩ := h
        obtain ⟨A', sp, hA, hsp, hi⟩ := ih hwr A2 o t i' j B h hlt
        refine ⟨_ :: _ :: A', sp, by rw [hA]; rfl, hsp, ?_⟩
        rw [hi]
        simp [List.filter_cons, isSplitEv]
        omega
  | case3 n o1 t1 i1 j1 r ih =>
    intro hw A o t i' j B h hlt
    rw [wellNumbered_join] at hw
    simp only [Bool.and_eq_true, decide_eq_true_eq] at hw
    obtain ⟨⟨⟨⟨_, hi1⟩, _⟩, _⟩, hwr⟩ := hw
    cases A with
    | nil =>
      simp only [List.nil_append, List.cons.injEq, Event.join.injEq] at h
      obtain ⟨⟨_, _, rfl, _⟩, _⟩ := h
      omega
    | cons a A1 =>
      simp only [List.cons_append, List.cons.injEq] at h
      obtain ⟨rfl, h⟩ := h
      obtain ⟨A', sp, hA, hsp, hi⟩ := ih hwr A1 o t i' j B h hlt
      refine ⟨_ :: A', sp, by rw [hA]; rfl, hsp, ?_⟩
      rw [hi]
      simp [List.filter_cons, isSplitEv]
  | case4 L n h1 h2 h3 =>
    intro hw
    unfold wellNumbered at hw
    split at hw
    · exact absurd rfl h1
    · exact (h2 _ _ _ _ _ _ _ _ _ rfl).elim
    · exact (h3 _ _ _ _ _ rfl).elim
    · cases hw

/-- a list whose filter ends with `x` splits at that occurrence of `x` -/
theorem filter_eq_append_singleton {α} {p : α → Bool} {l A : List α} {x : α} (h : l.filter p = A ++ [x]) :
    ∃ a b, l = a ++ x :: b ∧ a.filter p = A ∧ b.filter p = [] := by
  obtain ⟨l1, l2, hl, h1, h2⟩ := List.filter_eq_append_iff.1 h
  obtain ⟨b0, b, hl2, hb0, _, hb⟩ := List.filter_eq_cons_iff.1 h2
  refine ⟨l1 ++ b0, b, by rw [hl, hl2]; simp, ?_, hb⟩
  rw [List.filter_append, h1]
  have : b0.filter p = [] := by
    rw [List.filter_eq_nil_iff]; intro y hy; simp [hb0 y hy]
  rw [this, List.append_nil]

end Demes.Proofs.ToMs
