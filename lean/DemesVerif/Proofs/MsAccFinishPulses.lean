/-
  C09 (acceptance), after the event loop — the pulse clauses of `validGraph (docGraph tab doc)`:
  `DocWF doc` ⟹ `v11` (every pulse is well-formed inside the lifetimes of its demes) and `v12`
  (the pulses are listed oldest first; they are the stable descending sort of the document's pulses).
-/
import DemesVerif.Proofs.MsAccFinishDefs
namespace Demes.Proofs.MsAcc
open Demes Demes.Ms Demes.Spec Demes.Spec.C08 Demes.Proofs.FromMs
open Demes.Proofs.Accepts (sortDescStable_stable sortDescStable_perm)

/-! ## V12 -/

theorem pairwiseB_of_pairwise {α} (r : α → α → Bool) : ∀ {l : List α},
    l.Pairwise (fun a b => r a b = true) → pairwiseB r l = true := by
  intro l
  induction l with
  | nil => intro _; rfl
  | cons x xs ih =>
    intro h
    rw [List.pairwise_cons] at h
    unfold pairwiseB
    rw [Bool.and_eq_true, List.all_eq_true]
    exact ⟨h.1, ih h.2⟩

theorem docwf_v12 {doc : MsDoc} (_h : DocWF doc) (tab : List (Sz × Q)) : v12 (docGraph tab doc) = true := by
  unfold v12
  apply pairwiseB_of_pairwise
  show (sortDescStable (fun p : Pulse => p.time) ((doc.pulses.getD []).map bp2p)).Pairwise _
  refine (sortDescStable_stable (fun p : Pulse => p.time) ((doc.pulses.getD []).map bp2p)).sorted.imp ?_
  intro a b hab
  exact decide_eq_true hab

/-! ## V11 -/

/-- a pulse of the explicit graph is a pulse of the document -/
theorem mem_docGraph_pulses {tab : List (Sz × Q)} {doc : MsDoc} {p' : Pulse}
    (h : p' ∈ (docGraph tab doc).pulses) : ∃ p ∈ doc.pulses.getD [], p' = bp2p p := by
  have h1 : p' ∈ (doc.pulses.getD []).map bp2p :=
    (sortDescStable_perm (fun p : Pulse => p.time) ((doc.pulses.getD []).map bp2p)).mem_iff.1 h
  obtain ⟨p, hp, rfl⟩ := List.mem_map.1 h1
  exact ⟨p, hp, rfl⟩

theorem qmax_le_of_le_p {a b c : Q} (ha : a ≤ c) (hb : b ≤ c) : qmax a b ≤ c := by
  unfold qmax; split <;> assumption

theorem etime_le_min {a b c : ETime} (hb : a ≤ b) (hc : a ≤ c) : a ≤ ETime.min b c := by
  unfold ETime.min; split <;> assumption

/-- the source part of V11 for the one source -/
theorem pulse_source_ok {t : Q} {sd d : Deme} (he1 : sd.endTime ≤ t) (he2 : d.endTime ≤ t)
    (hs1 : ETime.fin t < sd.startTime) (hs2 : ETime.fin t < d.startTime) :
    (match coexist sd d with
      | (lo, hi) => decide (lo ≤ t) && decide (ETime.fin t ≤ hi) && (ETime.fin t != sd.startTime)) = true := by
  unfold coexist
  dsimp only
  rw [Bool.and_eq_true, Bool.and_eq_true, decide_eq_true_eq, decide_eq_true_eq, bne_iff_ne]
  exact ⟨⟨qmax_le_of_le_p he1 he2, etime_le_min (etime_le_of_lt hs1) (etime_le_of_lt hs2)⟩, etime_lt_ne hs1⟩

/-- the V11 body on one well-formed pulse of the document -/
theorem pulse_ok {doc : MsDoc} (h : DocWF doc) (tab : List (Sz × Q)) {p : BPulse}
    (hp : DPulseWF doc.demes p) :
    (!(bp2p p).sources.isEmpty && decide ((bp2p p).sources.Nodup) && !(bp2p p).sources.contains (bp2p p).dest
    && (bp2p p).sources.length == (bp2p p).proportions.length
    && (bp2p p).proportions.all (fun x => decide (0 < x) && decide (x ≤ 1))
    && decide (qsumS (bp2p p).proportions ≤ 1)
    && decide (0 < (bp2p p).time)
    && match findDeme (docGraph tab doc) (bp2p p).dest with
       | none => false
       | some d =>
         (bp2p p).time != d.endTime &&
         (bp2p p).sources.all (fun s =>
           match findDeme (docGraph tab doc) s with
           | none => false
           | some sd =>
             let (lo, hi) := coexist sd d
             decide (lo ≤ (bp2p p).time) && decide (ETime.fin (bp2p p).time ≤ hi)
               && (ETime.fin (bp2p p).time != sd.startTime))) = true := by
  obtain ⟨q, dj, hdj, dk, hdk, hsrc, hdst, hne, hprop, hq0, hq1, ht0, hej, hek, hsj, hsk⟩ := hp.shape
  show (!p.sources.isEmpty && decide (p.sources.Nodup) && !p.sources.contains p.dest
    && p.sources.length == p.proportions.length
    && p.proportions.all (fun x => decide (0 < x) && decide (x ≤ 1))
    && decide (qsumS p.proportions ≤ 1)
    && decide (0 < p.time)
    && match findDeme (docGraph tab doc) p.dest with
       | none => false
       | some d =>
         p.time != d.endTime &&
         p.sources.all (fun s =>
           match findDeme (docGraph tab doc) s with
           | none => false
           | some sd =>
             let (lo, hi) := coexist sd d
             decide (lo ≤ p.time) && decide (ETime.fin p.time ≤ hi)
               && (ETime.fin p.time != sd.startTime))) = true
  rw [hsrc, hdst, hprop, findDeme_doc tab h.nodup hdj]
  have hsum : qsumS [q] ≤ 1 := by
    show q + 0 ≤ 1
    rw [Rat.add_zero]; exact hq1
  have hc : ([dk.name].contains dj.name) = false := by
    rw [List.contains_eq_mem, decide_eq_false_iff_not, List.mem_singleton]
    exact fun e => hne e.symm
  have hend : (p.time != (docDeme tab dj).endTime) = true := by
    rw [docDeme_endTime, bne_iff_ne]
    exact fun e => by rw [e] at hej; exact absurd hej (Rat.lt_irrefl)
  have hsrcs : ([dk.name].all (fun s =>
           match findDeme (docGraph tab doc) s with
           | none => false
           | some sd =>
             let (lo, hi) := coexist sd (docDeme tab dj)
             decide (lo ≤ p.time) && decide (ETime.fin p.time ≤ hi)
               && (ETime.fin p.time != sd.startTime))) = true := by
    rw [List.all_cons, List.all_nil, Bool.and_true, findDeme_doc tab h.nodup hdk]
    apply pulse_source_ok
    · rw [docDeme_endTime]; exact hek
    · rw [docDeme_endTime]; exact Rat.le_of_lt hej
    · exact hsk
    · exact hsj
  dsimp only
  rw [hc, hend, hsrcs, decide_eq_true hsum, decide_eq_true ht0]
  simp [hq0, hq1]

theorem docwf_v11 {doc : MsDoc} (h : DocWF doc) (tab : List (Sz × Q)) : v11 (docGraph tab doc) = true := by
  unfold v11
  rw [List.all_eq_true]
  intro p' hp'
  obtain ⟨p, hp, rfl⟩ := mem_docGraph_pulses hp'
  exact pulse_ok h tab (h.pulses p hp)

#print axioms docwf_v11
#print axioms docwf_v12

end Demes.Proofs.MsAcc
