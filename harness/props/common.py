"""Shared helpers of the property modules."""
from __future__ import annotations

import copy
import json
import math
from fractions import Fraction

import demes

import gen_graphs as G
import impl
from wire import canon, canon_eq, dec, enc, show


def index_of(g):
    """the name index of a real Graph as [[name, position of the deme object]]"""
    pos = {id(d): i for i, d in enumerate(g.demes)}
    return [[k, pos.get(id(v), -1)] for k, v in g._deme_map.items()]


def example_graphs():
    """the example models shipped with the repository (examples/*.yaml of the tree under test):
    realistic documents with defaults sections, many demes and non-dyadic numbers — used first by the
    modules whose comparison involves no arithmetic on the numbers"""
    import glob
    import os
    root = os.environ.get("VERIF_REPO", "/repo")
    out = []
    for f in sorted(glob.glob(os.path.join(root, "examples", "*.yaml"))):
        try:
            doc = demes.load_asdict(f)
            c = impl.resolve(doc)
        except Exception:  # noqa: BLE001
            continue
        if c[0] == "ok":
            out.append((doc, c[2], ["example:" + os.path.basename(f)]))
    return out


def gen_valid_graphs(ctx, n, corpus=False, **kw):
    """n (doc, graph, model features) triples accepted by the implementation"""
    out = []
    if corpus and not getattr(ctx, "_examples_done", False):
        ctx._examples_done = True
        out = example_graphs()
    tries = 0
    while len(out) < n and tries < 20 * n + 100:
        tries += 1
        m = G.gen_model(ctx.rng, **kw)
        doc = G.spell(m, ctx.rng, level=ctx.rng.choice([0, 0.5, 1]))
        c = impl.resolve(doc)
        if c[0] == "ok":
            out.append((doc, c[2], G.features(m)))
    return out


def valid_requests(graphs):
    """driver requests evaluating Spec.validGraph on the implementation's graphs"""
    return [{"op": "valid", "graph": enc(g.asdict()), "index": index_of(g)} for g in graphs]


def check_valid(ctx, graphs, origin, docs=None):
    """C01's oracle: the independent validator must accept every graph the library hands out"""
    reps = ctx.driver.batch(valid_requests(graphs))
    bad = 0
    for i, (g, r) in enumerate(zip(graphs, reps)):
        failing = r.get("ok")
        if failing is None or failing != []:
            bad += 1
            ctx.violation(
                f"{origin}: returned graph violates data-model clause(s) {failing if failing is not None else r}",
                {"origin": origin, "graph": show(canon(g.asdict())), "index": index_of(g),
                 "document": (docs[i] if docs else None)},
                detail={"failing_clauses": failing},
            )
    return bad


def py_repro(doc, expr):
    return ("/venv/bin/python -c \"import demes, json, math; inf=math.inf; "
            f"g=demes.Graph.fromdict({doc!r}); print({expr})\"")
