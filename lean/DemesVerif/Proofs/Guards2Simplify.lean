/-
  Support for `Theorems/TablesGuardsSimplify.lean` (C05).  Nothing here depends on `Generated/`.
  `…With`: the functions of `Model/Simplify.lean` that inline a test of `Graph.asdict_simplified`, written once
  more with the test abstracted; they only occur on the right-hand side of the `guards_tie_*` equations.
-/
import DemesVerif.Model.NumClose
import DemesVerif.Model.Simplify
import DemesVerif.Proofs.Guards
namespace Demes.Proofs.Guards2
open Demes

/-- `Epoch.simplified`: `gInfer start_size end_size` chooses the inferred size function, `gSizeFn size_function
inferred`, `gEnd start_size end_size`, `gSelf selfing_rate`, `gClone cloning_rate` delete a field -/
def epochSimplifiedWith (gInfer : Num → Num → Bool) (gSizeFn : String → String → Bool) (gEnd : Num → Num → Bool)
    (gSelf gClone : Num → Bool) (e : Epoch) : Value :=
  let inferred := if gInfer (.fin e.startSize) (.fin e.endSize) then "constant" else "exponential"
  .obj ([("end_time", numV e.endTime), ("start_size", numV e.startSize)]
        ++ (if gEnd (.fin e.startSize) (.fin e.endSize) then [] else [("end_size", numV e.endSize)])
        ++ (if gSizeFn e.sizeFunction inferred then [] else [("size_function", .str e.sizeFunction)])
        ++ (if gSelf (.fin e.selfingRate) then [] else [("selfing_rate", numV e.selfingRate)])
        ++ (if gClone (.fin e.cloningRate) then [] else [("cloning_rate", numV e.cloningRate)]))

/-- `Deme.simplified`: `gInf start_time`, `gSingle ("ancestors" in deme) len(ancestors)`, `gUnit proportions`,
`gImplied self[ancestors[0]].end_time start_time` -/
def demeSimplifiedWith (gInf : Num → Bool) (gSingle : Bool → Nat → Bool) (gUnit : List Num → Bool)
    (gImplied : Num → Num → Bool) (g : Graph) (d : Deme) : Value :=
  let singleAnc := gSingle (!d.ancestors.isEmpty) d.ancestors.length
  let dropStart : Bool :=
    gInf (Num.ofETime d.startTime) ||
    (singleAnc && match d.ancestors.head? with
      | some a => (match g.deme? a with
          | some anc => gImplied (.fin anc.endTime) (Num.ofETime d.startTime)
          | none => false)
      | none => false)
  let dropProps : Bool := d.proportions.isEmpty || (singleAnc && gUnit (d.proportions.map Num.fin))
  .obj ([("name", .str d.name)]
        ++ (if d.description.isEmpty then [] else [("description", .str d.description)])
        ++ (if dropStart then [] else [("start_time", timeV d.startTime)])
        ++ (if d.ancestors.isEmpty then [] else [("ancestors", strsV d.ancestors)])
        ++ (if dropProps then [] else [("proportions", numsV d.proportions)])
        ++ [("epochs", .list (d.epochs.map Epoch.simplified))])

/-- `stripBounds`: `gEnd migration.end_time self[source].end_time self[dest].end_time`, `gStart` likewise -/
def stripBoundsWith (gEnd gStart : Num → Num → Num → Bool) (g : Graph) (m : Migration) : AMig :=
  let s := g.deme? m.source
  let d := g.deme? m.dest
  { source := m.source, dest := m.dest,
    start := match s, d with
      | some s, some d =>
        if gStart (Num.ofETime m.startTime) (Num.ofETime s.startTime) (Num.ofETime d.startTime) then none
        else some m.startTime
      | _, _ => some m.startTime,
    stop := match s, d with
      | some s, some d =>
        if gEnd (.fin m.endTime) (.fin s.endTime) (.fin d.endTime) then none else some m.endTime
      | _, _ => some m.endTime,
    rate := m.rate }

/-- `collapseDemes`: `g1 all_demes pair[0]`, `g2 all_demes pair[1]` append the name -/
def collapseDemesWith (g1 g2 : List String → String → Bool) (pairs : List (String × String)) : List String :=
  pairs.foldl (fun acc p =>
    let acc := if g1 acc p.1 then acc ++ [p.1] else acc
    if g2 acc p.2 then acc ++ [p.2] else acc) []

/-- `searchLoop`: `gLoop len(all_demes) i` is the `while` test -/
def searchLoopWith (gLoop : Nat → Num → Bool) (k : RateKey) : Nat → List String → Nat → SearchState → SearchState
  | 0, _, _, st => st
  | fuel + 1, allDemes, i, st =>
    if gLoop allDemes.length (.fin (i : Q)) then
      let (st', compressed) := tryCombinations k (combinations allDemes i) st
      if compressed then
        let allDemes' := collapseDemes st'.pairs
        searchLoopWith gLoop k fuel allDemes' (Nat.min i allDemes'.length) st'
      else searchLoopWith gLoop k fuel allDemes (i - 1) st'
    else st

/-- `simplifyMigrations`: `gSingle len(pairs)` skips a rate set -/
def simplifyMigrationsWith (gSingle : Nat → Bool) (g : Graph) : List SMig × List AMig :=
  let ams := g.migrations.map (stripBounds g)
  let (sym, asym) := (rateSets ams).foldl (fun (acc : List SMig × List AMig) kv =>
    let (k, pairs) := kv
    if gSingle pairs.length then acc
    else
      let allDemes := collapseDemes pairs
      let st := searchLoop k (pairs.length + allDemes.length + 2) allDemes allDemes.length
        { symmetric := acc.1, asymmetric := acc.2, pairs := pairs }
      (st.symmetric, st.asymmetric)) ([], ams)
  (sym, asym)

/-- Python's `==` on a list of validated numbers and a literal list -/
theorem pyListEq_map_fin (xs ys : List Q) : Num.pyListEq (xs.map Num.fin) (ys.map Num.fin) = (xs == ys) := by
  induction xs generalizing ys with
  | nil => cases ys <;> simp [Num.pyListEq]
  | cons x xs ih =>
    cases ys with
    | nil => simp [Num.pyListEq]
    | cons y ys =>
      simp only [List.map_cons, Num.pyListEq, ih, Guards.eqIEEE_fin_fin]
      by_cases h : x = y <;> simp [h]

theorem pyListEq_one (xs : List Q) : Num.pyListEq (xs.map Num.fin) [Num.fin 1] = (xs == [1]) :=
  pyListEq_map_fin xs [1]

end Demes.Proofs.Guards2
