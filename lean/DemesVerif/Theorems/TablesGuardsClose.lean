/-
  Semantic tie of closeness (C10): `Epoch / AsymmetricMigration / Pulse / Deme / Graph.assert_close`
  and `.isclose`, and `isclose_deme_proportions` of demes/demes.py.

  `Generated/GuardsClose.lean` holds, for each of these functions, the Lean `Bool` function the
  extractor compiled from its *whole body* ("completes without AssertionError" resp. "returns True"):
  every `assert`, every loop with its pairing (`zip`, `sorted`), every nested call with the tolerances
  it forwards (a missing `rel_tol=` / `abs_tol=` becomes the callee's default).  Attribute reads are
  named parameters; calls to other functions of the library are function parameters.

  The theorems say, for ALL inputs and ALL tolerances, that the Model's closeness functions
  (`Model/Close.lean`) are these generated functions of the Model's fields, with the nested calls
  instantiated by the generated functions of the callees (so the whole call tree is tied), `sorted`
  by the Model's orderings and `self.__class__ is other.__class__` by `true`.
  Reordering the asserts is harmless; comparing another attribute, `==` for `math.isclose` (or the
  converse), dropping an assert, a length test or a `sorted`, pairing differently, or not forwarding
  a tolerance makes the theorem of that function fail to compile.
-/
import DemesVerif.Generated.GuardsClose
import DemesVerif.Proofs.Guards2Close
namespace Demes.Tables
open Demes Demes.Proofs.Guards2
set_option linter.unusedSimpArgs false

/-! ### `isclose_deme_proportions` -/

/-- the generated `isclose_deme_proportions`, `sorted(.., key=operator.itemgetter(0))` read as the stable
sort by name -/
def demeProportions (an : List String) (ap : List Num) (bn : List String) (bp : List Num) (r t : Num) : Bool :=
  Generated.close_deme_proportions (sorted_key_itemgetter_0 := sortKey0)
    (a_names := an) (a_proportions := ap) (b_names := bn) (b_proportions := bp) (rel_tol := r) (abs_tol := t)

theorem guards_tie_isclose_deme_proportions (t : Tol) (an : List String) (ap : List Q) (bn : List String) (bp : List Q) :
    iscloseDemeProportions t an ap bn bp
      = demeProportions an (ap.map Num.fin) bn (bp.map Num.fin) (.fin t.rel) (.fin t.abs) := by
  unfold iscloseDemeProportions demeProportions Generated.close_deme_proportions
  simp only [List.length_map, zip_map_fin, sortKey0_map, List.zip_map, List.all_map]
  split
  · next h => simp only [h, Bool.not_true, Bool.false_and]
  · next h =>
    simp only [h, Bool.not_false, Bool.true_and]
    congr 1
    funext ⟨⟨a, p⟩, ⟨b, q⟩⟩
    simp [finPair, isclose_fin, closeQ, bne]

/-! ### `Epoch` -/

/-- the generated `Epoch.assert_close` read on two Model epochs -/
def epochAssertClose (x y : Epoch) (r t : Num) : Bool :=
  Generated.close_epoch_assert_close (self_class_is_other_class := true) (rel_tol := r) (abs_tol := t)
    (self_start_time := Num.ofETime x.startTime) (other_start_time := Num.ofETime y.startTime)
    (self_end_time := .fin x.endTime) (other_end_time := .fin y.endTime)
    (self_start_size := .fin x.startSize) (other_start_size := .fin y.startSize)
    (self_end_size := .fin x.endSize) (other_end_size := .fin y.endSize)
    (self_size_function := x.sizeFunction) (other_size_function := y.sizeFunction)
    (self_selfing_rate := .fin x.selfingRate) (other_selfing_rate := .fin y.selfingRate)
    (self_cloning_rate := .fin x.cloningRate) (other_cloning_rate := .fin y.cloningRate)

theorem guards_tie_epoch_assert_close (t : Tol) (a b : Epoch) :
    Epoch.isclose t a b = epochAssertClose a b (.fin t.rel) (.fin t.abs) := by
  unfold Epoch.isclose epochAssertClose Generated.close_epoch_assert_close closeE closeQ
  simp only [isclose_fin, isclose_ofETime, Bool.true_and]
  first | done | rfl | ac_rfl

theorem guards_tie_epoch_isclose (t : Tol) (a b : Epoch) :
    Epoch.isclose t a b = Generated.close_epoch_isclose (Epoch_assert_close := epochAssertClose)
      (self := a) (other := b) (rel_tol := .fin t.rel) (abs_tol := .fin t.abs) :=
  guards_tie_epoch_assert_close t a b

/-! ### `AsymmetricMigration` -/

def migrationAssertClose (x y : Migration) (r t : Num) : Bool :=
  Generated.close_migration_assert_close (self_class_is_other_class := true) (rel_tol := r) (abs_tol := t)
    (self_source := x.source) (other_source := y.source) (self_dest := x.dest) (other_dest := y.dest)
    (self_start_time := Num.ofETime x.startTime) (other_start_time := Num.ofETime y.startTime)
    (self_end_time := .fin x.endTime) (other_end_time := .fin y.endTime)
    (self_rate := .fin x.rate) (other_rate := .fin y.rate)

theorem guards_tie_migration_assert_close (t : Tol) (a b : Migration) :
    Migration.isclose t a b = migrationAssertClose a b (.fin t.rel) (.fin t.abs) := by
  unfold Migration.isclose migrationAssertClose Generated.close_migration_assert_close closeE closeQ
  simp only [isclose_fin, isclose_ofETime, Bool.true_and]
  first | done | rfl | ac_rfl

theorem guards_tie_migration_isclose (t : Tol) (a b : Migration) :
    Migration.isclose t a b = Generated.close_migration_isclose (AsymmetricMigration_assert_close := migrationAssertClose)
      (self := a) (other := b) (rel_tol := .fin t.rel) (abs_tol := .fin t.abs) :=
  guards_tie_migration_assert_close t a b

/-! ### `Pulse` -/

def pulseAssertClose (x y : Pulse) (r t : Num) : Bool :=
  Generated.close_pulse_assert_close (self_class_is_other_class := true) (rel_tol := r) (abs_tol := t)
    (isclose_deme_proportions := demeProportions)
    (self_sources := x.sources) (other_sources := y.sources) (self_dest := x.dest) (other_dest := y.dest)
    (self_time := .fin x.time) (other_time := .fin y.time)
    (self_proportions := x.proportions.map Num.fin) (other_proportions := y.proportions.map Num.fin)

theorem guards_tie_pulse_assert_close (t : Tol) (a b : Pulse) :
    Pulse.isclose t a b = pulseAssertClose a b (.fin t.rel) (.fin t.abs) := by
  unfold Pulse.isclose pulseAssertClose Generated.close_pulse_assert_close closeQ
  simp only [isclose_fin, pysum_map_fin, List.length_map, ← guards_tie_isclose_deme_proportions, Bool.true_and]
  first | done | rfl | ac_rfl

theorem guards_tie_pulse_isclose (t : Tol) (a b : Pulse) :
    Pulse.isclose t a b = Generated.close_pulse_isclose (Pulse_assert_close := pulseAssertClose)
      (self := a) (other := b) (rel_tol := .fin t.rel) (abs_tol := .fin t.abs) :=
  guards_tie_pulse_assert_close t a b

/-! ### `Deme` -/

def demeAssertClose (x y : Deme) (r t : Num) : Bool :=
  Generated.close_deme_assert_close (self_class_is_other_class := true) (rel_tol := r) (abs_tol := t)
    (Epoch_assert_close := epochAssertClose) (isclose_deme_proportions := demeProportions)
    (self_name := x.name) (other_name := y.name)
    (self_start_time := Num.ofETime x.startTime) (other_start_time := Num.ofETime y.startTime)
    (self_ancestors := x.ancestors) (other_ancestors := y.ancestors)
    (self_proportions := x.proportions.map Num.fin) (other_proportions := y.proportions.map Num.fin)
    (self_epochs := x.epochs) (other_epochs := y.epochs)

theorem guards_tie_deme_assert_close (t : Tol) (a b : Deme) :
    Deme.isclose t a b = demeAssertClose a b (.fin t.rel) (.fin t.abs) := by
  unfold Deme.isclose demeAssertClose Generated.close_deme_assert_close closeE
  simp only [isclose_ofETime, ← guards_tie_isclose_deme_proportions, ← guards_tie_epoch_assert_close, Bool.true_and]
  first | done | rfl | ac_rfl

theorem guards_tie_deme_isclose (t : Tol) (a b : Deme) :
    Deme.isclose t a b = Generated.close_deme_isclose (Deme_assert_close := demeAssertClose)
      (self := a) (other := b) (rel_tol := .fin t.rel) (abs_tol := .fin t.abs) :=
  guards_tie_deme_assert_close t a b

/-! ### `Graph` (`sorted` on demes / migrations: the attrs-generated ordering of `Model/Close.lean`) -/

def graphAssertClose (x y : Graph) (r t : Num) : Bool :=
  Generated.close_graph_assert_close (self_class_is_other_class := true) (rel_tol := r) (abs_tol := t)
    (Deme_assert_close := demeAssertClose) (AsymmetricMigration_assert_close := migrationAssertClose)
    (Pulse_assert_close := pulseAssertClose)
    (sorted_Deme := sortBy Deme.cmp) (sorted_AsymmetricMigration := sortBy Migration.cmp)
    (self_time_units := x.timeUnits) (other_time_units := y.timeUnits)
    (self_generation_time := .fin x.generationTime) (other_generation_time := .fin y.generationTime)
    (self_demes := x.demes) (other_demes := y.demes)
    (self_migrations := x.migrations) (other_migrations := y.migrations)
    (self_pulses := x.pulses) (other_pulses := y.pulses)

theorem guards_tie_graph_assert_close (t : Tol) (a b : Graph) :
    Graph.isclose t a b = graphAssertClose a b (.fin t.rel) (.fin t.abs) := by
  unfold Graph.isclose graphAssertClose Generated.close_graph_assert_close
  simp only [eqIEEE_fin, ← guards_tie_deme_assert_close, ← guards_tie_migration_assert_close,
    ← guards_tie_pulse_assert_close, Bool.true_and]
  first | done | rfl | ac_rfl

theorem guards_tie_graph_isclose (t : Tol) (a b : Graph) :
    Graph.isclose t a b = Generated.close_graph_isclose (Graph_assert_close := graphAssertClose)
      (self := a) (other := b) (rel_tol := .fin t.rel) (abs_tol := .fin t.abs) :=
  guards_tie_graph_assert_close t a b

/-! ### the generated functions really depend on what they read (closed instances) -/

section sensitivity

def exEpoch : Epoch :=
  { startTime := .fin 10, endTime := 0, startSize := 1, endSize := 2, sizeFunction := "linear",
    selfingRate := 0, cloningRate := 0 }
def exMig : Migration := { source := "a", dest := "b", startTime := .fin 8, endTime := 2, rate := 1/10 }

example : epochAssertClose exEpoch exEpoch (.fin relTol) (.fin absTol) = true := by decide +kernel
example : epochAssertClose exEpoch { exEpoch with endSize := 3 } (.fin relTol) (.fin absTol) = false := by decide +kernel
example : epochAssertClose exEpoch { exEpoch with sizeFunction := "exponential" } (.fin relTol) (.fin absTol) = false := by
  decide +kernel
example : epochAssertClose exEpoch { exEpoch with startTime := .inf } (.fin relTol) (.fin absTol) = false := by decide +kernel
-- the tolerances passed are the ones used: |2 - 3| ≤ (1/2)·3, and 1/1000 is within abs_tol = 1/100 of 0
example : epochAssertClose exEpoch { exEpoch with endSize := 3 } (.fin (1/2)) (.fin 0) = true := by decide +kernel
example : epochAssertClose exEpoch { exEpoch with selfingRate := 1/1000 } (.fin 0) (.fin (1/100)) = true
    ∧ epochAssertClose exEpoch { exEpoch with selfingRate := 1/1000 } (.fin (1/100)) (.fin 0) = false := by decide +kernel
example : migrationAssertClose exMig exMig (.fin 0) (.fin 0) = true
    ∧ migrationAssertClose exMig { exMig with dest := "c" } (.fin 1) (.fin 1) = false
    ∧ migrationAssertClose exMig { exMig with rate := 1/5 } (.fin 0) (.fin 0) = false
    ∧ migrationAssertClose exMig { exMig with rate := 1/5 } (.fin (1/2)) (.fin 0) = true := by decide +kernel
-- the `isclose` wrapper passes its arguments on in this order
example : Generated.close_epoch_isclose (Epoch_assert_close := fun (a b : Nat) r t => a == 1 && b == 2 && r == .fin 3 && t == .fin 4)
    (self := 1) (other := 2) (rel_tol := .fin 3) (abs_tol := .fin 4) = true := by decide +kernel

end sensitivity

end Demes.Tables
