import DemesVerif.Spec.Relations
namespace Demes.Proofs
open Demes Demes.Spec

def exEpoch (s : ETime) (e : Q) : Epoch :=
  { startTime := s, endTime := e, startSize := 100, endSize := 100, sizeFunction := "constant",
    selfingRate := 0, cloningRate := 0 }

/-- two demes A (∞,0] and B (40,0] branching from A, migration A→B on (40,10] and B→A on (20,0] -/
def exampleGraph : Graph :=
  { description := "", timeUnits := "generations", generationTime := 1, doi := [], metadata := [],
    demes := [
      { name := "A", description := "", startTime := .inf, ancestors := [], proportions := [],
        epochs := [exEpoch .inf 0] },
      { name := "B", description := "", startTime := .fin 40, ancestors := ["A"], proportions := [1],
        epochs := [exEpoch (.fin 40) 0] }],
    migrations := [
      { source := "A", dest := "B", startTime := .fin 40, endTime := 10, rate := 1/4 },
      { source := "B", dest := "A", startTime := .fin 20, endTime := 0, rate := 1/8 }],
    pulses := [{ sources := ["A"], dest := "B", time := 5, proportions := [1/2] }],
    index := [("A", 0), ("B", 1)] }

theorem matrices_end_times (g : Graph) (hv : validGraph g = true) :
    ∃ mms ends, migrationMatrices g = .ok (mms, ends) ∧ ends ≠ [] ∧ ends.getLast? = some 0
      ∧ ends.Pairwise (· > ·) ∧ mms.length = ends.length := by
  sorry

theorem matrices_pointwise (g : Graph) (hv : validGraph g = true) (mms : List Matrix) (ends : List Q)
    (h : migrationMatrices g = .ok (mms, ends)) (t : Q) (ht : 0 ≤ t)
    (i j : Nat) (di dj : Deme) (hi : g.demes[i]? = some di) (hj : g.demes[j]? = some dj) :
    ∃ k mm, intervalOf ends t = some k ∧ mms[k]? = some mm
      ∧ mm.get i j = rateAt g dj.name di.name t := by
  sorry

end Demes.Proofs
