/-
  Line-protocol driver: one JSON request per line on stdin, one JSON reply per line on
  stdout.  Imports the Model/Spec only (no Mathlib), so it is a native executable.
-/
import DemesVerif.Ops
open Lean Demes Demes.Wire

partial def loop (h : IO.FS.Stream) (out : IO.FS.Stream) : IO Unit := do
  let line ← h.getLine
  if line.isEmpty then return ()
  let reply : Json :=
    match Json.parse line with
    | .error e => Json.mkObj [("fail", .str s!"json: {e}")]
    | .ok j => Demes.Ops.dispatch j
  out.putStrLn reply.compress
  loop h out

def main : IO Unit := do
  let out ← IO.getStdout
  loop (← IO.getStdin) out
  out.flush
