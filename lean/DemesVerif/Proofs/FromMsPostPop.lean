/-
  C08, after the event loop: one population.  The segments `msSem` shows for a population
  (`finalSegs`) and the segments `graphSem` shows for the explicit epoch list of the finished
  Builder deme describe the same size function at every cut point, with the same growth rate
  (`popEquiv`), provided the two size functions agree everywhere on the lifetime.
-/
import DemesVerif.Proofs.FromMsPostInv
import DemesVerif.Proofs.FromMsPostSpecInv
import Mathlib.Tactic.FieldSimp
import Mathlib.Tactic.Ring
import Mathlib.Tactic.Linarith
namespace Demes.Proofs.FromMs
open Demes Demes.Ms Demes.Spec.MsSem Demes.Spec.C08

/-! ## the graph side of one epoch -/

/-- the size inside a closed epoch that runs up to `st` -/
def valB (st : ETime) (e : BEpoch) (u : Q) : Sz :=
  match st with
  | .fin b => interpSize e b u
  | .inf => e.endSize

theorem mulExp_of_ne {s : Sz} (h : s.coef ≠ 0) (x : Q) : s.mulExp x = ⟨s.coef, s.expo + x⟩ := by
  unfold Sz.mulExp; rw [if_neg h]

/-- **local agreement**: if the ms segment `sa` (growth `g`) and the Builder epoch `e` (running up
to `st`) give the same size at two different times, then the observable shows the same growth
rate and the same size at the first of them -/
theorem seg_agree {sa : Seg} {e : BEpoch} {st : ETime} {g : Q} {z : Sz} {t t' : Q}
    (hg : sa.growth = some g) (htt : t < t') (hcoef : e.endSize.coef ≠ 0)
    (hz : e.startSize = some z) (hzc : z.coef = e.endSize.coef) (hinf : st = .inf → z = e.endSize)
    (hb : ∀ b, st = .fin b → e.endTime ≤ t ∧ t' < b)
    (hv : sa.size.mulExp (-g * (t - sa.t0)) = valB st e t)
    (hv' : sa.size.mulExp (-g * (t' - sa.t0)) = valB st e t') :
    segRate sa = some g ∧ segRate (gseg st e) = some g
    ∧ (∃ v, segValue sa t = some v ∧ segValue (gseg st e) t = some v) := by
  have hra : segRate sa = some g := by unfold segRate; rw [hg]
  -- the coefficient of `sa.size` is that of the epoch
  have hca : sa.size.coef = e.endSize.coef := by
    have := congrArg Sz.coef hv
    rw [mulExp_coef] at this
    rw [this]
    unfold valB
    cases st with
    | inf => rfl
    | fin b => unfold interpSize; rw [hz]
  have hca0 : sa.size.coef ≠ 0 := by rw [hca]; exact hcoef
  rw [mulExp_of_ne hca0] at hv hv'
  cases st with
  | inf =>
    have hze := hinf rfl
    have hx : sa.size.expo + -g * (t - sa.t0) = e.endSize.expo := congrArg Sz.expo hv
    have hx' : sa.size.expo + -g * (t' - sa.t0) = e.endSize.expo := congrArg Sz.expo hv'
    have hg0 : g = 0 := by
      have : g * (t' - t) = 0 := by linarith
      rcases mul_eq_zero.mp this with h | h
      · exact h
      · linarith
    subst hg0
    have hrb : segRate (gseg .inf e) = some 0 := by
      unfold segRate gseg
      simp [hz, hze]
    refine ⟨hra, hrb, ?_⟩
    have hsz : sa.size = e.endSize := by
      have h1 : sa.size.expo = e.endSize.expo := by linarith
      cases hs : sa.size with
      | mk c x =>
        cases he : e.endSize with
        | mk c' x' =>
          rw [hs, he] at hca h1
          simp only at hca h1
          rw [hca, h1]
    refine ⟨e.endSize, ?_, ?_⟩
    · unfold segValue
      rw [hra]
      split
      · rw [hsz]
      · simp only [Option.map_some, neg_zero, zero_mul]
        rw [FromMs.mulExp_zero, hsz]
    · unfold segValue
      rw [hrb]
      split
      · rfl
      · simp only [Option.map_some, neg_zero, zero_mul]
        rw [FromMs.mulExp_zero]
        rfl
  | fin b =>
    obtain ⟨h1, h2⟩ := hb b rfl
    have hbt : b - e.endTime ≠ 0 := by
      have : e.endTime < b := by linarith
      intro h; linarith
    unfold valB interpSize at hv hv'
    rw [hz] at hv hv'
    dsimp only at hv hv'
    have hx : sa.size.expo + -g * (t - sa.t0)
        = e.endSize.expo + (z.expo - e.endSize.expo) * (t - e.endTime) / (b - e.endTime) := congrArg Sz.expo hv
    have hx' : sa.size.expo + -g * (t' - sa.t0)
        = e.endSize.expo + (z.expo - e.endSize.expo) * (t' - e.endTime) / (b - e.endTime) := congrArg Sz.expo hv'
    have hgm : g = (e.endSize.expo - z.expo) / (b - e.endTime) := by
      have hd : (t' - t) ≠ 0 := by intro h; linarith
      have e1 : -g * (t' - t) = (z.expo - e.endSize.expo) * (t' - t) / (b - e.endTime) := by
        have := congrArg₂ (· - ·) hx' hx
        have l : sa.size.expo + -g * (t' - sa.t0) - (sa.size.expo + -g * (t - sa.t0)) = -g * (t' - t) := by ring
        have r : e.endSize.expo + (z.expo - e.endSize.expo) * (t' - e.endTime) / (b - e.endTime)
            - (e.endSize.expo + (z.expo - e.endSize.expo) * (t - e.endTime) / (b - e.endTime))
            = (z.expo - e.endSize.expo) * (t' - t) / (b - e.endTime) := by
          field_simp
          ring
        rw [l, r] at this
        exact this
      field_simp at e1 ⊢
      linarith
    have hrb : segRate (gseg (.fin b) e) = some g := by
      unfold segRate gseg
      simp only [hz, Option.getD_some]
      by_cases hze : z = e.endSize
      · simp only [hze, if_true]
        rw [hgm, hze]
        simp
      · have hbe : b ≠ e.endTime := by intro h; apply hbt; rw [h]; ring
        simp [hze, hzc, hbe, hgm]
    refine ⟨hra, hrb, ?_⟩
    have hce : (gseg (.fin b) e).size.coef ≠ 0 := hcoef
    refine ⟨⟨e.endSize.coef, e.endSize.expo + (z.expo - e.endSize.expo) * (t - e.endTime) / (b - e.endTime)⟩, ?_, ?_⟩
    · unfold segValue
      rw [hra]
      split
      · rename_i ht0
        subst ht0
        have : sa.size.expo + -g * (sa.t0 - sa.t0) = sa.size.expo := by ring
        rw [this] at hv
        rw [← hv]
      · simp only [Option.map_some]
        rw [mulExp_of_ne hca0, hv]
    · unfold segValue
      rw [hrb]
      split
      · rename_i ht0
        have ht0' : t = e.endTime := ht0
        rw [ht0']
        have : (z.expo - e.endSize.expo) * (e.endTime - e.endTime) / (b - e.endTime) = 0 := by
          rw [sub_self, mul_zero, zero_div]
        rw [this, add_zero]
        rfl
      · simp only [Option.map_some]
        rw [mulExp_of_ne hce]
        show some (Sz.mk e.endSize.coef (e.endSize.expo + -g * (t - e.endTime))) = _
        congr 2
        rw [hgm]
        field_simp
        ring


/-! ## the ms side: the segments of `finalSegs` form a chain -/

/-- segments chaining upwards from `lo` to the (possibly infinite) end `hi` -/
def AscChain : Q → List Seg → ETime → Prop
  | lo, [], hi => hi = .fin lo
  | lo, s :: r, hi => s.t0 = lo ∧ (∃ g, s.growth = some g) ∧ ETime.fin lo < s.t1 ∧
      (match s.t1 with
       | .fin b => AscChain b r hi
       | .inf => r = [] ∧ hi = .inf)

theorem asc_of_segChain : ∀ {segs : List Seg} {lo t0 : Q}, SegChain lo segs t0 → AscChain lo segs (.fin t0)
  | [], lo, t0, h => by
    have h' : lo = t0 := h
    subst h'
    rfl
  | s :: r, lo, t0, h => by
    obtain ⟨h1, b, h2, h3, h4, hr⟩ := h
    refine ⟨h1, h4, by rw [h2]; exact h3, ?_⟩
    rw [h2]
    exact asc_of_segChain hr

theorem asc_snoc : ∀ {segs : List Seg} {lo t0 : Q} (hi : ETime) (sz : Sz) (g : Q), SegChain lo segs t0 →
    ETime.fin t0 < hi → AscChain lo (segs ++ [mkSeg t0 hi sz g]) hi
  | [], lo, t0, hi, sz, g, h, hlt => by
    have h' : lo = t0 := h
    subst h'
    refine ⟨rfl, ⟨g, rfl⟩, hlt, ?_⟩
    cases hi with
    | fin b => exact (rfl : ETime.fin b = ETime.fin b)
    | inf => exact ⟨rfl, rfl⟩
  | s :: r, lo, t0, hi, sz, g, h, hlt => by
    obtain ⟨h1, b, h2, h3, h4, hr⟩ := h
    refine ⟨h1, h4, by rw [h2]; exact h3, ?_⟩
    rw [h2]
    exact asc_snoc hi sz g hr hlt

theorem finalSegs_chain {p : Pop} (h : PopWF p) : AscChain p.lo (finalSegs p) p.hi := by
  unfold finalSegs
  rcases h.hi with hh | hh
  · have : ETime.fin p.t0 < p.hi := by rw [hh]; trivial
    simp only [this, decide_true, if_true]
    exact asc_snoc p.hi _ _ h.chain this
  · have : ¬ ETime.fin p.t0 < p.hi := by rw [hh]; exact Rat.lt_irrefl
    simp only [this, decide_false, Bool.false_eq_true, if_false]
    rw [hh]
    exact asc_of_segChain h.chain

theorem asc_lower : ∀ {A : List Seg} {lo : Q} {hi : ETime}, AscChain lo A hi → ∀ s ∈ A, lo ≤ s.t0
  | [], _, _, _, s, hs => by cases hs
  | a :: r, lo, hi, h, s, hs => by
    obtain ⟨h1, _, h3, h4⟩ := h
    rcases List.mem_cons.mp hs with rfl | hs
    · rw [h1]
    · cases hb : a.t1 with
      | inf => rw [hb] at h4; rw [h4.1] at hs; cases hs
      | fin b =>
        rw [hb] at h3 h4
        have := asc_lower h4 s hs
        have h3' : lo < b := h3
        grind

theorem segOwns_iff (s : Seg) (t : Q) : segOwns s t = true ↔ s.t0 ≤ t ∧ ETime.fin t < s.t1 := by
  unfold segOwns
  simp only [Bool.and_eq_true, decide_eq_true_eq]

/-- inside the lifetime exactly one segment of an ascending chain owns a time, and `segsSizeAt`
reads the sizes off it as long as it owns the time -/
theorem asc_owner : ∀ {A : List Seg} {lo : Q} {hi : ETime} {t : Q}, AscChain lo A hi → lo ≤ t → ETime.fin t < hi →
    ∃ sa g, A.filter (segOwns · t) = [sa] ∧ sa.growth = some g ∧ sa.t0 ≤ t ∧ ETime.fin t < sa.t1
      ∧ ∀ u, sa.t0 ≤ u → ETime.fin u < sa.t1 → segsSizeAt A u = some (sa.size.mulExp (-g * (u - sa.t0)))
  | [], lo, hi, t, h, h1, h2 => by
    have h' : hi = .fin lo := h
    rw [h'] at h2
    have : t < lo := h2
    grind
  | a :: r, lo, hi, t, h, hlo, hhi => by
    obtain ⟨h1, ⟨g, hg⟩, h3, h4⟩ := h
    by_cases hown : ETime.fin t < a.t1
    · have ho : segOwns a t = true := (segOwns_iff a t).mpr ⟨by rw [h1]; exact hlo, hown⟩
      refine ⟨a, g, ?_, hg, by rw [h1]; exact hlo, hown, ?_⟩
      · rw [List.filter_cons, if_pos ho]
        congr 1
        apply List.filter_eq_nil_iff.mpr
        intro s hs hso
        obtain ⟨hs1, _⟩ := (segOwns_iff s t).mp hso
        cases hb : a.t1 with
        | inf => rw [hb] at h4; rw [h4.1] at hs; cases hs
        | fin b =>
          rw [hb] at h4 hown
          have := asc_lower h4 s hs
          have : t < b := hown
          grind
      · intro u hu1 hu2
        unfold segsSizeAt
        have : (decide (a.t0 ≤ u) && decide (ETime.fin u < a.t1)) = true := (segOwns_iff a u).mpr ⟨hu1, hu2⟩
        rw [if_pos this, hg]
        rfl
    · cases hb : a.t1 with
      | inf => rw [hb] at hown; exact absurd trivial hown
      | fin b =>
        rw [hb] at hown h4
        have hbt : b ≤ t := by
          have : ¬ t < b := hown
          grind
        obtain ⟨sa, g', e1, e2, e3, e4, e5⟩ := asc_owner h4 hbt hhi
        have ho : segOwns a t = false := by
          cases hq : segOwns a t with
          | false => rfl
          | true =>
            have := ((segOwns_iff a t).mp hq).2
            rw [hb] at this
            exact absurd this hown
        have hsa : sa ∈ r := by
          have : sa ∈ r.filter (segOwns · t) := by rw [e1]; exact List.mem_singleton.mpr rfl
          exact (List.mem_filter.mp this).1
        have hbsa := asc_lower h4 sa hsa
        refine ⟨sa, g', ?_, e2, e3, e4, ?_⟩
        · rw [List.filter_cons, ho]
          exact e1
        · intro u hu1 hu2
          unfold segsSizeAt
          have : (decide (a.t0 ≤ u) && decide (ETime.fin u < a.t1)) = false := by
            cases hq : (decide (a.t0 ≤ u) && decide (ETime.fin u < a.t1)) with
            | false => rfl
            | true =>
              have := ((segOwns_iff a u).mp hq).2
              rw [hb] at this
              have : u < b := this
              grind
          rw [this]
          exact e5 u hu1 hu2

/-! ## the graph side: the segments of the closed epochs -/

theorem closedSizeAt_fin (eps : List BEpoch) (b t : Q) : closedSizeAt eps (.fin b) t = olderSizeAt eps b t := by
  cases eps with
  | nil => rfl
  | cons e r => rfl

theorem closedSizeAt_cons (e : BEpoch) (r : List BEpoch) (st : ETime) (t : Q) :
    closedSizeAt (e :: r) st t = if e.endTime ≤ t then some (valB st e t) else closedSizeAt r (.fin e.endTime) t := by
  rw [closedSizeAt_fin]
  unfold closedSizeAt valB
  cases st <;> rfl

theorem gsegs_t1_le : ∀ {r : List BEpoch} {st : ETime}, r.Pairwise (fun a b => b.endTime < a.endTime) →
    (∀ e ∈ r, ETime.fin e.endTime < st) → ∀ s ∈ gsegs st r, s.t1 ≤ st
  | [], _, _, _, s, hs => by cases hs
  | e :: r, st, hdec, hlt, s, hs => by
    rw [List.pairwise_cons] at hdec
    rcases List.mem_cons.mp hs with rfl | hs
    · exact RV.etime_le_refl st
    · have := gsegs_t1_le hdec.2 (fun e' he' => (show e'.endTime < e.endTime from hdec.1 e' he')) s hs
      exact etime_le_trans this (et_le_of_lt (hlt e (List.mem_cons_self ..)))

/-- inside the lifetime exactly one closed epoch owns a time, and `closedSizeAt` reads the sizes
off it as long as it owns the time -/
theorem desc_owner : ∀ {eps : List BEpoch} {st : ETime} {t : Q}, eps.Pairwise (fun a b => b.endTime < a.endTime) →
    (∀ e ∈ eps, ETime.fin e.endTime < st) → ETime.fin t < st → (∃ e ∈ eps, e.endTime ≤ t) →
    ∃ e st_e, e ∈ eps ∧ (gsegs st eps).filter (segOwns · t) = [gseg st_e e] ∧ e.endTime ≤ t ∧ ETime.fin t < st_e
      ∧ st_e ≤ st
      ∧ (∀ u, e.endTime ≤ u → ETime.fin u < st_e → closedSizeAt eps st u = some (valB st_e e u))
      ∧ ((st_e = st ∧ eps.head? = some e) ∨ ∃ b, st_e = .fin b)
  | [], _, _, _, _, _, ⟨e, he, _⟩ => by cases he
  | e :: r, st, t, hdec, hlt, hts, hex => by
    rw [List.pairwise_cons] at hdec
    have hlt' : ∀ e' ∈ r, ETime.fin e'.endTime < ETime.fin e.endTime :=
      fun e' he' => (show e'.endTime < e.endTime from hdec.1 e' he')
    by_cases hown : e.endTime ≤ t
    · have ho : segOwns (gseg st e) t = true := (segOwns_iff _ t).mpr ⟨hown, hts⟩
      refine ⟨e, st, List.mem_cons_self .., ?_, hown, hts, RV.etime_le_refl st, ?_, Or.inl ⟨rfl, rfl⟩⟩
      · show (gseg st e :: gsegs (.fin e.endTime) r).filter (segOwns · t) = _
        rw [List.filter_cons, if_pos ho]
        congr 1
        apply List.filter_eq_nil_iff.mpr
        intro s hs hso
        have h1 := gsegs_t1_le hdec.2 hlt' s hs
        have h2 := ((segOwns_iff s t).mp hso).2
        have : ETime.fin t < ETime.fin e.endTime := et_lt_of_lt_of_le h2 h1
        have : t < e.endTime := this
        grind
      · intro u hu1 _
        rw [closedSizeAt_cons, if_pos hu1]
    · have hte : ETime.fin t < ETime.fin e.endTime := by
        show t < e.endTime
        grind
      have hex' : ∃ e' ∈ r, e'.endTime ≤ t := by
        obtain ⟨e', he', hle⟩ := hex
        rcases List.mem_cons.mp he' with rfl | he'
        · exact absurd hle hown
        · exact ⟨e', he', hle⟩
      obtain ⟨e1, st1, m1, f1, a1, b1, le1, c1, d1⟩ := desc_owner hdec.2 hlt' hte hex'
      have ho : segOwns (gseg st e) t = false := by
        cases hq : segOwns (gseg st e) t with
        | false => rfl
        | true => exact absurd ((segOwns_iff _ t).mp hq).1 hown
      refine ⟨e1, st1, List.mem_cons_of_mem _ m1, ?_, a1, b1, ?_, ?_, ?_⟩
      · show (gseg st e :: gsegs (.fin e.endTime) r).filter (segOwns · t) = _
        rw [List.filter_cons, ho]
        exact f1
      · exact etime_le_trans le1 (et_le_of_lt (hlt e (List.mem_cons_self ..)))
      · intro u hu1 hu2
        have : ¬ e.endTime ≤ u := by
          have : ETime.fin u < ETime.fin e.endTime := et_lt_of_lt_of_le hu2 le1
          have : u < e.endTime := this
          grind
        rw [closedSizeAt_cons, if_neg this]
        exact c1 u hu1 hu2
      · rcases d1 with ⟨d1, _⟩ | d1
        · exact Or.inr ⟨e.endTime, d1⟩
        · exact Or.inr d1

theorem exists_between_E {t : Q} {x y : ETime} (hx : ETime.fin t < x) (hy : ETime.fin t < y) :
    ∃ t', t < t' ∧ ETime.fin t' < x ∧ ETime.fin t' < y := by
  cases x with
  | inf =>
    cases y with
    | inf => exact ⟨t + 1, by linarith, trivial, trivial⟩
    | fin b =>
      have : t < b := hy
      exact ⟨(t + b) / 2, by linarith, trivial, (show (t + b) / 2 < b by linarith)⟩
  | fin a =>
    have ha : t < a := hx
    cases y with
    | inf => exact ⟨(t + a) / 2, by linarith, (show (t + a) / 2 < a by linarith), trivial⟩
    | fin b =>
      have hb : t < b := hy
      by_cases hab : a ≤ b
      · exact ⟨(t + a) / 2, by linarith, (show (t + a) / 2 < a by linarith), (show (t + a) / 2 < b by linarith)⟩
      · have : b < a := by linarith
        exact ⟨(t + b) / 2, by linarith, (show (t + b) / 2 < a by linarith), (show (t + b) / 2 < b by linarith)⟩

/-- **one population.**  An ascending chain of ms segments and the closed epochs of a finished
Builder deme, with the same lifetime `[lo, hi)` and the same size at every time of it, are
`popEquiv` -/
theorem pop_equiv {A : List Seg} {eps : List BEpoch} {lo : Q} {hi : ETime} {id : Nat}
    (hA : AscChain lo A hi) (hcl : EpochsClosed eps) (hlt : ∀ e ∈ eps, ETime.fin e.endTime < hi)
    (hlo : (eps.getLast?.map (·.endTime)).getD 0 = lo) (hlohi : ETime.fin lo < hi)
    (hcoef : ∀ e ∈ eps, e.endSize.coef ≠ 0)
    (hinf : hi = .inf → ∀ e z, eps.head? = some e → e.startSize = some z → z = e.endSize)
    (hsz : ∀ t, lo ≤ t → ETime.fin t < hi → closedSizeAt eps hi t = segsSizeAt A t) :
    popEquiv { id := id, lo := lo, hi := hi, segs := A }
      { id := id, lo := lo, hi := hi, segs := (gsegs hi eps).reverse } = true := by
  unfold popEquiv
  simp only [decide_true, Bool.true_and, List.all_eq_true]
  intro t ht
  have htr : lo ≤ t ∧ ETime.fin t < hi := by
    unfold cuts at ht
    rcases List.mem_cons.mp ht with rfl | ht
    · exact ⟨Rat.le_refl, hlohi⟩
    · have := (List.mem_filter.mp ht).2
      simpa only [Bool.and_eq_true, decide_eq_true_eq] using this
  obtain ⟨sa, g, fa, hg, a1, a2, a3⟩ := asc_owner hA htr.1 htr.2
  have hex : ∃ e ∈ eps, e.endTime ≤ t := by
    cases hl : eps.getLast? with
    | none => exact absurd (List.getLast?_eq_none_iff.mp hl) hcl.ne
    | some eL =>
      rw [hl] at hlo
      simp only [Option.map_some, Option.getD_some] at hlo
      exact ⟨eL, List.mem_of_getLast? hl, by rw [hlo]; exact htr.1⟩
  obtain ⟨e, st_e, me, fb, b1, b2, b3, b4, b5⟩ := desc_owner hcl.dec hlt htr.2 hex
  obtain ⟨t', h1, h2, h3⟩ := exists_between_E a2 b2
  have hlo' : lo ≤ t' := by linarith [htr.1]
  have hhi' : ETime.fin t' < hi := et_lt_of_lt_of_le h3 b3
  have hv : sa.size.mulExp (-g * (t - sa.t0)) = valB st_e e t := by
    have := hsz t htr.1 htr.2
    rw [a3 t a1 a2, b4 t b1 b2] at this
    injection this with this
    exact this.symm
  have hv' : sa.size.mulExp (-g * (t' - sa.t0)) = valB st_e e t' := by
    have := hsz t' hlo' hhi'
    rw [a3 t' (by linarith) h2, b4 t' (by linarith) h3] at this
    injection this with this
    exact this.symm
  obtain ⟨z, hz, hzc⟩ := (hcl.all e me).ss
  have hinf' : st_e = .inf → z = e.endSize := by
    intro hi'
    rcases b5 with ⟨b5, b6⟩ | ⟨b, b5⟩
    · exact hinf (b5 ▸ hi') e z b6 hz
    · rw [b5] at hi'; cases hi'
  have hb : ∀ b, st_e = .fin b → e.endTime ≤ t ∧ t' < b := by
    intro b hb
    rw [hb] at h3
    exact ⟨b1, h3⟩
  obtain ⟨r1, r2, v, r3, r4⟩ := seg_agree hg h1 (hcoef e me) hz hzc hinf' hb hv hv'
  have fb' : ((gsegs hi eps).reverse).filter (segOwns · t) = [gseg st_e e] := by
    rw [List.filter_reverse, fb]
    rfl
  show (match A.filter (segOwns · t), ((gsegs hi eps).reverse).filter (segOwns · t) with
    | [sa], [sb] =>
      (segValue sa t).isSome && segValue sa t = segValue sb t && (segRate sa).isSome && segRate sa = segRate sb
    | _, _ => false) = true
  rw [fa, fb']
  simp only [r1, r2, r3, r4, Option.isSome_some, decide_true, Bool.and_self]

end Demes.Proofs.FromMs
