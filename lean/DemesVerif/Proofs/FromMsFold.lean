/-
  C08 — from one event to the whole event loop, for any invariant that every event preserves
  (used for populations + sizes together with the migration matrices).
-/
import DemesVerif.Proofs.FromMsMig
import DemesVerif.Proofs.FromMsSizeFold
namespace Demes.Proofs.FromMs
open Demes Demes.Ms Demes.Spec.MsSem Demes.Spec.C08
open Demes.Proofs.RV (bind_ok pure_ok)

/-- an invariant between the Builder state and the interpreter state that every pair of
corresponding events preserves, that time only strengthens, and that the end of a time group
(`applyParams` / the interpreter's `moves`) does not touch -/
structure SimInv (N0 : Q) (I : Q → BState → St → Prop) : Prop where
  step : ∀ {T T' : Q} {s s' : BState} {g g' : GState} {σ σ' : St} {L L' : List (Nat × Row)} {ev : Event Num} {c : Cmd},
    I T s σ → T ≤ T' → cmdOf ev = some c → T' = 4 * N0 * c.t →
    stepEvent N0 T' (s, g) ev = .ok (s', g') → Spec.MsSem.step N0 (σ, L) c = .ok (σ', L') → I T' s' σ'
  mono : ∀ {T T' : Q} {s : BState} {σ : St}, I T s σ → T ≤ T' → I T' s σ
  frameM : ∀ {T : Q} {s : BState} {σ : St} (time : Q) (g : GState), I T s σ → I T (applyParams time s g) σ
  frameS : ∀ {T : Q} {s : BState} {σ σ' : St}, I T s σ → σ'.pops = σ.pops → σ'.mat = σ.mat → σ'.snaps = σ.snaps →
    I T s σ'

theorem events_inv {N0 T' : Q} {I : Q → BState → St → Prop} (hI : SimInv N0 I) :
    ∀ (evs : List (Event Num)) {T : Q} {s s' : BState} {g g' : GState} {σ σ' : St}
    {L L' : List (Nat × Row)}, I T s σ → T ≤ T' → (∀ e ∈ evs, HasCmd e) →
    (∀ e ∈ evs, 4 * N0 * (cmdOfD e).t = T') →
    evs.foldlM (stepEvent N0 T') (s, g) = .ok (s', g') →
    (evs.map cmdOfD).foldlM (Spec.MsSem.step N0) (σ, L) = .ok (σ', L') →
    I T' s' σ' := by
  intro evs
  induction evs with
  | nil =>
    intro T s s' g g' σ σ' L L' h hT _ _ hm hs
    cases hm
    cases hs
    exact hI.mono h hT
  | cons e evs ih =>
    intro T s s' g g' σ σ' L L' h hT hall htime hm hs
    rw [List.foldlM_cons] at hm
    obtain ⟨⟨s1, g1⟩, h1, hm⟩ := bind_ok.1 hm
    rw [List.map_cons, List.foldlM_cons] at hs
    obtain ⟨⟨σ1, L1⟩, hs1, hs⟩ := sbind_ok.1 hs
    have he := hall e (List.mem_cons_self ..)
    have ht := htime e (List.mem_cons_self ..)
    have h' := hI.step h hT he ht.symm h1 hs1
    exact ih h' (Rat.le_refl) (fun x hx => hall x (List.mem_cons_of_mem _ hx))
      (fun x hx => htime x (List.mem_cons_of_mem _ hx)) hm hs

theorem stepGroup_inv {N0 T T' : Q} {I : Q → BState → St → Prop} (hI : SimInv N0 I)
    {s s' : BState} {σ σ' : St} {evs : List (Event Num)}
    (h : I T s σ) (hT : T ≤ T') (hall : ∀ e ∈ evs, HasCmd e) (htime : ∀ e ∈ evs, 4 * N0 * (cmdOfD e).t = T')
    (hm : Ms.stepGroup N0 s evs = .ok s') (hs : Spec.MsSem.stepGroup N0 σ (evs.map cmdOfD) = .ok σ') :
    I T' s' σ' := by
  unfold Ms.stepGroup at hm
  obtain ⟨t, ht, hm⟩ := bind_ok.1 hm
  dsimp only at hm
  obtain ⟨⟨s1, g1⟩, hfold, hm⟩ := bind_ok.1 hm
  cases hm
  unfold Spec.MsSem.stepGroup at hs
  dsimp only at hs
  obtain ⟨⟨σ1, L1⟩, hsfold, hs⟩ := sbind_ok.1 hs
  have hpops : σ'.pops = σ1.pops ∧ σ'.mat = σ1.mat ∧ σ'.snaps = σ1.snaps := by
    dsimp only at hs
    split at hs
    · rw [spure_ok] at hs
      subst hs
      split <;> exact ⟨rfl, rfl, rfl⟩
    · rw [spure_ok] at hs
      subst hs
      exact ⟨rfl, rfl, rfl⟩
  have htimeM : evs ≠ [] → 4 * N0 * t = T' := by
    intro hne
    cases evs with
    | nil => exact absurd rfl hne
    | cons e r =>
      have he := hall e (List.mem_cons_self ..)
      have := cmdOf_t he
      simp only [List.head?_cons, Option.map_some, Option.getD_some, this] at ht
      cases finArg_ok ht
      exact htime e (List.mem_cons_self ..)
  have hsim1 : I T' s1 σ1 := by
    cases evs with
    | nil =>
      cases hfold
      cases hsfold
      exact hI.mono h hT
    | cons e r =>
      rw [htimeM (by simp)] at hfold
      exact events_inv hI (e :: r) h hT hall htime hfold hsfold
  exact hI.frameS (hI.frameM _ _ hsim1) hpops.1 hpops.2.1 hpops.2.2

theorem groups_inv {N0 : Q} {I : Q → BState → St → Prop} (hI : SimInv N0 I) :
    ∀ (groups : List (List (Event Num))) {T : Q} {s s' : BState} {σ σ' : St},
    I T s σ → (∀ g ∈ groups, ∀ e ∈ g, HasCmd e) → TimesOK N0 T (groups.map (List.map cmdOfD)) →
    groups.foldlM (Ms.stepGroup N0) s = .ok s' →
    (groups.map (List.map cmdOfD)).foldlM (Spec.MsSem.stepGroup N0) σ = .ok σ' →
    ∃ T', I T' s' σ' := by
  intro groups
  induction groups with
  | nil =>
    intro T s s' σ σ' h _ _ hm hs
    cases hm
    cases hs
    exact ⟨T, h⟩
  | cons g rest ih =>
    intro T s s' σ σ' h hall ht hm hs
    rw [List.foldlM_cons] at hm
    obtain ⟨s1, h1, hm⟩ := bind_ok.1 hm
    rw [List.map_cons, List.foldlM_cons] at hs
    obtain ⟨σ1, hs1, hs⟩ := sbind_ok.1 hs
    obtain ⟨T', hle, htg, hrest⟩ := ht
    have h' := stepGroup_inv hI h hle (hall g (List.mem_cons_self ..))
      (fun e he => htg _ (List.mem_map.mpr ⟨e, he, rfl⟩)) h1 hs1
    exact ih h' (fun g' hg' => hall g' (List.mem_cons_of_mem _ hg')) hrest hm hs

/-- the whole event loop preserves the invariant -/
theorem buildState_inv {N0 : Q} {I : Q → BState → St → Prop} (hI : SimInv N0 I)
    {args : Args} {pr : Parsed} {s : BState} {σ : St}
    (ha : ArgsAgree args pr) (h0 : 0 < N0 → I 0 (initState args N0) (initSt pr N0))
    (hm : buildState args N0 = .ok s) (hs : runState pr N0 = .ok σ) :
    ∃ T, I T s σ := by
  unfold buildState at hm
  split at hm
  · exact (RV.valueErr_bind_ok.1 hm).elim
  rename_i hN
  have hN : 0 < N0 := by grind
  obtain ⟨_, _, hm⟩ := bind_ok.1 hm
  obtain ⟨hi1, hi2⟩ := agree_list _ _ ha.initial
  obtain ⟨he1, he2⟩ := agree_list _ _ ha.events
  have hall : ∀ e ∈ args.initialState ++ sortBy (fun a b => Num.le a.t b.t) args.demographicEvents, HasCmd e := by
    intro e he
    rcases List.mem_append.mp he with he | he
    · exact hi2 e he
    · exact he2 e ((sortBy_mem _ _ _).mp he)
  have hgroups : cmdGroups pr = (eventGroups args).map (List.map cmdOfD) := by
    unfold cmdGroups eventGroups
    rw [hi1, he1, ← sortBy_cmd _ he2, ← List.map_append]
    exact splitBy_map cmdOfD sameT (fun a b => a.t == b.t) HasCmd (fun x y hx hy => sameT_cmd hx hy) _ hall
  unfold runState at hs
  rw [hgroups] at hs
  refine groups_inv hI (eventGroups args) (h0 hN) ?_ ?_ hm hs
  · intro g hg e he
    apply hall
    have : e ∈ (eventGroups args).flatten := List.mem_flatten.mpr ⟨g, hg, he⟩
    unfold eventGroups at this
    rwa [List.flatten_splitBy] at this
  · rw [← hgroups]
    unfold cmdGroups
    apply timesOK_of_sorted hN _ 0 (splitBy_const _)
    · rw [List.flatten_splitBy, List.pairwise_append]
      refine ⟨?_, sortCmd_sorted _, ?_⟩
      · apply List.pairwise_of_forall_mem_list
        intro a ha' b hb'
        rw [ha.initial0 a ha', ha.initial0 b hb']
      · intro a ha' b hb'
        rw [ha.initial0 a ha']
        exact ha.nonneg b (sortCmd_mem _ _ hb')
    · intro c hc
      rw [List.flatten_splitBy] at hc
      have h0 : 0 ≤ c.t := by
        rcases List.mem_append.mp hc with hc | hc
        · rw [ha.initial0 c hc]
        · exact ha.nonneg c (sortCmd_mem _ _ hc)
      have h4 : (0 : Q) ≤ 4 * N0 := by grind
      have := Rat.mul_le_mul_of_nonneg_left h0 h4
      simpa using this

end Demes.Proofs.FromMs
