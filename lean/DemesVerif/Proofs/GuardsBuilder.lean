/-
  Support for `Theorems/TablesGuardsBuilder.lean` (C02, C18): the argument record of a `BuilderCall`, and the
  lemmas that read one row / the tail of a `Builder.Prog.Method` as the Model's `setIfNotNone` / `setIfGiven` /
  `appendTo` / `appendRaises`.  Nothing here depends on `Generated/`.
-/
import DemesVerif.Model.Builder
import DemesVerif.Model.BuilderProg
import DemesVerif.Model.ValueEq
namespace Demes.Proofs.GuardsBuilder
open Demes Demes.Obj Demes.Builder Demes.Builder.Prog

/-- the arguments of a call as the keyword record the Python method receives: the parameter names are the
source's, `none` = not passed.  (`resolve` takes no argument.) -/
def argsOf : BuilderCall → Args
  | .init description timeUnits generationTime doi defaults metadata =>
      [("description", description), ("time_units", timeUnits), ("generation_time", generationTime),
       ("doi", doi), ("defaults", defaults), ("metadata", metadata)]
  | .addDeme name description ancestors proportions startTime epochs defaults =>
      [("name", some name), ("description", description), ("ancestors", ancestors), ("proportions", proportions),
       ("start_time", startTime), ("epochs", epochs), ("defaults", defaults)]
  | .addMigration rate demes source dest startTime endTime =>
      [("rate", rate), ("demes", demes), ("source", source), ("dest", dest), ("start_time", startTime),
       ("end_time", endTime)]
  | .addPulse sources dest proportions time =>
      [("sources", sources), ("dest", dest), ("proportions", proportions), ("time", time)]
  | .resolve => []

/-- the value of a parameter whose default is the sentinel -/
def ofOpt : Option Value → PyVal
  | some v => .val v
  | none => .noDefault

/-! ### binding -/

theorem argVal_pyNone (x : Option Value) : argVal .pyNone x = some (.val (x.getD .null)) := by
  cases x <;> rfl

theorem argVal_str (s : String) (x : Option Value) : argVal (.str s) x = some (.val (x.getD (.str s))) := by
  cases x <;> rfl

theorem argVal_noDefault (x : Option Value) : argVal .noDefault x = some (ofOpt x) := by
  cases x <;> rfl

theorem argVal_some (d : Default) (v : Value) : argVal d (some v) = some (.val v) := rfl

/-! ### variables -/

theorem getVar_setVar_ne {p q : String} (h : p ≠ q) (y : PyVal) (env : Env) :
    getVar q (setVar p y env) = getVar q env := by
  induction env with
  | nil => rfl
  | cons nv env ih =>
    obtain ⟨n, v⟩ := nv
    simp only [setVar]
    by_cases h1 : n = p
    · subst h1
      simp only [if_true, getVar, h, if_false]
    · simp only [h1, if_false, getVar, ih]

theorem getVar_ite (c : Bool) (q : String) (a b : Env) :
    getVar q (if c = true then a else b) = if c = true then getVar q a else getVar q b := by
  cases c <;> rfl

/-! ### one row -/

/-- `if p is not None: x[k] = p`, `p` a parameter whose default is `None` -/
theorem runRow_notNone (env : Env) (d : Obj) (k p : String) (x : Option Value)
    (h : getVar p env = some (.val (x.getD .null))) :
    runRow (env, d) ⟨k, p, .notNone, false⟩ = some (env, setIfNotNone k x d) := by
  simp only [runRow, h]
  cases x with
  | none => rfl
  | some v => cases v <;> rfl

/-- the same with the conversion of the string `"Infinity"` -/
theorem runRow_notNone_infinity (env : Env) (d : Obj) (k p : String) (x : Option Value)
    (h : getVar p env = some (.val (x.getD .null))) :
    runRow (env, d) ⟨k, p, .notNone, true⟩
      = some (if isInfinityString (.val (x.getD .null)) = true then setVar p (.val (.num .pinf)) env else env,
              setIfNotNone k (x.map convInfinity) d) := by
  simp only [runRow, h]
  cases x with
  | none => rfl
  | some v =>
    cases v with
    | str s =>
      by_cases hs : s = "Infinity"
      · subst hs; rfl
      · simp [fires, isInfinityString, hs, setIfNotNone, convInfinity]
    | _ => rfl

/-- `if p is not NO_DEFAULT: x[k] = p`, `p` a parameter whose default is the sentinel -/
theorem runRow_notNoDefault (env : Env) (d : Obj) (k p : String) (x : Option Value)
    (h : getVar p env = some (ofOpt x)) :
    runRow (env, d) ⟨k, p, .notNoDefault, false⟩ = some (env, setIfGiven k x d) := by
  simp only [runRow, h]
  cases x with
  | none => rfl
  | some v => rfl

/-! ### the tail -/

theorem lookup_set_self (k : String) (v : Value) (d : Obj) : lookup k (Obj.set k v d) = some v := by
  induction d with
  | nil => simp [Obj.set, lookup]
  | cons kv d ih =>
    obtain ⟨k', v'⟩ := kv
    by_cases h : k' = k
    · simp [Obj.set, lookup, h]
    · simp [Obj.set, lookup, h, ih]

/-- `if key not in self.data: self.data[key] = []` / `self.data[key].append(item)` on a dictionary -/
theorem runTail_append (item d : Obj) (key : String) :
    runTail item (.obj d) (.append key true) = ⟨.obj (appendTo key (.obj item) d), appendRaises key d⟩ := by
  have hc : lookup key d = none ∨ ∃ v, lookup key d = some v := by
    cases lookup key d with
    | none => exact Or.inl rfl
    | some v => exact Or.inr ⟨v, rfl⟩
  rcases hc with h | ⟨v, h⟩
  · simp [runTail, appendTo, appendRaises, contains, h, lookup_set_self]
  · cases v <;> simp [runTail, appendTo, appendRaises, contains, h]

/-- … on anything else -/
theorem runTail_append_nonobj (item : Obj) (data : Value) (key : String) (ensure : Bool)
    (h : ∀ d, data ≠ .obj d) : runTail item data (.append key ensure) = ⟨data, true⟩ := by
  cases data with
  | obj d => exact absurd rfl (h d)
  | _ => rfl

end Demes.Proofs.GuardsBuilder
