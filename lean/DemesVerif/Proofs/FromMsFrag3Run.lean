/-
  C08, link C (movements), the third fragment — through the run, and the assembled statements on the fragment
  `Tame3` (every time group is a `GoodGroup3`).  The run-level lemmas are stated for `GroupOK` (the moves of the
  group satisfy `NSAT` or `Frag3`), so they cover `Tame''` as well.
-/
import DemesVerif.Proofs.FromMsWideRun
import DemesVerif.Proofs.FromMsFrag3Sem
namespace Demes.Proofs.FromMs
open Demes Demes.Ms Demes.Spec Demes.Spec.MsSem Demes.Spec.C08

/-! ## one group, then all groups -/

/-- the end of the options of a group, from `stepGroup` -/
theorem stepGroup_end_ok {N0 T T' : Q} {s s' : BState} {σ σ' : St} {evs : List (Event Num)}
    (hsim : SizeSim T s σ) (hT : T ≤ T') (hnames : NameInv s)
    (hall : ∀ e ∈ evs, HasCmd e) (hne : evs ≠ []) (htime : ∀ e ∈ evs, 4 * N0 * (cmdOfD e).t = T')
    (hok : GroupOK s.numDemes (evs.map cmdOfD))
    (hm : Ms.stepGroup N0 s evs = .ok s') (hs : Spec.MsSem.stepGroup N0 σ (evs.map cmdOfD) = .ok σ') :
    ∃ s1 g1 σ1 L1, s' = applyParams T' s1 g1
      ∧ evs.foldlM (stepEvent N0 T') (s, { lm := initLm s evs, params := [] }) = .ok (s1, g1)
      ∧ (evs.map cmdOfD).foldlM (Spec.MsSem.step N0) (σ, initL σ) = .ok (σ1, L1)
      ∧ σ'.moves = (if (evs.map cmdOfD).any isMove && !(canonRows L1).isEmpty
          then σ.moves ++ [{ time := T', rows := canonRows L1 }] else σ.moves)
      ∧ SizeSim T' s1 σ1
      ∧ GroupEnd T' s σ s1 g1 L1 (groupOps s.numDemes (evs.map cmdOfD)) := by
  obtain ⟨t, s1, g1, ht, hfold, rfl⟩ := stepGroup_ok hm
  obtain ⟨ht1, ht2⟩ := head_time hall hne htime
  have htT := ht1 t ht
  rw [htT] at hfold ⊢
  obtain ⟨σ1, L1, hsfold, hmoves⟩ := stepGroup_moves hs
  rw [ht2] at hmoves
  obtain ⟨hsim1, he⟩ := group_end_ok hsim hT hall htime hfold hsfold hok hnames
  exact ⟨s1, g1, σ1, L1, rfl, hfold, hsfold, hmoves, hsim1, he⟩

theorem group_movesInv_ok {N0 : Q} (hN : 0 < N0) {prev : Option Q} {T' : Q} {s s' : BState} {σ σ' : St}
    {evs : List (Event Num)}
    (hsim : Sim2 N0 (prev.getD 0) s σ) (hinv : MovesInv (prev.getD 0) s σ) (hnames : NameInv s)
    (hall : ∀ e ∈ evs, HasCmd e) (hne : evs ≠ []) (htime : ∀ e ∈ evs, 4 * N0 * (cmdOfD e).t = T')
    (hprev : PrevLt prev T')
    (hok : GroupOK s.numDemes (evs.map cmdOfD))
    (hpos : (evs.map cmdOfD).any isMove = true → prev.getD 0 < T')
    (hm : Ms.stepGroup N0 s evs = .ok s') (hs : Spec.MsSem.stepGroup N0 σ (evs.map cmdOfD) = .ok σ') :
    Sim2 N0 T' s' σ' ∧ MovesInv T' s' σ' ∧ NameInv s'
      ∧ s'.numDemes = s.numDemes + ((evs.map cmdOfD).filter isSplitC).length := by
  have hle : prev.getD 0 ≤ T' := by
    cases prev with
    | none => exact hprev
    | some T => exact Rat.le_of_lt hprev
  have hsim' := stepGroup_inv (sim2_inv N0) hsim hle hall htime hm hs
  have hnames' := stepGroup_names hnames hm
  have hnum := stepGroup_numDemes hall hm
  obtain ⟨s1, g1, σ1, L1, rfl, hfold, hsfold, hmoves, _, he⟩ :=
    stepGroup_end_ok hsim.1 hle hnames hall hne htime hok hm hs
  refine ⟨hsim', ?_, hnames', hnum⟩
  by_cases hmv : (evs.map cmdOfD).any isMove = true
  · have hTT := hpos hmv
    have hjs := events_joined evs hsim.1 hle hall htime hfold hsfold
    apply movesInv_move hinv hTT hsim.1 he hnames (fun j hj => (hjs.2 j hj).2)
    rw [hmoves, hmv]
    simp only [Bool.true_and]
  · have hmv' : (evs.map cmdOfD).any isMove = false := by simpa using hmv
    have hnm : ∀ e ∈ evs, isSplit e = false ∧ isJoinEv e = false := by
      intro e he'
      have h1 : isMove (cmdOfD e) = false := by
        rw [List.any_eq_false] at hmv'
        simpa using hmv' (cmdOfD e) (List.mem_map.mpr ⟨e, he', rfl⟩)
      rw [(cmd_kind (hall e he')).2] at h1
      simpa using h1
    obtain ⟨e1, e2, e3, e4⟩ := events_nonmove evs hnm hfold
    have hap : applyParams T' s1 g1 = s1 := by
      rw [applyParams_eq, e1]; rfl
    rw [hap]
    apply movesInv_nonmove hinv hle e2 e3 e4
    rw [hmoves, hmv']
    simp

theorem groups_movesInv_ok {N0 : Q} (hN : 0 < N0) : ∀ (groups : List (List (Event Num))) (T : Q)
    {s s' : BState} {σ σ' : St},
    Sim2 N0 T s σ → MovesInv T s σ → NameInv s →
    (∀ g ∈ groups, g ≠ [] ∧ ∀ e ∈ g, HasCmd e) → TimesOK2 N0 (some T) (groups.map (List.map cmdOfD)) →
    groupsOK s.numDemes (groups.map (List.map cmdOfD)) →
    groups.foldlM (Ms.stepGroup N0) s = .ok s' →
    (groups.map (List.map cmdOfD)).foldlM (Spec.MsSem.stepGroup N0) σ = .ok σ' →
    ∃ T1, MovesInv T1 s' σ' ∧ NameInv s' := by
  intro groups
  induction groups with
  | nil =>
    intro T s s' σ σ' _ hinv hn _ _ _ hm hs
    cases hm
    cases hs
    exact ⟨_, hinv, hn⟩
  | cons g rest ih =>
    intro T s s' σ σ' hsim hinv hn hall ht hgood hm hs
    rw [List.foldlM_cons] at hm
    obtain ⟨s1, h1, hm⟩ := RV.bind_ok.1 hm
    rw [List.map_cons, List.foldlM_cons] at hs
    obtain ⟨σ1, hs1, hs⟩ := sbind_ok.1 hs
    obtain ⟨T', hprev, htg, hrest⟩ := ht
    obtain ⟨hne, hcmd⟩ := hall g (List.mem_cons_self ..)
    rw [List.map_cons] at hgood
    obtain ⟨hg1, hg2⟩ := hgood
    obtain ⟨a1, a2, a3, a5⟩ := group_movesInv_ok hN (prev := some T) hsim hinv hn hcmd hne
      (fun e he => htg _ (List.mem_map.mpr ⟨e, he, rfl⟩)) hprev hg1 (fun _ => hprev) h1 hs1
    exact ih T' a1 a2 a3 (fun g' hg' => hall g' (List.mem_cons_of_mem _ hg')) hrest
      (by rw [a5]; exact hg2) hm hs

/-! ## the whole event loop -/

/-- **the event loop, as far as lineage movements are concerned**, when every time group is a `GroupOK`: at the end
of the event loop either the invariant of the run holds, or the Builder state is marked (a pulse at time 0 or a
deme starting at time 0: `from_ms` will fail) -/
theorem buildState_movesInv_ok {args : Args} {pr : Parsed} {N0 : Q} {s : BState} {σ : St}
    (ha : ArgsAgree args pr) (ht : groupsOK pr.npop (cmdGroups pr))
    (hm : buildState args N0 = .ok s) (hs : runState pr N0 = .ok σ) :
    (∃ T, MovesInv T s σ ∧ NameInv s) ∨ ZeroMark s := by
  unfold buildState at hm
  split at hm
  · exact (RV.valueErr_bind_ok.1 hm).elim
  rename_i hN
  have hN : 0 < N0 := by grind
  obtain ⟨_, _, hm⟩ := RV.bind_ok.1 hm
  obtain ⟨hgroups, hallg, htimes, hnum⟩ := run_setup (N0 := N0) ha hN
  unfold runState at hs
  rw [hgroups] at hs
  rw [hgroups, ← hnum] at ht
  have hsim0 : Sim2 N0 0 (initState args N0) (initSt pr N0) :=
    ⟨initial_sizeSim args pr N0 ha, initial_migSim args pr N0 ha⟩
  generalize hK : eventGroups args = K at hm hs ht htimes hallg
  cases K with
  | nil =>
    cases hm
    cases hs
    exact Or.inl ⟨0, initial_movesInv args pr N0, initState_names args N0⟩
  | cons g rest =>
    rw [List.foldlM_cons] at hm
    obtain ⟨s1, h1, hm⟩ := RV.bind_ok.1 hm
    rw [List.map_cons, List.foldlM_cons] at hs
    obtain ⟨σ1, hs1, hs⟩ := sbind_ok.1 hs
    rw [List.map_cons] at htimes ht
    obtain ⟨T', hprev, htg, hrest⟩ := htimes
    have hT'0 : 0 ≤ T' := hprev
    obtain ⟨ht1, ht2⟩ := ht
    obtain ⟨hne, hcmd⟩ := hallg g (List.mem_cons_self ..)
    have htg' : ∀ e ∈ g, 4 * N0 * (cmdOfD e).t = T' := fun e he => htg _ (List.mem_map.mpr ⟨e, he, rfl⟩)
    have hnum1 := stepGroup_numDemes hcmd h1
    have hallrest : ∀ g' ∈ rest, g' ≠ [] ∧ ∀ e ∈ g', HasCmd e :=
      fun g' hg' => hallg g' (List.mem_cons_of_mem _ hg')
    have hrestgood : groupsOK s1.numDemes (rest.map (List.map cmdOfD)) := by rw [hnum1]; exact ht2
    by_cases hcase : (g.map cmdOfD).any isMove = true → (0 : Q) < T'
    · obtain ⟨a1, a2, a3, _⟩ := group_movesInv_ok hN (prev := none) hsim0 (initial_movesInv args pr N0)
        (initState_names args N0) hcmd hne htg' hprev ht1 hcase h1 hs1
      exact Or.inl (groups_movesInv_ok hN rest T' a1 a2 a3 hallrest hrest hrestgood hm hs)
    · -- the first group is at time 0 and has `-es` / `-ej`
      have hT0 : T' = 0 := by
        by_contra hne0
        exact hcase (fun _ => lt_of_le_of_ne hT'0 (fun e => hne0 e.symm))
      subst hT0
      have hsim' : Sim2 N0 0 s1 σ1 := stepGroup_inv (sim2_inv N0) hsim0 (Rat.le_refl) hcmd htg' h1 hs1
      have hnames' := stepGroup_names (initState_names args N0) h1
      obtain ⟨j1, _, _⟩ := stepGroup_zeroMark (initState_jlt args N0) h1
      obtain ⟨s1', g1, σ1', L1, rfl, _, _, hmoves, hsim1, he⟩ :=
        stepGroup_end_ok hsim0.1 (Rat.le_refl) (initState_names args N0) hcmd hne htg' ht1 h1 hs1
      by_cases hz : ZeroMark (applyParams 0 s1' g1)
      · exact Or.inr ((groups_zeroMark rest j1 hm).2.1 hz)
      · obtain ⟨hinv, _⟩ := first_group_zero_core hsim0.1 hsim1 he (initState_demes args N0) rfl rfl hmoves hz
        exact Or.inl (groups_movesInv_ok hN rest 0 hsim' hinv hnames' hallrest hrest hrestgood hm hs)

/-- … on the fragment `Tame3` -/
theorem buildState_movesInv3 {args : Args} {pr : Parsed} {N0 : Q} {s : BState} {σ : St}
    (ha : ArgsAgree args pr) (ht : Tame3 pr = true)
    (hm : buildState args N0 = .ok s) (hs : runState pr N0 = .ok σ) :
    (∃ T, MovesInv T s σ ∧ NameInv s) ∨ ZeroMark s :=
  buildState_movesInv_ok ha (groupsOK_of_goodGroups3 _ _ ht) hm hs

/-! ## `from_ms` and `msSem` -/

/-- **the lineage movements of `from_ms`**, when every time group is a `GroupOK` -/
theorem fromMs_moves_ok {c : List String} {N0 : Q} {mg : MsGraph} {sem : DemogSem} {pr : Parsed}
    (h : fromMs c N0 none = .ok mg) (hsem : msSem c N0 = .ok sem) (hp : parsersAgree c = true)
    (hpr : parse c = .ok pr) (ht : groupsOK pr.npop (cmdGroups pr)) :
    ∃ gsem, resultSem mg = .ok gsem ∧ gsem.moves = sem.moves := by
  obtain ⟨args, s, hargs, hs, hf⟩ := fromMs_buildState h
  obtain ⟨pr', σ, hpr', hσ, he⟩ := msSem_runState hsem
  rw [hpr] at hpr'
  cases hpr'
  have ha : ArgsAgree args pr := by
    unfold parsersAgree at hp
    rw [hargs, hpr] at hp
    exact argsAgree_of_B hp
  rcases buildState_movesInv_ok ha ht hs hσ with ⟨T, hinv, hn⟩ | hz
  · exact moves_of_movesInv h hf he hinv hn
  · exact (not_zeroMark_of_ok h hargs hs hz).elim

/-- **the lineage movements of `from_ms`, on the fragment `Tame3`** -/
theorem fromMs_moves_frag3 {c : List String} {N0 : Q} {mg : MsGraph} {sem : DemogSem} {pr : Parsed}
    (h : fromMs c N0 none = .ok mg) (hsem : msSem c N0 = .ok sem) (hp : parsersAgree c = true)
    (hpr : parse c = .ok pr) (ht : Tame3 pr = true) :
    ∃ gsem, resultSem mg = .ok gsem ∧ gsem.moves = sem.moves :=
  fromMs_moves_ok h hsem hp hpr (groupsOK_of_goodGroups3 _ _ ht)

/-- **C08 on the fragment `Tame3`**: both demographies exist and are equivalent -/
theorem fromMs_sem_frag3 {c : List String} {N0 : Q} {mg : MsGraph} {sem : DemogSem} {pr : Parsed}
    (h : fromMs c N0 none = .ok mg) (hsem : msSem c N0 = .ok sem) (hp : parsersAgree c = true)
    (hpr : parse c = .ok pr) (ht : Tame3 pr = true) :
    SemAgree (msSem c N0) (resultSem mg) = true := by
  obtain ⟨gsem, hg, hm⟩ := fromMs_moves_frag3 h hsem hp hpr ht
  obtain ⟨rs, hrs, hsm⟩ := fromMs_sizes_migs_sem_total h hsem hp
  rw [hg] at hrs
  cases hrs
  rw [hsem, hg]
  show semEquiv sem gsem = true
  rw [semEquiv_split, hsm, hm]
  simp

/-! ## `Tame3` and the earlier fragments -/

/-- `Tame3` and `Tame''` are incomparable as sets of commands (a command of `Tame''` may join a population into a
population joined earlier in the group: the ms interpreter rejects it); every command of `Tame''` is covered by
`fromMs_moves_ok` as well -/
theorem groupsOK_of_goodGroups12 : ∀ (K : List (List Cmd)) (n : Nat), goodGroups12 n K = true → groupsOK n K := by
  intro K
  induction K with
  | nil => intro _ _; trivial
  | cons g rest ih =>
    intro n h
    simp only [goodGroups12, Bool.and_eq_true] at h
    exact ⟨groupOK_of_good12 h.1, ih _ h.2⟩

#print axioms applyParams_sem3
#print axioms fromMs_moves_frag3
#print axioms fromMs_sem_frag3

/-! ## groups taken from different fragments -/

theorem groupsOK_of_goodGroups13 : ∀ (K : List (List Cmd)) (n : Nat), goodGroups13 n K = true → groupsOK n K := by
  intro K
  induction K with
  | nil => intro _ _; trivial
  | cons g rest ih =>
    intro n h
    simp only [goodGroups13, Bool.and_eq_true, Bool.or_eq_true] at h
    refine ⟨?_, ih _ h.2⟩
    rcases h.1 with h1 | h1
    · exact groupOK_of_good12 h1
    · exact groupOK_of_good3 h1

/-- **C08 when every time group lies in one of the fragments `GoodGroup12`, `GoodGroup3`** -/
theorem fromMs_sem_frag13 {c : List String} {N0 : Q} {mg : MsGraph} {sem : DemogSem} {pr : Parsed}
    (h : fromMs c N0 none = .ok mg) (hsem : msSem c N0 = .ok sem) (hp : parsersAgree c = true)
    (hpr : parse c = .ok pr) (ht : Tame13 pr = true) :
    SemAgree (msSem c N0) (resultSem mg) = true := by
  obtain ⟨gsem, hg, hm⟩ := fromMs_moves_ok h hsem hp hpr (groupsOK_of_goodGroups13 _ _ ht)
  obtain ⟨rs, hrs, hsm⟩ := fromMs_sizes_migs_sem_total h hsem hp
  rw [hg] at hrs
  cases hrs
  rw [hsem, hg]
  show semEquiv sem gsem = true
  rw [semEquiv_split, hsm, hm]
  simp

theorem tame13_of_tame3 : ∀ (K : List (List Cmd)) (n : Nat), goodGroups3 n K = true → goodGroups13 n K = true := by
  intro K
  induction K with
  | nil => intro _ _; rfl
  | cons g rest ih =>
    intro n h
    simp only [goodGroups3, Bool.and_eq_true] at h
    simp only [goodGroups13, Bool.and_eq_true, Bool.or_eq_true]
    exact ⟨Or.inr h.1, ih _ h.2⟩

theorem tame13_of_tame12 : ∀ (K : List (List Cmd)) (n : Nat), goodGroups12 n K = true → goodGroups13 n K = true := by
  intro K
  induction K with
  | nil => intro _ _; rfl
  | cons g rest ih =>
    intro n h
    simp only [goodGroups12, Bool.and_eq_true] at h
    simp only [goodGroups13, Bool.and_eq_true, Bool.or_eq_true]
    exact ⟨Or.inl h.1, ih _ h.2⟩

end Demes.Proofs.FromMs
