"""Rule-targeted and random structural mutations of (valid) Demes documents.

Each mutation returns (document, tag).  Rule-targeted operators put a value exactly on a bound,
just inside and just outside it; structural operators delete / retype / null / rename /
duplicate fields at a random path.
"""
from __future__ import annotations

import copy
import math
import random

INF = math.inf
BAD_VALUES = [None, True, "x", "", "Infinity", 0, -1, 1, 0.5, 1.5, 2 ** -31, INF, -INF, math.nan, [], {}, [None], [1], ["A"], {"a": 1}]


def paths(v, path=(), acc=None):
    if acc is None:
        acc = []
    acc.append(path)
    if isinstance(v, dict):
        for k in v:
            paths(v[k], path + (k,), acc)
    elif isinstance(v, list):
        for i, x in enumerate(v):
            paths(x, path + (i,), acc)
    return acc


def get(d, path):
    for k in path:
        d = d[k]
    return d


def parent(d, path):
    return get(d, path[:-1]), path[-1]


def m_set_leaf(doc, rng, extra):
    ps = [p for p in paths(doc) if p]
    p = rng.choice(ps)
    par, k = parent(doc, p)
    par[k] = copy.deepcopy(rng.choice(BAD_VALUES + extra))
    return "set:" + field_of(p)


def m_delete(doc, rng, extra):
    ps = [p for p in paths(doc) if p and isinstance(parent(doc, p)[0], dict)]
    p = rng.choice(ps)
    par, k = parent(doc, p)
    del par[k]
    return "delete:" + field_of(p)


def m_unknown_field(doc, rng, extra):
    ps = [p for p in paths(doc) if isinstance(get(doc, p), dict)]
    p = rng.choice(ps)
    get(doc, p)[rng.choice(["zzz", "start_times", "Name", "size", "time"])] = rng.choice([1, "x", None])
    return "unknown_field:" + (field_of(p) or "top")


def m_rename_field(doc, rng, extra):
    ps = [p for p in paths(doc) if p and isinstance(parent(doc, p)[0], dict)]
    p = rng.choice(ps)
    par, k = parent(doc, p)
    v = par.pop(k)
    par[rng.choice(["source", "dest", "demes", "start_time", "end_time", "epochs", "defaults", "name", "rate", "time"])] = v
    return "rename_field:" + field_of(p)


def field_of(p):
    names = [str(k) for k in p if not isinstance(k, int)]
    return ".".join(names[-2:])


def all_times(doc):
    ts = set()
    for d in doc.get("demes", []) if isinstance(doc.get("demes"), list) else []:
        if isinstance(d, dict):
            if isinstance(d.get("start_time"), (int, float)):
                ts.add(d["start_time"])
            for e in d.get("epochs", []) if isinstance(d.get("epochs"), list) else []:
                if isinstance(e, dict) and isinstance(e.get("end_time"), (int, float)):
                    ts.add(e["end_time"])
    return sorted(t for t in ts if not (isinstance(t, float) and math.isnan(t)))


def m_time_field(doc, rng, extra):
    """move a time field onto another boundary of the document, or one step beside it"""
    cands = []
    for p in paths(doc):
        if p and p[-1] in ("start_time", "end_time", "time") and isinstance(get(doc, p), (int, float)):
            cands.append(p)
    if not cands:
        return None
    p = rng.choice(cands)
    ts = all_times(doc) + [0, INF]
    t = rng.choice(ts)
    t = rng.choice([t, t, t + 4 if t != INF else t, max(t - 4, 0) if t != INF else t, t * (1 + 2 ** -40) if t != INF else t])
    par, k = parent(doc, p)
    par[k] = t
    return "time:" + field_of(p)


def m_rate(doc, rng, extra):
    cands = [p for p in paths(doc) if p and p[-1] in ("rate", "selfing_rate", "cloning_rate")]
    if not cands:
        return None
    p = rng.choice(cands)
    par, k = parent(doc, p)
    par[k] = rng.choice([0, 1, 1 + 2 ** -40, -(2 ** -40), 1.5, 0.5, 0.75])
    return "rate:" + field_of(p)


def m_proportions(doc, rng, extra):
    cands = [p for p in paths(doc) if p and p[-1] == "proportions" and isinstance(get(doc, p), list)]
    if not cands:
        return None
    p = rng.choice(cands)
    v = get(doc, p)
    r = rng.random()
    if v and r < 0.5:
        f = rng.choice([1 + 2 ** -31, 1 - 2 ** -31, 1 + 2 ** -29, 1 - 2 ** -29, 0.5, 2])
        v[rng.randrange(len(v))] *= f
    elif r < 0.7:
        v.append(rng.choice([0.25, 0, 1]))
    elif v and r < 0.85:
        v.pop()
    else:
        par, k = parent(doc, p)
        par[k] = rng.choice([[1], [0.5, 0.5], [1.0, 0], [], [0.3, 0.7]])
    return "proportions:" + field_of(p)


def m_size(doc, rng, extra):
    cands = [p for p in paths(doc) if p and p[-1] in ("start_size", "end_size")]
    if not cands:
        return None
    p = rng.choice(cands)
    par, k = parent(doc, p)
    par[k] = rng.choice([0, -1, INF, 1e-300, 100, 200, math.nan, "100"])
    return "size:" + field_of(p)


def m_size_function(doc, rng, extra):
    cands = [p for p in paths(doc) if p and isinstance(p[-1], int) and len(p) >= 2 and p[-2] == "epochs" and isinstance(get(doc, p), dict)]
    if not cands:
        return None
    p = rng.choice(cands)
    get(doc, p)["size_function"] = rng.choice(["constant", "exponential", "linear", "N(t)", "", 1])
    return "size_function"


def m_names(doc, rng, extra):
    demes = doc.get("demes")
    if not isinstance(demes, list) or not demes:
        return None
    r = rng.random()
    names = [d.get("name") for d in demes if isinstance(d, dict)]
    if r < 0.25 and len(demes) >= 2:
        i, j = rng.sample(range(len(demes)), 2)
        if isinstance(demes[i], dict) and isinstance(demes[j], dict):
            demes[i]["name"] = demes[j].get("name")
            return "names:duplicate"
    if r < 0.5:
        d = rng.choice(demes)
        if isinstance(d, dict):
            d["name"] = rng.choice(["1a", "a b", "", "a-b", "for", "_", "a.b", "a\n", "a²", "\u0301a", "٣x", "·x", "a\u00a0b", "😀", "a😀", "π", "名前", "x٣", "a·b", "a\u0301"])
            return "names:invalid"
    if r < 0.75 and len(demes) >= 2:
        i, j = rng.sample(range(len(demes)), 2)
        demes[i], demes[j] = demes[j], demes[i]
        return "names:reorder_demes"
    # reference to an undefined deme
    cands = [p for p in paths(doc) if p and p[-1] in ("source", "dest") or (len(p) >= 2 and p[-2] in ("ancestors", "sources", "demes") and isinstance(p[-1], int) and isinstance(get(doc, p), str))]
    if not cands:
        return None
    p = rng.choice(cands)
    par, k = parent(doc, p)
    par[k] = rng.choice(["nope"] + [n for n in names if isinstance(n, str)])
    return "names:reference"


def m_defaults(doc, rng, extra):
    """invalid (or valid) defaults that may never be used"""
    dflt = doc.setdefault("defaults", {})
    if not isinstance(dflt, dict):
        return None
    sec = rng.choice(["deme", "migration", "pulse", "epoch"])
    table = {
        "deme": [("start_time", [-1, 0, "Infinity", INF, math.nan, 8]), ("ancestors", [["1x"], "A", [1], []]), ("proportions", [[0], [1.5], [0.5, 0.5], ["a"]]), ("description", [1, None, "d"]), ("zzz", [1])],
        "migration": [("rate", [-0.5, 2, "x", 0.25]), ("start_time", [-1, INF]), ("end_time", [INF, -1, 0]), ("source", ["1x", 3]), ("demes", [["1x"], "AB", []]), ("zzz", [1])],
        "pulse": [("time", [0, INF, -1, 8]), ("proportions", [[], [0.6, 0.6], [0], [0.5]]), ("sources", [[], ["1x"], "A"]), ("dest", ["1x", 1]), ("zzz", [1])],
        "epoch": [("end_time", [INF, -1, "0"]), ("start_size", [0, INF, -5, 100]), ("end_size", [0, 100]), ("selfing_rate", [1.5, -0.1, 0.5]), ("cloning_rate", [2, 0.5]), ("size_function", [1, None, "linear", "bogus"]), ("zzz", [1])],
    }
    k, vals = rng.choice(table[sec])
    tgt = dflt
    if sec == "epoch" and rng.random() < 0.4 and isinstance(doc.get("demes"), list) and doc["demes"] and isinstance(doc["demes"][0], dict):
        tgt = rng.choice([d for d in doc["demes"] if isinstance(d, dict)]).setdefault("defaults", {})
        if not isinstance(tgt, dict):
            return None
    s = tgt.setdefault(sec, {})
    if not isinstance(s, dict):
        return None
    s[k] = copy.deepcopy(rng.choice(vals))
    return f"defaults:{sec}.{k}"


def m_header(doc, rng, extra):
    k = rng.choice(["time_units", "generation_time", "description", "doi", "metadata"])
    vals = {
        "time_units": ["", "generations", "years", 1, None],
        "generation_time": [0, -1, INF, 1, 2, None, "1", math.nan],
        "description": [None, 1, "x"],
        "doi": [[""], "x", [1], [], [["a"]]],
        "metadata": [None, [], "x", {}, {"a": None}],
    }
    doc[k] = copy.deepcopy(rng.choice(vals[k]))
    return "header:" + k


def m_migration_shape(doc, rng, extra):
    migs = doc.get("migrations")
    if not isinstance(migs, list) or not migs:
        return None
    m = rng.choice(migs)
    if not isinstance(m, dict):
        return None
    r = rng.random()
    if r < 0.3:
        m["demes"] = rng.choice([["A"], [], "AB", ["A", "A"], None])
        return "migration:demes"
    if r < 0.6 and "demes" in m:
        m["source"] = "A"
        return "migration:demes+source"
    migs.append(copy.deepcopy(m))
    return "migration:duplicate"


def m_overlap_migration(doc, rng, extra):
    """a second migration for the same ordered pair, overlapping / abutting / containing the first
    in time, with every combination of zero and positive rates and both list orders"""
    migs = doc.get("migrations")
    if not isinstance(migs, list):
        return None
    cands = [m for m in migs if isinstance(m, dict) and "source" in m]
    if not cands:
        return None
    m = rng.choice(cands)
    ts = sorted(set(t for t in all_times(doc) if t != INF) | {0})
    n = copy.deepcopy(m)
    m["rate"] = rng.choice([0, 0, m.get("rate", 0.125)])
    n["rate"] = rng.choice([0, 0.015625, 0.015625])
    if len(ts) >= 2 and rng.random() < 0.7:
        # give the first an interior window [lo, hi] and the second a window around / across it
        i = rng.randrange(len(ts) - 1)
        j = rng.randrange(i + 1, len(ts))
        lo, hi = ts[i], ts[j]
        m["start_time"], m["end_time"] = hi, lo
        below = [t for t in ts if t < lo]
        above = [t for t in ts if t > hi]
        inside = [t for t in ts if lo <= t <= hi]
        e = rng.choice((below or [None]) + [None, lo] + inside[:1])
        st = rng.choice((above or [None]) + [None, hi] + inside[-1:])
        for k, v in (("start_time", st), ("end_time", e)):
            if v is None:
                n.pop(k, None)
            else:
                n[k] = v
    else:
        for k in ("start_time", "end_time"):
            r = rng.random()
            if r < 0.4:
                n.pop(k, None)
            elif r < 0.9:
                n[k] = rng.choice(ts + ([INF] if k == "start_time" else []))
    if rng.random() < 0.5:
        migs.append(n)
    else:
        migs.insert(migs.index(m), n)
    return "migration:overlap"


def m_near_sizes(doc, rng, extra):
    """start and end sizes of one epoch that differ only by a relative 2^-40: still a size change,
    so it is not allowed in an infinite first epoch or with size_function constant"""
    cands = [p for p in paths(doc) if p and isinstance(p[-1], int) and len(p) >= 2 and p[-2] == "epochs" and isinstance(get(doc, p), dict)]
    if not cands:
        return None
    first = [p for p in cands if p[-1] == 0]
    p = rng.choice(first if first and rng.random() < 0.6 else cands)
    e = get(doc, p)
    ss = e.get("start_size", e.get("end_size", 100))
    if not isinstance(ss, (int, float)) or isinstance(ss, bool) or not (0 < ss < INF):
        ss = 100
    e["start_size"] = ss
    e["end_size"] = ss * (1 + 2.0 ** -40) if rng.random() < 0.7 else ss * (1 - 2.0 ** -40)
    r = rng.random()
    if r < 0.3:
        e["size_function"] = "constant"
    elif r < 0.6:
        e.pop("size_function", None)
    return "size:near_equal"


def m_pulse_multi_source(doc, rng, extra):
    """a pulse with several sources whose time is the start (or end) time of ONE of them"""
    demes = [d for d in doc.get("demes", []) if isinstance(d, dict) and isinstance(d.get("name"), str)]
    if len(demes) < 3:
        return None
    timed = [d for d in demes if isinstance(d.get("start_time"), (int, float)) and 0 < d["start_time"] < INF]
    if not timed:
        return None
    a = rng.choice(timed)
    others = [d for d in demes if d is not a]
    b, c = rng.sample(others, 2)
    srcs = [a["name"], b["name"]]
    rng.shuffle(srcs)
    pulse = {"sources": srcs, "dest": c["name"], "time": a["start_time"], "proportions": [0.125, 0.25]}
    doc.setdefault("pulses", [])
    if not isinstance(doc["pulses"], list):
        return None
    doc["pulses"].append(pulse)
    return "pulse:at_one_source_start"


def m_sym_big_rate(doc, rng, extra):
    """a single symmetric migration among k >= 3 demes whose rate is fine for one pair but makes
    the total rate into each deme k-1 times as large"""
    names = [d.get("name") for d in doc.get("demes", []) if isinstance(d, dict) and isinstance(d.get("name"), str)]
    if len(names) < 3:
        return None
    k = rng.randint(3, min(4, len(names)))
    group = rng.sample(names, k)
    rate = rng.choice([0.5, 0.5 + 2.0 ** -40, 0.75, 1, 0.375, 0.25])
    doc["migrations"] = [{"demes": group, "rate": rate}]
    return "migration:symmetric_total_rate"


def m_empty_list(doc, rng, extra):
    """a list-valued field emptied (epochs: [], demes: [], sources: [], ...)"""
    cands = [p for p in paths(doc) if p and isinstance(get(doc, p), list) and isinstance(parent(doc, p)[0], dict)]
    if not cands:
        return None
    pr = [p for p in cands if p[-1] in ("epochs", "demes", "sources", "ancestors", "proportions")]
    p = rng.choice(pr if pr and rng.random() < 0.7 else cands)
    par, k = parent(doc, p)
    par[k] = []
    return "empty_list:" + field_of(p)


OPERATORS = [m_empty_list, m_near_sizes, m_pulse_multi_source, m_sym_big_rate, m_overlap_migration, m_overlap_migration, m_set_leaf, m_set_leaf, m_delete, m_unknown_field, m_rename_field, m_time_field, m_time_field, m_rate,
             m_proportions, m_size, m_size_function, m_names, m_defaults, m_defaults, m_header, m_migration_shape]


def mutate(doc, rng: random.Random, n_ops=None):
    d = copy.deepcopy(doc)
    names = [x.get("name") for x in d.get("demes", []) if isinstance(x, dict)] if isinstance(d.get("demes"), list) else []
    extra = [n for n in names if isinstance(n, str)] + all_times(d)
    tags = []
    for _ in range(n_ops or rng.choice([1, 1, 1, 2])):
        for _try in range(5):
            op = rng.choice(OPERATORS)
            try:
                t = op(d, rng, extra)
            except (KeyError, IndexError, TypeError, AttributeError, ValueError):
                t = None
            if t:
                tags.append(t)
                break
    return d, "+".join(tags) or "none"
