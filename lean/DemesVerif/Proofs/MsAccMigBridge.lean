/-
  C09, acceptance — the migration part: the Builder's matrix history (`mm_list`, `mm_end_times`) at the end
  of the event loop of `from_ms` on the command `to_ms` emits, in closed form: off the diagonal the entry in
  force at `t ≥ 0` is `4·N0·gRate g j k t`, and no matrix is in force before time `0`; the initial demes of
  the Builder carry the start times of the graph's demes.
-/
import DemesVerif.Proofs.MsAccMigTyped
import DemesVerif.Proofs.MsAccMigEnd0
import DemesVerif.Proofs.MsRTBridge
import DemesVerif.Proofs.MsRTTame
import DemesVerif.Proofs.MsRTCompose
import DemesVerif.Proofs.FromMsMigFold
import DemesVerif.Proofs.FromMsSizeFold
set_option linter.unusedSimpArgs false
set_option linter.unusedVariables false
namespace Demes.Proofs.MsAcc
open Demes Demes.Ms Demes.Spec Demes.Spec.C07 Demes.Spec.C09 Demes.Proofs.RV Demes.Proofs.ToMs Demes.Proofs.MsRT
open Demes.Proofs.FromMs
open Demes.Spec.MsSem (St Pop Mat matGet)
open Demes.Spec.C08 (ArgsAgree runState cmdGroups initSt mmRateAt snapRateAt scaleRate bEndTime)

/-! ### `snapRateAt` and `matAt` -/

theorem find?_reverse_eq {α} (p : α → Bool) (l : List α) : l.reverse.find? p = (l.filter p).getLast? := by
  rw [List.getLast?_eq_head?_reverse, ← List.filter_reverse, List.head?_filter]

theorem snapRateAt_some {snaps : List (Q × Mat)} {t : Q} {x : Q × Mat}
    (h : (snaps.filter (fun tm => decide (tm.1 ≤ t))).getLast? = some x) (i j : Nat) :
    snapRateAt snaps i j t = some (matGet (matAt snaps t) i j) := by
  unfold snapRateAt matAt
  rw [find?_reverse_eq, h]
  rfl

theorem snapRateAt_none {snaps : List (Q × Mat)} {t : Q}
    (h : snaps.filter (fun tm => decide (tm.1 ≤ t)) = []) (i j : Nat) : snapRateAt snaps i j t = none := by
  unfold snapRateAt
  rw [find?_reverse_eq, h]
  rfl

/-- the snapshots of a run: the first is taken at time `0`, all at non-negative times -/
theorem snapRateAt_run {N0 : Q} (hN : 0 < N0) {n0 : Nat} {evs : List (Event Growth)} (he : ∀ e ∈ evs, 0 ≤ evT e)
    (i j : Nat) (t : Q) :
    snapRateAt (runP N0 (s0Of N0 n0) evs).snaps i j t
      = if 0 ≤ t then some (matGet (matAt (runP N0 (s0Of N0 n0) evs).snaps t) i j) else none := by
  obtain ⟨ex, hs, hex⟩ := snaps_run (N0 := N0) evs (s0Of N0 n0)
  by_cases ht : 0 ≤ t
  · rw [if_pos ht]
    have hne : (runP N0 (s0Of N0 n0) evs).snaps.filter (fun tm => decide (tm.1 ≤ t)) ≠ [] := by
      rw [hs]
      simp only [s0Of, List.singleton_append, List.filter_cons, ht, decide_true, if_true]
      exact List.cons_ne_nil _ _
    cases hl : ((runP N0 (s0Of N0 n0) evs).snaps.filter (fun tm => decide (tm.1 ≤ t))).getLast? with
    | none => exact absurd (List.getLast?_eq_none_iff.1 hl) hne
    | some x => exact snapRateAt_some hl i j
  · rw [if_neg ht]
    apply snapRateAt_none
    rw [List.filter_eq_nil_iff]
    intro x hx
    simp only [decide_eq_true_eq]
    intro hle
    apply ht
    rw [hs] at hx
    rcases List.mem_append.1 hx with hx | hx
    · simp only [s0Of, List.mem_singleton] at hx
      rw [hx] at hle; exact hle
    · obtain ⟨e, hem, hxe⟩ := hex x hx
      have h1 := he e hem
      have h4 : (0 : Q) ≤ 4 * N0 := by grind
      have : 0 ≤ 4 * N0 * evT e := Rat.mul_nonneg h4 h1
      rw [hxe] at hle
      exact Rat.le_trans this hle

/-! ### the Builder's entries from the interpreter's -/

theorem scaleRate_eq_fin {N0 : Q} (hN : 0 < N0) {r : Num} {x : Q} (h : scaleRate N0 r = .fin x) :
    r = .fin (4 * N0 * x) := by
  have h4 : (4 * N0) ≠ 0 := by grind
  cases r with
  | fin q =>
    simp only [scaleRate, numDivQ, Num.fin.injEq] at h
    rw [← h, Rat.mul_comm, Rat.div_mul_cancel h4]
  | pinf => cases h
  | ninf => cases h
  | nan => cases h

theorem mmRateAt_of_hist {N0 : Q} (hN : 0 < N0) {ml : List MM} {ts : List Q} {j k : Nat} {t : Q} {o : Option Q}
    (h : (mmRateAt ml ts j k t).map (scaleRate N0) = o.map Num.fin) :
    mmRateAt ml ts j k t = o.map (fun x => Num.fin (4 * N0 * x)) := by
  cases hm : mmRateAt ml ts j k t with
  | none =>
    rw [hm] at h
    cases o with
    | none => rfl
    | some x => cases h
  | some r =>
    rw [hm] at h
    cases o with
    | none => cases h
    | some x =>
      simp only [Option.map_some, Option.some.injEq] at h
      rw [scaleRate_eq_fin hN h]
      rfl

/-! ### the bridge to the typed run -/

section
variable {g : Graph} (c : Clauses g) (hx : MsExpressible g = true) (hcs : ConstSizes g = true) {N0 : Q} (hN : 0 < N0)
include c hx

omit hx in
theorem header_npop (samples : Option (List Int)) : ((headerOf g samples).map (·.1)).getD 1 = g.demes.length := by
  unfold headerOf
  have := demes_pos c
  by_cases h1 : g.demes.length > 1
  · simp [h1]
  · simp [h1]; omega

include hcs hN

/-- the string interpreter accepts the command; its final state is the embedding of a typed state with
the populations, matrix and snapshots of the pure run -/
theorem runState_finalEvs (samples : Option (List Int)) :
    ∃ sG : StG, runState (prOf (headerOf g samples) (finalEvs g N0)) N0 = .ok (embedSt sG)
      ∧ CoreEq sG (runP N0 (s0Of N0 g.demes.length) (finalEvs g N0)) := by
  have he := evRT_finalEvs c hx hcs hN
  have hs := sorted_finalEvs' c hx hN
  have hflat := flatten_groupsByTime (finalEvs g N0)
  obtain ⟨sG, hrun, hcore, _⟩ := groups_ok (N0 := N0) (groupsByTime (finalEvs g N0)) (s0Of N0 g.demes.length)
    (fun pre e post h => by
      rw [hflat] at h
      exact okEv_finalEvs c hx hN h)
  rw [hflat] at hcore
  refine ⟨sG, ?_, hcore⟩
  unfold runState
  rw [cmdGroups_prOf _ _ he hs, initSt_embed, header_npop c samples,
    groups_embed (groupsByTime (finalEvs g N0)) _ sG (fun grp hg e hm => he e (by
      rw [← hflat]; exact List.mem_flatten.2 ⟨grp, hg, hm⟩)) hrun]

variable {samples : Option (List Int)} {args : Args} {s : BState}
  (ha : ArgsAgree args (prOf (headerOf g samples) (finalEvs g N0))) (hb : buildState args N0 = .ok s)
include ha hb

/-- shape of the matrix history -/
theorem mm_shape :
    s.mmList.length = s.mmEndTimes.length ∧ (∀ m ∈ s.mmList, Dim s.numDemes m) ∧ g.demes.length ≤ s.numDemes := by
  obtain ⟨sG, hrs, hcore⟩ := runState_finalEvs c hx hcs hN samples
  obtain ⟨h1, h2, h3, _⟩ := build_migrations ha hb hrs
  refine ⟨h1, h2, ?_⟩
  rw [h3]
  show g.demes.length ≤ (sG.pops.map embedPopG).length
  rw [List.length_map, hcore.1]
  have := runP_pops_length N0 (finalEvs g N0) (s0Of N0 g.demes.length)
  simpa [s0Of] using this

/-- **the matrix history in closed form**: off the diagonal, the entry in force at `t ≥ 0` is
`4·N0·gRate g j k t`; nothing is in force before time `0` -/
theorem mmRateAt_finalEvs {j k : Nat} (hjk : j ≠ k) (t : Q) :
    mmRateAt s.mmList s.mmEndTimes j k t = if 0 ≤ t then some (.fin (4 * N0 * gRate g j k t)) else none := by
  obtain ⟨sG, hrs, hcore⟩ := runState_finalEvs c hx hcs hN samples
  obtain ⟨_, _, _, hist⟩ := build_migrations ha hb hrs
  have he := evRT_finalEvs c hx hcs hN
  have h := hist j k t hjk
  have hsn : (embedSt sG).snaps = (runP N0 (s0Of N0 g.demes.length) (finalEvs g N0)).snaps := hcore.2.2
  rw [hsn, snapRateAt_run hN (fun e hm => evT_nonneg (he e hm))] at h
  rw [mmRateAt_of_hist hN h]
  by_cases ht : 0 ≤ t
  · rw [if_pos ht, if_pos ht, Option.map_some, matAt_gRate c hx hN hjk ht]
  · rw [if_neg ht, if_neg ht]
    rfl

/-- the deme of the Builder that is deme `j` of the graph: its oldest epoch ends at `0`, its start time
is the graph's -/
theorem deme_finalEvs {j : Nat} {dj : Deme} (hj : g.demes[j]? = some dj) :
    ∃ D, s.demes[j]? = some D ∧ bEndTime D = 0 ∧ D.startTime = dj.startTime := by
  obtain ⟨sG, hrs, hcore⟩ := runState_finalEvs c hx hcs hN samples
  have hjlt : j < g.demes.length := (List.getElem?_eq_some_iff.mp hj).1
  have hn : (initPop args).1 = g.demes.length := by
    rw [initPop_fst]
    exact ha.npop.trans (header_npop c samples)
  obtain ⟨e1, e2⟩ := buildState_end0 hb
  rw [hn] at e1 e2
  have hD : s.demes[j]? = some s.demes[j] := List.getElem?_eq_getElem (by omega)
  generalize s.demes[j] = D at hD
  refine ⟨D, hD, e2 j D hjlt hD, ?_⟩
  -- the typed population
  have h0 : (s0Of N0 g.demes.length).pops[j]? = some { lo := 0, upd := [⟨0, some N0, some .zero⟩] } := by
    simp [s0Of, List.getElem?_replicate, hjlt]
  have hp := runP_pops_get (N0 := N0) (finalEvs g N0) h0
  rw [hiFrom_finalEvs c hx hN hj] at hp
  have hp' : (embedSt sG).pops[j]? = some (embedPopG
      { lo := 0, hi := dj.startTime, upd := [⟨0, some N0, some .zero⟩] ++ (finalEvs g N0).filterMap (updOf? N0 j) }) := by
    show (sG.pops.map embedPopG)[j]? = _
    rw [List.getElem?_map, hcore.1, hp]
    rfl
  obtain ⟨_, _, hrel⟩ := build_sizes ha hb hrs
  obtain ⟨_, _, hst, _⟩ := hrel j D _ hD hp'
  rw [hst, embedPopG_hi]

end

end Demes.Proofs.MsAcc
