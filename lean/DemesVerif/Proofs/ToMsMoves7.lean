/-
  C07 — the graph's own lineage movements stay inside the lifetimes (the restriction of `≈`
  leaves them unchanged), and the moves part of `≈`.
-/
import DemesVerif.Proofs.ToMsMoves6
set_option linter.unusedSimpArgs false
set_option linter.unusedVariables false
namespace Demes.Proofs.ToMs
open Demes Demes.Ms Demes.Spec Demes.Spec.C07 Demes.Proofs.RV
open Demes.Spec.MsSem

/-- column `j` belongs to a deme that exists at `T` (old side), or is born at `T` and still to be
processed -/
def ColOk (g : Graph) (T : Q) (rem : List DemeOrPulse) (j : Nat) : Prop :=
  ∃ k dj, g.demes[k]? = some dj ∧ j = k + 1 ∧ dj.endTime ≤ T
    ∧ (ETime.fin T < dj.startTime ∨ (dj.startTime = ETime.fin T ∧ DemeOrPulse.deme dj ∈ rem))

theorem contrib_ne_zero {g : Graph} {k : Nat} : ∀ (l : List String) (ps : List Q), contrib g l ps k ≠ 0 →
    ∃ a ∈ l, pidOf g a = k
  | [], _, h => by simp [contrib] at h
  | a :: l, [], h => by simp [contrib] at h
  | a :: l, p :: ps, h => by
    simp only [contrib] at h
    rcases Arith.add_ne_zero' h with h1 | h1
    · by_cases ha : pidOf g a = k
      · exact ⟨a, List.mem_cons_self, ha⟩
      · rw [if_neg ha] at h1; exact absurd rfl h1
    · obtain ⟨b, hb, hbk⟩ := contrib_ne_zero l ps h1
      exact ⟨b, List.mem_cons_of_mem _ hb, hbk⟩

section
variable {g : Graph} (c : Clauses g) (hx : MsExpressible g = true)
include c hx

theorem cols_inv {T : Q} : ∀ (xs : List DemeOrPulse) (r : Row), (∀ x ∈ xs, x ∈ dpsEq g T) →
    (∀ j, r.get j ≠ 0 → ColOk g T xs j) → ∀ j, (xs.foldl (gRowStep g) r).get j ≠ 0 → ColOk g T [] j
  | [], _, _, h => h
  | x :: rest, r, hxs, h => by
    rw [List.foldl_cons]
    apply cols_inv rest _ (fun y hy => hxs y (List.mem_cons_of_mem _ hy))
    intro j hj
    obtain ⟨hxm, hxk⟩ := List.mem_filter.1 (hxs x List.mem_cons_self)
    simp only [decide_eq_true_eq] at hxk
    cases x with
    | pulse p =>
      have hp := mem_dps_pulse hxm
      have htime : p.time = T := by simpa [DemeOrPulse.key] using hxk
      -- a `ColOk` for `pulse p :: rest` is one for `rest`
      have hweak : ∀ j', ColOk g T (DemeOrPulse.pulse p :: rest) j' → ColOk g T rest j' := by
        rintro j' ⟨k, dj, hd, hjk, hend, hor⟩
        refine ⟨k, dj, hd, hjk, hend, hor.imp id (fun ⟨h1, h2⟩ => ⟨h1, ?_⟩)⟩
        rcases List.mem_cons.1 h2 with h3 | h3
        · cases h3
        · exact h3
      simp only [gRowStep] at hj
      by_cases hm : r.get (pidOf g p.dest) = 0
      · simp only [pulseRow, if_pos hm] at hj
        exact hweak j (h j hj)
      · rw [get_pulseRow] at hj
        by_cases hjD : j = pidOf g p.dest
        · rw [hjD]; exact hweak _ (h _ hm)
        · rw [if_neg hjD] at hj
          rcases Arith.add_ne_zero' hj with h1 | h1
          · exact hweak j (h j h1)
          · obtain ⟨a, ha, haj⟩ := contrib_ne_zero _ _ (Arith.mul_ne_zero_right h1)
            obtain ⟨dd, _, _, _, _, hsrc⟩ := pulse_facts c hp
            obtain ⟨sd, hsd, hle, _, hne, hend, _⟩ := hsrc a ha
            obtain ⟨_, _, hget⟩ := idx_idOf c hsd
            have hidx : idx (idOf g a) + 1 = j := by
              rw [← haj, idOf_eq_pidOf]; unfold idx pidOf; omega
            rw [htime] at hle hne hend
            exact ⟨idx (idOf g a), sd, hget, hidx.symm, hend, Or.inl (et_lt_of_le_of_ne hle hne)⟩
    | deme d =>
      have hd := mem_dps_deme hxm
      have hst : d.startTime = ETime.fin T := hxk
      have hpidd : ∀ k, g.demes[k]? = some d → pidOf g d.name = k + 1 := fun k hk => pidOf_getElem c hk
      simp only [gRowStep] at hj
      -- a `ColOk` for `deme d :: rest` at a column other than `d`'s is one for `rest`
      have hweak : ∀ j', j' ≠ pidOf g d.name → ColOk g T (DemeOrPulse.deme d :: rest) j' → ColOk g T rest j' := by
        rintro j' hne ⟨k, dj, hdj, hjk, hend, hor⟩
        refine ⟨k, dj, hdj, hjk, hend, hor.imp id (fun ⟨h1, h2⟩ => ⟨h1, ?_⟩)⟩
        rcases List.mem_cons.1 h2 with h3 | h3
        · exfalso
          cases h3
          exact hne (by rw [hjk, hpidd k hdj])
        · exact h3
      by_cases hm : r.get (pidOf g d.name) = 0
      · simp only [bornRow, if_pos hm] at hj
        have hne : j ≠ pidOf g d.name := fun h' => hj (by rw [h', hm])
        exact hweak j hne (h j hj)
      · rw [get_bornRow] at hj
        have hanc : ∀ a ∈ d.ancestors, pidOf g a ≠ pidOf g d.name := by
          intro a ha h'
          have hdo := demeAncOk_of_valid c hd
          have : idOf g a = idOf g d.name := by rw [idOf_eq_pidOf, idOf_eq_pidOf, h']
          have := idOf_inj (hdo.anc a ha) hdo.me this
          have h2 := c.h2
          simp only [v2, List.all_eq_true, Bool.and_eq_true, decide_eq_true_eq, Bool.not_eq_true'] at h2
          obtain ⟨i, hi⟩ := List.mem_iff_getElem?.mp hd
          have hz' : (d, i) ∈ g.demes.zipIdx := by rw [List.mem_zipIdx_iff_getElem?]; simpa using hi
          have h3 := (h2 (d, i) hz').2
          rw [this] at ha
          simp [ha] at h3
        by_cases hjM : j = pidOf g d.name
        · exfalso
          rw [if_pos hjM, hjM, contrib_zero_of_not_mem _ _ hanc] at hj
          exact hj (Arith.zero_add_mul_zero _)
        · rw [if_neg hjM] at hj
          rcases Arith.add_ne_zero' hj with h1 | h1
          · exact hweak j hjM (h j h1)
          · obtain ⟨a, ha, haj⟩ := contrib_ne_zero _ _ (Arith.mul_ne_zero_right h1)
            obtain ⟨anc, hanc', hlt, hle⟩ := ancestor_facts c hd ha
            obtain ⟨_, _, hget⟩ := idx_idOf c hanc'
            have hidx : idx (idOf g a) + 1 = j := by
              rw [← haj, idOf_eq_pidOf]; unfold idx pidOf; omega
            rw [hst] at hlt hle
            exact ⟨idx (idOf g a), anc, hget, hidx.symm, hle, Or.inl hlt⟩

/-- the lifetime `graphSem` reports for population `k+1` -/
theorem lifeOf_gSem {k : Nat} {d : Deme} (hd : g.demes[k]? = some d) : lifeOf (gSem g) (k + 1) = some (gPopOf g d) := by
  have hdm : d ∈ g.demes := List.mem_of_getElem? hd
  unfold lifeOf
  rw [gSem_pops c, List.find?_map]
  have hfind : g.demes.find? ((fun p => decide (p.id = k + 1)) ∘ gPopOf g) = findDeme g d.name := by
    unfold findDeme
    apply find?_congr'
    intro d' hd'
    simp only [Function.comp, gPopOf]
    rw [Bool.eq_iff_iff]
    exact decide_eq_true_iff.trans ((pidOf_eq_iff c hd (demeId_isSome_of_mem c hd')).trans decide_eq_true_iff.symm)
  rw [hfind, findDeme_of_mem c hdm]
  rfl

omit c hx in
theorem mem_canonRows {L : List (Nat × Row)} {x : Nat × List (Nat × Q)} (h : x ∈ canonRows L) :
    ∃ r, (x.1, r) ∈ L ∧ x.2 = canonRow r := by
  rw [canonRows_def, sortKey_eq, mem_sortBy, List.mem_filter, List.mem_map] at h
  obtain ⟨⟨ir, hir, rfl⟩, _⟩ := h
  exact ⟨ir.2, hir, rfl⟩

/-- the restriction of `≈` leaves the graph's own rows unchanged -/
theorem restrictRows_graph (T : Q) :
    restrictRows (gSem g) T (canonRows (gRowsAt g T)) = some (canonRows (gRowsAt g T)) := by
  -- what is known of a row of the graph at `T`
  have hrow : ∀ x ∈ canonRows (gRowsAt g T), ∃ k d, g.demes[k]? = some d ∧ x.1 = k + 1 ∧ d.endTime < T
      ∧ ETime.fin T ≤ d.startTime ∧ ∀ jp ∈ x.2, ∃ k' dj, g.demes[k']? = some dj ∧ jp.1 = k' + 1
        ∧ dj.endTime ≤ T ∧ ETime.fin T < dj.startTime := by
    intro x hxm
    obtain ⟨r, hr, hcr⟩ := mem_canonRows hxm
    rw [gRowsAt_eq] at hr
    obtain ⟨ir0, hir0, hir⟩ := List.mem_map.1 hr
    obtain ⟨d, hdf, rfl⟩ := List.mem_map.1 hir0
    obtain ⟨hdm, hcond⟩ := List.mem_filter.1 hdf
    simp only [Bool.and_eq_true, decide_eq_true_eq] at hcond
    obtain ⟨k, hd⟩ := List.mem_iff_getElem?.mp hdm
    have hpid : pidOf g d.name = k + 1 := pidOf_getElem c hd
    simp only [Prod.mk.injEq] at hir
    obtain ⟨hi, hrr⟩ := hir
    refine ⟨k, d, hd, by rw [← hi, hpid], hcond.1, hcond.2, ?_⟩
    intro jp hjp
    rw [hcr, ← hrr] at hjp
    have hkeys : (Keys ((dpsEq g T).foldl (gRowStep g) [(pidOf g d.name, (1 : Q))])).Nodup :=
      keys_gRowFold _ _ (by simp [Keys])
    obtain ⟨hget, hne⟩ := (mem_canonRow hkeys).1 hjp
    have hcol := cols_inv c hx (T := T) (dpsEq g T) [(pidOf g d.name, (1 : Q))] (fun _ h => h) (by
      intro j hj
      rw [get_idRow] at hj
      by_cases hji : j = pidOf g d.name
      · refine ⟨k, d, hd, by rw [hji, hpid], Rat.le_of_lt hcond.1, ?_⟩
        by_cases hlt : ETime.fin T < d.startTime
        · exact Or.inl hlt
        · right
          have heq : d.startTime = ETime.fin T := (et_le_antisymm hcond.2 (et_le_of_not_lt hlt)).symm
          exact ⟨heq, List.mem_filter.2 ⟨mem_dps_of_deme hdm, by simp [DemeOrPulse.key, heq]⟩⟩
      · rw [if_neg hji] at hj; exact absurd rfl hj) jp.1 (by rw [hget]; exact hne)
    obtain ⟨k', dj, hdj, hjk, hend, hor⟩ := hcol
    refine ⟨k', dj, hdj, hjk, hend, ?_⟩
    rcases hor with h1 | ⟨_, h2⟩
    · exact h1
    · cases h2
  unfold restrictRows
  dsimp only
  rw [show List.filter _ (canonRows (gRowsAt g T)) = canonRows (gRowsAt g T) from List.filter_eq_self.2 (by
    intro x hxm
    obtain ⟨k, d, hd, hi, hlo, hhi, _⟩ := hrow x hxm
    rw [hi, lifeOf_gSem c hx hd]
    simp [gPopOf, hlo, hhi])]
  rw [if_pos]
  rw [List.all_eq_true]
  intro x hxm
  rw [List.all_eq_true]
  intro jp hjp
  obtain ⟨_, _, _, _, _, _, hcols⟩ := hrow x hxm
  obtain ⟨k', dj, hdj, hjk, hend, hlt⟩ := hcols jp hjp
  rw [hjk, lifeOf_gSem c hx hdj]
  simp [inLife, gPopOf, hend, hlt]

omit c hx in
theorem restrictMoves_id (gs : DemogSem) : ∀ (ms : List Move),
    (∀ m ∈ ms, restrictRows gs m.time m.rows = some m.rows ∧ m.rows.isEmpty = false) → restrictMoves gs ms = some ms
  | [], _ => rfl
  | m :: ms, h => by
    obtain ⟨h1, h2⟩ := h m List.mem_cons_self
    have ih := restrictMoves_id gs ms (fun x hx' => h x (List.mem_cons_of_mem _ hx'))
    simp only [restrictMoves, h1, ih, h2, Bool.false_eq_true, if_false]

theorem restrictMoves_gMoves : restrictMoves (gSem g) (gMoves g) = some (gMoves g) := by
  apply restrictMoves_id
  intro m hm
  rw [gMoves_eq, List.mem_flatMap] at hm
  obtain ⟨T, _, hmT⟩ := hm
  unfold moveOpt at hmT
  by_cases he : (canonRows (gRowsAt g T)).isEmpty = true
  · rw [if_pos he] at hmT; cases hmT
  · rw [if_neg he] at hmT
    simp only [List.mem_singleton] at hmT
    subst hmT
    exact ⟨restrictRows_graph c hx T, by simpa using he⟩

end

section
variable {g : Graph} (c : Clauses g) (hx : MsExpressible g = true) (hex : ExactProportions g = true)
  {N0 : Q} (hN : 0 < N0)
include c hx hex hN

/-- the moves recorded for the emitted command are the graph's -/
theorem moves_run : movesOf N0 (s0Of N0 g.demes.length) (groupsByTime (finalEvs g N0)) = gMoves g := by
  have h := movesOf_groups c hx hex hN (groupsByTime (finalEvs g N0)) []
    (by rw [flatten_groupsByTime]; rfl) (groupsOK_groupsByTime _ (sorted_byQ_finalEvs c hx hN))
    (fun _ h => by cases h)
  have h0 : runP N0 (s0Of N0 g.demes.length) [] = s0Of N0 g.demes.length := rfl
  rw [h0] at h
  rw [h, flatMap_ite_filter, gMoves_eq, ← group_times_eq c hx hN, List.flatMap_map]

/-- the moves part of `≈` -/
theorem movesMatch_run (sem : DemogSemG)
    (hm : sem.moves = movesOf N0 (s0Of N0 g.demes.length) (groupsByTime (finalEvs g N0))) :
    movesMatch sem (gSem g) = true := by
  unfold movesMatch
  rw [hm, moves_run c hx hex hN, restrictMoves_gMoves c hx]
  simp [gSem]

end

end Demes.Proofs.ToMs
