/-
  C08, after the event loop (3): `_remove_transient_demes` drops exactly the demes with a
  zero-length lifetime (`start_time == epochs[-1].end_time ≠ 0`) — which no pulse, migration or
  surviving deme refers to — and leaves everything else alone; `_sort_demes_by_ancestry` only
  permutes the demes, so whatever is read off the document BY NAME is unchanged.
-/
import DemesVerif.Proofs.FromMsNames
import DemesVerif.Proofs.FromMsPostTable
namespace Demes.Proofs.FromMs
open Demes Demes.Ms Demes.Spec.MsSem Demes.Spec.C08
open Demes.Proofs.RV (bind_ok pure_ok)

/-- the body of the loop of `_remove_transient_demes` -/
def transientStep (doc : MsDoc) (cur : List BDeme) (d : BDeme) : Except Err (List BDeme) :=
  match d.startTime with
  | .inf => pure cur
  | .fin st =>
    if st = 0 then pure cur
    else if st = lastEndTime d then do
      if (doc.pulses.getD []).any (fun p => p.sources.contains d.name || p.dest = d.name) then
        assertionErr "transient deme used by a pulse"
      if doc.migrations.any (fun m => m.source = d.name || m.dest = d.name) then
        assertionErr "transient deme used by a migration"
      if cur.any (fun o => (o.ancestors.getD []).contains d.name) then
        assertionErr "transient deme is an ancestor"
      pure (cur.filter (fun o => o.name ≠ d.name))
    else pure cur

theorem removeTransientDemes_eq (doc : MsDoc) :
    removeTransientDemes doc = (do
      if doc.demes.isEmpty then assertionErr "len(demes) > 0"
      let demes ← doc.demes.foldlM (transientStep doc) doc.demes
      pure { doc with demes := demes }) := rfl

theorem transientStep_ok {doc : MsDoc} {cur cur' : List BDeme} {d : BDeme} (h : transientStep doc cur d = .ok cur') :
    cur' = (if isTransient d then cur.filter (fun o => o.name ≠ d.name) else cur)
    ∧ (isTransient d = true → Unreferenced doc cur d) := by
  unfold transientStep at h
  cases hst : d.startTime with
  | inf =>
    have hT : isTransient d = false := by simp [isTransient, hst]
    rw [hst] at h
    dsimp only at h
    rw [pure_ok] at h
    rw [hT]
    exact ⟨by simp [h], fun hh => by cases hh⟩
  | fin st =>
    rw [hst] at h
    dsimp only at h
    by_cases h0 : st = 0
    · have hT : isTransient d = false := by simp [isTransient, hst, h0]
      rw [if_pos h0, pure_ok] at h
      rw [hT]
      exact ⟨by simp [h], fun hh => by cases hh⟩
    · rw [if_neg h0] at h
      by_cases h1 : st = lastEndTime d
      · rw [if_pos h1] at h
        have hT : isTransient d = true := by simp [isTransient, hst, h0, ← h1]
        rw [hT]
        by_cases c1 : (doc.pulses.getD []).any (fun p => p.sources.contains d.name || p.dest = d.name) = true
        · rw [if_pos c1] at h; exact (assertionErr_bind_ok.1 h).elim
        rw [if_neg c1] at h
        by_cases c2 : doc.migrations.any (fun m => m.source = d.name || m.dest = d.name) = true
        · rw [if_pos c2] at h; exact (assertionErr_bind_ok.1 h).elim
        rw [if_neg c2] at h
        by_cases c3 : cur.any (fun o => (o.ancestors.getD []).contains d.name) = true
        · rw [if_pos c3] at h; exact (assertionErr_bind_ok.1 h).elim
        rw [if_neg c3] at h
        simp only [pure_ok] at h
        refine ⟨by rw [← h]; rfl, fun _ => ⟨?_, ?_, ?_⟩⟩
        · intro p hp
          have := c1
          simp only [List.any_eq_true, not_exists, not_and, Bool.or_eq_true, decide_eq_true_eq,
            List.contains_iff_mem, not_or] at this
          exact this p hp
        · intro m hm
          have := c2
          simp only [List.any_eq_true, not_exists, not_and, Bool.or_eq_true, decide_eq_true_eq, not_or] at this
          exact this m hm
        · intro o ho
          have := c3
          simp only [List.any_eq_true, not_exists, not_and, List.contains_iff_mem] at this
          exact this o ho
      · rw [if_neg h1, pure_ok] at h
        have hT : isTransient d = false := by simp [isTransient, hst, h1]
        rw [hT]
        exact ⟨by simp [h], fun hh => by cases hh⟩

theorem transient_fold (doc : MsDoc) : ∀ (ds cur cur' : List BDeme), ds.foldlM (transientStep doc) cur = .ok cur' →
    cur' = cur.filter (fun o => !(ds.any (fun d => isTransient d && decide (d.name = o.name))))
    ∧ ∀ d ∈ ds, isTransient d = true → Unreferenced doc cur' d := by
  intro ds
  induction ds with
  | nil =>
    intro cur cur' h
    rw [List.foldlM_nil, pure_ok] at h
    subst h
    exact ⟨by simp, fun d hd => by cases hd⟩
  | cons d ds ih =>
    intro cur cur' h
    rw [List.foldlM_cons] at h
    obtain ⟨cur1, h1, h⟩ := RV.bind_ok.1 h
    obtain ⟨e1, u1⟩ := transientStep_ok h1
    obtain ⟨e2, u2⟩ := ih cur1 cur' h
    have hsub : ∀ o ∈ cur', o ∈ cur1 := by
      intro o ho
      rw [e2] at ho
      exact (List.mem_filter.mp ho).1
    refine ⟨?_, ?_⟩
    · rw [e2, e1]
      by_cases ht : isTransient d = true
      · rw [if_pos ht, List.filter_filter]
        apply List.filter_congr
        intro o _
        simp only [List.any_cons, ht, Bool.true_and]
        by_cases hn : d.name = o.name
        · simp [hn]
        · have : ¬ o.name = d.name := fun e => hn e.symm
          simp [hn, this]
      · rw [if_neg ht]
        apply List.filter_congr
        intro o _
        have : isTransient d = false := by simpa using ht
        simp [this]
    · intro x hx hxt
      rcases List.mem_cons.mp hx with rfl | hx
      · obtain ⟨a, b, c⟩ := u1 hxt
        refine ⟨a, b, fun o ho => c o ?_⟩
        have := hsub o ho
        rw [e1, if_pos hxt] at this
        exact (List.mem_filter.mp this).1
      · exact u2 x hx hxt

theorem name_inj_of_nodup {ds : List BDeme} (hnd : (ds.map (·.name)).Nodup) {a b : BDeme} (ha : a ∈ ds) (hb : b ∈ ds)
    (h : a.name = b.name) : a = b :=
  List.inj_on_of_nodup_map hnd ha hb h

/-- **(3a) `_remove_transient_demes`.**  With pairwise different deme names, the demes that
remain are exactly the non-transient ones, in their order; migrations, pulses and the number of
populations are untouched; and no pulse, no migration and no remaining deme (as an ancestor)
refers to a deleted deme. -/
theorem removeTransient_sem {doc doc' : MsDoc} (h : removeTransientDemes doc = .ok doc')
    (hnd : (doc.demes.map (·.name)).Nodup) :
    doc'.demes = doc.demes.filter (fun d => !isTransient d)
    ∧ doc'.migrations = doc.migrations ∧ doc'.pulses = doc.pulses ∧ doc'.numPops = doc.numPops
    ∧ ∀ d ∈ doc.demes, isTransient d = true → Unreferenced doc doc'.demes d := by
  rw [removeTransientDemes_eq] at h
  split at h
  · exact (assertionErr_bind_ok.1 h).elim
  · obtain ⟨demes, hd, h⟩ := RV.bind_ok.1 h
    rw [pure_ok] at h
    subst h
    obtain ⟨e, u⟩ := transient_fold doc doc.demes doc.demes demes hd
    refine ⟨?_, rfl, rfl, rfl, u⟩
    show demes = _
    rw [e]
    apply List.filter_congr
    intro o ho
    congr 1
    cases ht : isTransient o with
    | true =>
      rw [List.any_eq_true]
      exact ⟨o, ho, by simp [ht]⟩
    | false =>
      rw [List.any_eq_false]
      intro d hd'
      by_cases hn : d.name = o.name
      · have := name_inj_of_nodup hnd hd' ho hn
        subst this
        simp [ht]
      · simp [hn]

/-- **(3b) `_sort_demes_by_ancestry`** is a stable sort by descending start time: a permutation -/
theorem sortDemes_perm (ds : List BDeme) : (sortDemesByAncestry ds).Perm ds := sortBy_perm _ ds

/-- … so an observable that is computed per deme and then ordered by a key that identifies the
deme (the population number, looked up by NAME) does not see the sort -/
theorem sortDemes_sem {β} (f : BDeme → Nat × β) (ds : List BDeme)
    (hkeys : (ds.map (fun d => (f d).1)).Nodup) :
    sortKey ((sortDemesByAncestry ds).map f) = sortKey (ds.map f) := by
  apply sortKey_eq_of_perm
  · exact ((sortDemes_perm ds).map f).trans (sortKey_perm _).symm
  · have hs := sortKey_sorted (ds.map f)
    have hp := sortKey_perm (ds.map f)
    have hn : ((sortKey (ds.map f)).map (·.1)).Nodup := by
      have : ((sortKey (ds.map f)).map (·.1)).Perm (ds.map (fun d => (f d).1)) := by
        have := hp.map (·.1)
        rw [List.map_map] at this
        exact this
      exact this.nodup_iff.mpr hkeys
    have hn' := List.pairwise_map.mp hn
    exact (hs.and hn').imp (fun ⟨a, b⟩ => Nat.lt_of_le_of_ne a b)

end Demes.Proofs.FromMs
