import DemesVerif.Generated.Facts
namespace Demes.Tables
open Demes

/-- `Graph.fromdict` rebinds `data = copy.deepcopy(data)` before its first use of `data` -/
theorem fact_fromdict_copies_first : Generated.fromdictCopiesFirst = true := by decide
/-- `in_generations` works on `copy.deepcopy(self)` and never assigns through `self` -/
theorem fact_in_generations_copies_first : Generated.inGenerationsCopiesFirst = true := by decide
/-- `rename_demes` works on `copy.deepcopy(self)` and never assigns through `self` -/
theorem fact_rename_demes_copies_first : Generated.renameDemesCopiesFirst = true := by decide
/-- `Builder.resolve` is `Graph.fromdict(self.data)` -/
theorem fact_builder_resolve_passes_data : Generated.builderResolvePassesData = true := by decide
/-- the copy `Graph.fromdict` starts with is `deepcopy_unaliased(data)` (not the memoising
`copy.deepcopy`): `Heap.copy`, not `Heap.copyMemo` -/
theorem fact_fromdict_copy_is_unaliased : Generated.fromdictCopyIsUnaliased = true := by decide
/-- `deepcopy_unaliased` has the modelled shape: a new dict per mapping, a new list per list,
`copy.deepcopy` for leaves -/
theorem fact_deepcopy_unaliased_shape : Generated.deepcopyUnaliasedShape = true := by decide
/-- `Builder.resolve` consists of `return Graph.fromdict(self.data)` and nothing else -/
theorem fact_builder_resolve_only_passes_data : Generated.builderResolveOnlyPassesData = true := by decide

end Demes.Tables
