#!/usr/bin/env python3
"""Regenerates the machine-written blocks of DESIGN.md (between <!-- BEGIN:x --> / <!-- END:x -->):
the per-property theorem lists (from lean/registry.json + MANIFEST.json), the findings table
(known_findings.json) and the seeded-changes table (seeded/*/meta.json)."""
import glob, json, os, re
V = os.path.dirname(os.path.dirname(os.path.abspath(__file__)))
reg = json.load(open(os.path.join(V, "lean", "registry.json")))
man = json.load(open(os.path.join(V, "MANIFEST.json")))
kf = json.load(open(os.path.join(V, "known_findings.json")))
props = [json.loads(l) for l in open(os.path.join(V, "properties.jsonl"))]
claimed = {c["property_id"]: c for c in man["checks"]}

def block_theorems():
    out = ["| property | level claimed | registered obligations (audited every run) |", "|---|---|---|"]
    for p in props:
        pid = p["id"]
        names = [e["name"].split(".")[-1] for e in reg.get(pid, [])]
        thm = [n for n in names if not n.startswith(("tables_", "fact_"))]
        tab = [n for n in names if n.startswith(("tables_", "fact_"))]
        lvl = claimed[pid]["level_claimed"]["category"] if pid in claimed else "not claimed yet"
        txt = ", ".join(f"`{n}`" for n in thm) or "—"
        if tab:
            txt += f"; source-table obligations: {len(tab)} (`{tab[0]}` …)"
        out.append(f"| {pid} {p['title'][:48]} | {lvl} | {len(names)}: {txt} |")
    return "\n".join(out)

def block_findings():
    out = ["| id | property | status | what |", "|---|---|---|---|"]
    for e in kf["fixed"]:
        fid = e["what"].split(":")[0].split(" ")[0]
        out.append(f"| {fid} | {e['property']} | fixed in /repo commit `{e['commit']}` | {e['what']} |")
    for e in kf["known"]:
        out.append(f"| {e['id']} | {e['property']} | known finding (recorded, not repaired) | {e['what']} |")
    return "\n".join(out)

def block_seeds():
    out = ["| seeded change | breaks | what it needs to manifest (from the seeding agent's notes) | checks run → result |", "|---|---|---|---|"]
    for d in sorted(glob.glob(os.path.join(V, "seeded", "*"))):
        mp = os.path.join(d, "meta.json")
        if not os.path.exists(mp):
            continue
        m = json.load(open(mp))
        res = "; ".join(f"{r['check']}: " + ("**caught** (" + (r.get("what") or "").replace("|", "/")[:90] + ")" if r["exit"] == 1 else ("missed" if r["exit"] == 0 else "error")) for r in m.get("ran", []))
        out.append(f"| {m['id']}: {m.get('change', '')[:170]} | {m.get('breaks_property', '')} | {m.get('needs', '')[:170]} | {res} |")
    return "\n".join(out)

blocks = {"theorems": block_theorems(), "findings": block_findings(), "seeds": block_seeds()}
p = os.path.join(V, "DESIGN.md")
s = open(p).read()
for k, v in blocks.items():
    pat = re.compile(rf"<!-- BEGIN:{k} -->.*?<!-- END:{k} -->", re.S)
    if pat.search(s):
        s = pat.sub(lambda m: f"<!-- BEGIN:{k} -->\n{v}\n<!-- END:{k} -->", s)
    else:
        print("marker missing:", k)
open(p, "w").write(s)
print("ok")
