/-
  C07 — field arithmetic for the telescoping of the split proportions
  (`p_k / sum(p[k:])`); the only file of C07 that uses Mathlib's `field_simp` / `ring`.
-/
import Mathlib.Tactic.FieldSimp
import Mathlib.Tactic.Ring
import Mathlib.Algebra.Order.Field.Rat
namespace Demes.Proofs.ToMs.Arith

theorem tele1 (w p s s' : Rat) (hs : s ≠ 0) (h : s = p + s') : w * (1 - p / s) = w * s' / s := by
  field_simp
  rw [h]; ring

theorem tele2 (w p s : Rat) : w * (1 - (1 - p / s)) = w * p / s := by ring

theorem tele3 (w s s' x : Rat) (hs : s ≠ 0) (hs' : s' ≠ 0) : (w * s' / s) * x / s' = w * x / s := by
  field_simp

theorem tele4 (a w p c s : Rat) : a + w * p / s + w * c / s = a + w * (p + c) / s := by ring

theorem tele5 (a w c s : Rat) : a + 0 + w * c / s = a + w * (0 + c) / s := by ring

theorem mul_one_sub (m q : Rat) : m * (1 - (0 + q)) = m * (1 - q) := by ring

theorem one_sub_one_sub (v q : Rat) : v * (1 - (1 - q)) = v * q := by ring

theorem div_one' (x : Rat) : x / 1 = x := by simp

theorem add_mul_zero (a m : Rat) : a + m * 0 = a := by ring

theorem mul_add' (a m p c : Rat) : a + m * p + m * c = a + m * (p + c) := by ring

theorem zero_mul' (x : Rat) : 0 * x = 0 := by ring

theorem mul_div_zero (x s : Rat) : x * 0 / s = 0 := by simp

theorem last1 (x w p : Rat) (hp : p ≠ 0) : x + w = x + w * (p + 0) / p := by
  field_simp
  ring

theorem last0 (x w s : Rat) : x = x + w * (0 + 0) / s := by simp

theorem step_hit (x w p s s' c : Rat) (hs : s ≠ 0) (hs' : s' ≠ 0) (h : s = p + s') :
    x + w * (1 - (1 - p / s)) + w * (1 - p / s) * c / s' = x + w * (p + c) / s := by
  have h' : s' = s - p := by rw [h]; ring
  subst h'
  field_simp
  ring

theorem step_miss (x w p s s' c : Rat) (hs : s ≠ 0) (hs' : s' ≠ 0) (h : s = p + s') :
    x + w * (1 - p / s) * c / s' = x + w * (0 + c) / s := by
  have h' : s' = s - p := by rw [h]; ring
  subst h'
  field_simp
  ring

theorem pS (x m q : Rat) : x + m * q = x + m * (q + 0) := by ring
theorem pN (m : Rat) : (0 : Rat) = 0 + m * (0 + 0) := by ring
theorem pD (m q : Rat) : m * (1 - q) = m * (1 - (0 + q)) + m * (0 + 0) := by ring
theorem pO (x m : Rat) : x = x + m * (0 + 0) := by ring
theorem bM (m : Rat) : (0 : Rat) = 0 + m * 0 := by ring
theorem bZ (m : Rat) : (0 : Rat) = 0 + m * 0 := by ring
theorem bO (x m c : Rat) : x + m * c / 1 = x + m * c := by simp

theorem add_ne_zero' {x y : Rat} (h : x + y ≠ 0) : x ≠ 0 ∨ y ≠ 0 := by
  by_cases hx : x = 0
  · right; intro hy; apply h; rw [hx, hy]; ring
  · exact Or.inl hx

theorem mul_ne_zero_right {m c : Rat} (h : m * c ≠ 0) : c ≠ 0 := by
  intro hc; apply h; rw [hc]; ring

theorem zero_add_mul_zero (m : Rat) : (0 : Rat) + m * 0 = 0 := by ring

end Demes.Proofs.ToMs.Arith
