/-
  Heap abstraction: reachability and access paths versus the `walk`; a walk without
  repetition means that every reachable container has exactly one access path.
-/
import DemesVerif.Proofs.HeapCopy
namespace Demes.Proofs.Heap
open Demes Demes.Heap Demes.Spec.C18

theorem follow_addr_cons (s : Store) (a : Addr) (i : Nat) (p : List Nat) (x : Ref)
    (h : follow s (.addr a) (i :: p) = some x) :
    ∃ c r1, s[a]? = some c ∧ c.refs[i]? = some r1 ∧ follow s r1 p = some x := by
  simp only [follow] at h
  split at h
  · cases h
  · rename_i c hc
    split at h
    · cases h
    · rename_i r1 hr1
      exact ⟨c, r1, hc, hr1, h⟩

/-- whatever an access path leads to occurs in the walk -/
theorem follow_mem_walk (s : Store) : ∀ (p : List Nat) (r : Ref) (n : Nat) (l : List Addr) (b : Addr),
    follow s r p = some (.addr b) → walk n s r = some l → b ∈ l
  | [], r, n, l, b, hf, hw => by
    simp only [follow, Option.some.injEq] at hf
    subst hf
    obtain ⟨m, c, ls, _, _, _, rfl⟩ := walk_addr_some n s b l hw
    simp
  | i :: p, .atom v, n, l, b, hf, hw => by simp [follow] at hf
  | i :: p, .addr a, n, l, b, hf, hw => by
    obtain ⟨c, r1, hc, hr1, hf'⟩ := follow_addr_cons s a i p _ hf
    obtain ⟨m, c', ls, rfl, hc', hls, rfl⟩ := walk_addr_some n s a l hw
    rw [hc] at hc'; cases hc'
    obtain ⟨li, hli, hwi⟩ := mapO_getElem _ c.refs ls hls i r1 hr1
    have := follow_mem_walk s p r1 m li b hf' hwi
    exact List.mem_cons_of_mem _ (List.mem_flatten.mpr ⟨li, List.mem_of_getElem? hli, this⟩)

/-- whatever is reachable occurs in the walk -/
theorem reach_mem_walk (s : Store) (r : Ref) (b : Addr) (h : Reach s r b) :
    ∀ n l, walk n s r = some l → b ∈ l := by
  induction h with
  | here a =>
    intro n l hw
    obtain ⟨m, c, ls, _, _, _, rfl⟩ := walk_addr_some n s a l hw
    simp
  | step a c r b hc hr _ ih =>
    intro n l hw
    obtain ⟨m, c', ls, rfl, hc', hls, rfl⟩ := walk_addr_some n s a l hw
    rw [hc] at hc'; cases hc'
    obtain ⟨li, hli, hwi⟩ := mapO_mem _ c.refs ls hls r hr
    exact List.mem_cons_of_mem _ (List.mem_flatten.mpr ⟨li, hli, ih m li hwi⟩)

/-- two different members of a list whose concatenation has no repetition are disjoint -/
theorem flatten_nodup_disjoint {α} : ∀ (ls : List (List α)) (i j : Nat) (li lj : List α) (b : α),
    ls.flatten.Nodup → ls[i]? = some li → ls[j]? = some lj → b ∈ li → b ∈ lj → i = j
  | [], i, j, li, lj, b, _, hi, _, _, _ => by simp at hi
  | l0 :: ls, i, j, li, lj, b, hnd, hi, hj, hbi, hbj => by
    rw [List.flatten_cons] at hnd
    obtain ⟨h0, hrest, hdisj⟩ := List.nodup_append.mp hnd
    cases i with
    | zero =>
      cases j with
      | zero => rfl
      | succ j =>
        simp at hi hj; subst hi
        exact absurd rfl (hdisj b hbi b (List.mem_flatten.mpr ⟨lj, List.mem_of_getElem? hj, hbj⟩))
    | succ i =>
      cases j with
      | zero =>
        simp at hi hj; subst hj
        exact absurd rfl (hdisj b hbj b (List.mem_flatten.mpr ⟨li, List.mem_of_getElem? hi, hbi⟩))
      | succ j =>
        simp at hi hj
        rw [flatten_nodup_disjoint ls i j li lj b hrest hi hj hbi hbj]

theorem nodup_of_flatten_nodup {α} : ∀ (ls : List (List α)) (l : List α), ls.flatten.Nodup →
    l ∈ ls → l.Nodup
  | [], _, _, hl => by cases hl
  | l0 :: ls, l, h, hl => by
    rw [List.flatten_cons] at h
    obtain ⟨h0, hrest, _⟩ := List.nodup_append.mp h
    rcases List.mem_cons.mp hl with rfl | hl
    · exact h0
    · exact nodup_of_flatten_nodup ls l hrest hl

/-- a walk without repetition: every reachable container has exactly one access path -/
theorem walk_nodup_unaliased (s : Store) : ∀ (n : Nat) (r : Ref) (l : List Addr),
    walk n s r = some l → l.Nodup → Unaliased s r := by
  intro n
  induction n with
  | zero =>
    intro r l hw _ p q b hp hq
    cases r with
    | atom v =>
      cases p with
      | nil => simp [follow] at hp
      | cons i p => simp [follow] at hp
    | addr a => obtain ⟨m, _, _, hm, _⟩ := walk_addr_some 0 s a l hw; cases hm
  | succ n ih =>
    intro r l hw hnd p q b hp hq
    cases r with
    | atom v =>
      cases p with
      | nil => simp [follow] at hp
      | cons i p => simp [follow] at hp
    | addr a =>
      obtain ⟨m, c, ls, hm, hc, hls, rfl⟩ := walk_addr_some (n + 1) s a l hw
      cases hm
      obtain ⟨hnot, hflat⟩ := List.nodup_cons.mp hnd
      -- a path through an entry never comes back to the root
      have through : ∀ (i : Nat) (p' : List Nat) (x : Addr), follow s (.addr a) (i :: p') = some (.addr x) →
          ∃ r1 li, c.refs[i]? = some r1 ∧ ls[i]? = some li ∧ walk n s r1 = some li ∧
            follow s r1 p' = some (.addr x) ∧ x ∈ li := by
        intro i p' x hf
        obtain ⟨c', r1, hc', hr1, hf'⟩ := follow_addr_cons s a i p' _ hf
        rw [hc] at hc'; cases hc'
        obtain ⟨li, hli, hwi⟩ := mapO_getElem _ c.refs ls hls i r1 hr1
        exact ⟨r1, li, hr1, hli, hwi, hf', follow_mem_walk s p' r1 n li x hf' hwi⟩
      cases p with
      | nil =>
        simp only [follow, Option.some.injEq, Ref.addr.injEq] at hp
        cases q with
        | nil => rfl
        | cons j q' =>
          obtain ⟨r1, lj, _, hlj, _, _, hmem⟩ := through j q' b hq
          subst hp
          exact absurd (List.mem_flatten.mpr ⟨lj, List.mem_of_getElem? hlj, hmem⟩) hnot
      | cons i p' =>
        obtain ⟨r1, li, hr1, hli, hwi, hfi, hmemi⟩ := through i p' b hp
        cases q with
        | nil =>
          simp only [follow, Option.some.injEq, Ref.addr.injEq] at hq
          subst hq
          exact absurd (List.mem_flatten.mpr ⟨li, List.mem_of_getElem? hli, hmemi⟩) hnot
        | cons j q' =>
          obtain ⟨r2, lj, hr2, hlj, hwj, hfj, hmemj⟩ := through j q' b hq
          have hij : i = j := flatten_nodup_disjoint ls i j li lj b hflat hli hlj hmemi hmemj
          subst hij
          rw [hr1] at hr2; cases hr2
          have := ih r1 li hwi (nodup_of_flatten_nodup ls li hflat (List.mem_of_getElem? hli)) p' q' b hfi hfj
          rw [this]

end Demes.Proofs.Heap
