/-
  Support for `Theorems/TablesGuardsRename.lean` (C15): the size of the rebuilt name index
  (`graph._deme_map = {deme.name: deme for deme in graph.demes}`) equals the number of demes exactly when
  the names are pairwise distinct — the test `len(graph._deme_map) != len(graph.demes)` of `rename_demes`.
  Nothing here depends on `Generated/`.
-/
import DemesVerif.Model.Views
namespace Demes.Proofs.Guards2
open Demes

/-- one step of `rebuildIndex` -/
def riStep (idx : List (String × Nat)) (di : Deme × Nat) : List (String × Nat) :=
  if idx.any (fun kv => kv.1 = di.1.name) then
    idx.map (fun kv => if kv.1 = di.1.name then (kv.1, di.2) else kv)
  else idx ++ [(di.1.name, di.2)]

theorem rebuildIndex_eq_foldl (ds : List Deme) : rebuildIndex ds = ds.zipIdx.foldl riStep [] := rfl

theorem any_key_iff (idx : List (String × Nat)) (n : String) :
    idx.any (fun kv => kv.1 = n) = true ↔ n ∈ idx.map (·.1) := by
  simp only [List.any_eq_true, decide_eq_true_eq, List.mem_map]

theorem riStep_hit (idx : List (String × Nat)) (di : Deme × Nat) (h : di.1.name ∈ idx.map (·.1)) :
    (riStep idx di).length = idx.length ∧ (riStep idx di).map (·.1) = idx.map (·.1) := by
  have h' := (any_key_iff idx di.1.name).mpr h
  unfold riStep
  rw [if_pos h']
  refine ⟨List.length_map _, ?_⟩
  rw [List.map_map]
  apply List.map_congr_left
  intro kv _
  by_cases hk : kv.1 = di.1.name <;> simp [hk]

theorem riStep_miss (idx : List (String × Nat)) (di : Deme × Nat) (h : di.1.name ∉ idx.map (·.1)) :
    (riStep idx di).length = idx.length + 1 ∧ (riStep idx di).map (·.1) = idx.map (·.1) ++ [di.1.name] := by
  have h' : ¬ idx.any (fun kv => kv.1 = di.1.name) = true := fun e => h ((any_key_iff idx di.1.name).mp e)
  unfold riStep
  rw [if_neg h']
  simp

theorem riFold_length (l : List (Deme × Nat)) : ∀ (idx : List (String × Nat)),
    (l.foldl riStep idx).length ≤ idx.length + l.length
    ∧ ((l.foldl riStep idx).length = idx.length + l.length
        ↔ (l.map (·.1.name)).Nodup ∧ ∀ x ∈ l, x.1.name ∉ idx.map (·.1)) := by
  induction l with
  | nil => intro idx; simp
  | cons x l ih =>
    intro idx
    simp only [List.foldl_cons, List.length_cons, List.map_cons, List.nodup_cons, List.mem_cons, forall_eq_or_imp]
    by_cases hx : x.1.name ∈ idx.map (·.1)
    · obtain ⟨hl, hk⟩ := riStep_hit idx x hx
      obtain ⟨ih1, _⟩ := ih (riStep idx x)
      rw [hl] at ih1
      refine ⟨by omega, ?_⟩
      constructor
      · intro e; omega
      · rintro ⟨_, h, _⟩; exact absurd hx h
    · obtain ⟨hl, hk⟩ := riStep_miss idx x hx
      obtain ⟨ih1, ih2⟩ := ih (riStep idx x)
      rw [hl] at ih1 ih2
      rw [hk] at ih2
      refine ⟨by omega, ?_⟩
      have e : idx.length + 1 + l.length = idx.length + (l.length + 1) := by omega
      rw [← e, ih2]
      simp only [List.mem_append, List.mem_singleton, not_or, List.mem_map]
      constructor
      · rintro ⟨hn, h⟩
        refine ⟨⟨?_, hn⟩, by simpa [List.mem_map] using hx, fun y hy => (h y hy).1⟩
        rintro ⟨y, hy, e⟩
        exact (h y hy).2 e
      · rintro ⟨⟨hnx, hn⟩, _, h⟩
        refine ⟨hn, fun y hy => ⟨h y hy, fun e => hnx ⟨y, hy, e⟩⟩⟩

/-- `len(graph._deme_map) == len(graph.demes)` iff the deme names are pairwise distinct -/
theorem rebuildIndex_length_iff (ds : List Deme) :
    (rebuildIndex ds).length = ds.length ↔ (ds.map (·.name)).Nodup := by
  rw [rebuildIndex_eq_foldl]
  have h := (riFold_length ds.zipIdx []).2
  simp only [List.length_nil, Nat.zero_add, List.length_zipIdx, List.map_nil, List.not_mem_nil,
    not_false_eq_true, implies_true, and_true] at h
  rw [h]
  have e : ds.zipIdx.map (fun x => x.1.name) = ds.map (·.name) := by
    have h1 : ds.zipIdx.map (fun x => x.1.name) = (ds.zipIdx.map Prod.fst).map (fun d : Deme => d.name) := by
      rw [List.map_map]; rfl
    rw [h1, List.zipIdx_map_fst]
  rw [e]

end Demes.Proofs.Guards2
