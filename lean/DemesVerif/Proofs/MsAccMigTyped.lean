/-
  C09, acceptance — the migration part, typed interpreter: on the command `to_ms` emits, the entry
  `[a][b]` (`a ≠ b`) of the matrix in force at a time `t ≥ 0` is the graph's rate `gRate g a b t`
  (in particular `0` when `a` or `b` is a population created by `-es`).
-/
import DemesVerif.Proofs.MsAccMigGraph
import DemesVerif.Proofs.ToMsSemRun
set_option linter.unusedSimpArgs false
set_option linter.unusedVariables false
namespace Demes.Proofs.MsAcc
open Demes Demes.Ms Demes.Spec Demes.Spec.C07 Demes.Proofs.RV Demes.Proofs.ToMs
open Demes.Spec.MsSem

/-! ### matrices, all indices -/

theorem matGet_square_out {k : Nat} {m : Mat} (h : Square k m) {a b : Nat} (ho : ¬ (a < k ∧ b < k)) :
    matGet m a b = 0 := by
  unfold matGet
  by_cases ha : a < k
  · have hb : ¬ b < k := fun hb => ho ⟨ha, hb⟩
    have hlen : a < m.length := by rw [h.1]; exact ha
    have hrl : (m[a]).length = k := h.2 _ (List.getElem_mem _)
    simp only [List.getD, List.getElem?_eq_getElem hlen, Option.getD_some]
    rw [List.getElem?_eq_none (by rw [hrl]; omega)]
    rfl
  · have : m.length ≤ a := by rw [h.1]; omega
    simp only [List.getD, List.getElem?_eq_none this, Option.getD_none, List.getElem?_nil]

theorem matGet_extendMat' {k : Nat} {m : Mat} (h : Square k m) (a b : Nat) :
    matGet (extendMat m k) a b = if a < k ∧ b < k then matGet m a b else 0 := by
  by_cases hin : a < k ∧ b < k
  · rw [if_pos hin, matGet_extendMat h hin.1 hin.2]
  · rw [if_neg hin]
    have hsq := square_extendMat h
    by_cases hin' : a < k + 1 ∧ b < k + 1
    · unfold matGet extendMat
      by_cases ha : a < k
      · have hb : b = k := by omega
        have hlen : a < m.length := by rw [h.1]; exact ha
        have hlen' : a < (m.map (fun r => r ++ [(0 : Q)])).length := by simpa using hlen
        have hrl : (m[a]).length = k := h.2 _ (List.getElem_mem _)
        simp only [List.getD, List.getElem?_append_left hlen', List.getElem?_map, List.getElem?_eq_getElem hlen,
          Option.map_some, Option.getD_some]
        rw [List.getElem?_append_right (by rw [hrl]; omega)]
        simp [hrl, hb]
      · have ha' : a = k := by omega
        have hlen' : (m.map (fun r => r ++ [(0 : Q)])).length = k := by simpa using h.1
        simp only [List.getD]
        rw [List.getElem?_append_right (by rw [hlen']; omega)]
        simp only [hlen', ha', Nat.sub_self, List.getElem?_cons_zero, Option.getD_some, List.getElem?_replicate]
        split <;> rfl
    · exact matGet_square_out hsq hin'

theorem matGet_zeroRC' (k : Nat) (m : Mat) (i a b : Nat) :
    matGet (zeroRC m k i) a b = if a < k ∧ b < k then (if a = i ∨ b = i then 0 else matGet m a b) else 0 := by
  by_cases hin : a < k ∧ b < k
  · rw [if_pos hin, matGet_zeroRC m i hin.1 hin.2]
  · rw [if_neg hin]
    exact matGet_square_out (square_zeroRC k m i) hin

/-! ### entries that involve a population created by `-es` are zero -/

/-- the entries outside the `n0 × n0` block are zero -/
def ZeroOut (n0 : Nat) (m : Mat) : Prop := ∀ a b, (n0 ≤ a ∨ n0 ≤ b) → matGet m a b = 0

/-- a `-m` / `-em` option names two of the first `n0` populations -/
def MigIn (n0 : Nat) : Event Growth → Prop
  | .migEntryChange _ _ i j _ => idx i < n0 ∧ idx j < n0
  | _ => True

theorem zeroOut_step {N0 : Q} {n0 : Nat} {s : StG} {e : Event Growth} (hsq : Square s.pops.length s.mat)
    (hz : ZeroOut n0 s.mat) (hm : MigIn n0 e) (hok : OkEv s e) : ZeroOut n0 (stepP N0 s e).mat := by
  cases e with
  | popSizeChange o t i x =>
    obtain ⟨_, ⟨y, rfl⟩, _⟩ := hok
    simpa [stepP, updPop] using hz
  | popGrowthRateChange o t i al => simpa [stepP, updPop] using hz
  | migEntryChange o t i j r =>
    obtain ⟨_, ⟨y, rfl⟩, hai, haj, hne⟩ := hok
    have hi := alive_idx_lt hai
    have hj := alive_idx_lt haj
    intro a b hab
    have hget : matGet (stepP N0 s (.migEntryChange o t i j (.fin y))).mat a b
        = if a = idx i ∧ b = idx j then y / (4 * N0) else matGet s.mat a b := by
      simp only [stepP, StG.snap]
      exact matGet_matSet hsq hi hj _ a b
    rw [hget]
    have hhit : ¬ (a = idx i ∧ b = idx j) := by
      intro ⟨h1, h2⟩
      obtain ⟨m1, m2⟩ := hm
      omega
    rw [if_neg hhit]
    exact hz a b hab
  | split o t i p =>
    obtain ⟨_, ⟨y, rfl, _, _⟩, _⟩ := hok
    intro a b hab
    simp only [stepP, StG.snap]
    rw [matGet_extendMat' hsq]
    split
    · exact hz a b hab
    · rfl
  | join o t i j =>
    intro a b hab
    simp only [stepP, StG.snap, updPop]
    rw [matGet_zeroRC']
    split
    · split
      · rfl
      · exact hz a b hab
    · rfl
  | growthRateChange => exact hok.elim
  | sizeChange => exact hok.elim
  | migRateChange => exact hok.elim
  | migMatrixChange => exact hok.elim

theorem zeroOut_run {N0 : Q} {n0 : Nat} : ∀ (post pre : List (Event Growth)),
    MatInv N0 n0 (runP N0 (s0Of N0 n0) pre) pre → ZeroOut n0 (runP N0 (s0Of N0 n0) pre).mat →
    (∀ p e q, post = p ++ e :: q → OkEv (runP N0 (s0Of N0 n0) (pre ++ p)) e) → (∀ e ∈ post, MigIn n0 e) →
    ZeroOut n0 (runP N0 (s0Of N0 n0) (pre ++ post)).mat
  | [], pre, _, hz, _, _ => by simpa using hz
  | e :: r, pre, h, hz, hok, hmig => by
    have hok0 : OkEv (runP N0 (s0Of N0 n0) pre) e := by simpa using hok [] e r rfl
    have h1 := matInv_step h hok0
    have hz1 : ZeroOut n0 (runP N0 (s0Of N0 n0) (pre ++ [e])).mat := by
      rw [runP_append]
      exact zeroOut_step h.square hz (hmig e List.mem_cons_self) hok0
    have := zeroOut_run r (pre ++ [e]) h1 hz1 (fun p e' q hr => by
      have := hok (e :: p) e' q (by rw [hr]; rfl)
      simpa using this) (fun x hx => hmig x (List.mem_cons_of_mem _ hx))
    simpa using this

theorem zeroOut_init (N0 : Q) (n0 : Nat) : ZeroOut n0 (s0Of N0 n0).mat := by
  intro a b _
  simp [s0Of, matGet_zeros]

/-! ### on the emitted command -/

section
variable {g : Graph} (c : Clauses g) (hx : MsExpressible g = true) {N0 : Q} (hN : 0 < N0)
include c hx

/-- the `-m` / `-em` options of the command name demes of the graph -/
theorem migIn_finalEvs {e : Event Growth} (he : e ∈ finalEvs g N0) : MigIn g.demes.length e := by
  obtain ⟨y, hy, rfl⟩ := finalEvs_mem c hx he
  rcases mem_rawEvs hy with h | h | h
  · obtain ⟨_, _, _, _, h'⟩ := mem_sizeEvsAll h
    rcases h' with rfl | rfl <;> trivial
  · have := splitJoin_ancEvs h
    cases y <;> simp [isSplitJoin] at this <;> trivial
  · have key : ∀ (t : Num) (m : Migration) (r : Q), m ∈ g.migrations →
        MigIn g.demes.length (scaleEv N0 (.migEntryChange "" t (idOf g m.dest) (idOf g m.source) (.fin r))) := by
      intro t m r hm
      have hok := migOk_of_valid c hm
      have h1 := idOf_range hok.destId
      have h2 := idOf_range hok.sourceId
      show ToMs.idx (idOf g m.dest) < g.demes.length ∧ ToMs.idx (idOf g m.source) < g.demes.length
      unfold ToMs.idx
      omega
    simp only [migEvs, List.mem_append, migOffs, migOns, List.mem_map, List.mem_filter] at h
    rcases h with ⟨m, ⟨hm, _⟩, rfl⟩ | ⟨m, hm, rfl⟩
    · exact key _ m 0 hm
    · exact key _ m _ hm

include hN

/-- the matrix in force at `t ≥ 0` is the matrix after a prefix `A` of the command: the options
scheduled up to `t` -/
theorem matAt_prefix {t : Q} (ht : 0 ≤ t) :
    ∃ A B, finalEvs g N0 = A ++ B ∧ (∀ a ∈ A, evT a ≤ t / (4 * N0)) ∧ (∀ b ∈ B, t / (4 * N0) < evT b)
      ∧ matAt (runP N0 (s0Of N0 g.demes.length) (finalEvs g N0)).snaps t = (runP N0 (s0Of N0 g.demes.length) A).mat
      ∧ MatInv N0 g.demes.length (runP N0 (s0Of N0 g.demes.length) A) A
      ∧ ZeroOut g.demes.length (runP N0 (s0Of N0 g.demes.length) A).mat := by
  obtain ⟨A, B, hF, hA, hB⟩ := sorted_split_time (t / (4 * N0)) _ (sorted_byQ_finalEvs c hx hN)
  have hAF : ∀ x ∈ A, x ∈ finalEvs g N0 := fun x hxA => by rw [hF]; exact List.mem_append_left _ hxA
  have hok : ∀ p e q, A = p ++ e :: q → OkEv (runP N0 (s0Of N0 g.demes.length) ([] ++ p)) e := by
    intro p e q hpq
    have : finalEvs g N0 = p ++ e :: (q ++ B) := by rw [hF, hpq]; simp
    simpa using okEv_finalEvs c hx hN this
  have hinv := matInv_run (N0 := N0) (n0 := g.demes.length) A [] (matInv_init N0 _) hok
  have hz := zeroOut_run (N0 := N0) (n0 := g.demes.length) A [] (matInv_init N0 _) (zeroOut_init N0 _) hok
    (fun e he => migIn_finalEvs c hx (hAF e he))
  simp only [List.nil_append] at hinv hz
  refine ⟨A, B, hF, hA, hB, ?_, hinv, hz⟩
  rw [hF, matAt_run hN ht hA hB]

/-- from a deme's start time on (backwards) its row and column are zero -/
theorem matAt_joined {a b : Nat} {d : Deme} (hlt : a < g.demes.length) (hblt : b < g.demes.length) (hab : a ≠ b)
    {k : Nat} (hk : k = a ∨ k = b) (hd : g.demes[k]? = some d)
    {t : Q} (ht : 0 ≤ t) (hl : ¬ ETime.fin t < d.startTime) :
    matGet (matAt (runP N0 (s0Of N0 g.demes.length) (finalEvs g N0)).snaps t) a b = 0 := by
  have h4 : (0 : Q) < 4 * N0 := by grind
  obtain ⟨A, B, hF, hA, hB, hmat, hinv, _⟩ := matAt_prefix c hx hN ht
  rw [hmat, hinv.entry a b hlt hblt hab]
  have hle := et_le_of_not_lt hl
  cases hst : d.startTime with
  | inf => rw [hst] at hle; exact hle.elim
  | fin st =>
    rw [hst] at hle
    have hstt : st ≤ t := hle
    obtain ⟨x, hxF, hxj, hev⟩ := join_exists c hx hN hd hst
    have hxA : x ∈ A := by
      rw [hF] at hxF
      rcases List.mem_append.1 hxF with h | h
      · exact h
      · exfalso
        have := hB x h
        rw [hev] at this
        have := (InGen.div_lt_div h4).1 this
        grind
    have hj : joinedIn A k = true := List.any_eq_true.2 ⟨x, hxA, hxj⟩
    unfold entryAfter
    rcases hk with rfl | rfl <;> simp [hj]

/-- **the matrix the typed interpreter holds at `t` is the graph's rate function** -/
theorem matAt_gRate {a b : Nat} (hab : a ≠ b) {t : Q} (ht : 0 ≤ t) :
    matGet (matAt (runP N0 (s0Of N0 g.demes.length) (finalEvs g N0)).snaps t) a b = gRate g a b t := by
  by_cases hin : a < g.demes.length ∧ b < g.demes.length
  · obtain ⟨halt, hblt⟩ := hin
    have ha : g.demes[a]? = some g.demes[a] := List.getElem?_eq_getElem halt
    have hb : g.demes[b]? = some g.demes[b] := List.getElem?_eq_getElem hblt
    generalize g.demes[a] = da at ha
    generalize g.demes[b] = db at hb
    have hzero : (¬ ETime.fin t < da.startTime ∨ ¬ ETime.fin t < db.startTime) → gRate g a b t = 0 := by
      intro hor
      apply Classical.byContradiction
      intro hne
      obtain ⟨dj, dk, hj, hk, h1, h2, _⟩ := gRate_ne_zero c hne
      rw [ha] at hj; rw [hb] at hk
      cases hj; cases hk
      rcases hor with h | h
      · exact h h1
      · exact h h2
    by_cases hla : ETime.fin t < da.startTime
    · rw [matAt_finalEvs c hx hN ha hb hab ht hla]
      by_cases hlb : ETime.fin t < db.startTime
      · rw [if_pos hlb, gRate_in ha hb]
        obtain ⟨h1, h2⟩ := migRateAt_finalEvs c hx hN ha hb t
        rcases rateAt_cases g db.name da.name t with ⟨m, hm, hs, hd, hact, hr⟩ | ⟨hno, hr⟩
        · rw [hr, h1 m hm hd hs hact, mul_div_cancel_left4 hN]
        · rw [hr, h2 (fun m hm hd hs => hno m hm hs hd) hla hlb]
          exact InGen.zero_div _
      · rw [if_neg hlb, hzero (Or.inr hlb)]
    · rw [matAt_joined c hx hN halt hblt hab (Or.inl rfl) ha ht hla, hzero (Or.inl hla)]
  · obtain ⟨A, B, hF, hA, hB, hmat, hinv, hz⟩ := matAt_prefix c hx hN ht
    rw [hmat, hz a b (by omega), gRate_out (by omega)]

end

end Demes.Proofs.MsAcc
