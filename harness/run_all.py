#!/usr/bin/env python3
"""Run every claimed check for the given seeds (evidence to a scratch dir unless --commit-evidence).
usage: run_all.py [--tier quick|thorough] [--jobs N] [--commit-evidence] seed [seed...]"""
import json, os, subprocess, sys, tempfile, time
from concurrent.futures import ThreadPoolExecutor
V = os.path.dirname(os.path.dirname(os.path.abspath(__file__)))
args = sys.argv[1:]
tier = "quick"; jobs = 4; commit = False; seeds = []
while args:
    a = args.pop(0)
    if a == "--tier": tier = args.pop(0)
    elif a == "--jobs": jobs = int(args.pop(0))
    elif a == "--commit-evidence": commit = True
    else: seeds.append(a)
pids = [c["property_id"] for c in json.load(open(os.path.join(V, "MANIFEST.json")))["checks"]]
extra = [p for p in ("C07", "C08") if p not in pids]
def one(job):
    pid, seed = job
    env = dict(os.environ, VERIF_SEED=str(seed))
    if not commit:
        env["VERIF_EVIDENCE_DIR"] = tempfile.mkdtemp(prefix="ev_")
    t0 = time.time()
    p = subprocess.run([os.path.join(V, "check"), pid, "--tier", tier], cwd=V, env=env, stdout=subprocess.PIPE, stderr=subprocess.STDOUT)
    out = p.stdout.decode(errors="replace").strip().splitlines()
    return pid, seed, p.returncode, round(time.time() - t0), [l for l in out if l.startswith("VIOLATION")][:2], out[-1][-140:] if out else ""
bad = 0
with ThreadPoolExecutor(jobs) as ex:
    for pid, seed, rc, wall, viol, tail in ex.map(one, [(p, s) for s in seeds for p in pids + extra]):
        flag = "ok " if rc == 0 else "BAD"
        if rc != 0: bad += 1
        print(f"{flag} {pid} seed={seed} rc={rc} {wall}s {viol if viol else ''} {tail if rc else ''}", flush=True)
print("failures:", bad)
