/-
  C08, link C (movements), a wider fragment — rows as functions.  `NSATS`: a population may be the
  source of a move after it was the target of an earlier move, provided the earlier move is a join
  (a move of everything, `q = 1`).  The rows of the populations that are not joined still only feel
  their own moves; the row of a joined population is written wholesale as its ancestry.
-/
import DemesVerif.Proofs.FromMsApplyAlg
namespace Demes.Proofs.FromMs
open Demes

/-- a move whose source was the target of an earlier move: the earlier move is a join -/
def NSATS (ops : List MOp) : Prop := ops.Pairwise (fun o1 o2 => o1.2.1 = o2.1 → o1.2.2 = 1)

theorem nsats_of_nsat {ops : List MOp} (h : NSAT ops) : NSATS ops :=
  h.imp (fun hne e => (hne e).elim)

/-- a row of a population that is not joined, and that holds nothing at the sources of the other
populations, only feels its own moves -/
theorem foldOps_ownS (r : Nat) : ∀ (ops : List MOp) (f : RowF), NSATS ops →
    (∀ o ∈ ops, o.1 = r → o.2.2 ≠ 1) → (∀ o ∈ ops, o.1 ≠ r → f o.1 = 0) →
    foldOps ops f = foldOps (ops.filter (fun o => o.1 = r)) f := by
  intro ops
  induction ops with
  | nil => intro f _ _ _; rfl
  | cons o rest ih =>
    intro f hn hq hz
    have hn' : NSATS rest := (List.pairwise_cons.mp hn).2
    have hrel := (List.pairwise_cons.mp hn).1
    have hq' : ∀ o' ∈ rest, o'.1 = r → o'.2.2 ≠ 1 := fun o' ho' => hq o' (List.mem_cons_of_mem _ ho')
    by_cases ho : o.1 = r
    · rw [List.filter_cons_of_pos (by simpa using ho), foldOps_cons, foldOps_cons]
      apply ih _ hn' hq'
      intro o' ho' hne
      have h1 : o'.1 ≠ o.2.1 := fun e => hq o (List.mem_cons_self ..) ho (hrel o' ho' e.symm)
      have h2 : o'.1 ≠ o.1 := by rw [ho]; exact hne
      rw [opF_other h1 h2]
      exact hz o' (List.mem_cons_of_mem _ ho') hne
    · rw [List.filter_cons_of_neg (by simpa using ho), foldOps_cons,
        opF_noop (hz o (List.mem_cons_self ..) ho)]
      exact ih f hn' hq' (fun o' ho' => hz o' (List.mem_cons_of_mem _ ho'))

theorem foldOps_ownS_delta (r : Nat) (ops : List MOp) (hn : NSATS ops) (hq : ∀ o ∈ ops, o.1 = r → o.2.2 ≠ 1) :
    foldOps ops (delta r) = foldOps (ops.filter (fun o => o.1 = r)) (delta r) :=
  foldOps_ownS r ops _ hn hq (fun _ _ hne => delta_ne hne)

/-- moves of other populations do nothing to a row that is all at `r` -/
theorem foldOps_foreign (r : Nat) : ∀ (ops : List MOp), (∀ o ∈ ops, o.1 ≠ r) → foldOps ops (delta r) = delta r := by
  intro ops
  induction ops with
  | nil => intro _; rfl
  | cons o rest ih =>
    intro h
    rw [foldOps_cons, opF_noop (delta_ne (h o (List.mem_cons_self ..)))]
    exact ih (fun o' ho' => h o' (List.mem_cons_of_mem _ ho'))

/-- `ReadBack` with `NSATS` in place of `NSAT` -/
structure ReadBackW (ops : List MOp) (F : Nat → RowF) (born : List (Nat × List (Nat × Q))) : Prop where
  nsats : NSATS ops
  frac : ∀ o ∈ ops, 0 ≤ o.2.2 ∧ o.2.2 ≤ 1
  bornNodup : (born.map (·.1)).Nodup
  colZero : ∀ b ∈ born, ∀ r, F r b.1 = 0
  ancs : ∀ b ∈ born, ∀ k, wsum b.2 k = if k ≠ b.1 ∧ 0 < F b.1 k then F b.1 k else 0

/-- **the read-back equals the matrix, row by row**: pulses for the moves of the populations that emit
(`E`), then the ancestry of the joined populations -/
theorem readBack_rowW {ops : List MOp} {F : Nat → RowF} {born : List (Nat × List (Nat × Q))}
    (h : ReadBackW ops F born) (r : Nat) (hF : F r = foldOps ops (delta r))
    (hjoin : ∀ o ∈ ops, o.1 = r → o.2.2 = 1 → r ∈ born.map (·.1))
    (E : Nat → Bool) (hE : E r = true ↔ Emits F r) :
    foldBorn born (foldOps (ops.filter (fun o => E o.1)) (delta r)) = F r := by
  have hFnn : ∀ k, 0 ≤ F r k := by
    rw [hF]; exact foldOps_nonneg ops _ h.frac (delta_nonneg r)
  by_cases hb : r ∈ born.map (·.1)
  · -- a joined population: no pulse, the ancestry is the row
    obtain ⟨b, hbm, hbr⟩ := List.mem_map.mp hb
    have hrr : F r r = 0 := by have := h.colZero b hbm r; rwa [hbr] at this
    have hne : ¬ E r = true := fun he => (hE.mp he).1 hrr
    have hpul : foldOps (ops.filter (fun o => E o.1)) (delta r) = delta r := by
      apply foldOps_foreign
      intro o ho e
      have := (List.mem_filter.mp ho).2
      rw [e] at this
      exact hne this
    rw [hpul]
    obtain ⟨pre, post, hsplit⟩ := List.append_of_mem hbm
    have hnd := h.bornNodup
    rw [hsplit, List.map_append, List.map_cons, List.nodup_append] at hnd
    obtain ⟨_, hnd2, hnd3⟩ := hnd
    rw [hsplit, foldBorn_append]
    have hpre : foldBorn pre (delta r) = delta r := by
      apply foldBorn_noop
      intro b' hb'
      apply delta_ne
      intro e
      exact hnd3 b'.1 (List.mem_map.mpr ⟨b', hb', rfl⟩) b.1 (List.mem_cons_self ..) (by rw [e, hbr])
    rw [hpre]
    show foldBorn post (bornF b.1 b.2 (delta r)) = F r
    have hborn : bornF b.1 b.2 (delta r) = F r := by
      funext k
      unfold bornF
      rw [hbr, delta_self]
      simp only [show (1 : Q) ≠ 0 by decide, if_false, Rat.one_mul]
      have ha := h.ancs b hbm k
      rw [hbr] at ha
      rw [ha]
      by_cases hk : k = r
      · subst hk; simp [hrr]
      · rw [delta_ne hk]
        simp only [hk, if_false, ne_eq, not_false_eq_true, true_and, Rat.zero_add]
        split
        · rfl
        · rename_i hp
          have : F r k ≤ 0 := Rat.not_lt.mp hp
          exact Rat.le_antisymm (hFnn k) this
    rw [hborn]
    apply foldBorn_noop
    intro b' hb'
    have hb'm : b' ∈ born := by rw [hsplit]; exact List.mem_append_right _ (List.mem_cons_of_mem _ hb')
    exact h.colZero b' hb'm r
  · -- not joined: the row only feels its own moves
    have hq : ∀ o ∈ ops, o.1 = r → o.2.2 ≠ 1 := fun o ho hor he => hb (hjoin o ho hor he)
    have hown : OwnOps r (ops.filter (fun o => o.1 = r)) := by
      intro o ho
      obtain ⟨h1, h2⟩ := List.mem_filter.mp ho
      exact ⟨by simpa using h2, h.frac o h1⟩
    have hFown : F r = foldOps (ops.filter (fun o => o.1 = r)) (delta r) := by
      rw [hF]; exact foldOps_ownS_delta r ops h.nsats hq
    have hlt : ∀ o ∈ ops.filter (fun o => o.1 = r), o.2.2 < 1 := by
      intro o ho
      obtain ⟨h1, h2⟩ := List.mem_filter.mp ho
      have hor : o.1 = r := by simpa using h2
      exact lt_of_le_of_ne (h.frac o h1).2 (hq o h1 hor)
    have hpul : foldOps (ops.filter (fun o => E o.1)) (delta r) = if E r = true then F r else delta r := by
      rw [foldOps_ownS_delta r _ (List.Pairwise.sublist List.filter_sublist h.nsats)
        (fun o ho => hq o (List.mem_filter.mp ho).1), List.filter_filter]
      by_cases he : E r = true
      · rw [if_pos he, hFown]
        congr 1
        apply List.filter_congr
        intro o _
        by_cases ho : o.1 = r
        · simp [ho, he]
        · simp [ho]
      · rw [if_neg he]
        have hEr : E r = false := by simpa using he
        have : ops.filter (fun o => decide (o.1 = r) && E o.1) = [] := by
          rw [List.filter_eq_nil_iff]
          intro o _
          by_cases ho : o.1 = r
          · simp [ho, hEr]
          · simp [ho]
        rw [this]; rfl
    rw [hpul]
    by_cases he' : E r = true
    · rw [if_pos he']
      apply foldBorn_noop
      intro b hbm
      exact h.colZero b hbm r
    · rw [if_neg he']
      have he : ¬ Emits F r := fun hh => he' (hE.mpr hh)
      have hfix : F r = delta r := by
        rw [hFown]
        apply foldOps_own_fixed r _ _ hown hlt (delta_nonneg r) (by rw [delta_self]; decide)
        intro k hk
        rw [← hFown, delta_ne hk]
        have hpos : 0 < F r r := by
          rw [hFown]
          exact foldOps_own_pos r _ _ hown hlt (by rw [delta_self]; decide)
        apply Rat.not_lt.mp
        intro hkpos
        exact he ⟨fun e => by rw [e] at hpos; exact Rat.lt_irrefl hpos, k, hk, hkpos⟩
      rw [hfix]
      apply foldBorn_noop
      intro b hbm
      apply delta_ne
      intro e
      exact hb (List.mem_map.mpr ⟨b, hbm, e⟩)

/-! ## what is left of a row: something is always somewhere -/

theorem opF_self {o : MOp} (f : RowF) (h : o.2.1 = o.1) : opF o f = f := by
  funext k
  unfold opF
  by_cases h1 : k = o.2.1
  · simp [h1, h]
  · have : ¬ k = o.1 := by rw [← h]; exact h1
    simp [h1, this]

theorem opF_exists_pos {o : MOp} {f : RowF} (hq0 : 0 ≤ o.2.2) (hq1 : o.2.2 ≤ 1) (hf : ∀ k, 0 ≤ f k)
    (h : ∃ k, 0 < f k) : ∃ k, 0 < opF o f k := by
  obtain ⟨k, hk⟩ := h
  by_cases hself : o.2.1 = o.1
  · rw [opF_self f hself]; exact ⟨k, hk⟩
  · by_cases hk1 : k = o.1
    · subst hk1
      by_cases hq : o.2.2 = 1
      · refine ⟨o.2.1, ?_⟩
        unfold opF
        rw [if_pos rfl, if_neg hself, hq]
        have := hf o.2.1
        linarith
      · refine ⟨o.1, ?_⟩
        unfold opF
        rw [if_neg (fun e => hself e.symm), if_pos rfl]
        have : 0 < 1 - o.2.2 := by
          have := lt_of_le_of_ne hq1 hq
          linarith
        exact Rat.mul_pos hk this
    · refine ⟨k, ?_⟩
      unfold opF
      by_cases hk2 : k = o.2.1
      · rw [if_pos hk2, if_neg hself]
        have : 0 ≤ f o.1 * o.2.2 := Rat.mul_nonneg (hf _) hq0
        linarith
      · rw [if_neg hk2, if_neg hk1]; exact hk

theorem foldOps_exists_pos : ∀ (ops : List MOp) (f : RowF), (∀ o ∈ ops, 0 ≤ o.2.2 ∧ o.2.2 ≤ 1) → (∀ k, 0 ≤ f k) →
    (∃ k, 0 < f k) → ∃ k, 0 < foldOps ops f k := by
  intro ops
  induction ops with
  | nil => intro f _ _ h; exact h
  | cons o rest ih =>
    intro f hq hf h
    rw [foldOps_cons]
    obtain ⟨q0, q1⟩ := hq o (List.mem_cons_self ..)
    exact ih _ (fun o' ho' => hq o' (List.mem_cons_of_mem _ ho')) (opF_nonneg q0 q1 hf) (opF_exists_pos q0 q1 hf h)

/-! ## chains of joins -/

/-- a join `y` of a population that was the target of an earlier move `x`: the target of `y` is not the
source of a later move -/
def ChainOK : List MOp → Prop
  | [] => True
  | x :: r => r.Pairwise (fun y z => x.2.1 = y.1 → y.2.2 = 1 → z.1 ≠ y.2.1) ∧ ChainOK r

theorem chainOK_use : ∀ (pre : List MOp) (y : MOp) (post : List MOp), ChainOK (pre ++ y :: post) →
    ∀ x ∈ pre, x.2.1 = y.1 → y.2.2 = 1 → ∀ z ∈ post, z.1 ≠ y.2.1 := by
  intro pre
  induction pre with
  | nil => intro y post _ x hx; cases hx
  | cons x0 pre' ih =>
    intro y post h x hx hxy hq z hz
    have h' : (pre' ++ y :: post).Pairwise (fun y z => x0.2.1 = y.1 → y.2.2 = 1 → z.1 ≠ y.2.1)
        ∧ ChainOK (pre' ++ y :: post) := h
    obtain ⟨h1, h2⟩ := h'
    rcases List.mem_cons.mp hx with rfl | hx
    · rw [List.pairwise_append] at h1
      exact List.rel_of_pairwise_cons h1.2.1 hz hxy hq
    · exact ih y post h2 x hx hxy hq z hz

end Demes.Proofs.FromMs
