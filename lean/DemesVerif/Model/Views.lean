/-
  Views and graph-to-graph operations of demes/demes.py:
  `Deme.size_at`, `Graph.predecessors/successors/discrete_demographic_events`,
  `Graph.in_generations`, `Graph.rename_demes`.
-/
import DemesVerif.Model.Matrices
namespace Demes

/-! ### `Deme.size_at` -/

/-- result of `size_at`: an exact rational, or the symbolic exponential
`n0 * exp(log(n1/n0) * dt)` (never evaluated in Lean), or the NaN the float formula
produces for an infinitely long non-constant-function epoch. -/
inductive SizeResult where
  | exact (q : Q)
  | expo (n0 n1 dt : Q)
  | nan
  | indexError
  deriving DecidableEq, Repr

/-- `math.isclose(time, end_time)` with the default tolerances (rel 1e-9, abs 0) -/
def closeDefault (a b : Q) : Bool := iscloseQ a b relTol 0

def sizeAt (d : Deme) (t : ETime) : SizeResult :=
  if t.isInf && d.startTime.isInf then
    match d.epochs.head? with
    | some e => .exact e.startSize
    | none => .indexError
  else
    match d.epochs.find? (fun e => decide (t < e.startTime) && decide (ETime.fin e.endTime ≤ t)) with
    | none => .exact 0
    | some e =>
      match t with
      | .inf => .exact 0   -- unreachable: no epoch contains ∞
      | .fin tq =>
        if closeDefault tq e.endTime || e.sizeFunction = "constant" then .exact e.endSize
        else match e.startTime with
          | .inf => if e.sizeFunction = "exponential" || e.sizeFunction = "linear" then .nan else .indexError
          | .fin s =>
            let dt := (s - tq) / (s - e.endTime)
            if e.sizeFunction = "exponential" then .expo e.startSize e.endSize dt
            else if e.sizeFunction = "linear" then .exact (e.startSize + (e.endSize - e.startSize) * dt)
            else .indexError

/-! ### predecessors / successors -/

abbrev NameMap := List (String × List String)

def NameMap.setDefault (m : NameMap) (k : String) : NameMap :=
  if m.any (fun kv => kv.1 = k) then m else m ++ [(k, [])]

def NameMap.append (m : NameMap) (k v : String) : NameMap :=
  m.map (fun kv => if kv.1 = k then (kv.1, kv.2 ++ [v]) else kv)

def predecessors (g : Graph) : NameMap :=
  g.demes.foldl (fun pred d =>
    d.ancestors.foldl (fun p a => p.append d.name a) (pred.setDefault d.name)) []

def successors (g : Graph) : NameMap :=
  g.demes.foldl (fun succ d =>
    d.ancestors.foldl (fun s a => (s.setDefault a).append a d.name) (succ.setDefault d.name)) []

/-! ### discrete demographic events -/

structure SplitEv where
  parent : String
  children : List String      -- a Python `set`: order not meaningful
  time : Q
  deriving DecidableEq, Repr

structure BranchEv where
  parent : String
  child : String
  time : ETime
  deriving DecidableEq, Repr

structure MergeEv where
  parents : List String
  proportions : List Q
  child : String
  time : ETime
  deriving DecidableEq, Repr

structure Events where
  pulses : List Pulse
  splits : List SplitEv
  branches : List BranchEv
  mergers : List MergeEv
  admixtures : List MergeEv
  deriving Repr

/-- `Graph.discrete_demographic_events()`; demes are looked up through the name index
(`self[c]`) exactly as the implementation does.  `none` = the lookup raised `KeyError`. -/
def discreteEvents (g : Graph) : Option Events := do
  let init : Events × NameMap := ({ pulses := g.pulses, splits := [], branches := [], mergers := [], admixtures := [] }, [])
  let (ev, splitsToAdd) ← (predecessors g).foldlM (fun (acc : Events × NameMap) (cp : String × List String) => do
    let (ev, sp) := acc
    let (c, p) := cp
    match p with
    | [] => pure (ev, sp)
    | [p0] =>
      let cd ← g.deme? c
      let pd ← g.deme? p0
      if cd.startTime = ETime.fin pd.endTime then
        pure (ev, (sp.setDefault p0).append p0 c)
      else
        pure ({ ev with branches := ev.branches ++ [{ parent := p0, child := c, time := cd.startTime }] }, sp)
    | _ =>
      let cd ← g.deme? c
      let ends ← p.mapM (fun a => (g.deme? a).map (fun d => ETime.fin d.endTime))
      let aligned := ends.all (fun e => cd.startTime = e)
      let e : MergeEv := { parents := cd.ancestors, proportions := cd.proportions, child := c, time := cd.startTime }
      if aligned then pure ({ ev with mergers := ev.mergers ++ [e] }, sp)
      else pure ({ ev with admixtures := ev.admixtures ++ [e] }, sp)) init
  let splits ← splitsToAdd.mapM (fun (kv : String × List String) => do
    let pd ← g.deme? kv.1
    pure ({ parent := kv.1, children := kv.2, time := pd.endTime } : SplitEv))
  pure { ev with splits := splits }

/-! ### in_generations -/

def Epoch.scale (gt : Q) (e : Epoch) : Epoch :=
  { e with startTime := e.startTime.div gt, endTime := e.endTime / gt }

def Deme.scale (gt : Q) (d : Deme) : Deme :=
  { d with startTime := d.startTime.div gt, epochs := d.epochs.map (Epoch.scale gt) }

def Migration.scale (gt : Q) (m : Migration) : Migration :=
  { m with startTime := m.startTime.div gt, endTime := m.endTime / gt }

def Pulse.scale (gt : Q) (p : Pulse) : Pulse := { p with time := p.time / gt }

/-- `Graph.in_generations()` -/
def inGenerations (g : Graph) : Graph :=
  { g with
    demes := g.demes.map (Deme.scale g.generationTime)
    migrations := g.migrations.map (Migration.scale g.generationTime)
    pulses := g.pulses.map (Pulse.scale g.generationTime)
    timeUnits := "generations"
    generationTime := 1 }

/-! ### rename_demes -/

abbrev Renaming := List (String × String)

def Renaming.get? (r : Renaming) (k : String) : Option String := (r.find? (fun kv => kv.1 = k)).map (·.2)
def Renaming.apply (r : Renaming) (k : String) : String := (r.get? k).getD k

/-- Python `d[k] = v` on the insertion-ordered name index -/
def indexSet (idx : List (String × Nat)) (k : String) (v : Nat) : List (String × Nat) :=
  if idx.any (fun kv => kv.1 = k) then idx.map (fun kv => if kv.1 = k then (k, v) else kv)
  else idx ++ [(k, v)]

def indexDel (idx : List (String × Nat)) (k : String) : List (String × Nat) :=
  idx.filter (fun kv => kv.1 ≠ k)

/-- the loop `for k, deme in list(graph._deme_map.items()): if k in names: del …; … = deme` -/
def renameIndex (r : Renaming) (idx : List (String × Nat)) : List (String × Nat) :=
  idx.foldl (fun cur kv =>
    match r.get? kv.1 with
    | some n => indexSet (indexDel cur kv.1) n kv.2
    | none => cur) idx

/-- `Graph.rename_demes(names)` -/
def renameDemes (g : Graph) (r : Renaming) : Graph :=
  { g with
    demes := g.demes.map (fun d => { d with name := r.apply d.name, ancestors := d.ancestors.map r.apply })
    migrations := g.migrations.map (fun m => { m with source := r.apply m.source, dest := r.apply m.dest })
    pulses := g.pulses.map (fun p => { p with sources := p.sources.map r.apply, dest := r.apply p.dest })
    index := renameIndex r g.index }

end Demes
