/-
  C09 §9 — the round trip stated with the wider fragment: a valid ms-expressible graph whose printed command lies
  in `C08.Tame2` has tame pulses (`toMs_output_tame2`), so `from_ms` accepts the command and the round trip holds
  (`ms_roundtrip_sem_all_tame2`, `ms_roundtrip_growth_sem_all_tame2`): the conclusions of `ms_roundtrip_sem_all` /
  `ms_roundtrip_growth_sem_all` with `PulsesTame g` replaced by `Tame2` of the printed command — which is the same
  hypothesis.
-/
import DemesVerif.Proofs.MsTame2Final
import DemesVerif.Proofs.MsAccFinal
set_option linter.unusedSimpArgs false
set_option linter.unusedVariables false
namespace Demes.Proofs.MsTame2
open Demes Demes.Ms Demes.Spec Demes.Spec.C07 Demes.Spec.C09
open Demes.Spec.MsSem (DemogSem PopSem msSem graphSem graphSemWith parse)
open Demes.Spec.C08 (semEquiv resultSem Tame' Tame2)

theorem ms_roundtrip_sem_all_tame2 (c : NumCodec) (sa : Growth → String) {g : Graph} (hv : validGraph g = true)
    (hx : MsExpressible g = true) (hcs : ConstSizes g = true)
    {N0 : Q} (hN : 0 < N0) {samples : Option (List Int)} (hs : samplesOk g samples = true)
    {toks : List (Tok Growth)} (htoks : toMs g N0 samples = .ok toks) (hc : CodecCovers c toks)
    {pr : Demes.Spec.MsSem.Parsed} (hpr : parse (renderG c sa toks) = .ok pr) (ht : Tame2 pr = true) :
    ∃ mg sem rs gs, fromMs (renderG c sa toks) N0 none = .ok mg
      ∧ msSem (renderG c sa toks) N0 = .ok sem ∧ resultSem mg = .ok rs
      ∧ graphSem (inGenerations (normalizeProportions g)) none = .ok gs
      ∧ semEquiv sem rs = true ∧ SemRefines sem gs ∧ SemRefines rs gs := by
  obtain ⟨pr', hpr', _, hiff⟩ := toMs_output_tame2 c sa hv hx hcs hN hs htoks hc
  have : pr' = pr := by rw [hpr] at hpr'; cases hpr'; rfl
  subst this
  have hpt := hiff.1 ht
  obtain ⟨mg, hfrom, _⟩ := MsAcc.ms_roundtrip_accepts c sa hv hx hcs hpt hN hs htoks hc
  obtain ⟨sem, rs, gs, h⟩ := MsRT.ms_roundtrip_sem_tame_norm c sa hv hx hcs hpt hN hs htoks hc hfrom
  exact ⟨mg, sem, rs, gs, hfrom, h⟩

theorem ms_roundtrip_growth_sem_all_tame2 (c : NumCodec) (sa : Growth → String) {g : Graph} (hv : validGraph g = true)
    (hx : MsExpressible g = true)
    {N0 : Q} (hN : 0 < N0) {samples : Option (List Int)} (hs : samplesOk g samples = true)
    {toks : List (Tok Growth)} (htoks : toMs g N0 samples = .ok toks) (hc : CodecCovers c toks)
    (hsa : GrowthPrinter sa (epochGrowths g N0))
    {pr : Demes.Spec.MsSem.Parsed} (hpr : parse (renderG c sa toks) = .ok pr) (ht : Tame2 pr = true) :
    ∃ mg sem rs gs, fromMs (renderG c sa toks) N0 none = .ok mg
      ∧ msSem (renderG c sa toks) N0 = .ok sem ∧ resultSem mg = .ok rs
      ∧ graphSem (inGenerations (normalizeProportions g)) none = .ok gs
      ∧ semEquiv sem rs = true
      ∧ SemRefines sem (regrow (growthVal sa) N0 gs) ∧ SemRefines rs (regrow (growthVal sa) N0 gs)
      ∧ SemRefinesUpToGrowth sem gs ∧ SemRefinesUpToGrowth rs gs := by
  obtain ⟨pr', hpr', _, hiff⟩ := toMs_output_tame2V c sa hv hx hN hs htoks hc hsa
  have : pr' = pr := by rw [hpr] at hpr'; cases hpr'; rfl
  subst this
  exact MsGrow.ms_roundtrip_growth_sem_all c sa hv hx (hiff.1 ht) hN hs htoks hc hsa

#print axioms ms_roundtrip_sem_all_tame2
#print axioms ms_roundtrip_growth_sem_all_tame2

end Demes.Proofs.MsTame2
