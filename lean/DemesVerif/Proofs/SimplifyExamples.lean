/-
  Concrete graphs for the non-vacuity examples of C05.
-/
import DemesVerif.Spec.C05
namespace Demes.Proofs.C05
open Demes Demes.Spec

def exEp (start : ETime) (endT : Q) (n0 n1 : Q) (f : String) : Epoch :=
  { startTime := start, endTime := endT, startSize := n0, endSize := n1, sizeFunction := f,
    selfingRate := 0, cloningRate := 0 }

def exMig (s d : String) (start : ETime) (endT rate : Q) : Migration :=
  { source := s, dest := d, startTime := start, endTime := endT, rate := rate }

/-- three-deme island model: all six directed migrations share rate and (implied) bounds -/
def island3 : Graph :=
  { description := "island", timeUnits := "generations", generationTime := 1, doi := [], metadata := [],
    demes := [
      { name := "A", description := "", startTime := .inf, ancestors := [], proportions := [],
        epochs := [exEp .inf 0 100 100 "constant"] },
      { name := "B", description := "", startTime := .inf, ancestors := [], proportions := [],
        epochs := [exEp .inf 0 200 200 "constant"] },
      { name := "C", description := "", startTime := .inf, ancestors := [], proportions := [],
        epochs := [exEp .inf 0 300 300 "constant"] }],
    migrations := [
      exMig "A" "B" .inf 0 (1/100), exMig "B" "A" .inf 0 (1/100),
      exMig "A" "C" .inf 0 (1/100), exMig "C" "A" .inf 0 (1/100),
      exMig "B" "C" .inf 0 (1/100), exMig "C" "B" .inf 0 (1/100)],
    pulses := [],
    index := [("A", 0), ("B", 1), ("C", 2)] }

/-- four demes, partially symmetric pattern: a full triangle A,B,C and the pair C,D under one
(rate, bounds) key, a lone A→D under the same key, and a B→D with its own rate and explicit
bounds.  D has two ancestors (so its start time and proportions are kept) and two epochs, the
first labelled "exponential" with equal sizes (the label must be kept), the second a genuine
exponential (label dropped); C's infinite epoch is followed by a linear one. -/
def partial4 : Graph :=
  { description := "", timeUnits := "years", generationTime := 25, doi := ["x"], metadata := [],
    demes := [
      { name := "A", description := "root", startTime := .inf, ancestors := [], proportions := [],
        epochs := [exEp .inf 0 100 100 "constant"] },
      { name := "B", description := "", startTime := .inf, ancestors := [], proportions := [],
        epochs := [exEp .inf 0 200 200 "constant"] },
      { name := "C", description := "", startTime := .inf, ancestors := [], proportions := [],
        epochs := [exEp .inf 50 300 300 "constant", exEp (.fin 50) 0 300 600 "linear"] },
      { name := "D", description := "", startTime := .fin 80, ancestors := ["A", "B"],
        proportions := [1/4, 3/4],
        epochs := [exEp (.fin 80) 20 50 50 "exponential", exEp (.fin 20) 0 50 500 "exponential"] }],
    migrations := [
      exMig "A" "B" .inf 0 (1/100), exMig "B" "A" .inf 0 (1/100),
      exMig "A" "C" .inf 0 (1/100), exMig "C" "A" .inf 0 (1/100),
      exMig "B" "C" .inf 0 (1/100), exMig "C" "B" .inf 0 (1/100),
      exMig "C" "D" (.fin 80) 0 (1/100), exMig "D" "C" (.fin 80) 0 (1/100),
      exMig "A" "D" (.fin 80) 0 (1/100),
      exMig "B" "D" (.fin 60) 10 (1/50)],
    pulses := [{ sources := ["A"], dest := "D", time := 30, proportions := [1/10] }],
    index := [("A", 0), ("B", 1), ("C", 2), ("D", 3)] }

/-- field-wise equality of two graphs up to the order of their migrations (`metadata`, which
has no decidable equality, is compared for emptiness only — it is empty in the examples) -/
def sameUpToMigrationOrder (a b : Graph) : Bool :=
  a.description == b.description && a.timeUnits == b.timeUnits
    && a.generationTime == b.generationTime && a.doi == b.doi
    && a.metadata.isEmpty && b.metadata.isEmpty
    && a.demes == b.demes && a.pulses == b.pulses && a.index == b.index
    && a.migrations.isPerm b.migrations

/-- resolving the simplified form succeeds and gives back the graph, up to migration order -/
def roundTripsSimplified (g : Graph) : Bool :=
  match resolve g.asdictSimplified with
  | .ok g' => sameUpToMigrationOrder g' g
  | .error _ => false

end Demes.Proofs.C05
