/-
  Numbers of the Model.

  * `Q`      exact rationals (sizes, rates, proportions, finite times)
  * `ETime`  a rational or +∞ (deme / epoch / migration start times)
  * `Num`    what a *document* may contain in a numeric position: a rational or one of
             the IEEE specials.  Comparisons follow IEEE/Python (`NaN` compares false).

  Python's int/float distinction is erased (the library compares with `==`).
-/
namespace Demes

abbrev Q := Rat

/-- Python exception classes that the library raises while resolving. Only
accept/reject is compared with the implementation; the class is kept for the
"same kind of error" clause of C18 and for diagnostics. -/
inductive ErrKind where
  | type | value | key | other
  deriving DecidableEq, Repr, Inhabited

structure Err where
  kind : ErrKind
  msg  : String
  deriving Repr, Inhabited

def typeErr {α} (m : String) : Except Err α := .error ⟨.type, m⟩
def valueErr {α} (m : String) : Except Err α := .error ⟨.value, m⟩
def keyErr {α} (m : String) : Except Err α := .error ⟨.key, m⟩

/-! ### Extended times -/

inductive ETime where
  | fin (q : Q)
  | inf
  deriving DecidableEq, Repr, Inhabited

namespace ETime

instance : Coe Q ETime := ⟨ETime.fin⟩

def le : ETime → ETime → Prop
  | _, inf => True
  | inf, fin _ => False
  | fin a, fin b => a ≤ b

def lt : ETime → ETime → Prop
  | inf, _ => False
  | fin _, inf => True
  | fin a, fin b => a < b

instance : LE ETime := ⟨le⟩
instance : LT ETime := ⟨lt⟩

instance (a b : ETime) : Decidable (a ≤ b) := by
  cases a <;> cases b <;> simp only [LE.le, le] <;> infer_instance

instance (a b : ETime) : Decidable (a < b) := by
  cases a <;> cases b <;> simp only [LT.lt, lt] <;> infer_instance

def isInf : ETime → Bool
  | inf => true
  | fin _ => false

def min (a b : ETime) : ETime := if a ≤ b then a else b
def max (a b : ETime) : ETime := if a ≤ b then b else a

/-- division of a time by a positive rational (∞ stays ∞) -/
def div (a : ETime) (g : Q) : ETime :=
  match a with
  | inf => inf
  | fin q => fin (q / g)

end ETime

/-! ### Document numbers -/

inductive Num where
  | fin (q : Q)
  | pinf
  | ninf
  | nan
  deriving DecidableEq, Repr, Inhabited

namespace Num

/-- IEEE `<` (false when either side is NaN) -/
def lt : Num → Num → Bool
  | nan, _ => false
  | _, nan => false
  | pinf, _ => false
  | _, ninf => false
  | ninf, _ => true       -- ninf < (fin | pinf)
  | fin _, pinf => true
  | fin a, fin b => decide (a < b)

/-- IEEE `<=` -/
def le : Num → Num → Bool
  | nan, _ => false
  | _, nan => false
  | ninf, _ => true
  | _, pinf => true
  | pinf, _ => false      -- pinf <= (fin | ninf)
  | fin _, ninf => false
  | fin a, fin b => decide (a ≤ b)

def isInf : Num → Bool
  | pinf => true
  | ninf => true
  | _ => false

def isNan : Num → Bool
  | nan => true
  | _ => false

def zero : Num := fin 0
def one : Num := fin 1

def toQ? : Num → Option Q
  | fin q => some q
  | _ => none

def toETime? : Num → Option ETime
  | fin q => some (.fin q)
  | pinf => some .inf
  | _ => none

def ofETime : ETime → Num
  | .fin q => fin q
  | .inf => pinf

end Num

/-! ### `math.isclose` on exact rationals

`math.isclose(a, b, rel_tol, abs_tol)` is
`a == b or (finite a and finite b and |a-b| <= max(rel_tol*max(|a|,|b|), abs_tol))`.
The tolerances are the exact rational values of the doubles `1e-9` and `1e-12`
(regenerated from the source constants and checked in `Theorems/Tables.lean`). -/

def qabs (a : Q) : Q := if a < 0 then -a else a
def qmax (a b : Q) : Q := if a ≤ b then b else a
def qmin (a b : Q) : Q := if a ≤ b then a else b

/-- exact value of the double `1e-9` -/
def relTol : Q := mkRat 4835703278458517 4835703278458516698824704
/-- exact value of the double `1e-12` -/
def absTol : Q := mkRat 4951760157141521 4951760157141521099596496896

def iscloseQ (a b : Q) (rel abs : Q) : Bool :=
  a == b || decide (qabs (a - b) ≤ qmax (rel * qmax (qabs a) (qabs b)) abs)

def iscloseE (a b : ETime) (rel abs : Q) : Bool :=
  match a, b with
  | .inf, .inf => true
  | .fin x, .fin y => iscloseQ x y rel abs
  | _, _ => false

end Demes
