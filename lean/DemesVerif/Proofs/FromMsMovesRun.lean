/-
  C08, stage `build_movements`, part 1 anchored at the event loop: for every time group of the
  run, the Builder's `lineage_movements` matrix equals the interpreter's movement matrix.
-/
import DemesVerif.Proofs.FromMsMoves
import DemesVerif.Proofs.FromMsMigFold
namespace Demes.Proofs.FromMs
open Demes Demes.Ms Demes.Spec.MsSem Demes.Spec.C08
open Demes.Proofs.RV (bind_ok pure_ok)

/-- the loop over a prefix of the groups: the invariant holds afterwards, at a time from which
the remaining groups are still in order -/
theorem groups_inv_prefix {N0 : Q} {I : Q → BState → St → Prop} (hI : SimInv N0 I) :
    ∀ (pre rest : List (List (Event Num))) {T : Q} {s s' : BState} {σ σ' : St},
    I T s σ → (∀ g ∈ pre, ∀ e ∈ g, HasCmd e) → TimesOK N0 T ((pre ++ rest).map (List.map cmdOfD)) →
    pre.foldlM (Ms.stepGroup N0) s = .ok s' →
    (pre.map (List.map cmdOfD)).foldlM (Spec.MsSem.stepGroup N0) σ = .ok σ' →
    ∃ T', I T' s' σ' ∧ TimesOK N0 T' (rest.map (List.map cmdOfD)) := by
  intro pre
  induction pre with
  | nil =>
    intro rest T s s' σ σ' h _ ht hm hs
    cases hm
    cases hs
    exact ⟨T, h, ht⟩
  | cons g pre ih =>
    intro rest T s s' σ σ' h hall ht hm hs
    rw [List.foldlM_cons] at hm
    obtain ⟨s1, h1, hm⟩ := bind_ok.1 hm
    rw [List.map_cons, List.foldlM_cons] at hs
    obtain ⟨σ1, hs1, hs⟩ := sbind_ok.1 hs
    obtain ⟨T', hle, htg, hrest⟩ := ht
    have h' := stepGroup_inv hI h hle (hall g (List.mem_cons_self ..))
      (fun e he => htg _ (List.mem_map.mpr ⟨e, he, rfl⟩)) h1 hs1
    exact ih rest h' (fun g' hg' => hall g' (List.mem_cons_of_mem _ hg')) hrest hm hs

/-- **`build_movements`, matrix level, in the run.**  Split the groups of the event loop at any
group `evs`: if the Builder and the interpreter have processed the groups before it (states `s`,
`σ`) and both process the events of `evs`, then the Builder's `lineage_movements` matrix after
these events equals the interpreter's movement matrix, row by row. -/
theorem run_group_lm {args : Args} {pr : Parsed} {N0 : Q}
    (ha : ArgsAgree args pr) (hN : 0 < N0)
    {pre post : List (List (Event Num))} {evs : List (Event Num)} (hsplit : eventGroups args = pre ++ evs :: post)
    {s s1 : BState} {g1 : GState} {σ σ1 : St} {L1 : List (Nat × Row)} {T' : Q}
    (hpre : pre.foldlM (Ms.stepGroup N0) (initState args N0) = .ok s)
    (hpreS : (pre.map (List.map cmdOfD)).foldlM (Spec.MsSem.stepGroup N0) (initSt pr N0) = .ok σ)
    (hT' : ∀ e ∈ evs, 4 * N0 * (cmdOfD e).t = T')
    (hm : evs.foldlM (stepEvent N0 T') (s, { lm := initLm s evs, params := [] }) = .ok (s1, g1))
    (hs : (evs.map cmdOfD).foldlM (Spec.MsSem.step N0) (σ, initL σ) = .ok (σ1, L1)) :
    ∀ ir ∈ L1, 1 ≤ ir.1 ∧ ∀ k, lmGet g1.lm (ir.1 - 1) k = ir.2.get (k + 1) := by
  obtain ⟨hi1, hi2⟩ := agree_list _ _ ha.initial
  obtain ⟨he1, he2⟩ := agree_list _ _ ha.events
  have hall : ∀ e ∈ args.initialState ++ sortBy (fun a b => Num.le a.t b.t) args.demographicEvents, HasCmd e := by
    intro e he
    rcases List.mem_append.mp he with he | he
    · exact hi2 e he
    · exact he2 e ((sortBy_mem _ _ _).mp he)
  have hallg : ∀ g ∈ eventGroups args, ∀ e ∈ g, HasCmd e := by
    intro g hg e he
    apply hall
    have : e ∈ (eventGroups args).flatten := List.mem_flatten.mpr ⟨g, hg, he⟩
    unfold eventGroups at this
    rwa [List.flatten_splitBy] at this
  have hgroups : cmdGroups pr = (eventGroups args).map (List.map cmdOfD) := by
    unfold cmdGroups eventGroups
    rw [hi1, he1, ← sortBy_cmd _ he2, ← List.map_append]
    exact splitBy_map cmdOfD sameT (fun a b => a.t == b.t) HasCmd (fun x y hx hy => sameT_cmd hx hy) _ hall
  have htimes : TimesOK N0 0 ((eventGroups args).map (List.map cmdOfD)) := by
    rw [← hgroups]
    unfold cmdGroups
    apply timesOK_of_sorted hN _ 0 (splitBy_const _)
    · rw [List.flatten_splitBy, List.pairwise_append]
      refine ⟨?_, sortCmd_sorted _, ?_⟩
      · apply List.pairwise_of_forall_mem_list
        intro a ha' b hb'
        rw [ha.initial0 a ha', ha.initial0 b hb']
      · intro a ha' b hb'
        rw [ha.initial0 a ha']
        exact ha.nonneg b (sortCmd_mem _ _ hb')
    · intro c hc
      rw [List.flatten_splitBy] at hc
      have h0 : 0 ≤ c.t := by
        rcases List.mem_append.mp hc with hc | hc
        · rw [ha.initial0 c hc]
        · exact ha.nonneg c (sortCmd_mem _ _ hc)
      have h4 : (0 : Q) ≤ 4 * N0 := by grind
      have := Rat.mul_le_mul_of_nonneg_left h0 h4
      simpa using this
  rw [hsplit] at htimes hallg
  obtain ⟨T, hsim, hrest⟩ := groups_inv_prefix (sim2_inv N0) pre (evs :: post)
    ⟨initial_sizeSim args pr N0 ha, initial_migSim args pr N0 ha⟩
    (fun g hg => hallg g (List.mem_append_left _ hg)) htimes hpre hpreS
  obtain ⟨T'', hle, htg, _⟩ := hrest
  have hev : ∀ e ∈ evs, HasCmd e := hallg evs (List.mem_append_right _ (List.mem_cons_self ..))
  cases hevs : evs with
  | nil =>
    subst hevs
    cases hm
    cases hs
    exact initLm_rel hsim.1 []
  | cons e0 r =>
    have hTT : T'' = T' := by
      rw [← htg (cmdOfD e0) (List.mem_map.mpr ⟨e0, by rw [hevs]; exact List.mem_cons_self .., rfl⟩)]
      exact hT' e0 (by rw [hevs]; exact List.mem_cons_self ..)
    rw [hevs] at hm hs hev hT'
    exact group_lm hsim.1 (by rw [← hTT]; exact hle) hev hT' hm hs

end Demes.Proofs.FromMs
