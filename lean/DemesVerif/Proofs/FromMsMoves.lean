/-
  C08, stage `build_movements`, part 1 — the Builder's `lineage_movements` matrix of a time group
  is the interpreter's movement matrix, for **every** command (the known findings F5, F21, F22,
  F6b arise afterwards, when `split_join_params` collapses the matrix into ancestry and pulses).
-/
import DemesVerif.Proofs.FromMsSizeFold
namespace Demes.Proofs.FromMs
open Demes Demes.Ms Demes.Spec.MsSem Demes.Spec.C08
open Demes.Proofs.RV (bind_ok pure_ok)

/-! ## sparse rows -/

theorem lookup_map_replace (r : Row) (k : Nat) (v : Q) (k' : Nat) :
    (r.map (fun e => if e.1 = k then (k, v) else e)).lookup k'
      = if k' = k then (if r.any (fun e => e.1 = k) then some v else none) else r.lookup k' := by
  induction r with
  | nil => simp
  | cons e r ih =>
    obtain ⟨a, b⟩ := e
    simp only [List.map_cons, List.any_cons]
    by_cases ha : a = k
    · subst ha
      by_cases hk : k' = a
      · subst hk
        simp [List.lookup]
      · have : (k' == a) = false := by simpa using hk
        simp only [if_true, List.lookup, this, ih, hk, if_false]
    · simp only [ha, if_false, decide_false, Bool.false_or]
      by_cases hk : k' = a
      · subst hk
        have : ¬ k' = k := ha
        simp [List.lookup, this]
      · have : (k' == a) = false := by simpa using hk
        simp only [List.lookup, this, ih]

theorem Row.get_set (r : Row) (k : Nat) (v : Q) (k' : Nat) :
    (Row.set r k v).get k' = if k' = k then v else Row.get r k' := by
  unfold Row.set Row.get
  by_cases hany : r.any (fun e => e.1 = k) = true
  · rw [if_pos hany, lookup_map_replace]
    by_cases hk : k' = k
    · simp [hk, hany]
    · simp [hk]
  · rw [if_neg hany]
    have hnone : r.lookup k = none := by
      rw [List.lookup_eq_none_iff]
      intro e he
      simp only [List.any_eq_true, decide_eq_true_eq, not_exists, not_and] at hany
      have := hany e he
      simpa using fun h => this h.symm
    rw [List.lookup_append]
    by_cases hk : k' = k
    · subst hk
      simp [hnone, List.lookup]
    · have : (k' == k) = false := by simpa using hk
      cases hl : r.lookup k' with
      | none => simp [List.lookup, this, hk]
      | some x => simp [hk]

theorem Row.get_add (r : Row) (k : Nat) (v : Q) (k' : Nat) :
    (Row.add r k v).get k' = if k' = k then Row.get r k + v else Row.get r k' := by
  unfold Row.add
  rw [Row.get_set]

/-! ## dense rows -/

theorem getD_set (l : List Q) (i : Nat) (v : Q) (j : Nat) (hi : i < l.length) :
    (l.set i v).getD j 0 = if j = i then v else l.getD j 0 := by
  rw [List.getD_eq_getElem?_getD, List.getD_eq_getElem?_getD, List.getElem?_set]
  by_cases h : i = j
  · subst h; simp [hi]
  · have : ¬ j = i := fun e => h e.symm
    simp [h, this]

/-! ## the two movement matrices -/

/-- every row of the interpreter's matrix is the same row of the Builder's matrix (populations
are numbered from 1 by ms, from 0 by the Builder) -/
def LmRel (lm : List (List Q)) (L : List (Nat × Row)) : Prop :=
  ∀ ir ∈ L, 1 ≤ ir.1 ∧ ∀ k, lmGet lm (ir.1 - 1) k = ir.2.get (k + 1)

theorem lmGet_map (lm : List (List Q)) (f : List Q → List Q) (j k : Nat) (hj : j < lm.length) :
    lmGet (lm.map f) j k = (f (lm.getD j [])).getD k 0 := by
  unfold lmGet
  simp only [List.getD_eq_getElem?_getD, List.getElem?_map, List.getElem?_eq_getElem hj, Option.map_some,
    Option.getD_some]

theorem lmGet_map_out (lm : List (List Q)) (f : List Q → List Q) (j k : Nat) (hj : ¬ j < lm.length) :
    lmGet (lm.map f) j k = 0 := by
  unfold lmGet
  have : lm[j]? = none := List.getElem?_eq_none_iff.mpr (by omega)
  simp [List.getD_eq_getElem?_getD, this]

theorem lmGet_out (lm : List (List Q)) (j k : Nat) (hj : ¬ j < lm.length) : lmGet lm j k = 0 := by
  unfold lmGet
  have : lm[j]? = none := List.getElem?_eq_none_iff.mpr (by omega)
  simp [List.getD_eq_getElem?_getD, this]

/-- `-es`: the same update of every row -/
theorem splitLm_rel {lm : List (List Q)} {L : List (Nat × Row)} {pid n : Nat} {i : Nat} {p : Q}
    (h : LmRel lm L) (hi : i = pid + 1) (hne : pid ≠ n)
    (hlen : ∀ row ∈ lm, pid < row.length ∧ n < row.length) :
    LmRel (splitLm lm pid n p)
      (L.map (fun (ir : Nat × Row) => (ir.1, ((ir.2.set i (ir.2.get i * p)).set (n + 1) (ir.2.get i * (1 - p)))))) := by
  intro ir' hir'
  obtain ⟨ir, hir, rfl⟩ := List.mem_map.mp hir'
  obtain ⟨h1, h2⟩ := h ir hir
  refine ⟨h1, ?_⟩
  intro k
  dsimp only
  rw [Row.get_set, Row.get_set]
  unfold splitLm
  by_cases hj : ir.1 - 1 < lm.length
  · rw [lmGet_map _ _ _ _ hj]
    have hrow : lm.getD (ir.1 - 1) [] ∈ lm := by
      rw [List.getD_eq_getElem?_getD, List.getElem?_eq_getElem hj]
      exact List.getElem_mem hj
    obtain ⟨l1, l2⟩ := hlen _ hrow
    have hg : ∀ k, (lm.getD (ir.1 - 1) []).getD k 0 = ir.2.get (k + 1) := h2
    dsimp only
    rw [getD_set _ _ _ _ (by simp; exact l1), getD_set _ _ _ _ l2, getD_set _ _ _ _ l2]
    simp only [hne, if_false, hg, hi]
    by_cases hk1 : k = pid
    · subst hk1
      simp [hne]
    · by_cases hk2 : k = n
      · subst hk2
        simp [hk1]
        ring
      · simp [hk1, hk2]
  · rw [lmGet_map_out _ _ _ _ hj]
    have hz : ∀ k, ir.2.get (k + 1) = 0 := fun k => by rw [← h2 k, lmGet_out _ _ _ hj]
    subst hi
    rw [hz pid, hz k]
    simp

/-- `-ej`: the same update of every row -/
theorem joinLm_rel {lm : List (List Q)} {L : List (Nat × Row)} {popI popJ : Nat} {i j : Nat}
    (h : LmRel lm L) (hi : i = popI + 1) (hj' : j = popJ + 1) (hne : popI ≠ popJ)
    (hlen : ∀ row ∈ lm, popI < row.length ∧ popJ < row.length) :
    LmRel (joinLm lm popI popJ)
      (L.map (fun (ir : Nat × Row) => (ir.1, (ir.2.set i 0).add j (ir.2.get i)))) := by
  intro ir' hir'
  obtain ⟨ir, hir, rfl⟩ := List.mem_map.mp hir'
  obtain ⟨h1, h2⟩ := h ir hir
  refine ⟨h1, ?_⟩
  intro k
  dsimp only
  rw [Row.get_add, Row.get_set, Row.get_set]
  unfold joinLm
  by_cases hj : ir.1 - 1 < lm.length
  · rw [lmGet_map _ _ _ _ hj]
    have hrow : lm.getD (ir.1 - 1) [] ∈ lm := by
      rw [List.getD_eq_getElem?_getD, List.getElem?_eq_getElem hj]
      exact List.getElem_mem hj
    obtain ⟨l1, l2⟩ := hlen _ hrow
    have hg : ∀ k, (lm.getD (ir.1 - 1) []).getD k 0 = ir.2.get (k + 1) := h2
    dsimp only
    rw [getD_set _ _ _ _ (by simp; exact l1), getD_set _ _ _ _ l2]
    subst hi hj'
    have hne' : ¬ popJ + 1 = popI + 1 := by omega
    simp only [hg, hne', if_false]
    by_cases hk1 : k = popI
    · subst hk1
      simp [hne]
    · by_cases hk2 : k = popJ
      · subst hk2
        simp [hk1]
      · simp [hk1, hk2]
  · rw [lmGet_map_out _ _ _ _ hj]
    have hz : ∀ k, ir.2.get (k + 1) = 0 := fun k => by rw [← h2 k, lmGet_out _ _ _ hj]
    subst hi hj'
    rw [hz popI, hz popJ, hz k]
    simp

/-! ## events that move no lineage -/

def isJoinEv : Event Num → Bool
  | .join .. => true
  | _ => false

theorem stepEvent_nonmove {N0 time : Q} {s s' : BState} {g g' : GState} {ev : Event Num}
    (h1 : isSplit ev = false) (h2 : isJoinEv ev = false)
    (hm : stepEvent N0 time (s, g) ev = .ok (s', g')) : g' = g ∧ s'.numDemes = s.numDemes := by
  cases ev with
  | growthRateChange o t alpha =>
    rw [stepEvent_growthAll] at hm
    obtain ⟨a, _, hm⟩ := bind_ok.1 hm
    obtain ⟨s1, hs1, hm⟩ := bind_ok.1 hm
    cases hm
    exact ⟨rfl, by rw [(forLiveDemes_ok hs1).1]⟩
  | popGrowthRateChange o t i alpha =>
    rw [stepEvent_growth] at hm
    obtain ⟨pid, _, hm⟩ := bind_ok.1 hm
    obtain ⟨a, _, hm⟩ := bind_ok.1 hm
    obtain ⟨s1, hs1, hm⟩ := bind_ok.1 hm
    cases hm
    obtain ⟨_, _, _, _, rfl⟩ := modifyDeme_ok hs1
    exact ⟨rfl, rfl⟩
  | sizeChange o t x =>
    rw [stepEvent_sizeAll] at hm
    obtain ⟨a, _, hm⟩ := bind_ok.1 hm
    obtain ⟨s1, hs1, hm⟩ := bind_ok.1 hm
    cases hm
    exact ⟨rfl, by rw [(forLiveDemes_ok hs1).1]⟩
  | popSizeChange o t i x =>
    rw [stepEvent_size] at hm
    obtain ⟨pid, _, hm⟩ := bind_ok.1 hm
    obtain ⟨a, _, hm⟩ := bind_ok.1 hm
    obtain ⟨s1, hs1, hm⟩ := bind_ok.1 hm
    cases hm
    obtain ⟨_, _, _, _, rfl⟩ := modifyDeme_ok hs1
    exact ⟨rfl, rfl⟩
  | migRateChange o t x =>
    rw [stepEvent_migAll] at hm
    cases hm
    exact ⟨rfl, (migAllState_frame s time x).2.1⟩
  | migEntryChange o t i j rate =>
    rw [stepEvent_migEntry] at hm
    obtain ⟨pi, _, hm⟩ := bind_ok.1 hm
    obtain ⟨pj, _, hm⟩ := bind_ok.1 hm
    split at hm
    · exact (RV.valueErr_bind_ok.1 hm).elim
    · cases hm
      exact ⟨rfl, (migEntryState_frame s time pi pj rate).2.1⟩
  | migMatrixChange o t npop mm =>
    rw [stepEvent_migMatrix] at hm
    dsimp only at hm
    generalize (if o = "-ma" then (s.numDemes : Int) else npop) = np at hm
    split at hm
    · exact (RV.valueErr_bind_ok.1 hm).elim
    · obtain ⟨m, _, hm⟩ := bind_ok.1 hm
      cases hm
      exact ⟨rfl, (migMatrixState_frame s time m).2.1⟩
  | join o t i j => cases h2
  | split o t i p => cases h1

theorem step_nonmove {N0 : Q} {σ σ' : St} {L L' : List (Nat × Row)} {c : Cmd} (hc : isMove c = false)
    (hs : Spec.MsSem.step N0 (σ, L) c = .ok (σ', L')) : L' = L := by
  cases c with
  | setSize t i x reset =>
    rw [step_setSize] at hs
    obtain ⟨p, _, hs⟩ := sbind_ok.1 hs
    rw [spure_ok] at hs
    cases hs; rfl
  | setSizeAll t x => rw [step_setSizeAll, spure_ok] at hs; cases hs; rfl
  | setGrowth t i a =>
    rw [step_setGrowth] at hs
    obtain ⟨p, _, hs⟩ := sbind_ok.1 hs
    rw [spure_ok] at hs
    cases hs; rfl
  | setGrowthAll t a => rw [step_setGrowthAll, spure_ok] at hs; cases hs; rfl
  | setMigEntry t i j m => exact (step_mig_pops (c := .setMigEntry t i j m) trivial hs).2.2
  | setMigAll t x => exact (step_mig_pops (c := .setMigAll t x) trivial hs).2.2
  | setMigMatrix t npop entries => exact (step_mig_pops (c := .setMigMatrix t npop entries) trivial hs).2.2
  | split t i p => cases hc
  | join t i j => cases hc

/-! ## one event -/

theorem splitLm_length (lm : List (List Q)) (pid n : Nat) (p : Q) :
    ∀ row ∈ splitLm lm pid n p, ∃ row0 ∈ lm, row.length = row0.length := by
  intro row hrow
  obtain ⟨r0, hr0, rfl⟩ := List.mem_map.mp hrow
  exact ⟨r0, hr0, by simp⟩

theorem joinLm_length (lm : List (List Q)) (i j : Nat) :
    ∀ row ∈ joinLm lm i j, ∃ row0 ∈ lm, row.length = row0.length := by
  intro row hrow
  obtain ⟨r0, hr0, rfl⟩ := List.mem_map.mp hrow
  exact ⟨r0, hr0, by simp⟩

/-- one event keeps the two movement matrices equal; the rows of the Builder's matrix are long
enough for the populations the remaining `-es` of the group will create -/
theorem stepEvent_lm {N0 T T' : Q} {s s' : BState} {g g' : GState} {σ σ' : St}
    {L L' : List (Nat × Row)} {ev : Event Num} {c : Cmd} (rest : List (Event Num))
    (h : SizeSim T s σ) (hc : cmdOf ev = some c)
    (hm : stepEvent N0 T' (s, g) ev = .ok (s', g')) (hs : Spec.MsSem.step N0 (σ, L) c = .ok (σ', L'))
    (hrel : LmRel g.lm L)
    (hlen : ∀ row ∈ g.lm, row.length = s.numDemes + ((ev :: rest).filter isSplit).length) :
    LmRel g'.lm L' ∧ ∀ row ∈ g'.lm, row.length = s'.numDemes + (rest.filter isSplit).length := by
  by_cases hsp : isSplit ev = true
  · cases ev with
    | split o t i p =>
      obtain ⟨tq, a, rfl, rfl, rfl⟩ := cmdOf_split hc
      rw [stepEvent_split] at hm
      obtain ⟨pid, hpid, hm⟩ := bind_ok.1 hm
      obtain ⟨a', ha', hm⟩ := bind_ok.1 hm
      split at hm
      · exact (assertionErr_bind_ok.1 hm).elim
      · cases hm
        cases finArg_ok ha'
        obtain ⟨⟨q, hq⟩, _, _, hL⟩ := step_split_ok hs
        obtain ⟨q1, q2, q3, q4, q5⟩ := convertPopulationId_ok hpid
        have hlen' : ∀ row ∈ g.lm, row.length = s.numDemes + ((rest.filter isSplit).length + 1) := by
          intro row hrow
          have := hlen row hrow
          simpa [List.filter_cons, isSplit] using this
        constructor
        · rw [hL, ← h.num]
          exact splitLm_rel hrel (by omega) (by omega) (fun row hrow => by
            have := hlen' row hrow
            omega)
        · intro row hrow
          obtain ⟨r0, hr0, e⟩ := splitLm_length _ _ _ _ row hrow
          rw [e, hlen' r0 hr0]
          show _ = s.numDemes + 1 + _
          omega
    | _ => cases hsp
  · have hsp' : isSplit ev = false := by simpa using hsp
    have hlen' : ∀ row ∈ g.lm, row.length = s.numDemes + (rest.filter isSplit).length := by
      intro row hrow
      have := hlen row hrow
      simpa [List.filter_cons, hsp'] using this
    by_cases hj : isJoinEv ev = true
    · cases ev with
      | join o t i j =>
        obtain ⟨tq, rfl, rfl⟩ := cmdOf_join hc
        rw [stepEvent_join] at hm
        obtain ⟨popI, hI, hm⟩ := bind_ok.1 hm
        obtain ⟨popJ, hJ, hm⟩ := bind_ok.1 hm
        obtain ⟨s1, h1, hm⟩ := bind_ok.1 hm
        cases hm
        obtain ⟨q, hq, _, hij, _, _, hL⟩ := step_join_ok hs
        obtain ⟨q1, q2, q3, q4, q5⟩ := convertPopulationId_ok hI
        obtain ⟨r1, r2, r3, r4, r5⟩ := convertPopulationId_ok hJ
        obtain ⟨_, _, _, _, rfl⟩ := modifyDeme_ok h1
        constructor
        · rw [hL]
          exact joinLm_rel hrel (by omega) (by omega) (by omega) (fun row hrow => by
            have := hlen' row hrow
            omega)
        · intro row hrow
          obtain ⟨r0, hr0, e⟩ := joinLm_length _ _ _ row hrow
          rw [e, hlen' r0 hr0]
          show _ = (joinMatrix _ T' popI).numDemes + _
          rw [(joinMatrix_frame _ T' popI).2.1]
      | _ => cases hj
    · have hj' : isJoinEv ev = false := by simpa using hj
      obtain ⟨e1, e2⟩ := stepEvent_nonmove hsp' hj' hm
      have hcm : isMove c = false := by
        cases ev with
        | growthRateChange o t alpha => obtain ⟨_, _, _, _, rfl⟩ := cmdOf_growthAll hc; rfl
        | popGrowthRateChange o t i alpha => obtain ⟨_, _, _, _, rfl⟩ := cmdOf_growth hc; rfl
        | sizeChange o t x => obtain ⟨_, _, _, _, rfl⟩ := cmdOf_sizeAll hc; rfl
        | popSizeChange o t i x => obtain ⟨_, _, _, _, rfl⟩ := cmdOf_size hc; rfl
        | migRateChange o t x => obtain ⟨_, _, _, _, rfl⟩ := cmdOf_migAll hc; rfl
        | migEntryChange o t i j r => obtain ⟨_, _, _, _, rfl⟩ := cmdOf_migEntry hc; rfl
        | migMatrixChange o t npop mm => obtain ⟨_, _, rfl⟩ := cmdOf_migMatrix hc; rfl
        | split o t i p => cases hsp'
        | join o t i j => cases hj'
      have e3 := step_nonmove hcm hs
      rw [e1, e2, e3]
      exact ⟨hrel, hlen'⟩

/-! ## one time group -/

theorem events_lm {N0 T' : Q} : ∀ (evs : List (Event Num)) {T : Q} {s s' : BState} {g g' : GState} {σ σ' : St}
    {L L' : List (Nat × Row)}, SizeSim T s σ → T ≤ T' → (∀ e ∈ evs, HasCmd e) →
    (∀ e ∈ evs, 4 * N0 * (cmdOfD e).t = T') → LmRel g.lm L →
    (∀ row ∈ g.lm, row.length = s.numDemes + (evs.filter isSplit).length) →
    evs.foldlM (stepEvent N0 T') (s, g) = .ok (s', g') →
    (evs.map cmdOfD).foldlM (Spec.MsSem.step N0) (σ, L) = .ok (σ', L') →
    LmRel g'.lm L' := by
  intro evs
  induction evs with
  | nil =>
    intro T s s' g g' σ σ' L L' _ _ _ _ hrel _ hm hs
    cases hm
    cases hs
    exact hrel
  | cons e evs ih =>
    intro T s s' g g' σ σ' L L' h hT hall htime hrel hlen hm hs
    rw [List.foldlM_cons] at hm
    obtain ⟨⟨s1, g1⟩, h1, hm⟩ := bind_ok.1 hm
    rw [List.map_cons, List.foldlM_cons] at hs
    obtain ⟨⟨σ1, L1⟩, hs1, hs⟩ := sbind_ok.1 hs
    have he := hall e (List.mem_cons_self ..)
    have ht := htime e (List.mem_cons_self ..)
    have h' := stepEvent_sizeSim h hT he ht.symm h1 hs1
    obtain ⟨hrel1, hlen1⟩ := stepEvent_lm evs h he h1 hs1 hrel hlen
    exact ih h' (Rat.le_refl) (fun x hx => hall x (List.mem_cons_of_mem _ hx))
      (fun x hx => htime x (List.mem_cons_of_mem _ hx)) hrel1 hlen1 hm hs

/-- `lineage_movements` at the start of a time group: the identity on the existing populations,
with room for the populations the `-es` of the group will create -/
def initLm (s : BState) (evs : List (Event Num)) : List (List Q) :=
  let n := s.numDemes + (evs.filter isSplit).length
  (List.range n).map (fun j => (List.range n).map (fun k => if j = k && j < s.numDemes then 1 else 0))

/-- the interpreter's movement matrix at the start of a time group: the identity on the
populations that have not been joined -/
def initL (σ : St) : List (Nat × Row) :=
  ((σ.pops.zipIdx).filter (fun pi => alive pi.1)).map (fun pi => (pi.2 + 1, [(pi.2 + 1, (1 : Q))]))

theorem initLm_rel {T : Q} {s : BState} {σ : St} (h : SizeSim T s σ) (evs : List (Event Num)) :
    LmRel (initLm s evs) (initL σ) := by
  intro ir hir
  unfold initL at hir
  obtain ⟨pk, hpk, rfl⟩ := List.mem_map.mp hir
  have hmem := (List.mem_filter.mp hpk).1
  obtain ⟨p, k⟩ := pk
  have hk : k < σ.pops.length := by
    have := List.mem_zipIdx hmem
    omega
  dsimp only
  refine ⟨by omega, ?_⟩
  intro k'
  have hk2 : k < s.numDemes := by rw [h.num]; exact hk
  unfold initLm lmGet Row.get
  dsimp only
  have hkn : k < s.numDemes + (evs.filter isSplit).length := by omega
  simp only [Nat.add_sub_cancel, List.getD_eq_getElem?_getD, List.getElem?_map, List.getElem?_range hkn,
    Option.map_some, Option.getD_some]
  by_cases hk' : k' < s.numDemes + (evs.filter isSplit).length
  · simp only [List.getElem?_range hk', Option.map_some, Option.getD_some, List.lookup]
    by_cases he : k = k'
    · subst he; simp [hk2]
    · have : (k' + 1 == k + 1) = false := by simp; omega
      simp [he, this]
  · have hne : ¬ k = k' := by omega
    have : (k' + 1 == k + 1) = false := by simp; omega
    have hnone : (List.range (s.numDemes + (evs.filter isSplit).length))[k']? = none :=
      List.getElem?_eq_none_iff.mpr (by simp; omega)
    simp [hnone, List.lookup, this]

theorem initLm_length (s : BState) (evs : List (Event Num)) :
    ∀ row ∈ initLm s evs, row.length = s.numDemes + (evs.filter isSplit).length := by
  intro row hrow
  unfold initLm at hrow
  obtain ⟨j, _, rfl⟩ := List.mem_map.mp hrow
  simp

/-- **`build_movements`, matrix level.**  For every time group of every command: after the
events of the group, the Builder's `lineage_movements` matrix and the interpreter's movement
matrix are equal, row by row (the rows of the interpreter's matrix are the populations that
were not joined at the start of the group). -/
theorem group_lm {N0 T T' : Q} {s s1 : BState} {g1 : GState} {σ σ1 : St} {L1 : List (Nat × Row)}
    {evs : List (Event Num)}
    (h : SizeSim T s σ) (hT : T ≤ T') (hall : ∀ e ∈ evs, HasCmd e)
    (htime : ∀ e ∈ evs, 4 * N0 * (cmdOfD e).t = T')
    (hm : evs.foldlM (stepEvent N0 T') (s, { lm := initLm s evs, params := [] }) = .ok (s1, g1))
    (hs : (evs.map cmdOfD).foldlM (Spec.MsSem.step N0) (σ, initL σ) = .ok (σ1, L1)) :
    (∀ ir ∈ L1, 1 ≤ ir.1 ∧ ∀ k, lmGet g1.lm (ir.1 - 1) k = ir.2.get (k + 1)) :=
  events_lm evs h hT hall htime (initLm_rel h evs) (initLm_length s evs) hm hs

end Demes.Proofs.FromMs
