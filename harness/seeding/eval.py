#!/usr/bin/env python3
"""eval.py <copyN> <PROP> <k>: evaluate seed S8-<prop>-<k> in /tmp/eval<copyN>/verif against wt_<PROP>."""
import json, os, subprocess, sys
n, prop, k = sys.argv[1], sys.argv[2], int(sys.argv[3])
REL = {"C01": ["C01", "C03"], "C02": ["C02", "C18"], "C03": ["C03", "C01", "C18"], "C04": ["C04", "C05", "C16"], "C05": ["C05", "C04"],
       "C07": ["C07", "C09"], "C08": ["C08", "C09"], "C09": ["C09", "C08", "C07"], "C10": ["C10"], "C13": ["C13"],
       "C15": ["C15", "C01"], "C16": ["C16", "C04"], "C06": ["C06", "C18"], "C11": ["C11"], "C12": ["C12", "C01", "C03"],
       "C14": ["C14"], "C17": ["C17"], "C18": ["C18", "C06"], "C19": ["C19"], "C20": ["C20"]}
props = sys.argv[4:] or REL[prop]
V = f"/tmp/eval{n}/verif"
out = f"/tmp/seed8/out_{prop}"
sid = f"S8-{prop.lower()}-{k}"
notes = {x["k"]: x for x in json.load(open(f"{out}/notes.json"))}[k]
d = f"{V}/seeded/{sid}"
os.makedirs(d, exist_ok=True)
json.dump({"breaks_property": prop, "change": notes["change"], "needs": notes["needs"]}, open(f"{d}/meta.json", "w"))
r = subprocess.run(["/venv/bin/python", f"{V}/harness/seed_eval.py", sid, f"/tmp/seed8/wt_{prop}", f"{out}/change_{k}.diff", f"{out}/demo_{k}.py"] + props + ["--keep"],
                   stdout=subprocess.PIPE, stderr=subprocess.STDOUT)
open(f"/tmp/seed8/eval_{sid}.log", "wb").write(r.stdout)
m = json.load(open(f"{d}/meta.json"))
import time
os.makedirs("/tmp/seed8/results_log", exist_ok=True)
json.dump(m, open(f"/tmp/seed8/results_log/{sid}.{int(time.time())}.json", "w"), indent=1)
print(sid, "confirmed" if m.get("confirmed") else "NOT-CONFIRMED", "|", " ; ".join(f"{x['check']}:exit{x['exit']}:{(x.get('what') or '')[:90]}{' NOINPUT' if any('no-failing-input-found' in l for l in x['lines']) else ''}" for x in m["ran"]))
