import DemesVerif.Generated.Facts
namespace Demes.Tables
open Demes

/-- `Graph.fromdict` rebinds `data = copy.deepcopy(data)` before its first use of `data` -/
theorem fact_fromdict_copies_first : Generated.fromdictCopiesFirst = true := by decide
/-- `in_generations` works on `copy.deepcopy(self)` and never assigns through `self` -/
theorem fact_in_generations_copies_first : Generated.inGenerationsCopiesFirst = true := by decide
/-- `rename_demes` works on `copy.deepcopy(self)` and never assigns through `self` -/
theorem fact_rename_demes_copies_first : Generated.renameDemesCopiesFirst = true := by decide
/-- `Builder.resolve` is `Graph.fromdict(self.data)` -/
theorem fact_builder_resolve_passes_data : Generated.builderResolvePassesData = true := by decide

end Demes.Tables
