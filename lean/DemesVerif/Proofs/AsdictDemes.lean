/-
  Proofs for C06, part 4: the deme loop of `Graph.fromdict` on the output of `Graph.asdict`.
-/
import DemesVerif.Proofs.AsdictNum
namespace Demes.Proofs.Asdict
open Demes Demes.Spec Obj Value

/-! ### one epoch (`Deme._add_epoch`) -/

/-- the V6 facts about one epoch -/
structure EpochOk (e : Epoch) : Prop where
  startSize : 0 < e.startSize
  endSize : 0 < e.endSize
  selfing0 : 0 ≤ e.selfingRate
  selfing1 : e.selfingRate ≤ 1
  cloning0 : 0 ≤ e.cloningRate
  cloning1 : e.cloningRate ≤ 1
  sizeFunction : sizeFunctions.contains e.sizeFunction = true
  constant : e.sizeFunction = "constant" → e.startSize = e.endSize
  infinite : e.startTime.isInf = true → e.startSize = e.endSize
  endTime : 0 ≤ e.endTime
  order : ETime.fin e.endTime < e.startTime

/-- the start time `_add_epoch` gives to the next epoch -/
def nextStart (demeStart : ETime) (acc : List Epoch) : ETime :=
  match acc.getLast? with
  | none => demeStart
  | some prev => .fin prev.endTime

theorem addEpoch_ok (demeStart : ETime) (acc : List Epoch) (e : Epoch) (he : EpochOk e)
    (hs : e.startTime = nextStart demeStart acc) :
    addEpoch demeStart acc (epochObj e) = .ok (acc ++ [e]) := by
  have l1 : lookup "end_time" (epochObj e) = some (numV e.endTime) := rfl
  have l2 : lookupNN "start_size" (epochObj e) = some (numV e.startSize) := rfl
  have l3 : lookupNN "end_size" (epochObj e) = some (numV e.endSize) := rfl
  have l4 : lookupNN "size_function" (epochObj e) = some (.str e.sizeFunction) := rfl
  have l5 : lookup "selfing_rate" (epochObj e) = some (numV e.selfingRate) := rfl
  have l6 : lookup "cloning_rate" (epochObj e) = some (numV e.cloningRate) := rfl
  have hinf : (e.startTime.isInf && decide (e.startSize ≠ e.endSize)) = false := by
    cases h : e.startTime.isInf
    · rfl
    · simp only [Bool.true_and, decide_eq_false_iff_not, ne_eq, Decidable.not_not]; exact he.infinite h
  have hconst : (decide (e.sizeFunction = "constant") && decide (e.startSize ≠ e.endSize)) = false := by
    by_cases h : e.sizeFunction = "constant"
    · simp only [h, decide_true, Bool.true_and, decide_eq_false_iff_not, ne_eq, Decidable.not_not]
      exact he.constant h
    · simp only [h, decide_false, Bool.false_and]
  have hnle : ¬ e.startTime ≤ ETime.fin e.endTime := et_not_le_of_lt he.order
  unfold addEpoch
  cases hl : acc.getLast? with
  | none =>
    have hs' : demeStart = e.startTime := by rw [hs, nextStart, hl]
    simp only [l1, l2, l3, l4, l5, l6, Option.getD_some, pure_eq_ok, bind_ok, hs',
      nonNegFiniteQ_numV he.endTime, posFiniteQ_numV he.startSize, posFiniteQ_numV he.endSize,
      unitQ_numV he.selfing0 he.selfing1, unitQ_numV he.cloning0 he.cloning1, he.sizeFunction,
      hinf, hconst, hnle, ↓reduceIte, Bool.false_eq_true]
  | some prev =>
    have hs' : ETime.fin prev.endTime = e.startTime := by rw [hs, nextStart, hl]
    simp only [l1, l2, l3, l4, l5, l6, Option.getD_some, pure_eq_ok, bind_ok, hs',
      nonNegFiniteQ_numV he.endTime, posFiniteQ_numV he.startSize, posFiniteQ_numV he.endSize,
      unitQ_numV he.selfing0 he.selfing1, unitQ_numV he.cloning0 he.cloning1, he.sizeFunction,
      hinf, hconst, hnle, ↓reduceIte, Bool.false_eq_true]



theorem nextStart_concat (s : ETime) (acc : List Epoch) (e : Epoch) :
    nextStart s (acc ++ [e]) = .fin e.endTime := by
  simp only [nextStart, List.getLast?_append, List.getLast?_singleton, Option.some_or]

theorem epochs_fold (demeStart : ETime) (f : List Epoch → Obj × Nat → Except Err (List Epoch))
    (hf : ∀ acc e j, f acc (epochObj e, j) = addEpoch demeStart acc (epochObj e)) :
    ∀ (es acc : List Epoch) (k : Nat), (∀ e ∈ es, EpochOk e) → chained (nextStart demeStart acc) es →
      ((es.map epochObj).zipIdx k).foldlM f acc = .ok (acc ++ es) := by
  intro es
  induction es with
  | nil => intro acc k _ _; simp only [List.map_nil, List.zipIdx_nil, List.foldlM_nil, List.append_nil]; rfl
  | cons e es ih =>
    intro acc k hok hch
    rw [List.map_cons, List.zipIdx_cons, List.foldlM_cons, hf,
      addEpoch_ok demeStart acc e (hok e List.mem_cons_self) hch.1, bind_ok,
      ih (acc ++ [e]) (k + 1) (fun x hx => hok x (List.mem_cons_of_mem _ hx))
        (by rw [nextStart_concat]; exact hch.2),
      List.append_assoc]
    rfl

theorem checkAllowed_epoch (e : Epoch) : checkAllowed (epochObj e) allowedEpoch = .ok () :=
  checkAllowed_ok _ _ (by rw [keys_epochObj]; exact epochKeys_allowed)

theorem resolveEpochs_ok (demeStart : ETime) (es : List Epoch) (hok : ∀ e ∈ es, EpochOk e)
    (hch : chained demeStart es) : resolveEpochs demeStart [] (es.map epochObj) = .ok es := by
  unfold resolveEpochs
  refine epochs_fold demeStart _ ?_ es [] 0 hok hch
  · intro acc e j
    have hc : contains "end_time" (insertDefaults (epochObj e) []) = true := rfl
    simp only [checkAllowed_epoch, bind_ok, hc, if_true, pure_eq_ok]
    rfl

/-! ### one deme (`Graph._add_deme`) -/

/-- what `_add_deme` checks about a deme `d` entering the graph `G` -/
structure DemeOk (G : Graph) (d : Deme) : Prop where
  fresh : G.hasName d.name = false
  ident : isIdentifier d.name = true
  anc : ∀ a ∈ d.ancestors, ∃ anc, G.deme? a = some anc ∧ d.startTime < anc.startTime
    ∧ ETime.fin anc.endTime ≤ d.startTime
  nodup : d.ancestors.Nodup
  notSelf : d.ancestors.contains d.name = false
  inf : d.ancestors.isEmpty = d.startTime.isInf
  pos : ETime.fin 0 < d.startTime
  len : d.proportions.length = d.ancestors.length
  props : ∀ p ∈ d.proportions, 0 < p ∧ p ≤ 1
  sum : d.proportions.isEmpty = true ∨ closeTo1 (qsumS d.proportions) = true

theorem addDemeHeader_ok (G : Graph) (d : Deme) (h : DemeOk G d) :
    addDemeHeader G (.str d.name) (.str d.description) (some (strsV d.ancestors))
      (some (numsV d.proportions)) (some (timeV d.startTime)) = .ok { d with epochs := [] } := by
  have hanc : (d.ancestors.map Value.str).mapM (existingName G) = .ok d.ancestors :=
    mapM_map_ok_id _ _ _ (fun a ha => by
      obtain ⟨anc, h1, _⟩ := h.anc a ha
      simp only [existingName, hasName_of_deme? h1, if_true]; rfl)
  have hfor : d.ancestors.forM (fun a => do
      let anc ← getDeme G a
      if Num.lt (Num.ofETime d.startTime) (Num.ofETime anc.startTime) && Num.le (Num.fin anc.endTime) (Num.ofETime d.startTime) then pure ()
      else valueErr s!"start_time is outside the interval of existence for ancestor '{a}'") = .ok () :=
    forM_ok _ _ (fun a ha => by
      obtain ⟨anc, h1, h2, h3⟩ := h.anc a ha
      simp only [getDeme, h1, pure_eq_ok, bind_ok, num_lt_ofETime, num_le_fin_ofETime, decide_eq_true h2,
        decide_eq_true h3, Bool.and_self, if_true])
  have hprops1 : (d.proportions.map numV).mapM intOrFloat = .ok (d.proportions.map Num.fin) :=
    mapM_map_ok _ _ _ _ (fun _ _ => rfl)
  have hprops2 : (d.proportions.map Num.fin).mapM (fun n => do vUnitInterval n; vPositive n; toQ n)
      = .ok d.proportions :=
    mapM_map_ok_id _ _ _ (fun p hp => by
      obtain ⟨p0, p1⟩ := h.props p hp
      have p0' : 0 ≤ p := by grind
      have p0'' : ¬ p ≤ 0 := by grind
      simp only [vUnitInterval, vPositive, Num.zero, Num.one, num_le_fin, decide_eq_true p0', decide_eq_true p1,
        Bool.and_self, if_true, pure_eq_ok, bind_ok, decide_eq_true_eq, if_neg p0'', toQ])
  have hsum : (!d.proportions.isEmpty && !proportionsSumOk d.proportions) = false := by
    rcases h.sum with h1 | h1
    · rw [h1]; rfl
    · rw [proportionsSumOk, qsum_eq, ← closeTo1_eq, h1]; simp only [Bool.not_true, Bool.and_false]
  have hinf : (d.ancestors.isEmpty && !(Num.ofETime d.startTime).isInf) = false := by
    rw [isInf_ofETime, h.inf]; cases d.startTime.isInf <;> rfl
  have hpos : Num.le (Num.ofETime d.startTime) Num.zero = false := by
    rw [Num.zero, num_le_ofETime_fin]; exact decide_eq_false (et_not_le_of_lt h.pos)
  have hvpos : vPositive (Num.ofETime d.startTime) = .ok () := by
    simp only [vPositive, hpos, Bool.false_eq_true, ↓reduceIte]; rfl
  unfold addDemeHeader
  simp only [h.fresh, Bool.false_eq_true, ↓reduceIte, pure_bind', bind_ok, strsV, numsV, instList_list, hanc,
    intOrFloat_timeV, hinf, hfor, h.ident, Bool.not_true, instStr_str, hvpos, toETime_ofETime, h.nodup,
    decide_true, h.notSelf, hprops1, hprops2, hsum, h.len, ne_eq, not_true_eq_false]
  rfl


theorem checkAllowed_deme (d : Deme) : checkAllowed (demeObj d) allowedDemeInner = .ok () :=
  checkAllowed_ok _ _ (by rw [keys_demeObj]; exact demeKeys_allowed)

theorem resolveDeme_ok (G : Graph) (d : Deme) (h : DemeOk G d) (hok : ∀ e ∈ d.epochs, EpochOk e)
    (hne : d.epochs.isEmpty = false) (hch : chained d.startTime d.epochs) :
    resolveDeme [] [] G (demeObj d)
      = .ok { G with demes := G.demes ++ [d], index := G.index ++ [(d.name, G.demes.length)] } := by
  have l1 : lookup "name" (demeObj d) = some (.str d.name) := rfl
  have l2 : insertDefaults (demeObj d) [] = demeObj d := rfl
  have l3 : lookup "description" (demeObj d) = some (.str d.description) := rfl
  have l4 : lookupNN "ancestors" (demeObj d) = some (strsV d.ancestors) := rfl
  have l5 : lookupNN "proportions" (demeObj d) = some (numsV d.proportions) := rfl
  have l6 : lookupNN "start_time" (demeObj d) = some (timeV d.startTime) := by
    cases hd : d.startTime <;> simp [lookupNN, lookup, demeObj, timeV, hd, Num.ofETime]
  have l7 : popObject (demeObj d) "defaults" = .ok [] := rfl
  have l8 : contains "epochs" (demeObj d) = true := rfl
  have l9 : popObjList (demeObj d) "epochs" (some [[]]) = .ok (d.epochs.map epochObj) := by
    have : lookup "epochs" (demeObj d) = some (.list (d.epochs.map Epoch.asdict)) := rfl
    simp only [popObjList, this, instList_list, bind_ok]
    exact mapM_instObj _ _ epoch_asdict _
  have l10 : checkAllowed [] allowedLocalDefaults = .ok () := rfl
  have l11 : popObject [] "epoch" = .ok [] := rfl
  have l12 : checkDefaults [] epochDefaultsTable = .ok () := rfl
  have l13 : update [] [] = ([] : Obj) := rfl
  unfold resolveDeme
  simp only [l1, l2, l3, l4, l5, l6, l7, l8, l9, l10, l11, l12, l13, pure_bind', bind_ok, checkAllowed_deme,
    Option.getD_some, addDemeHeader_ok G d h, Bool.not_true, Bool.and_false, Bool.false_eq_true, ↓reduceIte,
    List.isEmpty_map, hne, resolveEpochs_ok d.startTime d.epochs hok hch]
  rfl

/-! ### the deme loop -/

/-- the graph header built by `resolveHeader` from `Graph.asdict g` -/
def hdr (g : Graph) : Graph :=
  { emptyGraph with description := g.description, timeUnits := g.timeUnits,
                    generationTime := g.generationTime, doi := g.doi,
                    metadata := coerceO g.metadata }

/-- the graph under construction after the demes `ds` have been added -/
def withDemes (g : Graph) (ds : List Deme) : Graph := { hdr g with demes := ds, index := mkIndex ds }

theorem mkIndex_concat (ds : List Deme) (d : Deme) :
    mkIndex (ds ++ [d]) = mkIndex ds ++ [(d.name, ds.length)] := by
  simp only [mkIndex, List.zipIdx_append, List.map_append, List.zipIdx_cons, List.zipIdx_nil, List.map_cons,
    List.map_nil, Nat.zero_add]

theorem withDemes_index (g : Graph) (ds : List Deme) : (withDemes g ds).index = mkIndex (withDemes g ds).demes := rfl

theorem contiguous_order : ∀ (es : List Epoch) (s : ETime), contiguous s es = true →
    ∀ e ∈ es, ETime.fin e.endTime < e.startTime
  | [], _, _ => fun _ h => by cases h
  | x :: xs, s, h => by
    simp only [contiguous, Bool.and_eq_true, beq_iff_eq, decide_eq_true_eq] at h
    intro e he
    rcases List.mem_cons.1 he with rfl | he
    · exact h.1.2
    · exact contiguous_order xs _ h.2 e he

theorem epochOk_of_valid {g : Graph} (h5 : v5 g = true) (h6 : v6 g = true) {d : Deme} (hd : d ∈ g.demes)
    {e : Epoch} (he : e ∈ d.epochs) : EpochOk e := by
  simp only [v5, List.all_eq_true, Bool.and_eq_true] at h5
  simp only [v6, List.all_eq_true, Bool.and_eq_true, decide_eq_true_eq, Bool.or_eq_true, bne_iff_ne, ne_eq,
    beq_iff_eq, Bool.not_eq_true'] at h6
  obtain ⟨⟨⟨⟨⟨⟨⟨⟨⟨a1, a2⟩, a3⟩, a4⟩, a5⟩, a6⟩, a7⟩, a8⟩, a9⟩, a10⟩ := h6 d hd e he
  refine ⟨a1, a2, a3, a4, a5, a6, a7, ?_, ?_, a10, contiguous_order _ _ (h5 d hd).2 e he⟩
  · intro hc; rcases a8 with h | h
    · exact absurd hc h
    · exact h
  · intro hc; rcases a9 with h | h
    · rw [hc] at h; cases h
    · exact h



theorem find?_append_of_any {α} (p : α → Bool) (l1 l2 : List α) (h : l1.any p = true) :
    (l1 ++ l2).find? p = l1.find? p := by
  rw [List.find?_append]
  obtain ⟨x, hx, hp⟩ := List.any_eq_true.1 h
  cases hf : l1.find? p with
  | none => exact absurd hp (by simpa using (List.find?_eq_none.1 hf) x hx)
  | some y => rfl

theorem demeOk_of_valid {g : Graph} (h1 : v1 g = true) (h2 : v2 g = true) (h3 : v3 g = true)
    (h4 : v4 g = true) {pre rest : List Deme} {d : Deme} (hs : g.demes = pre ++ d :: rest) :
    DemeOk (withDemes g pre) d := by
  have hd : d ∈ g.demes := by rw [hs]; exact List.mem_append_right _ List.mem_cons_self
  simp only [v1, Bool.and_eq_true, List.all_eq_true, decide_eq_true_eq] at h1
  obtain ⟨⟨_, hid⟩, hnd⟩ := h1
  simp only [v2, List.all_eq_true, Bool.and_eq_true, decide_eq_true_eq, Bool.not_eq_true'] at h2
  have h2' := h2 (d, pre.length) (by
    rw [List.mem_zipIdx_iff_getElem?, hs]
    simp only [List.getElem?_append_right (Nat.le_refl _), Nat.sub_self, List.getElem?_cons_zero])
  simp only [hs, List.take_left'] at h2'
  obtain ⟨⟨hanc, hnodup⟩, hself⟩ := h2'
  simp only [v3, List.all_eq_true, Bool.and_eq_true, decide_eq_true_eq, beq_iff_eq] at h3
  obtain ⟨⟨h3a, h3b⟩, h3c⟩ := h3 d hd
  simp only [v4, List.all_eq_true, Bool.and_eq_true, decide_eq_true_eq, beq_iff_eq, Bool.or_eq_true] at h4
  obtain ⟨⟨h4a, h4b⟩, h4c⟩ := h4 d hd
  refine ⟨?_, hid d hd, ?_, hnodup, hself, h3b, h3c, h4a, h4b, h4c⟩
  · rw [hasName_eq _ (withDemes_index g pre)]
    show pre.any (fun e => e.name = d.name) = false
    rw [hs, List.map_append, List.map_cons] at hnd
    have := (List.nodup_append.1 hnd).2.2
    rw [Bool.eq_false_iff]
    intro hany
    obtain ⟨x, hx, hp⟩ := List.any_eq_true.1 hany
    exact this x.name (List.mem_map_of_mem hx) d.name List.mem_cons_self (of_decide_eq_true hp)
  · intro a ha
    have hany := hanc a ha
    have h3a' := h3a a ha
    rw [deme?_eq _ (withDemes_index g pre)]
    show ∃ anc, pre.find? (fun e => e.name = a) = some anc ∧ _
    have hf : findDeme g a = pre.find? (fun e => e.name = a) := by
      unfold findDeme; rw [hs]; exact find?_append_of_any _ _ _ hany
    rw [hf] at h3a'
    cases hx : pre.find? (fun e => e.name = a) with
    | none => rw [hx] at h3a'; cases h3a'
    | some anc =>
      rw [hx] at h3a'
      simp only [Bool.and_eq_true, decide_eq_true_eq] at h3a'
      exact ⟨anc, rfl, h3a'.1, h3a'.2⟩



theorem resolveDeme_step {g : Graph} (h1 : v1 g = true) (h2 : v2 g = true) (h3 : v3 g = true)
    (h4 : v4 g = true) (h5 : v5 g = true) (h6 : v6 g = true) {pre rest : List Deme} {d : Deme}
    (hs : g.demes = pre ++ d :: rest) :
    resolveDeme [] [] (withDemes g pre) (demeObj d) = .ok (withDemes g (pre ++ [d])) := by
  have hd : d ∈ g.demes := by rw [hs]; exact List.mem_append_right _ List.mem_cons_self
  have h5' := h5
  simp only [v5, List.all_eq_true, Bool.and_eq_true, Bool.not_eq_true'] at h5'
  rw [resolveDeme_ok _ d (demeOk_of_valid h1 h2 h3 h4 hs) (fun e he => epochOk_of_valid h5 h6 hd he)
    (h5' d hd).1 (chained_of_contiguous _ _ (h5' d hd).2)]
  simp only [withDemes, mkIndex_concat]

theorem demes_loop {g : Graph} (h1 : v1 g = true) (h2 : v2 g = true) (h3 : v3 g = true)
    (h4 : v4 g = true) (h5 : v5 g = true) (h6 : v6 g = true) :
    ∀ (rest pre : List Deme), g.demes = pre ++ rest →
      (rest.map demeObj).foldlM (resolveDeme [] []) (withDemes g pre) = .ok (withDemes g g.demes) := by
  intro rest
  induction rest with
  | nil => intro pre hs; rw [hs, List.append_nil]; rfl
  | cons d rest ih =>
    intro pre hs
    rw [List.map_cons, List.foldlM_cons, resolveDeme_step h1 h2 h3 h4 h5 h6 hs, bind_ok]
    exact ih (pre ++ [d]) (by rw [hs, List.append_assoc]; rfl)

end Demes.Proofs.Asdict
