/-
  Semantic tie of the handle management of demes/load_dump.py (C17).

  `Generated/GuardsHandles.lean` holds, regenerated from the source's AST on every run, the
  handle-relevant control flow of every entry point as a term of the statement language
  `Handles.Prog.Stmt` and the context manager `_open_file_polymorph` as a `Handles.Prog.Cm`
  (`Model/HandlesProg.lean`: `with` blocks with what they enclose, the calls that read / write a file or
  can raise, calls of other entry points with the file they are handed, the loops, the `yield`; for the
  context manager the `except` classes of the `open` call and the clauses of the `try` around its
  `yield`).  The language has a meaning in the Model's own monad and primitives (`denote` for functions
  that are called, `denoteG` / `genNextR` / `genCloseR` for generators, `cmEnter` / `cmExit` for the
  context manager); the theorems below say that the Model's functions (`Model/Handles.lean`) ARE the
  meaning of the generated terms: for every fault plan, format, kind of `filename` argument, number of
  documents and consumer script.

  Moving a call into or out of a `with`, dropping a `with`, closing a file or the caller's stream
  anywhere, handing a different object to a callee, changing `finally` into `except … / else`,
  catching more or less than `TypeError` around `open`, restructuring the generator: each makes the
  theorem of that function fail to compile.  Renaming locals or parameters' uses, reordering keyword
  arguments and reformatting do not change the generated terms.
-/
import DemesVerif.Generated.GuardsHandles
import DemesVerif.Proofs.Guards3Handles
namespace Demes.Tables
open Demes.Handles Demes.Handles.Prog Demes.Proofs.Guards3

/-! ### `_open_file_polymorph` -/

/-- the part of the context manager before its `yield` is the Model's `openPolymorph`: only `TypeError`
from `open` falls back to the argument itself (an `OSError` on a path propagates, nothing is open) -/
theorem handles_tie_context_enter (p : Plan) (o : Obj) :
    cmEnter Generated.handlesContextManager p o = openPolymorph p o :=
  cmEnter_eq p o

/-- the part after the `yield` is the Model's `exitPolymorph` HOWEVER the body of the `with` ends — normally,
with an exception, or by `GeneratorExit` thrown into a suspended `load_all` — and an exception keeps
propagating (`try … finally`, not `except Exception`) -/
theorem handles_tie_context_exit (k : ExitKind) (o : Obj) (f : FileRef) (s : State) :
    cmExit Generated.handlesContextManager k o f s = (exitPolymorph o f s, k != .normal) :=
  cmExit_eq k o f s

/-- it yields the object it opened (or fell back to), `open` gets the caller's mode and UTF-8 -/
theorem handles_context_manager_open :
    Generated.handlesContextManager.yieldsFile = true ∧ Generated.handlesContextManager.passesMode = true
      ∧ Generated.handlesContextManager.encoding = "utf-8" := by decide +kernel

/-! ### the entry points that are called -/

/-- `load_asdict`: the file is opened and closed around the parser only, under either format; the
checks run after the `with` -/
theorem handles_tie_load_asdict (p : Plan) (fmt : Format) (n : Nat) (o : Obj) :
    denote Generated.handlesLoadAsdict (envOf p fmt n o) = loadAsdict p fmt o :=
  denote_loadAsdict p fmt n o

/-- `loads_asdict`: `load_asdict` on the `StringIO`, inside the `with io.StringIO(…)` -/
theorem handles_tie_loads_asdict (p : Plan) (fmt : Format) (n : Nat) (o : Obj) :
    denote Generated.handlesLoadsAsdict (envOf p fmt n o) = loadsAsdict p fmt :=
  denote_loadsAsdict p fmt n o

/-- `load`: `load_asdict` on the caller's argument, then `Graph.fromdict` -/
theorem handles_tie_load (p : Plan) (fmt : Format) (n : Nat) (o : Obj) :
    denote Generated.handlesLoad (envOf p fmt n o) = load p fmt o :=
  denote_load p fmt n o

/-- `loads`: `loads_asdict`, then `Graph.fromdict` -/
theorem handles_tie_loads (p : Plan) (fmt : Format) (n : Nat) (o : Obj) :
    denote Generated.handlesLoads (envOf p fmt n o) = loads p fmt :=
  denote_loads p fmt n o

/-- `dump`: the dictionary is built before the file is opened; the file is open around the
serialisation only, under either format -/
theorem handles_tie_dump (p : Plan) (fmt : Format) (n : Nat) (o : Obj) :
    denote Generated.handlesDump (envOf p fmt n o) = Handles.dump p fmt o :=
  denote_dump p fmt n o

/-- `dumps`: `dump` to the `StringIO`, inside the `with io.StringIO()` -/
theorem handles_tie_dumps (p : Plan) (fmt : Format) (n : Nat) (o : Obj) :
    denote Generated.handlesDumps (envOf p fmt n o) = dumps p fmt :=
  denote_dumps p fmt n o

/-- `dump_all`: the loop over the graphs, with both of its stages, is inside the one `with` -/
theorem handles_tie_dump_all (p : Plan) (fmt : Format) (n : Nat) (o : Obj) :
    denote Generated.handlesDumpAll (envOf p fmt n o) = dumpAll p n o :=
  denote_dumpAll p fmt n o

/-! ### `load_all` -/

/-- `next` on a fresh iterator: the Model's `genNext` is the generator semantics of the generated body
(open the file, ask the parser for a document, the three checks, suspend at the `yield` inside the
`with`; every other way out passes the `finally` of the context manager) -/
theorem handles_tie_load_all_first_next (c : Cfg) (s : State) :
    genNext c .notStarted s
      = ((genNextR Generated.handlesLoadAll c .notStarted s).1.toGen, (genNextR Generated.handlesLoadAll c .notStarted s).2) :=
  genNext_loadAll_first c s

/-- the Model's iterator under ANY consumer script (`next`, exhaust, `close`, drop) is the generator
semantics of the generated body of `load_all`: same observable generator state, same handles, same log -/
theorem handles_tie_load_all (c : Cfg) (script : List Step) :
    runScript c script .notStarted State.init
      = ((runScriptR Generated.handlesLoadAll c script .notStarted State.init).1.toGen,
         (runScriptR Generated.handlesLoadAll c script .notStarted State.init).2) :=
  runScript_loadAll c script

/-! ### what the meaning does not see

`denote` / `denoteG` ignore the mode handed to `_open_file_polymorph`, the position of
`_stringify_infinities` (the Model counts it as part of the serialisation stage) and the
`with ruamel.yaml.YAML(…)` blocks; the terms themselves are pinned. -/

theorem handles_term_load_asdict : Generated.handlesLoadAsdict = progLoadAsdict := by decide +kernel
theorem handles_term_loads_asdict : Generated.handlesLoadsAsdict = progLoadsAsdict := by decide +kernel
theorem handles_term_load : Generated.handlesLoad = progLoad := by decide +kernel
theorem handles_term_loads : Generated.handlesLoads = progLoads := by decide +kernel
theorem handles_term_load_all : Generated.handlesLoadAll = progLoadAll := by decide +kernel
theorem handles_term_dump : Generated.handlesDump = progDump := by decide +kernel
theorem handles_term_dumps : Generated.handlesDumps = progDumps := by decide +kernel
theorem handles_term_dump_all : Generated.handlesDumpAll = progDumpAll := by decide +kernel

/-! ### the public signatures -/

/-- which functions are generators, the position of the `filename` parameter, the defaults -/
theorem handles_signatures : Generated.handlesSignatures =
    [("load_asdict", false, ["filename"], ["format='yaml'"]),
     ("loads_asdict", false, ["string"], ["format='yaml'"]),
     ("load", false, ["filename"], ["format='yaml'"]),
     ("loads", false, ["string"], ["format='yaml'"]),
     ("load_all", true, ["filename"], []),
     ("dump", false, ["graph", "filename"], ["format='yaml'", "simplified=True"]),
     ("dumps", false, ["graph"], ["format='yaml'", "simplified=True"]),
     ("dump_all", false, ["graphs", "filename"], ["simplified=True"])] := by decide +kernel

/-! ### non-vacuity: the meaning of the generated terms on concrete requests -/

/-- `load_all(path)` over two documents, the second invalid, consumed by `next`, `next`: one handle,
opened, document 0 yielded, the handle closed before the second `next` raises -/
example :
    (runScriptR Generated.handlesLoadAll ⟨some ⟨.resolve, 1⟩, .str, 2⟩ [.next, .next] .notStarted State.init).2.handles
      = [false] := by decide +kernel

/-- `dump(graph, stream, format="json")` with a serialisation failure: the caller's stream stays open -/
example :
    ((denote Generated.handlesDump (envOf (some ⟨.serialise, 0⟩) .json 1 .callerStream)) State.init).2.callerClosed
      = false := by decide +kernel

end Demes.Tables
