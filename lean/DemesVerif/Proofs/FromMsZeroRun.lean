/-
  C08, time 0 — through the run, and the assembled statements on the fragment `Tame''`.
-/
import DemesVerif.Proofs.FromMsZeroSem
import DemesVerif.Proofs.FromMsPostTotal
namespace Demes.Proofs.FromMs
open Demes Demes.Ms Demes.Spec Demes.Spec.MsSem Demes.Spec.C08

/-! ## the groups of the two runs -/

/-- what `ArgsAgree` gives about the time groups of the two runs -/
theorem run_setup {args : Args} {pr : Parsed} {N0 : Q} (ha : ArgsAgree args pr) (hN : 0 < N0) :
    cmdGroups pr = (eventGroups args).map (List.map cmdOfD)
    ∧ (∀ g ∈ eventGroups args, g ≠ [] ∧ ∀ e ∈ g, HasCmd e)
    ∧ TimesOK2 N0 none ((eventGroups args).map (List.map cmdOfD))
    ∧ (initState args N0).numDemes = pr.npop := by
  obtain ⟨hi1, hi2⟩ := agree_list _ _ ha.initial
  obtain ⟨he1, he2⟩ := agree_list _ _ ha.events
  have hall : ∀ e ∈ args.initialState ++ sortBy (fun a b => Num.le a.t b.t) args.demographicEvents, HasCmd e := by
    intro e he
    rcases List.mem_append.mp he with he | he
    · exact hi2 e he
    · exact he2 e ((sortBy_mem _ _ _).mp he)
  have hgroups : cmdGroups pr = (eventGroups args).map (List.map cmdOfD) := by
    unfold cmdGroups eventGroups
    rw [hi1, he1, ← sortBy_cmd _ he2, ← List.map_append]
    exact splitBy_map cmdOfD sameT (fun a b => a.t == b.t) HasCmd (fun x y hx hy => sameT_cmd hx hy) _ hall
  have hnum : (initState args N0).numDemes = pr.npop := by
    show (initPop args).1 = _
    rw [initPop_fst]; exact ha.npop
  refine ⟨hgroups, ?_, ?_, hnum⟩
  · intro g hg
    refine ⟨List.ne_nil_of_mem_splitBy hg, ?_⟩
    intro e he
    apply hall
    have : e ∈ (eventGroups args).flatten := List.mem_flatten.mpr ⟨g, hg, he⟩
    unfold eventGroups at this
    rwa [List.flatten_splitBy] at this
  · rw [← hgroups]
    unfold cmdGroups
    have hnn : ∀ c ∈ pr.initial ++ pr.events.foldr insertCmd [], 0 ≤ c.t := by
      intro c hc
      rcases List.mem_append.mp hc with hc | hc
      · rw [ha.initial0 c hc]
      · exact ha.nonneg c (sortCmd_mem _ _ hc)
    apply timesOK2_of_sorted hN _ none (splitBy_const _)
    · rw [List.flatten_splitBy, List.pairwise_append]
      refine ⟨?_, sortCmd_sorted _, ?_⟩
      · apply List.pairwise_of_forall_mem_list
        intro a ha' b hb'
        rw [ha.initial0 a ha', ha.initial0 b hb']
      · intro a ha' b hb'
        rw [ha.initial0 a ha']
        exact ha.nonneg b (sortCmd_mem _ _ hb')
    · exact List.isChain_getLast_head_splitBy (fun (a b : Cmd) => a.t == b.t) _
    · intro g hg c hc
      have hcm : c ∈ ((pr.initial ++ pr.events.foldr insertCmd []).splitBy (fun a b => a.t == b.t)).flatten := by
        cases hsp : (pr.initial ++ pr.events.foldr insertCmd []).splitBy (fun a b => a.t == b.t) with
        | nil => rw [hsp] at hg; cases hg
        | cons g' rest =>
          rw [hsp] at hg
          simp only [List.head?_cons, Option.some.injEq] at hg
          subst hg
          exact List.mem_flatten.mpr ⟨g', List.mem_cons_self .., hc⟩
      rw [List.flatten_splitBy] at hcm
      have h4 : (0 : Q) ≤ 4 * N0 := by linarith
      show (0 : Q) ≤ 4 * N0 * c.t
      exact Rat.mul_nonneg h4 (hnn c hcm)

theorem initState_demes (args : Args) (N0 : Q) (j : Nat) (d : BDeme)
    (hd : (initState args N0).demes[j]? = some d) : d.startTime = .inf ∧ bEndTime d = 0 := by
  unfold initState at hd
  simp only [List.getElem?_map] at hd
  cases hr : (List.range (initPop args).1)[j]? with
  | none => rw [hr] at hd; cases hd
  | some k => rw [hr] at hd; cases hd; exact ⟨rfl, rfl⟩

/-- the number of populations after a group -/
theorem stepGroup_numDemes {N0 : Q} {s s' : BState} {evs : List (Event Num)} (hall : ∀ e ∈ evs, HasCmd e)
    (hm : Ms.stepGroup N0 s evs = .ok s') :
    s'.numDemes = s.numDemes + ((evs.map cmdOfD).filter isSplitC).length := by
  obtain ⟨t, s1, g1, _, hfold, rfl⟩ := stepGroup_ok hm
  rw [(applyParams_frame _ s1 g1).2, events_numDemes evs hfold, splits_cmd evs hall]

/-! ## the whole event loop on the fragment `Tame''` -/

/-- **the event loop, as far as lineage movements are concerned, on `Tame''`**: at the end of the event
loop either the invariant of the run holds, or the Builder state is marked (a pulse at time 0 or a
deme starting at time 0: `from_ms` will fail) -/
theorem buildState_movesInv2 {args : Args} {pr : Parsed} {N0 : Q} {s : BState} {σ : St}
    (ha : ArgsAgree args pr) (ht : Tame'' pr = true)
    (hm : buildState args N0 = .ok s) (hs : runState pr N0 = .ok σ) :
    (∃ T, MovesInv T s σ ∧ NameInv s) ∨ ZeroMark s := by
  unfold buildState at hm
  split at hm
  · exact (RV.valueErr_bind_ok.1 hm).elim
  rename_i hN
  have hN : 0 < N0 := by grind
  obtain ⟨_, _, hm⟩ := RV.bind_ok.1 hm
  obtain ⟨hgroups, hallg, htimes, hnum⟩ := run_setup (N0 := N0) ha hN
  unfold runState at hs
  rw [hgroups] at hs
  unfold Tame'' at ht
  rw [hgroups, ← hnum] at ht
  have hsim0 : Sim2 N0 0 (initState args N0) (initSt pr N0) :=
    ⟨initial_sizeSim args pr N0 ha, initial_migSim args pr N0 ha⟩
  generalize hK : eventGroups args = K at hm hs ht htimes hallg
  cases K with
  | nil =>
    cases hm
    cases hs
    exact Or.inl ⟨0, initial_movesInv args pr N0, initState_names args N0⟩
  | cons g rest =>
    rw [List.foldlM_cons] at hm
    obtain ⟨s1, h1, hm⟩ := RV.bind_ok.1 hm
    rw [List.map_cons, List.foldlM_cons] at hs
    obtain ⟨σ1, hs1, hs⟩ := sbind_ok.1 hs
    rw [List.map_cons] at htimes ht
    obtain ⟨T', hprev, htg, hrest⟩ := htimes
    have hT'0 : 0 ≤ T' := hprev
    simp only [goodGroups12, Bool.and_eq_true] at ht
    obtain ⟨hne, hcmd⟩ := hallg g (List.mem_cons_self ..)
    have htg' : ∀ e ∈ g, 4 * N0 * (cmdOfD e).t = T' := fun e he => htg _ (List.mem_map.mpr ⟨e, he, rfl⟩)
    have hnum1 := stepGroup_numDemes hcmd h1
    have hrestgood : goodGroups s1.numDemes (rest.map (List.map cmdOfD)) = true :=
      goodGroups_of_12 hN _ _ T' hT'0 hrest (by rw [hnum1]; exact ht.2)
    have hallrest : ∀ g' ∈ rest, g' ≠ [] ∧ ∀ e ∈ g', HasCmd e :=
      fun g' hg' => hallg g' (List.mem_cons_of_mem _ hg')
    by_cases hgood : GoodGroup (initState args N0).numDemes (g.map cmdOfD) = true
    · obtain ⟨a1, a2, a3, _⟩ := group_movesInv hN (prev := none) hsim0 (initial_movesInv args pr N0)
        (initState_names args N0) hcmd hne htg' hprev hgood h1 hs1
      exact Or.inl (groups_movesInv hN rest (some T') a1 a2 a3 hallrest hrest hrestgood hm hs)
    · -- the first group is at time 0 and has `-es` / `-ej`
      have hex : ∃ c ∈ g.map cmdOfD, isMove c = true ∧ ¬ 0 < c.t := by
        by_contra hno
        apply hgood
        apply goodGroup_of_12 ht.1
        intro c hc hmv
        by_contra hle
        exact hno ⟨c, hc, hmv, hle⟩
      obtain ⟨c, hc, _, hct⟩ := hex
      have hT0 : T' = 0 := by
        have h4 : (0 : Q) ≤ 4 * N0 := by linarith
        have hle : c.t ≤ 0 := Rat.not_lt.mp hct
        have h1' : 4 * N0 * c.t ≤ 0 := by
          have := Rat.mul_le_mul_of_nonneg_left hle h4
          simpa using this
        rw [htg c hc] at h1'
        exact Rat.le_antisymm h1' hT'0
      subst hT0
      obtain ⟨hns, hfr⟩ := good12_parts ht.1
      have hsim' : Sim2 N0 0 s1 σ1 := stepGroup_inv (sim2_inv N0) hsim0 (Rat.le_refl) hcmd htg' h1 hs1
      have hnames' := stepGroup_names (initState_names args N0) h1
      rcases first_group_zero hsim0.1 (initState_names args N0) hcmd hne htg' hns
          (fun e he => hfr _ (List.mem_map.mpr ⟨e, he, rfl⟩)) (initState_demes args N0) rfl rfl h1 hs1 with ⟨hinv, _⟩ | hz
      · exact Or.inl (groups_movesInv hN rest (some 0) hsim' hinv hnames' hallrest hrest hrestgood hm hs)
      · right
        obtain ⟨j1, _, _⟩ := stepGroup_zeroMark (initState_jlt args N0) h1
        exact (groups_zeroMark rest j1 hm).2.1 hz

/-! ## what an accepted command can have at time 0 -/

theorem pend_op_mem : ∀ (cmds : List Cmd) (n i : Nat) (q : Q), (∀ c ∈ cmds, isJoinC c = false) →
    (i, n, q) ∈ groupOpsAux n (some (i, q)) cmds := by
  intro cmds
  induction cmds with
  | nil => intro n i q _; exact List.mem_singleton.mpr rfl
  | cons c tl ih =>
    intro n i q hj
    have hj' : ∀ c ∈ tl, isJoinC c = false := fun x hx => hj x (List.mem_cons_of_mem _ hx)
    cases c with
    | split t i' p' => exact List.mem_append_left _ (List.mem_singleton.mpr rfl)
    | join t a k => have := hj _ (List.mem_cons_self ..); cases this
    | setSize t a x r => rw [groupOpsAux_nonmove _ _ _ _ rfl]; exact ih n i q hj'
    | setSizeAll t x => rw [groupOpsAux_nonmove _ _ _ _ rfl]; exact ih n i q hj'
    | setGrowth t a x => rw [groupOpsAux_nonmove _ _ _ _ rfl]; exact ih n i q hj'
    | setGrowthAll t x => rw [groupOpsAux_nonmove _ _ _ _ rfl]; exact ih n i q hj'
    | setMigEntry t a b x => rw [groupOpsAux_nonmove _ _ _ _ rfl]; exact ih n i q hj'
    | setMigAll t x => rw [groupOpsAux_nonmove _ _ _ _ rfl]; exact ih n i q hj'
    | setMigMatrix t a x => rw [groupOpsAux_nonmove _ _ _ _ rfl]; exact ih n i q hj'

/-- in a group without `-ej`, `-es i p` is the move `(i, m, 1 - p)` to a new population `m` -/
theorem split_op_mem : ∀ (cmds : List Cmd) (n : Nat) (pend : Option (Nat × Q)), (∀ c ∈ cmds, isJoinC c = false) →
    ∀ t i p, Cmd.split t i p ∈ cmds → ∃ m, n < m ∧ (i, m, 1 - p) ∈ groupOpsAux n pend cmds := by
  intro cmds
  induction cmds with
  | nil => intro n pend _ t i p h; cases h
  | cons c tl ih =>
    intro n pend hj t i p hmem
    have hj' : ∀ c ∈ tl, isJoinC c = false := fun x hx => hj x (List.mem_cons_of_mem _ hx)
    have hrec : Cmd.split t i p ∈ tl → ∀ n' pend', n ≤ n' → ∃ m, n < m ∧ (i, m, 1 - p) ∈ groupOpsAux n' pend' tl := by
      intro h n' pend' hn
      obtain ⟨m, hm1, hm2⟩ := ih n' pend' hj' t i p h
      exact ⟨m, by omega, hm2⟩
    cases c with
    | split t' i' p' =>
      show ∃ m, n < m ∧ (i, m, 1 - p) ∈ flushOp n pend ++ groupOpsAux (n + 1) (some (i', 1 - p')) tl
      rcases List.mem_cons.mp hmem with he | hmem
      · cases he
        exact ⟨n + 1, by omega, List.mem_append_right _ (pend_op_mem tl (n + 1) i (1 - p) hj')⟩
      · obtain ⟨m, hm1, hm2⟩ := hrec hmem (n + 1) (some (i', 1 - p')) (by omega)
        exact ⟨m, hm1, List.mem_append_right _ hm2⟩
    | join t' a k => have := hj _ (List.mem_cons_self ..); cases this
    | setSize t' a x r =>
      rw [groupOpsAux_nonmove _ _ _ _ rfl]
      rcases List.mem_cons.mp hmem with he | hmem
      · cases he
      · exact hrec hmem n pend (Nat.le_refl _)
    | setSizeAll t' x =>
      rw [groupOpsAux_nonmove _ _ _ _ rfl]
      rcases List.mem_cons.mp hmem with he | hmem
      · cases he
      · exact hrec hmem n pend (Nat.le_refl _)
    | setGrowth t' a x =>
      rw [groupOpsAux_nonmove _ _ _ _ rfl]
      rcases List.mem_cons.mp hmem with he | hmem
      · cases he
      · exact hrec hmem n pend (Nat.le_refl _)
    | setGrowthAll t' x =>
      rw [groupOpsAux_nonmove _ _ _ _ rfl]
      rcases List.mem_cons.mp hmem with he | hmem
      · cases he
      · exact hrec hmem n pend (Nat.le_refl _)
    | setMigEntry t' a b x =>
      rw [groupOpsAux_nonmove _ _ _ _ rfl]
      rcases List.mem_cons.mp hmem with he | hmem
      · cases he
      · exact hrec hmem n pend (Nat.le_refl _)
    | setMigAll t' x =>
      rw [groupOpsAux_nonmove _ _ _ _ rfl]
      rcases List.mem_cons.mp hmem with he | hmem
      · cases he
      · exact hrec hmem n pend (Nat.le_refl _)
    | setMigMatrix t' a x =>
      rw [groupOpsAux_nonmove _ _ _ _ rfl]
      rcases List.mem_cons.mp hmem with he | hmem
      · cases he
      · exact hrec hmem n pend (Nat.le_refl _)

theorem mem_insertCmd (c : Cmd) : ∀ (l : List Cmd) (z : Cmd), z = c ∨ z ∈ l → z ∈ insertCmd c l := by
  intro l
  induction l with
  | nil => intro z h; rcases h with rfl | h; exact List.mem_singleton.mpr rfl; cases h
  | cons d ds ih =>
    intro z h
    unfold insertCmd
    split
    · rcases h with rfl | h
      · exact List.mem_cons_self ..
      · exact List.mem_cons_of_mem _ h
    · rcases h with rfl | h
      · exact List.mem_cons_of_mem _ (ih _ (Or.inl rfl))
      · rcases List.mem_cons.mp h with rfl | h
        · exact List.mem_cons_self ..
        · exact List.mem_cons_of_mem _ (ih _ (Or.inr h))

theorem mem_sortCmd (l : List Cmd) (z : Cmd) : z ∈ l → z ∈ l.foldr insertCmd [] := by
  induction l with
  | nil => intro h; exact h
  | cons c cs ih =>
    intro h
    rw [List.foldr_cons]
    rcases List.mem_cons.mp h with rfl | h
    · exact mem_insertCmd _ _ _ (Or.inl rfl)
    · exact mem_insertCmd _ _ _ (Or.inr (ih h))

/-- the groups after a group at time `T` are later -/
theorem times_lt {N0 : Q} : ∀ (K : List (List Cmd)) (T : Q), TimesOK2 N0 (some T) K →
    ∀ gc ∈ K, ∀ c ∈ gc, T < 4 * N0 * c.t := by
  intro K
  induction K with
  | nil => intro T _ gc hgc; cases hgc
  | cons g rest ih =>
    intro T ht gc hgc c hc
    obtain ⟨T', hprev, htg, hrest⟩ := ht
    have hTT : T < T' := hprev
    rcases List.mem_cons.mp hgc with rfl | hgc
    · rw [htg c hc]; exact hTT
    · exact lt_trans hTT (ih T' hrest gc hgc c hc)

theorem isJoinC_kind {c : Cmd} (h : isJoinC c = true) : isMove c = true ∧ isSplitC c = false := by
  cases c <;> first | exact ⟨rfl, rfl⟩ | cases h

/-- **what an accepted command of the fragment `Tame''` can have at time 0**: an `-es 0 i p` of one of
the initial populations has `p = 1` (it moves no lineage) -/
theorem zero_splits {args : Args} {pr : Parsed} {N0 : Q} {s : BState} {σ : St}
    (ha : ArgsAgree args pr) (ht : Tame'' pr = true)
    (hm : buildState args N0 = .ok s) (hs : runState pr N0 = .ok σ) (hz : ¬ ZeroMark s) :
    ∀ t i p, Cmd.split t i p ∈ pr.events → t = 0 → i ≤ pr.npop → p = 1 := by
  intro t i p hmem ht0 hi
  subst ht0
  unfold buildState at hm
  split at hm
  · exact (RV.valueErr_bind_ok.1 hm).elim
  rename_i hN
  have hN : 0 < N0 := by grind
  have h4 : (0 : Q) < 4 * N0 := by linarith
  obtain ⟨_, _, hm⟩ := RV.bind_ok.1 hm
  obtain ⟨hgroups, hallg, htimes, hnum⟩ := run_setup (N0 := N0) ha hN
  unfold runState at hs
  rw [hgroups] at hs
  unfold Tame'' at ht
  rw [hgroups, ← hnum] at ht
  have hsim0 : Sim2 N0 0 (initState args N0) (initSt pr N0) :=
    ⟨initial_sizeSim args pr N0 ha, initial_migSim args pr N0 ha⟩
  have hflat : Cmd.split 0 i p ∈ ((eventGroups args).map (List.map cmdOfD)).flatten := by
    rw [← hgroups]
    unfold cmdGroups
    rw [List.flatten_splitBy]
    exact List.mem_append_right _ (mem_sortCmd _ _ hmem)
  generalize hK : eventGroups args = K at hm hs ht htimes hallg hflat
  cases K with
  | nil => cases hflat
  | cons g rest =>
    rw [List.foldlM_cons] at hm
    obtain ⟨s1, h1, hm⟩ := RV.bind_ok.1 hm
    rw [List.map_cons, List.foldlM_cons] at hs
    obtain ⟨σ1, hs1, hs⟩ := sbind_ok.1 hs
    rw [List.map_cons] at htimes ht hflat
    obtain ⟨T', hprev, htg, hrest⟩ := htimes
    have hT'0 : 0 ≤ T' := hprev
    simp only [goodGroups12, Bool.and_eq_true] at ht
    obtain ⟨hne, hcmd⟩ := hallg g (List.mem_cons_self ..)
    have htg' : ∀ e ∈ g, 4 * N0 * (cmdOfD e).t = T' := fun e he => htg _ (List.mem_map.mpr ⟨e, he, rfl⟩)
    obtain ⟨gc, hgc, hcgc⟩ := List.mem_flatten.mp hflat
    have hin : Cmd.split 0 i p ∈ g.map cmdOfD := by
      rcases List.mem_cons.mp hgc with rfl | hgc
      · exact hcgc
      · have := times_lt _ T' hrest gc hgc _ hcgc
        have e0 : 4 * N0 * (Cmd.split 0 i p).t = 0 := Rat.mul_zero _
        rw [e0] at this
        exact (Rat.lt_irrefl (lt_of_le_of_lt hT'0 this)).elim
    have hT0 : T' = 0 := by
      rw [← htg _ hin]; exact Rat.mul_zero _
    subst hT0
    obtain ⟨j1, _, j3⟩ := stepGroup_zeroMark (initState_jlt args N0) h1
    have hz1 : ¬ ZeroMark s1 := fun h => hz ((groups_zeroMark rest j1 hm).2.1 h)
    -- no `-ej` in the group
    have hnoj : ∀ c ∈ g.map cmdOfD, isJoinC c = false := by
      intro c hc
      cases hj : isJoinC c with
      | false => rfl
      | true =>
        exfalso
        apply hz1
        obtain ⟨e, he, rfl⟩ := List.mem_map.mp hc
        obtain ⟨k1, k2⟩ := isJoinC_kind hj
        obtain ⟨c1, c2⟩ := cmd_kind (hcmd e he)
        have hje : isJoinEv e = true := by
          rw [c2, ← c1, k2] at k1
          simpa using k1
        apply j3 _ ⟨e, he, hje⟩
        cases g with
        | nil => cases he
        | cons a r =>
          simp only [List.head?_cons, Option.map_some, Option.getD_some]
          have ha' := hcmd a (List.mem_cons_self ..)
          rw [cmdOf_t ha']
          have : (cmdOfD a).t = 0 := by
            have := htg' a (List.mem_cons_self ..)
            rcases Rat.mul_eq_zero.mp this with h | h
            · rw [h] at h4; exact (Rat.lt_irrefl h4).elim
            · exact h
          rw [this]
    obtain ⟨hns, hfr⟩ := good12_parts ht.1
    rcases first_group_zero hsim0.1 (initState_names args N0) hcmd hne htg' hns
        (fun e he => hfr _ (List.mem_map.mpr ⟨e, he, rfl⟩)) (initState_demes args N0) rfl rfl h1 hs1 with ⟨_, hops⟩ | hzz
    · obtain ⟨m, hm1, hm2⟩ := split_op_mem (g.map cmdOfD) (initState args N0).numDemes none hnoj 0 i p hin
      have := (hops (i, m, 1 - p) hm2).2 (by rw [hnum]; exact hi) (by show m ≠ i; rw [hnum] at hm1; omega)
      have e : (1 : Q) - p = 0 := this
      linarith
    · exact (hz1 hzz).elim

/-! ## `from_ms` and `msSem` -/

/-- the movements of the graph are those of the interpreter, given the invariant of the run at the
end of the event loop -/
theorem moves_of_movesInv {c : List String} {N0 : Q} {mg : MsGraph} {sem : DemogSem} {s : BState} {σ : St} {T : Q}
    (h : fromMs c N0 none = .ok mg) (hf : finishDoc N0 s = .ok mg.doc) (he : sem = finishSem σ)
    (hinv : MovesInv T s σ) (hn : NameInv s) :
    ∃ gsem, resultSem mg = .ok gsem ∧ gsem.moves = sem.moves := by
  obtain ⟨args', _, hb⟩ := fromMs_none_ok h
  have hres := (buildGraph_ok hb).2.2
  obtain ⟨hperm, _, _, hnum⟩ := graph_state_views hf hres hn
  obtain ⟨ms, hms, hfil⟩ := graph_moves_eq hinv hn hf hres
  have hname : ∀ d ∈ mg.graph.demes, ∃ i, popId (popNames s.numDemes) d.name = .ok i := by
    intro d hd
    have : viewG d ∈ (s.demes.filter nonTransient).map viewB := hperm.subset (List.mem_map.mpr ⟨d, hd, rfl⟩)
    obtain ⟨b, hb', e⟩ := List.mem_map.mp this
    obtain ⟨j, hj⟩ := List.mem_iff_getElem?.mp (List.mem_filter.mp hb').1
    obtain ⟨hnm, hlt⟩ := name_at hn hj
    have e' : d.name = b.name := by
      have : (viewG d).name = (viewB b).name := by rw [e]
      exact this
    exact ⟨j + 1, by rw [e', hnm]; exact popId_popNamesC _ _ hlt⟩
  have hv := fromMs_valid h
  have hv8 : v8 mg.graph = true := by
    simp only [validGraph, validData, Bool.and_eq_true] at hv
    exact hv.2.1.1.1.1.1.2
  have hmig : ∀ m ∈ mg.graph.migrations, (∃ i, popId (popNames s.numDemes) m.dest = .ok i)
      ∧ ∃ j, popId (popNames s.numDemes) m.source = .ok j := by
    intro m hm
    unfold v8 at hv8
    rw [List.all_eq_true] at hv8
    have := hv8 m hm
    simp only [Bool.and_eq_true] at this
    obtain ⟨_, hmatch⟩ := this
    cases hs' : findDeme mg.graph m.source with
    | none => rw [hs'] at hmatch; cases hmatch
    | some sd =>
      cases hd' : findDeme mg.graph m.dest with
      | none => rw [hs', hd'] at hmatch; cases hmatch
      | some dd =>
        obtain ⟨a1, a2⟩ := find_name hs'
        obtain ⟨b1, b2⟩ := find_name hd'
        exact ⟨by rw [← b2]; exact hname dd b1, by rw [← a2]; exact hname sd a1⟩
  obtain ⟨gsem, hg, hgm⟩ := graphSemWith_ok (sz := mg.size) hname hmig hms
  refine ⟨gsem, ?_, ?_⟩
  · unfold resultSem msGraphSem
    rw [hnum]
    exact hg
  · rw [hgm, hfil, he]
    rfl

/-- **the lineage movements of `from_ms`, on the fragment `Tame''`** (no hypothesis about time 0) -/
theorem fromMs_moves_tame2 {c : List String} {N0 : Q} {mg : MsGraph} {sem : DemogSem} {pr : Parsed}
    (h : fromMs c N0 none = .ok mg) (hsem : msSem c N0 = .ok sem) (hp : parsersAgree c = true)
    (hpr : parse c = .ok pr) (ht : Tame'' pr = true) :
    ∃ gsem, resultSem mg = .ok gsem ∧ gsem.moves = sem.moves := by
  obtain ⟨args, s, hargs, hs, hf⟩ := fromMs_buildState h
  obtain ⟨pr', σ, hpr', hσ, he⟩ := msSem_runState hsem
  rw [hpr] at hpr'
  cases hpr'
  have ha : ArgsAgree args pr := by
    unfold parsersAgree at hp
    rw [hargs, hpr] at hp
    exact argsAgree_of_B hp
  rcases buildState_movesInv2 ha ht hs hσ with ⟨T, hinv, hn⟩ | hz
  · exact moves_of_movesInv h hf he hinv hn
  · exact (not_zeroMark_of_ok h hargs hs hz).elim

/-- **C08 on the fragment `Tame''`**: both demographies exist and are equivalent -/
theorem fromMs_sem_tame2 {c : List String} {N0 : Q} {mg : MsGraph} {sem : DemogSem} {pr : Parsed}
    (h : fromMs c N0 none = .ok mg) (hsem : msSem c N0 = .ok sem) (hp : parsersAgree c = true)
    (hpr : parse c = .ok pr) (ht : Tame'' pr = true) :
    SemAgree (msSem c N0) (resultSem mg) = true := by
  obtain ⟨gsem, hg, hm⟩ := fromMs_moves_tame2 h hsem hp hpr ht
  obtain ⟨rs, hrs, hsm⟩ := fromMs_sizes_migs_sem_total h hsem hp
  rw [hg] at hrs
  cases hrs
  rw [hsem, hg]
  show semEquiv sem gsem = true
  rw [semEquiv_split, hsm, hm]
  simp

/-! ## the statements about time 0 -/

/-- **`from_ms` rejects every command with an `-ej` at time 0**, with or without `deme_names` -/
theorem fromMs_rejects_join_at_zero {c : List String} {N0 : Q} {args : Args} (names : Option (List String))
    (hargs : parseKnownArgs c = .ok args)
    (hj : ∃ e ∈ args.demographicEvents, isJoinEv e = true ∧ e.t = .fin 0) :
    ∃ err, fromMs c N0 names = .error err := by
  obtain ⟨err, herr⟩ := fromMs_rejects_join_at_zero_none (N0 := N0) hargs hj
  cases names with
  | none => exact ⟨err, herr⟩
  | some ns =>
    cases h : fromMs c N0 (some ns) with
    | error e => exact ⟨e, rfl⟩
    | ok mg' =>
      obtain ⟨mg, hmg, _⟩ := fromMs_names_checked h
      rw [herr] at hmg
      cases hmg

/-- an `-ej` at time 0 of the interpreter's parse is one of argparse's parse -/
theorem join_zero_event {args : Args} {pr : Parsed} (ha : ArgsAgree args pr) {i j : Nat}
    (hmem : Cmd.join 0 i j ∈ pr.events) : ∃ e ∈ args.demographicEvents, isJoinEv e = true ∧ e.t = .fin 0 := by
  have h1 : some (Cmd.join 0 i j) ∈ args.demographicEvents.map cmdOf := by
    rw [ha.events]; exact List.mem_map.mpr ⟨_, hmem, rfl⟩
  obtain ⟨e, he, hce⟩ := List.mem_map.mp h1
  have hd : cmdOfD e = Cmd.join 0 i j := by unfold cmdOfD; rw [hce]; rfl
  have hc : HasCmd e := by unfold HasCmd; rw [hd]; exact hce
  obtain ⟨c1, c2⟩ := cmd_kind hc
  rw [hd] at c1 c2
  refine ⟨e, he, ?_, ?_⟩
  · have c1' : isSplit e = false := c1.symm
    rw [c1'] at c2
    have c3 : isMove (Cmd.join 0 i j) = isJoinEv e := by simpa using c2
    exact c3.symm
  · rw [cmdOf_t hce]; rfl

/-- the same with the interpreter's parse of the command, when the two parsers agree -/
theorem fromMs_rejects_join_at_zero_parsed {c : List String} {N0 : Q} {pr : Parsed} (names : Option (List String))
    (hp : parsersAgree c = true) (hpr : parse c = .ok pr) {i j : Nat} (hmem : Cmd.join 0 i j ∈ pr.events) :
    ∃ err, fromMs c N0 names = .error err := by
  unfold parsersAgree at hp
  cases hargs : parseKnownArgs c with
  | error e => rw [hargs] at hp; cases hp
  | ok args =>
    rw [hargs, hpr] at hp
    exact fromMs_rejects_join_at_zero names hargs (join_zero_event (argsAgree_of_B hp) hmem)

/-- **what an accepted command of the fragment `Tame''` has at time 0**: no `-ej`, and every `-es` of an
initial population has `p = 1` -/
theorem fromMs_zero_partial {c : List String} {N0 : Q} {mg : MsGraph} {sem : DemogSem} {pr : Parsed}
    (h : fromMs c N0 none = .ok mg) (hsem : msSem c N0 = .ok sem) (hp : parsersAgree c = true)
    (hpr : parse c = .ok pr) (ht : Tame'' pr = true) :
    (∀ i j, Cmd.join 0 i j ∉ pr.events) ∧ (∀ i p, Cmd.split 0 i p ∈ pr.events → i ≤ pr.npop → p = 1) := by
  obtain ⟨args, s, hargs, hs, hf⟩ := fromMs_buildState h
  obtain ⟨pr', σ, hpr', hσ, he⟩ := msSem_runState hsem
  rw [hpr] at hpr'
  cases hpr'
  have ha : ArgsAgree args pr := by
    unfold parsersAgree at hp
    rw [hargs, hpr] at hp
    exact argsAgree_of_B hp
  constructor
  · intro i j hmem
    obtain ⟨err, herr⟩ := fromMs_rejects_join_at_zero (N0 := N0) none hargs (join_zero_event ha hmem)
    rw [herr] at h
    cases h
  · intro i p hmem hi
    exact zero_splits ha ht hs hσ (not_zeroMark_of_ok h hargs hs) 0 i p hmem rfl hi

/-- `Tame'` is the special case -/
theorem tame2_of_tame : ∀ (K : List (List Cmd)) (n : Nat), goodGroups n K = true → goodGroups12 n K = true := by
  intro K
  induction K with
  | nil => intro _ _; rfl
  | cons g rest ih =>
    intro n h
    simp only [goodGroups, Bool.and_eq_true] at h
    simp only [goodGroups12, Bool.and_eq_true]
    refine ⟨?_, ih _ h.2⟩
    have := h.1
    unfold GoodGroup at this
    unfold GoodGroup12
    simp only [Bool.and_eq_true] at this ⊢
    exact this.1

end Demes.Proofs.FromMs
