/-
  C08 — deme `k` is population `k`.

  * `resolve_doc_names`: `Demes.resolve` keeps the demes of the document handed over by
    `build_graph`, in order and by name;
  * `buildDoc_names`: the Builder's deme `j` is called `deme{j+1}` throughout the event loop;
    `_remove_transient_demes` drops some of them and `_sort_demes_by_ancestry` permutes the
    rest (stable sort on the start time, oldest first).
-/
import DemesVerif.Proofs.FromMsValid
import DemesVerif.Proofs.FillDoc
import DemesVerif.Proofs.FillDeme
import DemesVerif.Proofs.FromMsStep
import Mathlib.Data.List.SplitBy
namespace Demes.Proofs.FromMs
open Demes Demes.Ms Demes.Spec

/-! ## `resolve` keeps the demes of the document -/

/-- the `name` entry of a deme object -/
def objName (o : Obj) : String :=
  match Obj.lookup "name" o with
  | some (.str s) => s
  | _ => ""

theorem resolveDeme_name {DD GE : Obj} {g g' : Graph} {o : Obj} (h : resolveDeme DD GE g o = .ok g') :
    g'.demes.map (·.name) = g.demes.map (·.name) ++ [objName o] := by
  obtain ⟨nameV, d, _, _, _, eps, hname, _, hd, _, _, _, _, hg⟩ := Proofs.resolveDeme_ok h
  obtain ⟨hn, _⟩ := addDemeHeader_spec hd
  rw [hg, List.map_append]
  unfold objName
  rw [hname, hn]
  rfl

theorem demeLoop_names {DD GE : Obj} : ∀ (xs : List Obj) (g g' : Graph),
    xs.foldlM (resolveDeme DD GE) g = .ok g' →
    g'.demes.map (·.name) = g.demes.map (·.name) ++ xs.map objName := by
  intro xs
  induction xs with
  | nil => intro g g' h; cases h; simp
  | cons x xs ih =>
    intro g g' h
    rw [List.foldlM_cons] at h
    obtain ⟨g1, h1, h2⟩ := Proofs.bind_ok h
    rw [ih g1 g' h2, resolveDeme_name h1]
    simp

/-- same demes and same name index -/
def SameDI (g' g : Graph) : Prop := g'.demes = g.demes ∧ g'.index = g.index

theorem SameDI.trans {a b c : Graph} (h1 : SameDI a b) (h2 : SameDI b c) : SameDI a c :=
  ⟨h1.1.trans h2.1, h1.2.trans h2.2⟩

theorem SameDI.v0 {a b : Graph} (h : SameDI a b) (h0 : v0 b = true) : v0 a = true := by
  unfold Spec.v0 at h0 ⊢
  rw [h.1, h.2]; exact h0

theorem addAsymmetricMigration_demes {g g' : Graph} {sourceV destV rateV : Value}
    {startTimeV endTimeV : Option Value}
    (h : addAsymmetricMigration g sourceV destV rateV startTimeV endTimeV = .ok g') : SameDI g' g := by
  obtain ⟨m, s, d, rfl, _⟩ := RV.addAsymmetricMigration_ok h
  exact ⟨rfl, rfl⟩

theorem addSymmetricMigration_demes {g g' : Graph} {demesV rateV : Value}
    {startTimeV endTimeV : Option Value}
    (h : addSymmetricMigration g demesV rateV startTimeV endTimeV = .ok g') : SameDI g' g := by
  unfold addSymmetricMigration at h
  extract_lets jp at h
  have h1 : ∃ names, jp names = .ok g' := by
    cases demesV with
    | list xs =>
      dsimp only at h
      split at h
      · exact (RV.valueErr_bind_ok.1 h).elim
      · exact ⟨xs, RV.pbind h⟩
    | _ => exact (RV.valueErr_bind_ok.1 h).elim
  clear h
  obtain ⟨names, h⟩ := h1
  dsimp only [jp] at h
  exact RV.foldlM_inv (fun s => SameDI s g) _
    (fun s a s' hs hst => (addAsymmetricMigration_demes hst).trans hs) _ _ _ ⟨rfl, rfl⟩ h

theorem resolveMigration_demes {md : Obj} {g g' : Graph} {m : Obj}
    (h : resolveMigration md g m = .ok g') : SameDI g' g := by
  unfold resolveMigration at h
  obtain ⟨_, _, h⟩ := RV.bind_ok.1 h
  extract_lets m1 jp1 at h
  have h1 : ∃ rateV, jp1 rateV = .ok g' := by
    cases hl : Obj.lookup "rate" m1 with
    | some v => rw [hl] at h; exact ⟨v, RV.pbind h⟩
    | none => rw [hl] at h; exact (RV.keyErr_bind_ok.1 h).elim
  clear h
  obtain ⟨rateV, h⟩ := h1
  dsimp only [jp1] at h
  split at h
  · exact addSymmetricMigration_demes h
  · exact addAsymmetricMigration_demes h
  · exact (RV.keyErr_ok.1 h).elim

theorem resolvePulse_demes {pd : Obj} {g g' : Graph} {p : Obj} (h0 : v0 g = true)
    (h : resolvePulse pd g p = .ok g') : v0 g' = true ∧ g'.demes = g.demes := by
  unfold resolvePulse at h
  obtain ⟨_, _, h⟩ := RV.bind_ok.1 h
  extract_lets p1 at h
  split at h
  · obtain ⟨q, rfl, _⟩ := RV.addPulse_ok h0 h
    exact ⟨h0, rfl⟩
  · exact (RV.keyErr_ok.1 h).elim

/-- the demes of a resolved graph are, by name and in order, the deme objects of the document -/
theorem resolve_names {dataV : Value} {g : Graph} (h : resolve dataV = .ok g) :
    ∃ data demesList, dataV = .obj data ∧ popObjList data "demes" none = .ok demesList
      ∧ g.demes.map (·.name) = demesList.map objName := by
  obtain ⟨data, _, DD, MD, PD, GE, g0, demesList, g1, migs, g2, pulses, g3, hd, _, _, _, _, _, hg0, hdl,
    hg1, _, hg2, _, hg3, rfl⟩ := Proofs.resolve_ok h
  refine ⟨data, demesList, hd, hdl, ?_⟩
  have e1 := demeLoop_names demesList g0 g1 hg1
  rw [(RV.resolveHeader_ok hg0).2.1] at e1
  have i1 : RV.Inv2 g1 :=
    RV.foldlM_inv RV.Inv2 _ (fun s a s' hs hst => (RV.resolveDeme_inv hs hst).1) _ _ _ (RV.Inv2_header hg0) hg1
  have e2 : SameDI g2 g1 :=
    RV.foldlM_inv (fun s => SameDI s g1) _
      (fun s a s' hs hst => (resolveMigration_demes hst).trans hs) _ _ _ ⟨rfl, rfl⟩ hg2
  have e3 : v0 g3 = true ∧ g3.demes = g2.demes :=
    RV.foldlM_inv (fun s => v0 s = true ∧ s.demes = g2.demes) _
      (fun s a s' hs hst => ⟨(resolvePulse_demes hs.1 hst).1, (resolvePulse_demes hs.1 hst).2.trans hs.2⟩)
      _ _ _ ⟨e2.v0 i1.d.h0, rfl⟩ hg3
  show g3.demes.map (·.name) = _
  rw [e3.2, e2.1, e1]
  rfl

/-! ## the document handed to `resolve` -/

theorem mapM_instObj_objs (os : List Obj) : (os.map Value.obj).mapM instObj = .ok os := by
  induction os with
  | nil => rfl
  | cons o os ih => rw [List.map_cons, List.mapM_cons, ih]; rfl

/-- the object of a Builder deme -/
def demeObj (tab : List (Sz × Q)) (d : BDeme) : Obj :=
  [("name", .str d.name), ("start_time", tV d.startTime),
   ("epochs", .list (d.epochs.map (BEpoch.toValue tab)))]
  ++ (match d.ancestors with | some a => [("ancestors", .list (a.map .str))] | none => [])
  ++ (match d.proportions with | some p => [("proportions", .list (p.map nV))] | none => [])

theorem toValue_eq (tab : List (Sz × Q)) (d : BDeme) : BDeme.toValue tab d = .obj (demeObj tab d) := rfl

theorem objName_demeObj (tab : List (Sz × Q)) (d : BDeme) : objName (demeObj tab d) = d.name := by
  unfold objName demeObj
  simp [Obj.lookup]

/-- the object of the whole document -/
def docObj (tab : List (Sz × Q)) (doc : MsDoc) : Obj :=
  [("time_units", .str "generations"), ("demes", .list (doc.demes.map (BDeme.toValue tab))),
   ("migrations", .list (doc.migrations.map BMigration.toValue))]
  ++ (match doc.pulses with | some ps => [("pulses", .list (ps.map BPulse.toValue))] | none => [])

theorem docToValue_eq (tab : List (Sz × Q)) (doc : MsDoc) : doc.toValue tab = .obj (docObj tab doc) := rfl

theorem popObjList_demes (tab : List (Sz × Q)) (doc : MsDoc) :
    popObjList (docObj tab doc) "demes" none = .ok (doc.demes.map (demeObj tab)) := by
  unfold popObjList docObj
  have : Obj.lookup "demes" ([("time_units", Value.str "generations"),
      ("demes", Value.list (doc.demes.map (BDeme.toValue tab))),
      ("migrations", Value.list (doc.migrations.map BMigration.toValue))]
      ++ (match doc.pulses with | some ps => [("pulses", Value.list (ps.map BPulse.toValue))] | none => []))
      = some (Value.list (doc.demes.map (BDeme.toValue tab))) := by
    simp [Obj.lookup]
  rw [this]
  simp only [instList]
  have e : doc.demes.map (BDeme.toValue tab) = (doc.demes.map (demeObj tab)).map Value.obj := by
    rw [List.map_map]; rfl
  show (pure (doc.demes.map (BDeme.toValue tab)) >>= fun xs => xs.mapM instObj) = _
  rw [e]
  exact mapM_instObj_objs _

/-- `resolve` keeps the demes of the document of `build_graph`, by name and in order -/
theorem resolve_doc_names {tab : List (Sz × Q)} {doc : MsDoc} {g : Graph}
    (h : resolve (doc.toValue tab) = .ok g) : g.demes.map (·.name) = doc.demes.map (·.name) := by
  obtain ⟨data, demesList, hd, hdl, hn⟩ := resolve_names h
  rw [docToValue_eq] at hd
  injection hd with hd
  subst hd
  rw [popObjList_demes] at hdl
  injection hdl with hdl
  subst hdl
  rw [hn, List.map_map]
  exact List.map_congr_left (fun d _ => objName_demeObj tab d)

/-! ## the Builder's deme `j` is called `deme{j+1}` -/

/-- the name invariant of the event loop -/
def NameInv (s : BState) : Prop := s.demes.map (·.name) = (List.range s.numDemes).map Ms.demeName

theorem names_pointwise {l l' : List BDeme} (hl : l'.length = l.length)
    (h : ∀ (i : Nat) (d : BDeme), l[i]? = some d → ∃ d' : BDeme, l'[i]? = some d' ∧ d'.name = d.name) :
    l'.map (·.name) = l.map (·.name) := by
  apply List.ext_getElem?
  intro i
  rw [List.getElem?_map, List.getElem?_map]
  cases hd : l[i]? with
  | none =>
    have : l'[i]? = none := by
      rw [List.getElem?_eq_none_iff] at hd ⊢; omega
    rw [this]
  | some d =>
    obtain ⟨d', hd', hn⟩ := h i d hd
    rw [hd']; simp [hn]

theorem forLive_names {s s' : BState} {f : BDeme → Except Err BDeme}
    (hf : ∀ d d', f d = .ok d' → d'.name = d.name) (h : forLiveDemes s f = .ok s') :
    s'.demes.map (·.name) = s.demes.map (·.name) ∧ s'.numDemes = s.numDemes := by
  obtain ⟨he, hl, hi⟩ := forLiveDemes_ok h
  refine ⟨names_pointwise hl ?_, by rw [he]⟩
  intro i d hd
  obtain ⟨d', hd', hc⟩ := hi i d hd
  refine ⟨d', hd', ?_⟩
  split at hc
  · rw [hc]
  · exact hf d d' hc

theorem modifyDeme_names {s s' : BState} {pid : Nat} {f : BDeme → Except Err BDeme}
    (hf : ∀ d d', f d = .ok d' → d'.name = d.name) (h : modifyDeme s pid f = .ok s') :
    s'.demes.map (·.name) = s.demes.map (·.name) ∧ s'.numDemes = s.numDemes := by
  obtain ⟨d, d', hd, hfd, rfl⟩ := modifyDeme_ok h
  refine ⟨names_pointwise (by simp) ?_, rfl⟩
  intro i e he
  show ∃ e', (s.demes.set pid d')[i]? = some e' ∧ e'.name = e.name
  rw [List.getElem?_set]
  by_cases hp : pid = i
  · subst hp
    have hlt : pid < s.demes.length := by
      by_contra hge
      rw [List.getElem?_eq_none_iff.mpr (by omega)] at hd; cases hd
    rw [hd] at he
    cases he
    simp [hlt, hf d d' hfd]
  · simp [hp, he]

theorem stepEvent_names {N0 time : Q} {s s' : BState} {g g' : GState} {ev : Event Num}
    (hinv : NameInv s) (h : stepEvent N0 time (s, g) ev = .ok (s', g')) : NameInv s' := by
  unfold NameInv at hinv ⊢
  cases ev with
  | growthRateChange o t alpha =>
    rw [stepEvent_growthAll] at h
    obtain ⟨a, _, h⟩ := RV.bind_ok.1 h
    obtain ⟨s1, h1, h⟩ := RV.bind_ok.1 h
    cases h
    obtain ⟨e1, e2⟩ := forLive_names (fun d d' hd => (updGrowth_header hd).1) h1
    rw [e1, e2, hinv]
  | popGrowthRateChange o t i alpha =>
    rw [stepEvent_growth] at h
    obtain ⟨pid, _, h⟩ := RV.bind_ok.1 h
    obtain ⟨a, _, h⟩ := RV.bind_ok.1 h
    obtain ⟨s1, h1, h⟩ := RV.bind_ok.1 h
    cases h
    obtain ⟨e1, e2⟩ := modifyDeme_names (fun d d' hd => (updGrowth_header hd).1) h1
    rw [e1, e2, hinv]
  | sizeChange o t x =>
    rw [stepEvent_sizeAll] at h
    obtain ⟨a, _, h⟩ := RV.bind_ok.1 h
    obtain ⟨s1, h1, h⟩ := RV.bind_ok.1 h
    cases h
    obtain ⟨e1, e2⟩ := forLive_names (fun d d' hd => (updSize_header hd).1) h1
    rw [e1, e2, hinv]
  | popSizeChange o t i x =>
    rw [stepEvent_size] at h
    obtain ⟨pid, _, h⟩ := RV.bind_ok.1 h
    obtain ⟨a, _, h⟩ := RV.bind_ok.1 h
    obtain ⟨s1, h1, h⟩ := RV.bind_ok.1 h
    cases h
    obtain ⟨e1, e2⟩ := modifyDeme_names (fun d d' hd => (updSize_header hd).1) h1
    rw [e1, e2, hinv]
  | migRateChange o t x =>
    rw [stepEvent_migAll] at h
    cases h
    rw [(migAllState_frame s time x).1, (migAllState_frame s time x).2.1, hinv]
  | migEntryChange o t i j rate =>
    rw [stepEvent_migEntry] at h
    obtain ⟨pi, _, h⟩ := RV.bind_ok.1 h
    obtain ⟨pj, _, h⟩ := RV.bind_ok.1 h
    split at h
    · exact (RV.valueErr_bind_ok.1 h).elim
    · cases h
      rw [(migEntryState_frame s time pi pj rate).1, (migEntryState_frame s time pi pj rate).2.1, hinv]
  | migMatrixChange o t npop mm =>
    rw [stepEvent_migMatrix] at h
    dsimp only at h
    generalize (if o = "-ma" then (s.numDemes : Int) else npop) = np at h
    split at h
    · exact (RV.valueErr_bind_ok.1 h).elim
    · obtain ⟨m, _, h⟩ := RV.bind_ok.1 h
      cases h
      rw [(migMatrixState_frame s time m).1, (migMatrixState_frame s time m).2.1, hinv]
  | join o t i j =>
    rw [stepEvent_join] at h
    obtain ⟨pi, _, h⟩ := RV.bind_ok.1 h
    obtain ⟨pj, _, h⟩ := RV.bind_ok.1 h
    obtain ⟨s1, h1, h⟩ := RV.bind_ok.1 h
    cases h
    obtain ⟨e1, e2⟩ := modifyDeme_names (f := joinDeme time pj) (fun d d' hd => by rw [joinDeme_ok hd]) h1
    show (joinMatrix s1 time pi).demes.map _ = (List.range (joinMatrix s1 time pi).numDemes).map _
    rw [(joinMatrix_frame s1 time pi).1, (joinMatrix_frame s1 time pi).2.1, e1, e2, hinv]
  | split o t i p =>
    rw [stepEvent_split] at h
    obtain ⟨pid, _, h⟩ := RV.bind_ok.1 h
    obtain ⟨q, _, h⟩ := RV.bind_ok.1 h
    split at h
    · exact (assertionErr_bind_ok.1 h).elim
    · cases h
      show (s.demes ++ [newDeme N0 time s.numDemes]).map _ = (List.range (s.numDemes + 1)).map _
      rw [List.map_append, hinv, List.range_succ, List.map_append]
      rfl

theorem applyParams_frame (time : Q) (s : BState) (g : GState) :
    (applyParams time s g).demes.map (·.name) = s.demes.map (·.name)
    ∧ (applyParams time s g).numDemes = s.numDemes := by
  unfold applyParams
  generalize g.params = ps
  induction ps generalizing s with
  | nil => exact ⟨rfl, rfl⟩
  | cons x ps ih =>
    rw [List.foldl_cons]
    obtain ⟨j, k, p⟩ := x
    dsimp only
    split
    · exact ih s
    · split
      · obtain ⟨e1, e2⟩ := ih { s with demes := s.demes.modify j _ }
        rw [e1, e2]
        refine ⟨?_, rfl⟩
        apply names_pointwise (by simp)
        intro i d hd
        show ∃ d', (s.demes.modify j _)[i]? = some d' ∧ d'.name = d.name
        rw [List.getElem?_modify]
        by_cases hj : j = i
        · simp [hj, hd]
        · simp [hj, hd]
      · exact ih { s with pulses := _ }

theorem stepGroup_names {N0 : Q} {s s' : BState} {group : List (Event Num)}
    (hinv : NameInv s) (h : stepGroup N0 s group = .ok s') : NameInv s' := by
  unfold stepGroup at h
  obtain ⟨t, _, h⟩ := RV.bind_ok.1 h
  dsimp only at h
  obtain ⟨sg, hsg, h⟩ := RV.bind_ok.1 h
  obtain ⟨s1, g1⟩ := sg
  cases h
  have h1 : NameInv s1 :=
    RV.foldlM_inv (fun (sg : BState × GState) => NameInv sg.1) _
      (fun a ev b ha hst => by
        obtain ⟨a1, a2⟩ := a
        obtain ⟨b1, b2⟩ := b
        exact stepEvent_names ha hst) _ _ _ hinv hsg
  unfold NameInv at h1 ⊢
  rw [(applyParams_frame _ s1 g1).1, (applyParams_frame _ s1 g1).2, h1]

theorem initState_names (args : Args) (N0 : Q) : NameInv (initState args N0) := by
  unfold NameInv initState
  simp only [List.map_map]
  rfl

theorem buildState_names {args : Args} {N0 : Q} {s : BState} (h : buildState args N0 = .ok s) : NameInv s := by
  unfold buildState at h
  split at h
  · exact (RV.valueErr_bind_ok.1 h).elim
  · obtain ⟨_, _, h⟩ := RV.bind_ok.1 h
    exact RV.foldlM_inv NameInv _ (fun a gr b ha hst => stepGroup_names ha hst) _ _ _ (initState_names args N0) h

theorem mapM_pointwise {α β} {f : α → Except Err β} : ∀ {l : List α} {l' : List β}, l.mapM f = .ok l' →
    l'.length = l.length ∧ ∀ (i : Nat) (d : α), l[i]? = some d → ∃ d' : β, l'[i]? = some d' ∧ f d = .ok d' := by
  intro l
  induction l with
  | nil => intro l' h; cases h; exact ⟨rfl, fun i d hd => by simp at hd⟩
  | cons x l ih =>
    intro l' h
    rw [List.mapM_cons] at h
    obtain ⟨y, hy, h⟩ := RV.bind_ok.1 h
    obtain ⟨ys, hys, h⟩ := RV.bind_ok.1 h
    cases h
    obtain ⟨hl, hi⟩ := ih hys
    refine ⟨by simp [hl], ?_⟩
    intro i d hd
    cases i with
    | zero => simp only [List.getElem?_cons_zero, Option.some.injEq] at hd; subst hd; exact ⟨y, rfl, hy⟩
    | succ i => simp only [List.getElem?_cons_succ] at hd ⊢; exact hi i d hd

theorem finaliseGrowth_header {d d' : BDeme} (h : finaliseGrowth d = .ok d') : SameHeader d' d := by
  unfold finaliseGrowth at h
  split at h
  · cases h
  · dsimp only at h
    split at h
    · split at h
      · cases h
      · cases h; exact ⟨rfl, rfl, rfl, rfl⟩
    · cases h; exact ⟨rfl, rfl, rfl, rfl⟩

theorem insertBy_perm {α} (le : α → α → Bool) (x : α) (l : List α) : (insertBy le x l).Perm (x :: l) := by
  induction l with
  | nil => exact List.Perm.refl _
  | cons y ys ih =>
    unfold insertBy
    split
    · exact List.Perm.refl _
    · exact (List.Perm.cons y ih).trans (List.Perm.swap x y ys)

theorem sortBy_perm {α} (le : α → α → Bool) (l : List α) : (sortBy le l).Perm l := by
  unfold sortBy
  induction l with
  | nil => exact List.Perm.refl _
  | cons x xs ih => exact (insertBy_perm le x _).trans (List.Perm.cons x ih)

theorem removeTransientDemes_ok {doc doc' : MsDoc} (h : removeTransientDemes doc = .ok doc') :
    doc'.demes.Sublist doc.demes ∧ doc' = { doc with demes := doc'.demes } := by
  unfold removeTransientDemes at h
  split at h
  · exact (assertionErr_bind_ok.1 h).elim
  · obtain ⟨demes, hd, h⟩ := RV.bind_ok.1 h
    cases h
    refine ⟨?_, rfl⟩
    refine RV.foldlM_inv (fun (cur : List BDeme) => cur.Sublist doc.demes) _ ?_ _ _ _ (List.Sublist.refl _) hd
    intro cur d cur' hc hst
    dsimp only at hst
    split at hst
    · cases hst; exact hc
    · split at hst
      · cases hst; exact hc
      · split at hst
        · have hfin : cur' = List.filter (fun o => decide (o.name ≠ d.name)) cur := by
            repeat' split at hst
            all_goals first
              | exact (assertionErr_bind_ok.1 hst).elim
              | (rw [RV.pure_ok] at hst; exact hst.symm)
          rw [hfin]
          exact (List.filter_sublist).trans hc
        · cases hst; exact hc

/-- the demes of the document: some of `deme1 … deme{numPops}`, each at most once, reordered by
the stable sort on the start time -/
theorem buildDoc_names {args : Args} {N0 : Q} {doc : MsDoc} (h : buildDoc args N0 = .ok doc) :
    ∃ ks : List Nat, ks.Sublist (List.range doc.numPops)
      ∧ (doc.demes.map (·.name)).Perm (ks.map Ms.demeName) := by
  rw [buildDoc_eq] at h
  obtain ⟨s, hs, h⟩ := RV.bind_ok.1 h
  have hn := buildState_names hs
  unfold finishDoc at h
  obtain ⟨demes, hdemes, h⟩ := RV.bind_ok.1 h
  obtain ⟨migs, _, h⟩ := RV.bind_ok.1 h
  dsimp only at h
  obtain ⟨doc1, hdoc1, h⟩ := RV.bind_ok.1 h
  cases h
  obtain ⟨hsub, hrest⟩ := removeTransientDemes_ok hdoc1
  have hnames : demes.map (·.name) = (List.range s.numDemes).map Ms.demeName := by
    obtain ⟨hl, hi⟩ := mapM_pointwise hdemes
    rw [← hn]
    exact names_pointwise hl (fun i d hd => by
      obtain ⟨d', hd', hf⟩ := hi i d hd
      exact ⟨d', hd', (finaliseGrowth_header hf).1⟩)
  have hsub2 : (doc1.demes.map (·.name)).Sublist ((List.range s.numDemes).map Ms.demeName) := by
    rw [← hnames]; exact hsub.map _
  obtain ⟨ks, hks, hkeq⟩ := List.sublist_map_iff.mp hsub2
  refine ⟨ks, ?_, ?_⟩
  · show ks.Sublist (List.range doc1.numPops)
    rw [hrest]; exact hks
  · show ((sortDemesByAncestry doc1.demes).map (·.name)).Perm _
    rw [← hkeq]
    exact (sortBy_perm _ _).map _

/-! ## `_sort_demes_by_ancestry` is a stable sort on the start time, oldest first -/

theorem etime_le_trans {a b c : ETime} (h1 : a ≤ b) (h2 : b ≤ c) : a ≤ c := by
  cases a <;> cases b <;> cases c <;>
    first | trivial | exact Rat.le_trans h1 h2 | exact False.elim h1 | exact False.elim h2

theorem etime_le_of_lt {a b : ETime} (h : a < b) : a ≤ b := by
  cases a <;> cases b <;> first | trivial | exact Rat.le_of_lt h | exact False.elim h

theorem etime_lt_ne {a b : ETime} (h : a < b) : a ≠ b := by
  intro e
  subst e
  cases a
  · exact absurd h Rat.lt_irrefl
  · exact False.elim h

/-- the comparison of `_sort_demes_by_ancestry` -/
def startLe (a b : BDeme) : Bool := decide (b.startTime ≤ a.startTime)

theorem insertBy_start_filter (x : BDeme) (qs : List BDeme) (k : ETime) :
    (insertBy startLe x qs).filter (fun a => a.startTime = k) = (x :: qs).filter (fun a => a.startTime = k) := by
  induction qs with
  | nil => rfl
  | cons q qs ih =>
    simp only [insertBy]
    split
    · rfl
    · rename_i hq
      rw [List.filter_cons, ih]
      have hlt : x.startTime < q.startTime := RV.etime_not_le (by simpa [startLe] using hq)
      by_cases hp : x.startTime = k
      · have hqk : q.startTime ≠ k := by
          intro e; exact etime_lt_ne hlt (hp.trans e.symm)
        simp [hp, hqk]
      · simp [List.filter_cons, hp]

theorem insertBy_start_sorted (x : BDeme) (qs : List BDeme)
    (h : qs.Pairwise (fun a b => b.startTime ≤ a.startTime)) :
    (insertBy startLe x qs).Pairwise (fun a b => b.startTime ≤ a.startTime) := by
  induction qs with
  | nil => exact List.pairwise_singleton _ _
  | cons q qs ih =>
    simp only [insertBy]
    rw [List.pairwise_cons] at h
    split
    · rename_i hq
      have hqx : q.startTime ≤ x.startTime := by simpa [startLe] using hq
      refine List.pairwise_cons.mpr ⟨?_, List.pairwise_cons.mpr h⟩
      intro b hb
      rcases List.mem_cons.mp hb with rfl | hb
      · exact hqx
      · exact etime_le_trans (h.1 b hb) hqx
    · rename_i hq
      have hlt : x.startTime < q.startTime := RV.etime_not_le (by simpa [startLe] using hq)
      refine List.pairwise_cons.mpr ⟨?_, ih h.2⟩
      intro b hb
      rcases List.mem_cons.mp ((insertBy_perm startLe x qs).mem_iff.mp hb) with rfl | hb
      · exact etime_le_of_lt hlt
      · exact h.1 b hb

theorem sortDemesByAncestry_stable (ds : List BDeme) :
    C08.StableSortedDescE (fun d : BDeme => d.startTime) ds (sortDemesByAncestry ds) := by
  show C08.StableSortedDescE (fun d : BDeme => d.startTime) ds (sortBy startLe ds)
  induction ds with
  | nil => exact ⟨List.Perm.refl _, List.Pairwise.nil, fun _ => rfl⟩
  | cons d ds ih =>
    have hs : sortBy startLe (d :: ds) = insertBy startLe d (sortBy startLe ds) := rfl
    rw [hs]
    refine ⟨?_, insertBy_start_sorted _ _ ih.sorted, ?_⟩
    · exact (insertBy_perm _ _ _).trans (List.Perm.cons d ih.perm)
    · intro k
      rw [insertBy_start_filter, List.filter_cons, List.filter_cons, ih.stable k]

/-- the demes of the document: the surviving Builder demes `ds` — populations `ks`, in
increasing order, named `deme{k+1}` — stably sorted by start time, oldest first -/
theorem buildDoc_order {args : Args} {N0 : Q} {doc : MsDoc} (h : buildDoc args N0 = .ok doc) :
    ∃ (ks : List Nat) (ds : List BDeme), ks.Sublist (List.range doc.numPops)
      ∧ ds.map (·.name) = ks.map Ms.demeName
      ∧ C08.StableSortedDescE (fun d : BDeme => d.startTime) ds doc.demes := by
  rw [buildDoc_eq] at h
  obtain ⟨s, hs, h⟩ := RV.bind_ok.1 h
  have hn := buildState_names hs
  unfold finishDoc at h
  obtain ⟨demes, hdemes, h⟩ := RV.bind_ok.1 h
  obtain ⟨migs, _, h⟩ := RV.bind_ok.1 h
  dsimp only at h
  obtain ⟨doc1, hdoc1, h⟩ := RV.bind_ok.1 h
  cases h
  obtain ⟨hsub, hrest⟩ := removeTransientDemes_ok hdoc1
  have hnames : demes.map (·.name) = (List.range s.numDemes).map Ms.demeName := by
    obtain ⟨hl, hi⟩ := mapM_pointwise hdemes
    rw [← hn]
    exact names_pointwise hl (fun i d hd => by
      obtain ⟨d', hd', hf⟩ := hi i d hd
      exact ⟨d', hd', (finaliseGrowth_header hf).1⟩)
  have hsub2 : (doc1.demes.map (·.name)).Sublist ((List.range s.numDemes).map Ms.demeName) := by
    rw [← hnames]; exact hsub.map _
  obtain ⟨ks, hks, hkeq⟩ := List.sublist_map_iff.mp hsub2
  refine ⟨ks, doc1.demes, ?_, hkeq, sortDemesByAncestry_stable doc1.demes⟩
  show ks.Sublist (List.range doc1.numPops)
  rw [hrest]; exact hks

/-! ## the theorems -/

/-- **deme `k` is population `k`.**  The demes of the graph are, in order and by name, those of
the document `build_graph` hands to `resolve`; these are the surviving Builder demes — some
populations `ks` out of `0 … numPops-1`, each once, the deme of population `k` (0-based) being
called `deme{k+1}` — stably sorted by start time, oldest first (so population order is kept among
demes with the same start time, e.g. all the initial populations come first, in order). -/
theorem fromMs_deme_k_is_population_k {c : List String} {N0 : Q} {mg : MsGraph}
    (h : fromMs c N0 none = .ok mg) :
    ∃ (ks : List Nat) (ds : List BDeme), ks.Sublist (List.range mg.doc.numPops)
      ∧ ds.map (·.name) = ks.map Ms.demeName
      ∧ C08.StableSortedDescE (fun d : BDeme => d.startTime) ds mg.doc.demes
      ∧ mg.graph.demes.map (·.name) = mg.doc.demes.map (·.name)
      ∧ (mg.graph.demes.map (·.name)).Perm (ks.map Ms.demeName) := by
  obtain ⟨args, _, hb⟩ := fromMs_none_ok h
  obtain ⟨hdoc, _, hres⟩ := buildGraph_ok hb
  obtain ⟨ks, ds, hks, hds, hst⟩ := buildDoc_order hdoc
  have hn := resolve_doc_names hres
  refine ⟨ks, ds, hks, hds, hst, hn, ?_⟩
  rw [hn, ← hds]
  exact hst.perm.map _

/-- the entry of the name map for population `k` -/
theorem nameMap_apply {names : List String} (hk : ((nameMap names).map (·.1)).Nodup) (k : Nat) (hlt : k < names.length) :
    (nameMap names).apply (Ms.demeName k) = names[k] := by
  apply apply_of_mem hk
  unfold nameMap
  refine List.mem_map.mpr ⟨(k, names[k]), ?_, rfl⟩
  rw [List.mem_iff_getElem]
  refine ⟨k, by simpa using hlt, ?_⟩
  simp

/-- **names are applied in population order.**  With `deme_names`, the result is the result
without names in which, position by position, the deme `deme{k+1}` of population `k` (0-based)
is called `names[k]`; the supplied names are exactly the names of the result. -/
theorem fromMs_names {c : List String} {N0 : Q} {names : List String} {mg' : MsGraph}
    (h : fromMs c N0 (some names) = .ok mg') :
    ∃ mg, fromMs c N0 none = .ok mg
      ∧ mg'.graph.demes.length = mg.graph.demes.length
      ∧ names.length = mg.graph.demes.length
      ∧ (∀ (i : Nat) (d d' : Deme), mg.graph.demes[i]? = some d → mg'.graph.demes[i]? = some d' →
          ∃ (k : Nat) (hk : k < names.length), d.name = Ms.demeName k ∧ d'.name = names[k])
      ∧ (mg'.graph.demes.map (·.name)).Perm names := by
  obtain ⟨mg, hmg, hg, _, _, hk, hkeys, _, _, hlen, hperm, _⟩ := fromMs_names_checked h
  refine ⟨mg, hmg, ?_, hlen, ?_, hperm⟩
  · rw [hg, rename_demes_eq]; simp
  · intro i d d' hd hd'
    rw [hg, rename_demes_eq, List.getElem?_map, hd] at hd'
    simp only [Option.map_some, Option.some.injEq] at hd'
    subst hd'
    -- `d.name` is a key of the name map
    obtain ⟨args, _, hb⟩ := fromMs_none_ok hmg
    have hnd := (resolve_names_unique _ _ (buildGraph_ok hb).2.2).2.2
    obtain ⟨mg2, hmg2, h1, h2, _⟩ := fromMs_some_ok h
    have hmg2e : mg2 = mg := by rw [hmg] at hmg2; injection hmg2 with e; exact e.symm
    subst hmg2e
    have hmem : d.name ∈ (nameMap names).map (·.1) := by
      have hp : ((nameMap names).map (·.1)).Perm (mg2.graph.demes.map (·.name)) :=
        (nameMap_facts hnd h1 h2).1
      exact hp.mem_iff.mpr (List.mem_map.mpr ⟨d, List.mem_of_getElem? hd, rfl⟩)
    rw [nameMap_keys] at hmem
    obtain ⟨k, hkr, hkn⟩ := List.mem_map.mp hmem
    have hlt : k < names.length := List.mem_range.mp hkr
    refine ⟨k, hlt, hkn.symm, ?_⟩
    show (nameMap names).apply d.name = names[k]
    rw [← hkn]
    exact nameMap_apply hk k hlt

end Demes.Proofs.FromMs
