/-
  C09, acceptance — the migrations `finishDoc` emits from the matrix history (1): the sweep
  `_add_migrations_from_matrices` does not fail on a well-formed history (`MigWF`), and an emitted
  migration that is active at `t` carries the (finite, positive) matrix entry in force at `t`.
-/
import DemesVerif.Proofs.MsAccDefs
import DemesVerif.Proofs.FromMsPostScale
import DemesVerif.Proofs.MatRows
namespace Demes.Proofs.MsAcc
open Demes Demes.Ms Demes.Spec Demes.Spec.MsSem Demes.Spec.C08 Demes.Proofs.FromMs

/-! ## the names `deme1 … deme{n}` -/

/-- the deme names of a state with `n` demes -/
def namesOf (n : Nat) : List String := (List.range n).map Ms.demeName

theorem namesOf_length (n : Nat) : (namesOf n).length = n := by
  simp [namesOf]

theorem namesOf_nodup (n : Nat) : (namesOf n).Nodup := by
  unfold namesOf
  exact List.nodup_range.map (fun a b h => demeName_inj h)

theorem namesOf_getD {n j : Nat} (hj : j < n) : (namesOf n).getD j "" = Ms.demeName j := by
  unfold namesOf
  rw [List.getD_eq_getElem?_getD, List.getElem?_map, List.getElem?_range hj]
  rfl

/-! ## the sweep does not fail -/

theorem sweepStep_total {names : List String} {m : MM} (hd : Dim names.length m) (st : MigSweep × ETime) (e : Q) :
    ∃ st', sweepStep names st (m, e) = .ok st' := by
  obtain ⟨acc, B⟩ := st
  have hc : (m.length ≠ names.length || m.any (fun row => row.length ≠ names.length)) = false := by
    rw [Bool.or_eq_false_iff]
    refine ⟨by simp [hd.1], ?_⟩
    rw [List.any_eq_false]
    intro row hrow
    simp [hd.2 row hrow]
  unfold sweepStep
  dsimp only
  rw [hc]
  exact ⟨_, rfl⟩

theorem sweepFold_total {names : List String} :
    ∀ (l : List (MM × Q)) (st : MigSweep × ETime), (∀ me ∈ l, Dim names.length me.1) →
      ∃ st', l.foldlM (sweepStep names) st = .ok st'
  | [], st, _ => ⟨st, rfl⟩
  | (m, e) :: l, st, h => by
    obtain ⟨st1, h1⟩ := sweepStep_total (h (m, e) (List.mem_cons_self ..)) st e
    obtain ⟨st2, h2⟩ := sweepFold_total l st1 (fun me hme => h me (List.mem_cons_of_mem _ hme))
    refine ⟨st2, ?_⟩
    rw [List.foldlM_cons, h1]
    exact h2

/-- **the sweep does not fail** on a history of as many `n × n` matrices as end times, `n ≥ 1` names -/
theorem addMigrations_total {names : List String} {ml : List MM} {ts : List Q} (hlen : ml.length = ts.length)
    (hne : names ≠ []) (hdim : ∀ m ∈ ml, Dim names.length m) :
    ∃ migs, addMigrationsFromMatrices names ml ts = .ok migs := by
  rw [addMigrations_eq]
  have h1 : names.isEmpty = false := by
    cases names with
    | nil => exact absurd rfl hne
    | cons _ _ => rfl
  obtain ⟨⟨acc, B⟩, hf⟩ := sweepFold_total (names := names) (ml.zip ts)
    (({ migrations := [], current := [] } : MigSweep), ETime.inf)
    (fun me hme => hdim me.1 (List.of_mem_zip hme).1)
  refine ⟨acc.migrations, ?_⟩
  simp only [hlen, h1, ne_eq, not_true_eq_false, if_false, Bool.false_eq_true]
  rw [hf]
  rfl

/-- the sweep does not fail -/
theorem addMigrations_ok {N0 : Q} {s : BState} (hw : MigWF N0 s) (hpos : 1 ≤ s.numDemes)
    (names : List String) (hnames : names = (List.range s.numDemes).map Ms.demeName) :
    ∃ migs, addMigrationsFromMatrices names s.mmList s.mmEndTimes = .ok migs := by
  have hl : names.length = s.numDemes := by rw [hnames]; simp
  apply addMigrations_total hw.len
  · intro h
    rw [h] at hl
    simp at hl
    omega
  · intro m hm
    rw [hl]
    exact hw.dims m hm

/-- … with the names of the state -/
theorem addMigrations_ok' {N0 : Q} {s : BState} (hw : MigWF N0 s) (hn : NameInv s) (hpos : 1 ≤ s.numDemes) :
    ∃ migs, addMigrationsFromMatrices (s.demes.map (·.name)) s.mmList s.mmEndTimes = .ok migs :=
  addMigrations_ok hw hpos _ hn

/-! ## an active migration carries the entry in force -/

theorem mem_expectedRates {x : Option Num} {r : Num} (h : r ∈ expectedRates x) :
    x = some r ∧ numEq r (.fin 0) = false := by
  cases x with
  | none => simp [expectedRates] at h
  | some r' =>
    unfold expectedRates at h
    dsimp only at h
    split at h
    · simp at h
    · rename_i hz
      simp only [List.mem_singleton] at h
      subst h
      exact ⟨rfl, by simpa using hz⟩

theorem expectedRates_length_le (x : Option Num) : (expectedRates x).length ≤ 1 := by
  cases x with
  | none => simp [expectedRates]
  | some r =>
    unfold expectedRates
    dsimp only
    split <;> simp

/-- what `addMigrations_sem` says of the emitted list -/
structure SweepSem (names : List String) (ml : List MM) (ts : List Q) (migs : List BMigration) : Prop where
  wf : MigsWF names migs
  act : ∀ j k, j < names.length → k < names.length → j ≠ k → ∀ t,
      activeRates names migs j k t = expectedRates (mmRateAt ml ts j k t)

theorem SweepSem.entry {names : List String} {ml : List MM} {ts : List Q} {migs : List BMigration}
    (h : SweepSem names ml ts migs) {j k : Nat} (hj : j < names.length) (hk : k < names.length) (hjk : j ≠ k)
    {m : BMigration} (hm : m ∈ migs) (hp : pairIs names j k m = true) {t : Q} (hc : covers t m = true) :
    mmRateAt ml ts j k t = some m.rate ∧ numEq m.rate (.fin 0) = false := by
  apply mem_expectedRates
  rw [← h.act j k hj hk hjk t]
  unfold activeRates
  exact List.mem_map_of_mem (List.mem_filter.mpr ⟨List.mem_filter.mpr ⟨hm, hp⟩, hc⟩)

theorem covers_iff {t : Q} {m : BMigration} : covers t m = true ↔ m.endTime ≤ t ∧ ETime.fin t < m.startTime := by
  simp [covers]

theorem covers_end {m : BMigration} (h : ETime.fin m.endTime < m.startTime) : covers m.endTime m = true :=
  covers_iff.mpr ⟨Rat.le_refl, h⟩

theorem numEq_fin_zero {q : Q} : numEq (.fin q) (.fin 0) = false ↔ q ≠ 0 := by
  show (q == (0 : Q)) = false ↔ _
  simp

end Demes.Proofs.MsAcc
