/-
  C09, first sentence — graph → ms → graph by composing C07 and C08: shared definitions.

  * `hdrToks`, `toksOf`: the typed tokens of a header and a list of option records (what `toMs`
    emits: `ToMs.cmdOf`);
  * `cmdOfG`: the command of the string interpreter (`MsSem.Cmd`) an option record of `to_ms` stands
    for; `isInit`: the record is printed as `-n` / `-m` (an initial-state option);
  * `EvRT`: the option records of the growth-free fragment with finite non-negative numbers,
    positive indices, and `-es` / `-ej` at positive times;
  * `prOf`: what `MsSem.parse` reads off the rendered command.
-/
import DemesVerif.Spec.C09
import DemesVerif.Proofs.ToMsSem
import DemesVerif.Proofs.MsPrint
namespace Demes.Proofs.MsRT
open Demes Demes.Ms Demes.Spec Demes.Spec.C07 Demes.Spec.C09
open Demes.Spec.MsSem (Cmd Parsed)
open Demes.Proofs.ToMs (printEv)

/-- `-I n s₁ … sₙ` -/
def hdrToks : Option (Nat × List String) → List (Tok Growth)
  | none => []
  | some (n, ss) => [.flag "-I", .int (n : Int)] ++ ss.map Tok.raw

/-- the typed tokens of a command: header, then the options in order -/
def toksOf (hdr : Option (Nat × List String)) (evs : List (Event Growth)) : List (Tok Growth) :=
  hdrToks hdr ++ (evs.map printEv).flatten

/-- the header is well formed: `n ≥ 1` sample strings, each an argument for argparse -/
def HdrOK : Option (Nat × List String) → Prop
  | none => True
  | some (n, ss) => 1 ≤ n ∧ ss.length = n ∧ ∀ s ∈ ss, classify s = .ok .arg

/-- the option of the string interpreter that a record of `to_ms` stands for -/
def cmdOfG (e : Event Growth) : Cmd :=
  match e with
  | .popSizeChange _ t i (.fin x) => .setSize (evT e) i.toNat x (numPos t)
  | .migEntryChange _ _ i j (.fin m) => .setMigEntry (evT e) i.toNat j.toNat m
  | .split _ _ i (.fin p) => .split (evT e) i.toNat p
  | .join _ _ i j => .join (evT e) i.toNat j.toNat
  | _ => .setSizeAll 0 0

/-- the record is printed as an initial-state option (`-n`, `-m`) -/
def isInit (e : Event Growth) : Bool :=
  match e with
  | .popSizeChange _ t _ _ => !numPos t
  | .migEntryChange _ t _ _ _ => !numPos t
  | _ => false

/-- the records of the growth-free fragment: finite non-negative time, positive indices, finite
non-negative size / rate, a split fraction in `[0, 1]`, `-es` / `-ej` at positive times -/
def EvRT : Event Growth → Prop
  | .popSizeChange o t i x => o = "" ∧ 1 ≤ i ∧ ∃ q y, t = .fin q ∧ 0 ≤ q ∧ x = .fin y ∧ 0 ≤ y
  | .migEntryChange o t i j x => o = "" ∧ 1 ≤ i ∧ 1 ≤ j ∧ ∃ q y, t = .fin q ∧ 0 ≤ q ∧ x = .fin y ∧ 0 ≤ y
  | .split o t i p => o = "" ∧ 1 ≤ i ∧ ∃ q y, t = .fin q ∧ 0 < q ∧ p = .fin y ∧ 0 ≤ y ∧ y ≤ 1
  | .join o t i j => o = "" ∧ 1 ≤ i ∧ 1 ≤ j ∧ ∃ q, t = .fin q ∧ 0 < q
  | _ => False

/-- what the parser of the string interpreter reads off the rendered command -/
def prOf (hdr : Option (Nat × List String)) (evs : List (Event Growth)) : Parsed :=
  { npop := (hdr.map (·.1)).getD 1, islandRate := 0,
    initial := (evs.filter isInit).map cmdOfG,
    events := (evs.filter (fun e => !isInit e)).map cmdOfG,
    sawI := hdr.isSome }

/-! ### well-formedness of the observables -/

/-- the update list of a population of `msSemG` on a time-sorted growth-free command: chronological,
starting with an update at the population's creation time that sets its size, nothing after the
population was joined, no non-zero growth rate -/
structure UpdWF (p : PopSemG) : Prop where
  sorted : p.upd.Pairwise (fun u v => u.t ≤ v.t)
  head : ∃ u r, p.upd = u :: r ∧ u.t = p.lo ∧ u.size.isSome = true
  hi : ∀ u ∈ p.upd, ETime.fin u.t ≤ p.hi
  growth : ∀ u ∈ p.upd, u.growth = none ∨ u.growth = some .zero

/-- the segments tile `[lo, hi)`: each starts where the previous one ended, has positive length,
and the last one ends at `hi` (`AscChain` of the C08 proofs without the condition on `growth`) -/
def Tiles : Q → List Demes.Spec.MsSem.Seg → ETime → Prop
  | lo, [], hi => hi = .fin lo
  | lo, s :: r, hi => s.t0 = lo ∧ ETime.fin lo < s.t1 ∧
      (match s.t1 with
       | .fin b => Tiles b r hi
       | .inf => r = [] ∧ hi = .inf)

end Demes.Proofs.MsRT
