/-
  C08, link C (movements) — what a time group leaves alone: the demes of populations joined before
  the group are not touched; a group without `-es`/`-ej` keeps what `graphSem` looks at in every
  deme; the population numbers of `deme1 … deme{n}` do not depend on `n`.
-/
import DemesVerif.Proofs.FromMsApplyGraph
namespace Demes.Proofs.FromMs
open Demes Demes.Ms Demes.Spec Demes.Spec.MsSem Demes.Spec.C08

/-! ## demes of joined populations are never touched again -/

theorem contains_mono_append (l : List Nat) (a j : Nat) (h : l.contains j = true) : (l ++ [a]).contains j = true := by
  rw [contains_append_single, h]; rfl

/-- one option: `joined` only grows, the demes of joined populations and the pulses stay -/
theorem stepEvent_joined {N0 time : Q} {s s' : BState} {g g' : GState} {ev : Event Num}
    (hjlt : ∀ j, s.joined.contains j = true → j < s.demes.length)
    (hm : stepEvent N0 time (s, g) ev = .ok (s', g')) :
    s'.pulses = s.pulses ∧ ∀ j, s.joined.contains j = true →
      s'.joined.contains j = true ∧ s'.demes[j]? = s.demes[j]? := by
  have hlive : ∀ {f : BDeme → Except Err BDeme} {s1 : BState}, forLiveDemes s f = .ok s1 →
      s1.pulses = s.pulses ∧ ∀ j, s.joined.contains j = true →
        s1.joined.contains j = true ∧ s1.demes[j]? = s.demes[j]? := by
    intro f s1 h
    obtain ⟨e, hl, hi⟩ := forLiveDemes_ok h
    refine ⟨by rw [e], fun j hj => ⟨by rw [e]; exact hj, ?_⟩⟩
    cases hd : s.demes[j]? with
    | none =>
      apply List.getElem?_eq_none_iff.mpr
      rw [hl]; exact List.getElem?_eq_none_iff.mp hd
    | some d =>
      obtain ⟨d', hd', hc⟩ := hi j d hd
      rw [if_pos hj] at hc
      rw [hd', hc]
  have hmod : ∀ {f : BDeme → Except Err BDeme} {pid : Nat} {s1 : BState}, s.joined.contains pid = false →
      modifyDeme s pid f = .ok s1 →
      s1.pulses = s.pulses ∧ ∀ j, s.joined.contains j = true →
        s1.joined.contains j = true ∧ s1.demes[j]? = s.demes[j]? := by
    intro f pid s1 hp h
    obtain ⟨d0, d0', hd0, hfd, rfl⟩ := modifyDeme_ok h
    refine ⟨rfl, fun j hj => ⟨hj, ?_⟩⟩
    show (s.demes.set pid d0')[j]? = _
    rw [List.getElem?_set, if_neg (contains_ne hj hp).symm]
  have hsame : ∀ (s1 : BState), s1.demes = s.demes → s1.joined = s.joined → s1.pulses = s.pulses →
      s1.pulses = s.pulses ∧ ∀ j, s.joined.contains j = true →
        s1.joined.contains j = true ∧ s1.demes[j]? = s.demes[j]? :=
    fun s1 e1 e2 e3 => ⟨e3, fun j hj => ⟨by rw [e2]; exact hj, by rw [e1]⟩⟩
  cases ev with
  | growthRateChange o t alpha =>
    rw [stepEvent_growthAll] at hm
    obtain ⟨a, _, hm⟩ := RV.bind_ok.1 hm
    obtain ⟨s1, hs1, hm⟩ := RV.bind_ok.1 hm
    cases hm
    exact hlive hs1
  | popGrowthRateChange o t i alpha =>
    rw [stepEvent_growth] at hm
    obtain ⟨pid, hpid, hm⟩ := RV.bind_ok.1 hm
    obtain ⟨a, _, hm⟩ := RV.bind_ok.1 hm
    obtain ⟨s1, hs1, hm⟩ := RV.bind_ok.1 hm
    cases hm
    exact hmod (convertPopulationId_ok hpid).2.2.2.2 hs1
  | sizeChange o t x =>
    rw [stepEvent_sizeAll] at hm
    obtain ⟨a, _, hm⟩ := RV.bind_ok.1 hm
    obtain ⟨s1, hs1, hm⟩ := RV.bind_ok.1 hm
    cases hm
    exact hlive hs1
  | popSizeChange o t i x =>
    rw [stepEvent_size] at hm
    obtain ⟨pid, hpid, hm⟩ := RV.bind_ok.1 hm
    obtain ⟨a, _, hm⟩ := RV.bind_ok.1 hm
    obtain ⟨s1, hs1, hm⟩ := RV.bind_ok.1 hm
    cases hm
    exact hmod (convertPopulationId_ok hpid).2.2.2.2 hs1
  | migRateChange o t x =>
    rw [stepEvent_migAll] at hm
    cases hm
    obtain ⟨f1, _, f3, f4⟩ := migAllState_frame s time x
    exact hsame _ f1 f3 f4
  | migEntryChange o t i j rate =>
    rw [stepEvent_migEntry] at hm
    obtain ⟨pi, _, hm⟩ := RV.bind_ok.1 hm
    obtain ⟨pj, _, hm⟩ := RV.bind_ok.1 hm
    split at hm
    · exact (RV.valueErr_bind_ok.1 hm).elim
    · cases hm
      obtain ⟨f1, _, f3, f4⟩ := migEntryState_frame s time pi pj rate
      exact hsame _ f1 f3 f4
  | migMatrixChange o t npop mm =>
    rw [stepEvent_migMatrix] at hm
    dsimp only at hm
    generalize (if o = "-ma" then (s.numDemes : Int) else npop) = np at hm
    split at hm
    · exact (RV.valueErr_bind_ok.1 hm).elim
    · obtain ⟨m, _, hm⟩ := RV.bind_ok.1 hm
      cases hm
      obtain ⟨f1, _, f3, f4⟩ := migMatrixState_frame s time m
      exact hsame _ f1 f3 f4
  | join o t i j =>
    rw [stepEvent_join] at hm
    obtain ⟨popI, hI, hm⟩ := RV.bind_ok.1 hm
    obtain ⟨popJ, hJ, hm⟩ := RV.bind_ok.1 hm
    obtain ⟨s1, h1, hm⟩ := RV.bind_ok.1 hm
    cases hm
    obtain ⟨p1, p2⟩ := hmod (convertPopulationId_ok hI).2.2.2.2 h1
    obtain ⟨f1, _, f3, f4⟩ := joinMatrix_frame s1 time popI
    refine ⟨f4.trans p1, fun j hj => ?_⟩
    obtain ⟨q1, q2⟩ := p2 j hj
    refine ⟨?_, ?_⟩
    · show (_ ++ [popI]).contains j = true
      rw [f3]; exact contains_mono_append _ _ _ q1
    · show (joinMatrix s1 time popI).demes[j]? = _
      rw [f1]; exact q2
  | split o t i p =>
    rw [stepEvent_split] at hm
    obtain ⟨pid, _, hm⟩ := RV.bind_ok.1 hm
    obtain ⟨q, _, hm⟩ := RV.bind_ok.1 hm
    split at hm
    · exact (assertionErr_bind_ok.1 hm).elim
    · cases hm
      refine ⟨rfl, fun j hj => ⟨hj, ?_⟩⟩
      show (s.demes ++ [newDeme N0 time s.numDemes])[j]? = _
      rw [List.getElem?_append_left (hjlt j hj)]

theorem sizeSim_jlt {T : Q} {s : BState} {σ : St} (h : SizeSim T s σ) :
    ∀ j, s.joined.contains j = true → j < s.demes.length := by
  intro j hj
  rw [h.len, ← h.num]
  exact h.jlt j (by simpa using hj)

/-- all options of a group -/
theorem events_joined {N0 T' : Q} : ∀ (evs : List (Event Num)) {T : Q} {s s' : BState} {g g' : GState} {σ σ' : St}
    {L L' : List (Nat × Row)}, SizeSim T s σ → T ≤ T' → (∀ e ∈ evs, HasCmd e) →
    (∀ e ∈ evs, 4 * N0 * (cmdOfD e).t = T') →
    evs.foldlM (stepEvent N0 T') (s, g) = .ok (s', g') →
    (evs.map cmdOfD).foldlM (Spec.MsSem.step N0) (σ, L) = .ok (σ', L') →
    s'.pulses = s.pulses ∧ ∀ j, s.joined.contains j = true →
      s'.joined.contains j = true ∧ s'.demes[j]? = s.demes[j]? := by
  intro evs
  induction evs with
  | nil =>
    intro T s s' g g' σ σ' L L' _ _ _ _ hm hs
    cases hm
    exact ⟨rfl, fun j hj => ⟨hj, rfl⟩⟩
  | cons e evs ih =>
    intro T s s' g g' σ σ' L L' hsim hT hall htime hm hs
    rw [List.foldlM_cons] at hm
    obtain ⟨⟨s1, g1⟩, h1, hm⟩ := RV.bind_ok.1 hm
    rw [List.map_cons, List.foldlM_cons] at hs
    obtain ⟨⟨σ1, L1⟩, hs1, hs⟩ := sbind_ok.1 hs
    have he := hall e (List.mem_cons_self ..)
    have ht := htime e (List.mem_cons_self ..)
    have hsim' := stepEvent_sizeSim hsim hT he ht.symm h1 hs1
    obtain ⟨p1, q1⟩ := stepEvent_joined (sizeSim_jlt hsim) h1
    obtain ⟨p2, q2⟩ := ih hsim' (Rat.le_refl) (fun x hx => hall x (List.mem_cons_of_mem _ hx))
      (fun x hx => htime x (List.mem_cons_of_mem _ hx)) hm hs
    refine ⟨p2.trans p1, fun j hj => ?_⟩
    obtain ⟨a1, a2⟩ := q1 j hj
    obtain ⟨b1, b2⟩ := q2 j a1
    exact ⟨b1, b2.trans a2⟩

/-- `applyParams` does not touch the demes of populations joined before the group -/
theorem applyParams_joined {T' : Q} {s : BState} {σ : St} {s1 : BState} {g1 : GState} {L1 : List (Nat × Row)}
    {ops : List MOp} (he : GroupEnd T' s σ s1 g1 L1 ops) {j : Nat} (hj : s.joined.contains j = true) :
    (applyParams T' s1 g1).demes[j]? = s1.demes[j]? := by
  rw [applyParams_eq]
  obtain ⟨_, _, ap3, ap4⟩ := apFold T' g1 g1.params s1
  cases hd : s1.demes[j]? with
  | none =>
    apply List.getElem?_eq_none_iff.mpr
    rw [ap3]; exact List.getElem?_eq_none_iff.mp hd
  | some d =>
    rw [ap4 j d hd]
    have : g1.params.any (fun e => decide (e.1 = j)) = false := by
      rw [he.params, Bool.eq_false_iff]
      intro hany
      rw [List.any_eq_true] at hany
      obtain ⟨e, hem, hej⟩ := hany
      obtain ⟨o, ho, rfl⟩ := List.mem_map.mp hem
      have h1 := he.srcAlive o ho
      have h2 : o.1 - 1 = j := of_decide_eq_true hej
      rw [h2, hj] at h1
      cases h1
    rw [this]
    rfl

/-! ## a group without `-es` / `-ej` -/

theorem updGrowth_view {gr time : Q} {d d' : BDeme} (h : updGrowth gr time d = .ok d') : viewB d' = viewB d := by
  obtain ⟨h1, h2, h3, h4⟩ := updGrowth_header h
  obtain ⟨_, h5⟩ := updGrowth_frame h
  unfold viewB bProportions bAncestors
  rw [h1, h2, h3, h4, h5]

theorem updSize_view {size : Sz} {reset : Bool} {time : Q} {d d' : BDeme}
    (h : updSize size reset time d = .ok d') : viewB d' = viewB d := by
  obtain ⟨h1, h2, h3, h4⟩ := updSize_header h
  obtain ⟨_, h5⟩ := updSize_frame h
  unfold viewB bProportions bAncestors
  rw [h1, h2, h3, h4, h5]

theorem views_pointwise {l l' : List BDeme} (hl : l'.length = l.length)
    (h : ∀ (i : Nat) (d : BDeme), l[i]? = some d → ∃ d', l'[i]? = some d' ∧ viewB d' = viewB d) :
    l'.map viewB = l.map viewB := by
  apply List.ext_getElem?
  intro i
  rw [List.getElem?_map, List.getElem?_map]
  cases hd : l[i]? with
  | none =>
    rw [List.getElem?_eq_none_iff.mpr (by rw [hl]; exact List.getElem?_eq_none_iff.mp hd)]
  | some d =>
    obtain ⟨d', hd', hv⟩ := h i d hd
    rw [hd', Option.map_some, Option.map_some, hv]

theorem forLive_view {s s' : BState} {f : BDeme → Except Err BDeme}
    (hf : ∀ d d', f d = .ok d' → viewB d' = viewB d) (h : forLiveDemes s f = .ok s') :
    s'.demes.map viewB = s.demes.map viewB := by
  obtain ⟨_, hl, hi⟩ := forLiveDemes_ok h
  apply views_pointwise hl
  intro i d hd
  obtain ⟨d', hd', hc⟩ := hi i d hd
  refine ⟨d', hd', ?_⟩
  split at hc
  · rw [hc]
  · exact hf d d' hc

theorem modifyDeme_view {s s' : BState} {pid : Nat} {f : BDeme → Except Err BDeme}
    (hf : ∀ d d', f d = .ok d' → viewB d' = viewB d) (h : modifyDeme s pid f = .ok s') :
    s'.demes.map viewB = s.demes.map viewB := by
  obtain ⟨d0, d0', hd0, hfd, rfl⟩ := modifyDeme_ok h
  apply views_pointwise (by simp)
  intro i d hd
  show ∃ d', (s.demes.set pid d0')[i]? = some d' ∧ _
  rw [List.getElem?_set]
  by_cases hj : pid = i
  · subst hj
    have hl : pid < s.demes.length := (List.getElem?_eq_some_iff.mp hd0).1
    rw [hd0] at hd
    cases hd
    exact ⟨d0', by simp [hl], hf _ _ hfd⟩
  · exact ⟨d, by simp [hj, hd], rfl⟩

/-- an option that is neither `-es` nor `-ej` keeps what `graphSem` looks at in every deme -/
theorem stepEvent_nonmove_view {N0 time : Q} {s s' : BState} {g g' : GState} {ev : Event Num}
    (h1 : isSplit ev = false) (h2 : isJoinEv ev = false)
    (hm : stepEvent N0 time (s, g) ev = .ok (s', g')) : s'.demes.map viewB = s.demes.map viewB := by
  cases ev with
  | growthRateChange o t alpha =>
    rw [stepEvent_growthAll] at hm
    obtain ⟨a, _, hm⟩ := RV.bind_ok.1 hm
    obtain ⟨s1, hs1, hm⟩ := RV.bind_ok.1 hm
    cases hm
    exact forLive_view (fun _ _ => updGrowth_view) hs1
  | popGrowthRateChange o t i alpha =>
    rw [stepEvent_growth] at hm
    obtain ⟨pid, _, hm⟩ := RV.bind_ok.1 hm
    obtain ⟨a, _, hm⟩ := RV.bind_ok.1 hm
    obtain ⟨s1, hs1, hm⟩ := RV.bind_ok.1 hm
    cases hm
    exact modifyDeme_view (fun _ _ => updGrowth_view) hs1
  | sizeChange o t x =>
    rw [stepEvent_sizeAll] at hm
    obtain ⟨a, _, hm⟩ := RV.bind_ok.1 hm
    obtain ⟨s1, hs1, hm⟩ := RV.bind_ok.1 hm
    cases hm
    exact forLive_view (fun _ _ => updSize_view) hs1
  | popSizeChange o t i x =>
    rw [stepEvent_size] at hm
    obtain ⟨pid, _, hm⟩ := RV.bind_ok.1 hm
    obtain ⟨a, _, hm⟩ := RV.bind_ok.1 hm
    obtain ⟨s1, hs1, hm⟩ := RV.bind_ok.1 hm
    cases hm
    exact modifyDeme_view (fun _ _ => updSize_view) hs1
  | migRateChange o t x =>
    rw [stepEvent_migAll] at hm
    cases hm
    rw [(migAllState_frame s time x).1]
  | migEntryChange o t i j rate =>
    rw [stepEvent_migEntry] at hm
    obtain ⟨pi, _, hm⟩ := RV.bind_ok.1 hm
    obtain ⟨pj, _, hm⟩ := RV.bind_ok.1 hm
    split at hm
    · exact (RV.valueErr_bind_ok.1 hm).elim
    · cases hm
      rw [(migEntryState_frame s time pi pj rate).1]
  | migMatrixChange o t npop mm =>
    rw [stepEvent_migMatrix] at hm
    dsimp only at hm
    generalize (if o = "-ma" then (s.numDemes : Int) else npop) = np at hm
    split at hm
    · exact (RV.valueErr_bind_ok.1 hm).elim
    · obtain ⟨m, _, hm⟩ := RV.bind_ok.1 hm
      cases hm
      rw [(migMatrixState_frame s time m).1]
  | join o t i j => cases h2
  | split o t i p => cases h1

/-- a group without `-es` / `-ej`: nothing that `graphSem` looks at changes, and `applyParams` has
nothing to do -/
theorem events_nonmove {N0 T' : Q} : ∀ (evs : List (Event Num)) {s s' : BState} {g g' : GState},
    (∀ e ∈ evs, isSplit e = false ∧ isJoinEv e = false) →
    evs.foldlM (stepEvent N0 T') (s, g) = .ok (s', g') →
    g' = g ∧ s'.numDemes = s.numDemes ∧ s'.pulses = s.pulses ∧ s'.demes.map viewB = s.demes.map viewB := by
  intro evs
  induction evs with
  | nil => intro s s' g g' _ hm; cases hm; exact ⟨rfl, rfl, rfl, rfl⟩
  | cons e evs ih =>
    intro s s' g g' hall hm
    rw [List.foldlM_cons] at hm
    obtain ⟨⟨s1, g1⟩, h1, hm⟩ := RV.bind_ok.1 hm
    obtain ⟨a1, a2⟩ := hall e (List.mem_cons_self ..)
    obtain ⟨e1, e2⟩ := stepEvent_nonmove a1 a2 h1
    obtain ⟨_, f2, _, _⟩ := stepEvent_nonmove_frame a1 a2 h1
    have e3 := stepEvent_nonmove_view a1 a2 h1
    obtain ⟨i1, i2, i3, i4⟩ := ih (fun x hx => hall x (List.mem_cons_of_mem _ hx)) hm
    exact ⟨i1.trans e1, i2.trans e2, i3.trans f2, i4.trans e3⟩

/-! ## population numbers do not depend on the number of populations -/

def NamesLe (names names' : List String) : Prop := ∀ nm k, popId names nm = .ok k → popId names' nm = .ok k

theorem popNames_le {N N' : Nat} (h : N ≤ N') : NamesLe (popNames N) (popNames N') := by
  intro nm k hk
  unfold popId at hk ⊢
  have hsplit : popNames N' = popNames N ++ ((List.range' N (N' - N)).map Ms.demeName) := by
    unfold popNames
    rw [← List.map_append]
    congr 1
    have : N' = N + (N' - N) := by omega
    conv => lhs; rw [this]
    rw [List.range_eq_range', List.range_eq_range']
    have := List.range'_append_1 (s := 0) (m := N) (n := N' - N)
    simp only [Nat.zero_add] at this
    exact this.symm
  rw [hsplit, List.findIdx?_append]
  cases hf : (popNames N).findIdx? (fun x => decide (x = nm)) with
  | none => rw [hf] at hk; cases hk
  | some i => rw [hf] at hk; simpa using hk

theorem mapM_mono {α β} {f f' : α → Except String β} (h : ∀ a b, f a = .ok b → f' a = .ok b) :
    ∀ (l : List α) (r : List β), l.mapM f = .ok r → l.mapM f' = .ok r := by
  intro l
  induction l with
  | nil => intro r hr; exact hr
  | cons a l ih =>
    intro r hr
    rw [List.mapM_cons] at hr ⊢
    obtain ⟨b, hb, hr⟩ := sbind_ok.1 hr
    obtain ⟨bs, hbs, hr⟩ := sbind_ok.1 hr
    rw [h a b hb, ih bs hbs]
    exact hr

theorem foldlM_mono {α σ} {f f' : σ → α → Except String σ} (h : ∀ s a s', f s a = .ok s' → f' s a = .ok s') :
    ∀ (l : List α) (s r : σ), l.foldlM f s = .ok r → l.foldlM f' s = .ok r := by
  intro l
  induction l with
  | nil => intro s r hr; exact hr
  | cons a l ih =>
    intro s r hr
    rw [List.foldlM_cons] at hr ⊢
    obtain ⟨s1, h1, hr⟩ := sbind_ok.1 hr
    rw [h s a s1 h1]
    exact ih s1 r hr

theorem viewMoves_mono {names names' : List String} (hle : NamesLe names names') {T : Q} {A : List DView}
    {P : List Pulse} {L : List (Nat × Row)} (h : viewMoves names T A P = .ok L) : viewMoves names' T A P = .ok L := by
  unfold viewMoves at h ⊢
  obtain ⟨L0, h0, h⟩ := sbind_ok.1 h
  obtain ⟨L1, h1, h2⟩ := sbind_ok.1 h
  have e0 : (A.filter (rowC T)).mapM (rowOfV names') = .ok L0 := by
    apply mapM_mono _ _ _ h0
    intro d b hb
    unfold rowOfV at hb ⊢
    obtain ⟨id, hid, hb⟩ := sbind_ok.1 hb
    rw [hle _ _ hid]; exact hb
  have e1 : P.foldlM (pulseStepV names') L0 = .ok L1 := by
    apply foldlM_mono _ _ _ _ h1
    intro L p L' hb
    unfold pulseStepV at hb ⊢
    obtain ⟨dest, hd, hb⟩ := sbind_ok.1 hb
    obtain ⟨srcs, hs, hb⟩ := sbind_ok.1 hb
    rw [hle _ _ hd, mapM_mono hle _ _ hs]; exact hb
  have e2 : (A.filter (bornC T)).foldlM (bornStepV names') L1 = .ok L := by
    apply foldlM_mono _ _ _ _ h2
    intro L' d L'' hb
    unfold bornStepV at hb ⊢
    obtain ⟨me, hm, hb⟩ := sbind_ok.1 hb
    obtain ⟨ancs, ha, hb⟩ := sbind_ok.1 hb
    rw [hle _ _ hm, mapM_mono hle _ _ ha]; exact hb
  rw [e0, ok_bind, e1, ok_bind, e2]

/-- the movement rows of a time only depend on the names of the demes that exist just before it and
on the demes that start at it -/
theorem viewMoves_congr {names : List String} {T : Q} {A A' : List DView} {P : List Pulse}
    (hr : (A'.filter (rowC T)).map (·.name) = (A.filter (rowC T)).map (·.name))
    (hb : A'.filter (bornC T) = A.filter (bornC T)) : viewMoves names T A' P = viewMoves names T A P := by
  unfold viewMoves
  have : (A'.filter (rowC T)).mapM (rowOfV names) = (A.filter (rowC T)).mapM (rowOfV names) := by
    have e : ∀ l : List DView, l.mapM (rowOfV names)
        = (l.map (·.name)).mapM (fun nm => do let id ← popId names nm; pure (id, ([(id, (1 : Q))] : Row))) := by
      intro l; rw [List.mapM_map]; rfl
    rw [e, e, hr]
  rw [this, hb]

/-! ## a later group does not change the movement rows of an earlier time -/

theorem filter_map_pointwise {α β} (P : α → Bool) (φ : α → β) : ∀ (l l' : List α),
    (∀ (i : Nat) (d : α), l[i]? = some d → ∃ d', l'[i]? = some d' ∧ P d' = P d ∧ (P d = true → φ d' = φ d)) →
    (∀ (i : Nat) (d' : α), l.length ≤ i → l'[i]? = some d' → P d' = false) →
    (l'.filter P).map φ = (l.filter P).map φ := by
  intro l
  induction l with
  | nil =>
    intro l' _ h2
    have : l'.filter P = [] := by
      rw [List.filter_eq_nil_iff]
      intro a ha
      obtain ⟨i, hi⟩ := List.mem_iff_getElem?.mp ha
      rw [h2 i a (by simp) hi]
      simp
    rw [this]; rfl
  | cons d l ih =>
    intro l' h1 h2
    obtain ⟨d', hd', hp, hφ⟩ := h1 0 d rfl
    cases l' with
    | nil => simp at hd'
    | cons x l'' =>
      simp only [List.getElem?_cons_zero, Option.some.injEq] at hd'
      subst hd'
      have hrest := ih l'' (fun i d0 hd0 => by
        have := h1 (i + 1) d0 (by simpa using hd0)
        simpa using this) (fun i d0 hi hd0 => h2 (i + 1) d0 (by simp; omega) (by simpa using hd0))
      by_cases hpd : P d = true
      · rw [List.filter_cons_of_pos (by rw [hp]; exact hpd), List.filter_cons_of_pos hpd, List.map_cons,
          List.map_cons, hrest, hφ hpd]
      · rw [List.filter_cons_of_neg (by rw [hp]; exact hpd), List.filter_cons_of_neg hpd, hrest]

/-- the row filter and the born filter of `viewMoves` on `(demes.filter nonTransient).map viewB`, as
filters on the Builder demes -/
theorem view_filters (T0 : Q) (demes : List BDeme) :
    (((demes.filter nonTransient).map viewB).filter (rowC T0)).map (·.name)
      = (demes.filter (fun d => rowC T0 (viewB d) && nonTransient d)).map (·.name)
    ∧ ((demes.filter nonTransient).map viewB).filter (bornC T0)
      = (demes.filter (fun d => bornC T0 (viewB d) && nonTransient d)).map viewB := by
  constructor
  · rw [List.filter_map, List.filter_filter, List.map_map]; rfl
  · rw [List.filter_map, List.filter_filter]; rfl

section
variable {T T' : Q} {s : BState} {σ : St} {s1 : BState} {g1 : GState} {L1 : List (Nat × Row)} {ops : List MOp}

/-- the demes after the group, position by position -/
theorem group_positions (hsim : SizeSim T s σ) (he : GroupEnd T' s σ s1 g1 L1 ops) (hnames : NameInv s)
    (hjs : ∀ j, s.joined.contains j = true → s1.demes[j]? = s.demes[j]?) :
    (∀ (i : Nat) (d0 : BDeme), s.demes[i]? = some d0 → ∃ D, (applyParams T' s1 g1).demes[i]? = some D ∧
      (D = d0 ∨ (d0.startTime = .inf ∧ D.name = d0.name ∧ bEndTime D = bEndTime d0
        ∧ (D.startTime = .inf ∨ D.startTime = .fin T'))))
    ∧ (∀ (i : Nat) (D : BDeme), s.demes.length ≤ i → (applyParams T' s1 g1).demes[i]? = some D →
      bEndTime D = T' ∧ (D.startTime = .inf ∨ D.startTime = .fin T')) := by
  have hn0 : s.demes.length = s.numDemes := by rw [hsim.len, hsim.num]
  constructor
  · intro i d0 h0
    have hi : i < s.numDemes := by rw [← hn0]; exact (List.getElem?_eq_some_iff.mp h0).1
    have hi2 : i < (applyParams T' s1 g1).demes.length := by rw [(s2_len he).1]; have := he.n0le; omega
    have hD := List.getElem?_eq_getElem hi2
    refine ⟨_, hD, ?_⟩
    by_cases hj : s.joined.contains i = true
    · left
      have := applyParams_joined he hj
      rw [hD, hjs i hj, h0] at this
      exact Option.some.inj this
    · right
      obtain ⟨d, hd, _, hname, hstD, hbD, _⟩ := s2_at he hD
      obtain ⟨d0', h0', e1, e2⟩ := he.dOld i d hi hd
      rw [h0] at h0'
      cases h0'
      have hp : i < σ.pops.length := by rw [← hsim.num]; exact hi
      obtain ⟨rr, _, _, r4⟩ := hsim.rel i d0 _ h0 (List.getElem?_eq_getElem hp)
      have hinf : d0.startTime = .inf := by
        rw [rr.2.2]
        have hj' : s.joined.contains i = false := by simpa using hj
        rw [hj'] at r4
        have : MsSem.alive σ.pops[i] = true := by
          cases hh : MsSem.alive σ.pops[i] with
          | true => rfl
          | false => rw [hh] at r4; cases r4
        simpa [MsSem.alive] using this
      refine ⟨hinf, by rw [hname, (name_at hnames h0).1], by rw [hbD, e1], ?_⟩
      rw [hstD]
      rcases e2 with e2 | ⟨e2, _, _⟩
      · left; rw [e2, hinf]
      · right; exact e2
  · intro i D hi hD
    obtain ⟨d, hd, _, _, hstD, hbD, _⟩ := s2_at he hD
    obtain ⟨a, b⟩ := he.dNew i d (by omega) hd
    exact ⟨by rw [hbD, a], by rw [hstD]; exact b⟩

/-- **stability**: the movement rows of an earlier time `T0 < T'` are not changed by the group at `T'` -/
theorem group_stable (hsim : SizeSim T s σ) (he : GroupEnd T' s σ s1 g1 L1 ops) (hnames : NameInv s)
    (hjs : ∀ j, s.joined.contains j = true → s1.demes[j]? = s.demes[j]?)
    (hend : ∀ (j : Nat) (d : BDeme), s.demes[j]? = some d → bEndTime d < T')
    {T0 : Q} (h0 : T0 < T') {L : List (Nat × Row)}
    (hL : groupMoves (popNames s.numDemes) T0 s.demes (s.pulses.getD []) = .ok L) :
    groupMoves (popNames (applyParams T' s1 g1).numDemes) T0 (applyParams T' s1 g1).demes
      ((applyParams T' s1 g1).pulses.getD []) = .ok L := by
  obtain ⟨pw, tl⟩ := group_positions hsim he hnames hjs
  rw [groupMoves_view] at hL ⊢
  have hne : ¬ T' = T0 := fun e => by rw [e] at h0; exact Rat.lt_irrefl h0
  -- pulses
  have hP : ((applyParams T' s1 g1).pulses.getD []).filter (fun p => decide (p.time = T0))
      = (s.pulses.getD []).filter (fun p => decide (p.time = T0)) := by
    rw [applyParams_eq, (apFold T' g1 g1.params s1).1, he.pulses, List.filter_append]
    have : ((g1.params.filter (fun e => emitB g1 e.1)).map (mkPulse T')).filter (fun p => decide (p.time = T0)) = [] := by
      rw [List.filter_eq_nil_iff]
      intro p hp
      obtain ⟨e, _, rfl⟩ := List.mem_map.mp hp
      show ¬ decide (T' = T0) = true
      simpa using hne
    rw [this, List.append_nil]
  rw [hP]
  have hcongr : viewMoves (popNames s.numDemes) T0
      (((applyParams T' s1 g1).demes.filter nonTransient).map viewB)
      (((s.pulses.getD []).filter (fun p => decide (p.time = T0))).map bp2p)
      = viewMoves (popNames s.numDemes) T0 ((s.demes.filter nonTransient).map viewB)
      (((s.pulses.getD []).filter (fun p => decide (p.time = T0))).map bp2p) := by
    apply viewMoves_congr
    · rw [(view_filters T0 _).1, (view_filters T0 _).1]
      apply filter_map_pointwise
      · intro i d0 hd0
        obtain ⟨D, hD, hc⟩ := pw i d0 hd0
        refine ⟨D, hD, ?_⟩
        rcases hc with rfl | ⟨hinf, hn, hb, hs⟩
        · exact ⟨rfl, fun _ => rfl⟩
        · have hb0 := hend i d0 hd0
          have hne2 : ¬ T' = bEndTime d0 := fun e => by rw [e] at hb0; exact Rat.lt_irrefl hb0
          refine ⟨?_, fun _ => hn⟩
          unfold rowC viewB nonTransient
          dsimp only
          rw [hb, hinf]
          rcases hs with hs | hs
          · rw [hs]
          · rw [hs]
            have : T0 ≤ T' := Rat.le_of_lt h0
            simp [etime_fin_le_fin, etime_fin_le_inf, this, hne2]
      · intro i D hi hD
        obtain ⟨hb, _⟩ := tl i D hi hD
        unfold rowC viewB
        dsimp only
        rw [hb]
        have : ¬ T' < T0 := Rat.not_lt.mpr (Rat.le_of_lt h0)
        simp [this]
    · rw [(view_filters T0 _).2, (view_filters T0 _).2]
      apply filter_map_pointwise
      · intro i d0 hd0
        obtain ⟨D, hD, hc⟩ := pw i d0 hd0
        refine ⟨D, hD, ?_⟩
        rcases hc with rfl | ⟨hinf, hn, hb, hs⟩
        · exact ⟨rfl, fun _ => rfl⟩
        · have h1 : bornC T0 (viewB D) = false := by
            unfold bornC viewB
            dsimp only
            rcases hs with hs | hs
            · rw [hs]; rfl
            · rw [hs]; simpa using hne
          have h2 : bornC T0 (viewB d0) = false := by
            unfold bornC viewB
            dsimp only
            rw [hinf]; rfl
          rw [h1, h2]
          exact ⟨rfl, fun h => by simp at h⟩
      · intro i D hi hD
        obtain ⟨_, hs⟩ := tl i D hi hD
        have h1 : bornC T0 (viewB D) = false := by
          unfold bornC viewB
          dsimp only
          rcases hs with hs | hs
          · rw [hs]; rfl
          · rw [hs]; simpa using hne
        rw [h1]; rfl
  rw [← hcongr] at hL
  exact viewMoves_mono (popNames_le (by rw [(s2_len he).2]; exact he.n0le)) hL

end

end Demes.Proofs.FromMs
