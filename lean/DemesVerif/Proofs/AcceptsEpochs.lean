/-
  Proofs for C03, part 3 — the epochs of a deme: `Spec.fillEpochs` (a function) against
  `Spec.EpochsResolveTo` (the C02 relation), hence against the epoch loop of `fromdict`
  (`resolveEpochs_iff`).
-/
import DemesVerif.Proofs.AcceptsBasic
import DemesVerif.Proofs.FillDeme
namespace Demes.Proofs.Accepts
open Demes Demes.Obj Demes.Spec

/-! ### indexed chains against recursive chains -/

/-- `eps` relates to `es` position by position, each position seeing the result before it -/
def Chain {α β} (R : Option β → Bool → α → β → Prop) : Option β → List α → List β → Prop
  | _, [], [] => True
  | prev, e :: es, ep :: eps => R prev es.isEmpty e ep ∧ Chain R (some ep) es eps
  | _, _, _ => False

theorem chain_iff_indexed {α β} (R : Option β → Bool → α → β → Prop) :
    ∀ (es : List α) (prev : Option β) (eps : List β),
      Chain R prev es eps ↔
        eps.length = es.length ∧
        ∀ i (h : i < es.length) (h' : i < eps.length),
          R (if i = 0 then prev else eps[i - 1]?) (decide (i = es.length - 1)) es[i] eps[i] := by
  intro es
  induction es with
  | nil =>
    intro prev eps
    cases eps with
    | nil => simp [Chain]
    | cons ep eps => simp [Chain]
  | cons e es ih =>
    intro prev eps
    cases eps with
    | nil => simp [Chain]
    | cons ep eps =>
      simp only [Chain, ih, List.length_cons, Nat.add_right_cancel_iff]
      have hlast : es.isEmpty = decide (0 = es.length + 1 - 1) := by
        cases es <;> simp
      constructor
      · rintro ⟨h0, hlen, hall⟩
        refine ⟨hlen, ?_⟩
        intro i h h'
        cases i with
        | zero =>
          simp only [if_true, List.getElem_cons_zero]
          rw [← hlast]; exact h0
        | succ j =>
          have hj : j < es.length := by omega
          have hj' : j < eps.length := by omega
          have := hall j hj hj'
          simp only [Nat.succ_ne_zero, if_false, List.getElem_cons_succ, Nat.add_sub_cancel]
          have e1 : (if j = 0 then some ep else eps[j - 1]?) = (ep :: eps)[j]? := by
            cases j with
            | zero => simp
            | succ k => simp
          have e2 : decide (j = es.length - 1) = decide (j + 1 = es.length) := by
            apply decide_eq_decide.2; omega
          rw [e1, e2] at this
          exact this
      · rintro ⟨hlen, hall⟩
        refine ⟨?_, hlen, ?_⟩
        · have := hall 0 (Nat.zero_lt_succ _) (Nat.zero_lt_succ _)
          simp only [if_true, List.getElem_cons_zero] at this
          rw [hlast]; exact this
        · intro j hj hj'
          have := hall (j + 1) (by omega) (by omega)
          simp only [Nat.succ_ne_zero, if_false, List.getElem_cons_succ, Nat.add_sub_cancel] at this
          have e1 : (if j = 0 then some ep else eps[j - 1]?) = (ep :: eps)[j]? := by
            cases j with
            | zero => simp
            | succ k => simp
          have e2 : decide (j = es.length - 1) = decide (j + 1 = es.length) := by
            apply decide_eq_decide.2; omega
          rw [e1, e2]
          exact this

theorem chain_mono {α β} {R R' : Option β → Bool → α → β → Prop}
    (h : ∀ p b e ep, R p b e ep → R' p b e ep) :
    ∀ (es : List α) (prev : Option β) (eps : List β), Chain R prev es eps → Chain R' prev es eps := by
  intro es
  induction es with
  | nil => intro prev eps hc; cases eps <;> simp [Chain] at hc ⊢
  | cons e es ih =>
    intro prev eps hc
    cases eps with
    | nil => simp [Chain] at hc
    | cons ep eps => exact ⟨h _ _ _ _ hc.1, ih _ _ hc.2⟩

/-- a chain whose steps carry a property of the result alone -/
theorem chain_and {α β} {R : Option β → Bool → α → β → Prop} {P : β → Prop} :
    ∀ (es : List α) (prev : Option β) (eps : List β),
      Chain (fun p b e ep => R p b e ep ∧ P ep) prev es eps ↔
        Chain R prev es eps ∧ ∀ ep ∈ eps, P ep := by
  intro es
  induction es with
  | nil => intro prev eps; cases eps <;> simp [Chain]
  | cons e es ih =>
    intro prev eps
    cases eps with
    | nil => simp [Chain]
    | cons ep eps =>
      simp only [Chain, ih, List.mem_cons, forall_eq_or_imp]
      constructor
      · rintro ⟨⟨h1, h2⟩, h3, h4⟩; exact ⟨⟨h1, h3⟩, h2, h4⟩
      · rintro ⟨⟨h1, h3⟩, h2, h4⟩; exact ⟨⟨h1, h2⟩, h3, h4⟩

/-! ### `fillEpochs` is a chain of `fillEpoch` -/

theorem fillEpochs_iff_chain (demeStart : ETime) (L G : Obj) :
    ∀ (es : List Obj) (prev : Option Epoch) (eps : List Epoch),
      fillEpochs demeStart L G prev es = some eps ↔
        Chain (fun p b e ep => fillEpoch demeStart p b e L G = some ep) prev es eps := by
  intro es
  induction es with
  | nil => intro prev eps; cases eps <;> simp [fillEpochs, Chain]
  | cons e es ih =>
    intro prev eps
    simp only [fillEpochs]
    cases h1 : fillEpoch demeStart prev es.isEmpty e L G with
    | none => cases eps <;> simp [Chain, h1]
    | some ep =>
      dsimp only
      cases h2 : fillEpochs demeStart L G (some ep) es with
      | none =>
        cases eps with
        | nil => simp [Chain]
        | cons ep' eps' =>
          simp only [Chain, h1, Option.some.injEq, reduceCtorEq, false_iff, not_and]
          intro he; subst he
          rw [← ih, h2]; simp
      | some eps0 =>
        cases eps with
        | nil => simp [Chain]
        | cons ep' eps' =>
          simp only [Chain, h1, Option.some.injEq, List.cons.injEq]
          constructor
          · rintro ⟨rfl, rfl⟩; exact ⟨rfl, (ih _ _).1 h2⟩
          · rintro ⟨rfl, hc⟩
            have := (ih _ _).2 hc
            rw [h2] at this
            exact ⟨rfl, Option.some.inj this⟩

/-! ### one epoch -/

/-- what V5/V6 say about one epoch (`Asdict.EpochOk`), split: the ranges of the numbers … -/
structure EpochRanges (ep : Epoch) : Prop where
  endTime : 0 ≤ ep.endTime
  startSize : 0 < ep.startSize
  endSize : 0 < ep.endSize
  selfing0 : 0 ≤ ep.selfingRate
  selfing1 : ep.selfingRate ≤ 1
  cloning0 : 0 ≤ ep.cloningRate
  cloning1 : ep.cloningRate ≤ 1

theorem epochRanges_of_ok {ep : Epoch} (h : Asdict.EpochOk ep) : EpochRanges ep :=
  ⟨h.endTime, h.startSize, h.endSize, h.selfing0, h.selfing1, h.cloning0, h.cloning1⟩

theorem epochConsistent_of_ok {ep : Epoch} (h : Asdict.EpochOk ep) : EpochConsistent ep :=
  ⟨h.order, fun hi => h.infinite (by rw [hi]; rfl), h.constant⟩

theorem fillEpoch_eq_some {demeStart : ETime} {prev : Option Epoch} {isLast : Bool} {e L G : Obj}
    {ep : Epoch} :
    fillEpoch demeStart prev isLast e L G = some ep ↔
      ∃ raw, specEpochFields prev isLast e L G = some raw ∧
        ep.startTime = specEpochStart demeStart prev ∧
        finOf raw.endTime = some ep.endTime ∧ finOf raw.startSize = some ep.startSize ∧
        finOf raw.endSize = some ep.endSize ∧
        specSizeFunction raw.sizeFunction ep.startSize ep.endSize = some ep.sizeFunction ∧
        finOf raw.selfing = some ep.selfingRate ∧ finOf raw.cloning = some ep.cloningRate := by
  unfold fillEpoch
  constructor
  · intro h
    obtain ⟨raw, hraw, h⟩ := obind_some h
    obtain ⟨a1, h1, h⟩ := obind_some h
    obtain ⟨a2, h2, h⟩ := obind_some h
    obtain ⟨a3, h3, h⟩ := obind_some h
    obtain ⟨a4, h4, h⟩ := obind_some h
    obtain ⟨a5, h5, h⟩ := obind_some h
    obtain ⟨a6, h6, h⟩ := obind_some h
    cases h
    exact ⟨raw, hraw, rfl, h1, h2, h3, h4, h5, h6⟩
  · rintro ⟨raw, hraw, hs, h1, h2, h3, h4, h5, h6⟩
    rw [hraw, some_obind, h1, some_obind, h2, some_obind, h3, some_obind, h4, some_obind, h5,
      some_obind, h6, some_obind]
    cases ep
    simp only at hs
    subst hs
    rfl

/-- the C02 relation for one epoch holds exactly when `fillEpoch` gives the epoch and the epoch
passes the checks of V5/V6 -/
theorem epochResolvesTo_iff {demeStart : ETime} {prev : Option Epoch} {isLast : Bool} {e L G : Obj}
    {ep : Epoch} :
    EpochResolvesTo demeStart prev isLast e L G ep ↔
      fillEpoch demeStart prev isLast e L G = some ep ∧ EpochRanges ep ∧ EpochConsistent ep := by
  rw [fillEpoch_eq_some]
  unfold EpochResolvesTo EpochResolvesToOf specEpochFields
  constructor
  · rintro ⟨raw, hraw, hs, ⟨v1, v2, v3, v4, v5, v6⟩, hc⟩
    obtain ⟨f1, r1⟩ := (nonNegFiniteQ_ok_iff _ _).1 v1
    obtain ⟨f2, r2⟩ := (posFiniteQ_ok_iff _ _).1 v2
    obtain ⟨f3, r3⟩ := (posFiniteQ_ok_iff _ _).1 v3
    obtain ⟨f5, r5, r5'⟩ := (unitQ_ok_iff _ _).1 v5
    obtain ⟨f6, r6, r6'⟩ := (unitQ_ok_iff _ _).1 v6
    exact ⟨⟨raw, hraw, hs, f1, f2, f3, v4, f5, f6⟩, ⟨r1, r2, r3, r5, r5', r6, r6'⟩, hc⟩
  · rintro ⟨⟨raw, hraw, hs, f1, f2, f3, v4, f5, f6⟩, hr, hc⟩
    exact ⟨raw, hraw, hs,
      ⟨(nonNegFiniteQ_ok_iff _ _).2 ⟨f1, hr.endTime⟩, (posFiniteQ_ok_iff _ _).2 ⟨f2, hr.startSize⟩,
       (posFiniteQ_ok_iff _ _).2 ⟨f3, hr.endSize⟩, v4,
       (unitQ_ok_iff _ _).2 ⟨f5, hr.selfing0, hr.selfing1⟩,
       (unitQ_ok_iff _ _).2 ⟨f6, hr.cloning0, hr.cloning1⟩⟩, hc⟩

/-! ### all epochs of a deme -/

/-- **The C02 relation for the epochs of a deme is `fillEpochs` plus the per-epoch checks.** -/
theorem epochsResolveTo_iff (demeStart : ETime) (es : List Obj) (L G : Obj) (eps : List Epoch) :
    EpochsResolveTo demeStart es L G eps ↔
      fillEpochs demeStart L G none es = some eps ∧ ∀ ep ∈ eps, EpochRanges ep ∧ EpochConsistent ep := by
  unfold EpochsResolveTo
  rw [← chain_iff_indexed (fun p b e ep => EpochResolvesTo demeStart p b e L G ep) es none eps,
    fillEpochs_iff_chain, ← chain_and]
  constructor
  · exact chain_mono (fun p b e ep h => epochResolvesTo_iff.1 h) es none eps
  · exact chain_mono (fun p b e ep h => epochResolvesTo_iff.2 h) es none eps

/-- soundness of the epoch loop -/
theorem resolveEpochs_fill {demeStart : ETime} {GE L : Obj} {es : List Obj} {eps : List Epoch}
    (hl : (keys L).Nodup) (h : resolveEpochs demeStart (update GE L) es = .ok eps) :
    (∀ e ∈ es, onlyFields epochFields e = true) ∧ fillEpochs demeStart L GE none es = some eps := by
  obtain ⟨h1, h2⟩ := (Proofs.resolveEpochs_iff demeStart GE L es eps hl).1 h
  refine ⟨fun e he => ?_, ((epochsResolveTo_iff _ _ _ _ _).1 h2).1⟩
  rw [epochFields_eq, ← checkAllowed_iff_onlyFields]
  exact h1 e he

/-- completeness of the epoch loop -/
theorem resolveEpochs_complete {demeStart : ETime} {GE L : Obj} {es : List Obj} {eps : List Epoch}
    (hl : (keys L).Nodup) (hca : ∀ e ∈ es, onlyFields epochFields e = true)
    (hf : fillEpochs demeStart L GE none es = some eps) (hok : ∀ ep ∈ eps, Asdict.EpochOk ep) :
    resolveEpochs demeStart (update GE L) es = .ok eps := by
  refine (Proofs.resolveEpochs_iff demeStart GE L es eps hl).2 ⟨fun e he => ?_, ?_⟩
  · rw [checkAllowed_iff_onlyFields, ← epochFields_eq]
    exact hca e he
  · exact (epochsResolveTo_iff _ _ _ _ _).2
      ⟨hf, fun ep hep => ⟨epochRanges_of_ok (hok ep hep), epochConsistent_of_ok (hok ep hep)⟩⟩

/-- the epochs `fillEpochs` gives are chained from the deme's start -/
theorem fillEpochs_length {demeStart : ETime} {L G : Obj} :
    ∀ {es : List Obj} {prev : Option Epoch} {eps : List Epoch},
      fillEpochs demeStart L G prev es = some eps → eps.length = es.length := by
  intro es prev eps h
  exact ((chain_iff_indexed _ es prev eps).1 ((fillEpochs_iff_chain _ _ _ es prev eps).1 h)).1

end Demes.Proofs.Accepts
