/-
  C09 §8 (acceptance with exponential epochs), after the event loop — assembly: on a state that satisfies
  the invariants of the event loop with symbolic sizes (`AccInvV`, `NameInv`), in which no deme without a
  start time has a growth rate in force (`GrowthClosed`), and whose matrix history yields well-formed
  migrations (`MsAcc.DocMigsWF`), `finishDoc` succeeds, the document has the shape `resolve` wants, the
  explicit graph `docGraph tab doc` is valid for every placeholder table that is positive on the document
  (`TabPos`; the table `placeholders doc` of `buildGraph` is), and therefore `Demes.resolve` accepts the
  document.

  * `MsGrowAccFinishDefs.lean`   — `DocWFV`: the well-formed document with symbolic sizes; `TabPos`;
  * `MsGrowAccFinishDoc.lean`    — `finaliseGrowth` in closed form (`finDemeV`), transient demes;
  * `MsGrowAccFinishWF.lean`     — `finDocV` (closed form), `finishDoc_eqV`, `finDocV_wf`;
  * `MsGrowAccFinishDemes.lean`  — V1 … V6 from `DocWFV` (V6 from `TabPos`);
  * `MsGrowAccFinishMigs.lean`   — V8 … V10 from `DocWFV`;
  * `MsGrowAccFinishPulses.lean` — V11, V12 from `DocWFV`.
-/
import DemesVerif.Proofs.MsGrowAccFinishWF
import DemesVerif.Proofs.MsGrowAccFinishDemes
import DemesVerif.Proofs.MsGrowAccFinishMigs
import DemesVerif.Proofs.MsGrowAccFinishPulses
import DemesVerif.Proofs.MsAccFinish
namespace Demes.Proofs.MsGrow
open Demes Demes.Ms Demes.Spec Demes.Spec.C08 Demes.Proofs.FromMs
open Demes.Proofs.MsAcc (docGraph docDeme DocShape docShapeB doc_v0 doc_v13 resolve_doc_of_valid)

/-- **a well-formed document fills in to a valid graph**, whatever the placeholder table, provided it makes
the sizes of the document positive -/
theorem valid_of_docwfV {doc : MsDoc} (h : DocWFV doc) (tab : List (Sz × Q)) (htab : TabPos tab doc) :
    validGraph (docGraph tab doc) = true := by
  unfold validGraph validData
  rw [doc_v0, docwf_v1 h, docwf_v2 h, docwf_v3 h, docwf_v4 h, docwf_v5 h, docwf_v6 h tab htab, docwf_v8 h,
    docwf_v9 h, docwf_v10 h, docwf_v11 h, docwf_v12 h, doc_v13]
  rfl

/-- `Demes.resolve` accepts a well-formed document and returns the explicit graph -/
theorem resolve_of_docwfV {doc : MsDoc} (h : DocWFV doc) (tab : List (Sz × Q)) (htab : TabPos tab doc) :
    Demes.resolve (doc.toValue tab) = .ok (docGraph tab doc) :=
  resolve_doc_of_valid tab doc (docShape_of_wfV h) (valid_of_docwfV h tab htab)

set_option linter.unusedVariables false in
/-- **after the event loop: `finishDoc` succeeds, and its document is acceptable** — the document is
`finDocV N0 s migs0` (the finalised non-transient demes sorted by start time, the scaled migrations, the
pulses reversed), it is well-formed, has the shape `resolve` wants, and its explicit graph is valid under
every table that makes its sizes positive -/
theorem finish_acceptsV' {N0 : Q} (hN : 0 < N0) {s : BState} {T : Q} (hinv : AccInvV T s) (hn : NameInv s)
    (hgc : GrowthClosed s) {migs0 : List BMigration}
    (hm : addMigrationsFromMatrices ((List.range s.numDemes).map Ms.demeName) s.mmList s.mmEndTimes = .ok migs0)
    (hmw : MsAcc.DocMigsWF s (migs0.map (scaleMig N0))) :
    finishDoc N0 s = .ok (finDocV N0 s migs0) ∧ DocWFV (finDocV N0 s migs0) ∧ MsAcc.DocShape (finDocV N0 s migs0)
      ∧ ∀ tab, TabPos tab (finDocV N0 s migs0) → validGraph (docGraph tab (finDocV N0 s migs0)) = true :=
  have hw := finDocV_wf hinv hn hgc hmw
  ⟨finishDoc_eqV hinv hn hgc hm hmw, hw, docShape_of_wfV hw, valid_of_docwfV hw⟩

/-- **after the event loop: `finishDoc` succeeds, and its document is acceptable** -/
theorem finish_acceptsV {N0 : Q} (hN : 0 < N0) {s : BState} {T : Q} (hinv : AccInvV T s) (hn : NameInv s)
    (hgc : GrowthClosed s) {migs0 : List BMigration}
    (hm : addMigrationsFromMatrices ((List.range s.numDemes).map Ms.demeName) s.mmList s.mmEndTimes = .ok migs0)
    (hmw : MsAcc.DocMigsWF s (migs0.map (scaleMig N0))) :
    ∃ doc, finishDoc N0 s = .ok doc ∧ DocShape doc
      ∧ ∀ tab, TabPos tab doc → validGraph (docGraph tab doc) = true :=
  have h := finish_acceptsV' hN hinv hn hgc hm hmw
  ⟨_, h.1, h.2.2.1, h.2.2.2⟩

/-- **after the event loop: `finishDoc` succeeds and `Demes.resolve` accepts its document** (with the
placeholder table `buildGraph` uses), returning the explicit graph, which is valid -/
theorem finish_resolvesV {N0 : Q} (hN : 0 < N0) {s : BState} {T : Q} (hinv : AccInvV T s) (hn : NameInv s)
    (hgc : GrowthClosed s) {migs0 : List BMigration}
    (hm : addMigrationsFromMatrices ((List.range s.numDemes).map Ms.demeName) s.mmList s.mmEndTimes = .ok migs0)
    (hmw : MsAcc.DocMigsWF s (migs0.map (scaleMig N0))) :
    ∃ doc, finishDoc N0 s = .ok doc
      ∧ Demes.resolve (doc.toValue (placeholders doc)) = .ok (docGraph (placeholders doc) doc)
      ∧ validGraph (docGraph (placeholders doc) doc) = true := by
  obtain ⟨h1, hw, _, hv⟩ := finish_acceptsV' hN hinv hn hgc hm hmw
  exact ⟨_, h1, resolve_of_docwfV hw _ (tabPos_placeholders _), hv _ (tabPos_placeholders _)⟩

/-- the graph `resolve` returns is the explicit graph of the document -/
theorem finish_resolves_eqV {N0 : Q} {s : BState} {T : Q} (hinv : AccInvV T s) (hn : NameInv s)
    (hgc : GrowthClosed s) {migs0 : List BMigration} (hmw : MsAcc.DocMigsWF s (migs0.map (scaleMig N0)))
    (tab : List (Sz × Q)) (htab : TabPos tab (finDocV N0 s migs0)) :
    Demes.resolve ((finDocV N0 s migs0).toValue tab) = .ok (docGraph tab (finDocV N0 s migs0)) :=
  resolve_of_docwfV (finDocV_wf hinv hn hgc hmw) tab htab

/-- the growth-free statement is the special case: with exact sizes every table is positive -/
theorem finish_acceptsV_exact {N0 : Q} (hN : 0 < N0) {s : BState} {T : Q} (hinv : AccInvV T s) (hn : NameInv s)
    (hgc : GrowthClosed s) {migs0 : List BMigration}
    (hm : addMigrationsFromMatrices ((List.range s.numDemes).map Ms.demeName) s.mmList s.mmEndTimes = .ok migs0)
    (hmw : MsAcc.DocMigsWF s (migs0.map (scaleMig N0)))
    (hex : ∀ z ∈ (finDocV N0 s migs0).sizes, z.expo = 0) :
    ∀ tab, validGraph (docGraph tab (finDocV N0 s migs0)) = true :=
  fun tab => (finish_acceptsV' hN hinv hn hgc hm hmw).2.2.2 tab (tabPos_of_exact tab hex)

/-! ## non-vacuity -/

/-- run `build_graph` on a command up to (not including) `resolve`, with `N0 = 1`: the event loop and
`finishDoc` succeed, the matrix sweep succeeds on the names `deme1 …`, `finishDoc` returns `finDocV`, no deme
without a start time has a growth rate in force at the end of the loop, the document has the acceptable
shape, some size of it is symbolic, and its explicit graph under the table `placeholders doc` is valid -/
def finishCheckV (tokens : List String) : Bool :=
  match parseKnownArgs tokens with
  | .ok args =>
    match buildState args 1 with
    | .ok s =>
      match addMigrationsFromMatrices ((List.range s.numDemes).map Ms.demeName) s.mmList s.mmEndTimes,
            finishDoc 1 s with
      | .ok migs0, .ok doc =>
        docShapeB doc && validGraph (docGraph (placeholders doc) doc)
          && s.demes.all (fun d => match d.startTime with | .inf => decide (curGrowth d = 0) | .fin _ => true)
          && doc.sizes.any (fun z => !z.isExact)
          && decide (doc.demes = (finDocV 1 s migs0).demes)
          && decide (doc.migrations = (finDocV 1 s migs0).migrations)
          && decide (doc.pulses = (finDocV 1 s migs0).pulses)
      | _, _ => false
    | _ => false
  | _ => false

/-- two populations; population 1 has size `2` at time 0, grows (backwards in time: shrinks) at rate `0.5`
until `0.25 · 4N0` and is constant before; population 2 joins it: the epoch `[0, 1)` of `deme1` is
exponential, its `start_size` symbolic -/
example : finishCheckV ["-I", "2", "0", "0", "-n", "1", "2.0", "-g", "1", "0.5", "-eg", "0.25", "1", "0.0",
    "-ej", "1.0", "2", "1"] = true := by decide +kernel

/-- a population with a growth rate in force is joined: `finaliseGrowth` writes the symbolic `start_size`
of the open epoch of `deme2` (start time finite) -/
example : finishCheckV ["-I", "2", "0", "0", "-g", "2", "0.5", "-ej", "1.0", "2", "1"] = true := by
  decide +kernel

/-- growth in both populations, a migration matrix, an admixture written as `-es` + two `-ej` (one transient
deme, which `finishDoc` removes), rate changes, the root population made constant at the end -/
example : finishCheckV ["-I", "2", "0", "0", "-n", "1", "2.0", "-g", "1", "0.5", "-g", "2", "1.5",
    "-m", "1", "2", "0.5", "-es", "0.5", "2", "0.5", "-ej", "0.5", "3", "1", "-eg", "0.75", "2", "0.25",
    "-ej", "1.0", "2", "1", "-eg", "1.5", "1", "0.0"] = true := by decide +kernel

/-- the check rejects what `GrowthClosed` excludes: a growth rate in force in the root population
(`finaliseGrowth` raises "growth rate for infinite-length epoch is invalid") -/
example : finishCheckV ["-I", "2", "0", "0", "-g", "1", "0.5", "-ej", "1.0", "2", "1"] = false := by
  decide +kernel

/-- (the finalised open epoch of `deme2`: `end_size`, `start_size`) after `-g 2 0.5`, `-ej 1.0 2 1` with
`N0 = 1`: the start size is `1 · exp(-(4 - 0) · 0.125)` -/
def finishSizes (tokens : List String) (name : String) : Option (List (Sz × Option Sz)) :=
  match parseKnownArgs tokens with
  | .ok args =>
    match buildState args 1 with
    | .ok s =>
      match finishDoc 1 s with
      | .ok doc => (doc.demes.find? (fun d => d.name = name)).map (fun d => d.epochs.map (fun e => (e.endSize, e.startSize)))
      | _ => none
    | _ => none
  | _ => none

example : finishSizes ["-I", "2", "0", "0", "-g", "2", "0.5", "-ej", "1.0", "2", "1"] "deme2"
    = some [(⟨1, 0⟩, some ⟨1, -(1/2)⟩)] := by decide +kernel

#print axioms valid_of_docwfV
#print axioms finish_acceptsV'
#print axioms finish_resolvesV

end Demes.Proofs.MsGrow
