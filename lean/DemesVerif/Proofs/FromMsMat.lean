/-
  C08, stage `build_migrations` — entries of the Builder's migration matrices after the updates
  of the event loop (`mmSet` and the loops built from it).
-/
import DemesVerif.Proofs.FromMsStep
namespace Demes.Proofs.FromMs
open Demes Demes.Ms

/-- an `n × n` matrix -/
def Dim (n : Nat) (m : MM) : Prop := m.length = n ∧ ∀ row ∈ m, row.length = n

theorem mmGet_mmSet (m : MM) (a b : Nat) (v : Num) (j k : Nat) :
    mmGet (mmSet m a b v) j k
      = if j = a ∧ k = b ∧ a < m.length ∧ b < (m.getD a []).length then v else mmGet m j k := by
  unfold mmGet mmSet
  simp only [List.getD_eq_getElem?_getD, List.getElem?_modify]
  by_cases hj : a = j
  · subst hj
    by_cases ha : a < m.length
    · simp only [List.getElem?_eq_getElem ha, if_true, Option.map_some, Option.getD_some, List.getElem?_set]
      by_cases hk : b = k
      · subst hk
        by_cases hb : b < m[a].length
        · simp [hb, ha]
        · simp [hb]
      · have : ¬ k = b := fun e => hk e.symm
        simp [hk, this]
    · have : m[a]? = none := List.getElem?_eq_none_iff.mpr (by omega)
      simp [this, ha]
  · have : ¬ j = a := fun e => hj e.symm
    simp [hj, this]

theorem dim_mmSet {n : Nat} {m : MM} (h : Dim n m) (a b : Nat) (v : Num) : Dim n (mmSet m a b v) := by
  unfold mmSet
  refine ⟨by simp [h.1], ?_⟩
  intro row hrow
  rw [List.mem_iff_getElem?] at hrow
  obtain ⟨i, hi⟩ := hrow
  rw [List.getElem?_modify] at hi
  by_cases ha : a = i
  · subst ha
    cases hm : m[a]? with
    | none => rw [hm] at hi; simp at hi
    | some r =>
      rw [hm] at hi
      simp at hi
      subst hi
      simp [h.2 r (List.mem_of_getElem? hm)]
  · simp [ha] at hi
    exact h.2 row (List.mem_of_getElem? hi)

theorem mmGet_mmSet_dim {n : Nat} {m : MM} (h : Dim n m) (a b : Nat) (v : Num) (j k : Nat) :
    mmGet (mmSet m a b v) j k = if j = a ∧ k = b ∧ a < n ∧ b < n then v else mmGet m j k := by
  rw [mmGet_mmSet]
  by_cases ha : a < n
  · have hrow : (m.getD a []).length = n := by
      rw [List.getD_eq_getElem?_getD, List.getElem?_eq_getElem (by rw [h.1]; exact ha)]
      exact h.2 _ (List.getElem_mem _)
    rw [hrow, h.1]
  · have : ¬ a < m.length := by rw [h.1]; exact ha
    simp [ha, this]

/-- a loop of conditional constant writes: an entry is `v` if some step wrote it, else unchanged -/
theorem foldl_write {n : Nat} (v : Num) (f : MM → Nat → MM) (C : Nat → Nat → Nat → Prop)
    (hf : ∀ m x, Dim n m → Dim n (f m x) ∧ ∀ j k,
      (C x j k → mmGet (f m x) j k = v) ∧ (¬ C x j k → mmGet (f m x) j k = mmGet m j k)) :
    ∀ (xs : List Nat) (m0 : MM), Dim n m0 →
      Dim n (xs.foldl f m0) ∧ ∀ j k,
        ((∃ x ∈ xs, C x j k) → mmGet (xs.foldl f m0) j k = v)
        ∧ ((¬ ∃ x ∈ xs, C x j k) → mmGet (xs.foldl f m0) j k = mmGet m0 j k) := by
  intro xs
  induction xs with
  | nil =>
    intro m0 h0
    refine ⟨h0, fun j k => ⟨?_, fun _ => rfl⟩⟩
    rintro ⟨x, hx, _⟩
    cases hx
  | cons x xs ih =>
    intro m0 h0
    obtain ⟨d1, g1⟩ := hf m0 x h0
    obtain ⟨d2, g2⟩ := ih (f m0 x) d1
    refine ⟨d2, ?_⟩
    intro j k
    rw [List.foldl_cons]
    classical
    by_cases h1 : ∃ y ∈ xs, C y j k
    · have hex : ∃ y ∈ x :: xs, C y j k := by
        obtain ⟨y, hy, hc⟩ := h1; exact ⟨y, List.mem_cons_of_mem _ hy, hc⟩
      exact ⟨fun _ => (g2 j k).1 h1, fun hn => absurd hex hn⟩
    · by_cases h2 : C x j k
      · have hex : ∃ y ∈ x :: xs, C y j k := ⟨x, List.mem_cons_self .., h2⟩
        exact ⟨fun _ => by rw [(g2 j k).2 h1, (g1 j k).1 h2], fun hn => absurd hex hn⟩
      · have hnex : ¬ ∃ y ∈ x :: xs, C y j k := by
          rintro ⟨y, hy, hc⟩
          rcases List.mem_cons.mp hy with rfl | hy
          · exact h2 hc
          · exact h1 ⟨y, hy, hc⟩
        exact ⟨fun he => absurd he hnex, fun _ => by rw [(g2 j k).2 h1, (g1 j k).2 h2]⟩

/-! ## the loops of the event loop -/

/-- zero row and column `p` (the matrix part of `-ej`) -/
def zeroRowCol (n p : Nat) (m0 : MM) : MM :=
  (List.range n).foldl (fun m k =>
    if k ≠ p then mmSet (mmSet m k p (.fin 0)) p k (.fin 0) else m) m0

/-- the same with the two writes in the other order (the loop of `-ema`) -/
def zeroRowCol' (n p : Nat) (m0 : MM) : MM :=
  (List.range n).foldl (fun m k =>
    if p ≠ k then mmSet (mmSet m p k (.fin 0)) k p (.fin 0) else m) m0

/-- the entry `(j, k)` lies in row or column `p` (off the diagonal, inside the matrix) -/
def InRowCol (n p j k : Nat) : Prop := p < n ∧ j ≠ k ∧ ((k = p ∧ j < n) ∨ (j = p ∧ k < n))

instance (n p j k : Nat) : Decidable (InRowCol n p j k) := by unfold InRowCol; infer_instance

theorem two_writes {n : Nat} {m : MM} (hm : Dim n m) (a b c d : Nat) (j k : Nat) :
    mmGet (mmSet (mmSet m a b (.fin 0)) c d (.fin 0)) j k
      = if (j = c ∧ k = d ∧ c < n ∧ d < n) ∨ (j = a ∧ k = b ∧ a < n ∧ b < n) then .fin 0 else mmGet m j k := by
  rw [mmGet_mmSet_dim (dim_mmSet hm _ _ _), mmGet_mmSet_dim hm]
  by_cases h1 : j = c ∧ k = d ∧ c < n ∧ d < n
  · simp [h1]
  · by_cases h2 : j = a ∧ k = b ∧ a < n ∧ b < n
    · simp [h1, h2]
    · simp [h1, h2]

theorem zeroRowCol_get {n : Nat} {m0 : MM} (h : Dim n m0) (p j k : Nat) :
    Dim n (zeroRowCol n p m0) ∧ mmGet (zeroRowCol n p m0) j k
      = if InRowCol n p j k then .fin 0 else mmGet m0 j k := by
  have := foldl_write (n := n) (.fin 0)
    (fun m x => if x ≠ p then mmSet (mmSet m x p (.fin 0)) p x (.fin 0) else m)
    (fun x j k => x ≠ p ∧ ((j = p ∧ k = x ∧ p < n ∧ x < n) ∨ (j = x ∧ k = p ∧ x < n ∧ p < n)))
    (by
      intro m x hm
      by_cases hx : x ≠ p
      · rw [if_pos hx]
        refine ⟨dim_mmSet (dim_mmSet hm _ _ _) _ _ _, ?_⟩
        intro j k
        rw [two_writes hm]
        exact ⟨fun c => by rw [if_pos c.2], fun c => by rw [if_neg (fun c' => c ⟨hx, c'⟩)]⟩
      · rw [if_neg hx]
        exact ⟨hm, fun j k => ⟨fun c => absurd c.1 hx, fun _ => rfl⟩⟩)
    (List.range n) m0 h
  refine ⟨this.1, ?_⟩
  unfold zeroRowCol
  by_cases hc : InRowCol n p j k
  · rw [if_pos hc]
    apply (this.2 j k).1
    obtain ⟨h1, h2, h3 | h3⟩ := hc
    · exact ⟨j, List.mem_range.mpr h3.2, by omega, Or.inr ⟨rfl, h3.1, h3.2, h1⟩⟩
    · exact ⟨k, List.mem_range.mpr h3.2, by omega, Or.inl ⟨h3.1, rfl, h1, h3.2⟩⟩
  · rw [if_neg hc]
    apply (this.2 j k).2
    rintro ⟨x, _, a, b | b⟩
    · exact hc ⟨b.2.2.1, by omega, Or.inr ⟨b.1, by omega⟩⟩
    · exact hc ⟨b.2.2.2, by omega, Or.inl ⟨b.2.1, by omega⟩⟩

theorem zeroRowCol'_get {n : Nat} {m0 : MM} (h : Dim n m0) (p j k : Nat) :
    Dim n (zeroRowCol' n p m0) ∧ mmGet (zeroRowCol' n p m0) j k
      = if InRowCol n p j k then .fin 0 else mmGet m0 j k := by
  have := foldl_write (n := n) (.fin 0)
    (fun m x => if p ≠ x then mmSet (mmSet m p x (.fin 0)) x p (.fin 0) else m)
    (fun x j k => p ≠ x ∧ ((j = x ∧ k = p ∧ x < n ∧ p < n) ∨ (j = p ∧ k = x ∧ p < n ∧ x < n)))
    (by
      intro m x hm
      by_cases hx : p ≠ x
      · rw [if_pos hx]
        refine ⟨dim_mmSet (dim_mmSet hm _ _ _) _ _ _, ?_⟩
        intro j k
        rw [two_writes hm]
        exact ⟨fun c => by rw [if_pos c.2], fun c => by rw [if_neg (fun c' => c ⟨hx, c'⟩)]⟩
      · rw [if_neg hx]
        exact ⟨hm, fun j k => ⟨fun c => absurd c.1 hx, fun _ => rfl⟩⟩)
    (List.range n) m0 h
  refine ⟨this.1, ?_⟩
  unfold zeroRowCol'
  by_cases hc : InRowCol n p j k
  · rw [if_pos hc]
    apply (this.2 j k).1
    obtain ⟨h1, h2, h3 | h3⟩ := hc
    · exact ⟨j, List.mem_range.mpr h3.2, by omega, Or.inl ⟨rfl, h3.1, h3.2, h1⟩⟩
    · exact ⟨k, List.mem_range.mpr h3.2, by omega, Or.inr ⟨h3.1, rfl, h1, h3.2⟩⟩
  · rw [if_neg hc]
    apply (this.2 j k).2
    rintro ⟨x, _, a, b | b⟩
    · exact hc ⟨b.2.2.2, by omega, Or.inl ⟨b.2.1, by omega⟩⟩
    · exact hc ⟨b.2.2.1, by omega, Or.inr ⟨b.1, by omega⟩⟩

theorem zeroJoined_eq (s : BState) (m : MM) :
    zeroJoined s m = s.joined.foldl (fun m j => zeroRowCol' s.numDemes j m) m := rfl

/-- `-ema`: rows and columns of the joined populations are zeroed, nothing else changes -/
theorem zeroJoined_get {s : BState} {m : MM} (h : Dim s.numDemes m) (j k : Nat) :
    Dim s.numDemes (zeroJoined s m) ∧ mmGet (zeroJoined s m) j k
      = if j ≠ k ∧ j < s.numDemes ∧ k < s.numDemes ∧ (s.joined.contains j = true ∨ s.joined.contains k = true)
        then .fin 0 else mmGet m j k := by
  have := foldl_write (n := s.numDemes) (.fin 0) (fun m x => zeroRowCol' s.numDemes x m)
    (fun x j k => InRowCol s.numDemes x j k)
    (by
      intro m x hm
      refine ⟨(zeroRowCol'_get hm x 0 0).1, ?_⟩
      intro j k
      rw [(zeroRowCol'_get hm x j k).2]
      exact ⟨fun c => by rw [if_pos c], fun c => by rw [if_neg c]⟩)
    s.joined m h
  rw [zeroJoined_eq]
  refine ⟨this.1, ?_⟩
  by_cases hc : j ≠ k ∧ j < s.numDemes ∧ k < s.numDemes ∧ (s.joined.contains j = true ∨ s.joined.contains k = true)
  · rw [if_pos hc]
    apply (this.2 j k).1
    obtain ⟨h1, h2, h3, h4 | h4⟩ := hc
    · exact ⟨j, by simpa using h4, h2, h1, Or.inr ⟨rfl, h3⟩⟩
    · exact ⟨k, by simpa using h4, h3, h1, Or.inl ⟨rfl, h2⟩⟩
  · rw [if_neg hc]
    apply (this.2 j k).2
    rintro ⟨x, hx, a, b, c | c⟩
    · exact hc ⟨b, c.2, by omega, Or.inr (by rw [c.1]; simpa using hx)⟩
    · exact hc ⟨b, by omega, c.2, Or.inl (by rw [c.1]; simpa using hx)⟩

/-- the matrix loop of `-eM` -/
def setAllLive (n : Nat) (joined : List Nat) (v : Num) (m0 : MM) : MM :=
  (List.range n).foldl (fun m j =>
    if joined.contains j then m else
    (List.range n).foldl (fun m k =>
      if j ≠ k && !joined.contains k then mmSet m j k v else m) m) m0

/-- `-eM`: every off-diagonal entry between two populations that are not joined is set -/
theorem setAllLive_get {n : Nat} {m0 : MM} (h : Dim n m0) (joined : List Nat) (v : Num) (j k : Nat) :
    Dim n (setAllLive n joined v m0) ∧ mmGet (setAllLive n joined v m0) j k
      = if j ≠ k ∧ j < n ∧ k < n ∧ joined.contains j = false ∧ joined.contains k = false then v
        else mmGet m0 j k := by
  have inner : ∀ (x : Nat) (m : MM), Dim n m →
      Dim n ((List.range n).foldl (fun m k => if x ≠ k && !joined.contains k then mmSet m x k v else m) m)
      ∧ ∀ j k,
        ((∃ y ∈ List.range n, (x ≠ y ∧ joined.contains y = false) ∧ j = x ∧ k = y ∧ x < n ∧ y < n) →
          mmGet ((List.range n).foldl (fun m k => if x ≠ k && !joined.contains k then mmSet m x k v else m) m) j k = v)
        ∧ ((¬ ∃ y ∈ List.range n, (x ≠ y ∧ joined.contains y = false) ∧ j = x ∧ k = y ∧ x < n ∧ y < n) →
          mmGet ((List.range n).foldl (fun m k => if x ≠ k && !joined.contains k then mmSet m x k v else m) m) j k
            = mmGet m j k) := by
    intro x m hm
    exact foldl_write (n := n) v (fun m k => if x ≠ k && !joined.contains k then mmSet m x k v else m)
      (fun y j k => (x ≠ y ∧ joined.contains y = false) ∧ j = x ∧ k = y ∧ x < n ∧ y < n)
      (by
        intro m y hm
        by_cases hy : (x ≠ y && !joined.contains y) = true
        · rw [if_pos hy]
          refine ⟨dim_mmSet hm _ _ _, ?_⟩
          intro j k
          rw [mmGet_mmSet_dim hm]
          exact ⟨fun c => by rw [if_pos c.2], fun c => by
            have hy' : x ≠ y ∧ joined.contains y = false := by simpa using hy
            rw [if_neg (fun c' => c ⟨hy', c'⟩)]⟩
        · rw [if_neg hy]
          exact ⟨hm, fun j k => ⟨fun c => absurd (by simpa using c.1) hy, fun _ => rfl⟩⟩)
      (List.range n) m hm
  have := foldl_write (n := n) v
    (fun m x => if joined.contains x then m else
      (List.range n).foldl (fun m k => if x ≠ k && !joined.contains k then mmSet m x k v else m) m)
    (fun x j k => joined.contains x = false ∧
      ∃ y ∈ List.range n, (x ≠ y ∧ joined.contains y = false) ∧ j = x ∧ k = y ∧ x < n ∧ y < n)
    (by
      intro m x hm
      by_cases hx : joined.contains x = true
      · rw [if_pos hx]
        exact ⟨hm, fun j k => ⟨fun c => by rw [hx] at c; exact absurd c.1 (by simp), fun _ => rfl⟩⟩
      · rw [if_neg hx]
        obtain ⟨d, g⟩ := inner x m hm
        have hx' : joined.contains x = false := by simpa using hx
        exact ⟨d, fun j k => ⟨fun c => (g j k).1 c.2, fun c => (g j k).2 (fun c' => c ⟨hx', c'⟩)⟩⟩)
    (List.range n) m0 h
  refine ⟨this.1, ?_⟩
  unfold setAllLive
  by_cases hc : j ≠ k ∧ j < n ∧ k < n ∧ joined.contains j = false ∧ joined.contains k = false
  · rw [if_pos hc]
    apply (this.2 j k).1
    exact ⟨j, List.mem_range.mpr hc.2.1, hc.2.2.2.1, k, List.mem_range.mpr hc.2.2.1, ⟨hc.1, hc.2.2.2.2⟩, rfl, rfl,
        hc.2.1, hc.2.2.1⟩
  · rw [if_neg hc]
    apply (this.2 j k).2
    rintro ⟨x, _, a, y, _, ⟨b1, b2⟩, c1, c2, c3, c4⟩
    subst c1 c2
    exact hc ⟨b1, c3, c4, a, b2⟩

end Demes.Proofs.FromMs
