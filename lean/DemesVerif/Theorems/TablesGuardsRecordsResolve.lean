/-
  Semantic tie of the validators of the event records `Split` / `Branch` / `Merge` / `Admix` (C14) and of
  `Deme` / `Graph` (C01, C03) to the Model.

  `Generated/GuardsRecords.lean` holds, regenerated on every run, the WHOLE BODY of each validator method
  (`__attrs_post_init__`, `_check_proportions`, `_check_ancestors`) of /repo's demes/demes.py compiled into a Lean
  `Bool` function "completes without raising" of the instance's fields (`if c: raise` ↦ `!c`; the loop over the
  proportions ↦ `List.all`, the module-level validators called in it being function parameters, instantiated
  below by the generated `guard_unit_interval` / `guard_positive` of group "Guards"; `len(set(x))` ↦ `pySetLen x`),
  and the single raising tests of `Graph.__attrs_post_init__` and of Deme's validators.  Each theorem says, for
  ALL inputs, that the generated function is the test the Model makes at that place (Model/Records.lean for the
  records, `addDemeHeader` and `resolveHeader` of Model/Resolve.lean for `Deme` and `Graph`).  A new, a deleted
  or a changed rejection in one of these methods makes a named theorem fail to compile.
-/
import DemesVerif.Generated.GuardsRecords
import DemesVerif.Generated.Guards
import DemesVerif.Proofs.GuardsRecords
import DemesVerif.Theorems.TablesGuardsRecords
namespace Demes.Tables
open Demes Demes.Proofs.Guards Demes.Proofs.GuardsRecords
set_option linter.unusedSimpArgs false

/-! ### `Deme` (Model: the part of `addDemeHeader` after "Deme(...) validators") -/

/-- the whole body of `_check_ancestors` is its two raising tests -/
theorem guards_deme_check_ancestors_body (name : String) (ancestors : List String) :
    Generated.deme_check_ancestors (self_name := name) (self_ancestors := ancestors)
      = (!Generated.guard_deme_duplicate_ancestors (len_set_self_ancestors := pySetLen ancestors)
            (len_self_ancestors := ancestors.length)
          && !Generated.guard_deme_own_ancestor (self_name := name) (self_ancestors := ancestors)) := rfl

/-- the whole body of `_check_proportions` is its raising test on the sum, then the two validators on each member -/
theorem guards_deme_check_proportions_body (proportions : List Num) (fu fp : Num → Bool) :
    Generated.deme_check_proportions (self_proportions := proportions) (unit_interval := fu) (positive := fp)
      = (!Generated.guard_deme_proportions_sum (len_self_proportions := proportions.length)
            (sum_self_proportions := Num.pysum proportions)
          && proportions.all (fun p => fu p && fp p)) := rfl

/-- the whole body of `Deme.__attrs_post_init__` is its raising test -/
theorem guards_deme_post_init_body (ancestors : List String) (proportions : List Num) :
    Generated.deme_post_init (self_ancestors := ancestors) (self_proportions := proportions)
      = !Generated.guard_deme_lengths (len_self_ancestors := ancestors.length)
          (len_self_proportions := proportions.length) := rfl

/-- `Deme._check_proportions` is `Merge._check_proportions` -/
theorem guards_deme_check_proportions_is_merge (proportions : List Num) (fu fp : Num → Bool) :
    Generated.deme_check_proportions (self_proportions := proportions) (unit_interval := fu) (positive := fp)
      = Generated.merge_check_proportions (self_proportions := proportions) (unit_interval := fu) (positive := fp) := rfl

theorem guard_deme_duplicate_ancestors_meaning (ancestors : List String) :
    Generated.guard_deme_duplicate_ancestors (len_set_self_ancestors := pySetLen ancestors)
      (len_self_ancestors := ancestors.length) = !decide ancestors.Nodup := by
  unfold Generated.guard_deme_duplicate_ancestors
  exact pySetLen_ne_length ancestors

theorem guard_deme_own_ancestor_meaning (name : String) (ancestors : List String) :
    Generated.guard_deme_own_ancestor (self_name := name) (self_ancestors := ancestors)
      = ancestors.contains name := rfl

theorem guard_deme_proportions_sum_meaning (proportions : List Q) :
    Generated.guard_deme_proportions_sum (len_self_proportions := proportions.length)
      (sum_self_proportions := Num.fin (qsum proportions))
      = (!proportions.isEmpty && !proportionsSumOk proportions) := by
  unfold Generated.guard_deme_proportions_sum proportionsSumOk
  rw [← relTol_eq]
  cases proportions <;> simp [Num.isclose]

theorem guard_deme_lengths_meaning (a b : Nat) :
    Generated.guard_deme_lengths (len_self_ancestors := a) (len_self_proportions := b) = true ↔ a ≠ b := by
  unfold Generated.guard_deme_lengths
  exact bne_iff_ne

theorem guard_deme_unit_interval_meaning (n : Num) :
    vWith (fun v => Generated.guard_unit_interval (value := v)) "must have 0 <= x <= 1" n = vUnitInterval n := by
  unfold vWith vUnitInterval Generated.guard_unit_interval Num.zero Num.one
  cases h : (Num.le (Num.fin 0) n && Num.le n (Num.fin 1)) <;> simp [h]

theorem guard_deme_positive_meaning (n : Num) :
    vWith (fun v => Generated.guard_positive (value := v)) "must be greater than zero" n = vPositive n := by
  unfold vWith vPositive Generated.guard_positive Num.zero
  rfl

/-- `addDemeHeader` makes exactly the tests of `Deme._check_ancestors`, `Deme._check_proportions` (the sum test
and, on each member, `unit_interval` and `positive`) and `Deme.__attrs_post_init__` -/
theorem guards_tie_deme_validators : addDemeHeader = addDemeHeaderWith2
    (fun ls l => Generated.guard_deme_duplicate_ancestors (len_set_self_ancestors := ls) (len_self_ancestors := l))
    (fun name anc => Generated.guard_deme_own_ancestor (self_name := name) (self_ancestors := anc))
    (fun v => Generated.guard_unit_interval (value := v))
    (fun v => Generated.guard_positive (value := v))
    (fun l s => Generated.guard_deme_proportions_sum (len_self_proportions := l) (sum_self_proportions := s))
    (fun la lp => Generated.guard_deme_lengths (len_self_ancestors := la) (len_self_proportions := lp)) := by
  funext g nameV descriptionV ancestorsV proportionsV startTimeV
  unfold addDemeHeader addDemeHeaderWith2
  simp only [guard_deme_duplicate_ancestors_meaning, guard_deme_own_ancestor_meaning,
    guard_deme_proportions_sum_meaning, guard_deme_lengths_meaning, guard_deme_unit_interval_meaning,
    guard_deme_positive_meaning]
  first | done | rfl

/-! ### `Graph.__attrs_post_init__` (Model: the end of `resolveHeader`) -/

theorem guard_graph_units_need_generation_time_meaning (timeUnits : String) (gt : Option Q) :
    Generated.guard_graph_units_need_generation_time (self_time_units := timeUnits)
      (self_generation_time_is_None := gt.isNone) = (decide (timeUnits ≠ "generations") && gt.isNone) := by
  unfold Generated.guard_graph_units_need_generation_time
  by_cases h : timeUnits = "generations" <;> simp [h, bne]

theorem guard_graph_generations_meaning (timeUnits : String) (gt : Q) :
    Generated.guard_graph_generations (self_time_units := timeUnits) (self_generation_time := Num.fin gt)
      = (decide (timeUnits = "generations") && decide (gt ≠ 1)) := by
  unfold Generated.guard_graph_generations
  by_cases h : timeUnits = "generations" <;> by_cases h1 : gt = 1 <;> simp [h, h1, Num.eqIEEE]

/-- between the two tests the method fills in the default: `generation_time = 1` when it is `None`
(Model: `gt.getD 1`) -/
theorem guards_graph_post_init_default : Generated.graphPostInitOther =
    [(1, "if self.generation_time is None: self.generation_time = 1")] := by decide +kernel

/-- `resolveHeader` makes exactly the two tests of `Graph.__attrs_post_init__`, the first on whether
`generation_time` was given, the second on its value after the default -/
theorem guards_tie_graph_post_init : resolveHeader = resolveHeaderWith
    (fun u isNone => Generated.guard_graph_units_need_generation_time (self_time_units := u)
      (self_generation_time_is_None := isNone))
    (fun u gt => Generated.guard_graph_generations (self_time_units := u) (self_generation_time := gt)) := by
  funext data
  unfold resolveHeader resolveHeaderWith
  simp only [guard_graph_units_need_generation_time_meaning, guard_graph_generations_meaning]
  first | done | rfl

/-! ### non-vacuity: the abstracted tests matter, and the real tests do refuse -/

-- `addDemeHeaderWith2`: a child of `a` and `b` starting at 5 with proportions 1/4, 3/4 — each abstracted test, set to
-- `addDemeHeaderWith2`: a child of `a` and `b` starting at 5 with proportions 1/4, 3/4 — each abstracted test, set to
-- "raise", refuses it
example :
    let anc := some (Value.list [.str "a", .str "b"])
    let props := some (Value.list [num (1/4), num (3/4)])
    let f := fun (_ _ : Nat) => false
    let fo := fun (_ : String) (_ : List String) => false
    let fn := fun (_ : Num) => false
    let fs := fun (_ : Nat) (_ : Num) => false
    (addDemeHeader exGraph (.str "c") (.str "") anc props (some (num 5))).isOk = true
    ∧ (addDemeHeaderWith2 f fo fn fn fs f exGraph (.str "c") (.str "") anc props (some (num 5))).isOk = true
    ∧ (addDemeHeaderWith2 (fun _ _ => true) fo fn fn fs f exGraph (.str "c") (.str "") anc props (some (num 5))).isOk = false
    ∧ (addDemeHeaderWith2 f (fun _ _ => true) fn fn fs f exGraph (.str "c") (.str "") anc props (some (num 5))).isOk = false
    ∧ (addDemeHeaderWith2 f fo (fun _ => true) fn fs f exGraph (.str "c") (.str "") anc props (some (num 5))).isOk = false
    ∧ (addDemeHeaderWith2 f fo fn (fun _ => true) fs f exGraph (.str "c") (.str "") anc props (some (num 5))).isOk = false
    ∧ (addDemeHeaderWith2 f fo fn fn (fun _ _ => true) f exGraph (.str "c") (.str "") anc props (some (num 5))).isOk = false
    ∧ (addDemeHeaderWith2 f fo fn fn fs (fun _ _ => true) exGraph (.str "c") (.str "") anc props (some (num 5))).isOk = false := by
  decide +kernel
-- the real tests: a repeated ancestor; proportions summing to 1 + 2⁻²⁹; a zero proportion; one proportion missing
example :
    (addDemeHeader exGraph (.str "c") (.str "") (some (.list [.str "b", .str "b"]))
        (some (.list [num (1/2), num (1/2)])) (some (num 5))).isOk = false
    ∧ (addDemeHeader exGraph (.str "c") (.str "") (some (.list [.str "a", .str "b"]))
        (some (.list [num (1/2), num (1/2 + 1/2^29)])) (some (num 5))).isOk = false
    ∧ (addDemeHeader exGraph (.str "c") (.str "") (some (.list [.str "a", .str "b"]))
        (some (.list [num (1/2), num (1/2 + 1/2^31)])) (some (num 5))).isOk = true
    ∧ (addDemeHeader exGraph (.str "c") (.str "") (some (.list [.str "a", .str "b"]))
        (some (.list [num 1, num 0])) (some (num 5))).isOk = false
    ∧ (addDemeHeader exGraph (.str "c") (.str "") (some (.list [.str "a", .str "b"]))
        (some (.list [num 1])) (some (num 5))).isOk = false := by
  decide +kernel
-- `resolveHeaderWith`: years without a generation time; generations with generation time 2
example :
    let years : Obj := [("time_units", .str "years")]
    let gens2 : Obj := [("time_units", .str "generations"), ("generation_time", num 2)]
    let ok : Obj := [("time_units", .str "years"), ("generation_time", num 25)]
    (resolveHeader years).isOk = false ∧ (resolveHeader gens2).isOk = false ∧ (resolveHeader ok).isOk = true
    ∧ (resolveHeaderWith (fun _ _ => false) (fun _ _ => false) years).isOk = true
    ∧ (resolveHeaderWith (fun _ _ => false) (fun _ _ => false) gens2).isOk = true
    ∧ (resolveHeaderWith (fun _ _ => true) (fun _ _ => false) ok).isOk = false
    ∧ (resolveHeaderWith (fun _ _ => false) (fun _ _ => true) ok).isOk = false := by
  decide +kernel

end Demes.Tables
