/-
  Support for `Theorems/TablesGuardsViews.lean` (C14).  Nothing here depends on `Generated/`.

  `discreteEventsWith`: `Demes.discreteEvents` (Model of `Graph.discrete_demographic_events`) written once
  more with its four tests abstracted, in the shape of the source:

      for c, p in self.predecessors().items():
          if gNone(len(p)): continue
          elif gOne(len(p)):
              if gSplit(self[c].start_time, self[p[0]].end_time): splits_to_add[p[0]].add(c)     (after setdefault)
              else: branches.append(Branch(parent=p[0], child=c, time=self[c].start_time))
          else:
              time_aligned = no deme_from in p has gMisaligned(self[c].start_time, self[deme_from].end_time)
              if time_aligned: mergers.append(Merge(parents=self[c].ancestors, proportions=self[c].proportions, child=c, time=self[c].start_time))
              else:            admixtures.append(Admix(... the same fields ...))
      for deme_from, demes_to in splits_to_add.items():
          splits.append(Split(parent=deme_from, children=list(demes_to), time=self[deme_from].end_time))

  It is not trusted for anything: it only occurs on the right-hand side of `guards_tie_discrete_events`.
-/
import DemesVerif.Model.NumClose
import DemesVerif.Model.Views
import DemesVerif.Proofs.Guards
namespace Demes.Proofs.Guards2
open Demes

def discreteEventsWith (gNone gOne : Nat → Bool) (gSplit gMisaligned : Num → Num → Bool) (g : Graph) : Option Events := do
  let init : Events × NameMap := ({ pulses := g.pulses, splits := [], branches := [], mergers := [], admixtures := [] }, [])
  let (ev, splitsToAdd) ← (predecessors g).foldlM (fun (acc : Events × NameMap) (cp : String × List String) => do
    let (ev, sp) := acc
    let (c, p) := cp
    if gNone p.length then pure (ev, sp)
    else if gOne p.length then
      match p with
      | [] => none                      -- `p[0]` raises IndexError
      | p0 :: _ =>
        let cd ← g.deme? c
        let pd ← g.deme? p0
        if gSplit (Num.ofETime cd.startTime) (Num.fin pd.endTime) then
          pure (ev, (sp.setDefault p0).append p0 c)
        else
          pure ({ ev with branches := ev.branches ++ [{ parent := p0, child := c, time := cd.startTime }] }, sp)
    else
      let cd ← g.deme? c
      let ends ← p.mapM (fun a => (g.deme? a).map (fun d => ETime.fin d.endTime))
      let aligned := ends.all (fun e => !gMisaligned (Num.ofETime cd.startTime) (Num.ofETime e))
      let e : MergeEv := { parents := cd.ancestors, proportions := cd.proportions, child := c, time := cd.startTime }
      if aligned then pure ({ ev with mergers := ev.mergers ++ [e] }, sp)
      else pure ({ ev with admixtures := ev.admixtures ++ [e] }, sp)) init
  let splits ← splitsToAdd.mapM (fun (kv : String × List String) => do
    let pd ← g.deme? kv.1
    pure ({ parent := kv.1, children := kv.2, time := pd.endTime } : SplitEv))
  pure { ev with splits := splits }

/-- IEEE `==` on two validated times is equality -/
theorem eqIEEE_ofETime (a b : ETime) : Num.eqIEEE (Num.ofETime a) (Num.ofETime b) = decide (a = b) := by
  cases a <;> cases b <;> simp [Num.ofETime, Guards.eqIEEE_fin_fin, Guards.eqIEEE_fin_pinf,
    Guards.eqIEEE_pinf_fin, Guards.eqIEEE_pinf_pinf]

/-! ### a graph for the examples: `B` splits off `A` at 100 (A ends at 100), `C` branches off `B` at 50
(B ends at 0), `D` merges `B` and `C` at 0... -/

end Demes.Proofs.Guards2
