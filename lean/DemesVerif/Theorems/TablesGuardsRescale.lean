/-
  Semantic tie of `Graph.in_generations` (C11): which attributes are divided by `graph.generation_time`,
  in which loops, and what is set afterwards.

  `Generated.inGenerationsUpdates` is the table of the function's update statements (one row each, in source
  order); `applyUpdates` (Proofs/Guards2Updates.lean) gives a row its meaning on the Model's graph.  The Model's
  `inGenerations` is proved equal to the interpretation of the generated table for ALL graphs: dividing another
  attribute (or not dividing one), walking another list, setting `generation_time` before the divisions, another
  unit string — each gives a different function and the theorem fails.  Every statement that is not an update is
  pinned in `guards_in_generations_other`.
-/
import DemesVerif.Generated.GuardsRescale
import DemesVerif.Proofs.Guards2Updates
import DemesVerif.Proofs.Guards
namespace Demes.Tables
open Demes Demes.Proofs.Guards2
set_option linter.unusedSimpArgs false

theorem guards_tie_in_generations (g : Graph) :
    applyUpdates [] Generated.inGenerationsUpdates g = some (inGenerations g) := by
  simp [applyUpdates, Generated.inGenerationsUpdates, applyUpdate, divUpdate, inGenerations,
    mapDemes, mapEpochs, mapMigrations, mapPulses, List.map_map, Function.comp_def,
    Deme.scale, Epoch.scale, Migration.scale, Pulse.scale]

/-- the statements of `in_generations` that are not updates: the deep copy (see `fact_in_generations_copies_first`),
the assertion that a generation time is present (always, in a resolved graph) and the return -/
theorem guards_in_generations_other : Generated.inGenerationsOther =
    [("v0 = copy.deepcopy(self)", [], 0), ("assert v0.generation_time is not None", [], 0),
     ("return v0", [], 8)] := by decide +kernel

/-! ### the interpreter distinguishes tables (closed instances on `exGraphM` with a generation time of 2) -/

section sensitivity
open Demes.Proofs.Guards

def exGraph2 : Graph := { exGraphM with timeUnits := "years", generationTime := 2 }

example : (inGenerations exGraph2).migrations
    = [{ source := "a", dest := "b", startTime := .fin 4, endTime := 1, rate := 1/10 }] := by decide +kernel
-- a row the interpreter does not know
example : (applyUpdates [] [(["demes"], "name", "Div", "generation_time")] exGraph2).isSome = false := by decide +kernel
example : (applyUpdates [] [(["demes"], "start_time", "Mult", "generation_time")] exGraph2).isSome = false := by decide +kernel
-- dividing the rate as well gives another graph
example : (applyUpdates [] (Generated.inGenerationsUpdates ++ [(["migrations"], "rate", "Div", "generation_time")])
      exGraph2).map (·.migrations)
    = some [{ source := "a", dest := "b", startTime := .fin 4, endTime := 1, rate := 1/10 }] := by decide +kernel
example : (applyUpdates [] ((["migrations"], "rate", "Div", "generation_time") :: Generated.inGenerationsUpdates)
      exGraph2).map (·.migrations)
    = some [{ source := "a", dest := "b", startTime := .fin 4, endTime := 1, rate := 1/20 }] := by decide +kernel
-- setting the generation time first makes every division a division by 1
example : (applyUpdates [] (([], "generation_time", "SetInt", "1") :: Generated.inGenerationsUpdates) exGraph2).map (·.migrations)
    = some [{ source := "a", dest := "b", startTime := .fin 8, endTime := 2, rate := 1/10 }] := by decide +kernel

end sensitivity

end Demes.Tables
