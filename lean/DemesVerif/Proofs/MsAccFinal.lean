/-
  C09, first sentence — acceptance of the `to_ms` output by `from_ms`: assembly.

  parser (`MsAccParse`) → event loop (`MsAccProgress`) → invariant of the event loop (`MsAccInv`, with
  `MsAccFrag` for the conditions on the time groups and `MsAccMig` for the matrix history) → migrations of
  the document (`MsAccDocMigs`) → `finishDoc`, the document in closed form and its validity (`MsAccFinish`,
  `MsAccFill`) → `resolve` (C03's completeness) → `from_ms`.
-/
import DemesVerif.Proofs.MsAccParse
import DemesVerif.Proofs.MsAccFrag
import DemesVerif.Proofs.MsAccInv
import DemesVerif.Proofs.MsAccMig
import DemesVerif.Proofs.MsAccDocMigs
import DemesVerif.Proofs.MsAccFinish
namespace Demes.Proofs.MsAcc
open Demes Demes.Ms Demes.Spec Demes.Spec.C07 Demes.Spec.C09
open Demes.Spec.MsSem (msSem graphSem)
open Demes.Spec.C08 (ArgsAgree runState Tame' resultSem semEquiv)
open Demes.Proofs.FromMs (buildState finishDoc buildDoc_eq NameInv)
open Demes.Proofs.ToMs (headerOf finalEvs clauses_of_valid expr_inGen)
open Demes.Proofs.MsRT (prOf tame_toMs constSizes_inGen)

/-- `from_ms` from its stages -/
theorem fromMs_ok_of {c : List String} {N0 : Q} {args : Args} {s : BState} {doc : MsDoc} {g : Graph}
    (h1 : parseKnownArgs c = .ok args) (h2 : buildState args N0 = .ok s) (h3 : finishDoc N0 s = .ok doc)
    (h4 : Demes.resolve (doc.toValue (placeholders doc)) = .ok g) :
    fromMs c N0 none = .ok { graph := g, table := placeholders doc, doc := doc } := by
  have hd : buildDoc args N0 = .ok doc := by
    rw [buildDoc_eq, h2]; exact h3
  unfold fromMs buildGraph
  simp only [h1, hd, h4, bind, Except.bind, pure, Except.pure]

/-- **Layers 3 and 4 (after the event loop).**  For a valid ms-expressible graph of constant sizes with tame
pulses: on the arguments argparse reads off the printed command the event loop ends in a state `s` that
satisfies the invariant `AccInv` (demes, ancestry, pulses) and `MigWF` (matrix history); `finishDoc`
(growth rates of the oldest epochs, migrations from the matrices, transient demes, sort) succeeds; the
document has the shape `DocShape`, and the explicit graph `docGraph` it denotes is valid — so that
`resolve` returns that graph. -/
theorem toMs_output_finishDoc_ok (c : NumCodec) (sa : Growth → String) {g : Graph} (hv : validGraph g = true)
    (hx : MsExpressible g = true) (hcs : ConstSizes g = true) (hpt : PulsesTame g = true) {N0 : Q} (hN : 0 < N0)
    {samples : Option (List Int)} (hs : samplesOk g samples = true) {toks : List (Tok Growth)}
    (htoks : toMs g N0 samples = .ok toks) (hc : CodecCovers c toks) :
    ∃ args s T doc, parseKnownArgs (renderG c sa toks) = .ok args ∧ buildState args N0 = .ok s
      ∧ AccInv T s ∧ NameInv s ∧ MigWF N0 s
      ∧ finishDoc N0 s = .ok doc ∧ DocShape doc ∧ (∀ tab, validGraph (docGraph tab doc) = true)
      ∧ ∀ tab, Demes.resolve (doc.toValue tab) = .ok (docGraph tab doc) := by
  obtain ⟨args, σ, s, hargs, ha, hσ, hb⟩ := toMs_output_buildState_ok c sa hv hx hcs hN hs htoks hc
  have ht : Tame' (prG g N0 samples) = true := tame_toMs hv hx hcs hpt hN samples
  have hf := groupsFrag_toMs hv hx hcs hpt hN samples
  obtain ⟨T, hinv, hn⟩ := buildState_accInv ha ht hf hb hσ
  have cl := clauses_of_valid (InGen.inGenerations_valid g hv)
  have hx' : MsExpressible (inGenerations g) = true := by rw [expr_inGen]; exact hx
  have hcs' : ConstSizes (inGenerations g) = true := by rw [constSizes_inGen]; exact hcs
  have hw : MigWF N0 s := migWF_finalEvs cl hx' hcs' hN samples ha hb
  obtain ⟨migs0, hm⟩ := MsAcc.addMigrations_ok hw hinv.pos _ rfl
  have hmw := docMigsWF_of_migWF hN hw hm
  obtain ⟨doc, hfin, hshape, hvalid⟩ := finish_accepts hN hinv hn hm hmw
  exact ⟨args, s, T, doc, hargs, hb, hinv, hn, hw, hfin, hshape, hvalid,
    fun tab => resolve_doc_of_valid tab doc hshape (hvalid tab)⟩

/-- **Acceptance.**  `from_ms` accepts the command `to_ms` prints for every valid ms-expressible graph of
constant sizes whose pulses are tame, for every `N0 > 0`, well-formed `samples`, and number codec that
covers the numbers of the command; the graph it returns is the explicit graph `docGraph` of the document
`build_graph` assembles. -/
theorem ms_roundtrip_accepts (c : NumCodec) (sa : Growth → String) {g : Graph} (hv : validGraph g = true)
    (hx : MsExpressible g = true) (hcs : ConstSizes g = true) (hpt : PulsesTame g = true) {N0 : Q} (hN : 0 < N0)
    {samples : Option (List Int)} (hs : samplesOk g samples = true) {toks : List (Tok Growth)}
    (htoks : toMs g N0 samples = .ok toks) (hc : CodecCovers c toks) :
    ∃ mg, fromMs (renderG c sa toks) N0 none = .ok mg ∧ mg.graph = docGraph mg.table mg.doc := by
  obtain ⟨args, s, T, doc, hargs, hb, _, _, _, hfin, _, _, hres⟩ :=
    toMs_output_finishDoc_ok c sa hv hx hcs hpt hN hs htoks hc
  exact ⟨_, fromMs_ok_of hargs hb hfin (hres (placeholders doc)), rfl⟩

/-- **Graph → ms → graph**, without the acceptance hypothesis: `ms_roundtrip_sem_tame` with acceptance
discharged by `ms_roundtrip_accepts`. -/
theorem ms_roundtrip_sem (c : NumCodec) (sa : Growth → String) {g : Graph} (hv : validGraph g = true)
    (hx : MsExpressible g = true) (hex : ExactProportions g = true) (hcs : ConstSizes g = true)
    (hpt : PulsesTame g = true)
    {N0 : Q} (hN : 0 < N0) {samples : Option (List Int)} (hs : samplesOk g samples = true)
    {toks : List (Tok Growth)} (htoks : toMs g N0 samples = .ok toks) (hc : CodecCovers c toks) :
    ∃ mg sem rs gs, fromMs (renderG c sa toks) N0 none = .ok mg
      ∧ msSem (renderG c sa toks) N0 = .ok sem ∧ resultSem mg = .ok rs
      ∧ graphSem (inGenerations g) none = .ok gs
      ∧ semEquiv sem rs = true ∧ SemRefines sem gs ∧ SemRefines rs gs := by
  obtain ⟨mg, hfrom, _⟩ := ms_roundtrip_accepts c sa hv hx hcs hpt hN hs htoks hc
  obtain ⟨sem, rs, gs, h⟩ := MsRT.ms_roundtrip_sem_tame c sa hv hx hex hcs hpt hN hs htoks hc hfrom
  exact ⟨mg, sem, rs, gs, hfrom, h⟩

#print axioms toMs_output_finishDoc_ok
#print axioms ms_roundtrip_accepts
#print axioms ms_roundtrip_sem

end Demes.Proofs.MsAcc
