/-
  C01 — generic lemmas: `Except` do-blocks, fold invariants, validators, sums, closeness.
-/
import DemesVerif.Proofs.MatRates
import DemesVerif.Model.Resolve
namespace Demes.Proofs.RV
open Demes Demes.Spec

/-! ### `Except Err` do-blocks -/

theorem bind_ok {α β} {x : Except Err α} {f : α → Except Err β} {b : β} :
    (x >>= f) = .ok b ↔ ∃ a, x = .ok a ∧ f a = .ok b := by
  cases x <;> simp [bind, Except.bind]

theorem pure_ok {α} {a b : α} : (pure a : Except Err α) = .ok b ↔ a = b := by
  simp [pure, Except.pure]

theorem valueErr_ok {α} {m : String} {a : α} : (valueErr m : Except Err α) = .ok a ↔ False := by
  simp [valueErr]
theorem typeErr_ok {α} {m : String} {a : α} : (typeErr m : Except Err α) = .ok a ↔ False := by
  simp [typeErr]
theorem keyErr_ok {α} {m : String} {a : α} : (keyErr m : Except Err α) = .ok a ↔ False := by
  simp [keyErr]

theorem ite_ok {α} {c : Prop} [Decidable c] {x y : Except Err α} {a : α} :
    (if c then x else y) = .ok a ↔ (c ∧ x = .ok a) ∨ (¬c ∧ y = .ok a) := by
  split <;> simp [*]

theorem valueErr_bind_ok {α β} {m : String} {f : α → Except Err β} {b : β} :
    ((valueErr m : Except Err α) >>= f) = .ok b ↔ False := by simp [valueErr, bind, Except.bind]
theorem typeErr_bind_ok {α β} {m : String} {f : α → Except Err β} {b : β} :
    ((typeErr m : Except Err α) >>= f) = .ok b ↔ False := by simp [typeErr, bind, Except.bind]
theorem keyErr_bind_ok {α β} {m : String} {f : α → Except Err β} {b : β} :
    ((keyErr m : Except Err α) >>= f) = .ok b ↔ False := by simp [keyErr, bind, Except.bind]

theorem ite_verr {α β} {c : Prop} [Decidable c] {m : String} {f : α → Except Err β} {y : Except Err β} {b : β}
    (h : (if c then ((valueErr m : Except Err α) >>= f) else y) = .ok b) : ¬c ∧ y = .ok b := by
  split at h
  · exact (valueErr_bind_ok.1 h).elim
  · exact ⟨‹_›, h⟩

theorem ite_kerr {α β} {c : Prop} [Decidable c] {m : String} {f : α → Except Err β} {y : Except Err β} {b : β}
    (h : (if c then ((keyErr m : Except Err α) >>= f) else y) = .ok b) : ¬c ∧ y = .ok b := by
  split at h
  · exact (keyErr_bind_ok.1 h).elim
  · exact ⟨‹_›, h⟩

theorem pbind {α β} {a : α} {f : α → Except Err β} {b : β}
    (h : ((pure a : Except Err α) >>= f) = .ok b) : f a = .ok b := h

theorem discard_ok {α} {x : Except Err α} {u : Unit} : discard x = .ok u ↔ ∃ a, x = .ok a := by
  cases x <;> simp [discard, Except.map]

/-- the generic loop invariant: a property that holds at the start and is preserved by every
successful step holds at the end of a successful `foldlM` -/
theorem foldlM_inv {σ α} (P : σ → Prop) (step : σ → α → Except Err σ)
    (hstep : ∀ s a s', P s → step s a = .ok s' → P s') :
    ∀ (xs : List α) (s s' : σ), P s → List.foldlM step s xs = .ok s' → P s' := by
  intro xs
  induction xs with
  | nil => intro s s' hs h; simp only [List.foldlM_nil, pure_ok] at h; exact h ▸ hs
  | cons x xs ih =>
    intro s s' hs h
    simp only [List.foldlM_cons, bind_ok] at h
    obtain ⟨s1, h1, h2⟩ := h
    exact ih s1 s' (hstep s x s1 hs h1) h2

/-- a counter that every step increases by one has increased by the length of the list -/
theorem foldlM_count {σ α} (c : σ → Nat) (step : σ → α → Except Err σ)
    (hstep : ∀ s a s', step s a = .ok s' → c s' = c s + 1) :
    ∀ (xs : List α) (s s' : σ), List.foldlM step s xs = .ok s' → c s' = c s + xs.length := by
  intro xs
  induction xs with
  | nil => intro s s' h; simp only [List.foldlM_nil, pure_ok] at h; subst h; rfl
  | cons x xs ih =>
    intro s s' h
    simp only [List.foldlM_cons, bind_ok] at h
    obtain ⟨s1, h1, h2⟩ := h
    rw [ih s1 s' h2, hstep s x s1 h1, List.length_cons]; omega

theorem mapM_ok {α β} (f : α → Except Err β) :
    ∀ (xs : List α) (ys : List β), xs.mapM f = .ok ys →
      ys.length = xs.length ∧ ∀ y ∈ ys, ∃ x ∈ xs, f x = .ok y := by
  intro xs
  induction xs with
  | nil =>
    intro ys h; simp only [List.mapM_nil, pure_ok] at h; subst h
    exact ⟨rfl, fun y hy => by cases hy⟩
  | cons x xs ih =>
    intro ys h
    simp only [List.mapM_cons, bind_ok, pure_ok] at h
    obtain ⟨y, hy, ys', hys, rfl⟩ := h
    obtain ⟨h1, h2⟩ := ih ys' hys
    refine ⟨by simp [h1], ?_⟩
    intro z hz
    rcases List.mem_cons.1 hz with rfl | hz
    · exact ⟨x, List.mem_cons_self, hy⟩
    · obtain ⟨w, hw, hfw⟩ := h2 z hz
      exact ⟨w, List.mem_cons_of_mem _ hw, hfw⟩

theorem forM_ok {α} (f : α → Except Err Unit) :
    ∀ (xs : List α), xs.forM f = .ok () → ∀ x ∈ xs, f x = .ok () := by
  intro xs
  induction xs with
  | nil => intro _ x hx; cases hx
  | cons x xs ih =>
    intro h y hy
    simp only [List.forM, bind_ok] at h
    obtain ⟨u, h1, h2⟩ := h
    rcases List.mem_cons.1 hy with rfl | hy
    · exact h1
    · exact ih h2 y hy

/-! ### validators -/

theorem intOrFloat_ok {v : Value} {n : Num} (h : intOrFloat v = .ok n) :
    v.asNumRaw? = some n ∧ n.isNan = false := by
  unfold intOrFloat at h
  split at h
  · rename_i m hm
    simp only [ite_ok, typeErr_ok, pure_ok, and_false, false_or] at h
    obtain ⟨h1, rfl⟩ := h
    exact ⟨hm, by simpa using h1⟩
  · exact (typeErr_ok.1 h).elim

theorem toQ_ok {n : Num} {q : Q} (h : toQ n = .ok q) : n = .fin q := by
  unfold toQ at h
  split at h
  · rw [pure_ok] at h; rw [h]
  · exact (valueErr_ok.1 h).elim

theorem toETime_ok {n : Num} {t : ETime} (h : toETime n = .ok t) : n = Num.ofETime t := by
  unfold toETime at h
  split at h
  · rw [pure_ok] at h; subst h; rfl
  · rw [pure_ok] at h; subst h; rfl
  · exact (valueErr_ok.1 h).elim

theorem vPositive_ok {n : Num} {u : Unit} (h : vPositive n = .ok u) : Num.le n Num.zero = false := by
  simp only [vPositive, ite_ok, valueErr_ok, and_false, false_or] at h
  simpa using h.1

theorem vNonNegative_ok {n : Num} {u : Unit} (h : vNonNegative n = .ok u) :
    Num.lt n Num.zero = false := by
  simp only [vNonNegative, ite_ok, valueErr_ok, and_false, false_or] at h
  simpa using h.1

theorem vUnitInterval_ok {n : Num} {u : Unit} (h : vUnitInterval n = .ok u) :
    Num.le Num.zero n = true ∧ Num.le n Num.one = true := by
  simp only [vUnitInterval, ite_ok, valueErr_ok, and_false, or_false] at h
  simpa using h.1

theorem vUnitIntervalExLo_ok {n : Num} {u : Unit} (h : vUnitIntervalExLo n = .ok u) :
    Num.lt Num.zero n = true ∧ Num.le n Num.one = true := by
  simp only [vUnitIntervalExLo, ite_ok, valueErr_ok, and_false, or_false] at h
  simpa using h.1

theorem posFiniteQ_ok {v : Value} {q : Q} (h : posFiniteQ v = .ok q) :
    v.asNumRaw? = some (.fin q) ∧ 0 < q := by
  simp only [posFiniteQ, bind_ok] at h
  obtain ⟨n, h1, _, h2, _, _, h4⟩ := h
  have hn := toQ_ok h4; subst hn
  refine ⟨(intOrFloat_ok h1).1, ?_⟩
  have := vPositive_ok h2
  simpa [Num.le, Num.zero, Rat.not_le] using this

theorem nonNegFiniteQ_ok {v : Value} {q : Q} (h : nonNegFiniteQ v = .ok q) :
    v.asNumRaw? = some (.fin q) ∧ 0 ≤ q := by
  simp only [nonNegFiniteQ, bind_ok] at h
  obtain ⟨n, h1, _, h2, _, _, h4⟩ := h
  have hn := toQ_ok h4; subst hn
  refine ⟨(intOrFloat_ok h1).1, ?_⟩
  have := vNonNegative_ok h2
  simpa [Num.lt, Num.zero, Rat.not_lt] using this

theorem unitQ_ok {v : Value} {q : Q} (h : unitQ v = .ok q) : 0 ≤ q ∧ q ≤ 1 := by
  simp only [unitQ, bind_ok] at h
  obtain ⟨n, _, _, h2, h4⟩ := h
  have hn := toQ_ok h4; subst hn
  have := vUnitInterval_ok h2
  simpa [Num.le, Num.zero, Num.one] using this

theorem unitExLoQ_ok {v : Value} {q : Q} (h : unitExLoQ v = .ok q) : 0 < q ∧ q ≤ 1 := by
  simp only [unitExLoQ, bind_ok] at h
  obtain ⟨n, _, _, h2, h4⟩ := h
  have hn := toQ_ok h4; subst hn
  have := vUnitIntervalExLo_ok h2
  simpa [Num.le, Num.lt, Num.zero, Num.one] using this

theorem nonNegTime_ok {v : Value} {t : ETime} (h : nonNegTime v = .ok t) :
    v.asNumRaw? = some (Num.ofETime t) ∧ ETime.fin 0 ≤ t := by
  simp only [nonNegTime, bind_ok] at h
  obtain ⟨n, h1, _, h2, h4⟩ := h
  have hn := toETime_ok h4; subst hn
  refine ⟨(intOrFloat_ok h1).1, ?_⟩
  have := vNonNegative_ok h2
  cases t with
  | inf => trivial
  | fin q =>
    show (0 : Q) ≤ q
    simpa [Num.lt, Num.zero, Num.ofETime, Rat.not_lt] using this

theorem instStr_ok {v : Value} {s : String} (h : instStr v = .ok s) : v = .str s := by
  unfold instStr at h
  split at h
  · rw [pure_ok] at h; rw [h]
  · exact (typeErr_ok.1 h).elim

theorem instList_ok {v : Value} {xs : List Value} (h : instList v = .ok xs) : v = .list xs := by
  unfold instList at h
  split at h
  · rw [pure_ok] at h; rw [h]
  · exact (typeErr_ok.1 h).elim

/-! ### `Num` against `ETime` -/

theorem ofETime_inj {a b : ETime} (h : Num.ofETime a = Num.ofETime b) : a = b := by
  cases a <;> cases b <;> simp_all [Num.ofETime]

theorem num_lt_ofETime {a b : ETime} (h : Num.lt (Num.ofETime a) (Num.ofETime b) = true) : a < b := by
  cases a <;> cases b <;> simp_all [Num.ofETime, Num.lt] <;> first | exact h | trivial

theorem num_le_ofETime {a b : ETime} (h : Num.le (Num.ofETime a) (Num.ofETime b) = true) : a ≤ b := by
  cases a <;> cases b <;> simp_all [Num.ofETime, Num.le] <;> first | exact h | trivial

theorem num_fin_le_ofETime {a : Q} {b : ETime} (h : Num.le (Num.fin a) (Num.ofETime b) = true) :
    ETime.fin a ≤ b := num_le_ofETime (a := .fin a) h

theorem num_ofETime_le_fin {a : ETime} {b : Q} (h : Num.le (Num.ofETime a) (Num.fin b) = true) :
    a ≤ ETime.fin b := num_le_ofETime (b := .fin b) h

theorem etime_not_le {a b : ETime} (h : ¬ a ≤ b) : b < a := by
  cases a <;> cases b
  · exact Rat.not_le.1 h
  · exact (h trivial).elim
  · trivial
  · exact (h trivial).elim

theorem etime_le_refl (a : ETime) : a ≤ a := by
  cases a
  · exact Rat.le_refl
  · trivial

/-! ### sums and closeness -/

theorem qsum_eq (xs : List Q) : qsum xs = qsumS xs := by
  rw [qsum, foldl_add_eq, Rat.zero_add]

theorem relTol_pos : 0 < relTol := by decide +kernel

theorem iscloseQ_one (x : Q) : iscloseQ x 1 relTol 0 = closeTo1 x := by
  have hr := relTol_pos
  have h1 : qabs 1 = 1 := by decide +kernel
  have h2 : (1 : Q) ≤ qmax (qabs x) 1 := by
    unfold qmax; split <;> grind
  have h3 : 0 ≤ relTol * qmax (qabs x) 1 := by
    apply Rat.mul_nonneg <;> grind
  have h4 : qmax (relTol * qmax (qabs x) 1) 0 = relTol * qmax (qabs x) 1 := by
    generalize relTol * qmax (qabs x) 1 = y at h3
    unfold qmax; split <;> grind
  rw [iscloseQ, closeTo1, h1, h4]

theorem proportionsSumOk_iff (ps : List Q) : proportionsSumOk ps = closeTo1 (qsumS ps) := by
  rw [proportionsSumOk, iscloseQ_one, qsum_eq]

end Demes.Proofs.RV

