#!/usr/bin/env python3
"""Rebuild lean/registry.json: every `theorem` of the listed Theorems/*.lean files (namespace
Demes.Theorems) plus the table/fact obligations each property depends on."""
import json, os, re
LEAN = os.path.join(os.path.dirname(os.path.dirname(os.path.abspath(__file__))), "lean")
# Theorems/Builder.lean (the Builder entry route) serves three properties: a FILES entry may be
# ("Module", [theorem names]) to register only the named theorems of that file
BUILDER_C01 = ["builder_resolve_valid"]
BUILDER_C18 = ["builder_history", "builder_history_stable", "builder_fromdict_history"]
BUILDER_C02 = ["builder_doc", "builder_equiv_dict", "builder_run_callsOfDoc", "builder_roundtrip_exact", "builder_fromdict_is_dict",
               "builder_equiv_dict_counterexample", "builder_equiv_dict_null_counterexample", "builder_equiv_dict_infinity_counterexample",
               "builder_equiv_dict_null_default_counterexample", "builder_equiv_dict_empty_demes_counterexample",
               "builder_none_is_absent", "builder_none_kept", "builder_none_hides_default_demes", "builder_none_hides_default_source",
               "builder_none_hides_default_dest", "builder_none_vs_omitted_counterexample", "builder_time_units_none_kept",
               "builder_infinity_string", "builder_values_verbatim", "builder_infinity_elsewhere_counterexample"]
FILES = {
    "C01": ["C01", "C01Ops", ("Builder", BUILDER_C01)], "C02": ["C02", ("Builder", BUILDER_C02)], "C03": ["C03"], "C04": ["C04"], "C05": ["C05"], "C06": ["C06"],
    "C07": ["C07"], "C08": ["C08"], "C09": ["C09"], "C10": ["C10"], "C11": ["C11"], "C12": ["C12"],
    "C13": ["C13", "C13Real"], "C14": ["C14"], "C15": ["C15"], "C16": ["C16"], "C17": ["C17"], "C18": ["C18", ("Builder", BUILDER_C18)],
    "C19": ["C19"], "C20": ["C20"],
}
T = lambda mod, names: [{"module": f"DemesVerif.Theorems.{mod}", "name": f"Demes.Tables.{n}"} for n in names]
RESOLVE_TABLES = ["tables_allowed_top", "tables_allowed_defaults", "tables_allowed_deme", "tables_allowed_local_defaults",
                  "tables_allowed_epoch", "tables_allowed_migration", "tables_allowed_pulse", "tables_defaults_deme",
                  "tables_defaults_migration", "tables_defaults_pulse", "tables_defaults_epoch", "tables_defaults_local_epoch",
                  "tables_class_epoch", "tables_class_migration", "tables_class_pulse", "tables_class_deme", "tables_class_graph",
                  "tables_validators_interpreted"]
EVENT_TABLES = ["tables_class_split", "tables_class_branch", "tables_class_merge", "tables_class_admix"]
MS_TABLES = ["tables_ms_parser", "tables_ms_structure", "tables_ms_event", "tables_ms_growth", "tables_ms_pop_growth", "tables_ms_size",
             "tables_ms_pop_size", "tables_ms_mig_rate", "tables_ms_mig_entry", "tables_ms_mig_matrix", "tables_ms_split", "tables_ms_join",
             "tables_ms_float_str"]
# semantic tie of the numeric guard conditions (Generated/Guards.lean, DESIGN §4.1)
GUARDS_RESOLVE = ["guards_sites_resolve", "guards_context_resolve",
                  "guards_tie_int_or_float", "guards_tie_int_or_float_not_number", "guard_int_or_float_duck_meaning",
                  "guards_tie_positive", "guards_tie_non_negative", "guards_tie_finite", "guards_tie_unit_interval",
                  "guards_tie_unit_interval_exclusive_lo", "guards_tie_list_positive_finite",
                  "guards_tie_list_non_negative_finite", "guards_tie_list_positive", "guards_tie_list_non_negative",
                  "guards_tie_list_unit_interval", "guards_tie_list_unit_interval_exclusive_lo", "guards_tie_sum_less_than_one",
                  "guard_epoch_order_meaning", "guard_epoch_inf_constant_meaning", "guard_epoch_constant_sizes_meaning",
                  "guards_tie_add_epoch",
                  "guard_add_deme_no_ancestors_meaning", "guard_add_deme_alive_meaning", "guards_tie_add_deme_header",
                  "guard_time_intersection_meaning", "guards_tie_time_intersection",
                  "guard_migration_same_deme_meaning", "guard_migration_order_meaning", "guard_migration_overlap_meaning",
                  "guards_tie_add_asymmetric_migration",
                  "guard_pulse_dest_end_meaning", "guard_pulse_source_start_meaning", "guard_pulse_sum_meaning",
                  "guards_tie_add_pulse"]
GUARDS_MATRICES = ["guards_sites_matrices", "guards_context_matrices", "guard_matrices_break_meaning",
                   "guard_matrices_active_meaning", "guard_matrices_occupied_meaning", "guards_tie_sweep",
                   "guards_tie_migration_matrices", "guard_migration_rates_meaning", "guards_tie_check_migration_rates"]
GUARDS_SIZE_AT = ["guards_sites_size_at", "guards_context_size_at", "guard_size_at_inf_meaning",
                  "guard_size_at_epoch_meaning", "guard_size_at_end_size_meaning", "guards_tie_size_at"]
G_RESOLVE = T("TablesGuards", GUARDS_RESOLVE) + T("TablesGuardsMatrices", GUARDS_MATRICES)
EXTRA = {
    "C01": T("TablesResolve", RESOLVE_TABLES) + T("TablesConst", ["tables_rel_tol"]) + G_RESOLVE,
    "C02": T("TablesResolve", RESOLVE_TABLES),
    "C03": T("TablesResolve", RESOLVE_TABLES) + T("TablesConst", ["tables_rel_tol"]) + G_RESOLVE,
    "C05": T("TablesResolve", RESOLVE_TABLES[:7]),
    "C06": T("TablesResolve", RESOLVE_TABLES[:7]),
    "C07": T("TablesMs", MS_TABLES), "C08": T("TablesMs", MS_TABLES), "C09": T("TablesMs", MS_TABLES),
    "C10": T("TablesConst", ["tables_rel_tol", "tables_abs_tol"]),
    "C11": T("TablesFacts", ["fact_in_generations_copies_first"]),
    "C12": T("TablesConst", ["tables_rel_tol"]) + T("TablesGuardsMatrices", GUARDS_MATRICES),
    "C13": T("TablesConst", ["tables_rel_tol"]) + T("TablesGuardsSizeAt", GUARDS_SIZE_AT),
    "C14": T("TablesResolve", EVENT_TABLES),
    "C15": T("TablesFacts", ["fact_rename_demes_copies_first"]),
    "C18": T("TablesFacts", ["fact_fromdict_copies_first", "fact_builder_resolve_passes_data", "fact_fromdict_copy_is_unaliased", "fact_deepcopy_unaliased_shape", "fact_builder_resolve_only_passes_data"]),
    "C19": T("TablesMs", ["tables_cli_parse_flags", "tables_cli_parse_tests"]),
}
# theorems of other properties that a property's level rests on
BORROW = {"C03": [("C01", "resolve_valid"), ("C06", "resolve_asdict")], "C01": [("C08", "C08.fromMs_valid_all")],
          "C02": [("C03", "resolve_eq_fill"), ("C18", "resolve_alias_insensitive")]}
reg = {}
for pid, mods in FILES.items():
    entries = []
    for m in mods:
        only = None
        if isinstance(m, tuple):
            m, only = m
        p = os.path.join(LEAN, "DemesVerif", "Theorems", m + ".lean")
        if not os.path.exists(p):
            continue
        src = open(p, encoding="utf-8").read()
        src = re.sub(r"/-.*?-/", "", src, flags=re.S)
        ns = re.search(r"^namespace\s+(\S+)", src, flags=re.M).group(1)
        names = re.findall(r"^theorem\s+(\S+)", src, flags=re.M)
        if only is not None:
            missing = [n for n in only if n not in names]
            assert not missing, f"{m}: theorems not found: {missing}"
        for name in names:
            if only is not None and name not in only:
                continue
            entries.append({"module": f"DemesVerif.Theorems.{m}", "name": f"{ns}.{name}"})
    for (m, n) in BORROW.get(pid, []):
        entries.append({"module": f"DemesVerif.Theorems.{m}", "name": f"Demes.Theorems.{n}"})
    if entries:
        reg[pid] = entries + EXTRA.get(pid, [])
json.dump(reg, open(os.path.join(LEAN, "registry.json"), "w"), indent=1)
print({k: len(v) for k, v in reg.items()})
