/-
  Support for `Theorems/TablesGuardsMsPost.lean` (C08, C15): the post-passes of `from_ms`.
  Nothing here depends on `Generated/`.

  `…With`: the functions of `Model/Ms.lean` that mirror `Builder._add_migrations_from_matrices`,
  `Builder._remove_transient_demes`, `Builder._sort_demes_by_ancestry` and the part of `ms.from_ms` after
  `build_graph`, written once more with every test of the source abstracted to a parameter.  They only occur on
  the right-hand side of the `guards_tie_*` equations.
-/
import DemesVerif.Model.NumClose
import DemesVerif.Model.Ms
import DemesVerif.Proofs.Guards
namespace Demes.Proofs.GuardsMsPost
open Demes Demes.Ms

/-- the Model's `==` on document numbers is the translator's -/
theorem numEq_eq_eqIEEE (x y : Num) : numEq x y = Num.eqIEEE x y := by
  cases x <;> cases y <;> first | rfl | simp [numEq, Num.eqIEEE]

/-! ## `Builder._add_migrations_from_matrices` -/

/-- the body of the innermost loop after `if j == k: continue`:
`gNone (migration_dict is None)`, `gNew rate` (`rate != 0`), `gZero rate` (`rate == 0`),
`gSame migration_dict["rate"] rate` -/
def cellWith (gNone : Bool → Bool) (gNew gZero : Num → Bool) (gSame : Num → Num → Bool)
    (names : List String) (startTime : ETime) (endTime : Q) (m : MM) (acc : MigSweep) (jk : Nat × Nat) : MigSweep :=
  let (j, k) := jk
  let rate := mmGet m j k
  let mk : BMigration := { source := names.getD k "", dest := names.getD j "", startTime := startTime, endTime := endTime, rate := rate }
  let cur := acc.current.lookup (j, k)
  if gNone cur.isNone then
    if gNew rate then
      { migrations := acc.migrations ++ [mk], current := acc.current ++ [((j, k), acc.migrations.length)] }
    else acc
  else
    let idx := cur.getD 0
    if gZero rate then { acc with current := acc.current.filter (fun c => c.1 ≠ (j, k)) }
    else if gSame ((acc.migrations[idx]?.map (·.rate)).getD .nan) rate then
      { acc with migrations := acc.migrations.modify idx (fun mg => { mg with endTime := endTime }) }
    else
      { migrations := acc.migrations ++ [mk],
        current := acc.current.map (fun c => if c.1 = (j, k) then ((j, k), acc.migrations.length) else c) }

/-- `gLens len(mm_list) len(end_times)`, `gNames len(deme_names)`, `gSquare len(deme_names) len(migration_matrix)`,
`gRow len(migration_matrix) len(migration_matrix[j])` are the `assert`s, `gDiag j k` the `continue` test -/
def addMigrationsFromMatricesWith (gLens : Nat → Nat → Bool) (gNames : Nat → Bool) (gSquare gRow : Nat → Nat → Bool)
    (gDiag : Num → Num → Bool) (gNone : Bool → Bool) (gNew gZero : Num → Bool) (gSame : Num → Num → Bool)
    (names : List String) (mmList : List MM) (endTimes : List Q) : Except Err (List BMigration) := do
  if !gLens mmList.length endTimes.length then assertionErr "len(mm_list) == len(end_times)"
  if !gNames names.length then assertionErr "len(deme_names) > 0"
  let n := names.length
  let (acc, _) ← (mmList.zip endTimes).foldlM (fun (st : MigSweep × ETime) (me : MM × Q) => do
    let (acc, startTime) := st
    let (m, endTime) := me
    if !gSquare n m.length || m.any (fun row => !gRow m.length row.length) then assertionErr "matrix shape"
    let cells : List (Nat × Nat) := (List.range m.length).flatMap (fun (j : Nat) =>
      ((List.range m.length).filter (fun (k : Nat) => !gDiag (.fin (j : Q)) (.fin (k : Q)))).map (fun k => (j, k)))
    pure (cells.foldl (cellWith gNone gNew gZero gSame names startTime endTime m) acc, ETime.fin endTime)) (({ migrations := [], current := [] } : MigSweep), ETime.inf)
  pure acc.migrations

/-! ## `Builder._remove_transient_demes` -/

/-- `gDemes len(demes)` is the first `assert`; `gSkip start_time` the `continue` test; `gTransient start_time end_time`
selects a deme for removal; `gSrc s name`, `gDest pulse.dest name`, `gMigSrc name migration.source`,
`gMigDest name migration.dest` are the `assert`s on pulses and migrations (each must hold) -/
def removeTransientDemesWith (gDemes : Nat → Bool) (gSkip : Num → Bool) (gTransient : Num → Num → Bool)
    (gSrc gDest gMigSrc gMigDest : String → String → Bool) (doc : MsDoc) : Except Err MsDoc := do
  if !gDemes doc.demes.length then assertionErr "len(demes) > 0"
  let demes ← doc.demes.foldlM (fun (cur : List BDeme) (d : BDeme) =>
    if gSkip (Num.ofETime d.startTime) then pure cur
    else if gTransient (Num.ofETime d.startTime) (.fin (lastEndTime d)) then do
      if (doc.pulses.getD []).any (fun p => p.sources.any (fun s => !gSrc s d.name) || !gDest p.dest d.name) then
        assertionErr "transient deme used by a pulse"
      if doc.migrations.any (fun m => !gMigSrc d.name m.source || !gMigDest d.name m.dest) then
        assertionErr "transient deme used by a migration"
      if cur.any (fun o => (o.ancestors.getD []).contains d.name) then
        assertionErr "transient deme is an ancestor"
      pure (cur.filter (fun o => o.name ≠ d.name))
    else pure cur) doc.demes
  pure { doc with demes := demes }

/-! ## `Builder._sort_demes_by_ancestry` -/

/-- a stable sort in which `a` may stay before `b` iff `le a.start_time b.start_time` -/
def sortDemesByAncestryWith (le : Num → Num → Bool) (ds : List BDeme) : List BDeme :=
  sortBy (fun a b => le (Num.ofETime a.startTime) (Num.ofETime b.startTime)) ds

/-! ## `from_ms` after `build_graph` -/

/-- `gGiven (deme_names is None)` enters the renaming, `gCount len(set(deme_names)) len(graph.demes)` raises -/
def fromMsWith (gGiven : Bool → Bool) (gCount : Nat → Nat → Bool)
    (tokens : List String) (N0 : Q) (demeNames : Option (List String)) : Except Err MsGraph := do
  let args ← parseKnownArgs tokens
  let mg ← buildGraph args N0
  if gGiven demeNames.isNone then
    let names := demeNames.getD []
    if gCount names.eraseDups.length mg.graph.demes.length then
      valueErr s!"graph has {mg.graph.demes.length} unique demes, but deme_names has {names.eraseDups.length}"
    let nameMap : Renaming := (List.range names.length).zip names |>.map (fun (j, nm) => (Ms.demeName j, nm))
    let keys := (nameMap.map (·.1)).foldr insertStr []
    let have_ := (mg.graph.demes.map (·.name)).foldr insertStr []
    if keys ≠ have_ then assertionErr "sorted(names.keys()) == sorted(deme names)"
    let g' ← renameDemesChecked mg.graph nameMap
    pure { mg with graph := g' }
  else pure mg

end Demes.Proofs.GuardsMsPost
