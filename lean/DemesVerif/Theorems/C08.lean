/-
  C08 — a graph built from an ms command line describes the same demography.

  `fromMs tokens N0 names` (Model/Ms.lean) is the Model of `demes.from_ms` on `command.split()`;
  `msSem` (Spec/MsSem.lean) is the independent backwards-time interpreter of an ms command;
  `resultSem mg` is the demography of a `from_ms` result read with "population k is the deme
  named deme{k}"; `SemAgree` (Spec/C08.lean) says that both demographies exist and are equal
  (same populations and lifetimes, same sizes and growth rates at every cut point, same
  migration step function, same lineage-movement matrices).

  The full property is FALSE of the unchanged code: see the `_counterexample` theorems (known
  findings F4, F5, F21, F22, F6b).  (The unchecked `deme_names`, F23, is repaired:
  `Graph.rename_demes` now validates the resulting names, see `fromMs_valid_all`.)  What is proved:

  1. `fromMs_valid`, `fromMs_valid_all`: the result is a valid graph, with or without
     `deme_names` (C01);
  2. `fromMs_ignores_option`, `fromMs_ignores_samples`: unknown options and sample counts;
  3. `fromMs_deme_k_is_population_k`, `fromMs_names`: deme `k` is population `k`;
  4. the counterexamples;
  5. the stage lemmas of the semantic refinement: the event loop of `build_graph` simulates the
     ms interpreter option by option — populations, liveness, size functions and growth rates
     (`build_sizes`), migration-matrix history (`build_migrations`), lineage-movement matrices of
     every time group (`build_movements_matrix`) — for **every** command both sides accept, tame
     or not;
  6. the agreement of the two parsers (`parsers_agree`): on plain command lines (`PlainTokens`:
     every option followed by exactly the arguments of the ms manual, as the manual and `to_ms`
     write them) argparse and the parser of the ms interpreter read the same options, and accept
     the same commands (`parse_accepts_argparse_accepts`, `argparse_accepts_parse_accepts`); outside
     that domain the two parsers genuinely differ (`parsers_differ_*`).  With it the stage theorems
     hold without the agreement hypothesis (`fromMs_sizes'`, `fromMs_migrations'`,
     `build_movements_matrix'`);
  7. sizes and migrations from the end of the event loop to the observable of the resolved graph
     (`addMigrations_sem`, `scale_rates`, `removeTransient_sem`, `sortDemes_sem`,
     `resolve_readback_sizes_migs`, `fromMs_sizes_migs_sem`): for **every** command both sides
     accept, the graph shows the populations, sizes, growth rates and migration step function of
     the command;
  8. the lineage movements on the fragment `Tame'` (every time group is a `GoodGroup`):
     `applyParams_sem` (the ancestry and pulses `applyParams` writes for a good group, read back the
     way `graphSem` reads a graph, are the group's movement matrix), `resolve_readback_moves`
     (`resolve` reads the deme headers and pulses of the document back) and `fromMs_moves_partial`
     (the movements of the graph are those of the interpreter);
  9. the assembled refinement `fromMs_sem` / `fromMs_sem_plain`: on the fragment `Tame'` (which
     excludes exactly the group shapes of the findings F5, F21, F22, F6b and some harmless ones),
     for a command that `from_ms` accepts and that has a meaning, both demographies exist and are
     equivalent (`SemAgree`) — under the decidable `parsersAgree`, or under `PlainTokens`;
  10. time 0: `from_ms` rejects every command with an `-ej` at time 0 (`fromMs_rejects_join_at_zero`); an `-es`
      at time 0 is not always rejected (`fromMs_rejects_moves_at_zero_counterexample`), but on the fragment
      `Tame''` (the first two clauses of `GoodGroup`) an accepted command has at time 0 nothing but `-es 0 i 1`
      (`fromMs_rejects_moves_at_zero_partial`), and the refinement holds without the time-0 clause
      (`fromMs_sem'`, `fromMs_sem_plain'`);
  11. a wider fragment `Tame2` (every time group is a `GoodGroup2`: a population may be split or joined after
      another population was joined into it; chains of two joins): `applyParams_sem2`, `fromMs_sem2`,
      `fromMs_sem2_plain`; exact on the table of all groups of at most two `-es`/`-ej` options over three
      populations (`tame2_exact_on_table`);
  12. a third fragment `Tame3` (every time group is a `GoodGroup3`: every move goes out of a population that existed
      before the group, no population joined in the group receives lineages in it) — it contains the chains of pulses
      `to_ms` prints: `applyParams_sem3`, `fromMs_moves3`, `fromMs_sem3`, `fromMs_sem3_plain`.
-/
import DemesVerif.Proofs.FromMsValid
import DemesVerif.Proofs.FromMsIgnores
import DemesVerif.Proofs.FromMsNames
import DemesVerif.Proofs.FromMsSem
import DemesVerif.Proofs.FromMsFinal
import DemesVerif.Proofs.FromMsParseAgree
import DemesVerif.Proofs.FromMsPostTotal
import DemesVerif.Proofs.FromMsApplyFinal
import DemesVerif.Proofs.FromMsZeroRun
import DemesVerif.Proofs.FromMsWideRun
import DemesVerif.Proofs.FromMsWideTable
import DemesVerif.Proofs.FromMsFrag3Run
import DemesVerif.Proofs.FromMsFrag3Table
namespace Demes.Theorems.C08
open Demes Demes.Ms Demes.Spec Demes.Spec.MsSem Demes.Spec.C08

/-! ### 1. the result is a valid graph (this is also part of C01) -/

/-- Whenever `from_ms` (without `deme_names`) returns a graph, it satisfies every clause of the
fully-resolved data model. -/
theorem fromMs_valid (c : List String) (N0 : Q) (mg : MsGraph) (h : fromMs c N0 none = .ok mg) :
    validGraph mg.graph = true :=
  Proofs.FromMs.fromMs_valid h

/-- With `deme_names`, the two checks of `from_ms` (`len(set(deme_names)) == len(graph.demes)` and
"the keys `deme1 … deme{n}` are exactly the graph's deme names") and the validation at the end of
`Graph.rename_demes` (repair of F23) establish every clause of `RenameOK`: the result is the
renamed result of the call without names; the keys of the name map are pairwise distinct names
of demes; the new names are pairwise distinct; the supplied names are pairwise distinct, as many
as there are demes, are exactly the names of the result, and are identifiers. -/
theorem fromMs_names_checked (c : List String) (N0 : Q) (names : List String) (mg' : MsGraph)
    (h : fromMs c N0 (some names) = .ok mg') :
    ∃ mg, fromMs c N0 none = .ok mg ∧ mg'.graph = renameDemes mg.graph (Proofs.FromMs.nameMap names)
      ∧ mg'.doc = mg.doc ∧ mg'.table = mg.table
      ∧ ((Proofs.FromMs.nameMap names).map (·.1)).Nodup
      ∧ (∀ k ∈ (Proofs.FromMs.nameMap names).map (·.1), k ∈ mg.graph.demes.map (·.name))
      ∧ (mg.graph.demes.map (fun d => (Proofs.FromMs.nameMap names).apply d.name)).Nodup
      ∧ names.Nodup ∧ names.length = mg.graph.demes.length
      ∧ (mg'.graph.demes.map (·.name)).Perm names
      ∧ (∀ n ∈ names, isIdentifier n = true) :=
  Proofs.FromMs.fromMs_names_checked h

/-- The same as one predicate: the name map is a legitimate renaming (`RenameOK`, Spec/C15.lean) of
the result without names — so every theorem of C15 (lookups by the new names, renaming back)
applies to the result of `from_ms(…, deme_names=…)`. -/
theorem fromMs_renameOK (c : List String) (N0 : Q) (names : List String) (mg' : MsGraph)
    (h : fromMs c N0 (some names) = .ok mg') :
    ∃ mg, fromMs c N0 none = .ok mg ∧ mg'.graph = renameDemes mg.graph (Proofs.FromMs.nameMap names)
      ∧ RenameOK mg.graph (Proofs.FromMs.nameMap names) :=
  Proofs.FromMs.fromMs_renameOK h

/-- **Whenever `from_ms` returns a graph — with or without `deme_names`, whatever the names — it
satisfies every clause of the fully-resolved data model.** -/
theorem fromMs_valid_all (c : List String) (N0 : Q) (names : Option (List String)) (mg : MsGraph)
    (h : fromMs c N0 names = .ok mg) : validGraph mg.graph = true :=
  Proofs.FromMs.fromMs_valid_all h

/-- A supplied name that is not an identifier makes `from_ms` fail, whatever the command. -/
theorem fromMs_bad_names_rejected (c : List String) (N0 : Q) (names : List String)
    (hbad : ∃ n ∈ names, isIdentifier n = false) : ∃ e, fromMs c N0 (some names) = .error e :=
  Proofs.FromMs.fromMs_bad_names_rejected hbad

def twoPops : List String := ["-I", "2", "1", "1", "-ej", "1.0", "2", "1"]

/-- the former finding F23 (`from_ms(…, deme_names=["1x", "b c"])` returned a graph whose deme
names are not identifiers, i.e. an invalid graph): the call is now rejected with the
`ValueError` of `Graph.rename_demes` -/
example : (match fromMs twoPops 1 (some ["1x", "b c"]) with
    | .error e => decide (e.kind = .value) && e.msg == "invalid or colliding deme names after renaming"
    | .ok _ => false) = true := by
  decide +kernel
example : (fromMs twoPops 1 (some ["1x", "b c"])).toOption.isSome = false := by decide +kernel
/-- one bad name is enough; so is the empty string -/
example : (fromMs twoPops 1 (some ["A", "b c"])).toOption.isSome = false
    ∧ (fromMs twoPops 1 (some ["A", ""])).toOption.isSome = false := by decide +kernel

/-- non-vacuity: the hypotheses of `fromMs_valid` and `fromMs_valid_all` are satisfiable -/
example : (fromMs twoPops 1 none).toOption.map (fun mg => validGraph mg.graph) = some true := by
  decide +kernel
example : (fromMs twoPops 1 (some ["A", "B"])).toOption.map (fun mg => (validGraph mg.graph, mg.graph.demes.map (·.name)))
    = some (true, ["A", "B"]) := by
  decide +kernel
/-- swapping the default names is a legitimate `deme_names` -/
example : (fromMs twoPops 1 (some ["deme2", "deme1"])).toOption.map (fun mg => (validGraph mg.graph, mg.graph.demes.map (·.name)))
    = some (true, ["deme2", "deme1"]) := by
  decide +kernel

/-! ### 2. what has no effect -/

/-- An option that argparse does not know (`isUnknownTok`: no registered option matches it, not
even as a prefix — `-t`, `-T`, `-r`, `-seeds`, `-p`, `-s`, `-L`, `-c`, …) followed by any number
of strings that argparse takes for arguments (`isArgTok`: numbers, negative numbers, words),
inserted at an option boundary (after any prefix `pre`, before a rest `post` that is empty or
starts with an option), changes nothing: the same graph or the same error. -/
theorem fromMs_ignores_option (pre post args : List String) (flag : String) (N0 : Q) (names : Option (List String))
    (hf : isUnknownTok flag = true) (ha : ∀ a ∈ args, isArgTok a = true)
    (hp : ∀ p, post.head? = some p → isArgTok p = false) :
    fromMs (pre ++ post) N0 names = fromMs (pre ++ flag :: args ++ post) N0 names :=
  Proofs.FromMs.fromMs_ignores_option pre post args flag N0 names hf ha
    (fun p hpp h => by unfold Proofs.FromMs.IsArgTok at h; rw [hp p hpp] at h; cases h)

/-- The sample counts `n₁ … nₖ` of `-I npop n₁ … nₖ …` (at most `npop` strings that argparse
takes for arguments, replaced by as many others) change nothing: the same graph or the same
error.  (The Model never converts them; a count that is not a number is accepted alike.) -/
theorem fromMs_ignores_samples (pre post ns ns' : List String) (npopS : String) (N0 : Q) (names : Option (List String))
    (hlen : ns.length = ns'.length) (ha : ∀ a ∈ ns, isArgTok a = true) (ha' : ∀ a ∈ ns', isArgTok a = true)
    (hk : ∀ k, pyInt npopS = some k → (ns.length : Int) ≤ k) :
    fromMs (pre ++ "-I" :: npopS :: (ns ++ post)) N0 names = fromMs (pre ++ "-I" :: npopS :: (ns' ++ post)) N0 names :=
  Proofs.FromMs.fromMs_ignores_samples pre post ns ns' npopS N0 names hlen ha ha' hk

/-- the options the ms manual lists without demographic meaning are unknown to argparse, and
their arguments are arguments -/
example : ["-t", "-T", "-r", "-seeds", "-p", "-s", "-L", "-c"].all isUnknownTok = true := by decide +kernel
example : ["5", "5.0", "2e-3", "100", "-1", "-0.5", "tbs"].all isArgTok = true := by decide +kernel
example : ["-ej", "-I", "-t", "-eN"].any isArgTok = false := by decide +kernel

/-- an instance: `-t 5 -T` and `-seeds 1 2 3` inserted, sample counts changed -/
example : fromMs ["-I", "2", "1", "1", "-ej", "1.0", "2", "1"] 1 none
    = fromMs ["-I", "2", "1", "1", "-seeds", "1", "2", "3", "-ej", "1.0", "2", "1"] 1 none :=
  fromMs_ignores_option ["-I", "2", "1", "1"] ["-ej", "1.0", "2", "1"] ["1", "2", "3"] "-seeds" 1 none
    (by decide +kernel) (by decide +kernel) (by decide +kernel)
example : fromMs ["-I", "2", "1", "1", "-ej", "1.0", "2", "1"] 1 none
    = fromMs ["-I", "2", "10", "0", "-ej", "1.0", "2", "1"] 1 none :=
  fromMs_ignores_samples [] ["-ej", "1.0", "2", "1"] ["1", "1"] ["10", "0"] "2" 1 none rfl
    (by decide +kernel) (by decide +kernel) (by decide +kernel)

/-! ### 3. deme `k` is population `k` -/

/-- The demes of the graph are, in order and by name, those of the document `build_graph` hands
to `resolve` (`mg.doc`).  Those are the surviving Builder demes `ds` — populations `ks` out of
`0 … numPops-1` in increasing order, each at most once (`_remove_transient_demes` drops the
others), the deme of population `k` (0-based) being called `deme{k+1}` — **stably sorted by start
time, oldest first** (`_sort_demes_by_ancestry`): the correspondence deme ↔ population is by
name, not by position; among demes with the same start time (e.g. all initial populations that
are never joined) population order is kept. -/
theorem fromMs_deme_k_is_population_k (c : List String) (N0 : Q) (mg : MsGraph)
    (h : fromMs c N0 none = .ok mg) :
    ∃ (ks : List Nat) (ds : List BDeme), ks.Sublist (List.range mg.doc.numPops)
      ∧ ds.map (·.name) = ks.map Ms.demeName
      ∧ StableSortedDescE (fun d : BDeme => d.startTime) ds mg.doc.demes
      ∧ mg.graph.demes.map (·.name) = mg.doc.demes.map (·.name)
      ∧ (mg.graph.demes.map (·.name)).Perm (ks.map Ms.demeName) :=
  Proofs.FromMs.fromMs_deme_k_is_population_k h

/-- With `deme_names`, the result is the result without names in which, position by position,
the deme `deme{k+1}` of population `k` (0-based) is called `names[k]`; the supplied names are
exactly the names of the result. -/
theorem fromMs_names (c : List String) (N0 : Q) (names : List String) (mg' : MsGraph)
    (h : fromMs c N0 (some names) = .ok mg') :
    ∃ mg, fromMs c N0 none = .ok mg
      ∧ mg'.graph.demes.length = mg.graph.demes.length
      ∧ names.length = mg.graph.demes.length
      ∧ (∀ (i : Nat) (d d' : Deme), mg.graph.demes[i]? = some d → mg'.graph.demes[i]? = some d' →
          ∃ (k : Nat) (hk : k < names.length), d.name = Ms.demeName k ∧ d'.name = names[k])
      ∧ (mg'.graph.demes.map (·.name)).Perm names :=
  Proofs.FromMs.fromMs_names h

/-- non-vacuity, and the sort at work: population 1 joins population 2, so deme2 (older) is
listed before deme1; the names follow the populations, not the positions -/
example : (fromMs ["-I", "2", "1", "1", "-ej", "1.0", "1", "2"] 1 none).toOption.map
    (fun mg => (mg.graph.demes.map (·.name), mg.doc.numPops)) = some (["deme2", "deme1"], 2) := by decide +kernel
example : (fromMs ["-I", "2", "1", "1", "-ej", "1.0", "1", "2"] 1 (some ["A", "B"])).toOption.map
    (fun mg => mg.graph.demes.map (·.name)) = some ["B", "A"] := by decide +kernel

/-! ### 4. the known findings, as counterexamples to the full property -/

def f4Rejected : List String := ["-I", "2", "1", "1", "-eN", "1.0", "2.0", "-ej", "1.0", "2", "1"]
def f4Accepted : List String := ["-I", "2", "1", "1", "-ej", "1.0", "2", "1", "-eN", "1.0", "2.0"]

/-- **F4**: two same-time options (`-eN 1.0 2.0` and `-ej 1.0 2 1`) that denote the same
demography in either order (the ms interpreter gives both commands the same meaning) are
rejected in one order and accepted in the other -/
theorem fromMs_order_counterexample :
    (fromMs f4Rejected 1 none).toOption.isSome = false
    ∧ (fromMs f4Accepted 1 none).toOption.isSome = true
    ∧ (msSem f4Rejected 1).toOption.isSome = true
    ∧ msSem f4Rejected 1 = msSem f4Accepted 1 := by
  decide +kernel

/-- the accepted order is converted correctly -/
example : (fromMs f4Accepted 1 none).toOption.map (fun mg => SemAgree (msSem f4Accepted 1) (resultSem mg))
    = some true := by decide +kernel

def f5 : List String := ["-I", "2", "1", "1", "-es", "1.0", "2", "0.5", "-es", "1.0", "3", "0.5"]

/-- **F5**: a split of a population created at the same time.  `from_ms` returns a graph, the
command has a meaning, and the two differ in a lineage movement: at time 4 a lineage of
population 2 stays with probability 1/2, moves to population 3 with 1/4 and to population 4
with 1/4; the graph has a single pulse of 1/2 from deme3 -/
theorem fromMs_split_of_new_population_counterexample :
    (fromMs f5 1 none).toOption.map (fun mg => SemAgree (msSem f5 1) (resultSem mg)) = some false
    ∧ movesOf (msSem f5 1) = some [{ time := 4, rows := [(2, [(2, 1/2), (3, 1/4), (4, 1/4)])] }]
    ∧ (fromMs f5 1 none).toOption.map (fun mg => movesOf (resultSem mg))
        = some (some [{ time := 4, rows := [(2, [(2, 1/2), (3, 1/2)])] }]) := by
  decide +kernel

def f21 : List String :=
  ["-I", "3", "1", "1", "1", "-es", "1.0", "2", "0.75", "-es", "1.0", "1", "0.125", "-ej", "1.0", "4", "1", "-ej", "1.0", "5", "3"]

/-- **F21**: interleaved same-time `-es`/`-ej` pairs: the lineage movements differ -/
theorem fromMs_interleaved_pairs_counterexample :
    (fromMs f21 1 none).toOption.map (fun mg => SemAgree (msSem f21 1) (resultSem mg)) = some false
    ∧ (fromMs f21 1 none).toOption.map (fun mg => decide (movesOf (resultSem mg) = movesOf (msSem f21 1))) = some false
    ∧ (movesOf (msSem f21 1)).isSome = true := by
  decide +kernel

def f22 : List String :=
  ["-I", "3", "1", "1", "1", "-ej", "1.0", "2", "3", "-ej", "1.0", "3", "1", "-es", "1.0", "1", "0.25"]

/-- **F22**: a chain of same-time joins followed by a split of its target: the lineage
movements differ -/
theorem fromMs_join_chain_counterexample :
    (fromMs f22 1 none).toOption.map (fun mg => SemAgree (msSem f22 1) (resultSem mg)) = some false
    ∧ (fromMs f22 1 none).toOption.map (fun mg => decide (movesOf (resultSem mg) = movesOf (msSem f22 1))) = some false
    ∧ (movesOf (msSem f22 1)).isSome = true := by
  decide +kernel

def f6b : List String :=
  ["-I", "2", "2", "10", "-es", "0.375", "2", "0.0", "-ej", "0.375", "3", "1", "-ej", "0.75", "2", "1", "-eN", "0.75", "2.0"]

/-- **F6b**: `-es` with `p = 0`: every lineage of population 2 moves to population 1 at time
3/2; the graph has lost that movement -/
theorem fromMs_split_p0_counterexample :
    (fromMs f6b 1 none).toOption.map (fun mg => SemAgree (msSem f6b 1) (resultSem mg)) = some false
    ∧ movesOf (msSem f6b 1)
        = some [{ time := 3/2, rows := [(2, [(1, 1)])] }, { time := 3, rows := [(2, [(1, 1)])] }]
    ∧ (fromMs f6b 1 none).toOption.map (fun mg => movesOf (resultSem mg))
        = some (some [{ time := 3, rows := [(2, [(1, 1)])] }]) := by
  decide +kernel

/-- the counterexamples lie outside the tame fragment -/
example : [f5, f21, f22, f6b].map (fun c => (parse c).toOption.map Tame) = [some false, some false, some false, some false] := by
  decide +kernel
example : (parse f4Rejected).toOption.map NoSizeAtJoin = some false := by decide +kernel

/-! ### non-vacuity of the semantic statement: msdoc-style examples, checked by evaluation -/

/-- `from_ms` succeeds and its graph has exactly the demography of the command -/
def Agrees (c : List String) (N0 : Q) : Bool :=
  match fromMs c N0 none, parse c with
  | .ok mg, .ok pr => Tame pr && NoSizeAtJoin pr && SemAgree (msSem c N0) (resultSem mg)
  | _, _ => false

/-- two populations that split 4·N0 generations ago -/
example : Agrees ["-I", "2", "1", "1", "-ej", "1.0", "2", "1"] 1 = true := by decide +kernel
/-- exponential growth until 0.5, then constant (symbolic sizes), N0 = 64 -/
example : Agrees ["-G", "1.0", "-eN", "0.5", "2"] 64 = true := by decide +kernel
/-- island migration, `-g`, `-en` (which resets the growth rate), a join, ignored `-t 5 -T` -/
example : Agrees ["-I", "2", "1", "1", "0.5", "-g", "1", "1.0", "-en", "0.5", "1", "2", "-ej", "1.0", "2", "1", "-t", "5", "-T"] 1
    = true := by decide +kernel
/-- `-n` does not reset the growth rate; N0 = 1/4 -/
example : Agrees ["-I", "2", "1", "1", "-n", "1", "2", "-g", "1", "-1.0", "-eg", "0.25", "1", "0.0", "-ej", "0.5", "2", "1"] (1/4)
    = true := by decide +kernel
/-- migration matrices: `-ma`, then `-ema` after a join (entries of the joined population ignored) -/
example : Agrees ["-I", "3", "1", "1", "1", "-ma", "x", "0.25", "0.5", "0.25", "x", "0.5", "0.25", "0.125", "x",
    "-ej", "0.5", "3", "2", "-ema", "0.75", "3", "x", "0.5", "x", "0.5", "x", "x", "x", "x", "x", "-ej", "1", "2", "1"] 1
    = true := by decide +kernel
/-- an admixture: `-es t i p -ej t n+1 j`, N0 = 2 -/
example : Agrees ["-I", "2", "1", "1", "-es", "1.0", "1", "0.25", "-ej", "1.0", "3", "2"] 2 = true := by decide +kernel

/-! ### 5. the semantic refinement, stage by stage

`buildState args N0` is the Builder state at the end of the event loop of `build_graph`
(`buildDoc = buildState ≫ finishDoc`, `Proofs.FromMs.buildDoc_eq`); `runState pr N0` is the final
state of the ms interpreter (`msSem = parse ≫ runState ≫ finishSem`, `Spec.C08.msSem_eq`);
`ArgsAgree args pr` says that the two parsers read the same options off the command line. -/

/-- **`build_sizes`.**  The epoch / growth bookkeeping of the event loop (`epoch_resolve`, the four
size / growth option kinds — `-en`, `-eN` reset the growth rate, `-n` does not — on one or on all
live populations, `-es` creating and `-ej` retiring a population) computes the size function of
every ms population: same number of populations; deme `j` and population `j+1` have the same
size at every time (`none` on both sides before the population exists), the same current
growth rate and the same end of lifetime (`start_time`: `∞` until joined); deme `j` is in `joined`
exactly when population `j+1` has been joined. -/
theorem build_sizes (args : Args) (pr : Parsed) (N0 : Q) (s : BState) (σ : St)
    (ha : ArgsAgree args pr) (hm : Proofs.FromMs.buildState args N0 = .ok s) (hs : runState pr N0 = .ok σ) :
    s.demes.length = σ.pops.length ∧ s.numDemes = σ.pops.length ∧
    ∀ (j : Nat) (d : BDeme) (p : Pop), s.demes[j]? = some d → σ.pops[j]? = some p →
      (∀ t, demeSizeAt d t = popSizeAt p t) ∧ curGrowth d = p.growth ∧ d.startTime = p.hi
          ∧ s.joined.contains j = !alive p :=
  Proofs.FromMs.build_sizes ha hm hs

/-- **`build_sizes`, finished.**  "Resolve/remove growth_rate in oldest epochs" (`finaliseGrowth`,
which turns the growth rate of the oldest epoch into its `start_size`) on deme `j`, and closing
the open piece of population `j+1` in the observable of `msSem` (`finalSegs`, as `finishSem`
does), give the same name, the same end of lifetime and the same size at every time below it. -/
theorem final_sizes (args : Args) (pr : Parsed) (N0 : Q) (s : BState) (σ : St)
    (ha : ArgsAgree args pr) (hm : Proofs.FromMs.buildState args N0 = .ok s) (hs : runState pr N0 = .ok σ)
    (j : Nat) (d d' : BDeme) (p : Pop) (hd : s.demes[j]? = some d) (hp : σ.pops[j]? = some p)
    (hf : finaliseGrowth d = .ok d') :
    d'.name = d.name ∧ d'.startTime = p.hi ∧
    ∀ t, ETime.fin t < p.hi → closedSizeAt d'.epochs d'.startTime t = segsSizeAt (finalSegs p) t :=
  Proofs.FromMs.final_sizes ha hm hs hd hp hf

/-- **`build_migrations`** (matrix history).  For every ordered pair of different populations and
every time, the rate in the Builder's matrix in force at that time (`mm_list`, `mm_end_times`
as maintained by `migration_matrix_at`; divided by `4 N0`) is the rate in the interpreter's last
snapshot at or before that time — through `-m`, `-ma`, `-eM`, `-em`, `-ema`, `-es` (a zero row
and column in every matrix) and `-ej` (row and column zeroed; later `-eM` / `-ema` do not revive
entries of a joined population). -/
theorem build_migrations (args : Args) (pr : Parsed) (N0 : Q) (s : BState) (σ : St)
    (ha : ArgsAgree args pr) (hm : Proofs.FromMs.buildState args N0 = .ok s) (hs : runState pr N0 = .ok σ) :
    s.mmList.length = s.mmEndTimes.length ∧ (∀ m ∈ s.mmList, Proofs.FromMs.Dim s.numDemes m)
    ∧ s.numDemes = σ.pops.length
    ∧ ∀ j k t, j ≠ k →
        (mmRateAt s.mmList s.mmEndTimes j k t).map (scaleRate N0) = (snapRateAt σ.snaps j k t).map Num.fin :=
  Proofs.FromMs.build_migrations ha hm hs

/-- **`build_movements`, matrix level.**  For every time group `evs` of the run (the groups before
it processed by both sides, giving `s` and `σ`): after the events of the group, the Builder's
`lineage_movements` matrix equals the interpreter's movement matrix, row by row — for every
command, including the shapes of F5, F21, F22, F6b.  (Those findings arise in the next step,
where `split_join_params` collapses the matrix into ancestry and pulses.) -/
theorem build_movements_matrix (args : Args) (pr : Parsed) (N0 : Q) (ha : ArgsAgree args pr) (hN : 0 < N0)
    (pre post : List (List (Event Num))) (evs : List (Event Num))
    (hsplit : Proofs.FromMs.eventGroups args = pre ++ evs :: post)
    (s s1 : BState) (g1 : GState) (σ σ1 : St) (L1 : List (Nat × Row)) (T' : Q)
    (hpre : pre.foldlM (Ms.stepGroup N0) (Proofs.FromMs.initState args N0) = .ok s)
    (hpreS : (pre.map (List.map Proofs.FromMs.cmdOfD)).foldlM (MsSem.stepGroup N0) (initSt pr N0) = .ok σ)
    (hT' : ∀ e ∈ evs, 4 * N0 * (Proofs.FromMs.cmdOfD e).t = T')
    (hm : evs.foldlM (stepEvent N0 T') (s, { lm := Proofs.FromMs.initLm s evs, params := [] }) = .ok (s1, g1))
    (hs : (evs.map Proofs.FromMs.cmdOfD).foldlM (MsSem.step N0) (σ, Proofs.FromMs.initL σ) = .ok (σ1, L1)) :
    ∀ ir ∈ L1, 1 ≤ ir.1 ∧ ∀ k, lmGet g1.lm (ir.1 - 1) k = ir.2.get (k + 1) :=
  Proofs.FromMs.run_group_lm ha hN hsplit hpre hpreS hT' hm hs

/-- the same anchored at `from_ms` and `msSem`: whenever `from_ms` returns a graph, the command has
a meaning and the two parsers agree on it (`parsersAgree`, decidable), the event loop of
`from_ms` and the interpreter run of `msSem` end in corresponding states -/
theorem fromMs_sizes (c : List String) (N0 : Q) (mg : MsGraph) (sem : DemogSem)
    (h : fromMs c N0 none = .ok mg) (hsem : msSem c N0 = .ok sem) (hp : parsersAgree c = true) :
    ∃ args s pr σ, parseKnownArgs c = .ok args ∧ Proofs.FromMs.buildState args N0 = .ok s
      ∧ Proofs.FromMs.finishDoc N0 s = .ok mg.doc
      ∧ parse c = .ok pr ∧ runState pr N0 = .ok σ ∧ sem = finishSem σ
      ∧ s.demes.length = σ.pops.length
      ∧ ∀ (j : Nat) (d : BDeme) (p : Pop), s.demes[j]? = some d → σ.pops[j]? = some p →
          (∀ t, demeSizeAt d t = popSizeAt p t) ∧ curGrowth d = p.growth ∧ d.startTime = p.hi
          ∧ s.joined.contains j = !alive p :=
  Proofs.FromMs.fromMs_sizes h hsem hp

theorem fromMs_migrations (c : List String) (N0 : Q) (mg : MsGraph) (sem : DemogSem)
    (h : fromMs c N0 none = .ok mg) (hsem : msSem c N0 = .ok sem) (hp : parsersAgree c = true) :
    ∃ args s pr σ, parseKnownArgs c = .ok args ∧ Proofs.FromMs.buildState args N0 = .ok s
      ∧ Proofs.FromMs.finishDoc N0 s = .ok mg.doc
      ∧ parse c = .ok pr ∧ runState pr N0 = .ok σ ∧ sem = finishSem σ
      ∧ s.mmList.length = s.mmEndTimes.length ∧ (∀ m ∈ s.mmList, Proofs.FromMs.Dim s.numDemes m)
      ∧ s.numDemes = σ.pops.length
      ∧ ∀ j k t, j ≠ k →
          (mmRateAt s.mmList s.mmEndTimes j k t).map (scaleRate N0) = (snapRateAt σ.snaps j k t).map Num.fin :=
  Proofs.FromMs.fromMs_migrations h hsem hp

/-- non-vacuity of the stage theorems: on the msdoc-style examples (and on the F5 command) both
sides accept and the two parsers agree -/
def StageHyps (c : List String) (N0 : Q) : Bool :=
  (fromMs c N0 none).toOption.isSome && (msSem c N0).toOption.isSome && parsersAgree c

example : StageHyps ["-I", "2", "1", "1", "-ej", "1.0", "2", "1"] 1 = true := by decide +kernel
example : StageHyps ["-G", "1.0", "-eN", "0.5", "2"] 64 = true := by decide +kernel
example : StageHyps ["-I", "2", "1", "1", "0.5", "-g", "1", "1.0", "-en", "0.5", "1", "2", "-ej", "1.0", "2", "1", "-t", "5", "-T"] 1
    = true := by decide +kernel
example : StageHyps ["-I", "3", "1", "1", "1", "-ma", "x", "0.25", "0.5", "0.25", "x", "0.5", "0.25", "0.125", "x",
    "-ej", "0.5", "3", "2", "-ema", "0.75", "3", "x", "0.5", "x", "0.5", "x", "x", "x", "x", "x", "-ej", "1", "2", "1"] 1
    = true := by decide +kernel
example : StageHyps ["-I", "2", "1", "1", "-es", "1.0", "1", "0.25", "-ej", "1.0", "3", "2"] 2 = true := by decide +kernel
example : StageHyps f5 1 = true := by decide +kernel

/-! ### 6. the two parsers agree on plain command lines

`parseKnownArgs` is the Model of `build_parser().parse_known_args(command.split())` (CPython
argparse); `MsSem.parse` is the option parser of the independent ms interpreter, written from the
arities of the ms manual.  `PlainTokens` (Spec/C08.lean, decidable) is the set of command lines
written the way the manual and `to_ms` write them: every string is an argument for argparse
(`isArgTok`: does not start with `-`, or looks like a negative number) or is exactly an option of
`build_parser` or one of the manual's options without demographic meaning (`-t -s -T -L -r -c -p
-seeds`); the line starts with an option; `-I` occurs at most once; and every option is followed by
exactly the arguments the manual gives it (`groupOK`: `nargs` of them for a fixed-arity option,
`npop` + `npop` sample sizes + possibly a rate not starting with `-` for `-I`, `npop²` entries for
`-ma`, `t npop` + `npop²` entries for `-ema`, the manual's count for an ignored option). -/

/-- **Parser agreement.**  On a plain command line that both parsers accept, they read the same
options: the same number of populations and island rate, the same initial-state options and the
same events in the same order, with times 0 resp. ≥ 0 (`ArgsAgree`). -/
theorem parsers_agree (tokens : List String) (args : Args) (pr : Parsed) (hpl : PlainTokens tokens = true)
    (h1 : parseKnownArgs tokens = .ok args) (h2 : parse tokens = .ok pr) : ArgsAgree args pr :=
  Proofs.FromMsParse.parsers_agree hpl h1 h2

/-- On a plain command line, whatever the ms interpreter's parser accepts argparse accepts too
(with agreeing results): the interpreter's domain is not larger than the library's. -/
theorem parse_accepts_argparse_accepts (tokens : List String) (pr : Parsed) (hpl : PlainTokens tokens = true)
    (h2 : parse tokens = .ok pr) : ∃ args, parseKnownArgs tokens = .ok args ∧ ArgsAgree args pr :=
  Proofs.FromMsParse.spec_accepts_model_accepts hpl h2

/-- Conversely, on a plain command line in which no string reads as `inf` or `nan`
(`FiniteToks`), whatever argparse accepts the ms interpreter's parser accepts (and then the two
agree, by `parsers_agree`). -/
theorem argparse_accepts_parse_accepts (tokens : List String) (args : Args) (hpl : PlainTokens tokens = true)
    (hfin : FiniteToks tokens = true) (h1 : parseKnownArgs tokens = .ok args) :
    ∃ pr, parse tokens = .ok pr ∧ ArgsAgree args pr := by
  obtain ⟨pr, h2⟩ := Proofs.FromMsParse.parse_exists hpl hfin h1
  exact ⟨pr, h2, Proofs.FromMsParse.parsers_agree hpl h1 h2⟩

/-- the decidable form -/
theorem parsersAgree_of_plain (tokens : List String) (args : Args) (pr : Parsed) (hpl : PlainTokens tokens = true)
    (h1 : parseKnownArgs tokens = .ok args) (h2 : parse tokens = .ok pr) : parsersAgree tokens = true :=
  Proofs.FromMsParse.parsersAgree_of_plain hpl h1 h2

/-- non-vacuity: the msdoc-style examples of this file are plain, without `inf` / `nan`, and
accepted by both parsers -/
def PlainHyps (c : List String) : Bool :=
  PlainTokens c && FiniteToks c && (parseKnownArgs c).toOption.isSome && (parse c).toOption.isSome

example : PlainHyps ["-I", "2", "1", "1", "-ej", "1.0", "2", "1"] = true := by decide +kernel
example : PlainHyps ["-G", "1.0", "-eN", "0.5", "2"] = true := by decide +kernel
example : PlainHyps ["-I", "2", "1", "1", "0.5", "-g", "1", "1.0", "-en", "0.5", "1", "2", "-ej", "1.0", "2", "1", "-t", "5", "-T"]
    = true := by decide +kernel
example : PlainHyps ["-I", "2", "1", "1", "-n", "1", "2", "-g", "1", "-1.0", "-eg", "0.25", "1", "0.0", "-ej", "0.5", "2", "1"]
    = true := by decide +kernel
example : PlainHyps ["-I", "3", "1", "1", "1", "-ma", "x", "0.25", "0.5", "0.25", "x", "0.5", "0.25", "0.125", "x",
    "-ej", "0.5", "3", "2", "-ema", "0.75", "3", "x", "0.5", "x", "0.5", "x", "x", "x", "x", "x", "-ej", "1", "2", "1"]
    = true := by decide +kernel
example : PlainHyps ["-I", "2", "1", "1", "-es", "1.0", "1", "0.25", "-ej", "1.0", "3", "2"] = true := by decide +kernel
example : PlainHyps ["-t", "5.0", "-r", "0", "100", "-seeds", "1", "2", "3", "-G", "-0.5", "-eM", "1.0", "0", "-em", "2.0", "1", "1", "0.5"]
    = true := by decide +kernel
example : [f4Accepted, f4Rejected, f5, f21, f22, f6b].all PlainHyps = true := by decide +kernel

/-! #### what `PlainTokens` excludes

The following are facts about the domain of the *interpreter's* parser (`MsSem.parse`, a Spec
artefact) relative to argparse — not findings about demes.  `acceptedBy c = (argparse accepts,
interpreter's parser accepts)`. -/

def acceptedBy (c : List String) : Bool × Bool := ((parseKnownArgs c).toOption.isSome, (parse c).toOption.isSome)

/-- **the parsers genuinely differ (1)**: an option without demographic meaning whose manual
arguments are options: the interpreter's parser skips `-G 1 2` as the three arguments of `-seeds`,
argparse reads the option `-G 1` -/
theorem parsers_differ_ignored_swallows :
    acceptedBy ["-seeds", "-G", "1", "2"] = (true, true) ∧ parsersAgree ["-seeds", "-G", "1", "2"] = false
    ∧ PlainTokens ["-seeds", "-G", "1", "2"] = false := by decide +kernel

/-- **the parsers genuinely differ (2)**: `-ma` with fewer than `npop²` entries in front of an
option: argparse gives `-ma` the three arguments, the interpreter's parser takes `-T` for the
fourth entry -/
theorem parsers_differ_ma_entries :
    acceptedBy ["-I", "2", "1", "1", "-ma", "x", "1", "2", "-T"] = (true, true)
    ∧ parsersAgree ["-I", "2", "1", "1", "-ma", "x", "1", "2", "-T"] = false
    ∧ PlainTokens ["-I", "2", "1", "1", "-ma", "x", "1", "2", "-T"] = false := by decide +kernel

/-- **the parsers genuinely differ (3)**: the same for `-ema` -/
theorem parsers_differ_ema_entries :
    acceptedBy ["-ema", "1.0", "2", "x", "1", "-T", "x"] = (true, true)
    ∧ parsersAgree ["-ema", "1.0", "2", "x", "1", "-T", "x"] = false
    ∧ PlainTokens ["-ema", "1.0", "2", "x", "1", "-T", "x"] = false := by decide +kernel

/-- features argparse accepts and the interpreter's parser rejects (all outside `PlainTokens`):
an attached argument (`-G0.5`, `-G=0.5`), an option of neither table (`-x`), a string argparse
cannot place (`-G 1 2`: one argument too many; a leading `5`), `-I` given twice (argparse: the
last one wins), an `-I` migration rate starting with `-` (`-0`) -/
theorem parse_rejects_outside_plain :
    [["-G0.5"], ["-G=0.5"], ["-x"], ["-G", "1", "2"], ["5", "-G", "1"], ["-I", "1", "5", "-I", "1", "5"],
      ["-I", "1", "5", "-0"]].map (fun c => (acceptedBy c, PlainTokens c))
    = List.replicate 7 ((true, false), false) := by decide +kernel

/-- a feature the interpreter's parser accepts and argparse rejects (outside `PlainTokens`): a
negative number that does not match argparse's `^-\d+$|^-\d*\.\d+$` is an option for argparse
(`-G -1e3`: "expected 1 argument"); a look-alike (`-G -1`) is an argument, and plain -/
theorem argparse_rejects_outside_plain :
    acceptedBy ["-G", "-1e3"] = (false, true) ∧ PlainTokens ["-G", "-1e3"] = false
    ∧ acceptedBy ["-G", "-1"] = (true, true) ∧ PlainTokens ["-G", "-1"] = true := by decide +kernel

/-- features both parsers reject (outside `PlainTokens`; for the Model they are errors or outside
the Model): abbreviations of long options (`--he` is `--help`), the ambiguous prefix `-e`, the `--`
separator, `-n1` (attached argument of a two-argument option) -/
theorem both_reject_outside_plain :
    [["--he"], ["-e"], ["--"], ["-n1", "2"]].map (fun c => (acceptedBy c, PlainTokens c))
    = List.replicate 4 ((false, false), false) := by decide +kernel

/-- `FiniteToks` is needed in `argparse_accepts_parse_accepts`: the validators of ms.py let `nan`
and `inf` through in several positions (the command lines are plain; `build_graph` is outside the
Model on them); the interpreter's parser rejects them -/
theorem parse_rejects_nonfinite :
    [["-G", "nan"], ["-eN", "inf", "1"], ["-I", "1", "5", "inf"]].map (fun c => (acceptedBy c, PlainTokens c, FiniteToks c))
    = List.replicate 3 ((true, false), true, false) := by decide +kernel

/-- `PlainTokens` is sufficient, not necessary: an ignored option whose manual arguments are
themselves ignored options is read alike by both parsers -/
example : acceptedBy ["-r", "-T", "-L"] = (true, true) ∧ parsersAgree ["-r", "-T", "-L"] = true
    ∧ PlainTokens ["-r", "-T", "-L"] = false := by decide +kernel

/-! #### the stage theorems without the agreement hypothesis -/

/-- **`build_sizes` at `from_ms`, on plain command lines**: if `from_ms` returns a graph and the
command has a meaning, the Builder state at the end of the event loop and the final interpreter
state have the same populations with the same size functions -/
theorem fromMs_sizes' (c : List String) (N0 : Q) (mg : MsGraph) (sem : DemogSem)
    (h : fromMs c N0 none = .ok mg) (hsem : msSem c N0 = .ok sem) (hpl : PlainTokens c = true) :
    ∃ args s pr σ, parseKnownArgs c = .ok args ∧ Proofs.FromMs.buildState args N0 = .ok s
      ∧ Proofs.FromMs.finishDoc N0 s = .ok mg.doc
      ∧ parse c = .ok pr ∧ runState pr N0 = .ok σ ∧ sem = finishSem σ
      ∧ s.demes.length = σ.pops.length
      ∧ ∀ (j : Nat) (d : BDeme) (p : Pop), s.demes[j]? = some d → σ.pops[j]? = some p →
          (∀ t, demeSizeAt d t = popSizeAt p t) ∧ curGrowth d = p.growth ∧ d.startTime = p.hi
          ∧ s.joined.contains j = !alive p := by
  obtain ⟨args, _, hargs, _, _⟩ := Proofs.FromMs.fromMs_buildState h
  obtain ⟨pr, _, hpr, _, _⟩ := Proofs.FromMs.msSem_runState hsem
  exact Proofs.FromMs.fromMs_sizes h hsem (Proofs.FromMsParse.parsersAgree_of_plain hpl hargs hpr)

/-- **`build_migrations` at `from_ms`, on plain command lines** -/
theorem fromMs_migrations' (c : List String) (N0 : Q) (mg : MsGraph) (sem : DemogSem)
    (h : fromMs c N0 none = .ok mg) (hsem : msSem c N0 = .ok sem) (hpl : PlainTokens c = true) :
    ∃ args s pr σ, parseKnownArgs c = .ok args ∧ Proofs.FromMs.buildState args N0 = .ok s
      ∧ Proofs.FromMs.finishDoc N0 s = .ok mg.doc
      ∧ parse c = .ok pr ∧ runState pr N0 = .ok σ ∧ sem = finishSem σ
      ∧ s.mmList.length = s.mmEndTimes.length ∧ (∀ m ∈ s.mmList, Proofs.FromMs.Dim s.numDemes m)
      ∧ s.numDemes = σ.pops.length
      ∧ ∀ j k t, j ≠ k →
          (mmRateAt s.mmList s.mmEndTimes j k t).map (scaleRate N0) = (snapRateAt σ.snaps j k t).map Num.fin := by
  obtain ⟨args, _, hargs, _, _⟩ := Proofs.FromMs.fromMs_buildState h
  obtain ⟨pr, _, hpr, _, _⟩ := Proofs.FromMs.msSem_runState hsem
  exact Proofs.FromMs.fromMs_migrations h hsem (Proofs.FromMsParse.parsersAgree_of_plain hpl hargs hpr)

/-- **`build_movements`, matrix level, on plain command lines**: `args` and `pr` are what the two
parsers read off the plain command line `c` -/
theorem build_movements_matrix' (c : List String) (args : Args) (pr : Parsed) (N0 : Q)
    (hpl : PlainTokens c = true) (hargs : parseKnownArgs c = .ok args) (hpr : parse c = .ok pr) (hN : 0 < N0)
    (pre post : List (List (Event Num))) (evs : List (Event Num))
    (hsplit : Proofs.FromMs.eventGroups args = pre ++ evs :: post)
    (s s1 : BState) (g1 : GState) (σ σ1 : St) (L1 : List (Nat × Row)) (T' : Q)
    (hpre : pre.foldlM (Ms.stepGroup N0) (Proofs.FromMs.initState args N0) = .ok s)
    (hpreS : (pre.map (List.map Proofs.FromMs.cmdOfD)).foldlM (MsSem.stepGroup N0) (initSt pr N0) = .ok σ)
    (hT' : ∀ e ∈ evs, 4 * N0 * (Proofs.FromMs.cmdOfD e).t = T')
    (hm : evs.foldlM (stepEvent N0 T') (s, { lm := Proofs.FromMs.initLm s evs, params := [] }) = .ok (s1, g1))
    (hs : (evs.map Proofs.FromMs.cmdOfD).foldlM (MsSem.step N0) (σ, Proofs.FromMs.initL σ) = .ok (σ1, L1)) :
    ∀ ir ∈ L1, 1 ≤ ir.1 ∧ ∀ k, lmGet g1.lm (ir.1 - 1) k = ir.2.get (k + 1) :=
  Proofs.FromMs.run_group_lm (Proofs.FromMsParse.parsers_agree hpl hargs hpr) hN hsplit hpre hpreS hT' hm hs

/-- the stage lemmas themselves, for the arguments argparse reads off a plain command line -/
theorem build_sizes' (c : List String) (args : Args) (pr : Parsed) (N0 : Q) (s : BState) (σ : St)
    (hpl : PlainTokens c = true) (hargs : parseKnownArgs c = .ok args) (hpr : parse c = .ok pr)
    (hm : Proofs.FromMs.buildState args N0 = .ok s) (hs : runState pr N0 = .ok σ) :
    s.demes.length = σ.pops.length ∧ s.numDemes = σ.pops.length ∧
    ∀ (j : Nat) (d : BDeme) (p : Pop), s.demes[j]? = some d → σ.pops[j]? = some p →
      (∀ t, demeSizeAt d t = popSizeAt p t) ∧ curGrowth d = p.growth ∧ d.startTime = p.hi
          ∧ s.joined.contains j = !alive p :=
  Proofs.FromMs.build_sizes (Proofs.FromMsParse.parsers_agree hpl hargs hpr) hm hs

theorem build_migrations' (c : List String) (args : Args) (pr : Parsed) (N0 : Q) (s : BState) (σ : St)
    (hpl : PlainTokens c = true) (hargs : parseKnownArgs c = .ok args) (hpr : parse c = .ok pr)
    (hm : Proofs.FromMs.buildState args N0 = .ok s) (hs : runState pr N0 = .ok σ) :
    s.mmList.length = s.mmEndTimes.length ∧ (∀ m ∈ s.mmList, Proofs.FromMs.Dim s.numDemes m)
    ∧ s.numDemes = σ.pops.length
    ∧ ∀ j k t, j ≠ k →
        (mmRateAt s.mmList s.mmEndTimes j k t).map (scaleRate N0) = (snapRateAt σ.snaps j k t).map Num.fin :=
  Proofs.FromMs.build_migrations (Proofs.FromMsParse.parsers_agree hpl hargs hpr) hm hs

/-- non-vacuity of the primed stage theorems: on the msdoc-style examples (and on the F5 command)
both sides accept and the command line is plain -/
def StageHyps' (c : List String) (N0 : Q) : Bool :=
  (fromMs c N0 none).toOption.isSome && (msSem c N0).toOption.isSome && PlainTokens c

example : StageHyps' ["-I", "2", "1", "1", "-ej", "1.0", "2", "1"] 1 = true := by decide +kernel
example : StageHyps' ["-G", "1.0", "-eN", "0.5", "2"] 64 = true := by decide +kernel
example : StageHyps' ["-I", "2", "1", "1", "0.5", "-g", "1", "1.0", "-en", "0.5", "1", "2", "-ej", "1.0", "2", "1", "-t", "5", "-T"] 1
    = true := by decide +kernel
example : StageHyps' ["-I", "3", "1", "1", "1", "-ma", "x", "0.25", "0.5", "0.25", "x", "0.5", "0.25", "0.125", "x",
    "-ej", "0.5", "3", "2", "-ema", "0.75", "3", "x", "0.5", "x", "0.5", "x", "x", "x", "x", "x", "-ej", "1", "2", "1"] 1
    = true := by decide +kernel
example : StageHyps' ["-I", "2", "1", "1", "-es", "1.0", "1", "0.25", "-ej", "1.0", "3", "2"] 2 = true := by decide +kernel
example : StageHyps' f5 1 = true := by decide +kernel

/-! ### 7. after the event loop: sizes and migrations, down to the observable of the resolved graph

The finishing steps of `build_graph` (`finishDoc`: "resolve/remove growth_rate in oldest epochs",
`_add_migrations_from_matrices`, the division of the rates by `4·N0`, `_remove_transient_demes`,
`_sort_demes_by_ancestry`), `resolve` on the explicit document, the placeholder table for symbolic
sizes and `graphSem` keep the size functions and the migration rate function of the event loop. -/

/-- **(1) `Builder._add_migrations_from_matrices`.**  For a matrix history with strictly decreasing
end times (`mm_list`, `mm_end_times`; most ancient matrix first) and pairwise different deme
names: every emitted migration goes between two different demes of the list and has
`end_time < start_time` (`MigsWF`); and for every ordered pair `(j, k)`, `j ≠ k`, and every time `t`
the rates of the emitted migrations into deme `j` from deme `k` that are active at `t`
(`end_time ≤ t < start_time`: `activeRates`) are — nothing, where no matrix is in force or the entry
`[j][k]` of the matrix in force (`mmRateAt`) is zero; exactly that entry otherwise
(`expectedRates`).  So no two emitted migrations of one pair overlap, a run of equal non-zero
entries is one migration, and a zero closes a run. -/
theorem addMigrations_sem (names : List String) (ml : List MM) (ts : List Q) (migs : List BMigration)
    (h : addMigrationsFromMatrices names ml ts = .ok migs) (hnd : names.Nodup)
    (hdec : ts.Pairwise (fun a b => b < a)) :
    MigsWF names migs ∧
    ∀ j k, j < names.length → k < names.length → j ≠ k → ∀ t,
      activeRates names migs j k t = expectedRates (mmRateAt ml ts j k t) :=
  Proofs.FromMs.addMigrations_sem h hnd hdec

/-- non-vacuity of (1) and (2): two matrices (`[2, ∞)`: 1 into deme1 from deme2, 1/2 into deme2 from
deme1; `[0, 2)`: 1 and 0) give one merged migration `[0, ∞)` of rate 1 and one migration `[2, ∞)` of
rate 1/2 -/
def exHistory : List MM × List Q :=
  ([[[.fin 0, .fin 1], [.fin (1/2), .fin 0]], [[.fin 0, .fin 1], [.fin 0, .fin 0]]], [2, 0])

example : ["deme1", "deme2"].Nodup ∧ exHistory.2.Pairwise (fun a b => b < a)
    ∧ (addMigrationsFromMatrices ["deme1", "deme2"] exHistory.1 exHistory.2).toOption
      = some [{ source := "deme2", dest := "deme1", startTime := .inf, endTime := 0, rate := .fin 1 },
             { source := "deme1", dest := "deme2", startTime := .inf, endTime := 2, rate := .fin (1/2) }] := by
  decide +kernel

/-- **(2) `rate /= 4·N0`** commutes with (1): after the division the active rate of every ordered
pair at every time is the scaled entry (`scaleRate`) of the matrix in force. -/
theorem scale_rates (names : List String) (ml : List MM) (ts : List Q) (migs : List BMigration) (N0 : Q)
    (h : addMigrationsFromMatrices names ml ts = .ok migs) (hnd : names.Nodup)
    (hdec : ts.Pairwise (fun a b => b < a)) (hN : N0 ≠ 0) :
    ∀ j k, j < names.length → k < names.length → j ≠ k → ∀ t,
      activeRates names (migs.map (scaleMig N0)) j k t
        = expectedRates ((mmRateAt ml ts j k t).map (scaleRate N0)) :=
  Proofs.FromMs.scale_rates h hnd hdec hN

/-- **(3a) `Builder._remove_transient_demes`.**  With pairwise different deme names: the demes that
remain are exactly the non-transient ones (`isTransient`: finite non-zero `start_time` equal to the
end time of the last epoch — a population created by `-es` and joined at the same time), in their
order; migrations, pulses and the number of populations are untouched; and no pulse, no migration
and no remaining deme (as an ancestor) refers to a deleted deme (the three assertions). -/
theorem removeTransient_sem (doc doc' : MsDoc) (h : removeTransientDemes doc = .ok doc')
    (hnd : (doc.demes.map (·.name)).Nodup) :
    doc'.demes = doc.demes.filter (fun d => !isTransient d)
    ∧ doc'.migrations = doc.migrations ∧ doc'.pulses = doc.pulses ∧ doc'.numPops = doc.numPops
    ∧ ∀ d ∈ doc.demes, isTransient d = true → Unreferenced doc doc'.demes d :=
  Proofs.FromMs.removeTransient_sem h hnd

/-- non-vacuity of (3a): `deme3` lives on `[4, 4)` and is dropped -/
def exTransientDoc : MsDoc :=
  { demes := [{ name := "deme1", startTime := .inf, epochs := [{ endSize := ⟨1, 0⟩, endTime := 0, startSize := some ⟨1, 0⟩ }] },
              { name := "deme3", startTime := .fin 4, epochs := [{ endSize := ⟨1, 0⟩, endTime := 4, startSize := some ⟨1, 0⟩ }],
                ancestors := some ["deme1"] }],
    migrations := [], pulses := none, numPops := 3 }

example : (exTransientDoc.demes.map (·.name)).Nodup
    ∧ (removeTransientDemes exTransientDoc).toOption.map (fun d => d.demes.map (·.name)) = some ["deme1"] := by
  decide +kernel

/-- **(3b) `Builder._sort_demes_by_ancestry`** only permutes the demes (it is the stable sort of
`fromMs_deme_k_is_population_k`): whatever is computed per deme and then ordered by a key that
identifies the deme — `graphSem` orders by the population number it looks up BY NAME — does not
see the sort. -/
theorem sortDemes_sem {β} (f : BDeme → Nat × β) (ds : List BDeme)
    (hkeys : (ds.map (fun d => (f d).1)).Nodup) :
    sortKey ((sortDemesByAncestry ds).map f) = sortKey (ds.map f) :=
  Proofs.FromMs.sortDemes_sem f ds hkeys

/-- **(4) reading the resolved graph back.**  The document `from_ms` hands to `resolve` is explicit
(every deme has its `start_time`, every epoch its `end_time`, `end_size` and `start_size`, every
migration its bounds), so `resolve` infers nothing: position by position the graph's demes have
the document's name, start time and epochs (`epochsOf`: the document's end times and sizes, start
times chained, `size_function` constant iff the two sizes are equal); the graph's migrations are
the document's with their bounds and (finite) rates; and the symbolic sizes come back through the
placeholder table — `mg.size` of a stored size is the `Sz` of the document — so the segments
`graphSem` shows for a deme (`epSeg`) are `gsegs` of the document's epochs. -/
theorem resolve_readback_sizes_migs (c : List String) (N0 : Q) (mg : MsGraph) (h : fromMs c N0 none = .ok mg) :
    mg.graph.demes.length = mg.doc.demes.length ∧
    (∀ (i : Nat) (d : BDeme) (D : Deme), mg.doc.demes[i]? = some d → mg.graph.demes[i]? = some D →
        D.name = d.name ∧ D.startTime = d.startTime ∧ D.epochs = epochsOf mg.table d.startTime d.epochs
        ∧ (∀ e ∈ d.epochs, mg.size (szToQ mg.table e.endSize) = e.endSize
            ∧ mg.size (szToQ mg.table (e.startSize.getD e.endSize)) = e.startSize.getD e.endSize)
        ∧ D.epochs.map (epSeg mg.size) = gsegs d.startTime d.epochs) ∧
    mg.graph.migrations.length = mg.doc.migrations.length ∧
    (∀ (i : Nat) (m : BMigration) (M : Migration), mg.doc.migrations[i]? = some m → mg.graph.migrations[i]? = some M →
        M.source = m.source ∧ M.dest = m.dest ∧ M.startTime = m.startTime ∧ M.endTime = m.endTime
        ∧ m.rate = Num.fin M.rate) :=
  Proofs.FromMs.resolve_readback_sizes_migs h

/-- The observable of every graph `from_ms` returns exists (every deme, migration end, pulse end and
ancestor has a population number). -/
theorem resultSem_total (c : List String) (N0 : Q) (mg : MsGraph) (h : fromMs c N0 none = .ok mg) :
    ∃ rs, resultSem mg = .ok rs :=
  Proofs.FromMs.resultSem_total h

/-- **(5) sizes and migrations.**  Whenever `from_ms` returns a graph, the command has a meaning
and the two parsers agree on it (`parsersAgree`, decidable): the graph has an observable, and —
`semEquivSizesMigs`, the first two components of `semEquiv` — it shows the same populations as the
command (population `k` is the deme `deme{k}`; a population created and joined at the same time
is shown by neither side), with the same lifetimes, the same size and the same growth rate at
every cut point, and the same migration step function.  No tameness hypothesis: this holds for
**every** such command, including the shapes of F5, F21, F22, F6b (those findings concern the
lineage movements only; F4 is a rejection, not a wrong model). -/
theorem fromMs_sizes_migs_sem (c : List String) (N0 : Q) (mg : MsGraph) (sem : DemogSem)
    (h : fromMs c N0 none = .ok mg) (hsem : msSem c N0 = .ok sem) (hp : parsersAgree c = true) :
    ∃ rs, resultSem mg = .ok rs ∧ semEquivSizesMigs sem rs = true :=
  Proofs.FromMs.fromMs_sizes_migs_sem_total h hsem hp

/-- non-vacuity, and the theorem at work on the findings: on the msdoc-style examples and on the
commands of F5, F21, F22, F6b (whose lineage movements differ) sizes and migrations agree -/
def SizesMigsAgree (c : List String) (N0 : Q) : Bool :=
  match fromMs c N0 none, msSem c N0 with
  | .ok mg, .ok sem => parsersAgree c && (match resultSem mg with | .ok rs => semEquivSizesMigs sem rs | _ => false)
  | _, _ => false

example : SizesMigsAgree ["-I", "2", "1", "1", "0.5", "-g", "1", "1.0", "-en", "0.5", "1", "2", "-ej", "1.0", "2", "1", "-t", "5", "-T"] 1
    = true := by decide +kernel
example : SizesMigsAgree ["-I", "3", "1", "1", "1", "-ma", "x", "0.25", "0.5", "0.25", "x", "0.5", "0.25", "0.125", "x",
    "-ej", "0.5", "3", "2", "-ema", "0.75", "3", "x", "0.5", "x", "0.5", "x", "x", "x", "x", "x", "-ej", "1", "2", "1"] 1
    = true := by decide +kernel
example : [f5, f21, f22, f6b].map (fun c => SizesMigsAgree c 1) = [true, true, true, true] := by decide +kernel
/-- a transient population (`-es` and `-ej` of the new population at the same time into the
population it came from: F6b's shape with `p = 0.5`) is shown by neither side -/
example : SizesMigsAgree ["-I", "2", "1", "1", "-es", "1.0", "1", "0.5", "-ej", "1.0", "3", "1"] 1 = true := by
  decide +kernel

/-! ### 8. the lineage movements on the fragment `Tame'`

`groupOps n cmds` reads the `-es` / `-ej` options of one time group (`n` populations exist before it)
as moves `(a, h, q)` — "a fraction `q` of the lineages of population `a` goes to population `h`":
`-es i p` immediately followed (among the `-es`/`-ej` of the group) by `-ej n+1 k` is the admixture
`(i, k, 1-p)`; any other `-es i p` is `(i, n+1, 1-p)`; `-ej i j` is `(i, j, 1)`.  `GoodGroup n cmds`:
no population is the source of a move after it was the target of an earlier move of the group
(`noSourceAfterTarget`), every `-es` has `0 < p ≤ 1`, and a group with `-es`/`-ej` is not at time 0.
`Tame' pr`: every time group of the command is a `GoodGroup`.  `groupMoves` (Spec/C08.lean) reads the
movement rows of one time off Builder data exactly as `graphSem` reads them off a graph. -/

/-- **`applyParams_sem`.**  A good time group of the run: the Builder state `s` and the interpreter
state `σ` correspond (`SizeSim`), both process the options `evs` of the group at time `T' ≠ 0`
(giving `s1`, `split_join_params` / `lineage_movements` `g1`, and the interpreter's movement matrix
`L1`), every deme of `s` has its oldest epoch ending before `T'` and starts at `∞` or before `T'`,
and no pulse of `s` is at `T'`.  Then the ancestry and the pulses that `applyParams` writes, read
back by `groupMoves` the way `graphSem` reads a graph (pulses of the time in the order written,
then the ancestry of the demes starting at the time, on the identity rows of the demes that exist
just before it), are the interpreter's movement matrix of the group, in canonical form. -/
theorem applyParams_sem (N0 T T' : Q) (s s1 : BState) (g1 : GState) (σ σ1 : St) (L1 : List (Nat × Row))
    (evs : List (Event Num))
    (hsim : Proofs.FromMs.SizeSim T s σ) (hT : T ≤ T') (hall : ∀ e ∈ evs, Proofs.FromMs.HasCmd e)
    (htime : ∀ e ∈ evs, 4 * N0 * (Proofs.FromMs.cmdOfD e).t = T')
    (hm : evs.foldlM (stepEvent N0 T') (s, { lm := Proofs.FromMs.initLm s evs, params := [] }) = .ok (s1, g1))
    (hs : (evs.map Proofs.FromMs.cmdOfD).foldlM (MsSem.step N0) (σ, Proofs.FromMs.initL σ) = .ok (σ1, L1))
    (hgood : GoodGroup s.numDemes (evs.map Proofs.FromMs.cmdOfD) = true) (hT0 : T' ≠ 0)
    (hnames : Proofs.FromMs.NameInv s)
    (hend : ∀ (j : Nat) (d : BDeme), s.demes[j]? = some d → bEndTime d < T')
    (hst : ∀ (j : Nat) (d : BDeme), s.demes[j]? = some d → d.startTime = .inf ∨ ∃ t, d.startTime = .fin t ∧ t < T')
    (hpul : ∀ p ∈ s.pulses.getD [], p.time ≠ T') :
    ∃ L2, groupMoves (popNames (applyParams T' s1 g1).numDemes) T' (applyParams T' s1 g1).demes
        ((applyParams T' s1 g1).pulses.getD []) = .ok L2 ∧ canonRows L2 = canonRows L1 :=
  Proofs.FromMs.applyParams_sem hsim hT hall htime hm hs hgood hT0 hnames hend hst hpul

/-- **`resolve` reads the movement part of the document back**: position by position the demes of the
graph have the name, start time, end time (of the oldest epoch), ancestors (none written: `[]`) and
proportions (none written: `[1]` for a single ancestor, else `[]`) of the document's demes, and the
pulses are the document's, stably sorted by descending time. -/
theorem resolve_readback_moves (tab : List (Sz × Q)) (doc : MsDoc) (g : Graph)
    (h : Demes.resolve (doc.toValue tab) = .ok g) :
    g.demes.map Proofs.FromMs.viewG = doc.demes.map Proofs.FromMs.viewB
    ∧ g.pulses = sortPulses ((doc.pulses.getD []).map Proofs.FromMs.bp2p) :=
  Proofs.FromMs.resolve_doc_views h

/-- **the lineage movements of `from_ms`, on the fragment `Tame'`.**  If `from_ms` returns a graph, the
command has a meaning, the two parsers agree on what it says (`parsersAgree`, decidable), and every
time group of the command is a `GoodGroup`, then the demography of the graph exists and its
lineage-movement matrices — at the same times, in the same order — are those of the ms
interpreter. -/
theorem fromMs_moves_partial (c : List String) (N0 : Q) (mg : MsGraph) (sem : DemogSem) (pr : Parsed)
    (h : fromMs c N0 none = .ok mg) (hsem : msSem c N0 = .ok sem) (hp : parsersAgree c = true)
    (hpr : parse c = .ok pr) (ht : Tame' pr = true) :
    ∃ gsem, resultSem mg = .ok gsem ∧ gsem.moves = sem.moves :=
  Proofs.FromMs.fromMs_moves_partial h hsem hp hpr ht

/-- the same with `movesOf` -/
theorem fromMs_moves (c : List String) (N0 : Q) (mg : MsGraph) (sem : DemogSem) (pr : Parsed)
    (h : fromMs c N0 none = .ok mg) (hsem : msSem c N0 = .ok sem) (hp : parsersAgree c = true)
    (hpr : parse c = .ok pr) (ht : Tame' pr = true) :
    movesOf (resultSem mg) = movesOf (msSem c N0) := by
  obtain ⟨gsem, hg, hm⟩ := Proofs.FromMs.fromMs_moves_partial h hsem hp hpr ht
  rw [hg, hsem]
  show some gsem.moves = some sem.moves
  rw [hm]

/-- **the assembled statement on the fragment `Tame'`**: with the sizes-and-migrations component —
link B's `fromMs_sizes_migs_sem`, proved there for every command — as the hypothesis `hB`, both
demographies exist and are equivalent (`SemAgree`: populations, lifetimes, sizes and growth rates at
every cut point, migration step function, lineage movements).  `NoSizeAtJoin` is not needed: the
finding F4 is a rejection by `from_ms`, not a wrong graph. -/
theorem fromMs_sem_partial (c : List String) (N0 : Q) (mg : MsGraph) (sem : DemogSem) (pr : Parsed)
    (h : fromMs c N0 none = .ok mg) (hsem : msSem c N0 = .ok sem) (hp : parsersAgree c = true)
    (hpr : parse c = .ok pr) (ht : Tame' pr = true)
    (hB : ∃ rs, resultSem mg = .ok rs ∧ semEquivSizesMigs sem rs = true) :
    SemAgree (msSem c N0) (resultSem mg) = true :=
  Proofs.FromMs.fromMs_sem_partial h hsem hp hpr ht hB

/-- **`GoodGroup` is weaker than the previous fragment**: a time group whose `-es`/`-ej` options are at
most one `-es`, one `-ej`, or one `-es` followed by one `-ej` (`tameGroup`, the per-time condition of
`Tame`), with split fractions in `(0, 1]` and not at time 0, is a `GoodGroup` — whatever the `-ej`
of the pair joins.  (The converse fails: `threePairs`, `star`, `twoAncestors` below.) -/
theorem goodGroup_of_tame (n : Nat) (cmds : List Cmd) (h1 : tameGroup (cmds.filter isMove) = true)
    (h2 : ∀ t i p, Cmd.split t i p ∈ cmds → 0 < p ∧ p ≤ 1)
    (h3 : (cmds.filter isMove).all (fun c => decide (0 < c.t)) = true) : GoodGroup n cmds = true :=
  Proofs.FromMs.goodGroup_of_tame n cmds h1 (fun c hc => by
    cases c with
    | split t i p => exact h2 t i p hc
    | _ => trivial) h3

/-! #### non-vacuity and the boundary of the fragment -/

/-- all hypotheses of `fromMs_moves_partial` hold (and so does its conclusion) -/
def MovesHyps (c : List String) (N0 : Q) : Bool :=
  match fromMs c N0 none, msSem c N0, parse c with
  | .ok mg, .ok sem, .ok pr =>
    parsersAgree c && Tame' pr && decide (movesOf (resultSem mg) = some sem.moves) && !sem.moves.isEmpty
  | _, _, _ => false

/-- a single `-ej`; an admixture pair `-es i p -ej n+1 k` (N0 = 2); a pair whose target continues and
is joined later; an `-ej` chain at different times -/
example : MovesHyps twoPops 1 = true := by decide +kernel
example : MovesHyps ["-I", "2", "1", "1", "-es", "1.0", "1", "0.25", "-ej", "1.0", "3", "2"] 2 = true := by decide +kernel
example : MovesHyps ["-I", "2", "1", "1", "-es", "1.0", "1", "0.25", "-ej", "1.0", "3", "2", "-ej", "2.0", "2", "1"] 1 = true := by
  decide +kernel
example : MovesHyps ["-I", "3", "1", "1", "1", "-ej", "1.0", "3", "2", "-ej", "2.0", "2", "1"] 1 = true := by decide +kernel

/-- shapes that `Tame` (at most one `-es`/`-ej` pair per time) excludes and `Tame'` covers: three
admixture pairs on disjoint populations at one time; three populations joining a fourth at one
time; the `to_ms` encoding of a deme with two ancestors (`-es 1 p`, `-ej 4 2`, `-ej 1 3`) -/
def threePairs : List String :=
  ["-I", "6", "1", "1", "1", "1", "1", "1", "-es", "1.0", "1", "0.25", "-ej", "1.0", "7", "2",
   "-es", "1.0", "3", "0.5", "-ej", "1.0", "8", "4", "-es", "1.0", "5", "0.75", "-ej", "1.0", "9", "6"]
def star : List String :=
  ["-I", "4", "1", "1", "1", "1", "-ej", "1.0", "2", "1", "-ej", "1.0", "3", "1", "-ej", "1.0", "4", "1"]
def twoAncestors : List String :=
  ["-I", "3", "1", "1", "1", "-es", "1.0", "1", "0.25", "-ej", "1.0", "4", "2", "-ej", "1.0", "1", "3"]

example : [threePairs, star, twoAncestors].map (fun c => (parse c).toOption.map (fun pr => (Tame pr, Tame' pr)))
    = [some (false, true), some (false, true), some (false, true)] := by decide +kernel
example : [threePairs, star, twoAncestors].map (fun c => MovesHyps c 1) = [true, true, true] := by decide +kernel
/-- the moves `groupOps` reads off the two-ancestor group -/
example : groupOps 3 [.split 1 1 (1/4), .join 1 4 2, .join 1 1 3] = [(1, 2, 3/4), (1, 3, 1)] := by decide +kernel

/-- on the msdoc-style examples above both fragments apply -/
example : (parse ["-I", "2", "1", "1", "0.5", "-g", "1", "1.0", "-en", "0.5", "1", "2", "-ej", "1.0", "2", "1", "-t", "5", "-T"]).toOption.map
    (fun pr => (Tame pr, Tame' pr)) = some (true, true) := by decide +kernel

/-- **the boundary**: the time groups of the findings are not good — F5 (a split of the population an
earlier split of the group created), F21 (interleaved pairs: the `-ej` of a new population is not
the next `-es`/`-ej` option), F22 (a population split after it received lineages), F6b (`p = 0`) —
and a group with `-es`/`-ej` at time 0 is not; options that move no lineage may be interleaved -/
example : GoodGroup 2 [.split 1 2 (1/2), .split 1 3 (1/2)] = false
    ∧ GoodGroup 3 [.split 1 2 (3/4), .split 1 1 (1/8), .join 1 4 1, .join 1 5 3] = false
    ∧ GoodGroup 3 [.join 1 2 3, .join 1 3 1, .split 1 1 (1/4)] = false
    ∧ GoodGroup 2 [.split (3/8) 2 0, .join (3/8) 3 1] = false
    ∧ GoodGroup 2 [.split 0 1 (1/4), .join 0 3 2] = false
    ∧ GoodGroup 2 [.split 1 1 (1/4), .setSize 1 3 2 true, .join 1 3 2] = true := by decide +kernel

/-- the commands of the findings are outside `Tame'`, and their movements do differ
(`fromMs_split_of_new_population_counterexample`, … above) -/
example : [f5, f21, f22, f6b].map (fun c => (parse c).toOption.map Tame') = [some false, some false, some false, some false] := by
  decide +kernel

/-- `GoodGroup` is sufficient, not necessary: a join followed by a split of its target, and a chain
of joins at one time, are outside `Tame'` (a population is a source after it was a target) but are
converted correctly (the Builder recomputes the ancestry of a joined population from the matrix;
it is only the combination of F22 that goes wrong) -/
def joinThenSplit : List String := ["-I", "2", "1", "1", "-ej", "1.0", "1", "2", "-es", "1.0", "2", "0.5"]
def chainSameTime : List String := ["-I", "3", "1", "1", "1", "-ej", "1.0", "2", "3", "-ej", "1.0", "3", "1"]

example : [joinThenSplit, chainSameTime].map (fun c => (parse c).toOption.map Tame') = [some false, some false] := by
  decide +kernel
example : [joinThenSplit, chainSameTime].map (fun c =>
    match fromMs c 1 none, msSem c 1 with
    | .ok mg, .ok sem => decide (movesOf (resultSem mg) = some sem.moves)
    | _, _ => false) = [true, true] := by decide +kernel

/-! ### 9. the assembled refinement on the fragment `Tame'` -/

/-- **C08 on the fragment `Tame'`.**  If `from_ms` returns a graph for the command, the command has
a meaning under the ms interpreter, the two parsers agree on it (`parsersAgree`, decidable) and
every time group of the command is a `GoodGroup`, then both demographies exist and are equivalent:
the same populations (population `k` is the deme `deme{k}`) with the same lifetimes, the same size
and growth rate at every cut point, the same migration step function and the same
lineage-movement matrices.  (`fromMs_sem_partial` with its hypothesis `hB` discharged by
`fromMs_sizes_migs_sem`.) -/
theorem fromMs_sem (c : List String) (N0 : Q) (mg : MsGraph) (sem : DemogSem) (pr : Parsed)
    (h : fromMs c N0 none = .ok mg) (hsem : msSem c N0 = .ok sem) (hp : parsersAgree c = true)
    (hpr : parse c = .ok pr) (ht : Tame' pr = true) :
    SemAgree (msSem c N0) (resultSem mg) = true :=
  fromMs_sem_partial c N0 mg sem pr h hsem hp hpr ht (fromMs_sizes_migs_sem c N0 mg sem h hsem hp)

/-- the same on plain command lines (`PlainTokens`: written the way the ms manual and `to_ms` write
them), where the agreement of the two parsers is a theorem (`parsers_agree`) -/
theorem fromMs_sem_plain (c : List String) (N0 : Q) (mg : MsGraph) (sem : DemogSem) (pr : Parsed)
    (h : fromMs c N0 none = .ok mg) (hsem : msSem c N0 = .ok sem) (hpl : PlainTokens c = true)
    (hpr : parse c = .ok pr) (ht : Tame' pr = true) :
    SemAgree (msSem c N0) (resultSem mg) = true := by
  obtain ⟨args, _, hargs, _, _⟩ := Proofs.FromMs.fromMs_buildState h
  exact fromMs_sem c N0 mg sem pr h hsem (Proofs.FromMsParse.parsersAgree_of_plain hpl hargs hpr) hpr ht

/-- non-vacuity of `fromMs_sem_plain`: every hypothesis holds (and so does the conclusion) on
msdoc-style examples with joins, an admixture pair, growth and migration matrices -/
def SemHyps (c : List String) (N0 : Q) : Bool :=
  match fromMs c N0 none, msSem c N0, parse c with
  | .ok mg, .ok _, .ok pr => PlainTokens c && Tame' pr && SemAgree (msSem c N0) (resultSem mg)
  | _, _, _ => false

example : SemHyps ["-I", "2", "1", "1", "-ej", "1.0", "2", "1"] 1 = true := by decide +kernel
example : SemHyps ["-I", "2", "1", "1", "0.5", "-g", "1", "1.0", "-en", "0.5", "1", "2", "-ej", "1.0", "2", "1", "-t", "5", "-T"] 1
    = true := by decide +kernel
example : SemHyps ["-I", "3", "1", "1", "1", "-ma", "x", "0.25", "0.5", "0.25", "x", "0.5", "0.25", "0.125", "x",
    "-ej", "0.5", "3", "2", "-ema", "0.75", "3", "x", "0.5", "x", "0.5", "x", "x", "x", "x", "x", "-ej", "1", "2", "1"] 1
    = true := by decide +kernel
example : SemHyps ["-I", "2", "1", "1", "-es", "1.0", "1", "0.25", "-ej", "1.0", "3", "2"] 2 = true := by decide +kernel

/-! ### 10. `-es` / `-ej` at time 0

The third clause of `GoodGroup` ("a group with `-es`/`-ej` is not at time 0") is not needed.
`from_ms` rejects **every** command with an `-ej` at time 0 (`fromMs_rejects_join_at_zero`: the deme of the
joined population would start at time 0).  An `-es` at time 0 is **not** always rejected
(`fromMs_rejects_moves_at_zero_counterexample`: `-es 0 i 1`, which moves no lineage, is accepted — and
converted correctly); but on the fragment `Tame''` (the first two clauses of `GoodGroup` for every time
group) an accepted command has at time 0 nothing but `-es 0 i 1` of initial populations
(`fromMs_rejects_moves_at_zero_partial`), and the refinement holds without the third clause
(`fromMs_sem'`, `fromMs_sem_plain'`). -/

/-- **`from_ms` rejects every command with an `-ej` at time 0** — whatever else the command says, for
every `N0`, with or without `deme_names`.  (`args` is what argparse reads off the command line.)  No
hypothesis about the ms interpreter. -/
theorem fromMs_rejects_join_at_zero (c : List String) (N0 : Q) (names : Option (List String)) (args : Args)
    (hargs : parseKnownArgs c = .ok args)
    (hj : ∃ o i j, Event.join o (.fin 0) i j ∈ args.demographicEvents) :
    ∃ err, fromMs c N0 names = .error err := by
  obtain ⟨o, i, j, hmem⟩ := hj
  exact Proofs.FromMs.fromMs_rejects_join_at_zero names hargs ⟨_, hmem, rfl, rfl⟩

/-- the same stated on the interpreter's parse of the command (`parse c = .ok pr`), when the two
parsers agree on the command -/
theorem fromMs_rejects_join_at_zero' (c : List String) (N0 : Q) (names : Option (List String)) (pr : Parsed)
    (hp : parsersAgree c = true) (hpr : parse c = .ok pr) (hj : ∃ i j, Cmd.join 0 i j ∈ pr.events) :
    ∃ err, fromMs c N0 names = .error err := by
  obtain ⟨i, j, hmem⟩ := hj
  exact Proofs.FromMs.fromMs_rejects_join_at_zero_parsed names hp hpr hmem

def joinAtZero : List String := ["-I", "2", "1", "1", "-ej", "0", "2", "1"]
def admixAtZero : List String := ["-I", "2", "1", "1", "-es", "0", "1", "0.5", "-ej", "0", "3", "2"]

/-- non-vacuity: the hypotheses hold for `-ej 0 2 1` and for an admixture pair at time 0; the error
is the `ValueError` of the `start_time` validator ("must be greater than zero") -/
example : [joinAtZero, admixAtZero].map (fun c => ((parseKnownArgs c).toOption.map (fun args =>
      args.demographicEvents.any (fun e => match e with | .join _ (.fin 0) _ _ => true | _ => false)),
    (fromMs c 1 none).toOption.isSome)) = [(some true, false), (some true, false)] := by decide +kernel
example : (match fromMs joinAtZero 1 none with
    | .error e => decide (e.kind = .value) && e.msg == "must be greater than zero"
    | .ok _ => false) = true := by decide +kernel
example : [joinAtZero, admixAtZero].map (fun c => (parsersAgree c,
    (parse c).toOption.map (fun pr => pr.events.any (fun x => match x with | .join 0 _ _ => true | _ => false))))
    = [(true, some true), (true, some true)] := by decide +kernel

def splitAtZero : List String := ["-I", "2", "1", "1", "-es", "0", "1", "1.0"]
def splitNewAtZero : List String := ["-I", "2", "1", "1", "-es", "0", "1", "1.0", "-es", "0", "3", "0.5"]

/-- **a command with an `-es` at time 0 is not always rejected**: `-es 0 1 1.0` (every lineage stays:
`p = 1`) is accepted; the graph has the new population as a deme `deme3` that exists from time 0 on
and receives nothing; the command has a meaning, and the two agree (no lineage movement on either
side).  So is `-es 0 1 1.0 -es 0 3 0.5` (a split, with `p < 1`, of the still empty new population). -/
theorem fromMs_rejects_moves_at_zero_counterexample :
    (parse splitAtZero).toOption.map (·.events) = some [Cmd.split 0 1 1]
    ∧ (fromMs splitAtZero 1 none).toOption.map (fun mg =>
        (mg.graph.demes.map (fun d => (d.name, d.startTime, d.endTime)), mg.graph.pulses.length))
      = some ([("deme1", .inf, 0), ("deme2", .inf, 0), ("deme3", .inf, 0)], 0)
    ∧ (fromMs splitAtZero 1 none).toOption.map (fun mg => SemAgree (msSem splitAtZero 1) (resultSem mg)) = some true
    ∧ movesOf (msSem splitAtZero 1) = some []
    ∧ (parse splitNewAtZero).toOption.map (·.events) = some [Cmd.split 0 1 1, Cmd.split 0 3 (1/2)]
    ∧ (fromMs splitNewAtZero 1 none).toOption.map (fun mg => SemAgree (msSem splitNewAtZero 1) (resultSem mg)) = some true := by
  decide +kernel

/-- an `-es` at time 0 that does move lineages is rejected (the `ValueError` of the pulse validator:
the pulse would be at the end time of its destination) -/
example : (match fromMs ["-I", "2", "1", "1", "-es", "0", "1", "0.5"] 1 none with
    | .error e => decide (e.kind = .value) && e.msg == "invalid pulse at dest's end_time"
    | .ok _ => false) = true := by decide +kernel

/-- **what an accepted command of the fragment `Tame''` has at time 0** (the strongest variant of "moves
at time 0 are rejected" that is true): if `from_ms` returns a graph, the command has a meaning, the
parsers agree and every time group satisfies the first two clauses of `GoodGroup`, then the command
has no `-ej` at time 0, and every `-es 0 i p` of an initial population (`i ≤ npop`) has `p = 1` — it
moves no lineage. -/
theorem fromMs_rejects_moves_at_zero_partial (c : List String) (N0 : Q) (mg : MsGraph) (sem : DemogSem) (pr : Parsed)
    (h : fromMs c N0 none = .ok mg) (hsem : msSem c N0 = .ok sem) (hp : parsersAgree c = true)
    (hpr : parse c = .ok pr) (ht : Tame'' pr = true) :
    (∀ i j, Cmd.join 0 i j ∉ pr.events) ∧ (∀ i p, Cmd.split 0 i p ∈ pr.events → i ≤ pr.npop → p = 1) :=
  Proofs.FromMs.fromMs_zero_partial h hsem hp hpr ht

/-- `Tame'` is the special case of `Tame''` -/
theorem tame''_of_tame' (pr : Parsed) (h : Tame' pr = true) : Tame'' pr = true :=
  Proofs.FromMs.tame2_of_tame _ _ h

/-- **the lineage movements of `from_ms`, on the fragment `Tame''`**: `fromMs_moves_partial` without the
time-0 clause -/
theorem fromMs_moves' (c : List String) (N0 : Q) (mg : MsGraph) (sem : DemogSem) (pr : Parsed)
    (h : fromMs c N0 none = .ok mg) (hsem : msSem c N0 = .ok sem) (hp : parsersAgree c = true)
    (hpr : parse c = .ok pr) (ht : Tame'' pr = true) :
    ∃ gsem, resultSem mg = .ok gsem ∧ gsem.moves = sem.moves :=
  Proofs.FromMs.fromMs_moves_tame2 h hsem hp hpr ht

/-- **C08 on the fragment `Tame''`.**  The statement of `fromMs_sem` with `Tame''` — every time group
satisfies (1) no population is the source of a move after being the target of an earlier move of the
group and (2) every `-es` has `0 < p ≤ 1` — in place of `Tame'`: the third clause of `GoodGroup` is
discharged from the acceptance hypothesis `h`. -/
theorem fromMs_sem' (c : List String) (N0 : Q) (mg : MsGraph) (sem : DemogSem) (pr : Parsed)
    (h : fromMs c N0 none = .ok mg) (hsem : msSem c N0 = .ok sem) (hp : parsersAgree c = true)
    (hpr : parse c = .ok pr) (ht : Tame'' pr = true) :
    SemAgree (msSem c N0) (resultSem mg) = true :=
  Proofs.FromMs.fromMs_sem_tame2 h hsem hp hpr ht

/-- the same on plain command lines -/
theorem fromMs_sem_plain' (c : List String) (N0 : Q) (mg : MsGraph) (sem : DemogSem) (pr : Parsed)
    (h : fromMs c N0 none = .ok mg) (hsem : msSem c N0 = .ok sem) (hpl : PlainTokens c = true)
    (hpr : parse c = .ok pr) (ht : Tame'' pr = true) :
    SemAgree (msSem c N0) (resultSem mg) = true := by
  obtain ⟨args, _, hargs, _, _⟩ := Proofs.FromMs.fromMs_buildState h
  exact fromMs_sem' c N0 mg sem pr h hsem (Proofs.FromMsParse.parsersAgree_of_plain hpl hargs hpr) hpr ht

/-- non-vacuity of `fromMs_sem_plain'` and of `fromMs_rejects_moves_at_zero_partial`: every hypothesis
holds (and so does the conclusion) for the command with `-es 0 1 1.0`, which is outside `Tame'`; and for
the examples of §9 -/
def SemHyps' (c : List String) (N0 : Q) : Bool :=
  match fromMs c N0 none, msSem c N0, parse c with
  | .ok mg, .ok _, .ok pr => PlainTokens c && Tame'' pr && SemAgree (msSem c N0) (resultSem mg)
  | _, _, _ => false

example : SemHyps' splitAtZero 1 = true ∧ (parse splitAtZero).toOption.map Tame' = some false := by decide +kernel
example : SemHyps' (splitAtZero ++ ["-ej", "1.0", "3", "2", "-ej", "2.0", "2", "1"]) 1 = true := by decide +kernel
example : SemHyps' ["-I", "2", "1", "1", "0.5", "-g", "1", "1.0", "-en", "0.5", "1", "2", "-ej", "1.0", "2", "1", "-t", "5", "-T"] 1
    = true := by decide +kernel
example : SemHyps' ["-I", "2", "1", "1", "-es", "1.0", "1", "0.25", "-ej", "1.0", "3", "2"] 2 = true := by decide +kernel
/-- `Tame''` still excludes the findings (and `splitNewAtZero`, whose second `-es` splits a target) -/
example : [f5, f21, f22, f6b, splitNewAtZero].map (fun c => (parse c).toOption.map Tame'')
    = [some false, some false, some false, some false, some false] := by decide +kernel

/-! ### 11. a wider fragment: `GoodGroup2`

How `build_graph` turns the moves of one time group into ancestry and pulses: `split_join_params` gets an
entry `(g, h, q)` per `-es` (source, new population, `1 - p`) and per `-ej` (source, target, `1`) — but an
`-ej i j` first looks for the last entry whose target is `i` and redirects it to `j` instead (this is how
`-es … -ej n+1 k` becomes an admixture; it also contracts a chain `-ej a b … -ej b c` into `a → c` and leaves
`b` without an entry).  After the group, for every entry `(g, _, q)`: if row `g` of the lineage-movement
matrix has nothing off the diagonal, nothing; if its diagonal is zero (the population was joined), the
deme gets **its whole row** as ancestors and proportions; otherwise a pulse `(h → g, q)` at the time.

Consequences: (i) a join `a → b` followed by a split of `b` is converted correctly — the row of `a`, which
feels the split of `b`, is written wholesale, and the pulses of `b` do not touch it; (ii) in a chain
`a → b`, `b → c`, the deme of `b` keeps the ancestry `[c]` the `-ej` wrote, which is right as long as nothing
moves out of `c` afterwards (F22 is exactly the case where it does).  What goes wrong is a move out of a
population that received lineages by an `-es` in the same group (its row does not know about them: F5, F21).

`GoodGroup2 n cmds` (Spec/C08.lean; decidable): on the moves `groupOps n cmds`, (1') a population is the source
of a move after being the target of an earlier move only if that earlier move is a join (`q = 1`)
(`sourceAfterJoinOnly`); (1'') if moreover the later move is a join too — a chain `a → b`, `b → c` — then no
later move has `c` as its source (`chainsEnd`); (2) every `-es` has `0 < p ≤ 1`.  No clause about time 0
(§10).  `Tame2 pr`: every time group is a `GoodGroup2`. -/

/-- **`applyParams_sem` for `GoodGroup2`**: the statement of `applyParams_sem` with `GoodGroup2` in place of
`GoodGroup`, for a Builder state in which the demes of the populations that are not joined have no
`proportions` (`PropNone`, an invariant of the event loop on the fragment). -/
theorem applyParams_sem2 (N0 T T' : Q) (s s1 : BState) (g1 : GState) (σ σ1 : St) (L1 : List (Nat × Row))
    (evs : List (Event Num))
    (hsim : Proofs.FromMs.SizeSim T s σ) (hT : T ≤ T') (hall : ∀ e ∈ evs, Proofs.FromMs.HasCmd e)
    (htime : ∀ e ∈ evs, 4 * N0 * (Proofs.FromMs.cmdOfD e).t = T')
    (hm : evs.foldlM (stepEvent N0 T') (s, { lm := Proofs.FromMs.initLm s evs, params := [] }) = .ok (s1, g1))
    (hs : (evs.map Proofs.FromMs.cmdOfD).foldlM (MsSem.step N0) (σ, Proofs.FromMs.initL σ) = .ok (σ1, L1))
    (hgood : GoodGroup2 s.numDemes (evs.map Proofs.FromMs.cmdOfD) = true) (hT0 : T' ≠ 0)
    (hnames : Proofs.FromMs.NameInv s) (hprop : Proofs.FromMs.PropNone s)
    (hend : ∀ (j : Nat) (d : BDeme), s.demes[j]? = some d → bEndTime d < T')
    (hst : ∀ (j : Nat) (d : BDeme), s.demes[j]? = some d → d.startTime = .inf ∨ ∃ t, d.startTime = .fin t ∧ t < T')
    (hpul : ∀ p ∈ s.pulses.getD [], p.time ≠ T') :
    ∃ L2, groupMoves (popNames (applyParams T' s1 g1).numDemes) T' (applyParams T' s1 g1).demes
        ((applyParams T' s1 g1).pulses.getD []) = .ok L2 ∧ canonRows L2 = canonRows L1 :=
  Proofs.FromMs.applyParams_semW hsim hT hall htime hm hs hgood hT0 hnames hprop hend hst hpul

/-- `GoodGroup2` contains `GoodGroup` (indeed every group that satisfies its first two clauses) -/
theorem goodGroup2_of_goodGroup (n : Nat) (cmds : List Cmd) (h : GoodGroup n cmds = true) : GoodGroup2 n cmds = true := by
  apply Proofs.FromMs.goodGroup2_of_12
  unfold GoodGroup at h
  unfold GoodGroup12
  simp only [Bool.and_eq_true] at h ⊢
  exact h.1

/-- `Tame2` contains `Tame''` (hence `Tame'`) -/
theorem tame2_of_tame'' (pr : Parsed) (h : Tame'' pr = true) : Tame2 pr = true :=
  Proofs.FromMs.tameW_of_tame2 _ _ h

/-- **the lineage movements of `from_ms`, on the fragment `Tame2`** -/
theorem fromMs_moves2 (c : List String) (N0 : Q) (mg : MsGraph) (sem : DemogSem) (pr : Parsed)
    (h : fromMs c N0 none = .ok mg) (hsem : msSem c N0 = .ok sem) (hp : parsersAgree c = true)
    (hpr : parse c = .ok pr) (ht : Tame2 pr = true) :
    ∃ gsem, resultSem mg = .ok gsem ∧ gsem.moves = sem.moves :=
  Proofs.FromMs.fromMs_moves_wide h hsem hp hpr ht

/-- **C08 on the fragment `Tame2`.**  If `from_ms` returns a graph for the command, the command has a
meaning under the ms interpreter, the two parsers agree on it and every time group of the command is a
`GoodGroup2`, then both demographies exist and are equivalent (`SemAgree`). -/
theorem fromMs_sem2 (c : List String) (N0 : Q) (mg : MsGraph) (sem : DemogSem) (pr : Parsed)
    (h : fromMs c N0 none = .ok mg) (hsem : msSem c N0 = .ok sem) (hp : parsersAgree c = true)
    (hpr : parse c = .ok pr) (ht : Tame2 pr = true) :
    SemAgree (msSem c N0) (resultSem mg) = true :=
  Proofs.FromMs.fromMs_sem_wide h hsem hp hpr ht

/-- the same on plain command lines -/
theorem fromMs_sem2_plain (c : List String) (N0 : Q) (mg : MsGraph) (sem : DemogSem) (pr : Parsed)
    (h : fromMs c N0 none = .ok mg) (hsem : msSem c N0 = .ok sem) (hpl : PlainTokens c = true)
    (hpr : parse c = .ok pr) (ht : Tame2 pr = true) :
    SemAgree (msSem c N0) (resultSem mg) = true := by
  obtain ⟨args, _, hargs, _, _⟩ := Proofs.FromMs.fromMs_buildState h
  exact fromMs_sem2 c N0 mg sem pr h hsem (Proofs.FromMsParse.parsersAgree_of_plain hpl hargs hpr) hpr ht

/-! #### non-vacuity and the boundary of `GoodGroup2` -/

/-- **the boundary**: the group shapes of the findings are outside `GoodGroup2` — F5 (a split of the
population an earlier split of the group created), F21 (interleaved pairs), F22 (a chain of joins followed
by a split of its end), F6b (`p = 0`) — and the two shapes of §8 that `GoodGroup` excludes although they
are converted correctly are inside: a join followed by a split of its target, a chain of two joins -/
example : GoodGroup2 2 [.split 1 2 (1/2), .split 1 3 (1/2)] = false
    ∧ GoodGroup2 3 [.split 1 2 (3/4), .split 1 1 (1/8), .join 1 4 1, .join 1 5 3] = false
    ∧ GoodGroup2 3 [.join 1 2 3, .join 1 3 1, .split 1 1 (1/4)] = false
    ∧ GoodGroup2 2 [.split (3/8) 2 0, .join (3/8) 3 1] = false
    ∧ GoodGroup2 2 [.join 1 1 2, .split 1 2 (1/2)] = true
    ∧ GoodGroup2 3 [.join 1 2 3, .join 1 3 1] = true := by decide +kernel

/-- the commands: the findings are outside `Tame2`; `joinThenSplit`, `chainSameTime`, the examples of §8 and
`splitAtZero` are inside (and outside `Tame'`) -/
example : [f5, f21, f22, f6b].map (fun c => (parse c).toOption.map Tame2) = [some false, some false, some false, some false] := by
  decide +kernel
example : [joinThenSplit, chainSameTime, threePairs, star, twoAncestors, splitAtZero].map (fun c => (parse c).toOption.map Tame2)
    = [some true, some true, some true, some true, some true, some true] := by decide +kernel

/-- non-vacuity of `fromMs_sem2_plain`: every hypothesis holds (and so does the conclusion) -/
def SemHyps2 (c : List String) (N0 : Q) : Bool :=
  match fromMs c N0 none, msSem c N0, parse c with
  | .ok mg, .ok sem, .ok pr => PlainTokens c && Tame2 pr && SemAgree (msSem c N0) (resultSem mg) && !sem.moves.isEmpty
  | _, _, _ => false

example : SemHyps2 joinThenSplit 1 = true ∧ SemHyps2 chainSameTime 1 = true := by decide +kernel
/-- a join into a population that is then split twice and admixed; a chain after own splits of its middle
population; N0 = 2 -/
example : SemHyps2 ["-I", "3", "1", "1", "1", "-ej", "1.0", "1", "2", "-es", "1.0", "2", "0.5", "-es", "1.0", "2", "0.25",
    "-es", "1.0", "3", "0.75", "-ej", "1.0", "6", "2"] 2 = true := by decide +kernel
example : SemHyps2 ["-I", "3", "1", "1", "1", "-es", "1.0", "2", "0.5", "-ej", "1.0", "1", "2", "-ej", "1.0", "2", "3"] 1 = true := by
  decide +kernel
/-- what `from_ms` writes for `chainSameTime`: deme2 gets its row (`[deme1]`), deme3 keeps the ancestry of its `-ej` -/
example : (fromMs chainSameTime 1 none).toOption.map (fun mg => mg.graph.demes.map (fun d => (d.name, d.ancestors, d.proportions)))
    = some [("deme1", [], []), ("deme2", ["deme1"], [1]), ("deme3", ["deme1"], [1])] := by decide +kernel
/-- … and for `joinThenSplit`: deme1 gets its whole row (half to deme2, half to the new deme3), deme2 a pulse -/
example : (fromMs joinThenSplit 1 none).toOption.map (fun mg => mg.graph.demes.map (fun d => (d.name, d.ancestors, d.proportions)))
    = some [("deme2", [], []), ("deme3", [], []), ("deme1", ["deme2", "deme3"], [1/2, 1/2])] := by decide +kernel
example : (fromMs joinThenSplit 1 none).toOption.map (fun mg => mg.graph.pulses.map (fun p => (p.sources, p.dest, p.proportions)))
    = some [(["deme3"], "deme2", [1/2])] := by decide +kernel

/-- **`Tame2` is exact on a small table.**  The table `Proofs.FromMs.tabCmds` — the quantifier of this theorem
is a finite table, checked entry by entry by the kernel — consists of the 600 commands `-I 3 1 1 1` followed
by one or two options out of `-es 1.0 i 0.5` (`i ≤ 4`) and `-ej 1.0 i j` (`i ≠ j ≤ 5`).  For every command of
the table that both `from_ms` and the ms interpreter accept (81 of them): the command is in `Tame2` if and
only if the lineage movements of the graph are those of the interpreter. -/
theorem tame2_exact_on_table : ∀ c ∈ Proofs.FromMs.tabCmds, ∀ inside correct,
    Proofs.FromMs.tabClass c = some (inside, correct) → inside = correct :=
  Proofs.FromMs.tab_exact

/-- the counts on that table: (inside & correct, inside & wrong, outside & correct, outside & wrong).  With
three options (44 135 commands, 807 accepted; evaluated, not kernel-checked) the counts are (564, 0, 126, 117):
`Tame2` is sufficient but no longer exact — e.g. `-es 1 p -es 4 p' -ej 1 2` is converted correctly (the row of
the joined population 1 is written wholesale), and so is `-es 1 p -ej 4 2 -es 2 p'` (two pulses that compose in
command order).  With three options and `p ∈ {1/2, 1, 1/4}` (the enumeration quoted at the end of §8):
(3231, 0, 1548, 696), against (2662, 0, 2118, 696) for `Tame'`; with exactly four options: (3180, 0, 3219, 2346). -/
theorem tame2_table_counts : Proofs.FromMs.tabCounts = (78, 0, 0, 3) :=
  Proofs.FromMs.tab_counts

/-! ### 12. a third fragment: chains of pulses (`GoodGroup3`)

`GoodGroup` and `GoodGroup2` forbid a move out of a population that received lineages by an `-es` earlier in the
same time group.  Such a **chain** — `-es 1 p -ej 4 2` (a fraction of population 1 goes to 2) followed by
`-es 2 p' -ej 5 3` (a fraction of population 2, including what it has just received, goes on to 3) — is what
`to_ms` prints for two pulses `… → B`, `B → …` at one time, and `from_ms` converts it correctly: both moves end up
as pulses, and a graph applies the pulses of one time in the order the Builder wrote them, which is command
order.  What goes wrong in F5 / F21 / F22 is something else: a move out of a population that an `-es` of the same
group created (it has no row in the Builder's matrix, so no pulse is written for it), and the ancestry of a
**joined** population (its whole row of the matrix, applied after all pulses) when that population also receives
lineages in the group.

`GoodGroup3 n cmds` (Spec/C08.lean; decidable): on the moves `groupOps n cmds`, (1) every source existed before the
group (`sourcesOld`; the population a `-es` creates and the `-ej` right after it joins does not count, `groupOps`
reads the pair as one admixture); (2) no population joined in the group — the source of a move with `q = 1` — is
the target of a move of the group (`joinedNeverTarget`); (3) every `-es` has `0 < p ≤ 1`.  No clause about time 0.
`Tame3 pr`: every time group is a `GoodGroup3`.

`Tame3` contains every command `to_ms` prints for a graph whose pulse proportions are below one (C09 §10).  It does
not contain `Tame2` (a chain of **joins** `-ej 2 3 -ej 3 1` at one time is in `Tame2` and not in `Tame3`), nor is it
contained in it (`pulseChain` below); as sets of commands `Tame''` and `Tame3` are incomparable too (`Tame''` contains
commands the ms interpreter rejects — a join into a population joined earlier in the group — which `Tame3` does not),
but the proof covers both: `Proofs.FromMs.fromMs_moves_ok` is stated for commands whose every time group satisfies
the conditions of `GoodGroup12` **or** of `GoodGroup3`. -/

/-- **`applyParams_sem` for `GoodGroup3`** (the group-level encoding lemma): the statement of `applyParams_sem` with
`GoodGroup3` in place of `GoodGroup`. -/
theorem applyParams_sem3 (N0 T T' : Q) (s s1 : BState) (g1 : GState) (σ σ1 : St) (L1 : List (Nat × Row))
    (evs : List (Event Num))
    (hsim : Proofs.FromMs.SizeSim T s σ) (hT : T ≤ T') (hall : ∀ e ∈ evs, Proofs.FromMs.HasCmd e)
    (htime : ∀ e ∈ evs, 4 * N0 * (Proofs.FromMs.cmdOfD e).t = T')
    (hm : evs.foldlM (stepEvent N0 T') (s, { lm := Proofs.FromMs.initLm s evs, params := [] }) = .ok (s1, g1))
    (hs : (evs.map Proofs.FromMs.cmdOfD).foldlM (MsSem.step N0) (σ, Proofs.FromMs.initL σ) = .ok (σ1, L1))
    (hgood : GoodGroup3 s.numDemes (evs.map Proofs.FromMs.cmdOfD) = true) (hT0 : T' ≠ 0)
    (hnames : Proofs.FromMs.NameInv s)
    (hend : ∀ (j : Nat) (d : BDeme), s.demes[j]? = some d → bEndTime d < T')
    (hst : ∀ (j : Nat) (d : BDeme), s.demes[j]? = some d → d.startTime = .inf ∨ ∃ t, d.startTime = .fin t ∧ t < T')
    (hpul : ∀ p ∈ s.pulses.getD [], p.time ≠ T') :
    ∃ L2, groupMoves (popNames (applyParams T' s1 g1).numDemes) T' (applyParams T' s1 g1).demes
        ((applyParams T' s1 g1).pulses.getD []) = .ok L2 ∧ canonRows L2 = canonRows L1 :=
  Proofs.FromMs.applyParams_sem3 hsim hT hall htime hm hs hgood hT0 hnames hend hst hpul

/-- **the lineage movements of `from_ms`, on the fragment `Tame3`** -/
theorem fromMs_moves3 (c : List String) (N0 : Q) (mg : MsGraph) (sem : DemogSem) (pr : Parsed)
    (h : fromMs c N0 none = .ok mg) (hsem : msSem c N0 = .ok sem) (hp : parsersAgree c = true)
    (hpr : parse c = .ok pr) (ht : Tame3 pr = true) :
    ∃ gsem, resultSem mg = .ok gsem ∧ gsem.moves = sem.moves :=
  Proofs.FromMs.fromMs_moves_frag3 h hsem hp hpr ht

/-- **C08 on the fragment `Tame3`.**  If `from_ms` returns a graph for the command, the command has a meaning under
the ms interpreter, the two parsers agree on it and every time group of the command is a `GoodGroup3`, then both
demographies exist and are equivalent (`SemAgree`: populations, lifetimes, sizes and growth rates at every cut
point, migration step function, lineage movements). -/
theorem fromMs_sem3 (c : List String) (N0 : Q) (mg : MsGraph) (sem : DemogSem) (pr : Parsed)
    (h : fromMs c N0 none = .ok mg) (hsem : msSem c N0 = .ok sem) (hp : parsersAgree c = true)
    (hpr : parse c = .ok pr) (ht : Tame3 pr = true) :
    SemAgree (msSem c N0) (resultSem mg) = true :=
  Proofs.FromMs.fromMs_sem_frag3 h hsem hp hpr ht

/-- the same on plain command lines -/
theorem fromMs_sem3_plain (c : List String) (N0 : Q) (mg : MsGraph) (sem : DemogSem) (pr : Parsed)
    (h : fromMs c N0 none = .ok mg) (hsem : msSem c N0 = .ok sem) (hpl : PlainTokens c = true)
    (hpr : parse c = .ok pr) (ht : Tame3 pr = true) :
    SemAgree (msSem c N0) (resultSem mg) = true := by
  obtain ⟨args, _, hargs, _, _⟩ := Proofs.FromMs.fromMs_buildState h
  exact fromMs_sem3 c N0 mg sem pr h hsem (Proofs.FromMsParse.parsersAgree_of_plain hpl hargs hpr) hpr ht

/-! #### non-vacuity and the boundary of `GoodGroup3` -/

/-- a chain of two pulses at one time (`1 → 2`, then `2 → 3`), and a chain of three pulses followed by a join of the
first population (a deme with one ancestor whose row feels all three pulses) -/
def pulseChain : List String :=
  ["-I", "3", "1", "1", "1", "-es", "1.0", "1", "0.5", "-ej", "1.0", "4", "2", "-es", "1.0", "2", "0.25", "-ej", "1.0", "5", "3"]
def pulseChainJoin : List String :=
  ["-I", "4", "1", "1", "1", "1", "-es", "1.0", "1", "0.5", "-ej", "1.0", "5", "2", "-es", "1.0", "2", "0.25", "-ej", "1.0", "6", "3",
   "-es", "1.0", "3", "0.75", "-ej", "1.0", "7", "4", "-ej", "1.0", "1", "4"]

/-- the moves `groupOps` reads off the group of `pulseChain`: population 2 is a target, then a source -/
example : groupOps 3 [.split 1 1 (1/2), .join 1 4 2, .split 1 2 (1/4), .join 1 5 3] = [(1, 2, 1/2), (2, 3, 3/4)] := by
  decide +kernel

/-- **the boundary**: the group shapes of the findings are outside `GoodGroup3` — F5 (a split of the population an
earlier split of the group created), F21 (interleaved pairs), F22 (a chain of joins followed by a split of its end),
F6b (`p = 0`); so is a chain of joins (inside `GoodGroup2`); a chain of pulses, and a join followed by a split of its
target, are inside -/
example : GoodGroup3 2 [.split 1 2 (1/2), .split 1 3 (1/2)] = false
    ∧ GoodGroup3 3 [.split 1 2 (3/4), .split 1 1 (1/8), .join 1 4 1, .join 1 5 3] = false
    ∧ GoodGroup3 3 [.join 1 2 3, .join 1 3 1, .split 1 1 (1/4)] = false
    ∧ GoodGroup3 2 [.split (3/8) 2 0, .join (3/8) 3 1] = false
    ∧ GoodGroup3 3 [.join 1 2 3, .join 1 3 1] = false
    ∧ GoodGroup3 3 [.split 1 1 (1/2), .join 1 4 2, .split 1 2 (1/4), .join 1 5 3] = true
    ∧ GoodGroup3 2 [.join 1 1 2, .split 1 2 (1/2)] = true := by decide +kernel

/-- the commands: the findings are outside `Tame3`; the chains of pulses are inside `Tame3` and outside `Tame2`;
`chainSameTime` (a chain of joins) is inside `Tame2` and outside `Tame3`; the other examples of §8, §10, §11 are in both -/
example : [f5, f21, f22, f6b].map (fun c => (parse c).toOption.map Tame3) = [some false, some false, some false, some false] := by
  decide +kernel
example : [pulseChain, pulseChainJoin, chainSameTime, joinThenSplit, threePairs, star, twoAncestors, splitAtZero].map
    (fun c => (parse c).toOption.map (fun pr => (Tame2 pr, Tame3 pr)))
    = [some (false, true), some (false, true), some (true, false), some (true, true), some (true, true), some (true, true),
       some (true, true), some (true, true)] := by decide +kernel
/-- a command of `Tame''` outside `Tame3`: a join into a population joined earlier in the group; the ms interpreter
(and `from_ms`) reject it -/
example : (parse ["-I", "3", "1", "1", "1", "-ej", "1.0", "1", "2", "-ej", "1.0", "3", "1"]).toOption.map (fun pr => (Tame'' pr, Tame3 pr))
      = some (true, false)
    ∧ (msSem ["-I", "3", "1", "1", "1", "-ej", "1.0", "1", "2", "-ej", "1.0", "3", "1"] 1).toOption.isSome = false
    ∧ (fromMs ["-I", "3", "1", "1", "1", "-ej", "1.0", "1", "2", "-ej", "1.0", "3", "1"] 1 none).toOption.isSome = false := by
  decide +kernel

/-- non-vacuity of `fromMs_sem3_plain`: every hypothesis holds (and so does the conclusion) -/
def SemHyps3 (c : List String) (N0 : Q) : Bool :=
  match fromMs c N0 none, msSem c N0, parse c with
  | .ok mg, .ok sem, .ok pr => PlainTokens c && Tame3 pr && SemAgree (msSem c N0) (resultSem mg) && !sem.moves.isEmpty
  | _, _, _ => false

example : SemHyps3 pulseChain 1 = true ∧ SemHyps3 pulseChainJoin 2 = true := by decide +kernel
example : SemHyps3 joinThenSplit 1 = true ∧ SemHyps3 twoAncestors 1 = true := by decide +kernel
example : SemHyps3 ["-I", "2", "1", "1", "0.5", "-g", "1", "1.0", "-en", "0.5", "1", "2", "-ej", "1.0", "2", "1", "-t", "5", "-T"] 1
    = true := by decide +kernel
/-- what `from_ms` writes for `pulseChain`: two pulses, in command order -/
example : (fromMs pulseChain 1 none).toOption.map (fun mg => mg.doc.pulses.map (fun ps => ps.map (fun p => (p.sources, p.dest, p.proportions))))
    = some (some [(["deme3"], "deme2", [3/4]), (["deme2"], "deme1", [1/2])]) := by decide +kernel

/-- … and for `pulseChainJoin`: population 1 is joined after the three pulses, its deme gets its whole row (1/8 = 1/2·1/4,
9/32 = 1/2·3/4·3/4, 19/32 = 1/2 + 1/2·3/4·1/4), the first pulse is folded into it, the other two come back as pulses (the
real `demes.from_ms` returns the same graph: proportions 0.125, 0.28125, 0.59375) -/
example : (fromMs pulseChainJoin 2 none).toOption.map (fun mg => mg.graph.demes.map (fun d => (d.name, d.ancestors, d.proportions)))
    = some [("deme2", [], []), ("deme3", [], []), ("deme4", [], []), ("deme1", ["deme2", "deme3", "deme4"], [1/8, 9/32, 19/32])] := by
  decide +kernel
example : (fromMs pulseChainJoin 2 none).toOption.map (fun mg => mg.graph.pulses.map (fun p => (p.sources, p.dest, p.proportions)))
    = some [(["deme4"], "deme3", [1/4]), (["deme3"], "deme2", [3/4])] := by decide +kernel

/-- **`Tame3` on the small table of §11** (600 commands, 81 accepted by both sides): (inside & correct, inside & wrong,
outside & correct, outside & wrong); the six correct commands outside are the chains of joins.  Evaluated (compiled
code, not kernel-checked) on larger enumerations — `-I 3 1 1 1` followed by `k` options out of `-es t i p` (`i ≤ 5`,
`p ∈ {1/2, 1, 1/4}`) and `-ej t i j` (`i ≠ j ≤ 5`):
* `t = 1.0`, `k = 2`: 1 225 commands, 252 accepted: (219, 0, 21, 12);
* `t = 1.0`, `k = 3`: 42 875 commands, 5 208 accepted: (2 874, 0, 1 650, 684); 63 of the commands inside are outside `Tame2`;
* `t = 1.0`, `k = 4`: 1 500 625 commands, 115 758 accepted: (32 520, 0, 60 450, 22 788); 2 097 inside are outside `Tame2`;
  with `Tame2 ∪ Tame3`: (36 036, 0, 56 934, 22 788);
* `t ∈ {0, 1.0, 2.0}`, `k = 3`: 1 157 625 commands, 69 690 accepted: (57 084, 0, 9 114, 3 492). -/
theorem tame3_table_counts : Proofs.FromMs.tabCounts3 = (72, 0, 6, 3) :=
  Proofs.FromMs.tab_counts3

/-- on that table every accepted command of `Tame3` is converted correctly (the quantifier is a finite table,
checked entry by entry by the kernel) -/
theorem tame3_sound_on_table : ∀ c ∈ Proofs.FromMs.tabCmds, ∀ correct,
    Proofs.FromMs.tabClass3 c = some (true, correct) → correct = true :=
  Proofs.FromMs.tab_sound3

/-! ### 13. time groups taken from different fragments

`Tame13 pr`: every time group of the command is a `GoodGroup12` or a `GoodGroup3`; which one may differ from group to
group (the run-level invariant of §12 only needs each group to be one or the other). It contains `Tame''` and `Tame3`. -/

/-- **C08 on `Tame13`.** -/
theorem fromMs_sem13 (c : List String) (N0 : Q) (mg : MsGraph) (sem : DemogSem) (pr : Parsed)
    (h : fromMs c N0 none = .ok mg) (hsem : msSem c N0 = .ok sem) (hp : parsersAgree c = true)
    (hpr : parse c = .ok pr) (ht : Tame13 pr = true) :
    SemAgree (msSem c N0) (resultSem mg) = true :=
  Proofs.FromMs.fromMs_sem_frag13 h hsem hp hpr ht

theorem tame13_of_tame3 (pr : Parsed) (h : Tame3 pr = true) : Tame13 pr = true :=
  Proofs.FromMs.tame13_of_tame3 _ _ h

theorem tame13_of_tame'' (pr : Parsed) (h : Tame'' pr = true) : Tame13 pr = true :=
  Proofs.FromMs.tame13_of_tame12 _ _ h

/-- non-vacuity: a pulse chain at one time (a `GoodGroup3` that is no `GoodGroup12`) followed, at a later time, by the
two-ancestor encoding of `to_ms`; every hypothesis of `fromMs_sem13` holds, and so does the conclusion -/
def mixedGroups : List String :=
  ["-I", "3", "1", "1", "1", "-es", "1.0", "1", "0.5", "-ej", "1.0", "4", "2", "-es", "1.0", "2", "0.25", "-ej", "1.0", "5", "3",
   "-es", "2.0", "1", "0.25", "-ej", "2.0", "6", "2", "-ej", "2.0", "1", "3"]

example : (match fromMs mixedGroups 1 none, msSem mixedGroups 1, parse mixedGroups with
    | .ok mg, .ok _, .ok pr => parsersAgree mixedGroups && Tame13 pr && !Tame' pr && SemAgree (msSem mixedGroups 1) (resultSem mg)
    | _, _, _ => false) = true := by decide +kernel

/-! ### what is missing

1. `GoodGroup2` (§11) is a sufficient condition, exact for groups of at most two `-es`/`-ej` options over three
   populations (`tame2_exact_on_table`); with three options there are correctly converted groups outside it
   (a move out of a population that received lineages by an `-es`, when the source of that `-es` is joined in
   the same group, or when both moves end up as pulses in command order; see `tame2_table_counts`).  The second
   kind — chains of pulses — is covered by `GoodGroup3` (§12); `GoodGroup2` and `GoodGroup3` are incomparable, and
   their union is not exact either (`tame3_table_counts`: with four options 56 934 correctly converted commands
   are outside both);
2. a command with an `-es` at time 0 is not always rejected (`fromMs_rejects_moves_at_zero_counterexample`); what
   is proved is that every `-ej` at time 0 is, and that on `Tame''` an accepted command has at time 0 nothing
   but `-es 0 i 1` of initial populations; a Model-only statement for `-es` (without the interpreter) is not proved;
3. outside `PlainTokens` the agreement of the two parsers stays the decidable hypothesis
   `parsersAgree` (the parsers genuinely differ there: `parsers_differ_*`). -/

end Demes.Theorems.C08
