/-
  C08, link C (movements), a wider fragment — `applyParams_semW`: for a time group of the wide
  fragment (`NSATS`, `ChainOK`), the ancestry and pulses that `applyParams` writes, read back by
  `groupMoves`, give the interpreter's movement rows.
-/
import DemesVerif.Proofs.FromMsWideGroup
namespace Demes.Proofs.FromMs
open Demes Demes.Ms Demes.Spec.MsSem Demes.Spec.C08

/-! ## the rows of `lineage_movements` of the populations the group creates are zero -/

def ZeroRows (n0 : Nat) (lm : List (List Q)) : Prop := ∀ j, n0 ≤ j → ∀ k, lmGet lm j k = 0

theorem getD_set_zero (row : List Q) (i k : Nat) (v : Q) (hv : v = 0) (h : ∀ k, row.getD k 0 = 0) :
    (row.set i v).getD k 0 = 0 := by
  rw [List.getD_eq_getElem?_getD, List.getElem?_set]
  by_cases hik : i = k
  · rw [if_pos hik]
    split
    · simp [hv]
    · rfl
  · rw [if_neg hik, ← List.getD_eq_getElem?_getD]
    exact h k

theorem zeroRows_map (n0 : Nat) (lm : List (List Q)) (f : List Q → List Q)
    (hf : ∀ row : List Q, (∀ k, row.getD k 0 = 0) → ∀ k, (f row).getD k 0 = 0) (h : ZeroRows n0 lm) :
    ZeroRows n0 (lm.map f) := by
  intro j hj k
  by_cases hl : j < lm.length
  · rw [lmGet_map lm f j k hl]
    apply hf
    intro k'
    exact h j hj k'
  · exact lmGet_map_out lm f j k hl

theorem stepEvent_zeroRows {N0 time : Q} {n0 : Nat} {s s' : BState} {g g' : GState} {ev : Event Num}
    (h : ZeroRows n0 g.lm) (hm : stepEvent N0 time (s, g) ev = .ok (s', g')) : ZeroRows n0 g'.lm := by
  by_cases hsp : isSplit ev = true
  · cases ev with
    | split o t i p =>
      rw [stepEvent_split] at hm
      obtain ⟨pid, _, hm⟩ := RV.bind_ok.1 hm
      obtain ⟨a', _, hm⟩ := RV.bind_ok.1 hm
      split at hm
      · exact (assertionErr_bind_ok.1 hm).elim
      · cases hm
        apply zeroRows_map n0 g.lm _ _ h
        intro row hrow k
        have h1 : ∀ k', (row.set s.numDemes ((1 - a') * row.getD pid 0)).getD k' 0 = 0 :=
          fun k' => getD_set_zero _ _ _ _ (by rw [hrow]; ring) hrow
        exact getD_set_zero _ _ _ _ (by rw [h1]; ring) h1
    | _ => cases hsp
  · have hsp' : isSplit ev = false := by simpa using hsp
    by_cases hj : isJoinEv ev = true
    · cases ev with
      | join o t i j =>
        rw [stepEvent_join] at hm
        obtain ⟨popI, _, hm⟩ := RV.bind_ok.1 hm
        obtain ⟨popJ, _, hm⟩ := RV.bind_ok.1 hm
        obtain ⟨s1, _, hm⟩ := RV.bind_ok.1 hm
        cases hm
        apply zeroRows_map n0 g.lm _ _ h
        intro row hrow k
        apply getD_set_zero _ _ _ _ rfl
        intro k'
        exact getD_set_zero _ _ _ _ (by rw [hrow, hrow]; ring) hrow
      | _ => cases hj
    · have hj' : isJoinEv ev = false := by simpa using hj
      rw [(stepEvent_nonmove hsp' hj' hm).1]
      exact h

theorem events_zeroRows {N0 time : Q} {n0 : Nat} : ∀ (evs : List (Event Num)) {s s' : BState} {g g' : GState},
    ZeroRows n0 g.lm → evs.foldlM (stepEvent N0 time) (s, g) = .ok (s', g') → ZeroRows n0 g'.lm := by
  intro evs
  induction evs with
  | nil => intro s s' g g' h hm; cases hm; exact h
  | cons e evs ih =>
    intro s s' g g' h hm
    rw [List.foldlM_cons] at hm
    obtain ⟨⟨s1, g1⟩, h1, hm⟩ := RV.bind_ok.1 hm
    exact ih (stepEvent_zeroRows h h1) hm

theorem initLm_zeroRows (s : BState) (evs : List (Event Num)) : ZeroRows s.numDemes (initLm s evs) := by
  intro j hj k
  unfold initLm lmGet
  dsimp only
  by_cases hjn : j < s.numDemes + (evs.filter isSplit).length
  · simp only [List.getD_eq_getElem?_getD, List.getElem?_map, List.getElem?_range hjn, Option.map_some,
      Option.getD_some]
    by_cases hk : k < s.numDemes + (evs.filter isSplit).length
    · simp only [List.getElem?_range hk, Option.map_some, Option.getD_some]
      have : ¬ j < s.numDemes := by omega
      simp [this]
    · have : (List.range (s.numDemes + (evs.filter isSplit).length))[k]? = none :=
        List.getElem?_eq_none_iff.mpr (by simp; omega)
      simp [this]
  · have : (List.range (s.numDemes + (evs.filter isSplit).length))[j]? = none :=
      List.getElem?_eq_none_iff.mpr (by simp; omega)
    simp [List.getD_eq_getElem?_getD, this]

theorem ancOf_zeroRow {g : GState} {j : Nat} (h : ∀ k, lmGet g.lm j k = 0) : (ancOf g j).isEmpty = true := by
  cases he : (ancOf g j).isEmpty with
  | true => rfl
  | false =>
    obtain ⟨x, _, hp⟩ := (anc_nonempty_iff g j).mp he
    rw [h x] at hp
    exact (Rat.lt_irrefl hp).elim

/-! ## what is known at the end of the options of a group of the wide fragment -/

structure GroupEndW (T' : Q) (s : BState) (σ : St) (s1 : BState) (g1 : GState) (L1 : List (Nat × Row))
    (ops : List MOp) : Prop where
  nsats : NSATS ops
  pos : ∀ o ∈ ops, 1 ≤ o.1 ∧ 1 ≤ o.2.1 ∧ 0 ≤ o.2.2 ∧ o.2.2 ≤ 1
  ub : ∀ o ∈ ops, o.1 ≤ s1.numDemes ∧ o.2.1 ≤ s1.numDemes
  joinNe : ∀ o ∈ ops, o.2.2 = 1 → o.2.1 ≠ o.1
  last : ops.Pairwise (fun o o' => o.2.2 = 1 → o'.1 ≠ o.1 ∧ o'.2.1 ≠ o.1)
  sEntries : g1.params.filter isS = (ops.filter isS).map op0
  jSrc : ∀ e ∈ g1.params, e.2.2 = 1 → ∃ o ∈ ops, o.2.2 = 1 ∧ e.1 = o.1 - 1
  joins : ∀ o ∈ ops, o.2.2 = 1 → (∃ e ∈ g1.params, e.1 = o.1 - 1) ∨
      ((∀ e ∈ g1.params, e.1 ≠ o.1 - 1) ∧ foldOps ops (delta o.1) = delta o.2.1 ∧
        ∃ d, s1.demes[o.1 - 1]? = some d ∧ d.ancestors = some [Ms.demeName (o.2.1 - 1)] ∧ d.proportions = none)
  propNone : ∀ (j : Nat) (d : BDeme), s1.demes[j]? = some d → s1.joined.contains j = false → d.proportions = none
  joinedV : ∀ o ∈ ops, o.2.2 = 1 → s1.joined.contains (o.1 - 1) = true
  joinedMono : ∀ j, s.joined.contains j = true → s1.joined.contains j = true
  zero : ZeroRows s.numDemes g1.lm
  rows : ∀ ir ∈ L1, ∀ k, Row.get ir.2 k = foldOps ops (delta ir.1) k
  rel : LmRel g1.lm L1
  lmLen : ∀ row ∈ g1.lm, row.length = s1.numDemes
  keys : L1.map (·.1) = (initL σ).map (·.1)
  rowsOK : ∀ ir ∈ L1, RowOK ir.2
  names : NameInv s1
  len : s1.demes.length = s1.numDemes
  n0le : s.numDemes ≤ s1.numDemes
  dOld : ∀ (j : Nat) (d : BDeme), j < s.numDemes → s1.demes[j]? = some d → ∃ d0, s.demes[j]? = some d0 ∧
    bEndTime d = bEndTime d0 ∧
    (d.startTime = d0.startTime ∨
      (d.startTime = .fin T' ∧ d0.startTime = .inf ∧ ∃ o ∈ ops, o.1 = j + 1 ∧ o.2.2 = 1))
  dNew : ∀ (j : Nat) (d : BDeme), s.numDemes ≤ j → s1.demes[j]? = some d →
    bEndTime d = T' ∧ (d.startTime = .inf ∨ d.startTime = .fin T')
  dJoin : ∀ o ∈ ops, o.2.2 = 1 → ∃ d, s1.demes[o.1 - 1]? = some d ∧ d.startTime = .fin T'
  pulses : s1.pulses = s.pulses
  srcAlive : ∀ o ∈ ops, s.joined.contains (o.1 - 1) = false

theorem group_endW {N0 T T' : Q} {s s1 : BState} {g1 : GState} {σ σ1 : St} {L1 : List (Nat × Row)}
    {evs : List (Event Num)}
    (hsim : SizeSim T s σ) (hT : T ≤ T') (hall : ∀ e ∈ evs, HasCmd e)
    (htime : ∀ e ∈ evs, 4 * N0 * (cmdOfD e).t = T')
    (hm : evs.foldlM (stepEvent N0 T') (s, { lm := initLm s evs, params := [] }) = .ok (s1, g1))
    (hs : (evs.map cmdOfD).foldlM (Spec.MsSem.step N0) (σ, initL σ) = .ok (σ1, L1))
    (hns : NSATS (groupOps s.numDemes (evs.map cmdOfD))) (hch : ChainOK (groupOps s.numDemes (evs.map cmdOfD)))
    (hfr : ∀ e ∈ evs, FracOK (cmdOfD e)) (hnames : NameInv s)
    (hprop : ∀ (j : Nat) (d : BDeme), s.demes[j]? = some d → s.joined.contains j = false → d.proportions = none) :
    SizeSim T' s1 σ1 ∧ GroupEndW T' s σ s1 g1 L1 (groupOps s.numDemes (evs.map cmdOfD)) := by
  obtain ⟨done, pend, hsim1, hinvW, hrel, hlen⟩ := events_groupInvW hns hch evs hsim hT hall htime hfr
    (groupInvW_init hsim _ { lm := initLm s evs, params := [] } rfl hprop) (initLm_rel hsim evs) (initLm_length s evs) hm hs
  have hinv := hinvW.core
  have hpar := hinvW.par
  have hlink : groupOps s.numDemes (evs.map cmdOfD) = done ++ flushOp s1.numDemes pend := hinv.link
  obtain ⟨pos1, jv1, last1⟩ := hinv.flushed
  obtain ⟨hkeys, hok1⟩ := steps_rowsOK _ hs (fun ir hir => by
    obtain ⟨h1, _, e, _⟩ := initL_mem hir
    rw [e]; exact rowOK_single _ _ h1)
  have hnames1 : NameInv s1 :=
    RV.foldlM_inv (fun (sg : BState × GState) => NameInv sg.1) _
      (fun a ev b ha hst => by
        obtain ⟨a1, a2⟩ := a
        obtain ⟨b1, b2⟩ := b
        exact stepEvent_names ha hst) _ _ _ hnames hm
  have hzero := events_zeroRows evs (initLm_zeroRows s evs) hm
  have hR : groupOpsAux s1.numDemes pend [] = flushOp s1.numDemes pend := rfl
  refine ⟨hsim1, ⟨hns, ?_, ?_, ?_, ?_, ?_, ?_, ?_, hpar.propNone, ?_, hinv.joinedMono, hzero, ?_, hrel, hlen, hkeys, hok1,
    hnames1, ?_, hinv.n0le, ?_, hinv.dNew, ?_, hinv.pulses, ?_⟩⟩
  · rw [hlink]; exact pos1
  · rw [hlink]; exact hinv.ub
  · rw [hlink]; intro o ho hq; exact (hinv.joinedV o (jv1 o ho hq) hq).2
  · rw [hlink]; exact last1
  · rw [hlink]; exact hpar.sEntries
  · rw [hlink]
    intro e he hq
    obtain ⟨o, ho, h1, h2⟩ := hpar.jSrc e he hq
    exact ⟨o, List.mem_append_left _ ho, h1, h2⟩
  · rw [hlink]
    intro o ho hq
    rcases hpar.joins o (jv1 o ho hq) hq with h1 | ⟨h1, h2, h3, h4⟩
    · exact Or.inl h1
    · refine Or.inr ⟨h1, ?_, h4⟩
      rw [foldOps_append, h2]
      apply foldOps_foreign
      intro z hz
      exact h3 z (by rw [hR]; exact hz)
  · rw [hlink]; intro o ho hq; exact (hinv.joinedV o (jv1 o ho hq) hq).1
  · rw [hlink]; exact hinv.rows
  · rw [hsim1.len, hsim1.num]
  · intro j d hj hd
    obtain ⟨d0, h0, e1, e2⟩ := hinv.dOld j d hj hd
    refine ⟨d0, h0, e1, ?_⟩
    rcases e2 with e2 | ⟨e2, e3, o, ho, e4⟩
    · exact Or.inl e2
    · exact Or.inr ⟨e2, e3, o, by rw [hlink]; exact List.mem_append_left _ ho, e4⟩
  · rw [hlink]; intro o ho hq; exact hinv.dJoin o (jv1 o ho hq) hq
  · rw [hlink]; exact hinv.srcAlive

/-- a deme of the state after `applyParams`, by position -/
theorem s2_atW {T' : Q} {s : BState} {σ : St} {s1 : BState} {g1 : GState} {L1 : List (Nat × Row)} {ops : List MOp}
    (he : GroupEndW T' s σ s1 g1 L1 ops) {j : Nat} {D : BDeme} (hD : (applyParams T' s1 g1).demes[j]? = some D) :
    ∃ d, s1.demes[j]? = some d ∧ j < s1.numDemes ∧ D.name = Ms.demeName j ∧ D.startTime = d.startTime
      ∧ bEndTime D = bEndTime d
      ∧ D = (if g1.params.any (fun e => decide (e.1 = j)) && assignB g1 j then setAnc g1 j d else d) := by
  rw [applyParams_eq] at hD
  obtain ⟨_, _, ap3, ap4⟩ := apFold T' g1 g1.params s1
  have hj : j < s1.demes.length := by rw [← ap3]; exact (List.getElem?_eq_some_iff.mp hD).1
  have hd := List.getElem?_eq_getElem hj
  rw [ap4 j _ hd] at hD
  obtain ⟨hn, hlt⟩ := name_at he.names hd
  refine ⟨s1.demes[j], hd, hlt, ?_, ?_, ?_, ?_⟩
  · cases hD; split <;> exact hn
  · cases hD; split <;> rfl
  · cases hD; split <;> rfl
  · cases hD; rfl

/-- the rows `groupMoves` starts from are the interpreter's -/
theorem rows_eqW {T T' : Q} {s : BState} {σ : St} {s1 : BState} {g1 : GState} {L1 : List (Nat × Row)} {ops : List MOp}
    (hsim : SizeSim T s σ) (he : GroupEndW T' s σ s1 g1 L1 ops)
    (hend : ∀ (j : Nat) (d : BDeme), s.demes[j]? = some d → bEndTime d < T')
    (hst : ∀ (j : Nat) (d : BDeme), s.demes[j]? = some d → d.startTime = .inf ∨ ∃ t, d.startTime = .fin t ∧ t < T') :
    ((applyParams T' s1 g1).demes.filter (rowP T')).map
        (fun D => (jOf s1.numDemes D + 1, ([(jOf s1.numDemes D + 1, (1 : Q))] : Row))) = initL σ := by
  rw [initL_eq]
  apply filter_map_zipIdx
  · rw [applyParams_eq, (apFold T' g1 g1.params s1).2.2.1, he.len, ← hsim.num]; exact he.n0le
  · intro i D hD
    obtain ⟨d, hd, hlt, hname, hstD, hbD, _⟩ := s2_atW he hD
    rw [rowP_congr hstD hbD]
    cases hp : σ.pops[i]? with
    | none =>
      dsimp only
      have hi : s.numDemes ≤ i := by
        rw [hsim.num]; exact List.getElem?_eq_none_iff.mp hp
      unfold rowP
      rw [(he.dNew i d hi hd).1]
      simp
    | some p =>
      dsimp only
      have hi : i < s.numDemes := by
        rw [hsim.num]; exact (List.getElem?_eq_some_iff.mp hp).1
      obtain ⟨d0, h0, e1, e2⟩ := he.dOld i d hi hd
      obtain ⟨rr, _, _, _⟩ := hsim.rel i d0 p h0 hp
      have hb := hend i d0 h0
      refine ⟨?_, by rw [jOf_name hname hlt, Nat.zero_add]⟩
      unfold rowP nonTransient alive
      rw [e1, ← rr.2.2]
      rcases hst i d0 h0 with h | ⟨t, ht, hlt'⟩
      · rw [h]
        rcases e2 with e2 | ⟨e2, _, _⟩
        · rw [e2, h]; simp [hb, etime_fin_le_inf]
        · rw [e2]
          have hne : ¬ T' = bEndTime d0 := fun e => by rw [e] at hb; exact Rat.lt_irrefl hb
          simp [hb, etime_fin_le_fin, hne]
      · rcases e2 with e2 | ⟨_, e3, _⟩
        · rw [e2, ht]
          have : ¬ T' ≤ t := Rat.not_le.mpr hlt'
          simp [etime_fin_le_fin, this]
        · rw [ht] at e3; cases e3

/-! ## the final matrix, by row -/

section
variable {T' : Q} {s : BState} {σ : St} {s1 : BState} {g1 : GState} {L1 : List (Nat × Row)} {ops : List MOp}

theorem F_zeroW (he : GroupEndW T' s σ s1 g1 L1 ops) {r : Nat} (hr : 1 ≤ r) : foldOps ops (delta r) 0 = 0 := by
  rw [foldOps_other ops _ 0 (fun o ho => by have := he.pos o ho; omega)]
  exact delta_ne (by omega)

theorem lm_rowW (he : GroupEndW T' s σ s1 g1 L1 ops) {ir : Nat × Row} (hir : ir ∈ L1) :
    1 ≤ ir.1 ∧ ∀ k, lmGet g1.lm (ir.1 - 1) k = foldOps ops (delta ir.1) (k + 1) := by
  obtain ⟨h1, h2⟩ := he.rel ir hir
  exact ⟨h1, fun k => by rw [h2 k, he.rows ir hir]⟩

theorem alive_keyW {T : Q} (hsim : SizeSim T s σ) (he : GroupEndW T' s σ s1 g1 L1 ops) {j : Nat} {d0 : BDeme}
    (h0 : s.demes[j]? = some d0) (hinf : d0.startTime = .inf) : ∃ ir ∈ L1, ir.1 = j + 1 := by
  have hj : j < σ.pops.length := by rw [← hsim.len]; exact (List.getElem?_eq_some_iff.mp h0).1
  have hp := List.getElem?_eq_getElem hj
  obtain ⟨rr, _, _, _⟩ := hsim.rel j d0 _ h0 hp
  have hal : alive σ.pops[j] = true := by
    unfold alive; rw [← rr.2.2, hinf]; rfl
  have hmem : (j + 1) ∈ (initL σ).map (·.1) := by
    rw [initL_eq]
    apply List.mem_map.mpr
    refine ⟨(j + 1, [(j + 1, 1)]), ?_, rfl⟩
    apply List.mem_map.mpr
    refine ⟨(σ.pops[j], j), ?_, rfl⟩
    rw [List.mem_filter]
    refine ⟨?_, hal⟩
    rw [List.mem_zipIdx_iff_getElem?]
    simpa using hp
  rw [← he.keys] at hmem
  obtain ⟨ir, hir, e⟩ := List.mem_map.mp hmem
  exact ⟨ir, hir, e⟩

/-- a population that is not joined at the start of the group has a row -/
theorem alive_rowW {T : Q} (hsim : SizeSim T s σ) (he : GroupEndW T' s σ s1 g1 L1 ops) {j : Nat}
    (hj : j < s.numDemes) (hnj : s.joined.contains j = false) : ∃ ir ∈ L1, ir.1 = j + 1 := by
  have hlt : j < s.demes.length := by rw [hsim.len, ← hsim.num]; exact hj
  have h0 := List.getElem?_eq_getElem hlt
  have hp : j < σ.pops.length := by rw [← hsim.num]; exact hj
  obtain ⟨rr, _, _, r4⟩ := hsim.rel j _ _ h0 (List.getElem?_eq_getElem hp)
  apply alive_keyW hsim he h0
  rw [rr.2.2]
  rw [hnj] at r4
  have : alive σ.pops[j] = true := by
    cases hh : alive σ.pops[j] with
    | true => rfl
    | false => rw [hh] at r4; cases r4
  simpa [alive] using this

/-- a join in the list of moves: its column is zero -/
theorem join_colW (he : GroupEndW T' s σ s1 g1 L1 ops) {o : MOp} (ho : o ∈ ops) (hq : o.2.2 = 1) :
    ∀ r, foldOps ops (delta r) o.1 = 0 := by
  obtain ⟨pre, post, hsplit⟩ := List.append_of_mem ho
  have hne := he.joinNe o ho hq
  have hlast := he.last
  rw [hsplit, List.pairwise_append] at hlast
  obtain ⟨_, hl2, _⟩ := hlast
  have hpost : ∀ o' ∈ post, o'.1 ≠ o.1 ∧ o'.2.1 ≠ o.1 := fun o' ho' => List.rel_of_pairwise_cons hl2 ho' hq
  intro r
  rw [hsplit]
  exact foldOps_col_zero pre post o hq hne hpost (delta r)

/-- the row of a population has something somewhere -/
theorem row_posW (he : GroupEndW T' s σ s1 g1 L1 ops) (r : Nat) : ∃ k, 0 < foldOps ops (delta r) k :=
  foldOps_exists_pos ops _ (fun o ho => ⟨(he.pos o ho).2.2.1, (he.pos o ho).2.2.2⟩) (delta_nonneg r)
    ⟨r, by rw [delta_self]; decide⟩

/-- `emitB` on the Builder's matrix is `Emits` on the rows as functions -/
theorem emit_iffW (he : GroupEndW T' s σ s1 g1 L1 ops) {ir : Nat × Row} (hir : ir ∈ L1) :
    emitB g1 (ir.1 - 1) = true ↔ Emits (fun r => foldOps ops (delta r)) ir.1 := by
  obtain ⟨h1, hrow⟩ := lm_rowW he hir
  unfold emitB Emits
  have hdiag : lmGet g1.lm (ir.1 - 1) (ir.1 - 1) = foldOps ops (delta ir.1) ir.1 := by
    rw [hrow]; congr 1; omega
  have hanc : (ancOf g1 (ir.1 - 1)).isEmpty = false ↔ ∃ k, k ≠ ir.1 ∧ 0 < foldOps ops (delta ir.1) k := by
    rw [anc_nonempty_iff]
    constructor
    · intro ⟨x, hx, hp⟩
      exact ⟨x + 1, by omega, by rw [← hrow]; exact hp⟩
    · intro ⟨k, hk, hp⟩
      have hk1 : 1 ≤ k := by
        by_contra hlt
        have : k = 0 := by omega
        rw [this, F_zeroW he h1] at hp
        exact Rat.lt_irrefl hp
      refine ⟨k - 1, by omega, ?_⟩
      rw [hrow]
      have : k - 1 + 1 = k := by omega
      rw [this]; exact hp
  simp only [Bool.and_eq_true, Bool.not_eq_true', decide_eq_false_iff_not, hdiag]
  rw [hanc]
  exact And.comm

/-- the moves of a joined population are not emitted as pulses -/
theorem join_not_emitW {T : Q} (hsim : SizeSim T s σ) (he : GroupEndW T' s σ s1 g1 L1 ops) {o : MOp}
    (ho : o ∈ ops) (hq : o.2.2 = 1) : emitB g1 (o.1 - 1) = false := by
  obtain ⟨o1, _, _, _⟩ := he.pos o ho
  by_cases hj : o.1 - 1 < s.numDemes
  · obtain ⟨ir, hir, hkey⟩ := alive_rowW hsim he hj (he.srcAlive o ho)
    have hk : ir.1 = o.1 := by omega
    cases hemit : emitB g1 (o.1 - 1) with
    | false => rfl
    | true =>
      have := (emit_iffW he hir).mp (by rw [hk]; exact hemit)
      rw [hk] at this
      exact (this.1 (join_colW he ho hq o.1)).elim
  · unfold emitB
    rw [ancOf_zeroRow (he.zero _ (by omega))]
    rfl

/-- the ancestry of a deme born in the group, as `groupMoves` reads it -/
def aOfW (g1 : GState) (N : Nat) (D : BDeme) : List (Q × Nat) :=
  if g1.params.any (fun e => decide (e.1 = jOf N D)) then ancOf g1 (jOf N D)
  else [((1 : Q), match popId (popNames N) ((bAncestors D).headD "") with | .ok m => m - 1 | .error _ => 0)]

/-- a deme that `groupMoves` treats as born at the time of the group -/
theorem born_factsW {T : Q} (hsim : SizeSim T s σ) (he : GroupEndW T' s σ s1 g1 L1 ops) (hT0 : T' ≠ 0)
    (hst : ∀ (j : Nat) (d : BDeme), s.demes[j]? = some d → d.startTime = .inf ∨ ∃ t, d.startTime = .fin t ∧ t < T')
    {j : Nat} {D : BDeme} (hD : (applyParams T' s1 g1).demes[j]? = some D) (hb : bornP T' D = true) :
    BornView s1.numDemes D j (aOfW g1 s1.numDemes D) ∧ jOf s1.numDemes D = j
      ∧ (∃ o ∈ ops, o.1 = j + 1 ∧ o.2.2 = 1)
      ∧ (∀ k, wsum ((aOfW g1 s1.numDemes D).map (fun po => (po.2 + 1, po.1))) k
          = if k ≠ j + 1 ∧ 0 < foldOps ops (delta (j + 1)) k then foldOps ops (delta (j + 1)) k else 0) := by
  obtain ⟨d, hd, hlt, hname, hstD, hbD, hDeq⟩ := s2_atW he hD
  unfold bornP at hb
  simp only [Bool.and_eq_true, decide_eq_true_eq] at hb
  obtain ⟨hb1, hb2⟩ := hb
  have hj : j < s.numDemes := by
    by_contra hge
    have := (he.dNew j d (by omega) hd).1
    unfold nonTransient at hb2
    rw [hb1] at hb2
    simp only [Bool.or_eq_true, decide_eq_true_eq] at hb2
    rcases hb2 with h | h
    · exact hT0 h
    · exact h (by rw [hbD, this])
  obtain ⟨d0, h0, _, e2⟩ := he.dOld j d hj hd
  rw [hstD] at hb1
  have hcase : d0.startTime = .inf ∧ ∃ o ∈ ops, o.1 = j + 1 ∧ o.2.2 = 1 := by
    rcases e2 with e2 | ⟨_, e3, e4⟩
    · rw [hb1] at e2
      rcases hst j d0 h0 with h | ⟨t, ht, hlt'⟩
      · rw [h] at e2; cases e2
      · rw [ht] at e2; cases e2; exact (Rat.lt_irrefl hlt').elim
    · exact ⟨e3, e4⟩
  obtain ⟨hinf, o, ho, ho1, hoq⟩ := hcase
  obtain ⟨ir, hir, hkey⟩ := alive_keyW hsim he h0 hinf
  obtain ⟨_, hrow⟩ := lm_rowW he hir
  have hj' : ir.1 - 1 = j := by omega
  rw [hj', hkey] at hrow
  have hcol := join_colW he ho hoq
  obtain ⟨_, ph, _, _⟩ := he.pos o ho
  have hne := he.joinNe o ho hoq
  have hjof : jOf s1.numDemes D = j := jOf_name hname hlt
  have hF0 : foldOps ops (delta (j + 1)) (j + 1) = 0 := by rw [← ho1]; exact hcol o.1
  rcases he.joins o ho hoq with ⟨e, hem, hes⟩ | ⟨hnone, hFd, dd, hdd, hda, hdp⟩
  · -- the population still has an entry: `applyParams` writes its whole row
    have hany : g1.params.any (fun e => decide (e.1 = j)) = true := by
      rw [List.any_eq_true]
      exact ⟨e, hem, by rw [decide_eq_true_eq, hes]; omega⟩
    have hassign : assignB g1 j = true := by
      unfold assignB
      simp only [Bool.and_eq_true, Bool.not_eq_true', decide_eq_true_eq]
      constructor
      · rw [anc_nonempty_iff]
        obtain ⟨k, hk⟩ := row_posW he (j + 1)
        have hk1 : 1 ≤ k := by
          by_contra hlt'
          have : k = 0 := by omega
          rw [this, F_zeroW he (by omega)] at hk
          exact Rat.lt_irrefl hk
        have hkj : k ≠ j + 1 := fun e' => by rw [e', hF0] at hk; exact Rat.lt_irrefl hk
        refine ⟨k - 1, by omega, ?_⟩
        rw [hrow]
        have : k - 1 + 1 = k := by omega
        rw [this]; exact hk
      · rw [hrow]; exact hF0
    rw [hany, hassign] at hDeq
    simp only [Bool.and_self, if_true] at hDeq
    have ha : aOfW g1 s1.numDemes D = ancOf g1 j := by
      unfold aOfW; rw [hjof, hany]; rfl
    rw [ha]
    refine ⟨⟨hname, hlt, by rw [hDeq]; rfl, by rw [hDeq]; rfl, ancOf_lt g1 j _ he.lmLen⟩, hjof, ⟨o, ho, ho1, hoq⟩, ?_⟩
    intro k
    rw [wsum_ancOf]
    by_cases hk : 1 ≤ k
    · have e : k - 1 + 1 = k := by omega
      rw [hrow, e]
      by_cases hc : k ≠ j + 1 ∧ 0 < foldOps ops (delta (j + 1)) k
      · rw [if_pos ⟨hk, by omega, hc.2⟩, if_pos hc]
      · rw [if_neg (fun h => hc ⟨by omega, h.2.2⟩), if_neg hc]
    · have hk0 : k = 0 := by omega
      subst hk0
      rw [if_neg (by omega), F_zeroW he (by omega), if_neg (fun h => Rat.lt_irrefl h.2)]
  · -- its entry was redirected: the deme keeps the ancestry the `-ej` wrote, which is its row
    have hj1 : o.1 - 1 = j := by omega
    rw [hj1] at hdd hnone
    rw [hd] at hdd
    cases hdd
    have hany : g1.params.any (fun e => decide (e.1 = j)) = false := by
      rw [Bool.eq_false_iff]
      intro h
      rw [List.any_eq_true] at h
      obtain ⟨e, hem, hej⟩ := h
      exact hnone e hem (of_decide_eq_true hej)
    rw [hany] at hDeq
    simp only [Bool.false_and, Bool.false_eq_true, if_false] at hDeq
    obtain ⟨_, pt⟩ := he.ub o ho
    have hc : o.2.1 - 1 < s1.numDemes := by omega
    have hbA : bAncestors D = [Ms.demeName (o.2.1 - 1)] := by
      rw [hDeq]; unfold bAncestors; rw [hda]; rfl
    have ha : aOfW g1 s1.numDemes D = [((1 : Q), o.2.1 - 1)] := by
      unfold aOfW
      rw [hjof, hany, hbA]
      simp only [Bool.false_eq_true, if_false, List.headD_cons]
      rw [popId_popNamesC _ _ hc]
      rfl
    rw [ha]
    refine ⟨⟨hname, hlt, by rw [hbA]; rfl, ?_, ?_⟩, hjof, ⟨o, ho, ho1, hoq⟩, ?_⟩
    · rw [hDeq]
      unfold bProportions bAncestors
      rw [hdp, hda]
      rfl
    · intro po hpo
      simp only [List.mem_singleton] at hpo
      subst hpo
      exact hc
    · intro k
      rw [← ho1, hFd]
      have e1 : o.2.1 - 1 + 1 = o.2.1 := by omega
      simp only [List.map_cons, List.map_nil, wsum, e1]
      by_cases hk : k = o.2.1
      · subst hk
        rw [delta_self]
        simp [hne]
      · rw [delta_ne hk]
        have : ¬ o.2.1 = k := fun e => hk e.symm
        simp [this]

end

section
variable {T T' : Q} {s : BState} {σ : St} {s1 : BState} {g1 : GState} {L1 : List (Nat × Row)} {ops : List MOp}

theorem s2_lenW (he : GroupEndW T' s σ s1 g1 L1 ops) :
    (applyParams T' s1 g1).demes.length = s1.numDemes ∧ (applyParams T' s1 g1).numDemes = s1.numDemes := by
  rw [applyParams_eq]
  obtain ⟨_, a2, a3, _⟩ := apFold T' g1 g1.params s1
  exact ⟨by rw [a3, he.len], a2⟩

theorem s2_jOfW (he : GroupEndW T' s σ s1 g1 L1 ops) :
    (applyParams T' s1 g1).demes.map (fun D => jOf s1.numDemes D + 1) = (List.range s1.numDemes).map (· + 1) := by
  apply List.ext_getElem?
  intro i
  rw [List.getElem?_map, List.getElem?_map]
  cases hD : (applyParams T' s1 g1).demes[i]? with
  | none =>
    have : s1.numDemes ≤ i := by rw [← (s2_lenW he).1]; exact List.getElem?_eq_none_iff.mp hD
    rw [List.getElem?_eq_none_iff.mpr (by simpa using this)]
    rfl
  | some D =>
    obtain ⟨d, _, hlt, hname, _⟩ := s2_atW he hD
    rw [List.getElem?_range hlt, Option.map_some, Option.map_some, jOf_name hname hlt]

/-- an emitted entry is an entry of a proper split or an admixture -/
theorem emitted_isS (hsim : SizeSim T s σ) (he : GroupEndW T' s σ s1 g1 L1 ops) {e : MOp}
    (hem : e ∈ g1.params) (hemit : emitB g1 e.1 = true) : isS e = true := by
  by_cases hq : e.2.2 = 1
  · obtain ⟨o, ho, hoq, hes⟩ := he.jSrc e hem hq
    have := join_not_emitW hsim he ho hoq
    rw [← hes, hemit] at this
    cases this
  · simp [isS, hq]

theorem emitted_eqW (hsim : SizeSim T s σ) (he : GroupEndW T' s σ s1 g1 L1 ops) :
    (g1.params.filter (fun e => emitB g1 e.1)).map up1 = ops.filter (fun o => emitB g1 (o.1 - 1)) := by
  have h1 : g1.params.filter (fun e => emitB g1 e.1) = (g1.params.filter isS).filter (fun e => emitB g1 e.1) := by
    rw [List.filter_filter]
    apply List.filter_congr
    intro e hem
    by_cases hemit : emitB g1 e.1 = true
    · rw [hemit, emitted_isS hsim he hem hemit]; rfl
    · have : emitB g1 e.1 = false := by simpa using hemit
      rw [this]; rfl
  have h2 : ops.filter (fun o => emitB g1 (o.1 - 1)) = (ops.filter isS).filter (fun o => emitB g1 (o.1 - 1)) := by
    rw [List.filter_filter]
    apply List.filter_congr
    intro o ho
    by_cases hq : o.2.2 = 1
    · rw [join_not_emitW hsim he ho hq]; rfl
    · have : isS o = true := by simp [isS, hq]
      rw [this]; simp
  rw [h1, h2, he.sEntries, List.filter_map, List.map_map]
  have : ((ops.filter isS).filter ((fun e => emitB g1 e.1) ∘ op0)) = (ops.filter isS).filter (fun o => emitB g1 (o.1 - 1)) := rfl
  rw [this]
  conv => rhs; rw [← List.map_id ((ops.filter isS).filter (fun o => emitB g1 (o.1 - 1)))]
  apply List.map_congr_left
  intro o ho
  obtain ⟨h1', h2', _⟩ := he.pos o (List.mem_filter.mp (List.mem_filter.mp ho).1).1
  show (o.1 - 1 + 1, o.2.1 - 1 + 1, o.2.2) = o
  have e1 : o.1 - 1 + 1 = o.1 := by omega
  have e2 : o.2.1 - 1 + 1 = o.2.1 := by omega
  rw [e1, e2]

/-- **`applyParams_semW`, from the facts at the end of the group** -/
theorem applyParams_sem_of_endW (hsim : SizeSim T s σ) (he : GroupEndW T' s σ s1 g1 L1 ops) (hT0 : T' ≠ 0)
    (hend : ∀ (j : Nat) (d : BDeme), s.demes[j]? = some d → bEndTime d < T')
    (hst : ∀ (j : Nat) (d : BDeme), s.demes[j]? = some d → d.startTime = .inf ∨ ∃ t, d.startTime = .fin t ∧ t < T')
    (hpul : ∀ p ∈ s.pulses.getD [], p.time ≠ T') :
    ∃ L2, groupMoves (popNames (applyParams T' s1 g1).numDemes) T' (applyParams T' s1 g1).demes
        ((applyParams T' s1 g1).pulses.getD []) = .ok L2 ∧ canonRows L2 = canonRows L1 := by
  obtain ⟨hlen2, hN⟩ := s2_lenW he
  have hmemD : ∀ D ∈ (applyParams T' s1 g1).demes, ∃ j, (applyParams T' s1 g1).demes[j]? = some D :=
    fun D hD => List.mem_iff_getElem?.mp hD
  -- the rows
  have hL0 : ((applyParams T' s1 g1).demes.filter (rowP T')).mapM
      (fun d => do let id ← popId (popNames s1.numDemes) d.name; pure (id, ([(id, (1 : Q))] : Row)))
      = .ok (initL σ) := by
    rw [rows_mapM (popNames s1.numDemes) (fun D => jOf s1.numDemes D + 1), rows_eqW hsim he hend hst]
    intro D hD
    obtain ⟨j, hj⟩ := hmemD D (List.mem_filter.mp hD).1
    obtain ⟨_, _, hlt, hname, _⟩ := s2_atW he hj
    rw [hname, popId_popNamesC _ _ hlt, jOf_name hname hlt]
  -- the pulses of the time
  have hps : ((applyParams T' s1 g1).pulses.getD []).filter (fun p => decide (p.time = T'))
      = (g1.params.filter (fun e => emitB g1 e.1)).map (mkPulse T') := by
    rw [applyParams_eq, (apFold T' g1 g1.params s1).1, he.pulses, List.filter_append]
    have h1 : (s.pulses.getD []).filter (fun p => decide (p.time = T')) = [] := by
      rw [List.filter_eq_nil_iff]
      intro p hp
      simpa using hpul p hp
    rw [h1, List.nil_append, List.filter_eq_self]
    intro p hp
    obtain ⟨e, _, rfl⟩ := List.mem_map.mp hp
    simp [mkPulse]
  have hes : ∀ e ∈ g1.params.filter (fun e => emitB g1 e.1), e.1 < s1.numDemes ∧ e.2.1 < s1.numDemes := by
    intro e hem
    obtain ⟨hm, hemit⟩ := List.mem_filter.mp hem
    have hS : e ∈ g1.params.filter isS := List.mem_filter.mpr ⟨hm, emitted_isS hsim he hm hemit⟩
    rw [he.sEntries] at hS
    obtain ⟨o, ho, _, rfl⟩ := mem_filter_map_op0 hS
    obtain ⟨h1, h2, _⟩ := he.pos o ho
    obtain ⟨h3, h4⟩ := he.ub o ho
    show o.1 - 1 < _ ∧ o.2.1 - 1 < _
    omega
  -- the demes born at the time
  have hborn : ∀ D ∈ (applyParams T' s1 g1).demes.filter (bornP T'),
      BornView s1.numDemes D (jOf s1.numDemes D) (aOfW g1 s1.numDemes D)
      ∧ (∃ o ∈ ops, o.1 = jOf s1.numDemes D + 1 ∧ o.2.2 = 1)
      ∧ (∀ k, wsum ((aOfW g1 s1.numDemes D).map (fun po => (po.2 + 1, po.1))) k
          = if k ≠ jOf s1.numDemes D + 1 ∧ 0 < foldOps ops (delta (jOf s1.numDemes D + 1)) k
            then foldOps ops (delta (jOf s1.numDemes D + 1)) k else 0) := by
    intro D hD
    obtain ⟨hDm, hDb⟩ := List.mem_filter.mp hD
    obtain ⟨j, hj⟩ := hmemD D hDm
    obtain ⟨v, hjo, h3, h4⟩ := born_factsW hsim he hT0 hst hj hDb
    rw [hjo]
    exact ⟨v, h3, h4⟩
  refine ⟨((applyParams T' s1 g1).demes.filter (bornP T')).foldl (fun L D => L.map (fun ir =>
      (ir.1, bornRow1 (jOf s1.numDemes D + 1) ((aOfW g1 s1.numDemes D).map (fun po => (po.2 + 1, po.1))) ir.2)))
    ((g1.params.filter (fun e => emitB g1 e.1)).foldl (fun L e => L.map (fun ir =>
      (ir.1, pulseRow1 (e.1 + 1) (e.2.1 + 1) e.2.2 ir.2))) (initL σ)), ?_, ?_⟩
  · rw [groupMoves_eq, hN, hL0, ok_bind, hps, pulses_foldlM T' s1.numDemes _ _ hes, ok_bind,
      born_foldlM s1.numDemes (jOf s1.numDemes) (aOfW g1 s1.numDemes) _ _ (fun D hD => (hborn D hD).1)]
  · rw [foldl_map_rows (fun (e : MOp) => pulseRow1 (e.1 + 1) (e.2.1 + 1) e.2.2),
      foldl_map_rows (fun (D : BDeme) => bornRow1 (jOf s1.numDemes D + 1)
        ((aOfW g1 s1.numDemes D).map (fun po => (po.2 + 1, po.1)))), List.map_map]
    apply canonRows_congr
    apply forall2_map_of_keys (key := fun x => x.1) he.keys
    intro x hx b hb hkey
    obtain ⟨hx1, hx2, hxe, _⟩ := initL_mem hx
    -- the read-back structure
    have hRB : ReadBackW ops (fun r => foldOps ops (delta r))
        (((applyParams T' s1 g1).demes.filter (bornP T')).map (fun D =>
          (jOf s1.numDemes D + 1, (aOfW g1 s1.numDemes D).map (fun po => (po.2 + 1, po.1))))) := by
      refine ⟨he.nsats, fun o ho => ⟨(he.pos o ho).2.2.1, (he.pos o ho).2.2.2⟩, ?_, ?_, ?_⟩
      · rw [List.map_map]
        have hsub : (((applyParams T' s1 g1).demes.filter (bornP T')).map (fun D => jOf s1.numDemes D + 1)).Sublist
            ((applyParams T' s1 g1).demes.map (fun D => jOf s1.numDemes D + 1)) :=
          List.Sublist.map _ List.filter_sublist
        rw [s2_jOfW he] at hsub
        apply List.Nodup.sublist hsub
        unfold List.Nodup
        rw [List.pairwise_map]
        exact (List.nodup_range).imp (fun hab e => hab (by omega))
      · intro bb hbb r
        obtain ⟨D, hD, rfl⟩ := List.mem_map.mp hbb
        obtain ⟨_, ⟨o, ho, ho1, hoq⟩, _⟩ := hborn D hD
        dsimp only
        rw [← ho1]
        exact join_colW he ho hoq r
      · intro bb hbb k
        obtain ⟨D, hD, rfl⟩ := List.mem_map.mp hbb
        exact (hborn D hD).2.2 k
    have hjoin : ∀ o ∈ ops, o.1 = x.1 → o.2.2 = 1 → x.1 ∈
        (((applyParams T' s1 g1).demes.filter (bornP T')).map (fun D =>
          (jOf s1.numDemes D + 1, (aOfW g1 s1.numDemes D).map (fun po => (po.2 + 1, po.1))))).map (·.1) := by
      intro o ho ho1 hoq
      obtain ⟨d, hd, hdst⟩ := he.dJoin o ho hoq
      rw [ho1] at hd
      have hjlt : x.1 - 1 < s.numDemes := by rw [hsim.num]; omega
      have hlt2 : x.1 - 1 < (applyParams T' s1 g1).demes.length := by
        rw [hlen2, ← he.len]; exact (List.getElem?_eq_some_iff.mp hd).1
      have hD := List.getElem?_eq_getElem hlt2
      obtain ⟨d', hd', hlt, hname, hstD, hbD, _⟩ := s2_atW he hD
      rw [hd] at hd'
      cases hd'
      obtain ⟨d0, h0, e1, _⟩ := he.dOld _ d hjlt hd
      have hbp : bornP T' (applyParams T' s1 g1).demes[x.1 - 1] = true := by
        unfold bornP nonTransient
        rw [hstD, hdst, hbD, e1]
        have hb := hend _ d0 h0
        have hne : ¬ T' = bEndTime d0 := fun e => by rw [e] at hb; exact Rat.lt_irrefl hb
        simp [hne]
      rw [List.map_map]
      apply List.mem_map.mpr
      refine ⟨_, List.mem_filter.mpr ⟨List.getElem_mem hlt2, hbp⟩, ?_⟩
      show jOf s1.numDemes _ + 1 = x.1
      rw [jOf_name hname hlt]
      omega
    have hrb := readBack_rowW hRB x.1 rfl hjoin (fun a => emitB g1 (a - 1))
      (by rw [← hkey]; exact emit_iffW he hb)
    -- the row `groupMoves` computes, as a function
    have hget : (fun y => Row.get (((applyParams T' s1 g1).demes.filter (bornP T')).foldl
        (fun r D => bornRow1 (jOf s1.numDemes D + 1) ((aOfW g1 s1.numDemes D).map (fun po => (po.2 + 1, po.1))) r)
        ((g1.params.filter (fun e => emitB g1 e.1)).foldl
          (fun r e => pulseRow1 (e.1 + 1) (e.2.1 + 1) e.2.2 r) x.2)) y)
        = foldOps ops (delta x.1) := by
      rw [foldl_get _ (fun (D : BDeme) => bornF (jOf s1.numDemes D + 1)
            ((aOfW g1 s1.numDemes D).map (fun po => (po.2 + 1, po.1))))
          (fun D r y => bornRow1_get _ _ r y),
        foldl_get _ (fun (e : MOp) => opF (up1 e)) (fun e r y => pulseRow1_get _ _ _ r y)]
      have h0 : (fun y => Row.get x.2 y) = delta x.1 := by
        funext y; rw [hxe, single_get]
      rw [h0, ← hrb, ← emitted_eqW hsim he]
      unfold foldBorn foldOps
      rw [List.foldl_map, List.foldl_map]
    refine ⟨hkey.symm, ?_, he.rowsOK b hb, ?_⟩
    · apply foldl_rowOK
      · intro D hD r hr
        exact bornRow1_ok hr (by omega) (fun ap hap => by
          obtain ⟨po, _, rfl⟩ := List.mem_map.mp hap
          show 1 ≤ po.2 + 1
          omega)
      · apply foldl_rowOK
        · intro e _ r hr
          exact pulseRow1_ok _ hr (by omega) (by omega)
        · rw [hxe]; exact rowOK_single _ _ hx1
    · intro k
      rw [he.rows b hb k, hkey]
      exact congrFun hget k

end

end Demes.Proofs.FromMs
