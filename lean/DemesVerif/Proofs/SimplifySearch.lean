/-
  Proofs for C05, part A — the search for symmetric migration groups
  (`simplify_migration_rates`, Model `simplifyMigrations`): what it emits denotes exactly the
  stripped migrations, its loop terminates within the Model's fuel, and the groups it emits
  are well formed.
-/
import DemesVerif.Spec.C05
import Mathlib.Data.List.Perm.Basic
import Mathlib.Data.List.Nodup
namespace Demes.Proofs.C05
open Demes Demes.Spec

/-! ### combinatorial helpers -/

theorem combinations_zero {α} (l : List α) : combinations l 0 = [[]] := by
  cases l <;> rfl

theorem combinations_sublist {α} (l : List α) :
    ∀ (k : Nat) (c : List α), c ∈ combinations l k → c.Sublist l ∧ c.length = k := by
  induction l with
  | nil =>
    intro k c hc
    cases k with
    | zero => simp only [combinations, List.mem_singleton] at hc; subst hc; exact ⟨List.Sublist.refl _, rfl⟩
    | succ k => simp [combinations] at hc
  | cons x xs ih =>
    intro k c hc
    cases k with
    | zero =>
      simp only [combinations, List.mem_singleton] at hc; subst hc
      exact ⟨List.nil_sublist _, rfl⟩
    | succ k =>
      simp only [combinations, List.mem_append, List.mem_map] at hc
      rcases hc with ⟨c', hc', rfl⟩ | hc
      · obtain ⟨h1, h2⟩ := ih k c' hc'
        exact ⟨h1.cons_cons x, by simp [h2]⟩
      · obtain ⟨h1, h2⟩ := ih (k + 1) c hc
        exact ⟨h1.cons x, h2⟩

theorem add_nodup (acc : List String) (x : String) (h : acc.Nodup) :
    (if acc.contains x then acc else acc ++ [x]).Nodup := by
  split
  · exact h
  · rename_i hx
    simp only [List.contains_iff_mem] at hx
    rw [List.nodup_append]
    refine ⟨h, List.nodup_singleton x, ?_⟩
    intro a ha b hb
    simp only [List.mem_singleton] at hb
    subst hb
    intro e; exact hx (e ▸ ha)

theorem collapseDemes_nodup (pairs : List (String × String)) : (collapseDemes pairs).Nodup := by
  unfold collapseDemes
  suffices h : ∀ acc : List String, acc.Nodup →
      (pairs.foldl (fun acc p =>
        let acc := if acc.contains p.1 then acc else acc ++ [p.1]
        if acc.contains p.2 then acc else acc ++ [p.2]) acc).Nodup from h [] List.nodup_nil
  induction pairs with
  | nil => intro acc h; exact h
  | cons p ps ih =>
    intro acc h
    simp only [List.foldl_cons]
    exact ih _ (add_nodup _ _ (add_nodup _ _ h))

theorem zipIdx_fst_pairwise {xs : List String} (h : xs.Nodup) (n : Nat) :
    (xs.zipIdx n).Pairwise (fun p q => p.1 ≠ q.1) := by
  have : ((xs.zipIdx n).map Prod.fst).Nodup := by rw [List.zipIdx_map_fst]; exact h
  exact (List.pairwise_map.1 this)

theorem perms2_nodup {xs : List String} (h : xs.Nodup) : (perms2 xs).Nodup := by
  unfold perms2
  rw [List.Nodup, List.pairwise_flatMap]
  constructor
  · rintro ⟨a, i⟩ _
    rw [List.pairwise_filterMap]
    refine (zipIdx_fst_pairwise h 0).imp ?_
    rintro ⟨b, j⟩ ⟨b', j'⟩ hne x hx y hy
    dsimp only at hx hy
    split at hx <;> split at hy <;> simp only [Option.some.injEq, reduceCtorEq] at hx hy
    subst hx hy
    intro e
    exact hne (Prod.mk.inj e).2
  · refine (zipIdx_fst_pairwise h 0).imp ?_
    rintro ⟨a, i⟩ ⟨a', i'⟩ hne x hx y hy
    simp only [List.mem_filterMap] at hx hy
    obtain ⟨⟨b, j⟩, _, hx⟩ := hx
    obtain ⟨⟨b', j'⟩, _, hy⟩ := hy
    split at hx <;> split at hy <;> simp only [Option.some.injEq, reduceCtorEq] at hx hy
    subst hx hy
    intro e
    exact hne (Prod.mk.inj e).1

theorem perms2_ne_nil {xs : List String} (h : 2 ≤ xs.length) : perms2 xs ≠ [] := by
  match xs, h with
  | a :: b :: rest, _ =>
    intro e
    have : (a, b) ∈ perms2 (a :: b :: rest) := by
      simp only [perms2, List.mem_flatMap, List.mem_filterMap]
      refine ⟨(a, 0), by simp [List.zipIdx_cons], (b, 1), by simp [List.zipIdx_cons], by simp⟩
    rw [e] at this
    cases this

theorem filter_erase_of_false {α} [DecidableEq α] (q : α → Bool) (a : α) (hq : q a = false) (l : List α) :
    (l.erase a).filter q = l.filter q := by
  induction l with
  | nil => rfl
  | cons x xs ih =>
    by_cases hx : x = a
    · subst hx
      simp [hq]
    · rw [List.erase_cons_tail (by simpa using hx)]
      simp only [List.filter_cons, ih]

theorem mkA_key (k : RateKey) (p : String × String) : (mkA k p).key = k := rfl

theorem mkA_self (a : AMig) : mkA a.key (a.source, a.dest) = a := rfl

/-! ### the search as named steps (definitionally the Model's) -/

def eraseStep (k : RateKey) (s : SearchState) (p : String × String) : SearchState :=
  { s with asymmetric := s.asymmetric.erase (mkA k p), pairs := s.pairs.erase p }

def compress (k : RateKey) (st : SearchState) (demeSet : List String) : SearchState :=
  let st' := (perms2 demeSet).foldl (eraseStep k) st
  { st' with symmetric := st'.symmetric ++ [{ demes := demeSet, rate := k.1, start := k.2.1, stop := k.2.2 }] }

def tryStep (k : RateKey) (acc : SearchState × Bool) (demeSet : List String) : SearchState × Bool :=
  if (perms2 demeSet).all (fun p => acc.1.pairs.contains p) then (compress k acc.1 demeSet, true)
  else acc

theorem tryCombinations_eq (k : RateKey) (sets : List (List String)) (st : SearchState) :
    tryCombinations k sets st = sets.foldl (tryStep k) (st, false) := rfl

def keyStep (acc : List SMig × List AMig) (kv : RateKey × List (String × String)) :
    List SMig × List AMig :=
  if kv.2.length = 1 then acc
  else
    let allDemes := collapseDemes kv.2
    let st := searchLoop kv.1 (kv.2.length + allDemes.length + 2) allDemes allDemes.length
      { symmetric := acc.1, asymmetric := acc.2, pairs := kv.2 }
    (st.symmetric, st.asymmetric)

theorem simplifyMigrations_eq (g : Graph) :
    simplifyMigrations g
      = (rateSets (g.migrations.map (stripBounds g))).foldl keyStep
          ([], g.migrations.map (stripBounds g)) := rfl

/-! ### the invariant of the search for one key -/

/-- everything the state denotes -/
def expSt (st : SearchState) : List AMig := st.symmetric.flatMap expandS ++ st.asymmetric

/-- every pair still listed under the key has its record among the asymmetric ones
(with multiplicity) -/
def HasRecords (k : RateKey) (st : SearchState) : Prop :=
  ∃ rest, st.asymmetric.Perm (st.pairs.map (mkA k) ++ rest)

def GroupOK (m : SMig) : Prop := 2 ≤ m.demes.length ∧ m.demes.Nodup

structure Good (k : RateKey) (st st' : SearchState) : Prop where
  perm : (expSt st').Perm (expSt st)
  other : ∀ k', k' ≠ k →
    st'.asymmetric.filter (fun a => a.key = k') = st.asymmetric.filter (fun a => a.key = k')
  inv : HasRecords k st'
  groups : ∀ m ∈ st'.symmetric, m ∈ st.symmetric ∨ GroupOK m

theorem Good.refl {k : RateKey} {st : SearchState} (h : HasRecords k st) : Good k st st :=
  ⟨List.Perm.refl _, fun _ _ => rfl, h, fun _ hm => Or.inl hm⟩

theorem Good.trans {k : RateKey} {a b c : SearchState} (h1 : Good k a b) (h2 : Good k b c) :
    Good k a c :=
  ⟨h2.perm.trans h1.perm, fun k' hk => (h2.other k' hk).trans (h1.other k' hk), h2.inv,
   fun m hm => (h2.groups m hm).elim (fun h => h1.groups m h) Or.inr⟩

theorem eraseFold_good (k : RateKey) (ps : List (String × String)) :
    ∀ (st : SearchState), ps.Nodup → (∀ p ∈ ps, p ∈ st.pairs) → HasRecords k st →
      (ps.foldl (eraseStep k) st).symmetric = st.symmetric
      ∧ st.asymmetric.Perm (ps.map (mkA k) ++ (ps.foldl (eraseStep k) st).asymmetric)
      ∧ HasRecords k (ps.foldl (eraseStep k) st)
      ∧ (∀ k', k' ≠ k → (ps.foldl (eraseStep k) st).asymmetric.filter (fun a => a.key = k')
            = st.asymmetric.filter (fun a => a.key = k')) := by
  induction ps with
  | nil => intro st _ _ hI; exact ⟨rfl, List.Perm.refl _, hI, fun _ _ => rfl⟩
  | cons p ps ih =>
    intro st hnd hin hI
    rw [List.nodup_cons] at hnd
    have hp : p ∈ st.pairs := hin p List.mem_cons_self
    obtain ⟨rest, hperm⟩ := hI
    have hmem : mkA k p ∈ st.asymmetric :=
      hperm.mem_iff.2 (List.mem_append_left _ (List.mem_map_of_mem hp))
    have hI1 : HasRecords k (eraseStep k st p) := by
      refine ⟨rest, ?_⟩
      have h1 := hperm.erase (mkA k p)
      have h2 : (st.pairs.map (mkA k) ++ rest).Perm
          (mkA k p :: ((st.pairs.erase p).map (mkA k) ++ rest)) :=
        (((List.perm_cons_erase hp).map (mkA k)).append_right rest)
      have h3 := h2.erase (mkA k p)
      rw [List.erase_cons_head] at h3
      exact h1.trans h3
    have hin1 : ∀ q ∈ ps, q ∈ (eraseStep k st p).pairs := by
      intro q hq
      have hne : q ≠ p := fun e => hnd.1 (e ▸ hq)
      exact (List.mem_erase_of_ne hne).2 (hin q (List.mem_cons_of_mem _ hq))
    obtain ⟨i1, i2, i3, i4⟩ := ih (eraseStep k st p) hnd.2 hin1 hI1
    simp only [List.foldl_cons]
    refine ⟨i1, ?_, i3, ?_⟩
    · have h5 : st.asymmetric.Perm (mkA k p :: (eraseStep k st p).asymmetric) :=
        List.perm_cons_erase hmem
      exact h5.trans (List.Perm.cons _ i2)
    · intro k' hk
      rw [i4 k' hk]
      have hne : ¬ (k = k') := fun e => hk e.symm
      exact filter_erase_of_false _ _ (by simp [mkA_key, hne]) _

theorem expSt_compress (k : RateKey) (st : SearchState) (c : List String) :
    expSt (compress k st c)
      = ((perms2 c).foldl (eraseStep k) st).symmetric.flatMap expandS
          ++ ((perms2 c).map (mkA k) ++ ((perms2 c).foldl (eraseStep k) st).asymmetric) := by
  simp only [expSt, compress, List.flatMap_append, List.flatMap_cons, List.flatMap_nil,
    List.append_nil, List.append_assoc]
  rfl

theorem tryStep_good (k : RateKey) (acc : SearchState × Bool) (c : List String)
    (hI : HasRecords k acc.1) (hc : c.Nodup) (h2 : 2 ≤ c.length) :
    Good k acc.1 (tryStep k acc c).1 := by
  unfold tryStep
  split
  · rename_i hall
    have hin : ∀ p ∈ perms2 c, p ∈ acc.1.pairs := by
      intro p hp
      have := List.all_eq_true.1 hall p hp
      simpa using this
    obtain ⟨i1, i2, i3, i4⟩ := eraseFold_good k (perms2 c) acc.1 (perms2_nodup hc) hin hI
    refine ⟨?_, ?_, ?_, ?_⟩
    · rw [expSt_compress, i1]
      exact List.Perm.append_left _ i2.symm
    · exact i4
    · exact i3
    · intro m hm
      simp only [compress, List.mem_append, List.mem_singleton] at hm
      rcases hm with hm | hm
      · left; rw [i1] at hm; exact hm
      · right; subst hm; exact ⟨h2, hc⟩
  · exact Good.refl hI

theorem tryFold_good (k : RateKey) (sets : List (List String)) :
    ∀ (acc : SearchState × Bool), HasRecords k acc.1 → (∀ c ∈ sets, c.Nodup ∧ 2 ≤ c.length) →
      Good k acc.1 (sets.foldl (tryStep k) acc).1 := by
  induction sets with
  | nil => intro acc hI _; exact Good.refl hI
  | cons c cs ih =>
    intro acc hI hs
    simp only [List.foldl_cons]
    have h1 := tryStep_good k acc c hI (hs c List.mem_cons_self).1 (hs c List.mem_cons_self).2
    exact h1.trans (ih _ h1.inv (fun c' hc' => hs c' (List.mem_cons_of_mem _ hc')))

theorem tryCombinations_good (k : RateKey) (allDemes : List String) (i : Nat) (st : SearchState)
    (hI : HasRecords k st) (hnd : allDemes.Nodup) (hi : 2 ≤ i) :
    Good k st (tryCombinations k (combinations allDemes i) st).1 := by
  rw [tryCombinations_eq]
  refine tryFold_good k _ (st, false) hI ?_
  intro c hc
  obtain ⟨h1, h2⟩ := combinations_sublist allDemes i c hc
  exact ⟨h1.nodup hnd, h2 ▸ hi⟩

theorem searchLoop_succ (k : RateKey) (fuel : Nat) (allDemes : List String) (i : Nat)
    (st : SearchState) :
    searchLoop k (fuel + 1) allDemes i st =
      if allDemes.length ≥ 2 ∧ i ≥ 2 then
        if (tryCombinations k (combinations allDemes i) st).2 then
          searchLoop k fuel (collapseDemes (tryCombinations k (combinations allDemes i) st).1.pairs)
            (Nat.min i (collapseDemes (tryCombinations k (combinations allDemes i) st).1.pairs).length)
            (tryCombinations k (combinations allDemes i) st).1
        else searchLoop k fuel allDemes (i - 1) (tryCombinations k (combinations allDemes i) st).1
      else st := by
  rw [searchLoop]

theorem searchLoop_good (k : RateKey) (fuel : Nat) :
    ∀ (allDemes : List String) (i : Nat) (st : SearchState), HasRecords k st → allDemes.Nodup →
      Good k st (searchLoop k fuel allDemes i st) := by
  induction fuel with
  | zero => intro _ _ st hI _; exact Good.refl hI
  | succ fuel ih =>
    intro allDemes i st hI hnd
    rw [searchLoop_succ]
    split
    · rename_i hcond
      have hg := tryCombinations_good k allDemes i st hI hnd hcond.2
      split
      · exact hg.trans (ih _ _ _ hg.inv (collapseDemes_nodup _))
      · exact hg.trans (ih _ _ _ hg.inv hnd)
    · exact Good.refl hI


/-! ### termination: the measure `pairs.length + i` -/

theorem eraseFold_len (k : RateKey) (ps : List (String × String)) :
    ∀ st : SearchState, (ps.foldl (eraseStep k) st).pairs.length ≤ st.pairs.length := by
  induction ps with
  | nil => intro st; exact Nat.le_refl _
  | cons p ps ih =>
    intro st
    simp only [List.foldl_cons]
    refine Nat.le_trans (ih _) ?_
    show (st.pairs.erase p).length ≤ _
    rw [List.length_erase]
    split <;> omega

theorem compress_len_lt (k : RateKey) (st : SearchState) (c : List String) (h2 : 2 ≤ c.length)
    (hall : (perms2 c).all (fun p => st.pairs.contains p) = true) :
    (compress k st c).pairs.length < st.pairs.length := by
  show ((perms2 c).foldl (eraseStep k) st).pairs.length < _
  cases hps : perms2 c with
  | nil => exact absurd hps (perms2_ne_nil h2)
  | cons p ps =>
    rw [hps] at hall
    have hp : p ∈ st.pairs := by
      have := List.all_eq_true.1 hall p List.mem_cons_self
      simpa using this
    simp only [List.foldl_cons]
    refine Nat.lt_of_le_of_lt (eraseFold_len k ps _) ?_
    show (st.pairs.erase p).length < _
    rw [List.length_erase_of_mem hp]
    have := List.length_pos_of_mem hp
    omega

theorem tryStep_len (k : RateKey) (acc : SearchState × Bool) (c : List String) (h2 : 2 ≤ c.length) :
    (tryStep k acc c).1.pairs.length ≤ acc.1.pairs.length
    ∧ ((tryStep k acc c).2 = true → acc.2 = true ∨ (tryStep k acc c).1.pairs.length < acc.1.pairs.length) := by
  unfold tryStep
  split
  · rename_i hall
    have := compress_len_lt k acc.1 c h2 hall
    exact ⟨Nat.le_of_lt this, fun _ => Or.inr this⟩
  · exact ⟨Nat.le_refl _, fun h => Or.inl h⟩

theorem tryFold_len (k : RateKey) (sets : List (List String)) :
    ∀ (acc : SearchState × Bool), (∀ c ∈ sets, 2 ≤ c.length) →
      (sets.foldl (tryStep k) acc).1.pairs.length ≤ acc.1.pairs.length
      ∧ ((sets.foldl (tryStep k) acc).2 = true →
          acc.2 = true ∨ (sets.foldl (tryStep k) acc).1.pairs.length < acc.1.pairs.length) := by
  induction sets with
  | nil => intro acc _; exact ⟨Nat.le_refl _, fun h => Or.inl h⟩
  | cons c cs ih =>
    intro acc hs
    simp only [List.foldl_cons]
    obtain ⟨a1, a2⟩ := tryStep_len k acc c (hs c List.mem_cons_self)
    obtain ⟨b1, b2⟩ := ih (tryStep k acc c) (fun c' hc' => hs c' (List.mem_cons_of_mem _ hc'))
    refine ⟨Nat.le_trans b1 a1, fun h => ?_⟩
    rcases b2 h with h' | h'
    · rcases a2 h' with h'' | h''
      · exact Or.inl h''
      · exact Or.inr (Nat.lt_of_le_of_lt b1 h'')
    · exact Or.inr (Nat.lt_of_lt_of_le h' a1)

/-- one pass over the subsets of size `i ≥ 2` never lengthens the list of pairs, and shortens
it if it compressed anything -/
theorem tryCombinations_len (k : RateKey) (allDemes : List String) (i : Nat) (st : SearchState)
    (hi : 2 ≤ i) :
    (tryCombinations k (combinations allDemes i) st).1.pairs.length ≤ st.pairs.length
    ∧ ((tryCombinations k (combinations allDemes i) st).2 = true →
        (tryCombinations k (combinations allDemes i) st).1.pairs.length < st.pairs.length) := by
  rw [tryCombinations_eq]
  obtain ⟨h1, h2⟩ := tryFold_len k (combinations allDemes i) (st, false)
    (fun c hc => (combinations_sublist allDemes i c hc).2 ▸ hi)
  refine ⟨h1, fun h => ?_⟩
  rcases h2 h with h' | h'
  · cases h'
  · exact h'

/-- A.3, general form — with fuel at least the measure `pairs.length + i`, extra fuel changes
nothing: the loop condition fails before the fuel runs out. -/
theorem searchLoop_fuel (k : RateKey) (fuel : Nat) :
    ∀ (allDemes : List String) (i : Nat) (st : SearchState) (n : Nat),
      st.pairs.length + i ≤ fuel →
      searchLoop k fuel allDemes i st = searchLoop k (fuel + n) allDemes i st := by
  induction fuel with
  | zero =>
    intro allDemes i st n h
    cases n with
    | zero => rfl
    | succ n =>
      rw [Nat.zero_add, searchLoop_succ]
      have : ¬ (allDemes.length ≥ 2 ∧ i ≥ 2) := by omega
      rw [if_neg this]
      rfl
  | succ fuel ih =>
    intro allDemes i st n h
    rw [show fuel + 1 + n = (fuel + n) + 1 by omega, searchLoop_succ, searchLoop_succ]
    split
    · rename_i hcond
      obtain ⟨l1, l2⟩ := tryCombinations_len k allDemes i st hcond.2
      split
      · rename_i hc
        have := l2 hc
        refine ih _ _ _ n ?_
        have : Nat.min i (collapseDemes (tryCombinations k (combinations allDemes i) st).1.pairs).length ≤ i :=
          Nat.min_le_left _ _
        omega
      · refine ih _ _ _ n ?_
        omega
    · rfl

/-- the measure also bounds the loop from any state reached with the fuel the Model gives -/
theorem searchLoop_measure_decreases (k : RateKey) (allDemes : List String) (i : Nat)
    (st : SearchState) (hcond : allDemes.length ≥ 2 ∧ i ≥ 2) :
    let r := tryCombinations k (combinations allDemes i) st
    (if r.2 then r.1.pairs.length + Nat.min i (collapseDemes r.1.pairs).length
      else r.1.pairs.length + (i - 1)) < st.pairs.length + i := by
  dsimp only
  obtain ⟨l1, l2⟩ := tryCombinations_len k allDemes i st hcond.2
  split
  · rename_i hc
    have := l2 hc
    have : Nat.min i (collapseDemes (tryCombinations k (combinations allDemes i) st).1.pairs).length ≤ i :=
      Nat.min_le_left _ _
    omega
  · omega

/-- A.3 — the fuel `simplifyMigrations` passes (`pairs.length + allDemes.length + 2`, with
`i = allDemes.length`) is never exhausted: any additional fuel gives the same result, so the
bounded loop of the Model is the unbounded `while` loop of the implementation, which
therefore terminates. -/
theorem simplify_fuel_sufficient (k : RateKey) (pairs : List (String × String))
    (sym : List SMig) (asym : List AMig) (n : Nat) :
    searchLoop k (pairs.length + (collapseDemes pairs).length + 2) (collapseDemes pairs)
        (collapseDemes pairs).length { symmetric := sym, asymmetric := asym, pairs := pairs }
      = searchLoop k (pairs.length + (collapseDemes pairs).length + 2 + n) (collapseDemes pairs)
        (collapseDemes pairs).length { symmetric := sym, asymmetric := asym, pairs := pairs } :=
  searchLoop_fuel k _ _ _ _ n (by show pairs.length + _ ≤ _; omega)

/-! ### `rate_sets` -/

/-- what the accumulator of `rateSets` satisfies after the records `done` -/
structure RSInv (acc : List (RateKey × List (String × String))) (done : List AMig) : Prop where
  nodup : (acc.map (·.1)).Nodup
  recs : ∀ kv ∈ acc, kv.2.map (mkA kv.1) = done.filter (fun a => a.key = kv.1)
  cover : ∀ b ∈ done, b.key ∈ acc.map (·.1)

def rsStep (acc : List (RateKey × List (String × String))) (a : AMig) :
    List (RateKey × List (String × String)) :=
  if acc.any (fun kv => kv.1 = a.key) then
    acc.map (fun kv => if kv.1 = a.key then (kv.1, kv.2 ++ [(a.source, a.dest)]) else kv)
  else acc ++ [(a.key, [(a.source, a.dest)])]

theorem rateSets_eq (ams : List AMig) : rateSets ams = ams.foldl rsStep [] := rfl

theorem rsStep_inv (acc : List (RateKey × List (String × String))) (done : List AMig) (a : AMig)
    (h : RSInv acc done) : RSInv (rsStep acc a) (done ++ [a]) := by
  unfold rsStep
  split
  · rename_i hany
    have hkeys : (acc.map (fun kv => if kv.1 = a.key then (kv.1, kv.2 ++ [(a.source, a.dest)]) else kv)).map (·.1)
        = acc.map (·.1) := by
      rw [List.map_map]
      apply List.map_congr_left
      intro kv _
      simp only [Function.comp]
      split <;> rfl
    refine ⟨hkeys ▸ h.nodup, ?_, ?_⟩
    · intro kv hkv
      obtain ⟨kv0, hkv0, rfl⟩ := List.mem_map.1 hkv
      have hr := h.recs kv0 hkv0
      split
      · rename_i heq
        simp only [List.map_append, List.map_cons, List.map_nil, List.filter_append, hr]
        rw [heq]
        simp [mkA_self]
      · rename_i hne
        rw [List.filter_append, hr]
        have : a.key ≠ kv0.1 := fun e => hne e.symm
        simp [this]
    · intro b hb
      rw [hkeys]
      rcases List.mem_append.1 hb with hb | hb
      · exact h.cover b hb
      · simp only [List.mem_singleton] at hb
        subst hb
        obtain ⟨kv, hkv, he⟩ := List.any_eq_true.1 hany
        simp only [decide_eq_true_eq] at he
        exact List.mem_map.2 ⟨kv, hkv, he⟩
  · rename_i hany
    have hnot : a.key ∉ acc.map (·.1) := by
      intro hmem
      obtain ⟨kv, hkv, he⟩ := List.mem_map.1 hmem
      exact hany (List.any_eq_true.2 ⟨kv, hkv, by simpa using he⟩)
    refine ⟨?_, ?_, ?_⟩
    · rw [List.map_append, List.nodup_append]
      refine ⟨h.nodup, by simp, ?_⟩
      intro x hx y hy
      simp only [List.map_cons, List.map_nil, List.mem_singleton] at hy
      subst hy
      intro e; exact hnot (e ▸ hx)
    · intro kv hkv
      rcases List.mem_append.1 hkv with hkv | hkv
      · rw [List.filter_append, h.recs kv hkv]
        have : a.key ≠ kv.1 := fun e => hnot (e ▸ List.mem_map_of_mem hkv)
        simp [this]
      · simp only [List.mem_singleton] at hkv
        subst hkv
        have hnone : done.filter (fun b => b.key = a.key) = [] := by
          rw [List.filter_eq_nil_iff]
          intro b hb
          simp only [decide_eq_true_eq]
          intro e
          exact hnot (e ▸ h.cover b hb)
        simp [List.filter_append, hnone, mkA_self]
    · intro b hb
      rw [List.map_append]
      rcases List.mem_append.1 hb with hb | hb
      · exact List.mem_append_left _ (h.cover b hb)
      · simp only [List.mem_singleton] at hb
        subst hb
        simp

theorem rsFold_inv (l : List AMig) :
    ∀ (acc : List (RateKey × List (String × String))) (done : List AMig), RSInv acc done →
      RSInv (l.foldl rsStep acc) (done ++ l) := by
  induction l with
  | nil => intro acc done h; simpa using h
  | cons a l ih =>
    intro acc done h
    have := ih _ _ (rsStep_inv acc done a h)
    simpa [List.append_assoc] using this

theorem rateSets_inv (ams : List AMig) : RSInv (rateSets ams) ams := by
  have := rsFold_inv ams [] [] ⟨List.nodup_nil, fun _ h => absurd h List.not_mem_nil, fun _ h => absurd h List.not_mem_nil⟩
  simpa [rateSets_eq] using this

/-! ### the fold over the keys -/

/-- invariant of the fold over `rateSets`: the accumulator denotes the stripped migrations,
its symmetric groups are well formed, and the records of the keys still to be searched are
untouched -/
structure FoldInv (ams : List AMig) (remaining : List (RateKey × List (String × String)))
    (acc : List SMig × List AMig) : Prop where
  perm : (expandAll acc).Perm ams
  keep : ∀ kv ∈ remaining,
    acc.2.filter (fun a => a.key = kv.1) = ams.filter (fun a => a.key = kv.1)
  groups : ∀ m ∈ acc.1, GroupOK m

theorem keyStep_inv (ams : List AMig) (kv : RateKey × List (String × String))
    (rest : List (RateKey × List (String × String))) (acc : List SMig × List AMig)
    (hk : ∀ kv' ∈ rest, kv'.1 ≠ kv.1)
    (hrec : kv.2.map (mkA kv.1) = ams.filter (fun a => a.key = kv.1))
    (h : FoldInv ams (kv :: rest) acc) : FoldInv ams rest (keyStep acc kv) := by
  unfold keyStep
  split
  · exact ⟨h.perm, fun kv' hkv' => h.keep kv' (List.mem_cons_of_mem _ hkv'), h.groups⟩
  · have hI : HasRecords kv.1 { symmetric := acc.1, asymmetric := acc.2, pairs := kv.2 } := by
      refine ⟨acc.2.filter (fun a => !decide (a.key = kv.1)), ?_⟩
      show acc.2.Perm _
      rw [hrec, ← h.keep kv List.mem_cons_self]
      exact (List.filter_append_perm _ _).symm
    have hg := searchLoop_good kv.1 (kv.2.length + (collapseDemes kv.2).length + 2)
      (collapseDemes kv.2) (collapseDemes kv.2).length _ hI (collapseDemes_nodup _)
    refine ⟨hg.perm.trans h.perm, ?_, ?_⟩
    · intro kv' hkv'
      show List.filter _ (searchLoop _ _ _ _ _).asymmetric = _
      rw [hg.other kv'.1 (hk kv' hkv')]
      exact h.keep kv' (List.mem_cons_of_mem _ hkv')
    · intro m hm
      exact (hg.groups m hm).elim (fun h' => h.groups m h') id

theorem keyFold_inv (ams : List AMig) (l : List (RateKey × List (String × String))) :
    ∀ (acc : List SMig × List AMig), (l.map (·.1)).Nodup →
      (∀ kv ∈ l, kv.2.map (mkA kv.1) = ams.filter (fun a => a.key = kv.1)) →
      FoldInv ams l acc → FoldInv ams [] (l.foldl keyStep acc) := by
  induction l with
  | nil => intro acc _ _ h; exact h
  | cons kv rest ih =>
    intro acc hnd hrec h
    rw [List.map_cons, List.nodup_cons] at hnd
    simp only [List.foldl_cons]
    refine ih _ hnd.2 (fun kv' hkv' => hrec kv' (List.mem_cons_of_mem _ hkv')) ?_
    refine keyStep_inv ams kv rest acc ?_ (hrec kv List.mem_cons_self) h
    intro kv' hkv' e
    exact hnd.1 (e ▸ List.mem_map_of_mem hkv')

theorem simplify_foldInv (g : Graph) :
    FoldInv (g.migrations.map (stripBounds g)) [] (simplifyMigrations g) := by
  rw [simplifyMigrations_eq]
  have hrs := rateSets_inv (g.migrations.map (stripBounds g))
  refine keyFold_inv _ _ _ hrs.nodup hrs.recs ⟨?_, fun _ _ => rfl, fun _ h => by cases h⟩
  simp [expandAll]

/-- A.2 — whatever subsets the search tries, the records denoted by the simplified migration
list are exactly (as a multiset) the stripped migrations of the graph. -/
theorem simplify_invariant (g : Graph) :
    (expandAll (simplifyMigrations g)).Perm (g.migrations.map (stripBounds g)) :=
  (simplify_foldInv g).perm

/-- A.4 (first half) — every emitted symmetric group has at least two, pairwise distinct,
demes. -/
theorem simplify_groups_wellformed (g : Graph) :
    ∀ m ∈ (simplifyMigrations g).1, 2 ≤ m.demes.length ∧ m.demes.Nodup :=
  (simplify_foldInv g).groups

end Demes.Proofs.C05
