/-
  C07 — the stable insertion sort `Ms.sortBy` (Python's `sorted(key=…)` / `list.sort(key=…)`):
  permutation, sortedness, identity on sorted lists, commutation with `filter` (stability)
  and with `map`, and the last element.
-/
import DemesVerif.Model.Ms
set_option linter.unusedSimpArgs false
set_option linter.unusedVariables false
namespace Demes.Proofs.ToMs
open Demes Demes.Ms

variable {α : Type}

/-- `le` is `key a ≤ key b` for a total preorder on the keys -/
structure TotalPre (le : α → α → Bool) : Prop where
  total : ∀ a b, le a b = true ∨ le b a = true
  trans : ∀ a b c, le a b = true → le b c = true → le a c = true

abbrev Sorted (le : α → α → Bool) (l : List α) : Prop := l.Pairwise (fun a b => le a b = true)

theorem insertBy_perm (le : α → α → Bool) (x : α) : ∀ l : List α, (insertBy le x l).Perm (x :: l)
  | [] => List.Perm.refl _
  | y :: ys => by
    unfold insertBy
    split
    · exact List.Perm.refl _
    · exact ((insertBy_perm le x ys).cons y).trans (List.Perm.swap x y ys)

theorem sortBy_cons (le : α → α → Bool) (x : α) (l : List α) :
    sortBy le (x :: l) = insertBy le x (sortBy le l) := rfl

theorem sortBy_perm (le : α → α → Bool) : ∀ l : List α, (sortBy le l).Perm l
  | [] => List.Perm.refl _
  | x :: l => by
    rw [sortBy_cons]
    exact (insertBy_perm le x _).trans ((sortBy_perm le l).cons x)

theorem mem_sortBy (le : α → α → Bool) {x : α} {l : List α} : x ∈ sortBy le l ↔ x ∈ l :=
  (sortBy_perm le l).mem_iff

theorem length_sortBy (le : α → α → Bool) (l : List α) : (sortBy le l).length = l.length :=
  (sortBy_perm le l).length_eq

theorem sorted_insertBy {le : α → α → Bool} (h : TotalPre le) (x : α) :
    ∀ l : List α, Sorted le l → Sorted le (insertBy le x l)
  | [], _ => by simp [insertBy, Sorted]
  | y :: ys, hs => by
    unfold insertBy
    have hy := List.pairwise_cons.1 hs
    split
    · rename_i hxy
      refine List.pairwise_cons.2 ⟨?_, hs⟩
      intro z hz
      rcases List.mem_cons.1 hz with rfl | hz
      · exact hxy
      · exact h.trans _ _ _ hxy (hy.1 z hz)
    · rename_i hxy
      have hyx : le y x = true := by
        rcases h.total x y with h1 | h1
        · exact absurd h1 hxy
        · exact h1
      refine List.pairwise_cons.2 ⟨?_, sorted_insertBy h x ys hy.2⟩
      intro z hz
      rcases List.mem_cons.1 ((insertBy_perm le x ys).mem_iff.1 hz) with rfl | hz
      · exact hyx
      · exact hy.1 z hz

theorem sorted_sortBy {le : α → α → Bool} (h : TotalPre le) : ∀ l : List α, Sorted le (sortBy le l)
  | [] => List.Pairwise.nil
  | x :: l => by rw [sortBy_cons]; exact sorted_insertBy h x _ (sorted_sortBy h l)

theorem insertBy_of_le {le : α → α → Bool} {x : α} {l : List α} (h : ∀ y ∈ l.head?, le x y = true) :
    insertBy le x l = x :: l := by
  cases l with
  | nil => rfl
  | cons y ys => simp [insertBy, h y (by simp)]

theorem sortBy_of_sorted {le : α → α → Bool} : ∀ l : List α, Sorted le l → sortBy le l = l
  | [], _ => rfl
  | x :: l, hs => by
    have hx := List.pairwise_cons.1 hs
    rw [sortBy_cons, sortBy_of_sorted l hx.2]
    apply insertBy_of_le
    intro y hy
    exact hx.1 y (List.mem_of_mem_head? hy)

/-- inserting into `A ++ B` where everything in `A` is strictly smaller and `B` starts with
something not smaller -/
theorem insertBy_append {le : α → α → Bool} {x : α} :
    ∀ (A B : List α), (∀ a ∈ A, le x a = false) → (∀ b ∈ B.head?, le x b = true) →
      insertBy le x (A ++ B) = A ++ x :: B
  | [], B, _, hB => by simpa using insertBy_of_le hB
  | a :: A, B, hA, hB => by
    simp only [List.cons_append, insertBy, hA a List.mem_cons_self, Bool.false_eq_true, if_false]
    rw [insertBy_append A B (fun y hy => hA y (List.mem_cons_of_mem _ hy)) hB]

/-- a sorted list splits at `x` -/
theorem sorted_split {le : α → α → Bool} (h : TotalPre le) (x : α) :
    ∀ l : List α, Sorted le l → ∃ A B, l = A ++ B ∧ (∀ a ∈ A, le x a = false) ∧ (∀ b ∈ B, le x b = true)
  | [], _ => ⟨[], [], rfl, by simp, by simp⟩
  | y :: ys, hs => by
    have hy := List.pairwise_cons.1 hs
    by_cases hxy : le x y = true
    · refine ⟨[], y :: ys, rfl, by simp, ?_⟩
      intro b hb
      rcases List.mem_cons.1 hb with rfl | hb
      · exact hxy
      · exact h.trans _ _ _ hxy (hy.1 b hb)
    · obtain ⟨A, B, hl, hA, hB⟩ := sorted_split h x ys hy.2
      refine ⟨y :: A, B, by rw [hl]; rfl, ?_, hB⟩
      intro a ha
      rcases List.mem_cons.1 ha with rfl | ha
      · simpa using hxy
      · exact hA a ha

theorem insertBy_filter {le : α → α → Bool} (h : TotalPre le) (x : α) (p : α → Bool) (l : List α)
    (hs : Sorted le l) :
    (insertBy le x l).filter p = if p x then insertBy le x (l.filter p) else l.filter p := by
  obtain ⟨A, B, rfl, hA, hB⟩ := sorted_split h x l hs
  rw [insertBy_append A B hA (fun b hb => hB b (List.mem_of_mem_head? hb))]
  have hA' : ∀ a ∈ A.filter p, le x a = false := fun a ha => hA a (List.mem_filter.1 ha).1
  have hB' : ∀ b ∈ (B.filter p).head?, le x b = true := fun b hb =>
    hB b (List.mem_filter.1 (List.mem_of_mem_head? hb)).1
  by_cases hp : p x = true
  · simp only [hp, if_true, List.filter_append, List.filter_cons]
    rw [insertBy_append _ _ hA' hB']
  · simp only [hp, if_false, List.filter_append, List.filter_cons, Bool.false_eq_true]

/-- stability: filtering a sorted list is sorting the filtered list -/
theorem sortBy_filter {le : α → α → Bool} (h : TotalPre le) (p : α → Bool) :
    ∀ l : List α, (sortBy le l).filter p = sortBy le (l.filter p)
  | [] => rfl
  | x :: l => by
    rw [sortBy_cons, insertBy_filter h x p _ (sorted_sortBy h l), sortBy_filter h p l]
    by_cases hp : p x = true
    · simp [hp, List.filter_cons, sortBy_cons]
    · simp [hp, List.filter_cons]

theorem insertBy_map {β : Type} {le : α → α → Bool} {le' : β → β → Bool} (f : α → β)
    (hf : ∀ a b, le' (f a) (f b) = le a b) (x : α) :
    ∀ l : List α, insertBy le' (f x) (l.map f) = (insertBy le x l).map f
  | [] => rfl
  | y :: ys => by
    simp only [List.map_cons, insertBy, hf]
    split
    · rfl
    · rw [List.map_cons, insertBy_map f hf x ys]

theorem sortBy_map {β : Type} {le : α → α → Bool} {le' : β → β → Bool} (f : α → β)
    (hf : ∀ a b, le' (f a) (f b) = le a b) :
    ∀ l : List α, sortBy le' (l.map f) = (sortBy le l).map f
  | [] => rfl
  | x :: l => by
    rw [List.map_cons, sortBy_cons, sortBy_cons, sortBy_map f hf l, insertBy_map f hf]

theorem sortBy_congr {le le' : α → α → Bool} :
    ∀ l : List α, (∀ a ∈ l, ∀ b ∈ l, le a b = le' a b) → sortBy le l = sortBy le' l
  | [], _ => rfl
  | x :: l, h => by
    rw [sortBy_cons, sortBy_cons, sortBy_congr l (fun a ha b hb => h a (List.mem_cons_of_mem _ ha) b (List.mem_cons_of_mem _ hb))]
    have : ∀ m : List α, (∀ b ∈ m, b ∈ l) → insertBy le x m = insertBy le' x m := by
      intro m
      induction m with
      | nil => intro _; rfl
      | cons y ys ih =>
        intro hm
        simp only [insertBy, h x List.mem_cons_self y (List.mem_cons_of_mem _ (hm y List.mem_cons_self))]
        rw [ih (fun b hb => hm b (List.mem_cons_of_mem _ hb))]
    exact this _ (fun b hb => (mem_sortBy le').1 hb)

/-- the last element of a stable sort: `x` with nothing later strictly... every earlier element
not larger, every later element strictly smaller -/
theorem insertBy_getLast {le : α → α → Bool} {a x : α} (hax : le a x = true) :
    ∀ l : List α, insertBy le a (l ++ [x]) = insertBy le a l ++ [x] ∨ insertBy le a (l ++ [x]) = (l ++ [a]) ++ [x] := by
  intro l
  induction l with
  | nil => right; simp [insertBy, hax]
  | cons y ys ih =>
    by_cases hay : le a y = true
    · left; simp [insertBy, hay]
    · rcases ih with h | h
      · left; simp [insertBy, hay, h]
      · right; simp [insertBy, hay, h]

theorem getLast?_insertBy_le {le : α → α → Bool} {a x : α} (hax : le a x = true) (l : List α) :
    (insertBy le a (l ++ [x])).getLast? = some x := by
  rcases insertBy_getLast hax l with h | h <;> rw [h] <;> simp

theorem insertBy_all_lt {le : α → α → Bool} {x : α} :
    ∀ l : List α, (∀ y ∈ l, le x y = false) → insertBy le x l = l ++ [x]
  | [], _ => rfl
  | y :: ys, h => by
    simp only [insertBy, h y List.mem_cons_self, Bool.false_eq_true, if_false, List.cons_append]
    rw [insertBy_all_lt ys (fun z hz => h z (List.mem_cons_of_mem _ hz))]

theorem getLast?_sortBy {le : α → α → Bool} (x : α) :
    ∀ (A B : List α), (∀ a ∈ A, le a x = true) → (∀ b ∈ B, le x b = false) →
      (sortBy le (A ++ x :: B)).getLast? = some x
  | [], B, _, hB => by
    rw [List.nil_append, sortBy_cons, insertBy_all_lt _ (fun y hy => hB y ((mem_sortBy le).1 hy))]
    simp
  | a :: A, B, hA, hB => by
    have ih := getLast?_sortBy x A B (fun y hy => hA y (List.mem_cons_of_mem _ hy)) hB
    rw [List.cons_append, sortBy_cons]
    obtain ⟨l, hl⟩ : ∃ l, sortBy le (A ++ x :: B) = l ++ [x] := List.getLast?_eq_some_iff.mp ih
    rw [hl]
    exact getLast?_insertBy_le (hA a List.mem_cons_self) l

end Demes.Proofs.ToMs
