/-
  Proofs for C09, part 1 — lexical facts about printed tokens: how the Model's `classify`
  (`_parse_optional` of argparse) sees the strings the printer emits, and `int(str(i)) = i`.
-/
import DemesVerif.Spec.C09
namespace Demes.Proofs.MsPrint
open Demes Demes.Ms Demes.Spec.C09


theorem classify_of_head_ne_minus (s : String) (h : s.toList.head? ≠ some '-') :
    classify s = .ok .arg := by
  unfold classify
  simp only []
  split
  · rfl
  · first | rfl | (rw [if_pos h]; rfl)

theorem registered_second (o : String) (ho : o ∈ registered) :
    ∃ c, o.toList[1]? = some c ∧ c.isDigit = false := by
  have h : registered.all (fun o => match o.toList[1]? with | some c => !c.isDigit | none => false) = true := by
    decide +kernel
  rw [List.all_eq_true] at h
  have := h o ho
  split at this
  · next c hc => exact ⟨c, hc, by simpa using this⟩
  · cases this

theorem digit_ne_eq (c : Char) (h : c.isDigit = true) : c ≠ '=' := by
  intro hc; subst hc; revert h; decide

theorem digit_ne_dash (c : Char) (h : c.isDigit = true) : c ≠ '-' := by
  intro hc; subst hc; revert h; decide

theorem digit_ne_dot (c : Char) (h : c.isDigit = true) : c ≠ '.' := by
  intro hc; subst hc; revert h; decide

/-- a string `-d…` whose second character is a digit, without `=`, that matches argparse's
negative-number pattern is an argument -/
theorem classify_negative_number (s : String) (d : Char) (rest : List Char)
    (hs : s.toList = '-' :: d :: rest) (hd : d.isDigit = true) (heq : hasEq s = false)
    (hneg : looksNegativeNumber s = true) : classify s = .ok .arg := by
  have hnotreg : ∀ o ∈ registered, o.toList[1]? ≠ some d := by
    intro o ho hod
    obtain ⟨c, hc, hcd⟩ := registered_second o ho
    rw [hc] at hod; cases hod; rw [hd] at hcd; cases hcd
  have hreg : registered.contains s = false := by
    rw [List.contains_eq_mem]
    apply decide_eq_false
    intro hmem
    exact hnotreg s hmem (by rw [hs]; rfl)
  have htup : optionTuples s = [] := by
    unfold optionTuples
    simp only [hs]
    rw [if_neg (by simp [digit_ne_dash d hd])]
    rw [List.filterMap_eq_nil_iff]
    intro o ho
    have h1 : ¬ (o.toList = List.take 2 ('-' :: d :: rest)) := by
      intro h; apply hnotreg o ho; rw [h]; rfl
    rw [if_neg h1]
    have h2 : startsWithL o s = false := by
      unfold startsWithL
      rw [hs]
      cases hol : o.toList with
      | nil => rfl
      | cons a t =>
        cases t with
        | nil => simp [List.isPrefixOf]
        | cons b t' =>
          have : b ≠ d := by
            intro hb; apply hnotreg o ho; rw [hol, hb]; rfl
          simp only [List.isPrefixOf, Bool.and_eq_false_imp, beq_iff_eq]
          intro _ hdb; exact absurd hdb.symm this
    rw [h2]; rfl
  unfold classify
  simp only [hs, hreg, heq, htup, hneg]
  rfl



theorem span_loop_eq {α} (p : α → Bool) (l acc : List α) :
    List.span.loop p l acc = (acc.reverse ++ l.takeWhile p, l.dropWhile p) := by
  induction l generalizing acc with
  | nil => simp [List.span.loop]
  | cons a t ih =>
    unfold List.span.loop
    cases h : p a
    · simp [h]
    · simp [h, ih]

theorem span_eq {α} (p : α → Bool) (l : List α) : l.span p = (l.takeWhile p, l.dropWhile p) := by
  unfold List.span; rw [span_loop_eq]; simp

theorem span_digits_dot (ip fp : List Char) (h : ip.all Char.isDigit = true) :
    (ip ++ '.' :: fp).span (fun c => c ≠ '.') = (ip, '.' :: fp) := by
  rw [span_eq]
  induction ip with
  | nil => simp
  | cons a t ih =>
    simp only [List.all_cons, Bool.and_eq_true] at h
    have ha : a ≠ '.' := digit_ne_dot a h.1
    have := ih h.2
    simp only [Prod.mk.injEq, ne_eq, decide_not] at this
    simp [ha, this.1, this.2]

theorem looksNeg_fixedPoint (s : String) (h : fixedPointShape s.toList) :
    looksNegativeNumber s = true := by
  obtain ⟨ip, fp, hs, hne, hip, hlen, hfp⟩ := h
  unfold looksNegativeNumber
  rw [hs]
  simp only [span_digits_dot ip fp hip, hip, hfp]
  have : fp.isEmpty = false := by cases fp <;> simp_all
  simp [this]

theorem looksNeg_digits (s : String) (ds : List Char) (hs : s.toList = '-' :: ds) (hne : ds ≠ [])
    (hd : ds.all Char.isDigit = true) : looksNegativeNumber s = true := by
  unfold looksNegativeNumber
  rw [hs]
  have : ds.isEmpty = false := by cases ds <;> simp_all
  simp [this, hd]

theorem hasEq_false_of (s : String) (h : ∀ c ∈ s.toList, c = '-' ∨ c = '.' ∨ c.isDigit = true) : hasEq s = false := by
  unfold hasEq
  rw [List.contains_eq_mem]
  apply decide_eq_false
  intro hm
  rcases h _ hm with h | h | h
  · revert h; decide
  · revert h; decide
  · revert h; decide


theorem toList_toString_nat (n : Nat) : (toString n).toList = Nat.toDigits 10 n := by
  rw [Nat.toString_eq_ofList_toDigits, String.toList_ofList]

theorem toList_toString_int (i : Int) :
    (toString i).toList = if i < 0 then '-' :: Nat.toDigits 10 i.natAbs else Nat.toDigits 10 i.natAbs := by
  cases i with
  | ofNat m =>
    have : ¬ (Int.ofNat m < 0) := Int.not_lt.2 (Int.natCast_nonneg m)
    rw [if_neg this]
    show (Int.repr (Int.ofNat m)).toList = _
    simp [Int.repr]
  | negSucc m =>
    have : (Int.negSucc m < 0) := Int.negSucc_lt_zero m
    rw [if_pos this]
    show (Int.repr (Int.negSucc m)).toList = _
    simp [Int.repr, String.toList_append]

theorem all_digit_toDigits (n : Nat) : (Nat.toDigits 10 n).all Char.isDigit = true := by
  rw [List.all_eq_true]
  intro c hc
  exact Nat.isDigit_of_mem_toDigits (by decide) (by decide) hc

theorem foldl_digits_eq (cs : List Char) (init : Nat) :
    cs.foldl (fun acc c => acc * 10 + (c.toNat - '0'.toNat)) init = Nat.ofDigitChars 10 cs init := by
  rw [Nat.ofDigitChars_eq_foldl]
  congr 1
  funext acc c
  rw [Nat.mul_comm]

theorem digitsVal_toDigits (n : Nat) : digitsVal (Nat.toDigits 10 n) = some n := by
  unfold digitsVal
  split
  · next h => exact absurd h Nat.toDigits_ne_nil
  · rw [if_pos (all_digit_toDigits n), foldl_digits_eq, Nat.ofDigitChars_ten_toDigits]

theorem splitSign_digit (d : Char) (r : List Char) (hd : d.isDigit = true) :
    splitSign (d :: r) = (false, d :: r) := by
  unfold splitSign
  split
  · next h => cases h; exact absurd hd (by decide)
  · next h => cases h; exact absurd hd (by decide)
  · rfl

theorem toDigits_cons (n : Nat) : ∃ d r, Nat.toDigits 10 n = d :: r ∧ d.isDigit = true := by
  cases h : Nat.toDigits 10 n with
  | nil => exact absurd h Nat.toDigits_ne_nil
  | cons d r =>
    refine ⟨d, r, rfl, ?_⟩
    have := all_digit_toDigits n
    rw [h] at this
    simp only [List.all_cons, Bool.and_eq_true] at this
    exact this.1

theorem splitSign_minus (r : List Char) : splitSign ('-' :: r) = (true, r) := rfl

theorem pyInt_toString (i : Int) : pyInt (toString i) = some i := by
  unfold pyInt
  rw [toList_toString_int]
  obtain ⟨d, r, hdr, hd⟩ := toDigits_cons i.natAbs
  by_cases hi : i < 0
  · rw [if_pos hi, splitSign_minus]
    simp only [digitsVal_toDigits]
    simp
    omega
  · rw [if_neg hi, hdr, splitSign_digit d r hd]
    simp only []
    rw [← hdr, digitsVal_toDigits]
    simp
    omega

/-! ### integers -/

theorem cInt_toString (i : Int) : cInt (toString i) = .ok i := by
  unfold cInt; rw [pyInt_toString]; rfl

/-- `str(i)` is never taken for an option: a non-negative integer does not begin with `-`, a
negative one matches argparse's negative-number pattern `^-\d+$` -/
theorem classify_toString_int (i : Int) : classify (toString i) = .ok .arg := by
  obtain ⟨d, r, hdr, hd⟩ := toDigits_cons i.natAbs
  by_cases hi : i < 0
  · have hs : (toString i).toList = '-' :: d :: r := by rw [toList_toString_int, if_pos hi, hdr]
    have hall := all_digit_toDigits i.natAbs
    apply classify_negative_number _ d r hs hd
    · apply hasEq_false_of
      intro c hc
      rw [hs] at hc
      rcases List.mem_cons.1 hc with h | h
      · exact Or.inl h
      · right; right
        rw [hdr, List.all_eq_true] at hall
        exact hall c h
    · apply looksNeg_digits _ (d :: r) hs (by simp)
      rw [← hdr]; exact hall
  · apply classify_of_head_ne_minus
    rw [toList_toString_int, if_neg hi, hdr]
    simp only [List.head?_cons, ne_eq, Option.some.injEq]
    exact digit_ne_dash d hd

/-! ### numbers -/

theorem lt_zero_cases (x : Num) (h : Num.lt x Num.zero = true) : x = .ninf ∨ ∃ q, x = .fin q ∧ q < 0 := by
  cases x with
  | fin q => right; exact ⟨q, rfl, by simpa [Num.lt, Num.zero] using h⟩
  | pinf => simp [Num.lt, Num.zero] at h
  | ninf => left; rfl
  | nan => simp [Num.lt] at h

theorem classify_fixedPoint (s : String) (h : fixedPointShape s.toList) : classify s = .ok .arg := by
  have hneg := looksNeg_fixedPoint s h
  obtain ⟨ip, fp, hs, hne, hip, hlen, hfp⟩ := h
  cases ip with
  | nil => exact absurd rfl hne
  | cons d ip' =>
    simp only [List.all_cons, Bool.and_eq_true] at hip
    apply classify_negative_number s d (ip' ++ '.' :: fp) (by rw [hs]; rfl) hip.1 _ hneg
    apply hasEq_false_of
    intro c hc
    rw [hs] at hc
    simp only [List.cons_append, List.mem_cons, List.mem_append] at hc
    rw [List.all_eq_true] at hfp
    have hip2 := hip.2
    rw [List.all_eq_true] at hip2
    rcases hc with h | h | h | h | h
    · exact Or.inl h
    · right; right; rw [h]; exact hip.1
    · right; right; exact hip2 c h
    · exact Or.inr (Or.inl h)
    · right; right; exact hfp c h

/-- **No printed number is taken for an option flag.**  A number that is not negative does not
begin with `-`; a negative finite number is printed in fixed-point form, which argparse's
negative-number rule (`^-\d+$|^-\d*\.\d+$`, mirrored by `looksNegativeNumber`) recognises
as an argument because the parser has no option that looks like a negative number. -/
theorem classify_num (c : NumCodec) (x : Num) (hx : c.ok x) : classify (c.str x) = .ok .arg := by
  cases hlt : Num.lt x Num.zero
  · exact classify_of_head_ne_minus _ (c.nonneg_head x hx.1 hlt)
  · rcases lt_zero_cases x hlt with h | ⟨q, hq, hq0⟩
    · exact absurd h hx.2
    · subst hq
      exact classify_fixedPoint _ (c.neg_shape q hx.1 hq0)

theorem classify_x : classify "x" = .ok .arg := rfl

/-- a string classified as an argument is not the `--` separator -/
theorem ne_dashdash_of_arg (s : String) (h : classify s = .ok .arg) : s ≠ "--" := by
  intro hs; subst hs
  have : classify "--" = .ok (.opt "--help" none) := rfl
  rw [this] at h; cases h

end Demes.Proofs.MsPrint
