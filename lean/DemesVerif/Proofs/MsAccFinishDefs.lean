/-
  C09 (acceptance), after the event loop — shared definitions.

  `DocWF doc`: what the document `finishDoc` hands to `resolve` satisfies, stated on the document alone
  (no Builder state): the demes are sorted by start time, have distinct identifier names, closed
  growth-free epochs with exact positive sizes, an ancestry inside the document; the migrations and
  pulses go between demes of the document inside their lifetimes.

  The acceptance proof then has two independent halves:
  * `MsAccFinishDoc.lean`: `AccInv`, `NameInv`, `DocMigsWF` ⟹ `finishDoc` succeeds and `DocWF doc`;
  * `MsAccFinishDemes/Migs/Pulses.lean`: `DocWF doc` ⟹ every clause of `validGraph (docGraph tab doc)`.
-/
import DemesVerif.Proofs.MsAccFill
import DemesVerif.Proofs.MsPrintLex
import DemesVerif.Proofs.AcceptsSort
import DemesVerif.Proofs.FromMsApplyFinish
namespace Demes.Proofs.MsAcc
open Demes Demes.Ms Demes.Spec Demes.Spec.C08 Demes.Proofs.FromMs

/-! ## the well-formed document -/

/-- the ancestry of a document deme `d` that starts at the finite time `Tj`: the ancestors are other
demes of the document `D` that exist at `Tj` (end ≤ `Tj` < start); the proportions are absent (one
ancestor) or positive with sum one -/
structure DAncWF (D : List BDeme) (Tj : Q) (d : BDeme) : Prop where
  anc : ∃ as, d.ancestors = some as ∧ as ≠ [] ∧ as.Nodup ∧
    (∀ a ∈ as, ∃ da ∈ D, da.name = a ∧ a ≠ d.name ∧ bEndTime da ≤ Tj ∧ ETime.fin Tj < da.startTime) ∧
    ((d.proportions = none ∧ as.length = 1) ∨
      ∃ ps, d.proportions = some ps ∧ ps.length = as.length ∧ (∀ p ∈ ps, 0 < p ∧ p ≤ 1) ∧ qsumS ps = 1)

/-- a deme of the document (`D`: all demes of the document) -/
structure DDemeWF (D : List BDeme) (d : BDeme) : Prop where
  ident : isIdentifier d.name = true
  ne : d.epochs ≠ []
  sizes : ∀ e ∈ d.epochs, e.endSize.expo = 0 ∧ 0 < e.endSize.coef
  closed : ∀ e ∈ d.epochs, e.growthRate = none ∧ ∃ z, e.startSize = some z ∧ z.expo = 0 ∧ 0 < z.coef
  headEq : ∀ e r, d.epochs = e :: r → e.startSize = some e.endSize
  times : (d.epochs.map (·.endTime)).Pairwise (fun a b => b < a)
  last0 : 0 ≤ bEndTime d
  headLt : ∀ e r, d.epochs = e :: r → ETime.fin e.endTime < d.startTime
  inf : d.startTime = .inf → d.ancestors = none ∧ d.proportions = none
  fin : ∀ Tj, d.startTime = .fin Tj → 0 < Tj ∧ DAncWF D Tj d

/-- the migrations of the document -/
structure DMigsWF (D : List BDeme) (migs : List BMigration) : Prop where
  shape : ∀ m ∈ migs, ∃ q, ∃ dj ∈ D, ∃ dk ∈ D, m.source = dk.name ∧ m.dest = dj.name ∧ dj.name ≠ dk.name
    ∧ m.rate = .fin q ∧ 0 ≤ q ∧ q ≤ 1
    ∧ ETime.fin m.endTime < m.startTime ∧ bEndTime dj ≤ m.endTime ∧ bEndTime dk ≤ m.endTime
    ∧ m.startTime ≤ dj.startTime ∧ m.startTime ≤ dk.startTime
  disjoint : migs.Pairwise (fun a b => a.source = b.source → a.dest = b.dest →
    ¬ (ETime.fin b.endTime < a.startTime ∧ ETime.fin a.endTime < b.startTime))
  ingress : ∀ d ∈ D, ∀ t, ingressOk (qsumS ((migs.filter (fun m => decide (m.dest = d.name) && covers t m)).map
    (fun m => rateQ m.rate))) = true

/-- a pulse of the document -/
structure DPulseWF (D : List BDeme) (p : BPulse) : Prop where
  shape : ∃ q, ∃ dj ∈ D, ∃ dk ∈ D, p.sources = [dk.name] ∧ p.dest = dj.name ∧ dk.name ≠ dj.name
    ∧ p.proportions = [q] ∧ 0 < q ∧ q ≤ 1 ∧ 0 < p.time
    ∧ bEndTime dj < p.time ∧ bEndTime dk ≤ p.time
    ∧ ETime.fin p.time < dj.startTime ∧ ETime.fin p.time < dk.startTime

/-- **the well-formed document** -/
structure DocWF (doc : MsDoc) : Prop where
  ne : doc.demes ≠ []
  nodup : (doc.demes.map (·.name)).Nodup
  sorted : doc.demes.Pairwise (fun a b => b.startTime ≤ a.startTime)
  demes : ∀ d ∈ doc.demes, DDemeWF doc.demes d
  migs : DMigsWF doc.demes doc.migrations
  pulses : ∀ p ∈ doc.pulses.getD [], DPulseWF doc.demes p

/-! ## common lemmas -/

theorem szToQ_exact (tab : List (Sz × Q)) {z : Sz} (h : z.expo = 0) : szToQ tab z = z.coef := by
  unfold szToQ Sz.isExact
  simp [h]

/-- the deme of the explicit graph with a given name -/
theorem findDeme_doc (tab : List (Sz × Q)) {doc : MsDoc} (hnd : (doc.demes.map (·.name)).Nodup)
    {d : BDeme} (hd : d ∈ doc.demes) : findDeme (docGraph tab doc) d.name = some (docDeme tab d) := by
  unfold findDeme
  show (doc.demes.map (docDeme tab)).find? _ = _
  generalize doc.demes = D at hnd hd
  induction D with
  | nil => cases hd
  | cons x xs ih =>
    rw [List.map_cons, List.nodup_cons] at hnd
    rw [List.map_cons, List.find?_cons]
    rcases List.mem_cons.1 hd with rfl | hd'
    · have : decide ((docDeme tab d).name = d.name) = true := by simp [docDeme]
      rw [this]
    · have hne : x.name ≠ d.name := by
        intro e
        exact hnd.1 (e ▸ List.mem_map.2 ⟨d, hd', rfl⟩)
      have : decide ((docDeme tab x).name = d.name) = false := by simp [docDeme, hne]
      rw [this]
      exact ih hnd.2 hd'

/-- a name that `findDeme` resolves is the name of a deme of the document -/
theorem findDeme_doc_some (tab : List (Sz × Q)) {doc : MsDoc} {n : String} {x : Deme}
    (h : findDeme (docGraph tab doc) n = some x) : ∃ d ∈ doc.demes, d.name = n ∧ x = docDeme tab d := by
  unfold findDeme at h
  have hm := List.mem_of_find?_eq_some h
  have hp := List.find?_some h
  obtain ⟨d, hd, rfl⟩ := List.mem_map.1 (show x ∈ doc.demes.map (docDeme tab) from hm)
  exact ⟨d, hd, of_decide_eq_true hp, rfl⟩

theorem epochsOf_getLast (tab : List (Sz × Q)) : ∀ (es : List BEpoch) (st : ETime),
    (epochsOf tab st es).getLast?.map (·.endTime) = es.getLast?.map (·.endTime) := by
  intro es
  induction es with
  | nil => intro _; rfl
  | cons e r ih =>
    intro st
    cases r with
    | nil => rfl
    | cons e' r' =>
      have := ih (.fin e.endTime)
      rw [epochsOf_cons, epochsOf_cons] at *
      rw [List.getLast?_cons_cons, List.getLast?_cons_cons]
      exact this

/-- `Deme.end_time` of the explicit deme is the end time of the last Builder epoch -/
theorem docDeme_endTime (tab : List (Sz × Q)) (d : BDeme) : (docDeme tab d).endTime = bEndTime d := by
  unfold Deme.endTime Deme.endTime? bEndTime
  show ((epochsOf tab d.startTime d.epochs).getLast?.map (·.endTime)).getD 0 = _
  rw [epochsOf_getLast]

theorem docDeme_name (tab : List (Sz × Q)) (d : BDeme) : (docDeme tab d).name = d.name := rfl
theorem docDeme_startTime (tab : List (Sz × Q)) (d : BDeme) : (docDeme tab d).startTime = d.startTime := rfl

/-- the last epoch ends no later than any epoch (strictly decreasing end times) -/
theorem bEndTime_le_of_mem {d : BDeme} (ht : (d.epochs.map (·.endTime)).Pairwise (fun a b => b < a))
    {e : BEpoch} (he : e ∈ d.epochs) : bEndTime d ≤ e.endTime := by
  unfold bEndTime
  generalize d.epochs = es at ht he
  induction es generalizing e with
  | nil => cases he
  | cons x r ih =>
    rw [List.map_cons, List.pairwise_cons] at ht
    cases r with
    | nil =>
      rcases List.mem_cons.1 he with rfl | h
      · simp
      · cases h
    | cons y r' =>
      rw [List.getLast?_cons_cons]
      rcases List.mem_cons.1 he with rfl | h
      · have hy := ih ht.2 (List.mem_cons_self)
        have hlt := ht.1 y.endTime (by simp)
        grind
      · exact ih ht.2 h

/-! ## `deme{j+1}` is an identifier -/

theorem isIdentifier_demeName (j : Nat) : isIdentifier (Ms.demeName j) = true := by
  have h : (Ms.demeName j).toList = "deme".toList ++ Nat.toDigits 10 (j + 1) := by
    unfold Ms.demeName
    show ("deme" ++ toString (j + 1)).toList = _
    rw [String.toList_append, MsPrint.toList_toString_nat]
  unfold isIdentifier
  rw [h]
  show (isIdStart 'd' && (['e', 'm', 'e'] ++ Nat.toDigits 10 (j + 1)).all isIdCont) = true
  rw [List.all_append]
  have hd : (Nat.toDigits 10 (j + 1)).all isIdCont = true := by
    rw [List.all_eq_true]
    intro c hc
    have := List.all_eq_true.1 (MsPrint.all_digit_toDigits (j + 1)) c hc
    unfold isIdCont Char.isAlphanum
    simp [this]
  rw [hd]
  decide

/-! ## the easy clauses and the shape -/

theorem doc_v0 (tab : List (Sz × Q)) (doc : MsDoc) : v0 (docGraph tab doc) = true := by
  unfold v0
  show ((doc.demes.map (·.name)).zipIdx == ((doc.demes.map (docDeme tab)).zipIdx.map (fun (d, i) => (d.name, i)))) = true
  rw [beq_iff_eq]
  rw [List.zipIdx_map, List.zipIdx_map, List.map_map]
  rfl

theorem doc_v13 (tab : List (Sz × Q)) (doc : MsDoc) : v13 (docGraph tab doc) = true := by
  unfold v13 docGraph
  dsimp only
  simp

theorem docShape_of_wf {doc : MsDoc} (h : DocWF doc) : DocShape doc := by
  refine ⟨h.ne, fun d hd => (h.demes d hd).ne, ?_, fun d hd e he => ((h.demes d hd).closed e he).1, ?_, ?_⟩
  · intro d hd e he
    obtain ⟨_, z, hz, _⟩ := (h.demes d hd).closed e he
    rw [hz]; rfl
  · intro m hm
    obtain ⟨q, _, _, _, _, _, _, _, hq, _⟩ := h.migs.shape m hm
    exact ⟨q, hq⟩
  · intro m hm
    obtain ⟨q, dj, hdj, dk, hdk, hs, hd, _⟩ := h.migs.shape m hm
    exact ⟨hs ▸ List.mem_map.2 ⟨dk, hdk, rfl⟩, hd ▸ List.mem_map.2 ⟨dj, hdj, rfl⟩⟩

end Demes.Proofs.MsAcc
