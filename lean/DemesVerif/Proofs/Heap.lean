/-
  Heap abstraction: lemmas about `copy` (= `deepcopy_unaliased`), `unfold`, `walk`.
-/
import DemesVerif.Spec.C18
namespace Demes.Proofs.Heap
open Demes Demes.Heap Demes.Spec.C18

/-! ### `mapO` -/

theorem mapO_congr {α β} (f g : α → Option β) (xs : List α) (h : ∀ x ∈ xs, f x = g x) :
    mapO f xs = mapO g xs := by
  induction xs with
  | nil => rfl
  | cons x xs ih =>
    simp only [mapO]
    rw [h x (by simp), ih (fun y hy => h y (by simp [hy]))]

theorem mapO_cons_some {α β} (f : α → Option β) (x : α) (xs : List α) (ys : List β)
    (h : mapO f (x :: xs) = some ys) :
    ∃ y ys', ys = y :: ys' ∧ f x = some y ∧ mapO f xs = some ys' := by
  simp only [mapO] at h
  split at h
  · cases h
  · split at h
    · cases h
    · cases h; exact ⟨_, _, rfl, by assumption, by assumption⟩

theorem mapO_cons_of {α β} (f : α → Option β) (x : α) (xs : List α) (y : β) (ys : List β)
    (h1 : f x = some y) (h2 : mapO f xs = some ys) : mapO f (x :: xs) = some (y :: ys) := by
  simp only [mapO, h1, h2]

theorem mapO_length {α β} (f : α → Option β) : ∀ (xs : List α) (ys : List β),
    mapO f xs = some ys → ys.length = xs.length
  | [], ys, h => by simp only [mapO] at h; cases h; rfl
  | x :: xs, ys, h => by
    obtain ⟨y, ys', rfl, _, h2⟩ := mapO_cons_some f x xs ys h
    simp [mapO_length f xs ys' h2]

theorem mapO_mem {α β} (f : α → Option β) : ∀ (xs : List α) (ys : List β),
    mapO f xs = some ys → ∀ x ∈ xs, ∃ y ∈ ys, f x = some y
  | [], _, _, x, hx => by cases hx
  | x0 :: xs, ys, h, x, hx => by
    obtain ⟨y, ys', rfl, h1, h2⟩ := mapO_cons_some f x0 xs ys h
    rcases List.mem_cons.mp hx with rfl | hx
    · exact ⟨y, by simp, h1⟩
    · obtain ⟨y', hy', e⟩ := mapO_mem f xs ys' h2 x hx
      exact ⟨y', by simp [hy'], e⟩

theorem mapO_getElem {α β} (f : α → Option β) : ∀ (xs : List α) (ys : List β),
    mapO f xs = some ys → ∀ (i : Nat) x, xs[i]? = some x → ∃ y, ys[i]? = some y ∧ f x = some y
  | [], _, _, i, x, hx => by simp at hx
  | x0 :: xs, ys, h, i, x, hx => by
    obtain ⟨y, ys', rfl, h1, h2⟩ := mapO_cons_some f x0 xs ys h
    cases i with
    | zero => simp at hx; subst hx; exact ⟨y, by simp, h1⟩
    | succ i => simpa using mapO_getElem f xs ys' h2 i x (by simpa using hx)

/-! ### induction principles for `mapRefsM` and `copy` -/

theorem mapRefsM_induct {σ} (f : σ → Ref → Option (σ × Ref))
    (PL : σ → List Ref → σ → List Ref → Prop)
    (nil : ∀ s, PL s [] s [])
    (cons : ∀ s r rs s1 r' s2 rs', f s r = some (s1, r') → mapRefsM f s1 rs = some (s2, rs') →
      PL s1 rs s2 rs' → PL s (r :: rs) s2 (r' :: rs')) :
    ∀ rs s s' rs', mapRefsM f s rs = some (s', rs') → PL s rs s' rs'
  | [], s, s', rs', h => by
    simp only [mapRefsM, Option.some.injEq, Prod.mk.injEq] at h
    obtain ⟨rfl, rfl⟩ := h; exact nil s
  | r :: rs, s, s', rs', h => by
    simp only [mapRefsM] at h
    split at h
    · cases h
    · rename_i s1 r1 h1
      split at h
      · cases h
      · rename_i s2 rs2 h2
        simp only [Option.some.injEq, Prod.mk.injEq] at h
        obtain ⟨rfl, rfl⟩ := h
        exact cons s r rs s1 r1 s2 rs2 h1 h2 (mapRefsM_induct f PL nil cons rs s1 s2 rs2 h2)

/-- case analysis of a successful copy -/
theorem copy_cases (n : Nat) (s : Store) (r : Ref) (s' : Store) (r' : Ref)
    (h : copy n s r = some (s', r')) :
    (∃ v, r = .atom v ∧ s' = s ∧ r' = .atom v) ∨
    (∃ m a c s1 rs1, n = m + 1 ∧ r = .addr a ∧ s[a]? = some c ∧
      mapRefsM (copy m) s c.refs = some (s1, rs1) ∧ s' = s1 ++ [c.rebuild rs1] ∧ r' = .addr s1.length) := by
  cases r with
  | atom v =>
    cases n <;> simp only [copy, Option.some.injEq, Prod.mk.injEq] at h <;>
      exact Or.inl ⟨v, rfl, h.1.symm, h.2.symm⟩
  | addr a =>
    cases n with
    | zero => simp [copy] at h
    | succ m =>
      simp only [copy] at h
      split at h
      · cases h
      · rename_i c hc
        split at h
        · cases h
        · rename_i s1 rs1 h1
          simp only [Option.some.injEq, Prod.mk.injEq] at h
          exact Or.inr ⟨m, a, c, s1, rs1, rfl, rfl, hc, h1, h.1.symm, h.2.symm⟩

/-- Induction over a successful copy: `P` for single references, `PL` for entry lists. -/
theorem copy_induct (P : Nat → Store → Ref → Store → Ref → Prop)
    (PL : Nat → Store → List Ref → Store → List Ref → Prop)
    (atom : ∀ n s v, P n s (.atom v) s (.atom v))
    (node : ∀ n s a c s1 rs1, s[a]? = some c → mapRefsM (copy n) s c.refs = some (s1, rs1) →
      PL n s c.refs s1 rs1 → P (n + 1) s (.addr a) (s1 ++ [c.rebuild rs1]) (.addr s1.length))
    (nil : ∀ n s, PL n s [] s [])
    (cons : ∀ n s r rs s1 r' s2 rs', copy n s r = some (s1, r') →
      mapRefsM (copy n) s1 rs = some (s2, rs') → P n s r s1 r' → PL n s1 rs s2 rs' →
      PL n s (r :: rs) s2 (r' :: rs')) :
    ∀ n s r s' r', copy n s r = some (s', r') → P n s r s' r' := by
  intro n
  induction n with
  | zero =>
    intro s r s' r' h
    rcases copy_cases 0 s r s' r' h with ⟨v, e1, e2, e3⟩ | ⟨m, _, _, _, _, hm, _⟩
    · rw [e1, e2, e3]; exact atom 0 s v
    · cases hm
  | succ n ih =>
    intro s r s' r' h
    rcases copy_cases (n + 1) s r s' r' h with ⟨v, e1, e2, e3⟩ | ⟨m, a, c, s1, rs1, hm, e1, hc, h1, e2, e3⟩
    · rw [e1, e2, e3]; exact atom (n + 1) s v
    · cases hm
      rw [e1, e2, e3]
      refine node n s a c s1 rs1 hc h1 ?_
      refine mapRefsM_induct (copy n) (PL n) (nil n) ?_ c.refs s s1 rs1 h1
      intro s r rs s1 r' s2 rs' hr hrs hpl
      exact cons n s r rs s1 r' s2 rs' hr hrs (ih s r s1 r' hr) hpl

/-- the list part of `copy_induct` -/
theorem copyList_induct (P : Nat → Store → Ref → Store → Ref → Prop)
    (PL : Nat → Store → List Ref → Store → List Ref → Prop)
    (hP : ∀ n s r s' r', copy n s r = some (s', r') → P n s r s' r')
    (nil : ∀ n s, PL n s [] s [])
    (cons : ∀ n s r rs s1 r' s2 rs', copy n s r = some (s1, r') →
      mapRefsM (copy n) s1 rs = some (s2, rs') → P n s r s1 r' → PL n s1 rs s2 rs' →
      PL n s (r :: rs) s2 (r' :: rs')) :
    ∀ n rs s s' rs', mapRefsM (copy n) s rs = some (s', rs') → PL n s rs s' rs' := by
  intro n
  refine mapRefsM_induct (copy n) (PL n) (nil n) ?_
  intro s r rs s1 r' s2 rs' hr hrs hpl
  exact cons n s r rs s1 r' s2 rs' hr hrs (hP n s r s1 r' hr) hpl


/-! ### `fold` (hence `unfold`, `walk`) -/

theorem mapO_mono {α β} (f g : α → Option β) : ∀ (xs : List α) (ys : List β),
    (∀ x ∈ xs, ∀ y, f x = some y → g x = some y) → mapO f xs = some ys → mapO g xs = some ys
  | [], ys, _, h => by simpa [mapO] using h
  | x :: xs, ys, hfg, h => by
    obtain ⟨y, ys', rfl, h1, h2⟩ := mapO_cons_some f x xs ys h
    exact mapO_cons_of g x xs y ys' (hfg x (by simp) y h1)
      (mapO_mono f g xs ys' (fun z hz => hfg z (by simp [hz])) h2)

section fold
variable {β : Type} (leaf : Value → β) (node : Addr → Cell → List β → β)

theorem fold_addr_some (n : Nat) (s : Store) (a : Addr) (v : β)
    (h : fold leaf node n s (.addr a) = some v) :
    ∃ m c vs, n = m + 1 ∧ s[a]? = some c ∧ mapO (fold leaf node m s) c.refs = some vs ∧ v = node a c vs := by
  cases n with
  | zero => simp [fold] at h
  | succ m =>
    simp only [fold] at h
    split at h
    · cases h
    · rename_i c hc
      cases hm : mapO (fold leaf node m s) c.refs with
      | none => simp [hm] at h
      | some vs =>
        simp only [hm, Option.map_some, Option.some.injEq] at h
        exact ⟨m, c, vs, rfl, hc, hm, h.symm⟩

theorem fold_addr_of (m : Nat) (s : Store) (a : Addr) (c : Cell) (vs : List β)
    (hc : s[a]? = some c) (h : mapO (fold leaf node m s) c.refs = some vs) :
    fold leaf node (m + 1) s (.addr a) = some (node a c vs) := by
  simp only [fold, hc, h, Option.map_some]

/-- more objects (and the same old ones) never change a successful evaluation -/
theorem fold_mono (s s' : Store) (hs : ∀ (a : Nat) (c : Cell), s[a]? = some c → s'[a]? = some c) :
    ∀ n r v, fold leaf node n s r = some v → fold leaf node n s' r = some v := by
  intro n
  induction n with
  | zero =>
    intro r v h
    cases r with
    | atom w => simpa [fold] using h
    | addr a => simp [fold] at h
  | succ n ih =>
    intro r v h
    cases r with
    | atom w => simpa [fold] using h
    | addr a =>
      obtain ⟨m, c, vs, hm, hc, hvs, rfl⟩ := fold_addr_some leaf node (n + 1) s a v h
      cases hm
      exact fold_addr_of leaf node n s' a c vs (hs a c hc)
        (mapO_mono _ _ c.refs vs (fun x _ y hy => ih x y hy) hvs)

/-- evaluation only looks at a closed set of objects containing the root -/
theorem fold_sameOn (P : Addr → Prop) (s s' : Store) (hcl : ClosedOn P s) (hsame : SameOn P s s') :
    ∀ n r, RefIn P r → fold leaf node n s' r = fold leaf node n s r := by
  intro n
  induction n with
  | zero => intro r _; cases r <;> simp [fold]
  | succ n ih =>
    intro r hr
    cases r with
    | atom w => simp [fold]
    | addr a =>
      simp only [fold, hsame a hr]
      cases hc : s[a]? with
      | none => rfl
      | some c =>
        simp only
        rw [mapO_congr _ _ c.refs (fun x hx => ih x (hcl a c hr hc x hx))]

end fold

theorem getElem?_append_some {α} (s t : List α) (a : Nat) (c : α) (h : s[a]? = some c) :
    (s ++ t)[a]? = some c := by
  have hlt : a < s.length := by
    rcases Nat.lt_or_ge a s.length with h' | h'
    · exact h'
    · rw [List.getElem?_eq_none h'] at h; cases h
  rw [List.getElem?_append_left hlt]; exact h

theorem fold_ext {β : Type} (leaf : Value → β) (node : Addr → Cell → List β → β) (s t : Store) :
    ∀ n r v, fold leaf node n s r = some v → fold leaf node n (s ++ t) r = some v :=
  fold_mono leaf node s (s ++ t) (fun a c h => getElem?_append_some s t a c h)

/-! ### the copy extends the store and has the same length of entries -/

theorem copy_ext : ∀ n s r s' r', copy n s r = some (s', r') → ∃ t, s' = s ++ t :=
  copy_induct (fun _ s _ s' _ => ∃ t, s' = s ++ t) (fun _ s _ s' _ => ∃ t, s' = s ++ t)
    (fun _ s _ => ⟨[], by simp⟩)
    (fun _ s _ c s1 rs1 _ _ ⟨t, ht⟩ => ⟨t ++ [c.rebuild rs1], by rw [ht]; simp⟩)
    (fun _ s => ⟨[], by simp⟩)
    (fun _ s _ _ s1 _ s2 _ _ _ ⟨t1, h1⟩ ⟨t2, h2⟩ => ⟨t1 ++ t2, by rw [h2, h1]; simp⟩)

theorem copyList_ext : ∀ n rs s s' rs', mapRefsM (copy n) s rs = some (s', rs') → ∃ t, s' = s ++ t :=
  copyList_induct (fun _ s _ s' _ => ∃ t, s' = s ++ t) (fun _ s _ s' _ => ∃ t, s' = s ++ t)
    copy_ext (fun _ s => ⟨[], by simp⟩)
    (fun _ s _ _ s1 _ s2 _ _ _ ⟨t1, h1⟩ ⟨t2, h2⟩ => ⟨t1 ++ t2, by rw [h2, h1]; simp⟩)

theorem copy_length_le (n s r s' r') (h : copy n s r = some (s', r')) : s.length ≤ s'.length := by
  obtain ⟨t, rfl⟩ := copy_ext n s r s' r' h; simp

theorem copyList_length_le (n rs s s' rs') (h : mapRefsM (copy n) s rs = some (s', rs')) :
    s.length ≤ s'.length := by
  obtain ⟨t, rfl⟩ := copyList_ext n rs s s' rs' h; simp

theorem copyList_length : ∀ n rs s s' rs', mapRefsM (copy n) s rs = some (s', rs') →
    rs'.length = rs.length := by
  intro n
  exact mapRefsM_induct (copy n) (fun _ rs _ rs' => rs'.length = rs.length) (fun _ => rfl)
    (fun _ _ _ _ _ _ _ _ _ ih => by simp [ih])

theorem rebuild_refs (c : Cell) (rs : List Ref) (h : rs.length = c.refs.length) :
    (c.rebuild rs).refs = rs := by
  cases c with
  | list xs => rfl
  | dict kvs =>
    simp only [Cell.rebuild, Cell.refs]
    simp only [Cell.refs, List.length_map] at h
    rw [← List.unzip_snd, List.unzip_zip (by simp [h])]

theorem rebuild_value (c : Cell) (rs : List Ref) (vs : List Value) (h : rs.length = c.refs.length) :
    (c.rebuild rs).value vs = c.value vs := by
  cases c with
  | list xs => rfl
  | dict kvs =>
    simp only [Cell.rebuild, Cell.value]
    simp only [Cell.refs, List.length_map] at h
    rw [← List.unzip_fst, List.unzip_zip (by simp [h])]

end Demes.Proofs.Heap
