/-
  C07 — `okEv_finalEvs`: every option of the emitted command is well addressed in the state the
  options before it produce.
-/
import DemesVerif.Proofs.ToMsAlive3
set_option linter.unusedSimpArgs false
set_option linter.unusedVariables false
namespace Demes.Proofs.ToMs
open Demes Demes.Ms Demes.Spec Demes.Spec.C07 Demes.Proofs.RV

theorem sorted_byQ_finalEvs {g : Graph} (c : Clauses g) (hx : MsExpressible g = true) {N0 : Q} (hN : 0 < N0) :
    Sorted byQ (finalEvs g N0) := by
  refine (sorted_finalEvs c hx hN).imp ?_
  intro a b h
  simp [byQ, h]

theorem filter_filter_of {α} (p q r : α → Bool) (l : List α) (h : ∀ x ∈ l, p x = (r x && q x)) :
    l.filter p = (l.filter r).filter q := by
  rw [List.filter_filter]
  apply List.filter_congr
  intro x hx
  rw [h x hx, Bool.and_comm]

section
variable {g : Graph} (c : Clauses g) (hx : MsExpressible g = true) {N0 : Q} (hN : 0 < N0)
include c hx hN

/-- a graph population addressed by an option that is not `-es` / `-ej` has not been joined -/
theorem noJoin_time {pre post : List (Event Growth)} {e : Event Growth} (hfin : finalEvs g N0 = pre ++ e :: post)
    (hsj : isSplitJoin e = false) {i : Int} (hi : i ∈ targets e) :
    1 ≤ i ∧ i ≤ (g.demes.length : Int) ∧ ∀ x ∈ pre, isJoinOf i x = false := by
  have h4 : (0 : Q) < 4 * N0 := by grind
  have he : e ∈ finalEvs g N0 := by rw [hfin]; simp
  obtain ⟨y, hy, rfl⟩ := finalEvs_mem c hx he
  rw [isSplitJoin_scale] at hsj
  rw [targets_scale] at hi
  obtain ⟨h1, h2, d, q, hd, hq, hlt⟩ := targetTime c hx hy hsj hi
  refine ⟨h1, h2, ?_⟩
  intro x hxp
  cases x with
  | join o t i' j =>
    simp only [isJoinOf, decide_eq_false_iff_not]
    intro hii
    subst hii
    have hxf : Event.join o t i' j ∈ finalEvs g N0 := by rw [hfin]; exact List.mem_append_left _ hxp
    obtain ⟨y', hy', hxy⟩ := finalEvs_mem c hx hxf
    cases y' with
    | join o' t' i'' j' =>
      simp only [scaleEv, Event.setT, Event.join.injEq] at hxy
      obtain ⟨ho, hts, hi2, hj2⟩ := hxy
      subst hi2
      obtain ⟨d', q', hd', hst', ht'⟩ := joinTime c hx hy' h1 h2
      rw [hd] at hd'; cases hd'
      rw [hst'] at hlt
      have hqq : q < q' := hlt
      -- sortedness puts the `-ej` after `e`
      have hs := sorted_byQ_finalEvs c hx hN
      rw [hfin] at hs
      unfold Sorted at hs
      rw [List.pairwise_append] at hs
      have := hs.2.2 _ hxp _ List.mem_cons_self
      have hex : evT (Event.join o t i' j) = q' / (4 * N0) := by rw [hts, ht']; rfl
      have hee : evT (scaleEv N0 y) = q / (4 * N0) := evT_of_good (t_scale hq)
      simp only [byQ, decide_eq_true_eq] at this
      rw [hex, hee] at this
      have := (InGen.div_le_div h4).1 this
      grind
    | _ => simp [scaleEv, Event.setT] at hxy
  | _ => rfl

/-- a graph population addressed by an `-es` / `-ej` option has not been joined -/
theorem noJoin_anc {pre post : List (Event Growth)} {e : Event Growth} (hfin : finalEvs g N0 = pre ++ e :: post)
    (hsj : isSplitJoin e = true) {i : Int} (hi : i ∈ targets e) (hile : i ≤ (g.demes.length : Int)) :
    ∀ x ∈ pre, isJoinOf i x = false := by
  have hF := finalEvs_filter_splitJoin c hx hN
  rw [hfin, List.filter_append, List.filter_cons, hsj, if_pos rfl] at hF
  obtain ⟨l1, l2, hl, hl1, hl2⟩ := List.map_eq_append_iff.1 hF.symm
  obtain ⟨e', l2', rfl, he', _⟩ := List.map_eq_cons_iff.1 hl2
  have hord := ancOrder c hx (dps g) g.demes.length (goodXs_dps c) (Nat.le_refl _) l1 e' l2' hl i
    (by rw [← targets_scale N0, he']; exact hi) hile
  intro x hxp
  cases hj : isJoinOf i x with
  | false => rfl
  | true =>
    have hxsj : isSplitJoin x = true := by cases x <;> simp [isJoinOf] at hj <;> rfl
    have : x ∈ pre.filter isSplitJoin := List.mem_filter.2 ⟨hxp, hxsj⟩
    rw [← hl1] at this
    obtain ⟨x1, hx1, rfl⟩ := List.mem_map.1 this
    rw [isJoinOf_scale] at hj
    rw [hord x1 hx1] at hj
    cases hj

/-- a graph population addressed by an option of the command is alive when the option is read -/
theorem alive_target {pre post : List (Event Growth)} {e : Event Growth} (hfin : finalEvs g N0 = pre ++ e :: post)
    {i : Int} (hi : i ∈ targets e) (h1 : 1 ≤ i) (h2 : i ≤ (g.demes.length : Int)) :
    AliveIn (runP N0 (s0Of N0 g.demes.length) pre) i := by
  apply alive_orig h1 h2
  intro x hxp
  have hxf : x ∈ finalEvs g N0 := by rw [hfin]; exact List.mem_append_left _ hxp
  cases hj : isJoinIdx (idx i) x with
  | false => rfl
  | true =>
    have h' := isJoinIdx_of h1 (join_pos_finalEvs c hx hxf) hj
    cases hsj : isSplitJoin e with
    | false => rw [(noJoin_time c hx hN hfin hsj hi).2.2 x hxp] at h'; cases h'
    | true => rw [noJoin_anc c hx hN hfin hsj hi h2 x hxp] at h'; cases h'

/-- the population created by the `-es` before an `-ej n+1 …` is alive when the `-ej` is read -/
theorem alive_new {pre post : List (Event Growth)} {o : String} {t : Num} {i j : Int}
    (hfin : finalEvs g N0 = pre ++ Event.join o t i j :: post) (hlt : (g.demes.length : Int) < i) :
    AliveIn (runP N0 (s0Of N0 g.demes.length) pre) i := by
  have hF := finalEvs_filter_splitJoin c hx hN
  have hwn : wellNumbered g.demes.length g.demes.length ((finalEvs g N0).filter isSplitJoin) = true := by
    rw [hF]; exact wellNumbered_ancEvs N0 _ _ (dpOk_of_valid c hx)
  have hdec : (finalEvs g N0).filter isSplitJoin
      = pre.filter isSplitJoin ++ Event.join o t i j :: post.filter isSplitJoin := by
    rw [hfin, List.filter_append, List.filter_cons]; rfl
  obtain ⟨A', sp, hA, hsp, hi⟩ := wn_join_new _ _ _ hwn _ o t i j _ hdec hlt
  obtain ⟨a, b, hpre, ha, hb⟩ := filter_eq_append_singleton hA
  have hpref : ∀ x ∈ pre, x ∈ finalEvs g N0 := fun x hxp => by rw [hfin]; exact List.mem_append_left _ hxp
  -- the split is `-es t i₀ p` with a finite `p`
  have hspm : sp ∈ finalEvs g N0 := hpref sp (by rw [hpre]; simp)
  have hspsj : isSplitJoin sp = true := by cases sp <;> simp [isSplitEv] at hsp <;> rfl
  obtain ⟨ysp, _, hysp, hoksp⟩ := finalEvs_anc c hx hspm hspsj
  have hoksp' := ancEvOk_scale (N0 := N0) hoksp
  rw [← hysp] at hoksp'
  obtain ⟨o', t', i0, y, rfl⟩ : ∃ o' t' i0 y, sp = Event.split o' t' i0 (.fin y) := by
    cases sp with
    | split o' t' i0 p =>
      obtain ⟨_, ⟨y, rfl, _⟩, _⟩ := hoksp'
      exact ⟨o', t', i0, y, rfl⟩
    | _ => simp [isSplitEv] at hsp
  -- number of populations before the split
  have hcount : (a.filter isSplitFin).length = (A'.filter isSplitEv).length := by
    rw [← ha, filter_filter_of isSplitFin isSplitEv isSplitJoin a]
    intro x hxa
    have hxf : x ∈ finalEvs g N0 := hpref x (by rw [hpre]; exact List.mem_append_left _ hxa)
    cases hsj : isSplitJoin x with
    | false => cases x <;> simp [isSplitJoin] at hsj <;> rfl
    | true =>
      obtain ⟨yx, _, hyx, hokx⟩ := finalEvs_anc c hx hxf hsj
      have hokx' := ancEvOk_scale (N0 := N0) hokx
      rw [← hyx] at hokx'
      cases x with
      | split o1 t1 i1 p1 =>
        obtain ⟨_, ⟨y1, rfl, _⟩, _⟩ := hokx'
        rfl
      | _ => rfl
  have hlen : (runP N0 (s0Of N0 g.demes.length) a).pops.length = idx i := by
    rw [runP_len, hcount]
    have : (s0Of N0 g.demes.length).pops.length = g.demes.length := by simp [s0Of]
    rw [this]
    unfold idx
    omega
  have h1 : 1 ≤ i := by omega
  refine ⟨h1, ?_⟩
  rw [hpre, runP_append, runP_cons]
  have hnew := stepP_split_new N0 (runP N0 (s0Of N0 g.demes.length) a) o' t' i0 y
  rw [hlen] at hnew
  refine ⟨_, runP_pops_get b hnew, ?_⟩
  have : b.filter (isJoinIdx (idx i)) = [] := by
    rw [List.filter_eq_nil_iff]
    intro x hxb hj
    have : x ∈ b.filter isSplitJoin := List.mem_filter.2 ⟨hxb, by cases x <;> simp [isJoinIdx] at hj <;> rfl⟩
    rw [hb] at this; cases this
  simp [hiFrom, this]

/-- every option of the emitted command is well addressed when it is read -/
theorem okEv_finalEvs {pre post : List (Event Growth)} {e : Event Growth} (hfin : finalEvs g N0 = pre ++ e :: post) :
    OkEv (runP N0 (s0Of N0 g.demes.length) pre) e := by
  have he : e ∈ finalEvs g N0 := by rw [hfin]; simp
  obtain ⟨q, hq, _⟩ := (evGood_finalEvs c hx hN he).time
  cases hsj : isSplitJoin e with
  | true =>
    obtain ⟨y, _, hy, hok⟩ := finalEvs_anc c hx he hsj
    have hok' := ancEvOk_scale (N0 := N0) hok
    rw [← hy] at hok'
    cases e with
    | split o t i p =>
      obtain ⟨ht, hp, h1, h2⟩ := hok'
      exact ⟨ht, hp, alive_target c hx hN hfin (by simp [targets]) h1 h2⟩
    | join o t i j =>
      obtain ⟨ht, h1, hj1, hj2, hne⟩ := hok'
      refine ⟨ht, ?_, alive_target c hx hN hfin (by simp [targets]) hj1 hj2, hne⟩
      by_cases hle : i ≤ (g.demes.length : Int)
      · exact alive_target c hx hN hfin (by simp [targets]) h1 hle
      · exact alive_new c hx hN hfin (by omega)
    | _ => simp [isSplitJoin] at hsj
  | false =>
    have halive : ∀ i ∈ targets e, AliveIn (runP N0 (s0Of N0 g.demes.length) pre) i := fun i hi => by
      obtain ⟨h1, h2, _⟩ := noJoin_time c hx hN hfin hsj hi
      exact alive_target c hx hN hfin hi h1 h2
    obtain ⟨y, hy, rfl⟩ := finalEvs_mem c hx he
    rcases mem_rawEvs hy with h | h | h
    · obtain ⟨dj, _, e', _, h'⟩ := mem_sizeEvsAll h
      rcases h' with rfl | rfl
      · exact ⟨⟨_, rfl⟩, ⟨_, rfl⟩, halive _ (by simp [targets, scaleEv, Event.setT])⟩
      · exact ⟨⟨_, rfl⟩, halive _ (by simp [targets, scaleEv, Event.setT])⟩
    · rw [isSplitJoin_scale, splitJoin_ancEvs h] at hsj; cases hsj
    · have hne : ∀ m ∈ g.migrations, idOf g m.dest ≠ idOf g m.source := by
        intro m hm heq
        have hok := migOk_of_valid c hm
        have := idOf_inj hok.destId hok.sourceId heq
        have h8 := c.h8
        simp only [v8, List.all_eq_true, Bool.and_eq_true, bne_iff_ne, ne_eq] at h8
        exact (h8 m hm).1 this.symm
      simp only [migEvs, List.mem_append, migOffs, migOns, List.mem_map, List.mem_filter] at h
      rcases h with ⟨m, ⟨hm, hc⟩, rfl⟩ | ⟨m, hm, rfl⟩
      · cases hst : m.startTime with
        | inf => simp [offCond, hst, ETime.isInf] at hc
        | fin st =>
          have hE : scaleEv N0 (migOff g m) = .migEntryChange "" (.fin (st / (4 * N0))) (idOf g m.dest) (idOf g m.source) (.fin 0) := by
            simp [scaleEv, migOff, Event.setT, Event.t, hst, Num.ofETime, numDivQ]
          rw [hE] at halive ⊢
          exact ⟨⟨_, rfl⟩, ⟨_, rfl⟩, halive _ (by simp [targets]), halive _ (by simp [targets]), hne m hm⟩
      · exact ⟨⟨_, rfl⟩, ⟨_, rfl⟩, halive _ (by simp [targets, scaleEv, Event.setT, migOn]),
          halive _ (by simp [targets, scaleEv, Event.setT, migOn]), hne m hm⟩

end

end Demes.Proofs.ToMs
