/-
  C07 — the `-es` / `-ej` options of one time group of the emitted command.
-/
import DemesVerif.Proofs.ToMsGroups
import DemesVerif.Proofs.ToMsRowAgree
import DemesVerif.Proofs.ToMsCanon
set_option linter.unusedSimpArgs false
set_option linter.unusedVariables false
namespace Demes.Proofs.ToMs
open Demes Demes.Ms Demes.Spec Demes.Spec.C07 Demes.Proofs.RV
open Demes.Spec.MsSem

/-! ### `dps` split at a time -/

def dpsLt (g : Graph) (T : Q) : List DemeOrPulse := (dps g).filter (fun x => decide (x.key < ETime.fin T))
def dpsEq (g : Graph) (T : Q) : List DemeOrPulse := (dps g).filter (fun x => decide (x.key = ETime.fin T))
def dpsGt (g : Graph) (T : Q) : List DemeOrPulse := (dps g).filter (fun x => decide (ETime.fin T < x.key))

theorem et_trichotomy (a b : ETime) : (a < b ∧ a ≠ b ∧ ¬ b < a) ∨ (¬ a < b ∧ a = b ∧ ¬ b < a) ∨ (¬ a < b ∧ a ≠ b ∧ b < a) := by
  cases a <;> cases b <;>
    simp only [InGen.fin_lt_fin, InGen.fin_le_fin, InGen.le_inf, InGen.inf_lt, InGen.inf_le_fin, InGen.fin_lt_inf,
      ne_eq, ETime.fin.injEq, reduceCtorEq, not_false_eq_true, not_true_eq_false, and_true, and_false, true_and,
      false_and, or_false, false_or, or_true]
  rename_i x y
  by_cases h1 : x < y
  · left; refine ⟨h1, ?_, ?_⟩ <;> grind
  · by_cases h2 : x = y
    · right; left; refine ⟨h1, h2, ?_⟩; grind
    · right; right; refine ⟨h1, h2, ?_⟩; grind

theorem dps_three_way (g : Graph) (T : Q) : dps g = dpsLt g T ++ dpsEq g T ++ dpsGt g T := by
  unfold dpsLt dpsEq dpsGt
  apply three_way
  · intro x _
    simp only [decide_eq_true_eq, decide_eq_false_iff_not]
    rcases et_trichotomy x.key (ETime.fin T) with ⟨h1, h2, h3⟩ | ⟨h1, h2, h3⟩ | ⟨h1, h2, h3⟩
    · exact Or.inl ⟨h1, h2, h3⟩
    · exact Or.inr (Or.inl ⟨h1, h2, h3⟩)
    · exact Or.inr (Or.inr ⟨h1, h2, h3⟩)
  · refine (sorted_dps g).imp ?_
    intro a b hab
    have hab' : a.key ≤ b.key := of_decide_eq_true hab
    simp only [decide_eq_true_eq, decide_eq_false_iff_not]
    constructor
    · intro h hlt
      rw [h] at hab'
      exact et_lt_irrefl' hlt hab'
    · intro h
      constructor
      · intro hlt
        exact et_lt_irrefl' (et_lt_of_lt_of_le h hab') (et_le_of_lt hlt)
      · intro heq
        rw [heq] at hab'
        exact et_lt_irrefl' h hab'

/-! ### counting the splits -/

theorem countFold_eq (n : Nat) : ∀ (evs : List (Event Growth)), countFold n evs = n + (evs.filter isSplitFin).length
  | [] => rfl
  | e :: es => by
    rw [countFold, countFold_eq _ es, List.filter_cons]
    cases e with
    | split o t i p => cases p <;> simp [countStep, isSplitFin] <;> omega
    | _ => simp [countStep, isSplitFin]

theorem countFold_ancEvs (g : Graph) : ∀ (xs : List DemeOrPulse) (n : Nat), countFold n (ancEvs g n xs) = ancCount n xs
  | [], _ => rfl
  | .deme d :: r, n => by
    rw [ancEvs, ancCount]
    have : countFold n (ancDemeEvs g d n d.ancestors.zipIdx ++ ancEvs g (ancDemeCount d n d.ancestors.zipIdx) r)
        = countFold (countFold n (ancDemeEvs g d n d.ancestors.zipIdx)) (ancEvs g (ancDemeCount d n d.ancestors.zipIdx) r) := by
      generalize ancDemeEvs g d n d.ancestors.zipIdx = A
      generalize ancEvs g (ancDemeCount d n d.ancestors.zipIdx) r = B
      induction A generalizing n with
      | nil => rfl
      | cons a A ih => simp only [List.cons_append, countFold]; exact ih _
    rw [this, countFold_ancDemeEvs, countFold_ancEvs g r]
  | .pulse p :: r, n => by
    rw [ancEvs, ancCount]
    simp only [pulseEvs, List.cons_append, List.nil_append, countFold, countStep]
    exact countFold_ancEvs g r (n + 1)

theorem isSplitFin_scale (N0 : Q) (e : Event Growth) : isSplitFin (scaleEv N0 e) = isSplitFin e := by
  cases e with
  | split o t i p => cases p <;> rfl
  | _ => rfl

/-! ### a decomposition by time is unique -/

theorem time_parts_unique {cT : Q} {X1 X2 X3 Y1 Y2 Y3 : List (Event Growth)}
    (h : X1 ++ X2 ++ X3 = Y1 ++ Y2 ++ Y3)
    (hX1 : ∀ a ∈ X1, evT a < cT) (hX2 : ∀ a ∈ X2, evT a = cT) (hX3 : ∀ a ∈ X3, cT < evT a)
    (hY1 : ∀ a ∈ Y1, evT a < cT) (hY2 : ∀ a ∈ Y2, evT a = cT) (hY3 : ∀ a ∈ Y3, cT < evT a) :
    X1 = Y1 ∧ X2 = Y2 := by
  have key : ∀ {Z1 Z2 Z3 : List (Event Growth)}, (∀ a ∈ Z1, evT a < cT) → (∀ a ∈ Z2, evT a = cT) → (∀ a ∈ Z3, cT < evT a) →
      (Z1 ++ Z2 ++ Z3).filter (fun e => decide (evT e < cT)) = Z1
      ∧ (Z1 ++ Z2 ++ Z3).filter (fun e => decide (evT e = cT)) = Z2 := by
    intro Z1 Z2 Z3 h1 h2 h3
    simp only [List.filter_append]
    have a1 : Z1.filter (fun e => decide (evT e < cT)) = Z1 := by
      rw [List.filter_eq_self]; intro a ha; simp [h1 a ha]
    have a2 : Z2.filter (fun e => decide (evT e < cT)) = [] := by
      rw [List.filter_eq_nil_iff]; intro a ha; simp [h2 a ha]
    have a3 : Z3.filter (fun e => decide (evT e < cT)) = [] := by
      rw [List.filter_eq_nil_iff]; intro a ha; have := h3 a ha; simp; grind
    have b1 : Z1.filter (fun e => decide (evT e = cT)) = [] := by
      rw [List.filter_eq_nil_iff]; intro a ha; have := h1 a ha; simp; grind
    have b2 : Z2.filter (fun e => decide (evT e = cT)) = Z2 := by
      rw [List.filter_eq_self]; intro a ha; simp [h2 a ha]
    have b3 : Z3.filter (fun e => decide (evT e = cT)) = [] := by
      rw [List.filter_eq_nil_iff]; intro a ha; have := h3 a ha; simp; grind
    rw [a1, a2, a3, b1, b2, b3]; simp
  have kX := key hX1 hX2 hX3
  have kY := key hY1 hY2 hY3
  rw [h] at kX
  exact ⟨kX.1.symm.trans kY.1, kX.2.symm.trans kY.2⟩

end Demes.Proofs.ToMs
