import DemesVerif.Spec.C03
import DemesVerif.Proofs.FillPulse
namespace Demes.Proofs.Accepts
open Demes Demes.Spec

/-! ### a stable descending sort is unique -/

/-- two descending lists with the same per-key sublists are equal -/
theorem sorted_filter_unique {α} (key : α → Q) : ∀ (ys ys' : List α),
    ys.Pairwise (fun a b => key b ≤ key a) → ys'.Pairwise (fun a b => key b ≤ key a) →
    (∀ k : Q, ys.filter (fun a => key a = k) = ys'.filter (fun a => key a = k)) → ys = ys' := by
  intro ys
  induction ys with
  | nil =>
    intro ys' _ _ hf
    cases ys' with
    | nil => rfl
    | cons y' t' =>
      have h := hf (key y')
      simp only [List.filter_nil, List.filter_cons, decide_true, if_true] at h
      exact absurd h (by simp)
  | cons y t ih =>
    intro ys' hs hs' hf
    cases ys' with
    | nil =>
      have h := hf (key y)
      simp only [List.filter_nil, List.filter_cons, decide_true, if_true] at h
      exact absurd h (by simp)
    | cons y' t' =>
      rw [List.pairwise_cons] at hs hs'
      -- `y` occurs in `y' :: t'`, so `key y ≤ key y'`
      have h1 : key y ≤ key y' := by
        have hm : y ∈ (y' :: t').filter (fun a => key a = key y) := by
          rw [← hf (key y)]
          simp only [List.filter_cons, decide_true, if_true]
          exact List.mem_cons_self
        have hm' : y ∈ y' :: t' := (List.mem_filter.mp hm).1
        rcases List.mem_cons.mp hm' with e | e
        · rw [e]; exact Rat.le_refl
        · exact hs'.1 y e
      have h2 : key y' ≤ key y := by
        have hm : y' ∈ (y :: t).filter (fun a => key a = key y') := by
          rw [hf (key y')]
          simp only [List.filter_cons, decide_true, if_true]
          exact List.mem_cons_self
        have hm' : y' ∈ y :: t := (List.mem_filter.mp hm).1
        rcases List.mem_cons.mp hm' with e | e
        · rw [e]; exact Rat.le_refl
        · exact hs.1 y' e
      have hk : key y' = key y := Rat.le_antisymm h2 h1
      have hy : y = y' := by
        have h := hf (key y)
        simp only [List.filter_cons, hk, decide_true, if_true] at h
        exact (List.cons.inj h).1
      subst hy
      have ht : t = t' := by
        apply ih t' hs.2 hs'.2
        intro k
        have h := hf k
        simp only [List.filter_cons] at h
        by_cases hkk : key y = k
        · simp only [hkk, decide_true, if_true] at h
          exact (List.cons.inj h).2
        · simp only [hkk, decide_false] at h
          exact h
      rw [ht]

/-- a stable descending sort is unique -/
theorem stableSortedDesc_unique {α} (key : α → Q) {xs ys ys' : List α}
    (h : StableSortedDesc key xs ys) (h' : StableSortedDesc key xs ys') : ys = ys' :=
  sorted_filter_unique key ys ys' h.sorted h'.sorted (fun k => (h.stable k).trans (h'.stable k).symm)

/-! ### `placeAfterOlder` -/

theorem placeAfterOlder_nil {α} (key : α → Q) (x : α) : placeAfterOlder key x [] = [x] := rfl

theorem placeAfterOlder_cons_le {α} (key : α → Q) (x a : α) (acc : List α)
    (h : key x ≤ key a) : placeAfterOlder key x (a :: acc) = a :: placeAfterOlder key x acc := by
  simp only [placeAfterOlder, List.takeWhile_cons, List.dropWhile_cons, h, decide_true, if_true,
    List.cons_append]

theorem placeAfterOlder_cons_not_le {α} (key : α → Q) (x a : α) (acc : List α)
    (h : ¬ key x ≤ key a) : placeAfterOlder key x (a :: acc) = x :: a :: acc := by
  simp only [placeAfterOlder, List.takeWhile_cons, List.dropWhile_cons, h, decide_false]
  rfl

theorem placeAfterOlder_perm {α} (key : α → Q) (x : α) (acc : List α) :
    (placeAfterOlder key x acc).Perm (x :: acc) := by
  have h := @List.perm_middle α x (acc.takeWhile (fun y => decide (key x ≤ key y)))
    (acc.dropWhile (fun y => decide (key x ≤ key y)))
  rw [List.takeWhile_append_dropWhile] at h
  exact h

theorem placeAfterOlder_sorted {α} (key : α → Q) (x : α) : ∀ (acc : List α),
    acc.Pairwise (fun a b => key b ≤ key a) →
    (placeAfterOlder key x acc).Pairwise (fun a b => key b ≤ key a) := by
  intro acc
  induction acc with
  | nil => intro _; rw [placeAfterOlder_nil]; exact List.pairwise_singleton _ _
  | cons a acc ih =>
    intro hs
    rw [List.pairwise_cons] at hs
    by_cases h : key x ≤ key a
    · rw [placeAfterOlder_cons_le key x a acc h, List.pairwise_cons]
      refine ⟨?_, ih hs.2⟩
      intro b hb
      have hb' : b ∈ x :: acc := (placeAfterOlder_perm key x acc).mem_iff.mp hb
      rcases List.mem_cons.mp hb' with e | e
      · rw [e]; exact h
      · exact hs.1 b e
    · rw [placeAfterOlder_cons_not_le key x a acc h, List.pairwise_cons, List.pairwise_cons]
      have hax : key a ≤ key x := by grind
      refine ⟨?_, hs⟩
      intro b hb
      rcases List.mem_cons.mp hb with e | e
      · rw [e]; exact hax
      · exact Rat.le_trans (hs.1 b e) hax

theorem placeAfterOlder_filter {α} (key : α → Q) (x : α) (k : Q) : ∀ (acc : List α),
    acc.Pairwise (fun a b => key b ≤ key a) →
    (placeAfterOlder key x acc).filter (fun a => key a = k)
      = acc.filter (fun a => key a = k) ++ [x].filter (fun a => key a = k) := by
  intro acc
  induction acc with
  | nil => intro _; rw [placeAfterOlder_nil]; rfl
  | cons a acc ih =>
    intro hs
    rw [List.pairwise_cons] at hs
    by_cases h : key x ≤ key a
    · rw [placeAfterOlder_cons_le key x a acc h]
      by_cases hak : key a = k
      · have hp : (fun b : α => decide (key b = k)) a = true := by simpa using hak
        rw [List.filter_cons_of_pos (l := placeAfterOlder key x acc) hp,
          List.filter_cons_of_pos (l := acc) hp, ih hs.2]
        rfl
      · have hp : ¬ (fun b : α => decide (key b = k)) a = true := by simpa using hak
        rw [List.filter_cons_of_neg (l := placeAfterOlder key x acc) hp,
          List.filter_cons_of_neg (l := acc) hp, ih hs.2]
    · rw [placeAfterOlder_cons_not_le key x a acc h]
      by_cases hk : key x = k
      · have hnil : (a :: acc).filter (fun a => key a = k) = [] := by
          rw [List.filter_eq_nil_iff]
          intro b hb
          have hb' : key b ≤ key a := by
            rcases List.mem_cons.mp hb with e | e
            · rw [e]; exact Rat.le_refl
            · exact hs.1 b e
          have : key b ≠ k := by grind
          simpa using this
        rw [List.filter_cons, hnil]
        simp only [hk, decide_true, if_true, List.filter_cons, List.filter_nil, List.nil_append]
      · rw [List.filter_cons]
        simp only [hk, decide_false, List.filter_cons, List.filter_nil, Bool.false_eq_true,
          if_false, List.append_nil]

/-! ### the fold -/

theorem foldl_placeAfterOlder {α} (key : α → Q) : ∀ (xs acc : List α),
    acc.Pairwise (fun a b => key b ≤ key a) →
    (xs.foldl (fun acc x => placeAfterOlder key x acc) acc).Perm (acc ++ xs) ∧
    (xs.foldl (fun acc x => placeAfterOlder key x acc) acc).Pairwise (fun a b => key b ≤ key a) ∧
    ∀ k : Q, (xs.foldl (fun acc x => placeAfterOlder key x acc) acc).filter (fun a => key a = k)
      = acc.filter (fun a => key a = k) ++ xs.filter (fun a => key a = k) := by
  intro xs
  induction xs with
  | nil =>
    intro acc hs
    simp only [List.foldl_nil, List.append_nil, List.filter_nil]
    exact ⟨List.Perm.refl _, hs, fun _ => trivial⟩
  | cons x xs ih =>
    intro acc hs
    rw [List.foldl_cons]
    obtain ⟨hp, hso, hf⟩ := ih (placeAfterOlder key x acc) (placeAfterOlder_sorted key x acc hs)
    refine ⟨?_, hso, ?_⟩
    · refine hp.trans ?_
      have h1 : (placeAfterOlder key x acc ++ xs).Perm ((x :: acc) ++ xs) :=
        (placeAfterOlder_perm key x acc).append_right xs
      exact h1.trans (List.perm_middle).symm
    · intro k
      rw [hf k, placeAfterOlder_filter key x k acc hs, List.append_assoc, ← List.filter_append]
      rfl

theorem sortDescStable_stable {α} (key : α → Q) (xs : List α) :
    StableSortedDesc key xs (sortDescStable key xs) := by
  obtain ⟨hp, hs, hf⟩ := foldl_placeAfterOlder key xs [] List.Pairwise.nil
  unfold sortDescStable
  refine ⟨?_, hs, ?_⟩
  · simpa only [List.nil_append] using hp
  · intro k
    have := hf k
    simpa only [List.filter_nil, List.nil_append] using this

theorem sortPulses_eq_sortDescStable (ps : List Pulse) :
    sortPulses ps = sortDescStable (fun p : Pulse => p.time) ps :=
  stableSortedDesc_unique (fun p : Pulse => p.time) (sortPulses_stable ps)
    (sortDescStable_stable (fun p : Pulse => p.time) ps)

theorem sortDescStable_perm {α} (key : α → Q) (xs : List α) : (sortDescStable key xs).Perm xs :=
  (sortDescStable_stable key xs).perm

/-- non-vacuity: the two sorts on a concrete list with a tie -/
example : sortDescStable (fun p : Nat × Q => p.2) [(0, 1), (1, 3), (2, 1), (3, 2), (4, 3)]
    = [(1, 3), (4, 3), (3, 2), (0, 1), (2, 1)] := by decide +kernel


end Demes.Proofs.Accepts
