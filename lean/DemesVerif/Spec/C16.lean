/-
  Spec definitions for C16 — strict JSON output, "Infinity" strings, refusal of nulls.

  Everything here is written from the property text, independently of the control flow of
  `demes/load_dump.py` (Model `DemesVerif/Model/LoadDump.lean`):

  * `Reach v w`            — `w` is a sub-value of `v` (through any nesting of lists and mappings)
  * `hasNonFinite v`       — some number inside `v` is `inf`, `-inf` or `nan` (tokens that strict
                             JSON cannot express)
  * `NullOutsideMetadata`  — a null is reachable from a top-level entry other than `metadata`
  * `Path`, `Value.at?`    — positions inside a document
  * `StartTimePos p`       — `p` is one of the four kinds of position the property names:
                             `demes[i].start_time`, `migrations[i].start_time`,
                             `defaults.deme.start_time`, `defaults.migration.start_time`
-/
import DemesVerif.Model.LoadDump
namespace Demes.Spec
open Demes

/-! ### sub-values -/

/-- `Reach v w`: `w` is `v` itself, or an element of a list / a value of a mapping that is
reachable from `v`, at any depth. -/
inductive Reach : Value → Value → Prop where
  | here (v : Value) : Reach v v
  | elem {xs : List Value} {x w : Value} : x ∈ xs → Reach x w → Reach (.list xs) w
  | field {kvs : List (String × Value)} {k : String} {x w : Value} :
      (k, x) ∈ kvs → Reach x w → Reach (.obj kvs) w

/-! ### non-finite numbers -/

def nonFiniteNum (n : Num) : Bool :=
  match n with
  | .fin _ => false
  | _ => true

mutual
/-- some number inside the value is `inf`, `-inf` or `nan` -/
def hasNonFinite : Value → Bool
  | .num n => nonFiniteNum n
  | .list xs => hasNonFiniteL xs
  | .obj kvs => hasNonFiniteO kvs
  | _ => false
def hasNonFiniteL : List Value → Bool
  | [] => false
  | x :: xs => hasNonFinite x || hasNonFiniteL xs
def hasNonFiniteO : List (String × Value) → Bool
  | [] => false
  | (_, v) :: r => hasNonFinite v || hasNonFiniteO r
end

/-! ### nulls outside `metadata` -/

/-- a null is reachable from a top-level entry whose key is not `metadata` -/
def NullOutsideMetadata (data : Obj) : Prop :=
  ∃ k v, (k, v) ∈ data ∧ k ≠ "metadata" ∧ Reach v .null

open Classical in
/-- Boolean form of `NullOutsideMetadata` (classical `decide`: the definition is by paths, it
is not an algorithm) -/
noncomputable def hasNullOutsideMetadata (data : Obj) : Bool := decide (NullOutsideMetadata data)

theorem hasNullOutsideMetadata_eq_true {data : Obj} :
    hasNullOutsideMetadata data = true ↔ NullOutsideMetadata data := by
  unfold hasNullOutsideMetadata; exact @decide_eq_true_iff _ (Classical.propDecidable _)

theorem hasNullOutsideMetadata_eq_false {data : Obj} :
    hasNullOutsideMetadata data = false ↔ ¬ NullOutsideMetadata data := by
  unfold hasNullOutsideMetadata; exact @decide_eq_false_iff_not _ (Classical.propDecidable _)

/-! ### positions -/

/-- one step into a document: the `i`-th entry of a mapping, which must have key `k`
(`i` makes the position unambiguous whatever the parser returned), or the `i`-th element of a
list -/
inductive Step where
  | key (i : Nat) (k : String)
  | idx (i : Nat)
  deriving DecidableEq, Repr

abbrev Path := List Step

def child? (v : Value) (s : Step) : Option Value :=
  match v, s with
  | .obj kvs, .key i k =>
    match kvs[i]? with
    | some (k', x) => if k' = k then some x else none
    | none => none
  | .list xs, .idx i => xs[i]?
  | _, _ => none

/-- the value at a position (recursion on the position, not on the document) -/
def at? (v : Value) : Path → Option Value
  | [] => some v
  | s :: p => match child? v s with
    | some x => at? x p
    | none => none

/-- the positions named by the property -/
inductive StartTimePos : Path → Prop where
  | deme (a i b : Nat) : StartTimePos [.key a "demes", .idx i, .key b "start_time"]
  | migration (a i b : Nat) : StartTimePos [.key a "migrations", .idx i, .key b "start_time"]
  | defaultsDeme (a c b : Nat) : StartTimePos [.key a "defaults", .key c "deme", .key b "start_time"]
  | defaultsMigration (a c b : Nat) :
      StartTimePos [.key a "defaults", .key c "migration", .key b "start_time"]

/-- `p` is not a start-time position and does not lead to one (it is not an initial segment of
a start-time position); e.g. `metadata`, `demes[i].name`, `demes[i].epochs`, `pulses`, … and
everything below them -/
def AwayFromStartTimes (p : Path) : Prop :=
  ∀ q, StartTimePos q → ¬ p <+: q

/-- `p` is a proper initial segment of a start-time position (`demes`, `demes[i]`, `defaults`,
`defaults.deme`, …): a container on the way to a start time -/
def TowardsStartTime (p : Path) : Prop :=
  ∃ q, StartTimePos q ∧ p <+: q ∧ p ≠ q

/-- what a loader does to the value found at a start-time position -/
def convInfinity (v : Value) : Value :=
  match v with
  | .str s => if s = "Infinity" then .num .pinf else v
  | _ => v

/-- the outline of a value: its constructor, and for containers the number of elements / the
keys in order (what stays the same when only leaves are replaced) -/
inductive Outline where
  | leaf (v : Value)
  | list (n : Nat)
  | obj (keys : List String)

def outline (v : Value) : Outline :=
  match v with
  | .list xs => .list xs.length
  | .obj kvs => .obj (kvs.map (·.1))
  | v => .leaf v

/-! ### documents of the expected shape -/

/-- the shape every document of the data model has: `demes` present; `demes` / `migrations`
are lists of mappings; `defaults` is a mapping whose `deme` / `migration` are mappings -/
structure WellShaped (data : Obj) : Prop where
  demes : Obj.contains "demes" data = true
  items : ∀ k v, (k, v) ∈ data → k = "demes" ∨ k = "migrations" →
    ∃ xs, v = .list xs ∧ ∀ x ∈ xs, ∃ kvs, x = .obj kvs
  defaults : ∀ v, ("defaults", v) ∈ data →
    ∃ kvs, v = .obj kvs ∧ ∀ k w, (k, w) ∈ kvs → k = "deme" ∨ k = "migration" → ∃ inner, w = .obj inner

end Demes.Spec

