/-
  Proofs for C03, part 1 — the Spec's readers (`numOf`, `finOf`, `timeOf`, `strOf`, `mapOpt`, …)
  against the Model's validators (`intOrFloat`, `posFiniteQ`, `posTime`, `instStr`, `mapM`, …).
-/
import DemesVerif.Spec.C03
import DemesVerif.Proofs.FillDoc
import DemesVerif.Proofs.AsdictResolve
namespace Demes.Proofs.Accepts
open Demes Demes.Obj Demes.Spec

/-! ### `Option` plumbing -/

theorem obind_some {α β} {x : Option α} {f : α → Option β} {r : β}
    (h : (x >>= f) = some r) : ∃ a, x = some a ∧ f a = some r := by
  cases x with
  | none => cases h
  | some a => exact ⟨a, rfl, h⟩

theorem obind_some' {α β} {x : Option α} {f : α → Option β} {r : β}
    (h : x.bind f = some r) : ∃ a, x = some a ∧ f a = some r := by
  cases x with
  | none => cases h
  | some a => exact ⟨a, rfl, h⟩

theorem some_obind {α β} (a : α) (f : α → Option β) : (some a >>= f) = f a := rfl

/-! ### numbers -/

theorem asNumRaw_eq (v : Value) : v.asNumRaw? = numOf v := by cases v <;> rfl

theorem intOrFloat_ok_iff (v : Value) (n : Num) :
    intOrFloat v = .ok n ↔ numOf v = some n ∧ n ≠ Num.nan := by
  unfold intOrFloat
  rw [asNumRaw_eq]
  cases numOf v with
  | none => simp [typeErr]
  | some m =>
    cases m <;> simp [Num.isNan, typeErr, pure, Except.pure] <;> (try (intro h; subst h; simp))

theorem finOf_eq_some {v : Value} {q : Q} : finOf v = some q ↔ numOf v = some (.fin q) := by
  unfold finOf
  cases numOf v with
  | none => simp
  | some m => cases m <;> simp

theorem timeOf_eq_some {v : Value} {t : ETime} : timeOf v = some t ↔ numOf v = some (Num.ofETime t) := by
  unfold timeOf
  cases numOf v with
  | none => simp
  | some m => cases m <;> cases t <;> simp [Num.ofETime]

theorem intOrFloat_of_finOf {v : Value} {q : Q} (h : finOf v = some q) : intOrFloat v = .ok (.fin q) :=
  (intOrFloat_ok_iff v _).2 ⟨finOf_eq_some.1 h, by simp⟩

theorem intOrFloat_of_timeOf {v : Value} {t : ETime} (h : timeOf v = some t) :
    intOrFloat v = .ok (Num.ofETime t) :=
  (intOrFloat_ok_iff v _).2 ⟨timeOf_eq_some.1 h, by cases t <;> simp [Num.ofETime]⟩

theorem asNumRaw_of_finOf {v : Value} {q : Q} (h : finOf v = some q) : v.asNumRaw? = some (.fin q) := by
  rw [asNumRaw_eq]; exact finOf_eq_some.1 h

theorem asNumRaw_of_timeOf {v : Value} {t : ETime} (h : timeOf v = some t) :
    v.asNumRaw? = some (Num.ofETime t) := by
  rw [asNumRaw_eq]; exact timeOf_eq_some.1 h

theorem timeOf_of_finOf {v : Value} {q : Q} (h : finOf v = some q) : timeOf v = some (.fin q) :=
  timeOf_eq_some.2 (finOf_eq_some.1 h)

/-- the validators, as "read a number, then a condition on it" -/
theorem validator_ok_iff {α} (v : Value) (f : Num → Except Err α) (r : α) :
    (intOrFloat v >>= f) = .ok r ↔ ∃ n, numOf v = some n ∧ n ≠ Num.nan ∧ f n = .ok r := by
  constructor
  · intro h
    obtain ⟨n, hn, h⟩ := Proofs.bind_ok h
    obtain ⟨h1, h2⟩ := (intOrFloat_ok_iff v n).1 hn
    exact ⟨n, h1, h2, h⟩
  · rintro ⟨n, h1, h2, h⟩
    rw [(intOrFloat_ok_iff v n).2 ⟨h1, h2⟩]
    exact h

theorem posFiniteQ_ok_iff (v : Value) (q : Q) : posFiniteQ v = .ok q ↔ finOf v = some q ∧ 0 < q := by
  unfold posFiniteQ
  rw [validator_ok_iff, finOf_eq_some]
  constructor
  · rintro ⟨n, h1, hnan, h⟩
    cases n <;>
      simp [vPositive, vFinite, toQ, Num.le, Num.zero, Num.isInf, valueErr, bind, Except.bind, pure,
        Except.pure] at h
    · rename_i x
      by_cases hx : x ≤ 0
      · simp [hx] at h
      · simp [hx] at h; subst h; exact ⟨h1, Rat.not_le.1 hx⟩
  · rintro ⟨h1, h2⟩
    refine ⟨_, h1, by simp, ?_⟩
    have : ¬ q ≤ 0 := Rat.not_le.2 h2
    simp [vPositive, vFinite, toQ, Num.le, Num.zero, Num.isInf, this, bind, Except.bind, pure, Except.pure]

theorem nonNegFiniteQ_ok_iff (v : Value) (q : Q) : nonNegFiniteQ v = .ok q ↔ finOf v = some q ∧ 0 ≤ q := by
  unfold nonNegFiniteQ
  rw [validator_ok_iff, finOf_eq_some]
  constructor
  · rintro ⟨n, h1, hnan, h⟩
    cases n <;>
      simp [vNonNegative, vFinite, toQ, Num.lt, Num.zero, Num.isInf, valueErr, bind, Except.bind, pure,
        Except.pure] at h
    · rename_i x
      by_cases hx : x < 0
      · simp [hx] at h
      · simp [hx] at h; subst h; exact ⟨h1, Rat.not_lt.1 hx⟩
  · rintro ⟨h1, h2⟩
    refine ⟨_, h1, by simp, ?_⟩
    have : ¬ q < 0 := Rat.not_lt.2 h2
    simp [vNonNegative, vFinite, toQ, Num.lt, Num.zero, Num.isInf, this, bind, Except.bind, pure, Except.pure]

theorem unitQ_ok_iff (v : Value) (q : Q) : unitQ v = .ok q ↔ finOf v = some q ∧ 0 ≤ q ∧ q ≤ 1 := by
  unfold unitQ
  rw [validator_ok_iff, finOf_eq_some]
  constructor
  · rintro ⟨n, h1, hnan, h⟩
    cases n <;>
      simp [vUnitInterval, toQ, Num.le, Num.zero, Num.one, valueErr, bind, Except.bind, pure,
        Except.pure] at h
    · rename_i x
      by_cases hx : 0 ≤ x ∧ x ≤ 1
      · simp [hx] at h; subst h; exact ⟨h1, hx⟩
      · simp [hx] at h
  · rintro ⟨h1, h2⟩
    refine ⟨_, h1, by simp, ?_⟩
    simp [vUnitInterval, toQ, Num.le, Num.zero, Num.one, h2, bind, Except.bind, pure, Except.pure]

theorem unitExLoQ_ok_iff (v : Value) (q : Q) : unitExLoQ v = .ok q ↔ finOf v = some q ∧ 0 < q ∧ q ≤ 1 := by
  unfold unitExLoQ
  rw [validator_ok_iff, finOf_eq_some]
  constructor
  · rintro ⟨n, h1, hnan, h⟩
    cases n <;>
      simp [vUnitIntervalExLo, toQ, Num.le, Num.lt, Num.zero, Num.one, valueErr, bind, Except.bind, pure,
        Except.pure] at h
    · rename_i x
      by_cases hx : 0 < x ∧ x ≤ 1
      · simp [hx] at h; subst h; exact ⟨h1, hx⟩
      · simp [hx] at h
  · rintro ⟨h1, h2⟩
    refine ⟨_, h1, by simp, ?_⟩
    simp [vUnitIntervalExLo, toQ, Num.le, Num.lt, Num.zero, Num.one, h2, bind, Except.bind, pure, Except.pure]

theorem posTime_ok_iff (v : Value) (t : ETime) : posTime v = .ok t ↔ timeOf v = some t ∧ ETime.fin 0 < t := by
  unfold posTime
  rw [validator_ok_iff, timeOf_eq_some]
  constructor
  · rintro ⟨n, h1, hnan, h⟩
    cases n <;>
      simp [vPositive, toETime, Num.le, Num.zero, valueErr, bind, Except.bind, pure, Except.pure] at h
    · rename_i x
      by_cases hx : x ≤ 0
      · simp [hx] at h
      · simp [hx] at h; subst h; exact ⟨h1, Rat.not_le.1 hx⟩
    · subst h; exact ⟨h1, trivial⟩
  · rintro ⟨h1, h2⟩
    refine ⟨_, h1, by cases t <;> simp [Num.ofETime], ?_⟩
    cases t with
    | inf => simp [vPositive, toETime, Num.le, Num.zero, Num.ofETime, bind, Except.bind, pure, Except.pure]
    | fin x =>
      have : ¬ x ≤ 0 := Rat.not_le.2 h2
      simp [vPositive, toETime, Num.le, Num.zero, Num.ofETime, this, bind, Except.bind, pure, Except.pure]

theorem nonNegTime_ok_iff (v : Value) (t : ETime) :
    nonNegTime v = .ok t ↔ timeOf v = some t ∧ ¬ t < ETime.fin 0 := by
  unfold nonNegTime
  rw [validator_ok_iff, timeOf_eq_some]
  constructor
  · rintro ⟨n, h1, hnan, h⟩
    cases n <;>
      simp [vNonNegative, toETime, Num.lt, Num.zero, valueErr, bind, Except.bind, pure, Except.pure] at h
    · rename_i x
      by_cases hx : x < 0
      · simp [hx] at h
      · simp [hx] at h; subst h; exact ⟨h1, hx⟩
    · subst h; exact ⟨h1, fun h => h⟩
  · rintro ⟨h1, h2⟩
    refine ⟨_, h1, by cases t <;> simp [Num.ofETime], ?_⟩
    cases t with
    | inf => simp [vNonNegative, toETime, Num.lt, Num.zero, Num.ofETime, bind, Except.bind, pure, Except.pure]
    | fin x =>
      have : ¬ x < 0 := h2
      simp [vNonNegative, toETime, Num.lt, Num.zero, Num.ofETime, this, bind, Except.bind, pure, Except.pure]

/-! ### strings, lists, mappings -/

theorem instStr_ok_iff (v : Value) (s : String) : instStr v = .ok s ↔ strOf v = some s := by
  cases v <;> simp [instStr, strOf, typeErr, pure, Except.pure]

theorem instList_ok_iff (v : Value) (xs : List Value) : instList v = .ok xs ↔ listOf v = some xs := by
  cases v <;> simp [instList, listOf, typeErr, pure, Except.pure]

theorem instObj_ok_iff (v : Value) (o : Obj) : instObj v = .ok o ↔ objOf v = some o := by
  cases v <;> simp [instObj, objOf, typeErr, pure, Except.pure]

theorem strOf_eq_some {v : Value} {s : String} : strOf v = some s ↔ v = .str s := by
  cases v <;> simp [strOf]

theorem listOf_eq_some {v : Value} {xs : List Value} : listOf v = some xs ↔ v = .list xs := by
  cases v <;> simp [listOf]

theorem objOf_eq_some {v : Value} {o : Obj} : objOf v = some o ↔ v = .obj o := by
  cases v <;> simp [objOf]

/-! ### `mapOpt` against `mapM` -/

theorem mapOpt_cons_some {α β} {f : α → Option β} {x : α} {xs : List α} {r : List β} :
    mapOpt f (x :: xs) = some r ↔ ∃ y ys, f x = some y ∧ mapOpt f xs = some ys ∧ r = y :: ys := by
  simp only [mapOpt]
  cases f x with
  | none => simp
  | some y =>
    cases mapOpt f xs with
    | none => simp
    | some ys => simp [eq_comm]

/-- `mapM` of a validator succeeds exactly when `mapOpt` of the reader does and every result meets
the validator's condition -/
theorem mapM_ok_iff {α β} (f : α → Except Err β) (g : α → Option β) (P : β → Prop)
    (hfg : ∀ x y, f x = .ok y ↔ g x = some y ∧ P y) (xs : List α) (ys : List β) :
    xs.mapM f = .ok ys ↔ mapOpt g xs = some ys ∧ ∀ y ∈ ys, P y := by
  induction xs generalizing ys with
  | nil =>
    rw [List.mapM_nil]
    constructor
    · intro h; cases h; exact ⟨rfl, fun _ h => by cases h⟩
    · rintro ⟨h, _⟩; cases h; rfl
  | cons x xs ih =>
    rw [List.mapM_cons, mapOpt_cons_some]
    constructor
    · intro h
      obtain ⟨y, hy, h⟩ := Proofs.bind_ok h
      obtain ⟨ys', hys', h⟩ := Proofs.bind_ok h
      cases h
      obtain ⟨h1, h2⟩ := (hfg x y).1 hy
      obtain ⟨h3, h4⟩ := (ih ys').1 hys'
      refine ⟨⟨y, ys', h1, h3, rfl⟩, ?_⟩
      intro z hz
      rcases List.mem_cons.1 hz with rfl | hz
      · exact h2
      · exact h4 z hz
    · rintro ⟨⟨y, ys', h1, h3, rfl⟩, hall⟩
      rw [(hfg x y).2 ⟨h1, hall y List.mem_cons_self⟩, Proofs.ok_bind,
        (ih ys').2 ⟨h3, fun z hz => hall z (List.mem_cons_of_mem _ hz)⟩, Proofs.ok_bind]
      rfl

theorem mapOpt_strOf {xs : List Value} {ss : List String} :
    mapOpt strOf xs = some ss ↔ xs = ss.map Value.str := by
  induction xs generalizing ss with
  | nil => cases ss <;> simp [mapOpt]
  | cons x xs ih =>
    rw [mapOpt_cons_some]
    constructor
    · rintro ⟨y, ys, h1, h2, rfl⟩
      rw [strOf_eq_some.1 h1, ih.1 h2]; rfl
    · intro h
      cases ss with
      | nil => cases h
      | cons s ss =>
        simp only [List.map_cons, List.cons.injEq] at h
        exact ⟨s, ss, strOf_eq_some.2 h.1, ih.2 h.2, rfl⟩

theorem strsOf_eq_some {v : Value} {ss : List String} : strsOf v = some ss ↔ v = .list (ss.map Value.str) := by
  unfold strsOf
  cases v <;> simp [listOf, mapOpt_strOf]

theorem mapOpt_objOf {xs : List Value} {os : List Obj} :
    mapOpt objOf xs = some os ↔ xs = os.map Value.obj := by
  induction xs generalizing os with
  | nil => cases os <;> simp [mapOpt]
  | cons x xs ih =>
    rw [mapOpt_cons_some]
    constructor
    · rintro ⟨y, ys, h1, h2, rfl⟩
      rw [objOf_eq_some.1 h1, ih.1 h2]; rfl
    · intro h
      cases os with
      | nil => cases h
      | cons s ss =>
        simp only [List.map_cons, List.cons.injEq] at h
        exact ⟨s, ss, objOf_eq_some.2 h.1, ih.2 h.2, rfl⟩

theorem mapM_instObj_ok_iff (xs : List Value) (os : List Obj) :
    xs.mapM instObj = .ok os ↔ mapOpt objOf xs = some os := by
  rw [mapM_ok_iff instObj objOf (fun _ => True) (fun x y => by rw [instObj_ok_iff]; simp)]
  simp

theorem mapOpt_length {α β} {f : α → Option β} {xs : List α} {ys : List β}
    (h : mapOpt f xs = some ys) : ys.length = xs.length := by
  induction xs generalizing ys with
  | nil => cases h; rfl
  | cons x xs ih =>
    obtain ⟨y, ys', _, h2, rfl⟩ := mapOpt_cons_some.1 h
    simp [ih h2]

theorem mapOpt_append {α β} {f : α → Option β} {xs ys : List α} {r : List β} :
    mapOpt f (xs ++ ys) = some r ↔ ∃ r1 r2, mapOpt f xs = some r1 ∧ mapOpt f ys = some r2 ∧ r = r1 ++ r2 := by
  induction xs generalizing r with
  | nil => simp [mapOpt]
  | cons x xs ih =>
    rw [List.cons_append, mapOpt_cons_some]
    constructor
    · rintro ⟨y, ys', h1, h2, rfl⟩
      obtain ⟨r1, r2, h3, h4, rfl⟩ := ih.1 h2
      exact ⟨y :: r1, r2, mapOpt_cons_some.2 ⟨y, r1, h1, h3, rfl⟩, h4, rfl⟩
    · rintro ⟨r1, r2, h1, h2, rfl⟩
      obtain ⟨y, r1', h3, h4, rfl⟩ := mapOpt_cons_some.1 h1
      exact ⟨y, r1' ++ r2, h3, ih.2 ⟨r1', r2, h4, h2, rfl⟩, rfl⟩

/-- the list-of-mappings readers -/
theorem popObjList_ok_iff (d : Obj) (k : String) (dflt : List Obj) (os : List Obj) :
    popObjList d k (some dflt) = .ok os ↔
      (match lookup k d with | none => some dflt | some v => objsOf v) = some os := by
  unfold popObjList objsOf
  cases lookup k d with
  | none => simp [pure, Except.pure]
  | some v =>
    cases v <;> simp [instList, listOf, typeErr, bind, Except.bind, pure, Except.pure]
    exact mapM_instObj_ok_iff _ _

theorem popObjList_none_ok_iff (d : Obj) (k : String) (os : List Obj) :
    popObjList d k none = .ok os ↔ (lookup k d).bind objsOf = some os := by
  unfold popObjList objsOf
  cases lookup k d with
  | none => simp [keyErr]
  | some v =>
    cases v <;> simp [instList, listOf, typeErr, bind, Except.bind, pure, Except.pure]
    exact mapM_instObj_ok_iff _ _

theorem popObject_ok_iff (d : Obj) (k : String) (o : Obj) :
    popObject d k = .ok o ↔ sectionOf d k = some o := by
  unfold popObject sectionOf
  cases lookup k d with
  | none => simp [objOf, pure, Except.pure, eq_comm]
  | some v => exact instObj_ok_iff v o

/-! ### known fields -/

theorem checkAllowed_iff_onlyFields (o : Obj) (a : List String) :
    checkAllowed o a = .ok () ↔ onlyFields a o = true := by
  rw [Proofs.checkAllowed_ok_iff]
  simp only [onlyFields, List.all_eq_true, keys, List.mem_map, forall_exists_index, and_imp,
    forall_apply_eq_imp_iff₂, List.contains_iff_mem]

theorem topFields_eq : topFields = allowedTop := rfl
theorem defaultsFields_eq : defaultsFields = allowedDefaults := rfl
theorem demeFields_eq : demeFields = allowedDemeInner := rfl
theorem demeDefaultsFields_eq : demeDefaultsFields = allowedLocalDefaults := rfl
theorem epochFields_eq : epochFields = allowedEpoch := rfl
theorem migrationFields_eq : migrationFields = allowedMigration := rfl
theorem pulseFields_eq : pulseFields = allowedPulse := rfl

end Demes.Proofs.Accepts
