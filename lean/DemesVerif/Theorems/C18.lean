/-
  C18 — resolution is a pure function of its input.

  The pure Model (`Demes.resolve : Value → Except Err Graph`) cannot alias or mutate, so the
  statements about identity live over the heap abstraction of `Model/Heap.lean`:
  a store of `dict`/`list` cells addressed by allocation order; `copy` is
  `demes.demes.deepcopy_unaliased` (what `Graph.fromdict` does first — AST fact
  `Tables.fact_fromdict_copies_first`; `Builder.resolve` passes `self.data` straight to it —
  `Tables.fact_builder_resolve_passes_data`); `unfold` reads the JSON-like document a
  reference denotes; a *program* (`Instr`) is arbitrary straight-line code that holds
  references only in registers — it can obtain a reference only by being handed it, by
  reading it out of an object it holds, or by allocating.  `Graph.fromdict` is modelled as
  "copy, then ANY program that is handed only the copy" (it may stop anywhere: every prefix of
  a program is a program, so success and failure are both covered), and its result as
  `Demes.resolve` of the document the copy denotes (`fromdictOutcome`).

  Vocabulary (`Spec/C18.lean`): `Reach` reachability, `follow`/`Unaliased` access paths and
  tree shape, `WF` no dangling references, `ClosedOn`/`SameOn`/`Avoids` regions,
  `SessionOK` the ownership invariant of a history on one Builder.
-/
import DemesVerif.Proofs.HeapExample
namespace Demes.Theorems
open Demes Demes.Heap Demes.Spec.C18

/-! ### the copy -/

/-- FRESH: the copy only extends the store, and every object reachable from the copy's root
was allocated by the copy (its address is at or above the old allocation pointer). -/
theorem deepcopy_fresh (n : Nat) (s : Store) (r : Ref) (s' : Store) (r' : Ref)
    (h : copy n s r = some (s', r')) :
    (∃ t, s' = s ++ t) ∧ ∀ b, Reach s' r' b → s.length ≤ b ∧ b < s'.length := by
  refine ⟨Proofs.Heap.copy_ext n s r s' r' h, fun b hb => ?_⟩
  obtain ⟨l, hl, _, hrg⟩ := Proofs.Heap.copy_walk n s r s' r' h
  exact hrg b (Proofs.Heap.reach_mem_walk s' r' b hb n l hl)

/-- ISO: the copy denotes the same document as the original (aliasing in the original is
unfolded on both sides); and the copy succeeds whenever the original can be unfolded. -/
theorem deepcopy_iso (n : Nat) (s : Store) (r : Ref) (v : Value) (hv : unfold n s r = some v) :
    ∃ s' r', copy n s r = some (s', r') ∧ unfold n s' r' = some v := by
  obtain ⟨s', r', hc⟩ := Proofs.Heap.copy_total n s r v hv
  exact ⟨s', r', hc, Proofs.Heap.copy_unfold n s r s' r' hc v hv⟩

/-- UNALIASED: no object is reachable twice from the copy's root — every container under it
has exactly one access path (the copy is a tree), however much sharing the original has. -/
theorem deepcopy_unaliased (n : Nat) (s : Store) (r : Ref) (s' : Store) (r' : Ref)
    (h : copy n s r = some (s', r')) : Unaliased s' r' := by
  obtain ⟨l, hl, hnd, _⟩ := Proofs.Heap.copy_walk n s r s' r' h
  exact Proofs.Heap.walk_nodup_unaliased s' n r' l hl hnd

/-- …equivalently: walking the copy meets each new object once, and only new objects. -/
theorem deepcopy_walk (n : Nat) (s : Store) (r : Ref) (s' : Store) (r' : Ref)
    (h : copy n s r = some (s', r')) :
    ∃ l, walk n s' r' = some l ∧ l.Nodup ∧ ∀ b ∈ l, s.length ≤ b ∧ b < s'.length :=
  Proofs.Heap.copy_walk n s r s' r' h

/-- Fuel: on a store whose objects only refer to earlier-allocated objects (every tree or DAG
built bottom-up) `deepcopyUnaliased` never runs out of fuel, and denotes the same document. -/
theorem deepcopy_total_backward (s : Store) (hb : Backward s) (r : Ref) (hr : RefIn (· < s.length) r) :
    ∃ v s' r', unfold (s.length + 1) s r = some v ∧ deepcopyUnaliased s r = some (s', r') ∧
      unfold (s.length + 1) s' r' = some v :=
  Proofs.Heap.deepcopy_total_backward s hb r hr

/-! ### the frame -/

/-- FRAME: ANY mutation script that never targets an object of a closed set `P` of allocated
objects leaves every object of `P`, and every document rooted in `P`, unchanged. -/
theorem frame (P : Addr → Prop) (s : Store) (hP : ∀ a, P a → a < s.length) (hcl : ClosedOn P s)
    (ms : List Mut) (hav : Avoids P ms) :
    SameOn P s (runMuts s ms) ∧ ∀ n r, RefIn P r → unfold n (runMuts s ms) r = unfold n s r :=
  ⟨Proofs.Heap.frame_cells P ms s hP hav, Proofs.Heap.frame_unfold P s hP hcl ms hav⟩

/-- FRAME after a copy: a script confined to the copy (all its targets are at or above the old
allocation pointer — by `deepcopy_fresh` that is everything reachable from the copy, and
everything allocated later) leaves every original root's document unchanged. -/
theorem frame_after_copy (n : Nat) (s : Store) (roots : List Ref) (hwf : WF s roots) (r : Ref)
    (s' : Store) (r' : Ref) (h : copy n s r = some (s', r')) (ms : List Mut)
    (hav : Avoids (· < s.length) ms) (m : Nat) (root : Ref) (hroot : root ∈ roots) :
    unfold m (runMuts s' ms) root = unfold m s root := by
  obtain ⟨t, ht⟩ := Proofs.Heap.copy_ext n s r s' r' h
  have hle := Proofs.Heap.copy_length_le n s r s' r' h
  have h1 := Proofs.Heap.frame_cells (· < s.length) ms s' (fun a ha => Nat.lt_of_lt_of_le ha hle) hav
  refine Proofs.Heap.unfold_old s _ roots hwf (fun a ha => ?_) m root hroot
  rw [h1 a ha, ht, List.getElem?_append_left ha]

/-- CONFINEMENT: code that starts with references into a closed set `P` of objects — where
whatever it allocates joins `P` — can only ever hold references into `P`, keeps `P` closed,
and leaves every object outside `P` untouched.  (Why a program handed only the copy is a script
confined to the copy.) -/
theorem program_confined (P : Addr → Prop) (p : List Instr) (st : State)
    (hfut : ∀ a, st.store.length ≤ a → P a)
    (hregs : ∀ r ∈ st.regs, RefIn P r) (hcl : ClosedOn P st.store) :
    (∀ r ∈ (run st p).regs, RefIn P r) ∧ ClosedOn P (run st p).store ∧
    (∀ b, ¬ P b → (run st p).store[b]? = st.store[b]?) ∧
    (run st p).store = runMuts st.store (trace st p) := by
  obtain ⟨ho, hsame⟩ := Proofs.Heap.run_owned P p st (fun a ha _ => hfut a ha) ⟨hregs, hcl⟩
  refine ⟨ho.regs, ho.closed, fun b hb => hsame b hb ?_, Proofs.Heap.run_eq_trace p st⟩
  exact Nat.lt_of_not_le (fun hle => hb (hfut b hle))

/-! ### `Graph.fromdict` / `Builder.resolve` -/

/-- `fromdict` never modifies the caller's data: after the copy, ANY program that is handed
only the copy — run to completion or stopped anywhere (success or failure) — leaves every
object that existed before the call as it was, hence every document the caller can reach. -/
theorem fromdict_preserves_input (n : Nat) (s : Store) (roots : List Ref) (hwf : WF s roots)
    (r : Ref) (s' : Store) (r' : Ref) (h : copy n s r = some (s', r')) (script : List Instr) :
    (∀ a, a < s.length → (run ⟨s', [r']⟩ script).store[a]? = s[a]?) ∧
    ∀ m root, root ∈ roots → unfold m (run ⟨s', [r']⟩ script).store root = unfold m s root :=
  ⟨Proofs.Heap.fromdict_cells n s r s' r' h script,
   fun m root hroot => Proofs.Heap.fromdict_preserves_input n s roots hwf r s' r' h script m root hroot⟩

/-- `resolve` is a function of the document: two inputs — in any two heaps, with any aliasing,
with any fuel that suffices — that denote the same document give the same outcome: the same
graph or the same error. -/
theorem resolve_deterministic (n m : Nat) (s₁ s₂ : Store) (r₁ r₂ : Ref) (v : Value)
    (h₁ : unfold n s₁ r₁ = some v) (h₂ : unfold m s₂ r₂ = some v) :
    fromdictOutcome n s₁ r₁ = fromdictOutcome m s₂ r₂ ∧
    fromdictOutcome n s₁ r₁ = some (Demes.resolve v) := by
  rw [Proofs.Heap.fromdict_outcome n s₁ r₁ v h₁, Proofs.Heap.fromdict_outcome m s₂ r₂ v h₂]
  exact ⟨rfl, rfl⟩

/-- Resolving the same data again — after the first call ran any code over its copy — gives
the same outcome. -/
theorem resolve_again (n : Nat) (s : Store) (r : Ref) (hwf : WF s [r]) (v : Value)
    (hv : unfold n s r = some v) (s' : Store) (r' : Ref) (h : copy n s r = some (s', r'))
    (script : List Instr) :
    fromdictOutcome n (run ⟨s', [r']⟩ script).store r = fromdictOutcome n s r :=
  Proofs.Heap.resolve_again n s r hwf v hv s' r' h script

/-- Sharing is irrelevant: resolving a document with aliasing is resolving its tree-shaped
copy, which denotes the same document. -/
theorem resolve_alias_insensitive (n : Nat) (s : Store) (r : Ref) (v : Value)
    (hv : unfold n s r = some v) (s' : Store) (r' : Ref) (h : copy n s r = some (s', r')) :
    Unaliased s' r' ∧ (unfold n s' r').map Demes.resolve = (unfold n s r).map Demes.resolve ∧
    fromdictOutcome n s r = some (Demes.resolve v) := by
  refine ⟨deepcopy_unaliased n s r s' r' h, ?_, Proofs.Heap.fromdict_outcome n s r v hv⟩
  rw [Proofs.Heap.copy_unfold n s r s' r' h v hv, hv]

/-! ### histories on one Builder: resolve / caller code / asdict in any order -/

/-- The ownership invariant holds at the start (a heap without dangling references, nothing
handed out) and after every history. -/
theorem history_invariant (s : Store) (roots : List Ref) (hwf : WF s roots) (es : List Event) :
    SessionOK (runEvents ⟨s, roots, []⟩ es) :=
  (Proofs.Heap.runEvents_ok es _ (Proofs.Heap.session_init s roots hwf)).1

/-- A resolve (or taking a dictionary form) in the middle of any history changes no existing
object: every document the caller holds is as before, whatever the library code does with its
copy, and the caller's references are the same. -/
theorem history_resolve_pure (s : Store) (roots : List Ref) (hwf : WF s roots) (es : List Event)
    (e : Event) (he : ∀ p, e ≠ .mutate p) (m : Nat) (root : Ref)
    (hroot : root ∈ (runEvents ⟨s, roots, []⟩ es).caller) :
    unfold m (e.step (runEvents ⟨s, roots, []⟩ es)).store root
      = unfold m (runEvents ⟨s, roots, []⟩ es).store root :=
  Proofs.Heap.pure_event_unfold _ (history_invariant s roots hwf es) e he m root hroot

/-- A graph handed out at some point of a history denotes the same documents after ANY
further events: caller code over the input / the Builder's data / dictionary forms, further
resolves, further `asdict`s. -/
theorem history_graph_stable (s : Store) (roots : List Ref) (hwf : WF s roots) (es es' : List Event)
    (ρ : Returned) (hρ : ρ ∈ (runEvents ⟨s, roots, []⟩ es).returned) (m : Nat) (root : Ref)
    (hroot : root ∈ ρ.roots) :
    unfold m (runEvents (runEvents ⟨s, roots, []⟩ es) es').store root
      = unfold m (runEvents ⟨s, roots, []⟩ es).store root :=
  Proofs.Heap.graph_stable _ (history_invariant s roots hwf es) es' ρ hρ m root hroot

/-- Each resolve of a history computes what resolving the then-current data from scratch
computes: `Demes.resolve` of the document the data denotes at that moment. -/
theorem history_resolve_from_scratch (σ : Session) (i n : Nat) (v : Value)
    (hv : unfold n σ.store (regAt σ.caller i) = some v) :
    fromdictOutcome n σ.store (regAt σ.caller i) = some (Demes.resolve v) :=
  Proofs.Heap.fromdict_outcome n σ.store _ v hv

/-! ### what goes wrong without un-aliasing (the repaired defect F1) -/

/-- With a memoising deep copy (`copy.deepcopy`: a shared sub-object is copied once, so the
copy shares it too) library code that pops a field through one reference — the first deme's
epoch — changes what the other reference — the second deme — denotes.  Concrete heap: two
demes whose `epochs` are one YAML-aliased list. -/
theorem memo_copy_counterexample :
    ∃ (s' : Store) (memo : Memo) (r' : Ref) (demeB : Ref),
      copyMemo 7 (Proofs.Heap.exStore, []) Proofs.Heap.exRoot = some ((s', memo), r') ∧
      follow s' r' [1, 1] = some demeB ∧
      ¬ Unaliased s' r' ∧
      unfold 7 (run ⟨s', [r']⟩ Proofs.Heap.exScript).store demeB ≠ unfold 7 s' demeB := by
  refine ⟨Proofs.Heap.exMemoCopy.1.1, Proofs.Heap.exMemoCopy.1.2, Proofs.Heap.exMemoCopy.2, .addr 11,
    by decide +kernel, by decide +kernel, ?_, by decide +kernel⟩
  intro h
  have := h [1, 0, 1] [1, 1, 1] 9 (by decide +kernel) (by decide +kernel)
  exact absurd this (by decide)

/-! ### non-vacuity -/

section
open Proofs.Heap

-- the example heap has no dangling references, points backwards, and has sharing
example : WF exStore [exRoot] ∧ Backward exStore :=
  ⟨wfB_sound _ _ (by decide +kernel), backwardB_sound _ (by decide +kernel)⟩
example : walk 7 exStore exRoot = some [5, 4, 2, 1, 0, 3, 1, 0] := by decide +kernel
example : ¬ ([5, 4, 2, 1, 0, 3, 1, 0] : List Addr).Nodup := by decide
example : unfold 7 exStore exRoot = some exDoc := by decide +kernel
-- `deepcopy_*`: the un-aliasing copy of it — 8 new objects for 6 old ones, a tree
example : copy 7 exStore exRoot = some exCopy ∧ exCopy.2 = .addr 13 ∧ exCopy.1.length = 14
    ∧ walk 7 exCopy.1 exCopy.2 = some [13, 12, 8, 7, 6, 11, 10, 9]
    ∧ unfold 7 exCopy.1 exCopy.2 = some exDoc := by decide +kernel
example : deepcopyUnaliased exStore exRoot = copy 7 exStore exRoot := rfl
-- `fromdict_preserves_input` / `frame` / `program_confined`: the same pop, and a longer script
-- with every kind of instruction (allocations, inserts of fresh defaults, append, overwrite,
-- sort, clear), over the un-aliased copy: the second deme of the copy is untouched by the pop,
-- and the original is untouched by everything
example :
    unfold 7 (run ⟨exCopy.1, [exCopy.2]⟩ exScript).store (.addr 11) = unfold 7 exCopy.1 (.addr 11) ∧
    unfold 7 (run ⟨exCopy.1, [exCopy.2]⟩ exScript).store exCopy.2 ≠ unfold 7 exCopy.1 exCopy.2 ∧
    unfold 7 (run ⟨exCopy.1, [exCopy.2]⟩ exScript2).store exRoot = some exDoc ∧
    (run ⟨exCopy.1, [exCopy.2]⟩ exScript2).store.length = 16 ∧
    (trace ⟨exCopy.1, [exCopy.2]⟩ exScript2).length = 11 := by decide +kernel
-- `resolve_deterministic` / `resolve_alias_insensitive`: the outcome is the pure Model's verdict
-- on `exDoc` — accepted, two demes, each with the (formerly shared) epoch of size 100
example : (match fromdictOutcome 7 exStore exRoot with
    | some (.ok g) => g.demes.map (fun d => (d.name, d.epochs.map (·.startSize)))
    | _ => []) = [("A", [100]), ("B", [100])] := by decide +kernel
-- a history: resolve, caller mutates the input (deletes deme B from the list, renames deme A),
-- resolve again, asdict of the first graph, caller empties that dictionary form: the first graph
-- still denotes the original document although the input no longer does
def exHistory : List Event :=
  [ .resolve 0 7 exScript,
    .mutate [.getKey 0 "demes", .upd 1 (.delIndex 1), .getIndex 1 0, .const (.str "Z"),
             .upd 2 (.setKey "name" 3)],
    .resolve 0 9 [],
    .asdict 1 0 9,
    .mutate [.upd 4 (.replaceDict [])] ]
example : (runEvents ⟨exStore, [exRoot], []⟩ exHistory).returned.length = 2 := by decide +kernel
example :
    let σ1 := runEvents ⟨exStore, [exRoot], []⟩ (exHistory.take 1)
    let σ5 := runEvents ⟨exStore, [exRoot], []⟩ exHistory
    (σ1.returned.map (fun ρ => ρ.roots.map (unfold 9 σ1.store)))
      = ((σ5.returned.drop 1).map (fun ρ => ρ.roots.map (unfold 9 σ5.store))) ∧
    unfold 9 σ5.store exRoot ≠ unfold 9 σ1.store exRoot ∧
    unfold 9 σ1.store exRoot = some exDoc := by decide +kernel
-- a cyclic document (the caller stores the document inside itself): the copy runs out of fuel
-- (Python: RecursionError), whatever the fuel, and nothing changes
example :
    let σ := runEvents ⟨exStore, [exRoot], []⟩ [.mutate [.upd 0 (.setKey "metadata" 0)]]
    copy 50 σ.store exRoot = none ∧ (Event.step σ (.resolve 0 50 [])).store = σ.store := by
  decide +kernel
end

end Demes.Theorems
