/-
  C09, first sentence — the bridge between the two ms interpreters on the growth-free fragment:
  the string interpreter (`MsSem.step`, `stepGroup`) simulates the typed interpreter (`stepSt`,
  `stepGroupG`) option by option, through the embedding `embedSt`.
-/
import DemesVerif.Proofs.MsRTGroups
namespace Demes.Proofs.MsRT
open Demes Demes.Ms Demes.Spec Demes.Spec.C07 Demes.Spec.C09
open Demes.Spec.MsSem (Cmd Parsed Pop St Row Mat matGet matSet canonRows Move DemogSem PopSem mkSeg)
open Demes.Spec.C08 (cmdGroups initSt runState finishSem finalSegs)
open Demes.Proofs.ToMs (idx updPop stepP AliveIn OkEv stepSt_ok set_eq_modify runP)

/-! ### the embedding of states -/

/-- a population of the typed interpreter as a population of the string interpreter -/
def embedPopG (p : PopG) : Pop := closePop (evalUpds p.lo p.upd) p.hi

def embedSt (s : StG) : St :=
  { pops := s.pops.map embedPopG, mat := s.mat, snaps := s.snaps, moves := s.moves }

theorem change_hi (q : Pop) (T : Q) (ns : Option Sz) (ng : Option Q) : (q.change T ns ng).hi = q.hi := by
  unfold Pop.change; split <;> rfl

theorem change_lo (q : Pop) (T : Q) (ns : Option Sz) (ng : Option Q) : (q.change T ns ng).lo = q.lo := by
  unfold Pop.change; split <;> rfl

theorem evalUpds_hi (lo : Q) : ∀ (upd : List Upd), (evalUpds lo upd).hi = .inf := by
  intro upd
  unfold evalUpds
  generalize hq : ({ lo := lo, t0 := lo, size0 := Sz.ofQ 0 } : Pop) = q0
  have h0 : q0.hi = .inf := by rw [← hq]
  clear hq
  induction upd generalizing q0 with
  | nil => exact h0
  | cons u r ih => rw [List.foldl_cons]; exact ih _ (by rw [change_hi]; exact h0)

theorem evalUpds_lo (lo : Q) : ∀ (upd : List Upd), (evalUpds lo upd).lo = lo := by
  intro upd
  unfold evalUpds
  generalize hq : ({ lo := lo, t0 := lo, size0 := Sz.ofQ 0 } : Pop) = q0
  have h0 : q0.lo = lo := by rw [← hq]
  clear hq
  induction upd generalizing q0 with
  | nil => exact h0
  | cons u r ih => rw [List.foldl_cons]; exact ih _ (by rw [change_lo]; exact h0)

theorem evalUpds_snoc (lo : Q) (upd : List Upd) (u : Upd) :
    evalUpds lo (upd ++ [u]) = (evalUpds lo upd).change u.t (u.size.map Sz.ofQ) (u.growth.map growthQ) := by
  unfold evalUpds; rw [List.foldl_append]; rfl

theorem embedPopG_hi (p : PopG) : (embedPopG p).hi = p.hi := by
  unfold embedPopG
  cases h : p.hi with
  | inf => exact evalUpds_hi _ _
  | fin T => rfl

theorem embedPopG_lo (p : PopG) : (embedPopG p).lo = p.lo := by
  unfold embedPopG
  cases h : p.hi with
  | inf => exact evalUpds_lo _ _
  | fin T => exact evalUpds_lo _ _

theorem alive_embed (p : PopG) : Demes.Spec.MsSem.alive (embedPopG p) = aliveG p := by
  unfold Demes.Spec.MsSem.alive aliveG; rw [embedPopG_hi]

theorem embedPopG_alive {p : PopG} (h : p.hi = .inf) : embedPopG p = evalUpds p.lo p.upd := by
  unfold embedPopG; rw [h]; rfl

/-- a population as the initial state and `-es` create it -/
theorem embedPopG_new (T N0 : Q) :
    embedPopG { lo := T, upd := [⟨T, some N0, some .zero⟩] } = { lo := T, t0 := T, size0 := Sz.ofQ N0 } := by
  have : ¬ T < T := Rat.lt_irrefl
  simp [embedPopG, closePop, evalUpds, Pop.change, growthQ]

/-! ### addressing a population -/

theorem idx_toNat {i : Int} (h : 1 ≤ i) : i.toNat - 1 = idx i := by unfold idx; omega

theorem pop_inv {s : StG} {i : Int} {p : PopG} (h : s.pop i = .ok p) :
    AliveIn s i ∧ s.pops[idx i]? = some p ∧ p.hi = .inf := by
  unfold StG.pop at h
  split at h
  · cases h
  · next hi =>
    split at h
    · next q hq =>
      split at h
      · next ha =>
        cases h
        have hh : p.hi = .inf := by simpa [aliveG] using ha
        exact ⟨⟨by omega, p, hq, hh⟩, hq, hh⟩
      · cases h
    · cases h

theorem pop_embed {s : StG} {i : Int} {p : PopG} (h1 : 1 ≤ i) (hp : s.pops[idx i]? = some p) (hh : p.hi = .inf) :
    (embedSt s).pop i.toNat = .ok (embedPopG p) := by
  unfold St.pop embedSt
  simp only [idx_toNat h1, List.getElem?_map, hp, Option.map_some]
  have h2 : i.toNat ≥ 1 := by omega
  have h3 : Demes.Spec.MsSem.alive (embedPopG p) = true := by rw [alive_embed]; simp [aliveG, hh]
  simp [h2, h3, pure, Except.pure]

theorem setPop_embed (s : StG) (i : Int) (h1 : 1 ≤ i) (p' : PopG) :
    embedSt { s with pops := s.pops.set (idx i) p' } = (embedSt s).setPop i.toNat (embedPopG p') := by
  unfold embedSt St.setPop
  simp only [idx_toNat h1, List.map_set]

theorem aliveIn_get {s : StG} {i : Int} (h : AliveIn s i) : 1 ≤ i ∧ ∃ p, s.pops[idx i]? = some p ∧ p.hi = .inf := h

/-! ### one option -/

theorem toNat_ne {i j : Int} (hi : 1 ≤ i) (hj : 1 ≤ j) (h : i ≠ j) : i.toNat ≠ j.toNat := by omega

theorem map_growthQ (c : Bool) :
    (if c then some Growth.zero else none).map growthQ = if c then some (0 : Q) else none := by
  cases c <;> rfl

theorem embedSt_len (s : StG) : (embedSt s).pops.length = s.pops.length := by simp [embedSt]

theorem updPop_eq_set {s : StG} {i : Int} {p : PopG} (hp : s.pops[idx i]? = some p) (f : PopG → PopG) :
    updPop s i f = { s with pops := s.pops.set (idx i) (f p) } := by
  unfold updPop; rw [set_eq_modify _ _ p f hp]

theorem embed_upd {p : PopG} (hh : p.hi = .inf) (u : Upd) :
    embedPopG { p with upd := p.upd ++ [u] } = (embedPopG p).change u.t (u.size.map Sz.ofQ) (u.growth.map growthQ) := by
  have h1 : embedPopG { p with upd := p.upd ++ [u] } = evalUpds p.lo (p.upd ++ [u]) := by
    unfold embedPopG; simp only [hh]; rfl
  rw [h1, embedPopG_alive hh, evalUpds_snoc]

theorem embed_join {p : PopG} (hh : p.hi = .inf) (T : Q) :
    embedPopG { p with hi := .fin T } = closePop (embedPopG p) (.fin T) := by
  rw [embedPopG_alive hh]; rfl

/-- the string interpreter performs the step of the typed interpreter; the lineage-movement matrix
is updated as `stepRow` does, and the running population count is the number of populations -/
theorem step_embed {N0 : Q} {s : StG} {e : Event Growth} (he : EvRT e) (hok : OkEv s e) (L : List (Nat × Row)) :
    Demes.Spec.MsSem.step N0 (embedSt s, L) (cmdOfG e)
      = .ok (embedSt (stepP N0 s e), (stepRow (s.pops.length, L) e).2)
    ∧ (stepRow (s.pops.length, L) e).1 = (stepP N0 s e).pops.length := by
  cases e with
  | popSizeChange o t i x =>
    obtain ⟨_, h1, q, y, rfl, hq, rfl, hy⟩ := he
    obtain ⟨_, _, ha⟩ := hok
    obtain ⟨_, p, hp, hh⟩ := aliveIn_get ha
    refine ⟨?_, by simp [stepRow, stepP, updPop]⟩
    have hR : embedSt (stepP N0 s (.popSizeChange o (.fin q) i (.fin y)))
        = (embedSt s).setPop i.toNat ((embedPopG p).change (4 * N0 * q) (some (Sz.ofQ (y * N0)))
            (if numPos (.fin q) then some 0 else none)) := by
      simp only [stepP, evT, Event.t]
      rw [updPop_eq_set hp, setPop_embed s i h1, embed_upd hh]
      simp only [Option.map_some, map_growthQ]
    rw [hR]
    simp only [cmdOfG, Demes.Spec.MsSem.step, Cmd.t, pop_embed h1 hp hh, bind, Except.bind, pure, Except.pure, stepRow,
      evT, Event.t]
  | migEntryChange o t i j x =>
    obtain ⟨_, h1, h2, q, y, rfl, hq, rfl, hy⟩ := he
    obtain ⟨_, _, hai, haj, hne⟩ := hok
    obtain ⟨_, p, hp, hh⟩ := aliveIn_get hai
    obtain ⟨_, p', hp', hh'⟩ := aliveIn_get haj
    refine ⟨?_, by simp [stepRow, stepP, StG.snap]⟩
    have hne' : ¬ i.toNat = j.toNat := toNat_ne h1 h2 hne
    simp only [cmdOfG, Demes.Spec.MsSem.step, Cmd.t, pop_embed h1 hp hh, pop_embed h2 hp' hh', bind, Except.bind, pure,
      Except.pure, stepRow, stepP, evT, Event.t, hne', if_false, idx_toNat h1, idx_toNat h2]
    rfl
  | split o t i x =>
    obtain ⟨_, h1, q, y, rfl, hq, rfl, hy0, hy1⟩ := he
    obtain ⟨_, _, ha⟩ := hok
    obtain ⟨_, p, hp, hh⟩ := aliveIn_get ha
    refine ⟨?_, by simp [stepRow, stepP, StG.snap]⟩
    have hR : embedSt (stepP N0 s (.split o (.fin q) i (.fin y)))
        = ({ embedSt s with pops := (embedSt s).pops ++ [({ lo := 4 * N0 * q, t0 := 4 * N0 * q, size0 := Sz.ofQ N0 } : Pop)] }).snap
            (4 * N0 * q) ((embedSt s).mat.map (fun r => r ++ [0]) ++ [List.replicate ((embedSt s).pops.length + 1) 0]) := by
      simp only [stepP, evT, Event.t, embedSt_len]
      unfold embedSt St.snap StG.snap Demes.Proofs.ToMs.extendMat
      simp only [List.map_append, List.map_cons, List.map_nil, embedPopG_new]
    rw [hR]
    simp only [cmdOfG, Demes.Spec.MsSem.step, Cmd.t, pop_embed h1 hp hh, bind, Except.bind, pure, Except.pure, stepRow,
      evT, Event.t, embedSt_len]
  | join o t i j =>
    obtain ⟨_, h1, h2, q, rfl, hq⟩ := he
    obtain ⟨_, hai, haj, hne⟩ := hok
    obtain ⟨_, p, hp, hh⟩ := aliveIn_get hai
    obtain ⟨_, p', hp', hh'⟩ := aliveIn_get haj
    refine ⟨?_, by simp [stepRow, stepP, StG.snap, updPop]⟩
    have hne' : ¬ i.toNat = j.toNat := toNat_ne h1 h2 hne
    have hR : embedSt (stepP N0 s (.join o (.fin q) i j))
        = ((embedSt s).setPop i.toNat (closePop (embedPopG p) (.fin (4 * N0 * q)))).snap (4 * N0 * q)
            ((List.range (embedSt s).pops.length).map (fun a => (List.range (embedSt s).pops.length).map (fun b =>
              if a = i.toNat - 1 || b = i.toNat - 1 then 0 else matGet (embedSt s).mat a b))) := by
      simp only [stepP, evT, Event.t, embedSt_len, idx_toNat h1]
      rw [updPop_eq_set hp, ← embed_join hh, ← setPop_embed s i h1]
      rfl
    rw [hR]
    simp only [cmdOfG, Demes.Spec.MsSem.step, Cmd.t, pop_embed h1 hp hh, pop_embed h2 hp' hh', bind, Except.bind, pure,
      Except.pure, stepRow, evT, Event.t, hne', if_false]
    rfl
  | growthRateChange => exact he.elim
  | popGrowthRateChange => exact he.elim
  | sizeChange => exact he.elim
  | migRateChange => exact he.elim
  | migMatrixChange => exact he.elim

/-- a successful step of the typed interpreter is the pure step on a well-addressed option -/
theorem stepSt_inv {N0 : Q} {s s' : StG} {e : Event Growth} (he : EvRT e) (h : stepSt N0 s e = .ok s') :
    OkEv s e ∧ s' = stepP N0 s e := by
  have hok : OkEv s e := by
    cases e with
    | popSizeChange o t i x =>
      obtain ⟨_, h1, q, y, rfl, hq, rfl, hy⟩ := he
      simp only [stepSt, Event.t, bind, Except.bind, pure, Except.pure] at h
      cases hp : s.pop i with
      | error err => rw [hp] at h; cases h
      | ok p => exact ⟨⟨q, rfl⟩, ⟨y, rfl⟩, (pop_inv hp).1⟩
    | migEntryChange o t i j x =>
      obtain ⟨_, h1, h2, q, y, rfl, hq, rfl, hy⟩ := he
      simp only [stepSt, Event.t, bind, Except.bind, pure, Except.pure] at h
      cases hp : s.pop i with
      | error err => rw [hp] at h; cases h
      | ok p =>
        rw [hp] at h
        cases hp' : s.pop j with
        | error err => rw [hp'] at h; cases h
        | ok p' =>
          rw [hp'] at h
          by_cases hij : i = j
          · simp [hij, throw, throwThe, MonadExceptOf.throw] at h
          · exact ⟨⟨q, rfl⟩, ⟨y, rfl⟩, (pop_inv hp).1, (pop_inv hp').1, hij⟩
    | split o t i x =>
      obtain ⟨_, h1, q, y, rfl, hq, rfl, hy0, hy1⟩ := he
      simp only [stepSt, Event.t, bind, Except.bind, pure, Except.pure] at h
      cases hp : s.pop i with
      | error err => rw [hp] at h; cases h
      | ok p => exact ⟨⟨q, rfl⟩, ⟨y, rfl, hy0, hy1⟩, (pop_inv hp).1⟩
    | join o t i j =>
      obtain ⟨_, h1, h2, q, rfl, hq⟩ := he
      simp only [stepSt, Event.t, bind, Except.bind, pure, Except.pure] at h
      cases hp : s.pop i with
      | error err => rw [hp] at h; cases h
      | ok p =>
        rw [hp] at h
        cases hp' : s.pop j with
        | error err => rw [hp'] at h; cases h
        | ok p' =>
          rw [hp'] at h
          by_cases hij : i = j
          · simp [hij, throw, throwThe, MonadExceptOf.throw] at h
          · exact ⟨⟨q, rfl⟩, (pop_inv hp).1, (pop_inv hp').1, hij⟩
    | growthRateChange => exact he.elim
    | popGrowthRateChange => exact he.elim
    | sizeChange => exact he.elim
    | migRateChange => exact he.elim
    | migMatrixChange => exact he.elim
  refine ⟨hok, ?_⟩
  rw [stepSt_ok hok] at h
  cases h
  rfl

/-! ### the options of one time group -/

theorem fold_embed {N0 : Q} : ∀ (grp : List (Event Growth)) (s s' : StG) (L : List (Nat × Row)),
    (∀ e ∈ grp, EvRT e) → grp.foldlM (stepSt N0) s = .ok s' →
    (grp.map cmdOfG).foldlM (Demes.Spec.MsSem.step N0) (embedSt s, L)
        = .ok (embedSt s', (grp.foldl stepRow (s.pops.length, L)).2)
  | [], s, s', L, _, h => by cases h; rfl
  | e :: r, s, s', L, he, h => by
    rw [List.foldlM_cons] at h
    cases h1 : stepSt N0 s e with
    | error err => rw [h1] at h; cases h
    | ok s1 =>
      rw [h1] at h
      obtain ⟨hok, rfl⟩ := stepSt_inv (he e List.mem_cons_self) h1
      obtain ⟨hs, hn⟩ := step_embed (N0 := N0) (he e List.mem_cons_self) hok L
      rw [List.map_cons, List.foldlM_cons, hs]
      simp only [bind, Except.bind]
      have ih := fold_embed r (stepP N0 s e) s' (stepRow (s.pops.length, L) e).2
        (fun x hx => he x (List.mem_cons_of_mem _ hx)) h
      rw [ih, List.foldl_cons, ← hn]

theorem zipIdx_map {α β} (f : α → β) : ∀ (l : List α) (k : Nat),
    (l.map f).zipIdx k = (l.zipIdx k).map (fun ai => (f ai.1, ai.2))
  | [], _ => rfl
  | a :: l, k => by simp [List.zipIdx_cons, zipIdx_map f l (k + 1)]

theorem rows0_embed (s : StG) :
    (((embedSt s).pops.zipIdx).filter (fun pi => Demes.Spec.MsSem.alive pi.1)).map (fun pi => (pi.2 + 1, ([(pi.2 + 1, (1 : Q))] : Row)))
      = rows0 s := by
  unfold rows0 embedSt
  simp only [zipIdx_map, List.filter_map, List.map_map]
  congr 1
  apply List.filter_congr
  intro x _
  simp [Function.comp, alive_embed]

theorem isMove_cmdOfG {e : Event Growth} (h : EvRT e) : Demes.Spec.MsSem.isMove (cmdOfG e) = isSplitJoin e := by
  cases e with
  | popSizeChange o t i x => obtain ⟨_, _, q, y, rfl, _, rfl, _⟩ := h; rfl
  | migEntryChange o t i j x => obtain ⟨_, _, _, q, y, rfl, _, rfl, _⟩ := h; rfl
  | split o t i p => obtain ⟨_, _, q, y, rfl, _, rfl, _⟩ := h; rfl
  | join o t i j => rfl
  | growthRateChange => exact h.elim
  | popGrowthRateChange => exact h.elim
  | sizeChange => exact h.elim
  | migRateChange => exact h.elim
  | migMatrixChange => exact h.elim

theorem any_isMove : ∀ {grp : List (Event Growth)}, (∀ e ∈ grp, EvRT e) →
    (grp.map cmdOfG).any Demes.Spec.MsSem.isMove = grp.any isSplitJoin
  | [], _ => rfl
  | e :: r, he => by
    rw [List.map_cons, List.any_cons, List.any_cons, isMove_cmdOfG (he e List.mem_cons_self),
      any_isMove (fun x hx => he x (List.mem_cons_of_mem _ hx))]

/-- **one time group** -/
theorem stepGroup_embed {N0 : Q} {grp : List (Event Growth)} {s s' : StG} (he : ∀ e ∈ grp, EvRT e)
    (h : stepGroupG N0 s grp = .ok s') :
    Demes.Spec.MsSem.stepGroup N0 (embedSt s) (grp.map cmdOfG) = .ok (embedSt s') := by
  unfold stepGroupG at h
  cases h1 : grp.foldlM (stepSt N0) s with
  | error err => rw [h1] at h; cases h
  | ok s1 =>
    rw [h1] at h
    simp only [bind, Except.bind] at h
    unfold Demes.Spec.MsSem.stepGroup
    dsimp only
    rw [rows0_embed, fold_embed grp s s1 (rows0 s) he h1]
    simp only [bind, Except.bind, any_isMove he]
    have hT : ((grp.map cmdOfG).head?.map Cmd.t).getD 0 = (grp.head?.map evT).getD 0 := by
      cases grp with
      | nil => rfl
      | cons e r => simp [cmdOfG_t (he e List.mem_cons_self)]
    rw [hT]
    by_cases hsj : grp.any isSplitJoin = true
    · simp only [hsj, if_true, pure, Except.pure] at h ⊢
      cases h
      split <;> rfl
    · simp only [hsj, Bool.false_eq_true, if_false, pure, Except.pure] at h ⊢
      cases h
      rfl

theorem groups_embed {N0 : Q} : ∀ (gs : List (List (Event Growth))) (s s' : StG),
    (∀ grp ∈ gs, ∀ e ∈ grp, EvRT e) → gs.foldlM (stepGroupG N0) s = .ok s' →
    (gs.map (List.map cmdOfG)).foldlM (Demes.Spec.MsSem.stepGroup N0) (embedSt s) = .ok (embedSt s')
  | [], s, s', _, h => by cases h; rfl
  | grp :: gs, s, s', he, h => by
    rw [List.foldlM_cons] at h
    cases h1 : stepGroupG N0 s grp with
    | error err => rw [h1] at h; cases h
    | ok s1 =>
      rw [h1] at h
      rw [List.map_cons, List.foldlM_cons, stepGroup_embed (he grp List.mem_cons_self) h1]
      exact groups_embed gs s1 s' (fun g hg => he g (List.mem_cons_of_mem _ hg)) h

end Demes.Proofs.MsRT
