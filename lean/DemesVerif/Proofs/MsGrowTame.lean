/-
  C09 §8 — the command `to_ms` prints for a valid ms-expressible graph (exponential epochs allowed) with
  tame pulses: every option record is in the fragment `EvG` (`evG_finalEvs`), every growth rate printed is
  the rate of an epoch of the graph (`alphas_finalEvs`, `alphaOK_toMs`), and the parsed command lies in
  `C08.Tame'` (`tame_finalEvsV`, `tame_toMsV`).  (`Proofs/MsRTTame.lean` + `Proofs/MsRTTame2.lean` without
  `ConstSizes`; everything there that does not mention `EvRT` / `cmdOfG` / `prOf` is reused.)
-/
import DemesVerif.Proofs.MsGrowGroups
import DemesVerif.Proofs.MsRTTame2
set_option linter.unusedSimpArgs false
set_option linter.unusedVariables false
namespace Demes.Proofs.MsGrow
open Demes Demes.Ms Demes.Spec Demes.Spec.C07 Demes.Spec.C09
open Demes.Spec.MsSem (Cmd Parsed isMove)
open Demes.Spec.C08 (groupOps groupOpsAux flushOp noSourceAfterTarget GoodGroup goodGroups Tame' isSplitC cmdGroups)
open Demes.Proofs.ToMs
open Demes.Proofs.MsRT (key_pos groupOpsAux_skip groupOpsAux_cons_congr demeMoves pulseMove dpMoves nsat_dpMoves
  SplitPos splitPos_scale splitPos_rawEvs pulsesTame_inGen_of_valid)

/-! ### scaling keeps the fragment -/

theorem evG_scale {N0 : Q} (hN : 0 < N0) {e : Event Growth} (h : EvG e) : EvG (scaleEv N0 e) := by
  have h4 : (0 : Q) < 4 * N0 := by grind
  cases e with
  | popSizeChange o t i x =>
    obtain ⟨ho, hi, q, y, rfl, hq, rfl, hy⟩ := h
    exact ⟨ho, hi, q / (4 * N0), y, rfl, (InGen.div_nonneg h4).2 hq, rfl, hy⟩
  | popGrowthRateChange o t i G =>
    obtain ⟨ho, hi, q, rfl, hq⟩ := h
    exact ⟨ho, hi, q / (4 * N0), rfl, (InGen.div_nonneg h4).2 hq⟩
  | migEntryChange o t i j x =>
    obtain ⟨ho, hi, hj, q, y, rfl, hq, rfl, hy⟩ := h
    exact ⟨ho, hi, hj, q / (4 * N0), y, rfl, (InGen.div_nonneg h4).2 hq, rfl, hy⟩
  | split o t i p =>
    obtain ⟨ho, hi, q, y, rfl, hq, rfl, hy0, hy1⟩ := h
    exact ⟨ho, hi, q / (4 * N0), y, rfl, (InGen.div_pos h4).2 hq, rfl, hy0, hy1⟩
  | join o t i j =>
    obtain ⟨ho, hi, hj, q, rfl, hq⟩ := h
    exact ⟨ho, hi, hj, q / (4 * N0), rfl, (InGen.div_pos h4).2 hq⟩
  | growthRateChange => exact h.elim
  | sizeChange => exact h.elim
  | migRateChange => exact h.elim
  | migMatrixChange => exact h.elim

/-! ### every option of the closed form is in the fragment -/

theorem evG_rawEvs {g : Graph} (c : Clauses g) (hx : MsExpressible g = true)
    {N0 : Q} (hN : 0 < N0) {ev : Event Growth} (h : ev ∈ rawEvs g N0) : EvG ev := by
  simp only [rawEvs, List.mem_append] at h
  rcases h with (h | h) | h
  · obtain ⟨dj, hdj, e, he, h'⟩ := mem_sizeEvsAll h
    have hm : dj.1 ∈ g.demes := mem_zipIdx_fst hdj
    have hok := epochOk_of_valid c hx hm he
    rcases h' with rfl | rfl
    · have hx0 : 0 ≤ e.endSize / N0 := by
        have := (InGen.div_pos (a := e.endSize) hN).2 hok.endSize; grind
      exact ⟨rfl, by omega, e.endTime, e.endSize / N0, rfl, hok.endTime, rfl, hx0⟩
    · exact ⟨rfl, by omega, e.endTime, rfl, hok.endTime⟩
  · have hgood := evGood_ancEvs _ _ (dpOk_of_valid c hx) h
    have hmem := (goodXs_dps c).mem
    have hok := ancEvOk_ancEvs c hx (dps g) g.demes.length (Nat.le_refl _) hmem h
    obtain ⟨x, hxm, q, hk, ht⟩ := ancEvs_key (dps g) g.demes.length (dpOk_of_valid c hx) h
    have hq : 0 < q := key_pos c (hmem x hxm) hk
    have ho := hgood.opt
    cases ev with
    | split o t i p =>
      obtain ⟨_, ⟨y, rfl, hy0, hy1⟩, hi, _⟩ := hok
      simp only [Event.t] at ht
      exact ⟨ho, hi, q, y, ht, hq, rfl, hy0, hy1⟩
    | join o t i j =>
      obtain ⟨_, hi, hj, _, _⟩ := hok
      simp only [Event.t] at ht
      exact ⟨ho, hi, hj, q, ht, hq⟩
    | _ => exact hok.elim
  · simp only [migEvs, List.mem_append, migOffs, migOns, List.mem_map, List.mem_filter] at h
    rcases h with ⟨m, ⟨hm, hc⟩, rfl⟩ | ⟨m, hm, rfl⟩
    · have hmo := migOk_of_valid c hm
      cases hst : m.startTime with
      | inf => simp [offCond, hst, ETime.isInf] at hc
      | fin t =>
        have h1 := idOf_pos g m.dest
        have h2 := idOf_pos g m.source
        refine ⟨rfl, by omega, by omega, t, 0, by simp [hst, Num.ofETime], hmo.start t hst, rfl, by grind⟩
    · have hmo := migOk_of_valid c hm
      have h1 := idOf_pos g m.dest
      have h2 := idOf_pos g m.source
      have hr : 0 ≤ 4 * N0 * m.rate := by
        have h4 : 0 ≤ 4 * N0 := by grind
        exact Rat.mul_nonneg h4 hmo.rate
      exact ⟨rfl, by omega, by omega, m.endTime, _, rfl, hmo.endTime, rfl, hr⟩

/-- every event of the closed form is in the fragment `EvG` -/
theorem evG_finalEvs {g : Graph} (c : ToMs.Clauses g) (hx : MsExpressible g = true) {N0 : Q} (hN : 0 < N0) :
    ∀ e ∈ ToMs.finalEvs g N0, EvG e := by
  intro e he
  obtain ⟨e', he', rfl⟩ := List.mem_map.1 he
  exact evG_scale hN (evG_rawEvs c hx hN ((mem_sortBy _).1 he'))

/-! ### the growth rates printed -/

theorem scale_growth_inv {N0 : Q} {y : Event Growth} {o : String} {t : Num} {i : Int} {G : Growth}
    (h : scaleEv N0 y = .popGrowthRateChange o t i G) : ∃ t', y = .popGrowthRateChange o t' i G := by
  cases y <;> simp [scaleEv, Event.setT] at h
  obtain ⟨rfl, _, rfl, rfl⟩ := h
  exact ⟨_, rfl⟩

/-- a growth option of the closed form is the one `demeSizeEvents` emits for an epoch of a deme -/
theorem growth_rawEvs {g : Graph} {N0 : Q} {o : String} {t : Num} {i : Int} {G : Growth}
    (h : Event.popGrowthRateChange o t i G ∈ rawEvs g N0) :
    ∃ dj ∈ g.demes.zipIdx, ∃ e ∈ dj.1.epochs, o = "" ∧ t = .fin e.endTime ∧ i = ((dj.2 + 1 : Nat) : Int)
      ∧ G = growthOf N0 e := by
  rcases mem_rawEvs h with h | h | h
  · obtain ⟨dj, hdj, e, he, h'⟩ := mem_sizeEvsAll h
    rcases h' with h' | h'
    · cases h'
    · cases h'
      exact ⟨dj, hdj, e, he, rfl, rfl, rfl, rfl⟩
  · have := splitJoin_ancEvs h; cases this
  · have := migKind_migEvs h; cases this

/-- every growth rate printed is the rate `to_ms` computes for an epoch of the graph -/
theorem alphas_finalEvs {g : Graph} (c : ToMs.Clauses g) (hx : MsExpressible g = true) {N0 : Q} (hN : 0 < N0) :
    ∀ G ∈ alphasOf (ToMs.finalEvs g N0), ∃ d ∈ g.demes, ∃ e ∈ d.epochs, G = growthOf N0 e := by
  intro G hG
  obtain ⟨x, hx', hxG⟩ := List.mem_filterMap.1 hG
  cases x with
  | popGrowthRateChange o t i G' =>
    cases hxG
    obtain ⟨y, hy, hs⟩ := finalEvs_mem c hx hx'
    obtain ⟨t', rfl⟩ := scale_growth_inv hs.symm
    obtain ⟨dj, hdj, e, he, _, _, _, hG'⟩ := growth_rawEvs hy
    exact ⟨dj.1, mem_zipIdx_fst hdj, e, he, hG'⟩
  | _ => cases hxG

/-! ### `groupOps` reads the `-es` / `-ej` options only -/

theorem isMove_cmdOfV_of_not_sj (gv : Growth → Q) {e : Event Growth} (h : isSplitJoin e = false) :
    isMove (cmdOfV gv e) = false := by
  cases e with
  | popSizeChange o t i x => cases x <;> rfl
  | migEntryChange o t i j x => cases x <;> rfl
  | split => cases h
  | join => cases h
  | _ => rfl

theorem groupOpsAux_filter (gv : Growth → Q) : ∀ (l : List (Event Growth)) (n : Nat) (pend : Option (Nat × Q)),
    groupOpsAux n pend (l.map (cmdOfV gv)) = groupOpsAux n pend ((l.filter isSplitJoin).map (cmdOfV gv))
  | [], _, _ => rfl
  | e :: l, n, pend => by
    cases hsj : isSplitJoin e with
    | false =>
      simp only [List.map_cons, List.filter_cons, hsj, Bool.false_eq_true, if_false]
      rw [groupOpsAux_skip (isMove_cmdOfV_of_not_sj gv hsj)]
      exact groupOpsAux_filter gv l n pend
    | true =>
      simp only [List.map_cons, List.filter_cons, hsj, if_true]
      exact groupOpsAux_cons_congr _ (fun n' pend' => groupOpsAux_filter gv l n' pend') n pend

theorem cmdOfV_scale_split (gv : Growth → Q) (N0 : Q) (o : String) (t : Num) (i : Int) (y : Q) :
    ∃ t', (cmdOfV gv) (scaleEv N0 (.split o t i (.fin y))) = .split t' i.toNat y := ⟨_, rfl⟩

theorem cmdOfV_scale_join (gv : Growth → Q) (N0 : Q) (o : String) (t : Num) (i j : Int) :
    ∃ t', (cmdOfV gv) (scaleEv N0 (.join o t i j)) = .join t' i.toNat j.toNat := ⟨_, rfl⟩

theorem groupOps_ancDemeEvs (gv : Growth → Q) (g : Graph) (d : Deme) (N0 : Q) :
    ∀ (aks : List (String × Nat)) (n : Nat) (rest : List Cmd),
      groupOpsAux n none (((ancDemeEvs g d n aks).map (scaleEv N0)).map (cmdOfV gv) ++ rest)
        = demeMoves g d aks ++ groupOpsAux (ancDemeCount d n aks) none rest
  | [], n, rest => rfl
  | (a, k) :: r, n, rest => by
    by_cases hl : k = d.ancestors.length - 1
    · simp only [ancDemeEvs, ancDemeCount, demeMoves, hl, if_true, List.map_cons, List.cons_append]
      obtain ⟨t', ht'⟩ := cmdOfV_scale_join gv N0 "" (Num.ofETime d.startTime) (idOf g d.name) (idOf g a)
      rw [ht']
      simp only [groupOpsAux]
      rw [groupOps_ancDemeEvs gv g d N0 r n rest]
    · simp only [ancDemeEvs, ancDemeCount, demeMoves, hl, if_false, List.map_cons, List.cons_append]
      obtain ⟨t1, ht1⟩ := cmdOfV_scale_split gv N0 "" (Num.ofETime d.startTime) (idOf g d.name) (1 - tailProp d k)
      obtain ⟨t2, ht2⟩ := cmdOfV_scale_join gv N0 "" (Num.ofETime d.startTime) ((n + 1 : Nat) : Int) (idOf g a)
      rw [ht1, ht2]
      have hn : ((n + 1 : Nat) : Int).toNat = n + 1 := by omega
      simp only [groupOpsAux, flushOp, List.nil_append, hn, if_true]
      rw [groupOps_ancDemeEvs gv g d N0 r (n + 1) rest]

theorem groupOps_ancEvs (gv : Growth → Q) (g : Graph) (N0 : Q) : ∀ (xs : List DemeOrPulse) (n : Nat),
    groupOpsAux n none (((ancEvs g n xs).map (scaleEv N0)).map (cmdOfV gv)) = dpMoves g xs
  | [], n => rfl
  | .deme d :: r, n => by
    rw [ancEvs, List.map_append, List.map_append, groupOps_ancDemeEvs, dpMoves, groupOps_ancEvs gv g N0 r]
  | .pulse p :: r, n => by
    simp only [ancEvs, pulseEvs, List.cons_append, List.nil_append, List.map_cons, dpMoves, pulseMove]
    obtain ⟨t1, ht1⟩ := cmdOfV_scale_split gv N0 "" (.fin p.time) (idOf g p.dest) (1 - p.proportions.headD 0)
    obtain ⟨t2, ht2⟩ := cmdOfV_scale_join gv N0 "" (.fin p.time) ((n + 1 : Nat) : Int) (idOf g (p.sources.headD ""))
    rw [ht1, ht2]
    have hn : ((n + 1 : Nat) : Int).toNat = n + 1 := by omega
    simp only [groupOpsAux, flushOp, List.nil_append, hn, if_true]
    rw [groupOps_ancEvs gv g N0 r (n + 1)]

/-! ### what `GoodGroup` asks of each option -/

/-- what `GoodGroup` asks of each option -/
theorem cmdTame (gv : Growth → Q) {e : Event Growth} (h : EvG e) (hs : SplitPos e) :
    (match cmdOfV gv e with
      | .split _ _ p => decide (0 < p) && decide (p ≤ 1)
      | _ => true) = true ∧ (isMove (cmdOfV gv e) = true → 0 < (cmdOfV gv e).t) := by
  cases e with
  | popSizeChange o t i x => obtain ⟨_, _, q, y, rfl, _, rfl, _⟩ := h; exact ⟨rfl, fun h => by cases h⟩
  | popGrowthRateChange o t i G => exact ⟨rfl, fun h => by cases h⟩
  | migEntryChange o t i j x => obtain ⟨_, _, _, q, y, rfl, _, rfl, _⟩ := h; exact ⟨rfl, fun h => by cases h⟩
  | split o t i p =>
    obtain ⟨_, _, q, y, rfl, hq, rfl, _, hy1⟩ := h
    have hy0 : 0 < y := hs
    refine ⟨?_, fun _ => hq⟩
    simp only [cmdOfV, Bool.and_eq_true, decide_eq_true_eq]
    exact ⟨hy0, hy1⟩
  | join o t i j => obtain ⟨_, _, _, q, rfl, hq⟩ := h; exact ⟨rfl, fun _ => hq⟩
  | growthRateChange => exact h.elim
  | sizeChange => exact h.elim
  | migRateChange => exact h.elim
  | migMatrixChange => exact h.elim

theorem isSplitC_cmdOfV (gv : Growth → Q) (e : Event Growth) : isSplitC (cmdOfV gv e) = isSplitFin e := by
  cases e with
  | popSizeChange o t i x => cases x <;> rfl
  | migEntryChange o t i j x => cases x <;> rfl
  | split o t i p => cases p <;> rfl
  | _ => rfl

theorem count_splitC (gv : Growth → Q) (l : List (Event Growth)) :
    ((l.map (cmdOfV gv)).filter isSplitC).length = (l.filter isSplitFin).length := by
  rw [List.filter_map, List.length_map]
  congr 1
  apply List.filter_congr
  intro x _
  exact isSplitC_cmdOfV gv x

/-! ### every time group is good -/

section
variable (gv : Growth → Q) {g : Graph} (c : Clauses g) (hx : MsExpressible g = true)
  (hpt : PulsesTame g = true) {N0 : Q} (hN : 0 < N0)
include c hx hpt hN

theorem cmdTame_finalEvs {e : Event Growth} (he : e ∈ finalEvs g N0) :
    (match cmdOfV gv e with
      | .split _ _ p => decide (0 < p) && decide (p ≤ 1)
      | _ => true) = true ∧ (isMove (cmdOfV gv e) = true → 0 < (cmdOfV gv e).t) := by
  refine cmdTame gv (evG_finalEvs c hx hN e he) ?_
  obtain ⟨e', he', rfl⟩ := List.mem_map.1 he
  exact splitPos_scale N0 (splitPos_rawEvs c hx hpt ((mem_sortBy _).1 he'))

/-- one time group of the command, read after the options `pre` -/
theorem goodGroup_group {pre grp post : List (Event Growth)} (hF : finalEvs g N0 = pre ++ grp ++ post)
    (hne : grp ≠ []) (hsame : ∀ a ∈ grp, ∀ b ∈ grp, evT a = evT b)
    (hpre : ∀ a ∈ pre, ∀ b ∈ grp, evT a < evT b) (hpost : ∀ a ∈ grp, ∀ b ∈ post, evT a < evT b) :
    GoodGroup (g.demes.length + ((pre.map (cmdOfV gv)).filter isSplitC).length) (grp.map (cmdOfV gv)) = true := by
  obtain ⟨h0, tl, rfl⟩ : ∃ h0 tl, grp = h0 :: tl := by
    cases grp with
    | nil => exact absurd rfl hne
    | cons h0 tl => exact ⟨h0, tl, rfl⟩
  have hT : timeOf N0 (h0 :: tl) / (4 * N0) = evT h0 := by
    simp only [timeOf, List.head?_cons, Option.map_some, Option.getD_some]
    exact mul_div_cancel_left4 hN _
  have b1 : ∀ a ∈ pre, evT a < timeOf N0 (h0 :: tl) / (4 * N0) := fun a ha => by
    rw [hT]; exact hpre a ha h0 List.mem_cons_self
  have b2 : ∀ a ∈ h0 :: tl, evT a = timeOf N0 (h0 :: tl) / (4 * N0) := fun a ha => by
    rw [hT]; exact hsame a ha h0 List.mem_cons_self
  have b3 : ∀ b ∈ post, timeOf N0 (h0 :: tl) / (4 * N0) < evT b := fun b hb => by
    rw [hT]; exact hpost h0 List.mem_cons_self b hb
  obtain ⟨_, hgrp⟩ := group_parts c hx hN (T := timeOf N0 (h0 :: tl)) hF b1 b2 b3
  have hcount : g.demes.length + ((pre.map (cmdOfV gv)).filter isSplitC).length
      = ancCount g.demes.length (dpsLt g (timeOf N0 (h0 :: tl))) := by
    have := count_pre c hx hN (T := timeOf N0 (h0 :: tl)) hF b1 b2 b3
    rw [runP_len] at this
    have hlen : (s0Of N0 g.demes.length).pops.length = g.demes.length := by simp [s0Of]
    rw [hlen] at this
    rw [count_splitC, this]
  have hmem : ∀ e ∈ h0 :: tl, e ∈ finalEvs g N0 := fun e he => by
    rw [hF]; exact List.mem_append_left _ (List.mem_append_right _ he)
  unfold GoodGroup
  simp only [Bool.and_eq_true]
  refine ⟨⟨?_, ?_⟩, ?_⟩
  · rw [hcount]
    unfold groupOps
    rw [groupOpsAux_filter, hgrp, groupOps_ancEvs]
    exact nsat_dpMoves c hx hpt _
  · rw [List.all_eq_true]
    intro cm hcm
    obtain ⟨e, he, rfl⟩ := List.mem_map.1 hcm
    exact (cmdTame_finalEvs gv c hx hpt hN (hmem e he)).1
  · rw [List.all_eq_true]
    intro cm hcm
    obtain ⟨hcm1, hcm2⟩ := List.mem_filter.1 hcm
    obtain ⟨e, he, rfl⟩ := List.mem_map.1 hcm1
    simp only [decide_eq_true_eq]
    exact (cmdTame_finalEvs gv c hx hpt hN (hmem e he)).2 hcm2

/-- the time groups `G`, read after the options `pre` -/
theorem goodGroups_groups : ∀ (G : List (List (Event Growth))) (pre : List (Event Growth)),
    finalEvs g N0 = pre ++ G.flatten → GroupsOK G →
    (∀ a ∈ pre, ∀ grp ∈ G, ∀ b ∈ grp, evT a < evT b) →
    goodGroups (g.demes.length + ((pre.map (cmdOfV gv)).filter isSplitC).length) (G.map (List.map (cmdOfV gv))) = true
  | [], _, _, _, _ => rfl
  | grp :: rest, pre, hF, hok, hsep => by
    have hinc := List.pairwise_cons.1 hok.inc
    obtain ⟨hne, hsame⟩ := hok.same grp List.mem_cons_self
    have hF' : finalEvs g N0 = pre ++ grp ++ rest.flatten := by rw [hF]; simp
    have hpost : ∀ a ∈ grp, ∀ b ∈ rest.flatten, evT a < evT b := by
      intro a ha b hb
      obtain ⟨g2, hg2, hb2⟩ := List.mem_flatten.1 hb
      exact hinc.1 g2 hg2 a ha b hb2
    have h1 := goodGroup_group gv c hx hpt hN hF' hne hsame
      (fun a ha b hb => hsep a ha grp List.mem_cons_self b hb) hpost
    have h2 := goodGroups_groups rest (pre ++ grp) (by rw [hF'])
      ⟨hinc.2, fun g2 hg2 => hok.same g2 (List.mem_cons_of_mem _ hg2)⟩ (by
        intro a ha g2 hg2 b hb
        rcases List.mem_append.1 ha with ha | ha
        · exact hsep a ha g2 (List.mem_cons_of_mem _ hg2) b hb
        · exact hinc.1 g2 hg2 a ha b hb)
    simp only [List.map_append, List.filter_append, List.length_append, ← Nat.add_assoc] at h2
    simp only [List.map_cons, goodGroups, Bool.and_eq_true]
    exact ⟨h1, h2⟩

end

/-- the command `to_ms` prints for a valid ms-expressible graph with tame pulses lies in `Tame'` -/
theorem tame_finalEvsV (gv : Growth → Q) {g : Graph} (c : ToMs.Clauses g) (hx : MsExpressible g = true)
    (hpt : PulsesTame g = true) {N0 : Q} (hN : 0 < N0) (samples : Option (List Int)) :
    Demes.Spec.C08.Tame' (prOfV gv (ToMs.headerOf g samples) (ToMs.finalEvs g N0)) = true := by
  have hn : (prOfV gv (headerOf g samples) (finalEvs g N0)).npop = g.demes.length := by
    show ((headerOf g samples).map (·.1)).getD 1 = g.demes.length
    unfold headerOf
    have := demes_pos c
    by_cases h1 : g.demes.length > 1
    · simp [h1]
    · simp [h1]; omega
  unfold Tame'
  rw [hn, cmdGroups_prOfV gv _ _ (evG_finalEvs c hx hN) (sorted_finalEvs c hx hN)]
  have := goodGroups_groups gv c hx hpt hN (groupsByTime (finalEvs g N0)) []
    (by rw [flatten_groupsByTime]; rfl) (groupsOK_groupsByTime _ (sorted_byQ_finalEvs c hx hN))
    (fun a ha => by cases ha)
  simpa using this

/-! ### transport along `inGenerations` -/

/-- `evG_finalEvs` for the command of `to_ms graph` -/
theorem evG_toMs {graph : Graph} (hv : validGraph graph = true) (hx : MsExpressible graph = true) {N0 : Q} (hN : 0 < N0) :
    ∀ e ∈ ToMs.finalEvs (inGenerations graph) N0, EvG e :=
  evG_finalEvs (clauses_of_valid (InGen.inGenerations_valid graph hv)) (by rw [expr_inGen]; exact hx) hN

/-- the printed growth rates of the command of `to_ms graph` read as finite numbers and are arguments for
argparse, for a printer that is good on the growth rates of the epochs of the graph -/
theorem alphaOK_toMs {graph : Graph} (hv : validGraph graph = true) (hx : MsExpressible graph = true) {N0 : Q} (hN : 0 < N0)
    {sa : Growth → String} (hsa : GrowthPrinter sa (epochGrowths graph N0)) :
    AlphaOK sa (ToMs.finalEvs (inGenerations graph) N0) := by
  intro G hG
  obtain ⟨d, hd, e, he, rfl⟩ := alphas_finalEvs (clauses_of_valid (InGen.inGenerations_valid graph hv))
    (by rw [expr_inGen]; exact hx) hN G hG
  have hm : growthOf N0 e ∈ epochGrowths graph N0 :=
    List.mem_flatMap.2 ⟨d, hd, List.mem_map.2 ⟨e, he, rfl⟩⟩
  exact ⟨hsa.parse _ hm, hsa.arg _ hm⟩

/-- `tame_finalEvsV` for the command of `to_ms graph`: hypotheses on the graph itself -/
theorem tame_toMsV (gv : Growth → Q) {graph : Graph} (hv : validGraph graph = true) (hx : MsExpressible graph = true)
    (hpt : PulsesTame graph = true) {N0 : Q} (hN : 0 < N0) (samples : Option (List Int)) :
    Demes.Spec.C08.Tame' (prOfV gv (ToMs.headerOf (inGenerations graph) samples) (ToMs.finalEvs (inGenerations graph) N0)) = true :=
  tame_finalEvsV gv (clauses_of_valid (InGen.inGenerations_valid graph hv)) (by rw [expr_inGen]; exact hx)
    (by rw [pulsesTame_inGen_of_valid hv]; exact hpt) hN samples

#print axioms evG_finalEvs
#print axioms alphas_finalEvs
#print axioms alphaOK_toMs
#print axioms evG_toMs
#print axioms tame_finalEvsV
#print axioms tame_toMsV

end Demes.Proofs.MsGrow
