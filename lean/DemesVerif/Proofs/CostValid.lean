/-
  C20, part 6: for a valid graph the numbers of ancestor / source references are bounded by
  the numbers of demes and pulses, so `costResolve` is bounded by a polynomial of degree 4 in
  the numbers of demes, epochs, migrations and pulses alone.
-/
import DemesVerif.Proofs.CostPoly
import DemesVerif.Spec.Valid
namespace Demes.Proofs
open Demes Demes.Cost Demes.Spec

theorem valid_ancestors_le (g : Graph) (hv : validGraph g = true) (d : Deme) (hd : d ∈ g.demes) :
    d.ancestors.length ≤ g.demes.length ∧ d.proportions.length = d.ancestors.length := by
  simp only [validGraph, validData, Bool.and_eq_true] at hv
  have hv2 : v2 g = true := by tauto
  have hv4 : v4 g = true := by tauto
  obtain ⟨i, hi⟩ := List.mem_iff_getElem?.mp hd
  have hz : (d, i) ∈ g.demes.zipIdx := List.mem_zipIdx_iff_getElem?.mpr hi
  have h2 := (List.all_eq_true.mp hv2) (d, i) hz
  simp only [Bool.and_eq_true, List.all_eq_true, List.any_eq_true, decide_eq_true_eq] at h2
  have hsub : d.ancestors ⊆ (g.demes.take i).map (·.name) := by
    intro a ha
    obtain ⟨e, he, hea⟩ := h2.1.1 a ha
    exact List.mem_map.mpr ⟨e, he, hea⟩
  have hle := List.Nodup.length_le_of_subset h2.1.2 hsub
  simp only [List.length_map, List.length_take] at hle
  have h4 := (List.all_eq_true.mp hv4) d hd
  simp only [Bool.and_eq_true, beq_iff_eq] at h4
  exact ⟨by omega, h4.1.1⟩

theorem valid_sources_le (g : Graph) (hv : validGraph g = true) (p : Pulse) (hp : p ∈ g.pulses) :
    p.sources.length ≤ g.demes.length ∧ p.proportions.length = p.sources.length := by
  simp only [validGraph, validData, Bool.and_eq_true] at hv
  have hv11 : v11 g = true := by tauto
  have h := (List.all_eq_true.mp hv11) p hp
  simp only [Bool.and_eq_true, decide_eq_true_eq, beq_iff_eq] at h
  obtain ⟨⟨⟨⟨⟨⟨⟨_, hnd⟩, _⟩, hlen⟩, _⟩, _⟩, _⟩, hm⟩ := h
  have hsub : p.sources ⊆ g.demes.map (·.name) := by
    intro s hs
    split at hm
    · simp at hm
    · simp only [Bool.and_eq_true, List.all_eq_true] at hm
      have := hm.2 s hs
      split at this
      · simp at this
      · rename_i sd hsd
        simp only [findDeme] at hsd
        have h1 := List.mem_of_find?_eq_some hsd
        have h2 := List.find?_some hsd
        simp only [decide_eq_true_eq] at h2
        exact List.mem_map.mpr ⟨sd, h1, h2⟩
  have hle := List.Nodup.length_le_of_subset hnd hsub
  simp only [List.length_map] at hle
  exact ⟨hle, hlen.symm⟩

theorem sum_map_le_mul' {α} (f : α → Nat) (c : Nat) (l : List α) (h : ∀ x ∈ l, f x ≤ c) :
    (l.map f).sum ≤ l.length * c := sum_map_le_mul f c l h

theorem polyResolve_mono (D E M P H : Nat) {A A' Pr Pr' S S' PrP PrP' : Nat}
    (hA : A ≤ A') (hPr : Pr ≤ Pr') (hS : S ≤ S') (hPrP : PrP ≤ PrP') :
    polyResolve D E A Pr M P S PrP H ≤ polyResolve D E A' Pr' M P S' PrP' H := by
  have h1 : A * (3 * D + A) ≤ A' * (3 * D + A') := Nat.mul_le_mul hA (by omega)
  have h2 : 3 * D * S ≤ 3 * D * S' := Nat.mul_le_mul_left _ hS
  have h3 : S * S ≤ S' * S' := Nat.mul_le_mul hS hS
  simp only [polyResolve]
  omega

/-- `Graph.fromdict`: degree-4 bound in the numbers of demes, epochs, migrations and pulses
(and, linearly, the size of the free-form header) for every valid graph -/
theorem cost_resolve_poly_valid (g : Graph) (hv : validGraph g = true) :
    costResolve g ≤ polyResolveValid (nDemes g) (nEpochs g) (nMigrations g) (nPulses g) (nHeader g) := by
  have hA : nAncestors g ≤ nDemes g * nDemes g :=
    sum_map_le_mul _ _ g.demes (fun d hd => (valid_ancestors_le g hv d hd).1)
  have hPr : nProportions g ≤ nDemes g * nDemes g :=
    sum_map_le_mul _ _ g.demes (fun d hd => by
      have := valid_ancestors_le g hv d hd; simp only [nDemes]; omega)
  have hS : nSources g ≤ nPulses g * nDemes g :=
    sum_map_le_mul _ _ g.pulses (fun p hp => (valid_sources_le g hv p hp).1)
  have hPrP : nPulseProportions g ≤ nPulses g * nDemes g :=
    sum_map_le_mul _ _ g.pulses (fun p hp => by
      have := valid_sources_le g hv p hp; simp only [nDemes]; omega)
  exact le_trans (cost_resolve_poly g) (polyResolve_mono _ _ _ _ _ hA hPr hS hPrP)

end Demes.Proofs
