/-
  C07 — the rows of one time group: the command's rows and the graph's rows have the same
  canonical form.
-/
import DemesVerif.Proofs.ToMsMoves2
set_option linter.unusedSimpArgs false
set_option linter.unusedVariables false
namespace Demes.Proofs.ToMs
open Demes Demes.Ms Demes.Spec Demes.Spec.C07 Demes.Proofs.RV
open Demes.Spec.MsSem

/-! ### the graph's rows as a per-row fold over `dpsEq` -/

theorem foldl_pulseRowStep (g : Graph) : ∀ (ps : List Pulse) (L : List (Nat × Row)),
    ps.foldl (pulseRowStep g) L = L.map (fun ir => (ir.1, ps.foldl (fun r p => pulseRow g p r) ir.2))
  | [], L => by simp
  | p :: ps, L => by
    rw [List.foldl_cons, pulseRowStep_eq, foldl_pulseRowStep g ps]
    simp [List.map_map, Function.comp_def]

theorem foldl_bornRowStep (g : Graph) : ∀ (ds : List Deme) (L : List (Nat × Row)),
    ds.foldl (bornRowStep g) L = L.map (fun ir => (ir.1, ds.foldl (fun r d => bornRow g d r) ir.2))
  | [], L => by simp
  | d :: ds, L => by
    rw [List.foldl_cons, bornRowStep_eq, foldl_bornRowStep g ds]
    simp [List.map_map, Function.comp_def]

theorem dpsEq_eq (g : Graph) (T : Q) :
    dpsEq g T = ((g.pulses.filter (fun p => p.time = T)).reverse).map DemeOrPulse.pulse
      ++ (g.demes.filter (fun d => d.startTime = ETime.fin T)).map DemeOrPulse.deme := by
  unfold dpsEq
  rw [dps_filter_key, List.filter_reverse]
  congr 2
  apply congrArg
  apply List.filter_congr
  intro p _
  simp

theorem foldl_gRowStep_dpsEq (g : Graph) (T : Q) (r : Row) :
    (dpsEq g T).foldl (gRowStep g) r
      = (g.demes.filter (fun d => d.startTime = ETime.fin T)).foldl (fun r d => bornRow g d r)
          (((g.pulses.filter (fun p => p.time = T)).reverse).foldl (fun r p => pulseRow g p r) r) := by
  rw [dpsEq_eq, List.foldl_append, List.foldl_map, List.foldl_map]
  rfl

/-- the identity rows of the demes alive (on the recent side) at `T` -/
def gL0 (g : Graph) (T : Q) : List (Nat × Row) :=
  (g.demes.filter (fun d => decide (d.endTime < T) && decide (ETime.fin T ≤ d.startTime))).map
    (fun d => (pidOf g d.name, [(pidOf g d.name, (1 : Q))]))

theorem gRowsAt_eq (g : Graph) (T : Q) :
    gRowsAt g T = (gL0 g T).map (fun ir => (ir.1, (dpsEq g T).foldl (gRowStep g) ir.2)) := by
  unfold gRowsAt
  simp only []
  rw [foldl_pulseRowStep, foldl_bornRowStep, List.map_map]
  apply List.map_congr_left
  intro ir _
  simp only [Function.comp, foldl_gRowStep_dpsEq]

section
variable {g : Graph} (c : Clauses g) (hx : MsExpressible g = true) (hex : ExactProportions g = true)
include c hx hex

theorem elemOk_dpsEq {T : Q} {x : DemeOrPulse} (h : x ∈ dpsEq g T) : ElemOk g x := by
  obtain ⟨hm, hk⟩ := List.mem_filter.1 h
  simp only [decide_eq_true_eq] at hk
  cases x with
  | pulse p => exact mem_dps_pulse hm
  | deme d =>
    have hd := mem_dps_deme hm
    have hdo := demeAncOk_of_valid c hd
    have hne : d.ancestors ≠ [] := by
      have h3 := c.h3
      simp only [v3, List.all_eq_true, Bool.and_eq_true, decide_eq_true_eq, beq_iff_eq] at h3
      have := (h3 d hd).1.2
      have hst : d.startTime = ETime.fin T := hk
      rw [hst] at this
      intro h0; rw [h0] at this; simp [ETime.isInf] at this
    refine ⟨hd, hne, ?_⟩
    rw [sumFrom_zero_eq]
    simp only [ExactProportions, List.all_eq_true, Bool.or_eq_true, beq_iff_eq, List.isEmpty_iff] at hex
    rcases hex d hd with h0 | h1
    · exfalso
      have := hdo.len
      rw [h0] at this
      exact hne (List.length_eq_zero_iff.1 this.symm)
    · exact h1

end

end Demes.Proofs.ToMs
