/-
  C08, link C (movements), a wider fragment — the invariant of one time group without `NSAT`.  The
  part of `GroupInv` that does not mention `split_join_params` holds for every group (it is kept
  here with the *ideal* parameter list `(done ++ flush).map op0` as a ghost); `ParamsRel` says how
  the real `split_join_params` relates to the moves: its entries of proper splits and admixtures are
  those of the moves, in order; its join entries belong to joined populations; and a joined
  population either still has an entry, or its deme carries the ancestry the `-ej` wrote, which is
  then its whole row.
-/
import DemesVerif.Proofs.FromMsApplyFinal
import DemesVerif.Proofs.FromMsWideAlg
namespace Demes.Proofs.FromMs
open Demes Demes.Ms Demes.Spec.MsSem Demes.Spec.C08
open Demes.Proofs.RV (bind_ok pure_ok)

/-! ## `redirect` -/

theorem redirect_none_spec (i j : Nat) : ∀ (l : List MOp), redirect i j l = none → ∀ e ∈ l, e.2.1 ≠ i := by
  intro l
  induction l with
  | nil => intro _ e he; cases he
  | cons x l ih =>
    obtain ⟨b, hh, p⟩ := x
    intro h e he
    simp only [redirect] at h
    cases hr : redirect i j l with
    | some r' => rw [hr] at h; cases h
    | none =>
      rw [hr] at h
      dsimp only at h
      by_cases h1 : hh = i
      · rw [if_pos h1] at h; cases h
      · rcases List.mem_cons.mp he with rfl | he
        · exact h1
        · exact ih hr e he

theorem redirect_some_spec (i j : Nat) : ∀ (l l' : List MOp), redirect i j l = some l' →
    ∃ pre a q post, l = pre ++ (a, i, q) :: post ∧ l' = pre ++ (a, j, q) :: post ∧ ∀ e ∈ post, e.2.1 ≠ i := by
  intro l
  induction l with
  | nil => intro l' h; cases h
  | cons x l ih =>
    obtain ⟨b, hh, p⟩ := x
    intro l' h
    simp only [redirect] at h
    cases hr : redirect i j l with
    | some r' =>
      rw [hr] at h
      dsimp only at h
      cases h
      obtain ⟨pre, a, q, post, e1, e2, e3⟩ := ih r' hr
      exact ⟨(b, hh, p) :: pre, a, q, post, by rw [e1]; rfl, by rw [e2]; rfl, e3⟩
    | none =>
      rw [hr] at h
      dsimp only at h
      by_cases h1 : hh = i
      · rw [if_pos h1] at h
        cases h
        subst h1
        exact ⟨[], b, p, l, rfl, rfl, redirect_none_spec hh j l hr⟩
      · rw [if_neg h1] at h; cases h

/-! ## options that move no lineage, generically -/

theorem forLive_rel {R : BDeme → BDeme → Prop} (hrefl : ∀ d, R d d) {s s' : BState} {f : BDeme → Except Err BDeme}
    (hf : ∀ d d', f d = .ok d' → R d' d) (h : forLiveDemes s f = .ok s') :
    ∀ (j : Nat) (d : BDeme), s.demes[j]? = some d → ∃ d', s'.demes[j]? = some d' ∧ R d' d := by
  obtain ⟨_, _, hi⟩ := forLiveDemes_ok h
  intro j d hd
  obtain ⟨d', hd', hc⟩ := hi j d hd
  refine ⟨d', hd', ?_⟩
  split at hc
  · rw [hc]; exact hrefl d
  · exact hf d d' hc

theorem modifyDeme_rel {R : BDeme → BDeme → Prop} (hrefl : ∀ d, R d d) {s s' : BState} {pid : Nat}
    {f : BDeme → Except Err BDeme} (hf : ∀ d d', f d = .ok d' → R d' d) (h : modifyDeme s pid f = .ok s') :
    ∀ (j : Nat) (d : BDeme), s.demes[j]? = some d → ∃ d', s'.demes[j]? = some d' ∧ R d' d := by
  obtain ⟨d0, d0', hd0, hfd, rfl⟩ := modifyDeme_ok h
  intro j d hd
  show ∃ d', (s.demes.set pid d0')[j]? = some d' ∧ R d' d
  rw [List.getElem?_set]
  by_cases hj : pid = j
  · subst hj
    have hl : pid < s.demes.length := (List.getElem?_eq_some_iff.mp hd0).1
    rw [hd0] at hd
    cases hd
    exact ⟨d0', by simp [hl], hf _ _ hfd⟩
  · exact ⟨d, by simp [hj, hd], hrefl d⟩

/-- an option that is neither `-es` nor `-ej` keeps, deme by deme, every relation that the size and
growth updates keep -/
theorem stepEvent_nonmove_rel {R : BDeme → BDeme → Prop} (hrefl : ∀ d, R d d)
    (hg : ∀ gr time d d', updGrowth gr time d = .ok d' → R d' d)
    (hsz : ∀ size reset time d d', updSize size reset time d = .ok d' → R d' d)
    {N0 time : Q} {s s' : BState} {g g' : GState} {ev : Event Num}
    (h1 : isSplit ev = false) (h2 : isJoinEv ev = false)
    (hm : stepEvent N0 time (s, g) ev = .ok (s', g')) :
    ∀ (j : Nat) (d : BDeme), s.demes[j]? = some d → ∃ d', s'.demes[j]? = some d' ∧ R d' d := by
  have triv : ∀ (s1 : BState), s1.demes = s.demes →
      ∀ (j : Nat) (d : BDeme), s.demes[j]? = some d → ∃ d', s1.demes[j]? = some d' ∧ R d' d :=
    fun s1 e1 j d hd => ⟨d, by rw [e1]; exact hd, hrefl d⟩
  cases ev with
  | growthRateChange o t alpha =>
    rw [stepEvent_growthAll] at hm
    obtain ⟨a, _, hm⟩ := RV.bind_ok.1 hm
    obtain ⟨s1, hs1, hm⟩ := RV.bind_ok.1 hm
    cases hm
    exact forLive_rel hrefl (fun _ _ => hg _ _ _ _) hs1
  | popGrowthRateChange o t i alpha =>
    rw [stepEvent_growth] at hm
    obtain ⟨pid, _, hm⟩ := RV.bind_ok.1 hm
    obtain ⟨a, _, hm⟩ := RV.bind_ok.1 hm
    obtain ⟨s1, hs1, hm⟩ := RV.bind_ok.1 hm
    cases hm
    exact modifyDeme_rel hrefl (fun _ _ => hg _ _ _ _) hs1
  | sizeChange o t x =>
    rw [stepEvent_sizeAll] at hm
    obtain ⟨a, _, hm⟩ := RV.bind_ok.1 hm
    obtain ⟨s1, hs1, hm⟩ := RV.bind_ok.1 hm
    cases hm
    exact forLive_rel hrefl (fun _ _ => hsz _ _ _ _ _) hs1
  | popSizeChange o t i x =>
    rw [stepEvent_size] at hm
    obtain ⟨pid, _, hm⟩ := RV.bind_ok.1 hm
    obtain ⟨a, _, hm⟩ := RV.bind_ok.1 hm
    obtain ⟨s1, hs1, hm⟩ := RV.bind_ok.1 hm
    cases hm
    exact modifyDeme_rel hrefl (fun _ _ => hsz _ _ _ _ _) hs1
  | migRateChange o t x =>
    rw [stepEvent_migAll] at hm
    cases hm
    exact triv _ (migAllState_frame s time x).1
  | migEntryChange o t i j rate =>
    rw [stepEvent_migEntry] at hm
    obtain ⟨pi, _, hm⟩ := RV.bind_ok.1 hm
    obtain ⟨pj, _, hm⟩ := RV.bind_ok.1 hm
    split at hm
    · exact (RV.valueErr_bind_ok.1 hm).elim
    · cases hm
      exact triv _ (migEntryState_frame s time pi pj rate).1
  | migMatrixChange o t npop mm =>
    rw [stepEvent_migMatrix] at hm
    dsimp only at hm
    generalize (if o = "-ma" then (s.numDemes : Int) else npop) = np at hm
    split at hm
    · exact (RV.valueErr_bind_ok.1 hm).elim
    · obtain ⟨m, _, hm⟩ := RV.bind_ok.1 hm
      cases hm
      exact triv _ (migMatrixState_frame s time m).1
  | join o t i j => cases h2
  | split o t i p => cases h1

/-- … in particular the header (name, start time, ancestors, proportions) -/
theorem stepEvent_nonmove_header {N0 time : Q} {s s' : BState} {g g' : GState} {ev : Event Num}
    (h1 : isSplit ev = false) (h2 : isJoinEv ev = false)
    (hm : stepEvent N0 time (s, g) ev = .ok (s', g')) :
    ∀ (j : Nat) (d : BDeme), s.demes[j]? = some d → ∃ d', s'.demes[j]? = some d' ∧ SameHeader d' d :=
  stepEvent_nonmove_rel SameHeader.refl (fun _ _ _ _ h => updGrowth_header h) (fun _ _ _ _ _ h => updSize_header h) h1 h2 hm

/-! ## `-ej`, with the ideal parameter list -/

/-- `groupInv_join` without `NSAT`: the parameter list is the ideal one (the move appended) -/
theorem groupInv_joinG {T' : Q} {n0 : Nat} {s0 : BState} {allOps : List MOp}
    {s s' : BState} {g g' : GState} {L L' : List (Nat × Row)} {done : List MOp} {pend : Option (Nat × Q)}
    {tq : Q} {a k : Nat} {rest : List Cmd} {d d' : BDeme}
    (h : GroupInv T' n0 s0 allOps s g L done pend (.join tq a k :: rest))
    (hpa : ∀ i q, pend = some (i, q) → a ≠ s.numDemes)
    (ha1 : 1 ≤ a) (ha2 : a ≤ s.numDemes) (hk1 : 1 ≤ k) (hk2 : k ≤ s.numDemes) (hak : a ≠ k)
    (haj : s.joined.contains (a - 1) = false) (hkj : s.joined.contains (k - 1) = false)
    (hd : s.demes[a - 1]? = some d) (hdinf : d.startTime = .inf)
    (hd' : d'.startTime = .fin T' ∧ bEndTime d' = bEndTime d)
    (hde : s'.demes = s.demes.set (a - 1) d') (hnum : s'.numDemes = s.numDemes)
    (hjo : s'.joined = s.joined ++ [a - 1]) (hpu : s'.pulses = s.pulses)
    (hg' : g'.params = g.params ++ [(a - 1, k - 1, 1)])
    (hL : L' = L.map (fun (ir : Nat × Row) => (ir.1, (ir.2.set a 0).add k (ir.2.get a)))) :
    GroupInv T' n0 s0 allOps s' g' L' (done ++ flushOp s.numDemes pend ++ [(a, k, 1)]) none rest := by
  obtain ⟨pos1, jv1, last1⟩ := h.flushed
  have hlink : groupOpsAux s.numDemes pend (.join tq a k :: rest)
      = flushOp s.numDemes pend ++ (a, k, 1) :: groupOpsAux s.numDemes none rest := by
    cases hpe : pend with
    | none => rfl
    | some iq =>
      obtain ⟨i, q⟩ := iq
      have := hpa i q hpe
      show (if a = s.numDemes then _ else _) = _
      rw [if_neg this]; rfl
  have hall : allOps = (done ++ flushOp s.numDemes pend) ++ (a, k, 1) :: groupOpsAux s.numDemes none rest := by
    rw [h.link, hlink, List.append_assoc]
  have hal : a - 1 < s.demes.length := (List.getElem?_eq_some_iff.mp hd).1
  have hrowOld : ∀ ir ∈ L, (fun x => Row.get ir.2 x) = foldOps (done ++ flushOp s.numDemes pend) (delta ir.1) :=
    fun ir hir => funext (h.rows ir hir)
  refine ⟨?_, ?_, ?_, ?_, ?_, ?_, ?_, ?_, ?_, ?_, ?_, ?_, ?_, ?_, ?_, ?_, ?_⟩
  · rw [hnum, hall]; simp [List.append_assoc]
  · rw [hg', h.params]
    show _ = List.map op0 ((done ++ flushOp s.numDemes pend ++ [(a, k, 1)]) ++ [])
    rw [List.append_nil]
    simp [List.map_append, op0]
  · intro ir' hir' x
    rw [hL] at hir'
    obtain ⟨ir, hir, rfl⟩ := List.mem_map.mp hir'
    dsimp only
    show _ = foldOps ((done ++ flushOp s.numDemes pend ++ [(a, k, 1)]) ++ []) (delta ir.1) x
    rw [List.append_nil, foldOps_append, foldOps_cons, foldOps_nil, ← hrowOld ir hir]
    exact joinRow_get ir.2 a k hak x
  · intro ir' hir' x hx
    rw [hL] at hir'
    obtain ⟨ir, hir, rfl⟩ := List.mem_map.mp hir'
    dsimp only
    rw [hnum] at hx
    rw [Row.get_add, if_neg (by omega), Row.get_set, if_neg (by omega)]
    exact h.bound ir hir x hx
  · intro hc; cases hc
  · intro i q hc; cases hc
  · intro o ho
    rcases List.mem_append.mp ho with ho | ho
    · exact pos1 o ho
    · simp only [List.mem_singleton] at ho
      subst ho
      exact ⟨ha1, hk1, (by decide : (0 : Q) ≤ 1), (by decide : (1 : Q) ≤ 1)⟩
  · intro o ho hq
    rw [hjo, contains_append_single]
    rcases List.mem_append.mp ho with ho | ho
    · obtain ⟨c1, c2⟩ := h.joinedV o (jv1 o ho hq) hq
      exact ⟨by rw [c1]; rfl, c2⟩
    · simp only [List.mem_singleton] at ho
      subst ho
      exact ⟨by simp, fun e => hak e.symm⟩
  · rw [List.pairwise_append]
    refine ⟨last1, List.pairwise_singleton _ _, ?_⟩
    intro o ho o' ho' hq
    simp only [List.mem_singleton] at ho'
    subst ho'
    obtain ⟨c1, _⟩ := h.joinedV o (jv1 o ho hq) hq
    obtain ⟨d1, _⟩ := pos1 o ho
    have e1 := contains_ne c1 haj
    have e2 := contains_ne c1 hkj
    constructor <;> (dsimp only; omega)
  · rw [hnum]; exact h.n0le
  · intro j dd hj hdd
    rw [hde, List.getElem?_set] at hdd
    by_cases hja : a - 1 = j
    · rw [if_pos hja] at hdd
      simp only [← hja, hal, if_true, Option.some.injEq] at hdd
      subst hdd
      subst hja
      obtain ⟨d0, h0, e1, e2⟩ := h.dOld _ d hj hd
      refine ⟨d0, h0, by rw [hd'.2, e1], Or.inr ⟨hd'.1, ?_, (a, k, 1), by simp, by dsimp only; omega, rfl⟩⟩
      rcases e2 with e2 | ⟨e2, _⟩
      · rw [← e2]; exact hdinf
      · rw [hdinf] at e2; cases e2
    · rw [if_neg hja] at hdd
      obtain ⟨d0, h0, e1, e2⟩ := h.dOld j dd hj hdd
      refine ⟨d0, h0, e1, ?_⟩
      rcases e2 with e2 | ⟨e2, e3, o, ho, e4⟩
      · exact Or.inl e2
      · exact Or.inr ⟨e2, e3, o, List.mem_append_left _ (List.mem_append_left _ ho), e4⟩
  · intro j dd hj hdd
    rw [hde, List.getElem?_set] at hdd
    by_cases hja : a - 1 = j
    · rw [if_pos hja] at hdd
      simp only [← hja, hal, if_true, Option.some.injEq] at hdd
      subst hdd
      exact ⟨by rw [hd'.2]; exact (h.dNew _ d (by omega) hd).1, Or.inr hd'.1⟩
    · rw [if_neg hja] at hdd
      exact h.dNew j dd hj hdd
  · intro o ho hq
    rcases List.mem_append.mp ho with ho | ho
    · have hod := jv1 o ho hq
      obtain ⟨dd, hdd, e⟩ := h.dJoin o hod hq
      obtain ⟨c1, _⟩ := h.joinedV o hod hq
      have hne := contains_ne c1 haj
      refine ⟨dd, ?_, e⟩
      rw [hde, List.getElem?_set, if_neg (fun e => hne e.symm)]
      exact hdd
    · simp only [List.mem_singleton] at ho
      subst ho
      refine ⟨d', ?_, hd'.1⟩
      rw [hde, List.getElem?_set]
      simp [hal]
  · rw [hpu]; exact h.pulses
  · intro o ho
    rw [hnum]
    rw [flushOp, List.append_nil] at ho
    rcases List.mem_append.mp ho with ho | ho
    · exact h.ub o ho
    · simp only [List.mem_singleton] at ho
      subst ho
      exact ⟨ha2, hk2⟩
  · intro j hj
    rw [hjo, contains_append_single, h.joinedMono j hj]; rfl
  · intro o ho
    rw [flushOp, List.append_nil] at ho
    rcases List.mem_append.mp ho with ho | ho
    · exact h.srcAlive o ho
    · simp only [List.mem_singleton] at ho
      subst ho
      cases hc : s0.joined.contains (a - 1) with
      | false => rfl
      | true => rw [h.joinedMono _ hc] at haj; cases haj

/-! ## the real `split_join_params` -/

/-- an entry of a proper split or an admixture (`q ≠ 1`) -/
def isS (e : MOp) : Bool := decide (e.2.2 ≠ 1)

/-- how `split_join_params` (`P`) relates to the moves done so far; `R` are the moves still to come -/
structure ParamsRel (s : BState) (P : List MOp) (done : List MOp) (pend : Option (Nat × Q)) (R : List MOp) : Prop where
  sEntries : P.filter isS = ((done ++ flushOp s.numDemes pend).filter isS).map op0
  jSrc : ∀ e ∈ P, e.2.2 = 1 → ∃ o ∈ done, o.2.2 = 1 ∧ e.1 = o.1 - 1
  tgts : ∀ e ∈ P, s.joined.contains e.2.1 = false → ∃ o ∈ done ++ flushOp s.numDemes pend, e.2.1 = o.2.1 - 1
  joins : ∀ o ∈ done, o.2.2 = 1 → (∃ e ∈ P, e.1 = o.1 - 1) ∨
      ((∀ e ∈ P, e.1 ≠ o.1 - 1) ∧ foldOps done (delta o.1) = delta o.2.1 ∧ (∀ z ∈ R, z.1 ≠ o.2.1) ∧
        ∃ d, s.demes[o.1 - 1]? = some d ∧ d.ancestors = some [Ms.demeName (o.2.1 - 1)] ∧ d.proportions = none)
  propNone : ∀ (j : Nat) (d : BDeme), s.demes[j]? = some d → s.joined.contains j = false → d.proportions = none
  pendLast : ∀ i q, pend = some (i, q) → ∃ P0, P = P0 ++ [(i - 1, s.numDemes - 1, q)]

theorem opF_join_delta {a k : Nat} (hak : a ≠ k) : opF (a, k, 1) (delta a) = delta k := by
  funext x
  unfold opF delta
  dsimp only
  have hka : ¬ k = a := fun e => hak e.symm
  by_cases h1 : x = k
  · subst h1
    simp [hka]
  · by_cases h2 : x = a
    · subst h2
      simp [h1]
    · simp [h1, h2]

/-- the `joins` clause after more moves `X`, none of which has a joined population or the target of an
absorbed join as its source -/
theorem joins_step {s s' : BState} {P P' done X R R' : List MOp} (hR : R = X ++ R')
    (hkeep : ∀ a, (∃ e ∈ P, e.1 = a) → ∃ e ∈ P', e.1 = a)
    (hnew : ∀ o ∈ done, o.2.2 = 1 → (∀ e ∈ P, e.1 ≠ o.1 - 1) → ∀ e ∈ P', e.1 ≠ o.1 - 1)
    (hdem : ∀ o ∈ done, o.2.2 = 1 → s'.demes[o.1 - 1]? = s.demes[o.1 - 1]?)
    (h : ∀ o ∈ done, o.2.2 = 1 → (∃ e ∈ P, e.1 = o.1 - 1) ∨
      ((∀ e ∈ P, e.1 ≠ o.1 - 1) ∧ foldOps done (delta o.1) = delta o.2.1 ∧ (∀ z ∈ R, z.1 ≠ o.2.1) ∧
        ∃ d, s.demes[o.1 - 1]? = some d ∧ d.ancestors = some [Ms.demeName (o.2.1 - 1)] ∧ d.proportions = none)) :
    ∀ o ∈ done, o.2.2 = 1 → (∃ e ∈ P', e.1 = o.1 - 1) ∨
      ((∀ e ∈ P', e.1 ≠ o.1 - 1) ∧ foldOps (done ++ X) (delta o.1) = delta o.2.1 ∧ (∀ z ∈ R', z.1 ≠ o.2.1) ∧
        ∃ d, s'.demes[o.1 - 1]? = some d ∧ d.ancestors = some [Ms.demeName (o.2.1 - 1)] ∧ d.proportions = none) := by
  intro o ho hq
  rcases h o ho hq with h1 | ⟨h1, h2, h3, d, h4, h5, h6⟩
  · exact Or.inl (hkeep _ h1)
  · right
    refine ⟨hnew o ho hq h1, ?_, ?_, d, by rw [hdem o ho hq]; exact h4, h5, h6⟩
    · rw [foldOps_append, h2]
      apply foldOps_foreign
      intro z hz
      exact h3 z (by rw [hR]; exact List.mem_append_left _ hz)
    · intro z hz
      exact h3 z (by rw [hR]; exact List.mem_append_right _ hz)

/-- an option that moves no lineage -/
theorem paramsRel_nonmove {s s' : BState} {P done : List MOp} {pend : Option (Nat × Q)} {c : Cmd} {rest : List Cmd}
    (hc : isMove c = false) (hnum : s'.numDemes = s.numDemes) (hj : s'.joined = s.joined)
    (hlen : s'.demes.length = s.demes.length)
    (hhead : ∀ (j : Nat) (d : BDeme), s.demes[j]? = some d → ∃ d', s'.demes[j]? = some d' ∧ SameHeader d' d)
    (h : ParamsRel s P done pend (groupOpsAux s.numDemes pend (c :: rest))) :
    ParamsRel s' P done pend (groupOpsAux s'.numDemes pend rest) := by
  rw [groupOpsAux_nonmove _ _ _ _ hc] at h
  refine ⟨by rw [hnum]; exact h.sEntries, h.jSrc, by rw [hnum, hj]; exact h.tgts, ?_, ?_, by rw [hnum]; exact h.pendLast⟩
  · intro o ho hq
    rcases h.joins o ho hq with h1 | ⟨h1, h2, h3, d, h4, h5, h6⟩
    · exact Or.inl h1
    · obtain ⟨d', hd', hh⟩ := hhead _ d h4
      exact Or.inr ⟨h1, h2, by rw [hnum]; exact h3, d', hd', by rw [hh.2.2.1]; exact h5, by rw [hh.2.2.2]; exact h6⟩
  · intro j d' hd' hjj
    have hlt : j < s.demes.length := by rw [← hlen]; exact (List.getElem?_eq_some_iff.mp hd').1
    obtain ⟨d'', h1, hh⟩ := hhead j _ (List.getElem?_eq_getElem hlt)
    rw [hd'] at h1
    cases h1
    rw [hh.2.2.2]
    exact h.propNone j _ (List.getElem?_eq_getElem hlt) (by rw [← hj]; exact hjj)

theorem filter_isS_singleton_pos {e : MOp} (h : e.2.2 ≠ 1) : [e].filter isS = [e] := by
  simp [isS, h]

theorem filter_isS_singleton_neg {e : MOp} (h : e.2.2 = 1) : [e].filter isS = [] := by
  simp [isS, h]

/-- `-es i p` -/
theorem paramsRel_split {N0 T' : Q} {s : BState} {P done : List MOp} {pend : Option (Nat × Q)}
    {tq : Q} {i : Nat} {p : Q} {rest : List Cmd}
    (h : ParamsRel s P done pend (groupOpsAux s.numDemes pend (.split tq i p :: rest)))
    (hp0 : 0 < p) (hij : s.joined.contains (i - 1) = false)
    (hjv : ∀ o ∈ done, o.2.2 = 1 → s.joined.contains (o.1 - 1) = true)
    (hfq : ∀ o ∈ flushOp s.numDemes pend, o.2.2 < 1)
    (hjlt : ∀ j, s.joined.contains j = true → j < s.demes.length) :
    ParamsRel (splitState N0 T' s) (P ++ [(i - 1, s.numDemes, 1 - p)]) (done ++ flushOp s.numDemes pend)
      (some (i, 1 - p)) (groupOpsAux (s.numDemes + 1) (some (i, 1 - p)) rest) := by
  have hnum : (splitState N0 T' s).numDemes = s.numDemes + 1 := rfl
  have hjo : (splitState N0 T' s).joined = s.joined := rfl
  have hde : (splitState N0 T' s).demes = s.demes ++ [newDeme N0 T' s.numDemes] := rfl
  have hq1 : (1 : Q) - p ≠ 1 := by intro e; linarith
  have hR : groupOpsAux s.numDemes pend (.split tq i p :: rest)
      = flushOp s.numDemes pend ++ groupOpsAux (s.numDemes + 1) (some (i, 1 - p)) rest := rfl
  have hdoneq : ∀ o ∈ done ++ flushOp s.numDemes pend, o.2.2 = 1 → o ∈ done := by
    intro o ho hq
    rcases List.mem_append.mp ho with ho | ho
    · exact ho
    · have := hfq o ho; rw [hq] at this; exact (Rat.lt_irrefl this).elim
  refine ⟨?_, ?_, ?_, ?_, ?_, ?_⟩
  · rw [hnum, flushOp_some, List.filter_append, h.sEntries, List.filter_append (done ++ _),
      List.map_append, filter_isS_singleton_pos (e := (i - 1, s.numDemes, 1 - p)) hq1,
      filter_isS_singleton_pos (e := (i, s.numDemes + 1, 1 - p)) hq1]
    simp [op0]
  · intro e he hq
    rcases List.mem_append.mp he with he | he
    · obtain ⟨o, ho, h1, h2⟩ := h.jSrc e he hq
      exact ⟨o, List.mem_append_left _ ho, h1, h2⟩
    · simp only [List.mem_singleton] at he
      subst he
      exact (hq1 hq).elim
  · intro e he hje
    rw [hnum, flushOp_some]
    rcases List.mem_append.mp he with he | he
    · obtain ⟨o, ho, h1⟩ := h.tgts e he hje
      exact ⟨o, List.mem_append_left _ ho, h1⟩
    · simp only [List.mem_singleton] at he
      subst he
      exact ⟨(i, s.numDemes + 1, 1 - p), List.mem_append_right _ (List.mem_singleton.mpr rfl), rfl⟩
  · intro o ho hq
    have hod := hdoneq o ho hq
    have := joins_step (s := s) (s' := splitState N0 T' s) (P := P) (P' := P ++ [(i - 1, s.numDemes, 1 - p)])
      (X := flushOp s.numDemes pend) hR
      (fun a ⟨e, he, hea⟩ => ⟨e, List.mem_append_left _ he, hea⟩)
      (fun o ho hq hno e he => by
        rcases List.mem_append.mp he with he | he
        · exact hno e he
        · simp only [List.mem_singleton] at he
          subst he
          exact fun e' => (contains_ne (hjv o ho hq) hij) e'.symm)
      (fun o ho hq => by
        rw [hde, List.getElem?_append_left (hjlt _ (hjv o ho hq))])
      h.joins o hod hq
    exact this
  · intro j d hd hjj
    rw [hde] at hd
    rw [hjo] at hjj
    by_cases hjl : j < s.demes.length
    · rw [List.getElem?_append_left hjl] at hd
      exact h.propNone j d hd hjj
    · rw [List.getElem?_append_right (by omega)] at hd
      have hz : j - s.demes.length = 0 := by
        by_contra hne
        rw [List.getElem?_eq_none_iff.mpr (by simp; omega)] at hd
        cases hd
      rw [hz] at hd
      simp only [List.getElem?_cons_zero, Option.some.injEq] at hd
      subst hd
      rfl
  · intro i' q' he
    cases he
    exact ⟨P, by rw [hnum]; rfl⟩

theorem srcs_of_split {P P' pre post : List MOp} {x t t' : Nat} {q : Q}
    (h1 : P = pre ++ (x, t, q) :: post) (h2 : P' = pre ++ (x, t', q) :: post) (a : Nat) :
    (∃ e ∈ P, e.1 = a) ↔ (∃ e ∈ P', e.1 = a) := by
  subst h1 h2
  constructor
  · rintro ⟨e, he, hea⟩
    rcases List.mem_append.mp he with he | he
    · exact ⟨e, List.mem_append_left _ he, hea⟩
    · rcases List.mem_cons.mp he with rfl | he
      · exact ⟨(x, t', q), List.mem_append_right _ (List.mem_cons_self ..), hea⟩
      · exact ⟨e, List.mem_append_right _ (List.mem_cons_of_mem _ he), hea⟩
  · rintro ⟨e, he, hea⟩
    rcases List.mem_append.mp he with he | he
    · exact ⟨e, List.mem_append_left _ he, hea⟩
    · rcases List.mem_cons.mp he with rfl | he
      · exact ⟨(x, t, q), List.mem_append_right _ (List.mem_cons_self ..), hea⟩
      · exact ⟨e, List.mem_append_right _ (List.mem_cons_of_mem _ he), hea⟩

/-- `-ej n k` right after the `-es i p` that created population `n` -/
theorem paramsRel_admix {s s' : BState} {P done : List MOp} {i : Nat} {q : Q} {tq : Q} {k : Nat} {rest : List Cmd}
    {d' : BDeme}
    (h : ParamsRel s P done (some (i, q)) (groupOpsAux s.numDemes (some (i, q)) (.join tq s.numDemes k :: rest)))
    (hq : q < 1) (hjv : ∀ o ∈ done, o.2.2 = 1 → s.joined.contains (o.1 - 1) = true)
    (hnj : s.joined.contains (s.numDemes - 1) = false)
    (hde : s'.demes = s.demes.set (s.numDemes - 1) d') (hnum : s'.numDemes = s.numDemes)
    (hjo : s'.joined = s.joined ++ [s.numDemes - 1]) :
    ParamsRel s' (joinParams P (s.numDemes - 1) (k - 1)) (done ++ [(i, k, q)]) none
      (groupOpsAux s'.numDemes none rest) := by
  obtain ⟨P0, hP⟩ := h.pendLast i q rfl
  have hP' : joinParams P (s.numDemes - 1) (k - 1) = P0 ++ [(i - 1, k - 1, q)] := by
    unfold joinParams; rw [hP, redirect_last]
  have hq1 : q ≠ 1 := fun e => by rw [e] at hq; exact Rat.lt_irrefl hq
  have hR : groupOpsAux s.numDemes (some (i, q)) (.join tq s.numDemes k :: rest)
      = [(i, k, q)] ++ groupOpsAux s.numDemes none rest := by
    show (if s.numDemes = s.numDemes then _ else _) = _
    rw [if_pos rfl]; rfl
  have hsE := h.sEntries
  rw [hP, flushOp_some, List.filter_append, List.filter_append, List.map_append,
    filter_isS_singleton_pos (e := (i - 1, s.numDemes - 1, q)) hq1,
    filter_isS_singleton_pos (e := (i, s.numDemes, q)) hq1] at hsE
  have hsE0 : P0.filter isS = (done.filter isS).map op0 := by
    have : [(i - 1, s.numDemes - 1, q)] = List.map op0 [(i, s.numDemes, q)] := rfl
    rw [this] at hsE
    exact List.append_cancel_right hsE
  have hsrc : ∀ a, (∃ e ∈ P, e.1 = a) ↔ (∃ e ∈ P0 ++ [(i - 1, k - 1, q)], e.1 = a) :=
    srcs_of_split (pre := P0) (post := []) hP rfl
  rw [hP', hnum]
  refine ⟨?_, ?_, ?_, ?_, ?_, ?_⟩
  · rw [flushOp, List.append_nil, List.filter_append, List.filter_append, List.map_append,
      filter_isS_singleton_pos (e := (i - 1, k - 1, q)) hq1, filter_isS_singleton_pos (e := (i, k, q)) hq1, hsE0]
    rfl
  · intro e he hqe
    rcases List.mem_append.mp he with he | he
    · obtain ⟨o, ho, h1, h2⟩ := h.jSrc e (by rw [hP]; exact List.mem_append_left _ he) hqe
      exact ⟨o, List.mem_append_left _ ho, h1, h2⟩
    · simp only [List.mem_singleton] at he
      subst he
      exact (hq1 hqe).elim
  · intro e he hje
    rw [flushOp, List.append_nil]
    rw [hjo, contains_append_single] at hje
    have hje1 : s.joined.contains e.2.1 = false := by
      cases hc : s.joined.contains e.2.1 with
      | false => rfl
      | true => rw [hc] at hje; cases hje
    have hje2 : e.2.1 ≠ s.numDemes - 1 := by
      intro e'
      rw [hje1, e'] at hje
      simp at hje
    rcases List.mem_append.mp he with he | he
    · obtain ⟨o, ho, h1⟩ := h.tgts e (by rw [hP]; exact List.mem_append_left _ he) hje1
      rw [flushOp_some] at ho
      rcases List.mem_append.mp ho with ho | ho
      · exact ⟨o, List.mem_append_left _ ho, h1⟩
      · simp only [List.mem_singleton] at ho
        subst ho
        exact (hje2 h1).elim
    · simp only [List.mem_singleton] at he
      subst he
      exact ⟨(i, k, q), List.mem_append_right _ (List.mem_singleton.mpr rfl), rfl⟩
  · intro o ho hqo
    have hod : o ∈ done := by
      rcases List.mem_append.mp ho with ho | ho
      · exact ho
      · simp only [List.mem_singleton] at ho
        subst ho
        exact (hq1 hqo).elim
    exact joins_step (s := s) (s' := s') (P := P) (P' := P0 ++ [(i - 1, k - 1, q)]) (X := [(i, k, q)]) hR
      (fun a ha => (hsrc a).mp ha)
      (fun o _ _ hno e he hea => by
        obtain ⟨e0, he0, hea0⟩ := (hsrc _).mpr ⟨e, he, hea⟩
        exact hno e0 he0 hea0)
      (fun o ho hq => by
        rw [hde, List.getElem?_set, if_neg (fun e => (contains_ne (hjv o ho hq) hnj) e.symm)])
      h.joins o hod hqo
  · intro j d hd hjj
    rw [hjo, contains_append_single] at hjj
    have hj1 : s.joined.contains j = false := by
      cases hc : s.joined.contains j with
      | false => rfl
      | true => rw [hc] at hjj; cases hjj
    have hj2 : j ≠ s.numDemes - 1 := by
      intro e'
      rw [hj1, e'] at hjj
      simp at hjj
    rw [hde, List.getElem?_set, if_neg (fun e => hj2 e.symm)] at hd
    exact h.propNone j d hd hj1
  · intro i' q' he; cases he

theorem mem_filter_map_op0 {D : List MOp} {e : MOp} (h : e ∈ (D.filter isS).map op0) :
    ∃ o ∈ D, o.2.2 ≠ 1 ∧ op0 o = e := by
  obtain ⟨o, ho, rfl⟩ := List.mem_map.mp h
  obtain ⟨h1, h2⟩ := List.mem_filter.mp ho
  exact ⟨o, h1, by simpa [isS] using h2, rfl⟩

/-- `-ej a k` that is not the join of the population a pending `-es` has just created -/
theorem paramsRel_join {allOps : List MOp} {s s' : BState} {P done : List MOp} {pend : Option (Nat × Q)}
    {tq tm : Q} {a k : Nat} {rest : List Cmd} {d d' : BDeme}
    (h : ParamsRel s P done pend (groupOpsAux s.numDemes pend (.join tq a k :: rest)))
    (hns : NSATS allOps) (hch : ChainOK allOps)
    (hall : allOps = (done ++ flushOp s.numDemes pend) ++ (a, k, 1) :: groupOpsAux s.numDemes none rest)
    (hpa : ∀ i q, pend = some (i, q) → a ≠ s.numDemes)
    (hpos : ∀ o ∈ done ++ flushOp s.numDemes pend, 1 ≤ o.1 ∧ 1 ≤ o.2.1)
    (ha1 : 1 ≤ a) (hak : a ≠ k) (haj : s.joined.contains (a - 1) = false)
    (hjv : ∀ o ∈ done, o.2.2 = 1 → s.joined.contains (o.1 - 1) = true)
    (hfq : ∀ o ∈ flushOp s.numDemes pend, o.2.2 < 1)
    (hd : s.demes[a - 1]? = some d)
    (hd' : d' = { d with startTime := .fin tm, ancestors := some [Ms.demeName (k - 1)] })
    (hde : s'.demes = s.demes.set (a - 1) d') (hnum : s'.numDemes = s.numDemes)
    (hjo : s'.joined = s.joined ++ [a - 1]) :
    ParamsRel s' (joinParams P (a - 1) (k - 1)) (done ++ flushOp s.numDemes pend ++ [(a, k, 1)]) none
      (groupOpsAux s'.numDemes none rest) := by
  have hal : a - 1 < s.demes.length := (List.getElem?_eq_some_iff.mp hd).1
  have hR : groupOpsAux s.numDemes pend (.join tq a k :: rest)
      = (flushOp s.numDemes pend ++ [(a, k, 1)]) ++ groupOpsAux s.numDemes none rest := by
    cases hpe : pend with
    | none => rfl
    | some iq =>
      obtain ⟨i, q⟩ := iq
      have := hpa i q hpe
      show (if a = s.numDemes then _ else _) = _
      rw [if_neg this]; rfl
  have hdoneq : ∀ o ∈ done ++ flushOp s.numDemes pend, o.2.2 = 1 → o ∈ done := by
    intro o ho hq
    rcases List.mem_append.mp ho with ho | ho
    · exact ho
    · have := hfq o ho; rw [hq] at this; exact (Rat.lt_irrefl this).elim
  have hdem : ∀ o ∈ done, o.2.2 = 1 → s'.demes[o.1 - 1]? = s.demes[o.1 - 1]? := by
    intro o ho hq
    rw [hde, List.getElem?_set, if_neg (fun e => (contains_ne (hjv o ho hq) haj) e.symm)]
  have hdema : s'.demes[a - 1]? = some d' := by
    rw [hde, List.getElem?_set]; simp [hal]
  have hprop : ∀ (j : Nat) (dd : BDeme), s'.demes[j]? = some dd → s'.joined.contains j = false → dd.proportions = none := by
    intro j dd hdd hjj
    rw [hjo, contains_append_single] at hjj
    have hj1 : s.joined.contains j = false := by
      cases hc : s.joined.contains j with
      | false => rfl
      | true => rw [hc] at hjj; cases hjj
    have hj2 : j ≠ a - 1 := by
      intro e'
      rw [hj1, e'] at hjj
      simp at hjj
    rw [hde, List.getElem?_set, if_neg (fun e => hj2 e.symm)] at hdd
    exact h.propNone j dd hdd hj1
  have hassoc : done ++ flushOp s.numDemes pend ++ [(a, k, 1)] = done ++ (flushOp s.numDemes pend ++ [(a, k, 1)]) :=
    List.append_assoc ..
  have hsE' : ((done ++ flushOp s.numDemes pend ++ [(a, k, 1)] ++ flushOp s'.numDemes none).filter isS).map op0
      = ((done ++ flushOp s.numDemes pend).filter isS).map op0 := by
    rw [flushOp, List.append_nil, List.filter_append, filter_isS_singleton_neg (e := (a, k, 1)) rfl, List.append_nil]
  unfold joinParams
  cases hr : redirect (a - 1) (k - 1) P with
  | none =>
    -- no entry points at `a`: the move is appended
    have hnone := redirect_none_spec _ _ _ hr
    dsimp only
    refine ⟨?_, ?_, ?_, ?_, hprop, fun i q he => by cases he⟩
    · rw [hsE', List.filter_append, filter_isS_singleton_neg (e := (a - 1, k - 1, 1)) rfl, List.append_nil]
      exact h.sEntries
    · intro e he hq
      rcases List.mem_append.mp he with he | he
      · obtain ⟨o, ho, h1, h2⟩ := h.jSrc e he hq
        exact ⟨o, List.mem_append_left _ (List.mem_append_left _ ho), h1, h2⟩
      · simp only [List.mem_singleton] at he
        subst he
        exact ⟨(a, k, 1), List.mem_append_right _ (List.mem_singleton.mpr rfl), rfl, rfl⟩
    · intro e he hje
      rw [flushOp, List.append_nil]
      have hje1 : s.joined.contains e.2.1 = false := by
        rw [hjo, contains_append_single] at hje
        cases hc : s.joined.contains e.2.1 with
        | false => rfl
        | true => rw [hc] at hje; cases hje
      rcases List.mem_append.mp he with he | he
      · obtain ⟨o, ho, h1⟩ := h.tgts e he hje1
        exact ⟨o, List.mem_append_left _ ho, h1⟩
      · simp only [List.mem_singleton] at he
        subst he
        exact ⟨(a, k, 1), List.mem_append_right _ (List.mem_singleton.mpr rfl), rfl⟩
    · intro o ho hq
      rcases List.mem_append.mp ho with ho | ho
      · have hod := hdoneq o ho hq
        rw [hassoc, hnum]
        exact joins_step (s := s) (s' := s') (P := P) (P' := P ++ [(a - 1, k - 1, 1)])
          (X := flushOp s.numDemes pend ++ [(a, k, 1)]) hR
          (fun x ⟨e, he, hea⟩ => ⟨e, List.mem_append_left _ he, hea⟩)
          (fun o ho hq hno e he => by
            rcases List.mem_append.mp he with he | he
            · exact hno e he
            · simp only [List.mem_singleton] at he
              subst he
              exact fun e' => (contains_ne (hjv o ho hq) haj) e'.symm)
          hdem h.joins o hod hq
      · simp only [List.mem_singleton] at ho
        subst ho
        exact Or.inl ⟨(a - 1, k - 1, 1), List.mem_append_right _ (List.mem_singleton.mpr rfl), rfl⟩
  | some P' =>
    -- a chain: the last entry that points at `a` is redirected to `k`
    obtain ⟨pre, x, qx, post, e1, e2, _⟩ := redirect_some_spec _ _ _ _ hr
    dsimp only
    have hsrc : ∀ b, (∃ e ∈ P, e.1 = b) ↔ (∃ e ∈ P', e.1 = b) := srcs_of_split e1 e2
    have hxP : (x, a - 1, qx) ∈ P := by rw [e1]; exact List.mem_append_right _ (List.mem_cons_self ..)
    -- an earlier move with target `a`
    obtain ⟨o0, ho0, ht0⟩ := h.tgts _ hxP haj
    have ht0' : o0.2.1 = a := by
      have := (hpos o0 ho0).2
      have e : a - 1 = o0.2.1 - 1 := ht0
      omega
    -- the redirected entry is a join entry
    have hqx : qx = 1 := by
      by_contra hne
      have hmem : (x, a - 1, qx) ∈ P.filter isS := List.mem_filter.mpr ⟨hxP, by simp [isS, hne]⟩
      rw [h.sEntries] at hmem
      obtain ⟨o, ho, hoq, hoe⟩ := mem_filter_map_op0 hmem
      have hot : o.2.1 = a := by
        have := (hpos o ho).2
        have e : o.2.1 - 1 = a - 1 := congrArg (fun (m : MOp) => m.2.1) hoe
        omega
      have hn := hns
      unfold NSATS at hn
      rw [hall, List.pairwise_append] at hn
      exact hoq (hn.2.2 o ho (a, k, 1) (List.mem_cons_self ..) hot)
    subst hqx
    refine ⟨?_, ?_, ?_, ?_, hprop, fun i q he => by cases he⟩
    · rw [hsE', ← h.sEntries, e1, e2]
      simp only [List.filter_append, List.filter_cons]
      simp [isS]
    · intro e he hq
      have hsame : ∃ e0 ∈ P, e0.1 = e.1 ∧ e0.2.2 = e.2.2 := by
        rw [e2] at he
        rw [e1]
        rcases List.mem_append.mp he with he | he
        · exact ⟨e, List.mem_append_left _ he, rfl, rfl⟩
        · rcases List.mem_cons.mp he with rfl | he
          · exact ⟨(x, a - 1, 1), List.mem_append_right _ (List.mem_cons_self ..), rfl, rfl⟩
          · exact ⟨e, List.mem_append_right _ (List.mem_cons_of_mem _ he), rfl, rfl⟩
      obtain ⟨e0, he0, h1, h2⟩ := hsame
      obtain ⟨o, ho, h3, h4⟩ := h.jSrc e0 he0 (by rw [h2]; exact hq)
      exact ⟨o, List.mem_append_left _ (List.mem_append_left _ ho), h3, by rw [← h1]; exact h4⟩
    · intro e he hje
      rw [flushOp, List.append_nil]
      have hje1 : s.joined.contains e.2.1 = false := by
        rw [hjo, contains_append_single] at hje
        cases hc : s.joined.contains e.2.1 with
        | false => rfl
        | true => rw [hc] at hje; cases hje
      rw [e2] at he
      rcases List.mem_append.mp he with he | he
      · obtain ⟨o, ho, h1⟩ := h.tgts e (by rw [e1]; exact List.mem_append_left _ he) hje1
        exact ⟨o, List.mem_append_left _ ho, h1⟩
      · rcases List.mem_cons.mp he with rfl | he
        · exact ⟨(a, k, 1), List.mem_append_right _ (List.mem_singleton.mpr rfl), rfl⟩
        · obtain ⟨o, ho, h1⟩ := h.tgts e (by rw [e1]; exact List.mem_append_right _ (List.mem_cons_of_mem _ he)) hje1
          exact ⟨o, List.mem_append_left _ ho, h1⟩
    · intro o ho hq
      rcases List.mem_append.mp ho with ho | ho
      · have hod := hdoneq o ho hq
        rw [hassoc, hnum]
        exact joins_step (s := s) (s' := s') (P := P) (P' := P')
          (X := flushOp s.numDemes pend ++ [(a, k, 1)]) hR
          (fun b hb => (hsrc b).mp hb)
          (fun o _ _ hno e he hea => by
            obtain ⟨e0, he0, hea0⟩ := (hsrc _).mpr ⟨e, he, hea⟩
            exact hno e0 he0 hea0)
          hdem h.joins o hod hq
      · simp only [List.mem_singleton] at ho
        subst ho
        by_cases hex : ∃ e ∈ P', e.1 = a - 1
        · exact Or.inl hex
        · right
          have hno : ∀ e ∈ P', e.1 ≠ a - 1 := fun e he hea => hex ⟨e, he, hea⟩
          refine ⟨hno, ?_, ?_, d', hdema, by rw [hd'], ?_⟩
          · -- nothing has moved the lineages of `a` before
            have hfor : ∀ o ∈ done ++ flushOp s.numDemes pend, o.1 ≠ a := by
              intro o ho hoa
              by_cases hoq : o.2.2 = 1
              · have := hjv o (hdoneq o ho hoq) hoq
                rw [hoa, haj] at this
                cases this
              · have hm : op0 o ∈ P.filter isS := by
                  rw [h.sEntries]
                  exact List.mem_map.mpr ⟨o, List.mem_filter.mpr ⟨ho, by simp [isS, hoq]⟩, rfl⟩
                have hm' := (List.mem_filter.mp hm).1
                obtain ⟨e, he, hea⟩ := (hsrc (a - 1)).mp ⟨op0 o, hm', by show o.1 - 1 = a - 1; rw [hoa]⟩
                exact hno e he hea
            show foldOps (done ++ flushOp s.numDemes pend ++ [(a, k, 1)]) (delta a) = delta k
            rw [foldOps_append, foldOps_foreign a _ hfor, foldOps_cons, foldOps_nil]
            exact opF_join_delta hak
          · rw [hnum]
            exact chainOK_use _ (a, k, 1) _ (hall ▸ hch) o0 ho0 ht0' rfl
          · rw [hd']
            exact h.propNone _ d hd haj

end Demes.Proofs.FromMs
