/-
  Proofs for the Builder route, part 1 — the data dictionary of a call sequence
  (`Builder.run calls = docOfCalls calls`, key order included).
-/
import DemesVerif.Spec.Builder
import DemesVerif.Proofs.FillObj
namespace Demes.Proofs.BuilderRoute
open Demes Demes.Obj Demes.Spec Demes.Spec.BuilderRoute Demes.Builder Demes.Proofs

/-! ### one dictionary under construction -/

theorem lookup_field (k k' : String) (x : Option Value) :
    lookup k (field k' x) = if k' = k then x else none := by
  cases x with
  | none => simp [field, lookup_nil]
  | some v => simp [field, lookup_cons, lookup_nil]

theorem setIfNotNone_eq {k : String} (x : Option Value) {d : Obj} (h : lookup k d = none) :
    setIfNotNone k x d = d ++ field k (notNull x) := by
  unfold setIfNotNone
  split
  · simp [notNull, field]
  · simp [notNull, field]
  · rename_i v hv
    rw [set_eq_append h]
    cases v <;> simp_all [notNull, field]

theorem setIfGiven_eq {k : String} (x : Option Value) {d : Obj} (h : lookup k d = none) :
    setIfGiven k x d = d ++ field k x := by
  unfold setIfGiven
  split
  · simp [field]
  · rw [set_eq_append h]; simp [field]

theorem convInfinity_eq (v : Value) : convInfinity v = infinityString v := by
  cases v <;> simp [convInfinity, infinityString]

theorem notNull_map_convInfinity (x : Option Value) :
    notNull (x.map convInfinity) = (notNull x).map infinityString := by
  cases x with
  | none => rfl
  | some v =>
    cases v with
    | str s =>
      by_cases h : s = "Infinity" <;> simp [Option.map, convInfinity, infinityString, notNull, h]
    | _ => simp [Option.map, convInfinity, infinityString, notNull]

macro "lookup_none" : tactic =>
  `(tactic| simp [lookup_append, lookup_field, lookup_cons, lookup_nil])

theorem initData_eq (description timeUnits generationTime doi defaults metadata : Option Value) :
    initData description timeUnits generationTime doi defaults metadata
      = specHeader description timeUnits generationTime doi defaults metadata := by
  unfold initData specHeader
  simp only []
  rw [setIfNotNone_eq description (by lookup_none)]
  rw [setIfNotNone_eq generationTime (by lookup_none)]
  rw [setIfNotNone_eq doi (by lookup_none)]
  rw [setIfNotNone_eq defaults (by lookup_none)]
  rw [setIfNotNone_eq metadata (by lookup_none)]

theorem demeDict_eq (name : Value) (description ancestors proportions startTime epochs defaults : Option Value) :
    demeDict name description ancestors proportions startTime epochs defaults
      = specDeme name description ancestors proportions startTime epochs defaults := by
  unfold demeDict specDeme
  simp only []
  rw [setIfNotNone_eq description (by lookup_none)]
  rw [setIfNotNone_eq ancestors (by lookup_none)]
  rw [setIfNotNone_eq proportions (by lookup_none)]
  rw [setIfNotNone_eq (startTime.map convInfinity) (by lookup_none)]
  rw [setIfNotNone_eq epochs (by lookup_none)]
  rw [setIfNotNone_eq defaults (by lookup_none)]
  rw [notNull_map_convInfinity]

theorem migrationDict_eq (rate demes source dest startTime endTime : Option Value) :
    migrationDict rate demes source dest startTime endTime
      = specMigration rate demes source dest startTime endTime := by
  unfold migrationDict specMigration
  simp only []
  rw [setIfNotNone_eq rate (by lookup_none)]
  rw [setIfGiven_eq demes (by lookup_none)]
  rw [setIfGiven_eq source (by lookup_none)]
  rw [setIfGiven_eq dest (by lookup_none)]
  rw [setIfNotNone_eq (startTime.map convInfinity) (by lookup_none)]
  rw [setIfNotNone_eq endTime (by lookup_none)]
  rw [notNull_map_convInfinity]
  simp

theorem pulseDict_eq (sources dest proportions time : Option Value) :
    pulseDict sources dest proportions time = specPulse sources dest proportions time := by
  unfold pulseDict specPulse
  simp only []
  rw [setIfNotNone_eq sources (by lookup_none)]
  rw [setIfNotNone_eq dest (by lookup_none)]
  rw [setIfNotNone_eq proportions (by lookup_none)]
  rw [setIfNotNone_eq time (by lookup_none)]
  simp

/-! ### `set` on concatenations -/

theorem set_append_right {k : String} {a : Obj} (h : lookup k a = none) (v : Value) (b : Obj) :
    Obj.set k v (a ++ b) = a ++ Obj.set k v b := by
  induction a with
  | nil => rfl
  | cons kv a ih =>
    obtain ⟨k', v'⟩ := kv
    rw [lookup_cons] at h
    by_cases hk : k' = k
    · simp [hk] at h
    · simp only [hk, if_false] at h
      simp [Obj.set, hk, ih h]

/-! ### first occurrences -/

theorem mem_firstOccurrences {α} [DecidableEq α] (a : α) (xs : List α) :
    a ∈ firstOccurrences xs ↔ a ∈ xs := by
  induction xs with
  | nil => simp [firstOccurrences]
  | cons x xs ih =>
    simp only [firstOccurrences, List.mem_cons, List.mem_filter, ih]
    by_cases h : a = x <;> simp [h]

theorem nodup_firstOccurrences {α} [DecidableEq α] (xs : List α) : (firstOccurrences xs).Nodup := by
  induction xs with
  | nil => simp [firstOccurrences]
  | cons x xs ih =>
    simp only [firstOccurrences, List.nodup_cons, List.mem_filter]
    exact ⟨by simp, ih.filter _⟩

theorem firstOccurrences_concat {α} [DecidableEq α] (xs : List α) (a : α) :
    firstOccurrences (xs ++ [a])
      = if a ∈ xs then firstOccurrences xs else firstOccurrences xs ++ [a] := by
  induction xs with
  | nil => simp [firstOccurrences]
  | cons x xs ih =>
    simp only [List.cons_append, firstOccurrences, ih, List.mem_cons]
    by_cases h1 : a ∈ xs
    · simp [h1]
    · by_cases h2 : a = x
      · subst h2; simp [h1]
      · simp [h1, h2, List.filter_append]

/-! ### the sections of a session -/

/-- the section entries of the data dictionary for the calls `ss` -/
def sections (ss : List BuilderCall) : Obj :=
  (firstOccurrences (ss.filterMap sectionOf)).map
    (fun s => (s.key, Value.list (itemsOf s ss)))

theorem key_injective {s s' : Section} (h : s.key = s'.key) : s = s' := by
  cases s <;> cases s' <;> first | rfl | (exact absurd h (by decide))

theorem lookup_map_key (f : Section → Value) (s : Section) (occ : List Section) :
    lookup s.key (occ.map (fun s' => (s'.key, f s'))) = if s ∈ occ then some (f s) else none := by
  induction occ with
  | nil => simp [lookup_nil]
  | cons x occ ih =>
    simp only [List.map_cons, lookup_cons, ih, List.mem_cons]
    by_cases h : x = s
    · subst h; simp
    · have : x.key ≠ s.key := fun e => h (key_injective e)
      have h' : ¬ s = x := fun e => h e.symm
      simp [this, h']

theorem set_map_key (f : Section → Value) (s : Section) (v : Value) (occ : List Section)
    (hm : s ∈ occ) (hnd : occ.Nodup) :
    Obj.set s.key v (occ.map (fun s' => (s'.key, f s')))
      = occ.map (fun s' => (s'.key, if s' = s then v else f s')) := by
  induction occ with
  | nil => simp at hm
  | cons x occ ih =>
    rw [List.nodup_cons] at hnd
    simp only [List.map_cons, Obj.set]
    by_cases h : x = s
    · subst h
      simp only [if_true, List.cons.injEq, true_and]
      apply List.map_congr_left
      intro s' hs'
      have : s' ≠ x := fun e => hnd.1 (e ▸ hs')
      simp [this]
    · have hk : x.key ≠ s.key := fun e => h (key_injective e)
      have hm' : s ∈ occ := by
        rcases List.mem_cons.1 hm with e | e
        · exact absurd e.symm h
        · exact e
      simp [hk, h, ih hm' hnd.2]

theorem itemsOf_concat (s : Section) (ss : List BuilderCall) (c : BuilderCall) :
    itemsOf s (ss ++ [c])
      = itemsOf s ss ++ (if sectionOf c = some s then (itemOf c).toList else []) := by
  unfold itemsOf
  rw [List.filterMap_append]
  congr 1
  simp only [List.filterMap_cons, List.filterMap_nil]
  by_cases hs : sectionOf c = some s
  · simp only [hs, if_true]; cases itemOf c <;> rfl
  · simp [hs]

theorem itemsOf_nil_of_not_mem (s : Section) (ss : List BuilderCall)
    (h : s ∉ ss.filterMap sectionOf) : itemsOf s ss = [] := by
  unfold itemsOf
  rw [List.filterMap_eq_nil_iff]
  intro c hc
  split
  · rename_i hs
    exact absurd (List.mem_filterMap.2 ⟨c, hc, hs⟩) h
  · rfl

/-- appending an item to its section -/
theorem appendTo_sections (H : Obj) (ss : List BuilderCall) (c : BuilderCall) (s : Section)
    (item : Value) (hH : ∀ s' : Section, lookup s'.key H = none)
    (hs : sectionOf c = some s) (hi : itemOf c = some item) :
    appendTo s.key item (H ++ sections ss) = H ++ sections (ss ++ [c]) := by
  have hlk : lookup s.key (H ++ sections ss)
      = if s ∈ firstOccurrences (ss.filterMap sectionOf) then some (Value.list (itemsOf s ss)) else none := by
    rw [lookup_append, hH s]
    simp only [sections]
    rw [lookup_map_key (fun s' => Value.list (itemsOf s' ss))]
    simp
  have hsec : sections (ss ++ [c])
      = (firstOccurrences (ss.filterMap sectionOf ++ [s])).map
          (fun s' => (s'.key, Value.list (itemsOf s' ss ++ if s' = s then [item] else []))) := by
    simp only [sections, List.filterMap_append, List.filterMap_cons, List.filterMap_nil, hs]
    apply List.map_congr_left
    intro s' _
    rw [itemsOf_concat, hs, hi]
    by_cases e : s' = s
    · subst e; simp
    · have : ¬ s = s' := fun e' => e e'.symm
      simp [e, this]
  rw [hsec, firstOccurrences_concat]
  unfold appendTo
  by_cases hm : s ∈ firstOccurrences (ss.filterMap sectionOf)
  · have hc : contains s.key (H ++ sections ss) = true := by
      rw [contains_eq, hlk]; simp [hm]
    have hm' : s ∈ ss.filterMap sectionOf := (mem_firstOccurrences _ _).1 hm
    simp only [hc, if_true, hlk, hm, hm']
    rw [set_append_right (hH s)]
    simp only [sections]
    rw [set_map_key (fun s' => Value.list (itemsOf s' ss)) s _ _ hm (nodup_firstOccurrences _)]
    congr 1
    apply List.map_congr_left
    intro s' _
    by_cases e : s' = s <;> simp [e]
  · have hc : contains s.key (H ++ sections ss) = false := by
      rw [contains_eq, hlk]; simp [hm]
    have hm' : s ∉ ss.filterMap sectionOf := fun h => hm ((mem_firstOccurrences _ _).2 h)
    have hnone : lookup s.key (H ++ sections ss) = none := by rw [hlk]; simp [hm]
    simp only [hc, Bool.false_eq_true, if_false, hm']
    rw [set_eq_append hnone, lookup_append, hnone]
    simp only [lookup_cons, if_true, HOrElse.hOrElse, OrElse.orElse, Option.orElse]
    rw [set_append_right hnone]
    simp only [Obj.set, if_true, List.nil_append, List.map_append, List.map_cons, List.map_nil,
      List.append_assoc]
    congr 1
    rw [itemsOf_nil_of_not_mem s ss hm']
    congr 1
    · apply List.map_congr_left
      intro s' hs'
      have : s' ≠ s := fun e => hm (e ▸ hs')
      simp [this]

/-! ### the last constructor call and the calls after it -/

theorem lastInit_concat (cs : List BuilderCall) (c : BuilderCall) :
    lastInit (cs ++ [c]) = if isInit c then c else lastInit cs := by
  unfold lastInit
  rw [List.reverse_append, List.reverse_singleton, List.singleton_append, List.find?_cons]
  cases h : isInit c <;> simp

theorem session_concat (cs : List BuilderCall) (c : BuilderCall) :
    session (cs ++ [c]) = if isInit c then [] else session cs ++ [c] := by
  unfold session
  rw [List.reverse_append, List.reverse_singleton, List.singleton_append, List.takeWhile_cons]
  cases h : isInit c <;> simp

theorem lookup_specHeader_key (description timeUnits generationTime doi defaults metadata : Option Value)
    (s : Section) :
    lookup s.key (specHeader description timeUnits generationTime doi defaults metadata) = none := by
  cases s <;> (unfold specHeader Section.key; lookup_none)

theorem lookup_headerOf_key (c : BuilderCall) (s : Section) : lookup s.key (headerOf c) = none := by
  cases c <;> first | exact lookup_specHeader_key .. | rfl

theorem docOfCalls_eq (cs : List BuilderCall) :
    docOfCalls cs = headerOf (lastInit cs) ++ sections (session cs) := rfl

/-- one more call -/
theorem step_docOfCalls (cs : List BuilderCall) (c : BuilderCall) :
    step (docOfCalls cs) c = docOfCalls (cs ++ [c]) := by
  rw [docOfCalls_eq, docOfCalls_eq, lastInit_concat, session_concat]
  cases c with
  | init description timeUnits generationTime doi defaults metadata =>
    simp [isInit, step, headerOf, sections, firstOccurrences, initData_eq]
  | resolve =>
    simp only [isInit, Bool.false_eq_true, if_false, step]
    congr 1
    simp only [sections, List.filterMap_append, List.filterMap_cons, List.filterMap_nil, sectionOf,
      List.append_nil]
    apply List.map_congr_left
    intro s _
    rw [itemsOf_concat]; simp [sectionOf]
  | addDeme name description ancestors proportions startTime epochs defaults =>
    simp only [isInit, Bool.false_eq_true, if_false, step, demeDict_eq]
    exact appendTo_sections _ _ _ .demes _ (lookup_headerOf_key _) rfl rfl
  | addMigration rate demes source dest startTime endTime =>
    simp only [isInit, Bool.false_eq_true, if_false, step, migrationDict_eq]
    exact appendTo_sections _ _ _ .migrations _ (lookup_headerOf_key _) rfl rfl
  | addPulse sources dest proportions time =>
    simp only [isInit, Bool.false_eq_true, if_false, step, pulseDict_eq]
    exact appendTo_sections _ _ _ .pulses _ (lookup_headerOf_key _) rfl rfl

theorem run_concat (cs : List BuilderCall) (c : BuilderCall) : run (cs ++ [c]) = step (run cs) c := by
  simp [run, List.foldl_append]

/-- **builder_doc**: the data dictionary after a call sequence is the one the Spec describes,
key order included. -/
theorem builder_doc (calls : List BuilderCall) : run calls = docOfCalls calls := by
  have aux : ∀ cs : List BuilderCall, run cs.reverse = docOfCalls cs.reverse := by
    intro cs
    induction cs with
    | nil =>
      show emptyData = _
      unfold emptyData
      rw [initData_eq]
      rfl
    | cons c cs ih => rw [List.reverse_cons, run_concat, ih, step_docOfCalls]
  have := aux calls.reverse
  rwa [List.reverse_reverse] at this

end Demes.Proofs.BuilderRoute
