"""C01 — every graph the library hands out is a valid fully-resolved Demes model."""
from __future__ import annotations

from props.resolve_common import *  # noqa: F401,F403

RULE = ("documents = generated valid models in random spellings + rule-targeted/random mutants of them, entered as dict, "
        "YAML text, JSON text and Builder calls; every graph returned (also by in_generations, rename_demes, load_all) "
        "is fed to the independent Lean validator Spec.validGraph with its real name index; a case is one document/route; "
        "non-trivial = the document was accepted and has > 1 deme or a migration or a pulse; distinct by canonical document")
ASSUMPTIONS = ["exact stream: all numbers dyadic so that double arithmetic is exact; NaN/inf/bool/None are injected by the mutation stream",
               "from_ms graphs are validated in the C08 check (the ms Model)"]
EXPLANATION = ("Theorem resolve_valid (for EVERY document: resolve d = ok g -> Spec.validGraph g) with corollaries load_valid, "
               "loadAll_valid, resolve_inGenerations_valid, resolve_rename_valid over the Lean Model of Graph.fromdict; Model tied "
               "to the code by exact comparison of accept/reject, the resolved dictionary and the name index on every document; "
               "the independent validator is run on the code's own outputs.")


def run(ctx):
    n = 360 if ctx.tier == "quick" else 4000
    done = 0
    while done < n and ctx.time_left() > 10:
        models = gen_models(ctx, min(120, n - done), max_demes=6 if ctx.tier == "quick" else 9)
        done += len(models)
        docs, tags = [], []
        for m in models:
            d = G.spell(m, ctx.rng, level=ctx.rng.choice([0, 0.5, 1]))
            docs.append(d); tags.append("valid_model")
            for _ in range(3):
                md, t = M.mutate(d, ctx.rng)
                docs.append(md); tags.append("mutant:" + t.split(":")[0])
            for _ in range(2):
                ov = G.overlap_variant(m, ctx.rng)
                if ov is not None:
                    docs.append(G.spell(ov[0], ctx.rng, level=ctx.rng.choice([0, 0.5]))); tags.append("overlap_variant")
        reps = model_resolve(ctx, docs)
        graphs, gdocs = [], []
        for d, t, rep in zip(docs, tags, reps):
            routes = ("dict", "builder") if ctx.rng.random() < 0.7 else ("dict", "yaml", "json", "builder")
            if not json_safe(d):
                routes = tuple(r for r in routes if r != "json")
            res = route_results(d, routes)
            code = res["dict"]
            g = code[2]
            ctx.count(show(canon_doc(d)), code[0] == "ok" and (len(g.demes) > 1 or g.migrations or g.pulses),
                      tags=[t, "accepted" if code[0] == "ok" else "rejected:" + code[1]])
            compare_with_model(ctx, d, code, rep)
            for r, c in res.items():
                if c[0] == "ok":
                    graphs.append(c[2]); gdocs.append({"route": r, "document": show(canon_doc(d))})
            if g is not None:
                g2 = g.in_generations()
                graphs.append(g2); gdocs.append({"route": "in_generations", "document": show(canon_doc(d))})
                names = [x.name for x in g.demes]
                rot = dict(zip(names, names[1:] + names[:1])) if len(names) > 1 else {names[0]: names[0] + "_r"}
                g3 = g.rename_demes(rot)
                graphs.append(g3); gdocs.append({"route": "rename_demes", "names": rot, "document": show(canon_doc(d))})
        check_valid(ctx, graphs, "returned graph", gdocs)


def replay(ctx, payload):
    doc = payload["input"].get("document")
    print("implementation:", {r: c[:2] if c[0] == "err" else "accepted" for r, c in route_results(plain_doc(doc)).items()})
    print("model:", model_resolve(ctx, [plain_doc(doc)])[0])
    return 0


def plain_doc(shown):
    """inverse of wire.show for replay files"""
    from fractions import Fraction
    if isinstance(shown, str):
        if shown == "Infinity":
            return math.inf
        if shown == "-Infinity":
            return -math.inf
        if shown == "NaN":
            return math.nan
        if "/" in shown:
            try:
                return float(Fraction(shown))
            except ValueError:
                return shown
        return shown
    if isinstance(shown, list):
        return [plain_doc(x) for x in shown]
    if isinstance(shown, dict):
        return {k: plain_doc(v) for k, v in shown.items()}
    return shown
