/-
  Driver operations of the heap abstraction (C18, C02).

  Wire:  ref  = {"$ref": n} | {"v": <value>}
         cell = {"d": [[key, ref], ...]} | {"l": [ref, ...]}
         mut  = {"alloc": cell} | {"at": n, "setKey": [k, ref]} | {"at": n, "delKey": k}
              | {"at": n, "append": ref} | {"at": n, "setIndex": [i, ref]} | {"at": n, "delIndex": i}
              | {"at": n, "insertAt": [i, ref]} | {"at": n, "replaceDict": [[k, ref], ...]}
              | {"at": n, "replaceList": [ref, ...]}
-/
import DemesVerif.Wire
import DemesVerif.Model.Heap
import DemesVerif.Model.Dict
namespace Demes.Ops.Heap
open Lean Demes Demes.Wire Demes.Heap

def natOf (j : Json) : Except String Nat :=
  match j with
  | .num n => if n.exponent = 0 ∧ 0 ≤ n.mantissa then pure n.mantissa.toNat else throw "not a natural number"
  | _ => throw "not a number"

def refOf (j : Json) : Except String Ref :=
  match j.getObjVal? "$ref" with
  | .ok a => do let n ← natOf a; pure (.addr n)
  | .error _ =>
    match j.getObjVal? "v" with
    | .ok v => do let x ← toValue v; pure (.atom x)
    | .error _ => throw "bad ref"

def kvsOf (j : Json) : Except String (List (String × Ref)) :=
  match j with
  | .arr kvs => kvs.toList.mapM (fun kv =>
      match kv with
      | .arr #[.str k, r] => do let r' ← refOf r; pure (k, r')
      | _ => throw "bad pair")
  | _ => throw "bad dict"

def refsOf (j : Json) : Except String (List Ref) :=
  match j with
  | .arr xs => xs.toList.mapM refOf
  | _ => throw "bad list"

def cellOf (j : Json) : Except String Cell :=
  match j.getObjVal? "d" with
  | .ok d => do let kvs ← kvsOf d; pure (.dict kvs)
  | .error _ =>
    match j.getObjVal? "l" with
    | .ok l => do let xs ← refsOf l; pure (.list xs)
    | .error _ => throw "bad cell"

def storeOf (j : Json) : Except String Store :=
  match j with
  | .arr cs => cs.toList.mapM cellOf
  | _ => throw "bad store"

def idxRef (j : Json) : Except String (Nat × Ref) :=
  match j with
  | .arr #[i, r] => do let i' ← natOf i; let r' ← refOf r; pure (i', r')
  | _ => throw "bad [index, ref]"

def mutOf (j : Json) : Except String Mut :=
  match j.getObjVal? "alloc" with
  | .ok c => do let c' ← cellOf c; pure (.alloc c')
  | .error _ => do
    let a ← (j.getObjVal? "at") >>= natOf
    let u : Upd Ref ←
      match j.getObjVal? "setKey" with
      | .ok (.arr #[.str k, r]) => do let r' ← refOf r; pure (Upd.setKey k r')
      | _ =>
      match j.getObjVal? "delKey" with
      | .ok (.str k) => pure (Upd.delKey k)
      | _ =>
      match j.getObjVal? "append" with
      | .ok r => do let r' ← refOf r; pure (Upd.append r')
      | _ =>
      match j.getObjVal? "setIndex" with
      | .ok x => do let (i, r) ← idxRef x; pure (Upd.setIndex i r)
      | _ =>
      match j.getObjVal? "delIndex" with
      | .ok i => do let i' ← natOf i; pure (Upd.delIndex i')
      | _ =>
      match j.getObjVal? "insertAt" with
      | .ok x => do let (i, r) ← idxRef x; pure (Upd.insertAt i r)
      | _ =>
      match j.getObjVal? "replaceDict" with
      | .ok d => do let kvs ← kvsOf d; pure (Upd.replaceDict kvs)
      | _ =>
      match j.getObjVal? "replaceList" with
      | .ok l => do let xs ← refsOf l; pure (Upd.replaceList xs)
      | _ => throw "bad mutation"
    pure (.upd a u)

def optValueJ : Option Value → Json
  | none => .null
  | some v => Json.mkObj [("v", ofValue v)]

/-- sharing pattern of a walk: each address replaced by the position of its first occurrence -/
def pattern (l : List Addr) : List Nat :=
  let firsts := l.foldl (fun (acc : List Addr) a => if acc.contains a then acc else acc ++ [a]) []
  l.map (fun a => (firsts.idxOf a))

def natJ (n : Nat) : Json := Json.num (JsonNumber.fromNat n)
def natsJ (l : List Nat) : Json := .arr (l.map natJ).toArray

def failJ (e : String) : Json := Json.mkObj [("fail", .str e)]

def withHeap (j : Json) (k : Store → Ref → Nat → Json) : Json :=
  match (j.getObjVal? "cells") >>= storeOf, (j.getObjVal? "root") >>= refOf with
  | .ok s, .ok r =>
    let fuel := match (j.getObjVal? "fuel") >>= natOf with
      | .ok n => n
      | .error _ => s.length + 1
    k s r fuel
  | .error e, _ => failJ e
  | _, .error e => failJ e

def dispatch? (op : String) (j : Json) : Option Json :=
  if op = "heap_copy" then some <|
    withHeap j (fun s r fuel =>
      let memo := match j.getObjValAs? Bool "memo" with | .ok b => b | .error _ => false
      let res : Option (Store × Ref) :=
        if memo then (copyMemo fuel (s, []) r).map (fun x => (x.1.1, x.2)) else copy fuel s r
      let orig := unfold fuel s r
      match res with
      | none => okJ (Json.mkObj [("unfold", optValueJ orig), ("copy", .null)])
      | some (s', r') =>
        let w := walk fuel s' r'
        okJ (Json.mkObj [
          ("unfold", optValueJ orig),
          ("copy", Json.mkObj [
            ("unfold", optValueJ (unfold fuel s' r')),
            ("n_new", natJ (s'.length - s.length)),
            ("prefix_same", .bool (s'.take s.length == s)),
            ("pattern", match w with | none => .null | some l => natsJ (pattern l)),
            ("fresh", match w with | none => .null | some l => .bool (l.all (fun a => decide (s.length ≤ a)))),
            ("tree", match w with | none => .null | some l => .bool (decide l.Nodup))])]))
  else if op = "heap_script" then some <|
    withHeap j (fun s _ fuel =>
      match (j.getObjVal? "script") >>= (fun x => match x with
          | .arr ms => ms.toList.mapM mutOf | _ => throw "bad script"),
        (j.getObjVal? "roots") >>= refsOf with
      | .ok ms, .ok roots =>
        let s' := runMuts s ms
        okJ (Json.mkObj [("length", natJ s'.length),
          ("roots", .arr (roots.map (fun r => optValueJ (unfold fuel s' r))).toArray)])
      | .error e, _ => failJ e
      | _, .error e => failJ e)
  else if op = "heap_resolve" then some <|
    withHeap j (fun s r fuel =>
      match fromdictOutcome fuel s r with
      | none => Json.mkObj [("err", .str "RecursionError"), ("msg", .str "out of fuel while copying")]
      | some (.error e) => errJ e
      | some (.ok g) => Json.mkObj [("ok", ofValue g.asdict)])
  else none

end Demes.Ops.Heap
