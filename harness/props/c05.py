"""C05 — the simplified form is a valid model that resolves back to the same graph."""
from __future__ import annotations

import itertools

from props.resolve_common import *  # noqa: F401,F403

RULE = ("valid graphs: (a) the boundary-directed generator; (b) island families on 2-5 demes where each ordered pair carries a "
        "migration with one of <= 2 (rate, start, end) keys with probability 0.7, so that partially symmetric groups of every shape "
        "arise; (c) thorough tier: ALL 4096 digraphs on 4 demes with one shared key; each graph's asdict_simplified() is compared with "
        "the Lean Model's, resolved again by the real code (must be accepted and give the identical fully-resolved dictionary, "
        "migrations as a multiset); a case is one graph; non-trivial = something is omitted or merged in the simplified form")
ASSUMPTIONS = ["numbers dyadic (exact)"]
EXPLANATION = ("Theorems over the Lean Model of asdict_simplified: simplify_invariant (the expansion of the symmetric groups found plus the "
               "remaining directional migrations is a permutation of the bound-stripped migrations, whichever subsets the search tries), "
               "simplify_fuel_sufficient (termination), the field-level round trips (epoch_simplified_roundtrip, stripBounds_roundtrip, deme header); "
               "Model tied to the code by exact comparison of the simplified dictionary; re-resolution checked on the real code.")


def island(rng, n=None, keys=2, p=0.7):
    n = n or rng.randint(2, 5)
    b = demes.Builder()
    names = ["A", "B", "C", "D", "E"][:n]
    for nm in names:
        b.add_deme(nm, epochs=[dict(start_size=100, end_time=rng.choice([0, 0, 8]))])
    ks = [(1 / 64, None, None), (1 / 32, 64, 16), (1 / 64, 64, None)][:keys]
    for (s, d) in itertools.permutations(names, 2):
        if rng.random() < p:
            r, st, et = rng.choice(ks)
            b.add_migration(source=s, dest=d, rate=r, start_time=st, end_time=et)
    return b.resolve()


def digraph(mask, n=4):
    b = demes.Builder()
    names = ["A", "B", "C", "D"][:n]
    for nm in names:
        b.add_deme(nm, epochs=[dict(start_size=100)])
    for i, (s, d) in enumerate(itertools.permutations(names, 2)):
        if mask >> i & 1:
            b.add_migration(source=s, dest=d, rate=1 / 64)
    return b.resolve()


def multiset_eq(a, b):
    a = copy.deepcopy(a); b = copy.deepcopy(b)
    key = lambda m: json.dumps(show(canon(m)), sort_keys=True)
    a["migrations"] = sorted(a["migrations"], key=key); b["migrations"] = sorted(b["migrations"], key=key)
    return canon_eq(canon(a), canon(b))


def one_batch(ctx, graphs, tag):
    reps = ctx.driver.batch([{"op": "simplified", "graph": enc(g.asdict())} for g in graphs])
    for g, r in zip(graphs, reps):
        a = g.asdict()
        try:
            s = g.asdict_simplified()
        except Exception as e:  # noqa: BLE001
            # the simplified form of a valid graph must exist (C05: "is itself an acceptable document")
            ctx.count(show(canon(a)), True, tags=[tag, "asdict_simplified raises"])
            ctx.violation(f"asdict_simplified() raises on a valid graph ({type(e).__name__}: {str(e)[:80]})", {"graph": show(canon(a))},
                          python="g.asdict_simplified()")
            continue
        nontriv = json.dumps(show(canon(s))) != json.dumps(show(canon(a)))
        ctx.count(show(canon(a)), nontriv, tags=[tag, f"symmetric_groups={sum(1 for m in s.get('migrations', []) if 'demes' in m)}"])
        ctx.compared += 1
        case = {"graph": show(canon(a))}
        if "ok" not in r or not canon_eq(canon(s), dec(r["ok"])):
            ctx.disagreement("simplified", case, show(canon(s)), r)
        try:
            g2 = demes.Graph.fromdict(s)
        except Exception as e:  # noqa: BLE001
            ctx.violation(f"the simplified form is rejected ({type(e).__name__}: {str(e)[:80]})", case,
                          python="demes.Graph.fromdict(g.asdict_simplified())")
            continue
        if not multiset_eq(g2.asdict(), a):
            diff = [k for k in a if canon(a[k]) != canon(g2.asdict()[k])]
            ctx.violation(f"resolving the simplified form gives a different model (fields {diff})", case,
                          detail={"simplified": show(canon(s))})


def run(ctx):
    n = 450 if ctx.tier == "quick" else 6000
    done = 0
    while done < n and ctx.time_left() > 15:
        batch = gen_valid_graphs(ctx, min(150, n - done), max_demes=6, corpus=True)
        done += len(batch)
        one_batch(ctx, [g for _, g, _ in batch], "generator")
        isl = []
        for _ in range(len(batch) // 2):
            try:
                isl.append(island(ctx.rng))
            except Exception:  # noqa: BLE001
                pass
        one_batch(ctx, isl, "island")
    if ctx.tier == "thorough":
        masks = list(range(4096))
        for i in range(0, 4096, 256):
            if ctx.time_left() < 10:
                break
            one_batch(ctx, [digraph(m) for m in masks[i:i + 256]], "all_digraphs_4")
        else:
            ctx.exhaustive = False  # exhaustive only for the 4-deme single-key family
            ctx.extra["exhaustive_family"] = "all 4096 migration digraphs on 4 demes with one shared (rate, start, end) key"


def replay(ctx, payload):
    from props.c01 import plain_doc
    g = demes.Graph.fromdict(plain_doc(payload["input"]["graph"]))
    s = g.asdict_simplified()
    print(s)
    print(multiset_eq(demes.Graph.fromdict(s).asdict(), g.asdict()))
    return 0
