/-
  C08 — what `Demes.resolve` returns on the document of `build_graph`, read back field by field:
  demes (name, start time, epochs) and migrations are those of the document, in order.
-/
import DemesVerif.Proofs.FromMsNames
namespace Demes.Proofs.FromMs
open Demes Demes.Ms Demes.Spec Demes.Spec.C08

/-! ## one epoch -/

/-- the object of a Builder epoch with an explicit `start_size` and no `growth_rate` -/
def epObj (tab : List (Sz × Q)) (e : BEpoch) : Obj :=
  [("end_size", nV (szToQ tab e.endSize)), ("end_time", nV e.endTime),
   ("start_size", nV (szToQ tab (e.startSize.getD e.endSize)))]

theorem epToValue_eq {tab : List (Sz × Q)} {e : BEpoch} (hs : e.startSize.isSome = true)
    (hg : e.growthRate = none) : BEpoch.toValue tab e = .obj (epObj tab e) := by
  obtain ⟨a, b, c, d⟩ := e
  cases c with
  | none => cases hs
  | some z =>
    cases hg
    rfl

theorem unitQ_val {v : Value} {q : Q} (h : unitQ v = .ok q) : v.asNumRaw? = some (.fin q) := by
  simp only [unitQ, RV.bind_ok] at h
  obtain ⟨n, h1, _, _, h4⟩ := h
  have hn := RV.toQ_ok h4
  subst hn
  exact (RV.intOrFloat_ok h1).1

/-- the epoch the loop appends for the Builder epoch `e` when the epoch starts at `st` -/
def mkEpoch (tab : List (Sz × Q)) (st : ETime) (e : BEpoch) : Epoch :=
  { startTime := st, endTime := e.endTime,
    startSize := szToQ tab (e.startSize.getD e.endSize), endSize := szToQ tab e.endSize,
    sizeFunction := if szToQ tab (e.startSize.getD e.endSize) = szToQ tab e.endSize then "constant" else "exponential",
    selfingRate := 0, cloningRate := 0 }

theorem epochStep_doc {tab : List (Sz × Q)} {st : ETime} {n j : Nat} {acc r : List Epoch} {e : BEpoch}
    (h : Proofs.epochStep st [] n acc (epObj tab e, j) = .ok r) :
    r = acc ++ [mkEpoch tab (specEpochStart st acc.getLast?) e] := by
  obtain ⟨ep, ⟨_, raw, hraw, hst, hv, _⟩, rfl⟩ := (Proofs.epochStep_ok_iff st [] n acc (epObj tab e) j r).1 h
  have hr : raw =
    { endTime := nV e.endTime, startSize := nV (szToQ tab (e.startSize.getD e.endSize)),
      endSize := nV (szToQ tab e.endSize), sizeFunction := none,
      selfing := .num (.fin 0), cloning := .num (.fin 0) } := by
    have : specEpochFieldsOf acc.getLast? (decide (j = n - 1))
        (fun k => Obj.lookup k (Obj.insertDefaults (epObj tab e) [])) = some
        { endTime := nV e.endTime, startSize := nV (szToQ tab (e.startSize.getD e.endSize)),
          endSize := nV (szToQ tab e.endSize), sizeFunction := none,
          selfing := .num (.fin 0), cloning := .num (.fin 0) } := rfl
    rw [this] at hraw
    exact (Option.some.inj hraw).symm
  subst hr
  obtain ⟨h1, h2, h3, h4, h5, h6⟩ := hv
  have e1 := Option.some.inj (RV.nonNegFiniteQ_ok h1).1
  have e2 := Option.some.inj (RV.posFiniteQ_ok h2).1
  have e3 := Option.some.inj (RV.posFiniteQ_ok h3).1
  have e5 := Option.some.inj (unitQ_val h5)
  have e6 := Option.some.inj (unitQ_val h6)
  simp only [Num.fin.injEq] at e1 e2 e3 e5 e6
  simp only [specSizeFunction, Option.some.injEq] at h4
  obtain ⟨a, b, c, d, f, s, cl⟩ := ep
  simp only at hst e1 e2 e3 e5 e6 h4
  subst hst e1 e2 e3 e5 e6
  rw [← h4]
  rfl

/-! ## the epoch loop -/

theorem epochsOf_cons (tab : List (Sz × Q)) (st : ETime) (e : BEpoch) (r : List BEpoch) :
    epochsOf tab st (e :: r) = mkEpoch tab st e :: epochsOf tab (.fin e.endTime) r := rfl

theorem epochLoop_doc {tab : List (Sz × Q)} {st : ETime} {n : Nat} : ∀ (es : List BEpoch) (k : Nat)
    (acc r : List Epoch),
    ((es.map (epObj tab)).zipIdx k).foldlM (Proofs.epochStep st [] n) acc = .ok r →
    r = acc ++ epochsOf tab (specEpochStart st acc.getLast?) es := by
  intro es
  induction es with
  | nil =>
    intro k acc r h
    cases h
    simp [epochsOf]
  | cons e es ih =>
    intro k acc r h
    rw [List.map_cons, List.zipIdx_cons, List.foldlM_cons] at h
    obtain ⟨acc1, h1, h2⟩ := RV.bind_ok.1 h
    have e1 := epochStep_doc h1
    subst e1
    rw [ih _ _ _ h2, epochsOf_cons, List.append_assoc]
    congr 2
    simp [specEpochStart, mkEpoch]

theorem resolveEpochs_doc {tab : List (Sz × Q)} {st : ETime} {es : List BEpoch} {r : List Epoch}
    (h : resolveEpochs st [] (es.map (epObj tab)) = .ok r) : r = epochsOf tab st es := by
  rw [Proofs.resolveEpochs_eq] at h
  have := epochLoop_doc es 0 [] r h
  simpa [specEpochStart] using this

/-! ## one deme -/

theorem lookup_defaults_demeObj (tab : List (Sz × Q)) (d : BDeme) :
    Obj.lookup "defaults" (demeObj tab d) = none := by
  obtain ⟨a, b, c, anc, pr⟩ := d
  cases anc <;> cases pr <;> rfl

theorem lookup_epochs_demeObj (tab : List (Sz × Q)) (d : BDeme) :
    Obj.lookup "epochs" (demeObj tab d) = some (.list (d.epochs.map (BEpoch.toValue tab))) := rfl

theorem lookup_name_demeObj (tab : List (Sz × Q)) (d : BDeme) :
    Obj.lookup "name" (demeObj tab d) = some (.str d.name) := rfl

theorem lookupNN_startTime_demeObj (tab : List (Sz × Q)) (d : BDeme) :
    Obj.lookupNN "start_time" (demeObj tab d) = some (tV d.startTime) := rfl

theorem popObjList_epochs {tab : List (Sz × Q)} {d : BDeme}
    (hclosed : ∀ e ∈ d.epochs, e.startSize.isSome = true) (hgr : ∀ e ∈ d.epochs, e.growthRate = none) :
    popObjList (demeObj tab d) "epochs" (some [[]]) = .ok (d.epochs.map (epObj tab)) := by
  unfold popObjList
  rw [lookup_epochs_demeObj]
  have e : d.epochs.map (BEpoch.toValue tab) = (d.epochs.map (epObj tab)).map Value.obj := by
    rw [List.map_map]
    exact List.map_congr_left (fun x hx => epToValue_eq (hclosed x hx) (hgr x hx))
  show (pure (d.epochs.map (BEpoch.toValue tab)) >>= fun xs => xs.mapM instObj) = _
  rw [e]
  exact mapM_instObj_objs _

/-- the projection read back from a deme -/
def dproj (d : Deme) : String × ETime × List Epoch := (d.name, d.startTime, d.epochs)

theorem resolveDeme_doc {tab : List (Sz × Q)} {d : BDeme} {g g' : Graph}
    (hclosed : ∀ e ∈ d.epochs, e.startSize.isSome = true) (hgr : ∀ e ∈ d.epochs, e.growthRate = none)
    (h : resolveDeme [] [] g (demeObj tab d) = .ok g') :
    g'.demes.map dproj = g.demes.map dproj ++ [(d.name, d.startTime, epochsOf tab d.startTime d.epochs)] := by
  obtain ⟨nameV, dd, ld, L, es, eps, hname, _, hd, hld, hL, hes, heps, hg⟩ := Proofs.resolveDeme_ok h
  have hins : Obj.insertDefaults (demeObj tab d) [] = demeObj tab d := rfl
  rw [hins] at hd hld hes
  rw [lookup_name_demeObj] at hname
  cases hname
  rw [lookupNN_startTime_demeObj] at hd
  obtain ⟨_, startTime, hn, _, _, _, hst, _, _, hte, _, _, _⟩ := Proofs.addDemeHeader_ok hd
  -- name
  have hname : dd.name = d.name := by
    injection hn with hn
    exact hn.symm
  -- start time
  have hstart : dd.startTime = d.startTime := by
    have h1 : intOrFloat (tV d.startTime) = .ok startTime := hst
    have h2 := (RV.intOrFloat_ok h1).1
    have h3 : Num.ofETime d.startTime = startTime := Option.some.inj h2
    have h4 := RV.toETime_ok hte
    rw [← h3] at h4
    exact (RV.ofETime_inj h4).symm
  -- no local defaults
  have hld' : ld = [] := by
    unfold popObject at hld
    rw [lookup_defaults_demeObj] at hld
    exact (RV.pure_ok.1 hld).symm
  subst hld'
  have hL' : L = [] := (RV.pure_ok.1 hL).symm
  subst hL'
  have hup : Obj.update [] [] = [] := rfl
  rw [hup] at heps
  -- epochs
  rw [popObjList_epochs hclosed hgr] at hes
  have hes' : d.epochs.map (epObj tab) = es := Except.ok.inj hes
  subst hes'
  have he := resolveEpochs_doc heps
  rw [hstart] at he
  rw [hg, List.map_append]
  simp only [List.map_cons, List.map_nil, dproj, hname, hstart, he]

theorem demeLoop_doc {tab : List (Sz × Q)} : ∀ (ds : List BDeme) (g g' : Graph),
    (∀ d ∈ ds, ∀ e ∈ d.epochs, e.startSize.isSome = true) →
    (∀ d ∈ ds, ∀ e ∈ d.epochs, e.growthRate = none) →
    (ds.map (demeObj tab)).foldlM (resolveDeme [] []) g = .ok g' →
    g'.demes.map dproj = g.demes.map dproj
      ++ ds.map (fun d => (d.name, d.startTime, epochsOf tab d.startTime d.epochs)) := by
  intro ds
  induction ds with
  | nil => intro g g' _ _ h; cases h; simp
  | cons d ds ih =>
    intro g g' hc hg h
    rw [List.map_cons, List.foldlM_cons] at h
    obtain ⟨g1, h1, h2⟩ := RV.bind_ok.1 h
    rw [ih g1 g' (fun x hx => hc x (List.mem_cons_of_mem _ hx))
      (fun x hx => hg x (List.mem_cons_of_mem _ hx)) h2,
      resolveDeme_doc (hc d List.mem_cons_self) (hg d List.mem_cons_self) h1]
    simp

/-! ## one migration -/

/-- `_add_asymmetric_migration` with explicit times: the migration appended carries the given
fields -/
theorem addAsymmetricMigration_fields {g g' : Graph} {sourceV destV rateV sv ev : Value}
    (h : addAsymmetricMigration g sourceV destV rateV (some sv) (some ev) = .ok g') :
    ∃ m : Migration, g' = { g with migrations := g.migrations ++ [m] }
      ∧ sourceV = .str m.source ∧ destV = .str m.dest
      ∧ sv.asNumRaw? = some (Num.ofETime m.startTime) ∧ ev.asNumRaw? = some (.fin m.endTime)
      ∧ rateV.asNumRaw? = some (.fin m.rate) := by
  unfold addAsymmetricMigration at h
  obtain ⟨source, hsource, h⟩ := RV.bind_ok.1 h
  obtain ⟨dest, hdest, h⟩ := RV.bind_ok.1 h
  obtain ⟨⟨lo, hi⟩, hti, h⟩ := RV.bind_ok.1 h
  dsimp -zeta only at h
  extract_lets startV jp1 at h
  obtain ⟨⟨lo', hi'⟩, hti', h⟩ := RV.bind_ok.1 h
  have h := RV.pbind h
  dsimp -zeta only [jp1] at h
  extract_lets jp3 jp2 at h
  obtain ⟨_, h⟩ := RV.ite_verr h
  dsimp -zeta only [jp2] at h
  obtain ⟨_, h⟩ := RV.ite_verr h
  dsimp -zeta only [jp3] at h
  obtain ⟨startTime, hstartTime, h⟩ := RV.bind_ok.1 h
  obtain ⟨endTime, hendTime, h⟩ := RV.bind_ok.1 h
  obtain ⟨rate, hrate, h⟩ := RV.bind_ok.1 h
  extract_lets jp4 jp5 jp6 at h
  obtain ⟨hne, h⟩ := RV.ite_verr h
  dsimp -zeta only [jp6] at h
  obtain ⟨hlt, h⟩ := RV.ite_verr h
  dsimp -zeta only [jp5] at h
  obtain ⟨hany, h⟩ := RV.ite_verr h
  dsimp -zeta only [jp4] at h
  rw [RV.pure_ok] at h
  subst h
  exact ⟨_, rfl, (RV.existingName_ok hsource).1, (RV.existingName_ok hdest).1,
    (RV.nonNegTime_ok hstartTime).1, (RV.nonNegFiniteQ_ok hendTime).1, unitQ_val hrate⟩

/-- the object of a Builder migration -/
def migObj (m : BMigration) : Obj :=
  [("source", .str m.source), ("dest", .str m.dest), ("start_time", tV m.startTime),
   ("end_time", nV m.endTime), ("rate", .num m.rate)]

theorem migToValue_eq (m : BMigration) : BMigration.toValue m = .obj (migObj m) := rfl

/-- the projection read back from a migration -/
def mproj (m : Migration) : String × String × ETime × Q × Num :=
  (m.source, m.dest, m.startTime, m.endTime, Num.fin m.rate)

theorem resolveMigration_doc {m : BMigration} {g g' : Graph}
    (h : resolveMigration [] g (migObj m) = .ok g') :
    SameDI g' g ∧
    g'.migrations.map mproj = g.migrations.map mproj
      ++ [(m.source, m.dest, m.startTime, m.endTime, m.rate)] := by
  refine ⟨resolveMigration_demes h, ?_⟩
  unfold resolveMigration at h
  obtain ⟨_, _, h⟩ := RV.bind_ok.1 h
  have h' : addAsymmetricMigration g (.str m.source) (.str m.dest) (.num m.rate)
      (some (tV m.startTime)) (some (nV m.endTime)) = .ok g' := h
  obtain ⟨m', rfl, h1, h2, h3, h4, h5⟩ := addAsymmetricMigration_fields h'
  injection h1 with h1
  injection h2 with h2
  have h3' : Num.ofETime m.startTime = Num.ofETime m'.startTime := Option.some.inj h3
  have h4' : Num.fin m.endTime = Num.fin m'.endTime := Option.some.inj h4
  have h5' : m.rate = Num.fin m'.rate := Option.some.inj h5
  injection h4' with h4'
  show (g.migrations ++ [m']).map mproj = _
  rw [List.map_append]
  simp only [List.map_cons, List.map_nil, mproj, ← h1, ← h2, ← RV.ofETime_inj h3', ← h4', ← h5']

theorem migLoop_doc : ∀ (ms : List BMigration) (g g' : Graph),
    (ms.map migObj).foldlM (resolveMigration []) g = .ok g' →
    SameDI g' g ∧
    g'.migrations.map mproj = g.migrations.map mproj
      ++ ms.map (fun m => (m.source, m.dest, m.startTime, m.endTime, m.rate)) := by
  intro ms
  induction ms with
  | nil => intro g g' h; cases h; exact ⟨⟨rfl, rfl⟩, by simp⟩
  | cons m ms ih =>
    intro g g' h
    rw [List.map_cons, List.foldlM_cons] at h
    obtain ⟨g1, h1, h2⟩ := RV.bind_ok.1 h
    obtain ⟨s1, e1⟩ := resolveMigration_doc h1
    obtain ⟨s2, e2⟩ := ih g1 g' h2
    refine ⟨s2.trans s1, ?_⟩
    rw [e2, e1]
    simp

/-! ## pulses leave demes and migrations alone -/

theorem resolvePulse_frame {pd : Obj} {g g' : Graph} {p : Obj} (h0 : v0 g = true)
    (h : resolvePulse pd g p = .ok g') :
    v0 g' = true ∧ g'.demes = g.demes ∧ g'.migrations = g.migrations := by
  unfold resolvePulse at h
  obtain ⟨_, _, h⟩ := RV.bind_ok.1 h
  extract_lets p1 at h
  split at h
  · obtain ⟨q, rfl, _⟩ := RV.addPulse_ok h0 h
    exact ⟨h0, rfl, rfl⟩
  · exact (RV.keyErr_ok.1 h).elim

/-! ## the document -/

theorem lookup_defaults_docObj (tab : List (Sz × Q)) (doc : MsDoc) :
    Obj.lookup "defaults" (docObj tab doc) = none := by
  obtain ⟨a, b, ps, n⟩ := doc
  cases ps <;> rfl

theorem popObjList_migrations (tab : List (Sz × Q)) (doc : MsDoc) :
    popObjList (docObj tab doc) "migrations" (some []) = .ok (doc.migrations.map migObj) := by
  unfold popObjList
  have : Obj.lookup "migrations" (docObj tab doc)
      = some (Value.list (doc.migrations.map BMigration.toValue)) := rfl
  rw [this]
  have e : doc.migrations.map BMigration.toValue = (doc.migrations.map migObj).map Value.obj := by
    rw [List.map_map]; rfl
  show (pure (doc.migrations.map BMigration.toValue) >>= fun xs => xs.mapM instObj) = _
  rw [e]
  exact mapM_instObj_objs _

/-- `resolve` on the document of `build_graph`, in `List.map` form -/
theorem resolve_doc_readback_map {tab : List (Sz × Q)} {doc : MsDoc} {g : Graph}
    (h : resolve (doc.toValue tab) = .ok g)
    (hclosed : ∀ d ∈ doc.demes, ∀ e ∈ d.epochs, e.startSize.isSome = true)
    (hgr : ∀ d ∈ doc.demes, ∀ e ∈ d.epochs, e.growthRate = none) :
    g.demes.map dproj
      = doc.demes.map (fun d => (d.name, d.startTime, epochsOf tab d.startTime d.epochs)) ∧
    g.migrations.map mproj
      = doc.migrations.map (fun m => (m.source, m.dest, m.startTime, m.endTime, m.rate)) := by
  obtain ⟨data, defaults, DD, MD, PD, GE, g0, demesList, g1, migs, g2, pulses, g3, hd, hdef, hDD, hMD, _,
    hGE, hg0, hdl, hg1, hml, hg2, _, hg3, rfl⟩ := Proofs.resolve_ok h
  rw [docToValue_eq] at hd
  injection hd with hd
  subst hd
  -- no defaults
  have hdef' : defaults = [] := by
    unfold popObject at hdef
    rw [lookup_defaults_docObj] at hdef
    exact (RV.pure_ok.1 hdef).symm
  subst hdef'
  have hDD' : DD = [] := (RV.pure_ok.1 hDD).symm
  have hMD' : MD = [] := (RV.pure_ok.1 hMD).symm
  have hGE' : GE = [] := (RV.pure_ok.1 hGE).symm
  subst hDD' hMD' hGE'
  -- the lists
  rw [popObjList_demes] at hdl
  have hdl' := Except.ok.inj hdl
  subst hdl'
  rw [popObjList_migrations] at hml
  have hml' := Except.ok.inj hml
  subst hml'
  -- the loops
  obtain ⟨_, hd0, _, hm0, _⟩ := RV.resolveHeader_ok hg0
  have e1 := demeLoop_doc doc.demes g0 g1 hclosed hgr hg1
  rw [hd0] at e1
  have i1 : RV.Inv2 g1 :=
    RV.foldlM_inv RV.Inv2 _ (fun s a s' hs hst => (RV.resolveDeme_inv hs hst).1) _ _ _ (RV.Inv2_header hg0) hg1
  obtain ⟨e2, e2m⟩ := migLoop_doc doc.migrations g1 g2 hg2
  rw [i1.migs] at e2m
  have e3 : v0 g3 = true ∧ g3.demes = g2.demes ∧ g3.migrations = g2.migrations :=
    RV.foldlM_inv (fun s => v0 s = true ∧ s.demes = g2.demes ∧ s.migrations = g2.migrations) _
      (fun s a s' hs hst => ⟨(resolvePulse_frame hs.1 hst).1, (resolvePulse_frame hs.1 hst).2.1.trans hs.2.1,
        (resolvePulse_frame hs.1 hst).2.2.trans hs.2.2⟩)
      _ _ _ ⟨e2.v0 i1.d.h0, rfl, rfl⟩ hg3
  refine ⟨?_, ?_⟩
  · show g3.demes.map dproj = _
    rw [e3.2.1, e2.1, e1]
    rfl
  · show g3.migrations.map mproj = _
    rw [e3.2.2, e2m]
    rfl

theorem map_pointwise {α β γ} {f : α → γ} {k : β → γ} {l : List α} {l' : List β}
    (h : l.map f = l'.map k) :
    l.length = l'.length ∧ ∀ (i : Nat) (a : α) (b : β), l'[i]? = some b → l[i]? = some a → f a = k b := by
  refine ⟨by simpa using congrArg List.length h, ?_⟩
  intro i a b hb ha
  have := congrArg (fun x => x[i]?) h
  simp only [List.getElem?_map, ha, hb, Option.map_some, Option.some.injEq] at this
  exact this

/-- **`resolve` returns the document.**  On the document `build_graph` hands over (every epoch
with an explicit `start_size` and no `growth_rate` left), `Demes.resolve` returns, in order, the
demes of the document with their names, start times and epochs (`epochsOf`: only the size function
is inferred), and the migrations of the document. -/
theorem resolve_doc_readback {tab : List (Sz × Q)} {doc : MsDoc} {g : Graph}
    (h : resolve (doc.toValue tab) = .ok g)
    (hclosed : ∀ d ∈ doc.demes, ∀ e ∈ d.epochs, e.startSize.isSome = true)
    (hgr : ∀ d ∈ doc.demes, ∀ e ∈ d.epochs, e.growthRate = none) :
    g.demes.length = doc.demes.length ∧
    (∀ (i : Nat) (d : BDeme) (d' : Deme), doc.demes[i]? = some d → g.demes[i]? = some d' →
        d'.name = d.name ∧ d'.startTime = d.startTime ∧ d'.epochs = epochsOf tab d.startTime d.epochs) ∧
    g.migrations.length = doc.migrations.length ∧
    (∀ (i : Nat) (m : BMigration) (m' : Migration), doc.migrations[i]? = some m → g.migrations[i]? = some m' →
        m'.source = m.source ∧ m'.dest = m.dest ∧ m'.startTime = m.startTime ∧ m'.endTime = m.endTime
        ∧ m.rate = Num.fin m'.rate) := by
  obtain ⟨hd, hm⟩ := resolve_doc_readback_map h hclosed hgr
  obtain ⟨hdl, hdp⟩ := map_pointwise hd
  obtain ⟨hml, hmp⟩ := map_pointwise hm
  refine ⟨hdl, ?_, hml, ?_⟩
  · intro i d d' h1 h2
    have := hdp i d' d h1 h2
    simp only [dproj, Prod.mk.injEq] at this
    exact this
  · intro i m m' h1 h2
    have := hmp i m' m h1 h2
    simp only [mproj, Prod.mk.injEq] at this
    exact ⟨this.1, this.2.1, this.2.2.1, this.2.2.2.1, this.2.2.2.2.symm⟩

/-! ## non-vacuity -/

/-- two demes (the second with two epochs, one exponential), one migration -/
def readbackDoc : MsDoc :=
  { demes := [
      { name := "deme1", startTime := .inf,
        epochs := [{ endSize := Sz.ofQ 100, endTime := 0, startSize := some (Sz.ofQ 100) }] },
      { name := "deme2", startTime := .fin 50,
        epochs := [{ endSize := Sz.ofQ 20, endTime := 10, startSize := some (Sz.ofQ 10) },
                   { endSize := Sz.ofQ 20, endTime := 0, startSize := some (Sz.ofQ 20) }],
        ancestors := some ["deme1"], proportions := some [1] }],
    migrations := [{ source := "deme1", dest := "deme2", startTime := .fin 40, endTime := 5,
                     rate := .fin (1/100) }],
    pulses := none }

/-- the hypotheses of `resolve_doc_readback` hold of a concrete document that resolves -/
example : (∃ g, resolve (readbackDoc.toValue []) = .ok g)
    ∧ (∀ d ∈ readbackDoc.demes, ∀ e ∈ d.epochs, e.startSize.isSome = true)
    ∧ (∀ d ∈ readbackDoc.demes, ∀ e ∈ d.epochs, e.growthRate = none) := by
  refine ⟨?_, by decide +kernel, by decide +kernel⟩
  have h : (match resolve (readbackDoc.toValue []) with | .ok _ => true | .error _ => false) = true := by
    decide +kernel
  cases hr : resolve (readbackDoc.toValue []) with
  | ok g => exact ⟨g, rfl⟩
  | error e => rw [hr] at h; cases h

end Demes.Proofs.FromMs
