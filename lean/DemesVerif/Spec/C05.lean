/-
  Spec definitions for C05 — the simplified form (`Graph.asdict_simplified`).

  * the meaning of a simplified migration list: a symmetric record stands for one asymmetric
    record per ordered pair of its demes (`expandS`, `expandAll`);
  * the per-epoch part of V6 (`v6Epoch`), so that the epoch round trip can be stated for a
    single epoch;
  * names for the field lists (`Obj`) inside the `Value`s built by `Epoch.simplified` and
    `Deme.simplified` (definitionally the same lists, see `Epoch.simplified_eq`,
    `Deme.simplified_eq`);
  * the prefix graph `prefixGraph g i` (the first `i` demes and their index entries), the state
    of the resolver's graph when it reaches deme number `i`.
-/
import DemesVerif.Spec.Valid
import DemesVerif.Model.Simplify
namespace Demes.Spec
open Demes

/-! ### meaning of the simplified migration list -/

/-- the asymmetric record of the ordered pair `p` carrying the (rate, start, end) key `k` -/
def mkA (k : RateKey) (p : String × String) : AMig :=
  { source := p.1, dest := p.2, start := k.2.1, stop := k.2.2, rate := k.1 }

def smigKey (m : SMig) : RateKey := (m.rate, m.start, m.stop)

/-- a symmetric record stands for one asymmetric record per ordered pair of its demes -/
def expandS (m : SMig) : List AMig := (perms2 m.demes).map (mkA (smigKey m))

/-- all asymmetric records denoted by a simplified migration list (symmetric ones first) -/
def expandAll (r : List SMig × List AMig) : List AMig := r.1.flatMap expandS ++ r.2

/-! ### per-epoch validity (the body of V6) -/

def v6Epoch (e : Epoch) : Bool :=
  decide (0 < e.startSize) && decide (0 < e.endSize)
    && decide (0 ≤ e.selfingRate) && decide (e.selfingRate ≤ 1)
    && decide (0 ≤ e.cloningRate) && decide (e.cloningRate ≤ 1)
    && sizeFunctionsS.contains e.sizeFunction
    && (e.sizeFunction != "constant" || e.startSize == e.endSize)
    && (!e.startTime.isInf || e.startSize == e.endSize)
    && decide (0 ≤ e.endTime)

theorem v6_eq (g : Graph) : v6 g = g.demes.all (fun d => d.epochs.all v6Epoch) := rfl

/-! ### the field lists of the simplified epoch / deme -/

/-- the fields of `Epoch.simplified e` -/
def epochSimplifiedObj (e : Epoch) : Obj :=
  let inferred := if e.startSize = e.endSize then "constant" else "exponential"
  [("end_time", numV e.endTime), ("start_size", numV e.startSize)]
    ++ (if e.startSize = e.endSize then [] else [("end_size", numV e.endSize)])
    ++ (if e.sizeFunction = inferred then [] else [("size_function", .str e.sizeFunction)])
    ++ (if e.selfingRate = 0 then [] else [("selfing_rate", numV e.selfingRate)])
    ++ (if e.cloningRate = 0 then [] else [("cloning_rate", numV e.cloningRate)])

theorem epochSimplified_eq (e : Epoch) : Epoch.simplified e = .obj (epochSimplifiedObj e) := rfl

/-- `start_time` is omitted by `Deme.simplified` iff it is infinite, or there is a single
ancestor and the start time is that ancestor's end time -/
def dropStart (g : Graph) (d : Deme) : Bool :=
  d.startTime.isInf ||
    (decide (d.ancestors.length = 1) && match d.ancestors.head? with
      | some a => (match g.deme? a with
          | some anc => decide (ETime.fin anc.endTime = d.startTime)
          | none => false)
      | none => false)

/-- `proportions` is omitted iff empty, or there is a single ancestor and it is `[1]` -/
def dropProps (d : Deme) : Bool :=
  d.proportions.isEmpty || (decide (d.ancestors.length = 1) && d.proportions == [1])

/-- the fields of `Deme.simplified g d` -/
def demeSimplifiedObj (g : Graph) (d : Deme) : Obj :=
  [("name", .str d.name)]
    ++ (if d.description.isEmpty then [] else [("description", .str d.description)])
    ++ (if dropStart g d then [] else [("start_time", timeV d.startTime)])
    ++ (if d.ancestors.isEmpty then [] else [("ancestors", strsV d.ancestors)])
    ++ (if dropProps d then [] else [("proportions", numsV d.proportions)])
    ++ [("epochs", .list (d.epochs.map Epoch.simplified))]

theorem demeSimplified_eq (g : Graph) (d : Deme) :
    Deme.simplified g d = .obj (demeSimplifiedObj g d) := rfl

/-- the fields of `AMig.asdict` / `SMig.asdict` -/
def amigObj (m : AMig) : Obj :=
  [("source", .str m.source), ("dest", .str m.dest)]
    ++ optField "start_time" m.start timeV ++ optField "end_time" m.stop numV
    ++ [("rate", numV m.rate)]
def smigObj (m : SMig) : Obj :=
  [("demes", strsV m.demes), ("rate", numV m.rate)]
    ++ optField "start_time" m.start timeV ++ optField "end_time" m.stop numV

theorem amig_asdict_eq (m : AMig) : m.asdict = .obj (amigObj m) := rfl
theorem smig_asdict_eq (m : SMig) : m.asdict = .obj (smigObj m) := rfl

/-- the graph the resolver holds when it reaches deme number `i` of `g`: the first `i` demes
with their index entries, no migrations or pulses yet -/
def prefixGraph (g : Graph) (i : Nat) : Graph :=
  { g with demes := g.demes.take i, index := g.index.take i, migrations := [], pulses := [] }

end Demes.Spec
