/-
  C08 — the stage lemmas of the semantic refinement, anchored at `fromMs` and `msSem`.
-/
import DemesVerif.Proofs.FromMsValid
import DemesVerif.Proofs.FromMsSizeFold
import DemesVerif.Proofs.FromMsMovesRun
namespace Demes.Proofs.FromMs
open Demes Demes.Ms Demes.Spec.MsSem Demes.Spec.C08

/-- a successful `from_ms` went through the event loop (`buildState`) and the finishing steps
(`finishDoc`: growth of the oldest epochs, migrations from the matrices, transient demes, sort) -/
theorem fromMs_buildState {c : List String} {N0 : Q} {mg : MsGraph} (h : fromMs c N0 none = .ok mg) :
    ∃ args s, parseKnownArgs c = .ok args ∧ buildState args N0 = .ok s ∧ finishDoc N0 s = .ok mg.doc := by
  obtain ⟨args, hargs, hb⟩ := fromMs_none_ok h
  obtain ⟨hdoc, _, _⟩ := buildGraph_ok hb
  rw [buildDoc_eq] at hdoc
  obtain ⟨s, hs, hf⟩ := RV.bind_ok.1 hdoc
  exact ⟨args, s, hargs, hs, hf⟩

/-- a successful `msSem` parsed the command, ran the options (`runState`) and read off the
observable (`finishSem`) -/
theorem msSem_runState {c : List String} {N0 : Q} {sem : DemogSem} (h : msSem c N0 = .ok sem) :
    ∃ pr σ, parse c = .ok pr ∧ runState pr N0 = .ok σ ∧ sem = finishSem σ := by
  rw [msSem_eq] at h
  split at h
  · exact (sthrow_bind_ok.1 h).elim
  · dsimp only at h
    obtain ⟨pr, hpr, h⟩ := sbind_ok.1 h
    obtain ⟨σ, hσ, h⟩ := sbind_ok.1 h
    rw [spure_ok] at h
    exact ⟨pr, σ, hpr, hσ, h.symm⟩

/-- **`build_sizes` at `from_ms`.**  If `from_ms` returns a graph, the command has a meaning, and
the two parsers agree on what the command says, then the Builder state `s` at the end of the
event loop of `from_ms` and the final interpreter state `σ` of `msSem` have the same populations
with the same size functions. -/
theorem fromMs_sizes {c : List String} {N0 : Q} {mg : MsGraph} {sem : DemogSem}
    (h : fromMs c N0 none = .ok mg) (hsem : msSem c N0 = .ok sem) (hp : parsersAgree c = true) :
    ∃ args s pr σ, parseKnownArgs c = .ok args ∧ buildState args N0 = .ok s ∧ finishDoc N0 s = .ok mg.doc
      ∧ parse c = .ok pr ∧ runState pr N0 = .ok σ ∧ sem = finishSem σ
      ∧ s.demes.length = σ.pops.length
      ∧ ∀ (j : Nat) (d : BDeme) (p : Pop), s.demes[j]? = some d → σ.pops[j]? = some p →
          (∀ t, demeSizeAt d t = popSizeAt p t) ∧ curGrowth d = p.growth ∧ d.startTime = p.hi
          ∧ s.joined.contains j = !alive p := by
  obtain ⟨args, s, hargs, hs, hf⟩ := fromMs_buildState h
  obtain ⟨pr, σ, hpr, hσ, he⟩ := msSem_runState hsem
  have ha : ArgsAgree args pr := by
    unfold parsersAgree at hp
    rw [hargs, hpr] at hp
    exact argsAgree_of_B hp
  obtain ⟨b1, _, b3⟩ := build_sizes ha hs hσ
  exact ⟨args, s, pr, σ, hargs, hs, hf, hpr, hσ, he, b1, b3⟩

/-- **`build_migrations` at `from_ms`.**  Under the same hypotheses the migration matrices of
the Builder (`mm_list`, `mm_end_times`) at the end of the event loop and the snapshots of the
interpreter describe the same rate function. -/
theorem fromMs_migrations {c : List String} {N0 : Q} {mg : MsGraph} {sem : DemogSem}
    (h : fromMs c N0 none = .ok mg) (hsem : msSem c N0 = .ok sem) (hp : parsersAgree c = true) :
    ∃ args s pr σ, parseKnownArgs c = .ok args ∧ buildState args N0 = .ok s ∧ finishDoc N0 s = .ok mg.doc
      ∧ parse c = .ok pr ∧ runState pr N0 = .ok σ ∧ sem = finishSem σ
      ∧ s.mmList.length = s.mmEndTimes.length ∧ (∀ m ∈ s.mmList, Dim s.numDemes m) ∧ s.numDemes = σ.pops.length
      ∧ ∀ j k t, j ≠ k →
          (mmRateAt s.mmList s.mmEndTimes j k t).map (scaleRate N0) = (snapRateAt σ.snaps j k t).map Num.fin := by
  obtain ⟨args, s, hargs, hs, hf⟩ := fromMs_buildState h
  obtain ⟨pr, σ, hpr, hσ, he⟩ := msSem_runState hsem
  have ha : ArgsAgree args pr := by
    unfold parsersAgree at hp
    rw [hargs, hpr] at hp
    exact argsAgree_of_B hp
  obtain ⟨b1, b2, b3, b4⟩ := build_migrations ha hs hσ
  exact ⟨args, s, pr, σ, hargs, hs, hf, hpr, hσ, he, b1, b2, b3, b4⟩

end Demes.Proofs.FromMs
