/-
  C08, a wider fragment — the boundary of `GoodGroup2` on a small table: every command with three
  initial populations and at most two `-es` / `-ej` options at one time (`-es 1.0 i 0.5`, `i ≤ 4`;
  `-ej 1.0 i j`, `i ≠ j ≤ 5`) is evaluated by the kernel on both sides.  On this table `Tame2` is exact:
  a command that both sides accept is converted correctly if and only if it is in the fragment.
-/
import DemesVerif.Spec.C08
namespace Demes.Proofs.FromMs
open Demes Demes.Ms Demes.Spec Demes.Spec.MsSem Demes.Spec.C08

/-- the `-es` / `-ej` options of the table -/
def tabEvents : List (List String) :=
  ((List.range 4).map (fun i => ["-es", "1.0", toString (i + 1), "0.5"])) ++
  ((List.range 5).flatMap (fun i => (List.range 5).filterMap (fun j =>
    if i ≠ j then some ["-ej", "1.0", toString (i + 1), toString (j + 1)] else none)))

/-- the table: `-I 3 1 1 1` followed by one or two options of `tabEvents` (600 commands) -/
def tabCmds : List (List String) :=
  (tabEvents.map (fun a => ["-I", "3", "1", "1", "1"] ++ a)) ++
  (tabEvents.flatMap (fun a => tabEvents.map (fun b => ["-I", "3", "1", "1", "1"] ++ a ++ b)))

/-- for a command that both `from_ms` and the ms interpreter accept: is it in the fragment `Tame2`, and
are the lineage movements of the graph those of the interpreter -/
def tabClass (c : List String) : Option (Bool × Bool) :=
  match fromMs c 1 none, msSem c 1, parse c with
  | .ok mg, .ok sem, .ok pr => some (Tame2 pr, decide (movesOf (resultSem mg) = some sem.moves))
  | _, _, _ => none

/-- (inside & correct, inside & wrong, outside & correct, outside & wrong) -/
def tabCounts : Nat × Nat × Nat × Nat :=
  let cls := tabCmds.filterMap tabClass
  (cls.count (true, true), cls.count (true, false), cls.count (false, true), cls.count (false, false))

theorem tab_counts : tabCounts = (78, 0, 0, 3) := by decide +kernel

/-- on the table, `Tame2` is exact -/
theorem tab_exact : ∀ c ∈ tabCmds, ∀ inside correct, tabClass c = some (inside, correct) → inside = correct := by
  intro c hc inside correct h
  have hmem : (inside, correct) ∈ tabCmds.filterMap tabClass := List.mem_filterMap.mpr ⟨c, hc, h⟩
  have hcnt := tab_counts
  unfold tabCounts at hcnt
  simp only [Prod.mk.injEq] at hcnt
  obtain ⟨_, h2, h3, _⟩ := hcnt
  cases inside <;> cases correct
  · rfl
  · exact absurd hmem (List.count_eq_zero.mp h3)
  · exact absurd hmem (List.count_eq_zero.mp h2)
  · rfl

end Demes.Proofs.FromMs
