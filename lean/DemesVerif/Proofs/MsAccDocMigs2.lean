/-
  C09, acceptance — the migrations `finishDoc` emits from the matrix history (2): the shape of an
  emitted migration (`DocMigsWF.shape`) and the disjointness of the migrations of one ordered pair
  (`DocMigsWF.disjoint`).
-/
import DemesVerif.Proofs.MsAccDocMigs1
import Mathlib.Tactic.Linarith
import Mathlib.Algebra.Order.Field.Basic
namespace Demes.Proofs.MsAcc
open Demes Demes.Ms Demes.Spec Demes.Spec.MsSem Demes.Spec.C08 Demes.Proofs.FromMs

/-! ## sums of non-negative numbers -/

theorem qsumS_nonneg_dm : ∀ l : List Q, (∀ x ∈ l, 0 ≤ x) → 0 ≤ qsumS l
  | [], _ => Rat.le_refl
  | x :: xs, h => by
    have h1 := h x (List.mem_cons_self ..)
    have h2 := qsumS_nonneg_dm xs (fun y hy => h y (List.mem_cons_of_mem _ hy))
    rw [qsumS_cons]
    linarith

theorem le_qsumS_of_mem_dm : ∀ (l : List Q), (∀ x ∈ l, 0 ≤ x) → ∀ q ∈ l, q ≤ qsumS l
  | [], _, q, hq => by cases hq
  | x :: xs, h, q, hq => by
    have h1 := h x (List.mem_cons_self ..)
    have hxs : ∀ y ∈ xs, 0 ≤ y := fun y hy => h y (List.mem_cons_of_mem _ hy)
    have h2 := qsumS_nonneg_dm xs hxs
    rw [qsumS_cons]
    rcases List.mem_cons.mp hq with hq | hq
    · subst hq; linarith
    · have := le_qsumS_of_mem_dm xs hxs q hq
      linarith

/-! ## the entries of the row into deme `j` -/

/-- the entry of `ingressRow` for the source `k` -/
def rowEntry (s : BState) (j k : Nat) (t : Q) : Q :=
  rateQ ((mmRateAt s.mmList s.mmEndTimes j k t).getD (.fin 0))

theorem ingressRow_eq (s : BState) (j : Nat) (t : Q) :
    ingressRow s j t = ((List.range s.numDemes).filter (fun k => k != j)).map (fun k => rowEntry s j k t) := rfl

theorem rowEntry_nonneg {N0 : Q} {s : BState} (hw : MigWF N0 s) {j k : Nat} (hjk : j ≠ k) (t : Q) :
    0 ≤ rowEntry s j k t := by
  unfold rowEntry
  cases h : mmRateAt s.mmList s.mmEndTimes j k t with
  | none => exact Rat.le_refl
  | some r =>
    obtain ⟨q, rfl, hq⟩ := hw.fin j k t r hjk h
    exact hq

theorem ingressRow_nonneg {N0 : Q} {s : BState} (hw : MigWF N0 s) (j : Nat) (t : Q) :
    ∀ x ∈ ingressRow s j t, 0 ≤ x := by
  intro x hx
  rw [ingressRow_eq] at hx
  obtain ⟨k, hk, rfl⟩ := List.mem_map.mp hx
  have hkj : k ≠ j := by simpa using (List.mem_filter.mp hk).2
  exact rowEntry_nonneg hw (fun h => hkj h.symm) t

/-! ## what is known of a migration that is active at `t` -/

/-- the matrix entry of an emitted migration, active at `t`: finite, positive, at most `4·N0`, and both
demes exist at `t` -/
theorem active_facts {N0 : Q} {s : BState} (hw : MigWF N0 s) {migs : List BMigration}
    (hs : SweepSem (namesOf s.numDemes) s.mmList s.mmEndTimes migs) {j k : Nat} (hj : j < s.numDemes)
    (hk : k < s.numDemes) (hjk : j ≠ k) {m : BMigration} (hm : m ∈ migs)
    (hp : pairIs (namesOf s.numDemes) j k m = true) {t : Q} (hc : covers t m = true) :
    ∃ q dj dk, m.rate = .fin q ∧ 0 < q ∧ q ≤ 4 * N0 ∧ s.demes[j]? = some dj ∧ s.demes[k]? = some dk
      ∧ bEndTime dj ≤ t ∧ bEndTime dk ≤ t ∧ ETime.fin t < dj.startTime ∧ ETime.fin t < dk.startTime := by
  obtain ⟨he, hnz⟩ := hs.entry (by rw [namesOf_length]; exact hj) (by rw [namesOf_length]; exact hk) hjk hm hp hc
  obtain ⟨q, hq, hq0⟩ := hw.fin j k t _ hjk he
  rw [hq] at he hnz
  have hqne : q ≠ 0 := numEq_fin_zero.mp hnz
  obtain ⟨dj, dk, h1, h2, h3, h4, h5, h6⟩ := hw.alive j k t q hjk he hqne
  have hle := hw.le j k t q hjk he
  refine ⟨q, dj, dk, hq, ?_, hle, h1, h2, h3, h4, h5, h6⟩
  exact lt_of_le_of_ne hq0 (Ne.symm hqne)

/-- the start of a migration is not after the start of a deme that exists whenever the migration is
active -/
theorem start_le_of_active {m : BMigration} (hlt : ETime.fin m.endTime < m.startTime) {S : ETime}
    (h : ∀ t, covers t m = true → ETime.fin t < S) : m.startTime ≤ S := by
  cases S with
  | inf => exact (et_le_inf _).mpr trivial
  | fin S =>
    apply et_not_lt.mp
    intro hS
    have hc : covers (max S m.endTime) m = true := by
      apply covers_iff.mpr
      refine ⟨le_max_right _ _, ?_⟩
      rcases max_cases S m.endTime with ⟨h1, _⟩ | ⟨h1, _⟩
      · rw [h1]; exact hS
      · rw [h1]; exact hlt
    have := h _ hc
    have h2 : max S m.endTime < S := this
    have h3 := le_max_left S m.endTime
    linarith

/-! ## `shape` -/

theorem pairIs_namesOf {n j k : Nat} (hj : j < n) (hk : k < n) {m : BMigration} :
    pairIs (namesOf n) j k m = true ↔ m.dest = Ms.demeName j ∧ m.source = Ms.demeName k := by
  unfold pairIs
  rw [namesOf_getD hj, namesOf_getD hk]
  simp

theorem div_four_le_one {N0 q : Q} (hN : 0 < N0) (hq : q ≤ 4 * N0) : q / (4 * N0) ≤ 1 := by
  have h4 : (0 : Q) < 4 * N0 := by linarith
  exact (div_le_one h4).mpr hq

theorem docMigs_shape {N0 : Q} (hN : 0 < N0) {s : BState} (hw : MigWF N0 s) {migs : List BMigration}
    (hs : SweepSem (namesOf s.numDemes) s.mmList s.mmEndTimes migs) :
    ∀ m ∈ migs.map (scaleMig N0), ∃ j k q dj dk, m.source = Ms.demeName k ∧ m.dest = Ms.demeName j ∧ j ≠ k
      ∧ m.rate = .fin q ∧ 0 ≤ q ∧ q ≤ 1 ∧ s.demes[j]? = some dj ∧ s.demes[k]? = some dk
      ∧ ETime.fin m.endTime < m.startTime ∧ bEndTime dj ≤ m.endTime ∧ bEndTime dk ≤ m.endTime
      ∧ m.startTime ≤ dj.startTime ∧ m.startTime ≤ dk.startTime := by
  intro m' hm'
  obtain ⟨m, hm, rfl⟩ := List.mem_map.mp hm'
  obtain ⟨j, k, hj, hk, hjk, hp, hlt⟩ := hs.wf m hm
  rw [namesOf_length] at hj hk
  obtain ⟨hdst, hsrc⟩ := (pairIs_namesOf hj hk).mp hp
  obtain ⟨q, dj, dk, hq, hq0, hq4, hdj, hdk, hbj, hbk, -, -⟩ := active_facts hw hs hj hk hjk hm hp (covers_end hlt)
  have h4 : (0 : Q) < 4 * N0 := by linarith
  refine ⟨j, k, q / (4 * N0), dj, dk, hsrc, hdst, hjk, ?_, ?_, div_four_le_one hN hq4, hdj, hdk, hlt, hbj, hbk, ?_, ?_⟩
  · show numDivQ m.rate (4 * N0) = _
    rw [hq]
    rfl
  · exact div_nonneg (le_of_lt hq0) (le_of_lt h4)
  · apply start_le_of_active (m := m) hlt
    intro t hc
    obtain ⟨_, dj', _, _, _, _, hdj', _, _, _, h5, _⟩ := active_facts hw hs hj hk hjk hm hp hc
    rw [hdj] at hdj'
    injection hdj' with hdj'
    rw [hdj']
    exact h5
  · apply start_le_of_active (m := m) hlt
    intro t hc
    obtain ⟨_, _, dk', _, _, _, _, hdk', _, _, _, h6⟩ := active_facts hw hs hj hk hjk hm hp hc
    rw [hdk] at hdk'
    injection hdk' with hdk'
    rw [hdk']
    exact h6

/-! ## `disjoint` -/

theorem docMigs_disjoint {names : List String} {ml : List MM} {ts : List Q} {migs : List BMigration}
    (hs : SweepSem names ml ts migs) (N0 : Q) :
    (migs.map (scaleMig N0)).Pairwise (fun a b => a.source = b.source → a.dest = b.dest →
      ¬ (ETime.fin b.endTime < a.startTime ∧ ETime.fin a.endTime < b.startTime)) := by
  rw [List.pairwise_map, List.pairwise_iff_forall_sublist]
  intro a b hab hsrc hdst hov
  have hsrc' : a.source = b.source := hsrc
  have hdst' : a.dest = b.dest := hdst
  have hov' : ETime.fin b.endTime < a.startTime ∧ ETime.fin a.endTime < b.startTime := hov
  have ha : a ∈ migs := hab.subset (by simp)
  have hb : b ∈ migs := hab.subset (by simp)
  obtain ⟨j, k, hj, hk, hjk, hpa, hlta⟩ := hs.wf a ha
  obtain ⟨_, _, _, _, _, _, hltb⟩ := hs.wf b hb
  have hpb : pairIs names j k b = true := by
    unfold pairIs at hpa ⊢
    rw [← hsrc', ← hdst']
    exact hpa
  have hca : covers (max a.endTime b.endTime) a = true := by
    apply covers_iff.mpr
    refine ⟨le_max_left _ _, ?_⟩
    rcases max_cases a.endTime b.endTime with ⟨h1, _⟩ | ⟨h1, _⟩
    · rw [h1]; exact hlta
    · rw [h1]; exact hov'.1
  have hcb : covers (max a.endTime b.endTime) b = true := by
    apply covers_iff.mpr
    refine ⟨le_max_right _ _, ?_⟩
    rcases max_cases a.endTime b.endTime with ⟨h1, _⟩ | ⟨h1, _⟩
    · rw [h1]; exact hov'.2
    · rw [h1]; exact hltb
  have hsub : List.Sublist [a, b] ((migs.filter (pairIs names j k)).filter (covers (max a.endTime b.endTime))) := by
    have h1 := (hab.filter (pairIs names j k)).filter (covers (max a.endTime b.endTime))
    simpa [List.filter_cons, hpa, hpb, hca, hcb] using h1
  have hlen := hsub.length_le
  have hact := hs.act j k hj hk hjk (max a.endTime b.endTime)
  have h2 := expectedRates_length_le (mmRateAt ml ts j k (max a.endTime b.endTime))
  rw [← hact] at h2
  unfold activeRates at h2
  rw [List.length_map] at h2
  simp only [List.length_cons, List.length_nil] at hlen
  omega

end Demes.Proofs.MsAcc
