/-
  C09, first sentence — graph → ms → graph by composing C07 (`toMs_sem`) and C08 (`fromMs_sem` on
  plain command lines) through the bridge between the two ms interpreters (`msSem_render`).
-/
import DemesVerif.Proofs.MsRTBridge
import DemesVerif.Proofs.MsRTSizes
import DemesVerif.Proofs.MsRTMigs
import DemesVerif.Proofs.MsRTTransfer
import DemesVerif.Proofs.MsRTTame2
import DemesVerif.Proofs.FromMsApplyFinal
import DemesVerif.Proofs.FromMsPostTotal
import DemesVerif.Proofs.FromMsParseAgree
import DemesVerif.Proofs.FromMsSem
import DemesVerif.Proofs.FromMsValid
namespace Demes.Proofs.MsRT
open Demes Demes.Ms Demes.Spec Demes.Spec.C07 Demes.Spec.C09
open Demes.Spec.MsSem (DemogSem PopSem msSem graphSem graphSemWith msGraphSem parse)
open Demes.Spec.C08 (semEquiv popEquiv SemAgree resultSem Tame' PlainTokens)
open Demes.Proofs.ToMs (Clauses clauses_of_valid headerOf finalEvs cmdOf headerToks toMs_ok_eq parseCmd_cmdOf
  sorted_byQ_finalEvs byQ expr_inGen samplesOk_inGen gSem gSem_pops gPopOf pidOf graphSem_ok)

/-! ### the command `to_ms` prints, in the vocabulary of the bridge -/


theorem cmdOf_eq_toksOf (g : Graph) (N0 : Q) (samples : Option (List Int)) :
    cmdOf g N0 samples = toksOf (headerOf g samples) (finalEvs g N0) := by
  unfold cmdOf toksOf headerOf headerToks hdrToks
  by_cases hn : g.demes.length > 1
  · simp only [hn, if_true, List.map_map]
    rfl
  · simp only [hn, if_false]

theorem hdrOK_headerOf (g : Graph) (samples : Option (List Int)) (hs : samplesOk g samples = true) :
    HdrOK (headerOf g samples) := by
  unfold headerOf
  by_cases hn : g.demes.length > 1
  · simp only [hn, if_true, HdrOK]
    refine ⟨by omega, ?_, ?_⟩
    · cases samples with
      | none => simp
      | some s => simpa [samplesOk] using hs
    · intro s hs'
      obtain ⟨i, _, rfl⟩ := List.mem_map.1 hs'
      exact Demes.Proofs.MsPrint.classify_toString_int i
  · simp only [hn, if_false, HdrOK]

theorem sorted_finalEvs' {g : Graph} (c : Clauses g) (hx : MsExpressible g = true) {N0 : Q} (hN : 0 < N0) :
    (finalEvs g N0).Pairwise (fun a b => evT a ≤ evT b) :=
  (sorted_byQ_finalEvs c hx hN).imp (fun h => by simpa [byQ] using h)

/-! ### C07's relation, transported along the embedding -/

theorem zip_mem_index {α β} {l : List α} {m : List β} {ab : α × β} (h : ab ∈ l.zip m) :
    ∃ k : Nat, l[k]? = some ab.1 ∧ m[k]? = some ab.2 := by
  obtain ⟨k, hk⟩ := (List.mem_iff_getElem? (l := l.zip m)).1 h
  rw [List.getElem?_zip_eq_some] at hk
  exact ⟨k, hk.1, hk.2⟩

theorem zip_of_index {α β} {l : List α} {m : List β} {a : α} {b : β} {k : Nat} (h1 : l[k]? = some a) (h2 : m[k]? = some b) :
    (a, b) ∈ l.zip m := by
  apply (List.mem_iff_getElem? (l := l.zip m)).2
  exact ⟨k, by rw [List.getElem?_zip_eq_some]; exact ⟨h1, h2⟩⟩

/-- `semMatches` (C07: typed observable against the graph) gives `SemRefines` of the embedded
observable, for a well-formed growth-free typed observable and a tiling graph observable -/
theorem semRefines_embed {N0 : Q} (semG : DemogSemG) (gs : DemogSem)
    (hm : semMatches N0 semG gs = true)
    (hwf : ∀ p ∈ semG.pops, UpdWF p)
    (hchron : semG.snaps.Pairwise (fun a b => a.1 ≤ b.1))
    (hdim : ∀ tm ∈ semG.snaps, tm.2.length ≤ (semG.snaps.getLast?.map (·.2.length)).getD 0
              ∧ ∀ row ∈ tm.2, row.length ≤ (semG.snaps.getLast?.map (·.2.length)).getD 0)
    (htiles : ∀ p ∈ gs.pops, Tiles p.lo p.segs p.hi ∧ ∀ s ∈ p.segs, s.growth = none)
    (hids : ∀ p ∈ gs.pops, 1 ≤ p.id) :
    SemRefines (embedSem semG) gs := by
  simp only [semMatches, Bool.and_eq_true] at hm
  obtain ⟨⟨hp, hmig⟩, hmov⟩ := hm
  simp only [popsMatch, Bool.and_eq_true, beq_iff_eq, List.all_eq_true, decide_eq_true_eq] at hp
  obtain ⟨hid, hall⟩ := hp
  have hzip : ∀ ab ∈ (embedSem semG).pops.zip gs.pops, ∃ p, (p, ab.2) ∈ semG.pops.zip gs.pops ∧ ab.1 = embedPop p := by
    intro ab hab
    obtain ⟨k, h1, h2⟩ := zip_mem_index hab
    simp only [embedSem, List.getElem?_map] at h1
    cases hk : semG.pops[k]? with
    | none => rw [hk] at h1; cases h1
    | some p =>
      rw [hk] at h1
      simp only [Option.map_some, Option.some.injEq] at h1
      exact ⟨p, zip_of_index hk h2, h1.symm⟩
  refine ⟨?_, ?_, ?_, ?_, ?_⟩
  · simp only [embedSem, List.map_map]
    rw [← hid]
    rfl
  · intro ab hab
    obtain ⟨p, hpz, he⟩ := hzip ab hab
    obtain ⟨⟨h1, h2⟩, _⟩ := hall (p, ab.2) hpz
    rw [he]
    exact ⟨h1, h2⟩
  · intro ab hab t ht1 ht2
    obtain ⟨p, hpz, he⟩ := hzip ab hab
    obtain ⟨⟨h1, h2⟩, h3⟩ := hall (p, ab.2) hpz
    rw [he]
    have hpm : p ∈ semG.pops := (List.of_mem_zip hpz).1
    have hbm : ab.2 ∈ gs.pops := (List.of_mem_zip hpz).2
    exact sizes_embed p ab.2 (hwf p hpm) h3 h2 h1 (htiles ab.2 hbm).1 (htiles ab.2 hbm).2 t ht1 ht2
  · exact migsRefine_embed semG gs hchron hdim hids hmig
  · simp only [movesMatch, beq_iff_eq] at hmov
    exact hmov

/-! ### C08's relation: `semEquiv` transports `SemRefines` -/

theorem migsRefine_congr {A B gs : DemogSem} (h : A.migs = B.migs) : migsRefine A gs = migsRefine B gs := by
  unfold migsRefine migCutsD migRefinesAt
  rw [h]

/-- if `A` and `B` are equivalent observables (C08's `semEquiv`) whose populations tile their
lifetimes, whatever `A` refines `B` refines -/
theorem semRefines_of_equiv {A B gs : DemogSem} (he : semEquiv A B = true) (hr : SemRefines A gs)
    (hA : ∀ p ∈ A.pops, Tiles p.lo p.segs p.hi) (hB : ∀ p ∈ B.pops, Tiles p.lo p.segs p.hi) :
    SemRefines B gs := by
  simp only [semEquiv, Bool.and_eq_true, decide_eq_true_eq, List.all_eq_true] at he
  obtain ⟨⟨⟨hlen, hpe⟩, hmigs⟩, hmoves⟩ := he
  -- position by position
  have hget : ∀ (k : Nat) (b : PopSem), B.pops[k]? = some b → ∃ a, A.pops[k]? = some a ∧ popEquiv a b = true := by
    intro k b hb
    have hk : k < A.pops.length := by rw [hlen]; exact (List.getElem?_eq_some_iff.1 hb).1
    exact ⟨A.pops[k], List.getElem?_eq_getElem hk, hpe _ (zip_of_index (List.getElem?_eq_getElem hk) hb)⟩
  have hpeq : ∀ {a b : PopSem}, popEquiv a b = true → a.id = b.id ∧ a.lo = b.lo ∧ a.hi = b.hi := by
    intro a b h
    simp only [popEquiv, Bool.and_eq_true, decide_eq_true_eq] at h
    exact ⟨h.1.1.1, h.1.1.2, h.1.2⟩
  have hzip : ∀ bg ∈ B.pops.zip gs.pops, ∃ a, (a, bg.2) ∈ A.pops.zip gs.pops ∧ (a, bg.1) ∈ A.pops.zip B.pops
      ∧ popEquiv a bg.1 = true := by
    intro bg hbg
    obtain ⟨k, h1, h2⟩ := zip_mem_index hbg
    obtain ⟨a, ha, hpq⟩ := hget k bg.1 h1
    exact ⟨a, zip_of_index ha h2, zip_of_index ha h1, hpq⟩
  refine ⟨?_, ?_, ?_, ?_, ?_⟩
  · rw [← hr.ids]
    apply List.ext_getElem?
    intro k
    rw [List.getElem?_map, List.getElem?_map]
    cases hb : B.pops[k]? with
    | none =>
      have : A.pops[k]? = none := by
        rw [List.getElem?_eq_none_iff] at hb ⊢; omega
      rw [this]
    | some b =>
      obtain ⟨a, ha, hpq⟩ := hget k b hb
      rw [ha]
      simp only [Option.map_some, Option.some.injEq]
      exact (hpeq hpq).1.symm
  · intro bg hbg
    obtain ⟨a, hag, _, hpq⟩ := hzip bg hbg
    obtain ⟨h1, h2⟩ := hr.lives _ hag
    obtain ⟨_, e2, e3⟩ := hpeq hpq
    exact ⟨by rw [← e3]; exact h1, by rw [← e2]; exact h2⟩
  · intro bg hbg t ht1 ht2
    obtain ⟨a, hag, hab, hpq⟩ := hzip bg hbg
    obtain ⟨h1, h2⟩ := hr.lives _ hag
    obtain ⟨_, e2, e3⟩ := hpeq hpq
    obtain ⟨s1, s2⟩ := hr.sizes _ hag t ht1 ht2
    refine ⟨s1, ?_⟩
    rw [← s2]
    have hlo : bg.1.lo ≤ t := by
      have : a.lo ≤ bg.2.lo := h2
      rw [← e2]; grind
    have hhi : ETime.fin t < bg.1.hi := by
      rw [← e3]
      show ETime.fin t < a.hi
      rw [show a.hi = bg.2.hi from h1]; exact ht2
    exact (Tr.sizeAt_of_popEquiv a bg.1 hpq (hA a (List.of_mem_zip hab).1) (hB bg.1 (List.of_mem_zip hab).2) t hlo hhi).symm
  · rw [← migsRefine_congr hmigs]; exact hr.migs
  · rw [← hmoves]; exact hr.moves

/-! ### C08 on plain command lines (the statement of `Theorems.C08.fromMs_sem_plain`) -/

theorem fromMs_sem_plain {c : List String} {N0 : Q} {mg : MsGraph} {sem : DemogSem} {pr : Demes.Spec.MsSem.Parsed}
    (h : fromMs c N0 none = .ok mg) (hsem : msSem c N0 = .ok sem) (hpl : PlainTokens c = true)
    (hpr : parse c = .ok pr) (ht : Tame' pr = true) :
    SemAgree (msSem c N0) (resultSem mg) = true := by
  obtain ⟨args, _, hargs, _, _⟩ := Demes.Proofs.FromMs.fromMs_buildState h
  have hp := Demes.Proofs.FromMsParse.parsersAgree_of_plain hpl hargs hpr
  exact Demes.Proofs.FromMs.fromMs_sem_partial h hsem hp hpr ht
    (Demes.Proofs.FromMs.fromMs_sizes_migs_sem_total h hsem hp)

/-! ### stage 1: the bridge at `to_ms` -/

/-- what the pieces give for the command `to_ms` prints for a valid ms-expressible graph of
constant sizes -/
theorem toMs_bridge (c : NumCodec) (sa : Growth → String) {g : Graph} (hv : validGraph g = true)
    (hx : MsExpressible g = true) (hcs : ConstSizes g = true) {N0 : Q} (hN : 0 < N0)
    {samples : Option (List Int)} (hs : samplesOk g samples = true) {toks : List (Tok Growth)}
    (htoks : toMs g N0 samples = .ok toks) (hc : CodecCovers c toks) :
    toks = toksOf (headerOf (inGenerations g) samples) (finalEvs (inGenerations g) N0)
    ∧ parseCmd toks = some ⟨headerOf (inGenerations g) samples, finalEvs (inGenerations g) N0⟩
    ∧ PlainTokens (renderG c sa toks) = true
    ∧ parse (renderG c sa toks) = .ok (prOf (headerOf (inGenerations g) samples) (finalEvs (inGenerations g) N0))
    ∧ ∀ semG, msSemG ⟨headerOf (inGenerations g) samples, finalEvs (inGenerations g) N0⟩ N0 = .ok semG →
        msSem (renderG c sa toks) N0 = .ok (embedSem semG) ∧ GrowthFree semG = true
        ∧ (∀ p ∈ semG.pops, UpdWF p) ∧ semG.snaps.Pairwise (fun a b => a.1 ≤ b.1)
        ∧ (∀ tm ∈ semG.snaps, tm.2.length ≤ (semG.snaps.getLast?.map (·.2.length)).getD 0
              ∧ ∀ row ∈ tm.2, row.length ≤ (semG.snaps.getLast?.map (·.2.length)).getD 0) := by
  have cl := clauses_of_valid (InGen.inGenerations_valid g hv)
  have hx' : MsExpressible (inGenerations g) = true := by rw [expr_inGen]; exact hx
  have hs' : samplesOk (inGenerations g) samples = true := by rw [samplesOk_inGen]; exact hs
  have hcs' : ConstSizes (inGenerations g) = true := by rw [constSizes_inGen]; exact hcs
  have heq : toks = cmdOf (inGenerations g) N0 samples := by
    rw [toMs_ok_eq hv hx hN hs] at htoks; cases htoks; rfl
  have heq2 : toks = toksOf (headerOf (inGenerations g) samples) (finalEvs (inGenerations g) N0) := by
    rw [heq, cmdOf_eq_toksOf]
  have hh := hdrOK_headerOf (inGenerations g) samples hs'
  have he := evRT_finalEvs cl hx' hcs' hN
  have hsort := sorted_finalEvs' cl hx' hN
  have hc' : CodecCovers c (toksOf (headerOf (inGenerations g) samples) (finalEvs (inGenerations g) N0)) := by
    rw [← heq2]; exact hc
  refine ⟨heq2, ?_, ?_, ?_, ?_⟩
  · rw [heq]; exact parseCmd_cmdOf cl hx' hN hs'
  · rw [heq2]; exact plain_render c sa _ _ hh he hc'
  · rw [heq2]; exact parse_render c sa _ _ hh he hc'
  · intro semG hsem
    obtain ⟨h1, h2, h3, h4⟩ := msSem_render c sa _ _ N0 semG hh he hsort hc' hsem
    refine ⟨by rw [heq2]; exact h1, ?_, h2, h3, h4⟩
    simp only [GrowthFree, List.all_eq_true, Bool.or_eq_true, decide_eq_true_eq]
    intro p hp u hu
    exact (h2 p hp).growth u hu

/-- Statement of `Theorems.toMs_msSem_bridge`. -/
theorem toMs_msSem_bridge (c : NumCodec) (sa : Growth → String) {g : Graph} (hv : validGraph g = true)
    (hx : MsExpressible g = true) (hcs : ConstSizes g = true) {N0 : Q} (hN : 0 < N0)
    {samples : Option (List Int)} (hs : samplesOk g samples = true) {toks : List (Tok Growth)}
    (htoks : toMs g N0 samples = .ok toks) (hc : CodecCovers c toks) :
    ∃ cmd semG, parseCmd toks = some cmd ∧ msSemG cmd N0 = .ok semG ∧ GrowthFree semG = true
      ∧ PlainTokens (renderG c sa toks) = true
      ∧ msSem (renderG c sa toks) N0 = .ok (embedSem semG) := by
  obtain ⟨_, b2, b3, _, b5⟩ := toMs_bridge c sa hv hx hcs hN hs htoks hc
  obtain ⟨toks', cmd, semG, gs, h1, h2, h3, _⟩ := Demes.Proofs.ToMs.toMs_sem_run hv hx hN hs
  have : toks' = toks := by rw [htoks] at h1; cases h1; rfl
  subst this
  have hcmd : cmd = ⟨headerOf (inGenerations g) samples, finalEvs (inGenerations g) N0⟩ := by
    rw [b2] at h2; cases h2; rfl
  subst hcmd
  obtain ⟨c1, c2, _⟩ := b5 semG h3
  exact ⟨_, semG, b2, h3, c2, b3, c1⟩

/-! ### stage 2: the composition -/

theorem gSem_ids {g : Graph} (c : Clauses g) : ∀ p ∈ (gSem g).pops, 1 ≤ p.id := by
  intro p hp
  rw [gSem_pops c] at hp
  obtain ⟨d, _, rfl⟩ := List.mem_map.1 hp
  simp [gPopOf, pidOf]

/-- **graph → ms → graph** on valid ms-expressible graphs of constant sizes with exact ancestry
proportions, when `from_ms` accepts the printed command and C08 applies to it (`hag`: for the plain command
line, the graph `from_ms` returns and the ms interpreter agree — proved in C08 on the fragments `Tame'`, `Tame3`). -/
theorem ms_roundtrip_sem_of_agree (c : NumCodec) (sa : Growth → String) {g : Graph} (hv : validGraph g = true)
    (hx : MsExpressible g = true) (hex : ExactProportions g = true) (hcs : ConstSizes g = true)
    {N0 : Q} (hN : 0 < N0) {samples : Option (List Int)} (hs : samplesOk g samples = true)
    {toks : List (Tok Growth)} (htoks : toMs g N0 samples = .ok toks) (hc : CodecCovers c toks)
    {mg : MsGraph} (hfrom : fromMs (renderG c sa toks) N0 none = .ok mg)
    (hag : ∀ sem, msSem (renderG c sa toks) N0 = .ok sem → PlainTokens (renderG c sa toks) = true →
      SemAgree (msSem (renderG c sa toks) N0) (resultSem mg) = true) :
    ∃ sem rs gs, msSem (renderG c sa toks) N0 = .ok sem ∧ resultSem mg = .ok rs
      ∧ graphSem (inGenerations g) none = .ok gs
      ∧ semEquiv sem rs = true ∧ SemRefines sem gs ∧ SemRefines rs gs := by
  -- C07
  obtain ⟨toks', cmd, semG, gs, h1, h2, h3, h4, h5⟩ := Demes.Proofs.ToMs.toMs_sem hv hx hex hN hs
  have : toks' = toks := by rw [htoks] at h1; cases h1; rfl
  subst this
  obtain ⟨b1, b2, b3, b4, b5⟩ := toMs_bridge c sa hv hx hcs hN hs htoks hc
  have hcmd : cmd = ⟨headerOf (inGenerations g) samples, finalEvs (inGenerations g) N0⟩ := by
    rw [b2] at h2; cases h2; rfl
  subst hcmd
  obtain ⟨hsem, _, hwf, hchron, hdim⟩ := b5 semG h3
  -- the graph's observable
  have cl := clauses_of_valid (InGen.inGenerations_valid g hv)
  have hx' : MsExpressible (inGenerations g) = true := by rw [expr_inGen]; exact hx
  have hgs : gs = gSem (inGenerations g) := by
    rw [graphSem_ok cl hx'] at h4; cases h4; rfl
  have htiles := Tr.graphSem_tiles (InGen.inGenerations_valid g hv) (show graphSemWith Sz.ofQ (inGenerations g) none = .ok gs from h4)
  have hrefA : SemRefines (embedSem semG) gs :=
    semRefines_embed semG gs h5 hwf hchron hdim htiles (by rw [hgs]; exact gSem_ids cl)
  -- C08
  have hagree := hag _ hsem b3
  rw [hsem] at hagree
  cases hrs : resultSem mg with
  | error e => rw [hrs] at hagree; simp [SemAgree] at hagree
  | ok rs =>
    rw [hrs] at hagree
    have heq : semEquiv (embedSem semG) rs = true := hagree
    have hA : ∀ p ∈ (embedSem semG).pops, Tiles p.lo p.segs p.hi := by
      intro p hp
      simp only [embedSem] at hp
      obtain ⟨q, hq, rfl⟩ := List.mem_map.1 hp
      exact (embedPop_tiles (hwf q hq)).1
    have hB : ∀ p ∈ rs.pops, Tiles p.lo p.segs p.hi := fun p hp =>
      (Tr.graphSem_tiles (Demes.Proofs.FromMs.fromMs_valid hfrom)
        (show graphSemWith mg.size mg.graph _ = .ok rs from hrs) p hp).1
    exact ⟨embedSem semG, rs, gs, hsem, rfl, h4, heq, hrefA, semRefines_of_equiv heq hrefA hA hB⟩

/-- **graph → ms → graph** on valid ms-expressible graphs of constant sizes with exact ancestry
proportions, when `from_ms` accepts the printed command and the command lies in `Tame'`. -/
theorem ms_roundtrip_sem_partial (c : NumCodec) (sa : Growth → String) {g : Graph} (hv : validGraph g = true)
    (hx : MsExpressible g = true) (hex : ExactProportions g = true) (hcs : ConstSizes g = true)
    {N0 : Q} (hN : 0 < N0) {samples : Option (List Int)} (hs : samplesOk g samples = true)
    {toks : List (Tok Growth)} (htoks : toMs g N0 samples = .ok toks) (hc : CodecCovers c toks)
    {mg : MsGraph} (hfrom : fromMs (renderG c sa toks) N0 none = .ok mg)
    {pr : Demes.Spec.MsSem.Parsed} (hpr : parse (renderG c sa toks) = .ok pr) (ht : Tame' pr = true) :
    ∃ sem rs gs, msSem (renderG c sa toks) N0 = .ok sem ∧ resultSem mg = .ok rs
      ∧ graphSem (inGenerations g) none = .ok gs
      ∧ semEquiv sem rs = true ∧ SemRefines sem gs ∧ SemRefines rs gs :=
  ms_roundtrip_sem_of_agree c sa hv hx hex hcs hN hs htoks hc hfrom
    (fun _ hsem hpl => fromMs_sem_plain hfrom hsem hpl hpr ht)

/-! ### stage 3: `Tame'` from a condition on the graph -/

/-- the command `to_ms` prints for a valid ms-expressible graph of constant sizes with tame pulses
is read by the string parser as a command in `Tame'` -/
theorem toMs_tame (c : NumCodec) (sa : Growth → String) {g : Graph} (hv : validGraph g = true)
    (hx : MsExpressible g = true) (hcs : ConstSizes g = true) (hpt : PulsesTame g = true) {N0 : Q} (hN : 0 < N0)
    {samples : Option (List Int)} (hs : samplesOk g samples = true) {toks : List (Tok Growth)}
    (htoks : toMs g N0 samples = .ok toks) (hc : CodecCovers c toks) :
    ∃ pr, parse (renderG c sa toks) = .ok pr ∧ Tame' pr = true := by
  obtain ⟨_, _, _, b4, _⟩ := toMs_bridge c sa hv hx hcs hN hs htoks hc
  exact ⟨_, b4, tame_toMs hv hx hcs hpt hN samples⟩

/-- **graph → ms → graph**, with `Tame'` replaced by the graph condition `PulsesTame` -/
theorem ms_roundtrip_sem_tame (c : NumCodec) (sa : Growth → String) {g : Graph} (hv : validGraph g = true)
    (hx : MsExpressible g = true) (hex : ExactProportions g = true) (hcs : ConstSizes g = true)
    (hpt : PulsesTame g = true)
    {N0 : Q} (hN : 0 < N0) {samples : Option (List Int)} (hs : samplesOk g samples = true)
    {toks : List (Tok Growth)} (htoks : toMs g N0 samples = .ok toks) (hc : CodecCovers c toks)
    {mg : MsGraph} (hfrom : fromMs (renderG c sa toks) N0 none = .ok mg) :
    ∃ sem rs gs, msSem (renderG c sa toks) N0 = .ok sem ∧ resultSem mg = .ok rs
      ∧ graphSem (inGenerations g) none = .ok gs
      ∧ semEquiv sem rs = true ∧ SemRefines sem gs ∧ SemRefines rs gs := by
  obtain ⟨pr, hpr, ht⟩ := toMs_tame c sa hv hx hcs hpt hN hs htoks hc
  exact ms_roundtrip_sem_partial c sa hv hx hex hcs hN hs htoks hc hfrom hpr ht

#print axioms ms_roundtrip_sem_partial
#print axioms ms_roundtrip_sem_tame
#print axioms toMs_tame
#print axioms toMs_bridge
#print axioms toMs_msSem_bridge

end Demes.Proofs.MsRT
