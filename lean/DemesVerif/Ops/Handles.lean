/-
  Driver operation of C17: `handles`.

  request  {"op":"handles", "entry": "load_asdict"|"loads_asdict"|"load"|"loads"|"load_all"|
                                     "dump"|"dumps"|"dump_all",
            "format": "json"|"yaml"|"unknown", "target": "path"|"pathlike"|"stream"|"invalid",
            "fault": null | [stage, k], "n": number of documents,
            "script": ["next"|"exhaust"|"close"|"collect", ...]}
  reply    {"ok": {"trace": [event...], "handles": [open?...], "caller_closed": bool,
                   "outcome": [...], "settled": bool}}
-/
import Lean.Data.Json
import DemesVerif.Spec.C17
namespace Demes.Ops.Handles
open Lean Demes.Handles

def stageName : Stage → String
  | .open => "open" | .parse => "parse" | .null => "null" | .unstringify => "unstringify"
  | .resolve => "resolve" | .simplify => "simplify" | .serialise => "serialise"

def stageOf? (s : String) : Option Stage :=
  [Stage.open, .parse, .null, .unstringify, .resolve, .simplify, .serialise].find? (fun st => stageName st == s)

def formatOf? : String → Option Handles.Format
  | "json" => some .json | "yaml" => some .yaml | "unknown" => some .unknown | _ => none

def targetOf? : String → Option Target
  | "path" => some .path | "pathlike" => some .pathlike | "stream" => some .stream
  | "invalid" => some .invalid | _ => none

def stepOf? : String → Option Step
  | "next" => some .next | "exhaust" => some .exhaust | "close" => some .close
  | "collect" => some .collect | _ => none

def entryOf? (e : String) (f : Handles.Format) : Option Entry :=
  match e with
  | "load_asdict" => some (.loadAsdict f) | "loads_asdict" => some (.loadsAsdict f)
  | "load" => some (.load f) | "loads" => some (.loads f) | "load_all" => some .loadAll
  | "dump" => some (.dump f) | "dumps" => some (.dumps f) | "dump_all" => some .dumpAll
  | _ => none

def natJ (n : Nat) : Json := .num n

def exnJ : Exn → List Json
  | .at s k => [.str (stageName s), natJ k]
  | .unknownFormat => [.str "unknown_format"]

def eventJ : Event → Json
  | .callOpen => .arr #[.str "call_open"]
  | .newStringIO => .arr #[.str "new_stringio"]
  | .opened h => .arr #[.str "opened", natJ h]
  | .closed h => .arr #[.str "closed", natJ h]
  | .callerClosed => .arr #[.str "caller_closed"]
  | .stage s k => .arr #[.str "stage", .str (stageName s), natJ k]
  | .yielded k => .arr #[.str "yielded", natJ k]
  | .stop => .arr #[.str "stop"]
  | .raised e => .arr (Json.str "raised" :: exnJ e).toArray
  | .returned => .arr #[.str "returned"]
  | .genClose => .arr #[.str "gen_close"]
  | .collect => .arr #[.str "collect"]

def outcomeJ : Outcome → Json
  | .returned => .arr #[.str "returned"]
  | .raised e => .arr (Json.str "raised" :: exnJ e).toArray
  | .iterator .notStarted => .arr #[.str "iterator", .str "not_started"]
  | .iterator (.suspended _ i) => .arr #[.str "iterator", .str "suspended", natJ i]
  | .iterator (.done .exhausted) => .arr #[.str "iterator", .str "exhausted"]
  | .iterator (.done .closed) => .arr #[.str "iterator", .str "closed"]
  | .iterator (.done (.failed e)) => .arr (Json.str "iterator" :: .str "failed" :: exnJ e).toArray

def parsePlan (j : Json) : Except String Plan :=
  match j.getObjVal? "fault" with
  | .error _ => pure none
  | .ok .null => pure none
  | .ok (.arr #[.str s, k]) =>
    match stageOf? s, k.getNat? with
    | some st, .ok n => pure (some ⟨st, n⟩)
    | _, _ => throw "bad fault"
  | .ok _ => throw "bad fault"

def parseRequest (j : Json) : Except String Request := do
  let e ← j.getObjValAs? String "entry"
  let f ← match j.getObjValAs? String "format" with
    | .ok f => pure f
    | .error _ => pure "yaml"
  let some fmt := formatOf? f | throw s!"bad format {f}"
  let some entry := entryOf? e fmt | throw s!"bad entry {e}"
  let t ← match j.getObjValAs? String "target" with
    | .ok t => pure t
    | .error _ => pure "stream"
  let some target := targetOf? t | throw s!"bad target {t}"
  let plan ← parsePlan j
  let n ← match j.getObjValAs? Nat "n" with
    | .ok n => pure n
    | .error _ => pure 1
  let script ← match j.getObjVal? "script" with
    | .ok (.arr xs) => xs.toList.mapM (fun x => match x with
        | .str s => match stepOf? s with
          | some st => pure st
          | none => throw s!"bad step {s}"
        | _ => throw "bad step")
    | _ => pure []
  pure { entry, target, plan, n, script }

def dispatch? (op : String) (j : Json) : Option Json :=
  if op = "handles" then some <|
    match parseRequest j with
    | .error e => Json.mkObj [("fail", .str e)]
    | .ok r =>
      let res := run r
      Json.mkObj [("ok", Json.mkObj [
        ("trace", .arr (res.state.trace.map eventJ).toArray),
        ("handles", .arr (res.state.handles.map Json.bool).toArray),
        ("caller_closed", .bool res.state.callerClosed),
        ("outcome", outcomeJ res.outcome),
        ("settled", .bool (decide (Spec.settled res.outcome)))])]
  else none

end Demes.Ops.Handles
