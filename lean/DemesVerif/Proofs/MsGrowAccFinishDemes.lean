/-
  C09 §8 (acceptance with exponential epochs), after the event loop — the deme clauses `V1 … V6` of
  `validGraph` hold of the explicit graph `docGraph tab doc` of a well-formed document (`DocWFV doc`);
  `V6` (the only clause that looks at sizes) for a placeholder table that is positive on the document
  (`TabPos tab doc`).  `V1 … V5` are the proofs of `MsAccFinishDemes.lean` (they use fields of `DocWF` that
  `DocWFV` has unchanged).
-/
import DemesVerif.Proofs.MsGrowAccFinishDefs
import DemesVerif.Proofs.MsAccFinishDemes
namespace Demes.Proofs.MsGrow
open Demes Demes.Ms Demes.Spec Demes.Spec.C08 Demes.Proofs.FromMs
open Demes.Proofs.MsAcc (DAncWF DMigsWF DPulseWF docGraph docDeme defaultProps findDeme_doc docDeme_endTime
  docDeme_name docDeme_startTime bEndTime_le_of_mem et_lt_irrefl et_not_lt_of_le et_fin_lt_fin et_fin_le_fin
  mem_take_of_sorted_desc docGraph_demes docDeme_ancestors docDeme_proportions docDeme_epochs closeTo1_of_eq
  qsumS_one contiguous_epochsOf epochsOf_isEmpty mem_epochsOf)

/-! ## the ancestry of one explicit deme -/

/-- a deme that starts at infinity has no ancestors and no proportions -/
theorem docDeme_inf (tab : List (Sz × Q)) {D : List BDeme} {d : BDeme} (h : DDemeWFV D d)
    (hs : d.startTime = .inf) :
    (docDeme tab d).ancestors = [] ∧ (docDeme tab d).proportions = [] := by
  obtain ⟨ha, hp⟩ := h.inf hs
  rw [docDeme_ancestors, docDeme_proportions, ha, hp]
  exact ⟨rfl, rfl⟩

/-- a deme that starts at a finite time: its ancestors -/
theorem docDeme_fin (tab : List (Sz × Q)) {D : List BDeme} {d : BDeme} (h : DDemeWFV D d)
    {Tj : Q} (hs : d.startTime = .fin Tj) :
    0 < Tj ∧ (docDeme tab d).ancestors ≠ [] ∧ (docDeme tab d).ancestors.Nodup ∧
    ∀ a ∈ (docDeme tab d).ancestors,
      ∃ da ∈ D, da.name = a ∧ a ≠ d.name ∧ bEndTime da ≤ Tj ∧ ETime.fin Tj < da.startTime := by
  obtain ⟨h0, ⟨as, ha, hne, hnd, hall, _⟩⟩ := h.fin Tj hs
  rw [docDeme_ancestors, ha]
  exact ⟨h0, hne, hnd, hall⟩

/-! ## V1 -/

theorem docwf_v1 {doc : MsDoc} (h : DocWFV doc) (tab : List (Sz × Q)) : v1 (docGraph tab doc) = true := by
  unfold v1
  rw [docGraph_demes]
  have h1 : (doc.demes.map (docDeme tab)).isEmpty = false := by
    rw [List.isEmpty_eq_false_iff]
    intro e
    exact h.ne (List.map_eq_nil_iff.1 e)
  have h2 : (doc.demes.map (docDeme tab)).all (fun d => isIdentifier d.name) = true := by
    rw [List.all_eq_true]
    intro x hx
    obtain ⟨d, hd, rfl⟩ := List.mem_map.1 hx
    exact (h.demes d hd).ident
  have h3 : ((doc.demes.map (docDeme tab)).map (·.name)).Nodup := by
    rw [List.map_map]
    exact h.nodup
  rw [h1, h2, decide_eq_true h3]
  rfl

/-! ## V2 -/

/-- the V2 clause of one deme at index `i` -/
theorem docwf_v2_one {doc : MsDoc} (h : DocWFV doc) (tab : List (Sz × Q)) {d : BDeme} {i : Nat}
    (hi : doc.demes[i]? = some d) :
    ((docDeme tab d).ancestors.all (fun a => ((doc.demes.map (docDeme tab)).take i).any (fun e => e.name = a))
      && decide ((docDeme tab d).ancestors.Nodup)
      && !(docDeme tab d).ancestors.contains (docDeme tab d).name) = true := by
  have hd : d ∈ doc.demes := List.mem_of_getElem? hi
  have hw := h.demes d hd
  cases hs : d.startTime with
  | inf =>
    rw [(docDeme_inf tab hw hs).1]
    rfl
  | fin Tj =>
    obtain ⟨_, _, hnd, hall⟩ := docDeme_fin tab hw hs
    rw [Bool.and_eq_true, Bool.and_eq_true]
    refine ⟨⟨?_, decide_eq_true hnd⟩, ?_⟩
    · rw [List.all_eq_true]
      intro a ha
      obtain ⟨da, hda, hn, _, _, hlt⟩ := hall a ha
      rw [List.any_eq_true]
      refine ⟨docDeme tab da, ?_, decide_eq_true hn⟩
      rw [← List.map_take]
      apply List.mem_map_of_mem
      refine mem_take_of_sorted_desc (fun b : BDeme => b.startTime) doc.demes i d da h.sorted hi hda ?_
      show d.startTime < da.startTime
      rw [hs]
      exact hlt
    · rw [Bool.not_eq_true', ← Bool.not_eq_true, List.contains_iff_mem]
      intro hm
      obtain ⟨_, _, _, hne, _⟩ := hall _ hm
      exact hne rfl

theorem docwf_v2 {doc : MsDoc} (h : DocWFV doc) (tab : List (Sz × Q)) : v2 (docGraph tab doc) = true := by
  unfold v2
  rw [docGraph_demes, List.all_eq_true]
  rintro ⟨x, i⟩ hx
  rw [List.mem_zipIdx_iff_getElem?, List.getElem?_map] at hx
  obtain ⟨d, hd, rfl⟩ := Option.map_eq_some_iff.1 hx
  exact docwf_v2_one h tab hd

/-! ## V3 -/

theorem docwf_v3_one {doc : MsDoc} (h : DocWFV doc) (tab : List (Sz × Q)) {d : BDeme}
    (hd : d ∈ doc.demes) :
    ((docDeme tab d).ancestors.all (fun a =>
        match findDeme (docGraph tab doc) a with
        | some anc => decide ((docDeme tab d).startTime < anc.startTime)
            && decide (ETime.fin anc.endTime ≤ (docDeme tab d).startTime)
        | none => false)
      && ((docDeme tab d).ancestors.isEmpty == (docDeme tab d).startTime.isInf)
      && decide (ETime.fin 0 < (docDeme tab d).startTime)) = true := by
  have hw := h.demes d hd
  rw [docDeme_startTime]
  cases hs : d.startTime with
  | inf =>
    rw [(docDeme_inf tab hw hs).1]
    rfl
  | fin Tj =>
    obtain ⟨h0, hne, _, hall⟩ := docDeme_fin tab hw hs
    rw [Bool.and_eq_true, Bool.and_eq_true]
    refine ⟨⟨?_, ?_⟩, decide_eq_true h0⟩
    · rw [List.all_eq_true]
      intro a ha
      obtain ⟨da, hda, hn, _, hle, hlt⟩ := hall a ha
      rw [← hn, findDeme_doc tab h.nodup hda]
      show (decide (ETime.fin Tj < (docDeme tab da).startTime)
        && decide (ETime.fin (docDeme tab da).endTime ≤ ETime.fin Tj)) = true
      rw [docDeme_startTime, docDeme_endTime, decide_eq_true hlt, Bool.true_and]
      exact decide_eq_true hle
    · rw [List.isEmpty_eq_false_iff.2 hne]
      rfl

theorem docwf_v3 {doc : MsDoc} (h : DocWFV doc) (tab : List (Sz × Q)) : v3 (docGraph tab doc) = true := by
  unfold v3
  rw [docGraph_demes, List.all_eq_true]
  intro x hx
  obtain ⟨d, hd, rfl⟩ := List.mem_map.1 hx
  exact docwf_v3_one h tab hd

/-! ## V4 -/

theorem docwf_v4_one (tab : List (Sz × Q)) {D : List BDeme} {d : BDeme} (hw : DDemeWFV D d) :
    ((docDeme tab d).proportions.length == (docDeme tab d).ancestors.length
      && (docDeme tab d).proportions.all (fun p => decide (0 < p) && decide (p ≤ 1))
      && ((docDeme tab d).proportions.isEmpty || closeTo1 (qsumS (docDeme tab d).proportions))) = true := by
  cases hs : d.startTime with
  | inf =>
    obtain ⟨ha, hp⟩ := docDeme_inf tab hw hs
    rw [ha, hp]
    rfl
  | fin Tj =>
    obtain ⟨_, ⟨as, ha, _, _, _, hpr⟩⟩ := hw.fin Tj hs
    rw [docDeme_ancestors, docDeme_proportions, ha]
    rcases hpr with ⟨hp, hl⟩ | ⟨ps, hp, hl, hall, hsum⟩
    · rw [hp]
      show ((defaultProps as).length == as.length
        && (defaultProps as).all (fun p => decide (0 < p) && decide (p ≤ 1))
        && ((defaultProps as).isEmpty || closeTo1 (qsumS (defaultProps as)))) = true
      have : defaultProps as = [1] := by
        unfold defaultProps
        rw [if_pos hl]
      rw [this, hl, closeTo1_of_eq qsumS_one]
      decide +kernel
    · rw [hp]
      show (ps.length == as.length
        && ps.all (fun p => decide (0 < p) && decide (p ≤ 1))
        && (ps.isEmpty || closeTo1 (qsumS ps))) = true
      rw [closeTo1_of_eq hsum, Bool.or_true, Bool.and_true, Bool.and_eq_true]
      refine ⟨by rw [hl]; exact beq_self_eq_true _, ?_⟩
      rw [List.all_eq_true]
      intro p hp'
      rw [Bool.and_eq_true]
      exact ⟨decide_eq_true (hall p hp').1, decide_eq_true (hall p hp').2⟩

theorem docwf_v4 {doc : MsDoc} (h : DocWFV doc) (tab : List (Sz × Q)) : v4 (docGraph tab doc) = true := by
  unfold v4
  rw [docGraph_demes, List.all_eq_true]
  intro x hx
  obtain ⟨d, hd, rfl⟩ := List.mem_map.1 hx
  exact docwf_v4_one tab (h.demes d hd)

/-! ## V5 -/

theorem docwf_v5 {doc : MsDoc} (h : DocWFV doc) (tab : List (Sz × Q)) : v5 (docGraph tab doc) = true := by
  unfold v5
  rw [docGraph_demes, List.all_eq_true]
  intro x hx
  obtain ⟨d, hd, rfl⟩ := List.mem_map.1 hx
  have hw := h.demes d hd
  rw [docDeme_epochs, docDeme_startTime, epochsOf_isEmpty tab _ hw.ne,
    contiguous_epochsOf tab d.epochs d.startTime hw.headLt hw.times]
  rfl

/-! ## V6 -/

/-- the V6 clause of one epoch `mkEpoch tab st e`: the two sizes are positive under the table; the size
function is `"constant"` exactly when they are equal (by definition of `mkEpoch`) -/
theorem v6_mkEpoch (tab : List (Sz × Q)) (st : ETime) (e : BEpoch)
    (hzp : 0 < szToQ tab (e.startSize.getD e.endSize)) (hep : 0 < szToQ tab e.endSize) (ht : 0 ≤ e.endTime)
    (hinf : st = .inf → e.startSize = some e.endSize) :
    (decide (0 < (mkEpoch tab st e).startSize) && decide (0 < (mkEpoch tab st e).endSize)
      && decide (0 ≤ (mkEpoch tab st e).selfingRate) && decide ((mkEpoch tab st e).selfingRate ≤ 1)
      && decide (0 ≤ (mkEpoch tab st e).cloningRate) && decide ((mkEpoch tab st e).cloningRate ≤ 1)
      && sizeFunctionsS.contains (mkEpoch tab st e).sizeFunction
      && ((mkEpoch tab st e).sizeFunction != "constant" || (mkEpoch tab st e).startSize == (mkEpoch tab st e).endSize)
      && (!(mkEpoch tab st e).startTime.isInf || (mkEpoch tab st e).startSize == (mkEpoch tab st e).endSize)
      && decide (0 ≤ (mkEpoch tab st e).endTime)) = true := by
  show (decide (0 < szToQ tab (e.startSize.getD e.endSize)) && decide (0 < szToQ tab e.endSize)
      && decide ((0 : Q) ≤ 0) && decide ((0 : Q) ≤ 1)
      && decide ((0 : Q) ≤ 0) && decide ((0 : Q) ≤ 1)
      && sizeFunctionsS.contains
          (if szToQ tab (e.startSize.getD e.endSize) = szToQ tab e.endSize then "constant" else "exponential")
      && ((if szToQ tab (e.startSize.getD e.endSize) = szToQ tab e.endSize then "constant" else "exponential")
            != "constant"
          || szToQ tab (e.startSize.getD e.endSize) == szToQ tab e.endSize)
      && (!st.isInf || szToQ tab (e.startSize.getD e.endSize) == szToQ tab e.endSize)
      && decide (0 ≤ e.endTime)) = true
  have hI : (!st.isInf || szToQ tab (e.startSize.getD e.endSize) == szToQ tab e.endSize) = true := by
    cases st with
    | fin q => rfl
    | inf =>
      rw [hinf rfl]
      show (!true || szToQ tab e.endSize == szToQ tab e.endSize) = true
      rw [beq_self_eq_true]
      rfl
  rw [hI, decide_eq_true hzp, decide_eq_true hep, decide_eq_true ht]
  have h01 : decide ((0 : Q) ≤ 0) = true := by decide +kernel
  have h02 : decide ((0 : Q) ≤ 1) = true := by decide +kernel
  rw [h01, h02]
  by_cases hc : szToQ tab (e.startSize.getD e.endSize) = szToQ tab e.endSize
  · rw [if_pos hc, hc, beq_self_eq_true]
    decide +kernel
  · rw [if_neg hc]
    have h1 : sizeFunctionsS.contains "exponential" = true := by decide +kernel
    have h2 : ("exponential" != "constant") = true := by decide +kernel
    rw [h1, h2]
    rfl

theorem docwf_v6_one (tab : List (Sz × Q)) {doc : MsDoc} (htab : TabPos tab doc) {d : BDeme}
    (hd : d ∈ doc.demes) (hw : DDemeWFV doc.demes d) :
    ∀ ep ∈ epochsOf tab d.startTime d.epochs,
    (decide (0 < ep.startSize) && decide (0 < ep.endSize)
      && decide (0 ≤ ep.selfingRate) && decide (ep.selfingRate ≤ 1)
      && decide (0 ≤ ep.cloningRate) && decide (ep.cloningRate ≤ 1)
      && sizeFunctionsS.contains ep.sizeFunction
      && (ep.sizeFunction != "constant" || ep.startSize == ep.endSize)
      && (!ep.startTime.isInf || ep.startSize == ep.endSize)
      && decide (0 ≤ ep.endTime)) = true := by
  intro ep hm
  obtain ⟨e, he, st', rfl, hinf⟩ := mem_epochsOf tab _ _ _ hm
  obtain ⟨_, z, hz, hzp⟩ := hw.closed e he
  have hep := hw.sizes e he
  have ht : 0 ≤ e.endTime := Rat.le_trans hw.last0 (bEndTime_le_of_mem hw.times he)
  refine v6_mkEpoch tab st' e ?_ (htab _ (endSize_mem_sizes hd he) hep) ht ?_
  · rw [hz]
    exact htab z (startSize_mem_sizes hd he hz) hzp
  · intro hi
    obtain ⟨hs, r, hr⟩ := hinf hi
    exact hw.headInf hs e r hr

theorem docwf_v6 {doc : MsDoc} (h : DocWFV doc) (tab : List (Sz × Q)) (htab : TabPos tab doc) :
    v6 (docGraph tab doc) = true := by
  unfold v6
  rw [docGraph_demes, List.all_eq_true]
  intro x hx
  obtain ⟨d, hd, rfl⟩ := List.mem_map.1 hx
  rw [docDeme_epochs, List.all_eq_true]
  exact docwf_v6_one tab htab hd (h.demes d hd)

#print axioms docwf_v1
#print axioms docwf_v2
#print axioms docwf_v3
#print axioms docwf_v4
#print axioms docwf_v5
#print axioms docwf_v6

end Demes.Proofs.MsGrow
