/-
  Proofs for C06, part 7: `Graph.fromdict` (Model `resolve`) accepts the output of
  `Graph.asdict` of a valid graph and rebuilds the graph.
-/
import DemesVerif.Proofs.AsdictPulses
namespace Demes.Proofs.Asdict
open Demes Demes.Spec Obj Value

theorem resolveHeader_ok (g : Graph) (h13 : v13 g = true) : resolveHeader (graphObj g) = .ok (hdr g) := by
  simp only [v13, Bool.and_eq_true, Bool.not_eq_true', decide_eq_true_eq, Bool.or_eq_true, bne_iff_ne, ne_eq,
    beq_iff_eq, List.all_eq_true] at h13
  obtain ⟨⟨⟨a1, a2⟩, a3⟩, a4⟩ := h13
  have l1 : lookup "description" (graphObj g) = some (.str g.description) := rfl
  have l2 : lookup "time_units" (graphObj g) = some (.str g.timeUnits) := rfl
  have l3 : lookupNN "generation_time" (graphObj g) = some (numV g.generationTime) := rfl
  have l4 : lookup "doi" (graphObj g) = some (strsV g.doi) := rfl
  have l5 : lookup "metadata" (graphObj g) = some (.obj (coerceO g.metadata)) := rfl
  have hdoi : (g.doi.map Value.str).mapM (fun v => do
      let s ← instStr v
      if s.isEmpty then valueErr "doi must be a non-empty string" else pure s) = .ok g.doi :=
    mapM_map_ok_id _ _ _ (fun s hs => by
      simp only [instStr_str, bind_ok, a4 s hs, Bool.false_eq_true, ↓reduceIte]; rfl)
  have hgt : (decide (g.timeUnits = "generations") && decide (g.generationTime ≠ 1)) = false := by
    rcases a3 with h | h
    · simp only [h, decide_false, Bool.false_and]
    · simp only [h, ne_eq, not_true_eq_false, decide_false, Bool.and_false]
  unfold resolveHeader
  simp only [l1, l2, l3, l4, l5, Option.getD_some, instStr_str, bind_ok, pure_bind', a1, Bool.false_eq_true,
    ↓reduceIte, posFiniteQ_numV a2, strsV, instList_list, hdoi, instObj_obj, Option.isNone_some, Bool.and_false,
    hgt]
  rfl

theorem checkAllowed_top (g : Graph) : checkAllowed (graphObj g) allowedTop = .ok () :=
  checkAllowed_ok _ _ (by rw [keys_graphObj]; exact topKeys_allowed)

/-- the graph handed to `_check_migration_rates` has the same demes and migrations as `g` -/
theorem checkMigrationRates_withMigs (g : Graph) :
    checkMigrationRates (withMigs g g.migrations) = checkMigrationRates g := rfl

/-- The clauses of `validGraph` used, one by one; the rate check is a hypothesis. -/
theorem resolve_asdict_of_rates_ok (g : Graph) (h0 : v0 g = true) (h1 : v1 g = true) (h2 : v2 g = true)
    (h3 : v3 g = true) (h4 : v4 g = true) (h5 : v5 g = true) (h6 : v6 g = true) (h8 : v8 g = true)
    (h9 : v9 g = true) (h11 : v11 g = true) (h12 : v12 g = true) (h13 : v13 g = true)
    (hrates : checkMigrationRates (withMigs g g.migrations) = .ok ()) :
    resolve (Graph.asdict g) = .ok { g with metadata := coerceO g.metadata } := by
  have p0 : popObject (graphObj g) "defaults" = .ok [] := rfl
  have p1 : checkAllowed [] allowedDefaults = .ok () := rfl
  have p2 : ∀ k, popObject [] k = .ok [] := fun _ => rfl
  have p3 : ∀ t, checkDefaults [] t = .ok () := fun _ => rfl
  have d1 : popObjList (graphObj g) "demes" none = .ok (g.demes.map demeObj) := by
    have : lookup "demes" (graphObj g) = some (.list (g.demes.map Deme.asdict)) := rfl
    simp only [popObjList, this, instList_list, bind_ok]
    exact mapM_instObj _ _ deme_asdict _
  have d2 : popObjList (graphObj g) "migrations" (some []) = .ok (g.migrations.map migrationObj) := by
    have : lookup "migrations" (graphObj g) = some (.list (g.migrations.map Migration.asdict)) := rfl
    simp only [popObjList, this, instList_list, bind_ok]
    exact mapM_instObj _ _ migration_asdict _
  have d3 : popObjList (graphObj g) "pulses" (some []) = .ok (g.pulses.map pulseObj) := by
    have : lookup "pulses" (graphObj g) = some (.list (g.pulses.map Pulse.asdict)) := rfl
    simp only [popObjList, this, instList_list, bind_ok]
    exact mapM_instObj _ _ pulse_asdict _
  have hne : g.demes.isEmpty = false := by
    simp only [v1, Bool.and_eq_true, Bool.not_eq_true'] at h1; exact h1.1.1
  have e1 : (g.demes.map demeObj).foldlM (resolveDeme [] []) (hdr g) = .ok (withDemes g g.demes) :=
    demes_loop h1 h2 h3 h4 h5 h6 g.demes [] rfl
  have e2 : (g.migrations.map migrationObj).foldlM (resolveMigration []) (withDemes g g.demes)
      = .ok (withMigs g g.migrations) := migrations_loop h1 h6 h8 h9 g.migrations [] rfl
  have e3 : (g.pulses.map pulseObj).foldlM (resolvePulse []) (withMigs g g.migrations)
      = .ok (withPulses g g.pulses) := pulses_loop h1 h11 g.pulses [] rfl
  rw [graph_asdict]
  unfold resolve
  simp only [instObj_obj, bind_ok, checkAllowed_top, p0, p1, p2, p3, resolveHeader_ok g h13, d1, d2, d3,
    List.isEmpty_map, hne, Bool.false_eq_true, ↓reduceIte, e1, e2, e3, hrates]
  have hs : sortPulses (withPulses g g.pulses).pulses = g.pulses := sortPulses_sorted g.pulses h12
  have hi : (withPulses g g.pulses).index = g.index := (index_of_v0 h0).symm
  rw [hs, hi]
  rfl

/-- `validGraph` split into its clauses -/
theorem clauses_of_valid {g : Graph} (hv : validGraph g = true) :
    v0 g = true ∧ v1 g = true ∧ v2 g = true ∧ v3 g = true ∧ v4 g = true ∧ v5 g = true ∧ v6 g = true
      ∧ v8 g = true ∧ v9 g = true ∧ v10 g = true ∧ v11 g = true ∧ v12 g = true ∧ v13 g = true := by
  simp only [validGraph, validData, Bool.and_eq_true] at hv
  obtain ⟨h0, ⟨⟨⟨⟨⟨⟨⟨⟨⟨⟨⟨h1, h2⟩, h3⟩, h4⟩, h5⟩, h6⟩, h8⟩, h9⟩, h10⟩, h11⟩, h12⟩, h13⟩⟩ := hv
  exact ⟨h0, h1, h2, h3, h4, h5, h6, h8, h9, h10, h11, h12, h13⟩

theorem resolve_asdict (g : Graph) (hv : validGraph g = true) :
    resolve (Graph.asdict g) = .ok { g with metadata := coerceO g.metadata } := by
  obtain ⟨h0, h1, h2, h3, h4, h5, h6, h8, h9, h10, h11, h12, h13⟩ := clauses_of_valid hv
  exact resolve_asdict_of_rates_ok g h0 h1 h2 h3 h4 h5 h6 h8 h9 h11 h12 h13
    ((checkMigrationRates_withMigs g).trans (checkMigrationRates_of_v10 g h1 h5 h6 h8 h9 h10))

/-- with `bool`-free metadata nothing at all changes -/
theorem coerce_metadata_of_plain (g : Graph) (hm : plainO g.metadata = true) :
    { g with metadata := coerceO g.metadata } = g := by
  rw [coerceO_of_plain _ hm]

theorem resolve_asdict_plain (g : Graph) (hv : validGraph g = true) (hm : plainO g.metadata = true) :
    resolve (Graph.asdict g) = .ok g := by
  rw [resolve_asdict g hv, coerce_metadata_of_plain g hm]

theorem asdict_coerce_metadata (g : Graph) :
    Graph.asdict { g with metadata := coerceO g.metadata } = Graph.asdict g := by
  simp only [Graph.asdict, coerceO_idem]

theorem valid_coerce_metadata (g : Graph) (m : Obj) :
    validGraph { g with metadata := m } = validGraph g := rfl

theorem asdict_fixed_point (g : Graph) (hv : validGraph g = true) :
    ∃ g', resolve (Graph.asdict g) = .ok g' ∧ Graph.asdict g' = Graph.asdict g
      ∧ validGraph g' = true :=
  ⟨_, resolve_asdict g hv, asdict_coerce_metadata g, hv⟩

theorem read_asdict_plain (g : Graph) (h0 : v0 g = true) (h5 : v5 g = true)
    (hm : plainO g.metadata = true) : Read.graph (Graph.asdict g) = .ok g := by
  rw [read_asdict g h0 h5, coerce_metadata_of_plain g hm]

end Demes.Proofs.Asdict
