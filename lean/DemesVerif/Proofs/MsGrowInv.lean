/-
  C09 §8 — invariants of the typed interpreter `msSemG` on a time-sorted command of `to_ms` with growth
  options (`EvG`): the update lists are well formed (`UpdWFV`: no clause on growth rates), the matrix
  snapshots are chronological and never larger than the final number of populations.
  (`Proofs/MsRTInv.lean` with `-g` / `-eg`.)
-/
import DemesVerif.Proofs.MsGrowRun
import DemesVerif.Proofs.MsRTInv
import Mathlib.Tactic.Linarith
import Mathlib.Algebra.Order.Field.Basic
namespace Demes.Proofs.MsGrow
open Demes Demes.Ms Demes.Spec Demes.Spec.C07 Demes.Spec.C09
open Demes.Spec.MsSem (Row Mat matGet matSet)
open Demes.Proofs.ToMs (idx updPop stepP AliveIn OkEv extendMat zeroRC)
open Demes.Proofs.MsRT (matSet_len matSet_rows aliveIn_get updPop_eq_set)

/-- the invariant of a run up to time `T` (the lineage movements play no role) -/
structure RunInvV (T : Q) (pops : List PopG) (mat : Mat) (snaps : List (Q × Mat)) : Prop where
  sorted : ∀ p ∈ pops, p.upd.Pairwise (fun u v => u.t ≤ v.t)
  head : ∀ p ∈ pops, ∃ u r, p.upd = u :: r ∧ u.t = p.lo ∧ u.size.isSome = true
  le : ∀ p ∈ pops, ∀ u ∈ p.upd, u.t ≤ T
  hi : ∀ p ∈ pops, ∀ u ∈ p.upd, ETime.fin u.t ≤ p.hi
  chron : snaps.Pairwise (fun a b => a.1 ≤ b.1)
  snapLe : ∀ x ∈ snaps, x.1 ≤ T
  last : ∃ pre t, snaps = pre ++ [(t, mat)]
  matLen : mat.length = pops.length
  dims : ∀ tm ∈ snaps, tm.2.length ≤ pops.length ∧ ∀ row ∈ tm.2, row.length ≤ pops.length

theorem RunInvV.mono {T T' : Q} {pops : List PopG} {mat : Mat} {snaps : List (Q × Mat)}
    (h : RunInvV T pops mat snaps) (hT : T ≤ T') : RunInvV T' pops mat snaps :=
  { h with le := fun p hp u hu => by have := h.le p hp u hu; grind
           snapLe := fun x hx => by have := h.snapLe x hx; grind }

/-- the last snapshot's matrix has dimensions within the bound too -/
theorem RunInvV.matRows {T : Q} {pops : List PopG} {mat : Mat} {snaps : List (Q × Mat)}
    (h : RunInvV T pops mat snaps) : ∀ row ∈ mat, row.length ≤ pops.length := by
  obtain ⟨pre, t, hs⟩ := h.last
  exact (h.dims (t, mat) (by rw [hs]; simp)).2

theorem snoc_snap {T T' : Q} {pops pops' : List PopG} {mat m' : Mat} {snaps : List (Q × Mat)}
    (h : RunInvV T pops mat snaps) (hT : T ≤ T') (hlen : pops.length ≤ pops'.length)
    (hm : m'.length = pops'.length) (hrows : ∀ row ∈ m', row.length ≤ pops'.length) :
    (snaps ++ [(T', m')]).Pairwise (fun a b => a.1 ≤ b.1) ∧ (∀ x ∈ snaps ++ [(T', m')], x.1 ≤ T')
    ∧ (∃ pre t, snaps ++ [(T', m')] = pre ++ [(t, m')])
    ∧ ∀ tm ∈ snaps ++ [(T', m')], tm.2.length ≤ pops'.length ∧ ∀ row ∈ tm.2, row.length ≤ pops'.length := by
  refine ⟨?_, ?_, ⟨snaps, T', rfl⟩, ?_⟩
  · rw [List.pairwise_append]
    refine ⟨h.chron, List.pairwise_singleton _ _, ?_⟩
    intro a ha b hb
    simp only [List.mem_singleton] at hb
    subst hb
    have := h.snapLe a ha
    show a.1 ≤ T'
    grind
  · intro x hx
    rcases List.mem_append.1 hx with hx | hx
    · have := h.snapLe x hx; grind
    · simp only [List.mem_singleton] at hx; subst hx; exact Rat.le_refl
  · intro tm htm
    rcases List.mem_append.1 htm with htm | htm
    · obtain ⟨h1, h2⟩ := h.dims tm htm
      exact ⟨by omega, fun row hr => by have := h2 row hr; omega⟩
    · simp only [List.mem_singleton] at htm; subst htm
      exact ⟨Nat.le_of_eq hm, hrows⟩

/-- appending an update at time `T` to a population that has not been joined keeps the invariant -/
theorem append_inv {T : Q} {pops : List PopG} {mat : Mat} {snaps : List (Q × Mat)} {k : Nat} {p : PopG}
    (hp : pops[k]? = some p) (hh : p.hi = .inf) (u : Upd) (hu : u.t = T) (hm : RunInvV T pops mat snaps) :
    RunInvV T (pops.set k { p with upd := p.upd ++ [u] }) mat snaps := by
  have hpm : p ∈ pops := List.mem_of_getElem? hp
  have hcase : ∀ p' ∈ pops.set k { p with upd := p.upd ++ [u] },
      p' ∈ pops ∨ p' = { p with upd := p.upd ++ [u] } :=
    fun p' hp' => List.mem_or_eq_of_mem_set hp'
  refine ⟨?_, ?_, ?_, ?_, hm.chron, hm.snapLe, hm.last, by simpa using hm.matLen, by simpa using hm.dims⟩
  · intro p' hp'
    rcases hcase p' hp' with hp' | rfl
    · exact hm.sorted p' hp'
    · show (p.upd ++ _).Pairwise _
      rw [List.pairwise_append]
      refine ⟨hm.sorted p hpm, List.pairwise_singleton _ _, ?_⟩
      intro a ha b hb
      simp only [List.mem_singleton] at hb
      subst hb
      rw [hu]
      exact hm.le p hpm a ha
  · intro p' hp'
    rcases hcase p' hp' with hp' | rfl
    · exact hm.head p' hp'
    · obtain ⟨u0, r, hu0, h2, h3⟩ := hm.head p hpm
      exact ⟨u0, r ++ [u], by show p.upd ++ _ = _; rw [hu0]; rfl, h2, h3⟩
  · intro p' hp' v hv
    rcases hcase p' hp' with hp' | rfl
    · exact hm.le p' hp' v hv
    · rcases List.mem_append.1 hv with hv | hv
      · exact hm.le p hpm v hv
      · simp only [List.mem_singleton] at hv; subst hv; rw [hu]
  · intro p' hp' v hv
    rcases hcase p' hp' with hp' | rfl
    · exact hm.hi p' hp' v hv
    · show ETime.fin v.t ≤ p.hi
      rw [hh]; exact MsRT.le_inf _

/-- one well-addressed option of the fragment at a time `T' ≥ T` keeps the invariant -/
theorem stepP_inv {N0 : Q} {s : StG} {e : Event Growth} {T : Q} (he : EvG e) (hok : OkEv s e)
    (hT : T ≤ 4 * N0 * evT e) (h : RunInvV T s.pops s.mat s.snaps) :
    RunInvV (4 * N0 * evT e) (stepP N0 s e).pops (stepP N0 s e).mat (stepP N0 s e).snaps := by
  have hm := h.mono hT
  cases e with
  | popSizeChange o t i x =>
    obtain ⟨_, h1, q, y, rfl, hq, rfl, hy⟩ := he
    obtain ⟨_, _, ha⟩ := hok
    obtain ⟨_, p, hp, hh⟩ := aliveIn_get ha
    simp only [stepP, evT, Event.t] at hT hm ⊢
    rw [updPop_eq_set hp]
    exact append_inv hp hh _ rfl hm
  | popGrowthRateChange o t i G =>
    obtain ⟨_, h1, q, rfl, hq⟩ := he
    obtain ⟨_, ha⟩ := hok
    obtain ⟨_, p, hp, hh⟩ := aliveIn_get ha
    simp only [stepP, evT, Event.t] at hT hm ⊢
    rw [updPop_eq_set hp]
    exact append_inv hp hh _ rfl hm
  | migEntryChange o t i j x =>
    obtain ⟨_, h1, h2, q, y, rfl, hq, rfl, hy⟩ := he
    simp only [stepP, evT, Event.t, StG.snap] at hT hm ⊢
    obtain ⟨c1, c2, c3, c4⟩ := snoc_snap (pops' := s.pops) (m' := matSet s.mat (idx i) (idx j) (y / (4 * N0))) h hT
      (Nat.le_refl _) (by rw [matSet_len]; exact h.matLen) (matSet_rows _ _ _ _ _ h.matRows)
    exact ⟨hm.sorted, hm.head, hm.le, hm.hi, c1, c2, c3, by rw [matSet_len]; exact h.matLen, c4⟩
  | split o t i x =>
    obtain ⟨_, h1, q, y, rfl, hq, rfl, hy0, hy1⟩ := he
    simp only [stepP, evT, Event.t, StG.snap] at hT hm ⊢
    have hlen : (s.pops ++ [({ lo := 4 * N0 * q, upd := [⟨4 * N0 * q, some N0, some .zero⟩] } : PopG)]).length = s.pops.length + 1 := by simp
    have hml : (extendMat s.mat s.pops.length).length = s.pops.length + 1 := by
      unfold extendMat; simp [h.matLen]
    have hmr : ∀ row ∈ extendMat s.mat s.pops.length, row.length ≤ s.pops.length + 1 := by
      intro row hr
      unfold extendMat at hr
      rcases List.mem_append.1 hr with hr | hr
      · obtain ⟨r0, hr0, rfl⟩ := List.mem_map.1 hr
        have := h.matRows r0 hr0
        simp; omega
      · simp only [List.mem_singleton] at hr; subst hr; simp
    obtain ⟨c1, c2, c3, c4⟩ := snoc_snap (pops' := s.pops ++ [({ lo := 4 * N0 * q, upd := [⟨4 * N0 * q, some N0, some .zero⟩] } : PopG)])
      (m' := extendMat s.mat s.pops.length) h hT (by rw [hlen]; omega) (by rw [hlen, hml]) (by rw [hlen]; exact hmr)
    have hcase : ∀ p' ∈ s.pops ++ [({ lo := 4 * N0 * q, upd := [⟨4 * N0 * q, some N0, some .zero⟩] } : PopG)],
        p' ∈ s.pops ∨ p' = ({ lo := 4 * N0 * q, upd := [⟨4 * N0 * q, some N0, some .zero⟩] } : PopG) := by
      intro p' hp'
      rcases List.mem_append.1 hp' with hp' | hp'
      · exact Or.inl hp'
      · simp only [List.mem_singleton] at hp'; exact Or.inr hp'
    refine ⟨?_, ?_, ?_, ?_, c1, c2, c3, by rw [hlen, hml], c4⟩
    · intro p' hp'
      rcases hcase p' hp' with hp' | rfl
      · exact hm.sorted p' hp'
      · exact List.pairwise_singleton _ _
    · intro p' hp'
      rcases hcase p' hp' with hp' | rfl
      · exact hm.head p' hp'
      · exact ⟨_, [], rfl, rfl, rfl⟩
    · intro p' hp' u hu
      rcases hcase p' hp' with hp' | rfl
      · exact hm.le p' hp' u hu
      · simp only [List.mem_singleton] at hu; subst hu; exact Rat.le_refl
    · intro p' hp' u hu
      rcases hcase p' hp' with hp' | rfl
      · exact hm.hi p' hp' u hu
      · exact MsRT.le_inf _
  | join o t i j =>
    obtain ⟨_, h1, h2, q, rfl, hq⟩ := he
    obtain ⟨_, hai, haj, hne⟩ := hok
    obtain ⟨_, p, hp, hh⟩ := aliveIn_get hai
    have hpm : p ∈ s.pops := List.mem_of_getElem? hp
    simp only [stepP, evT, Event.t, StG.snap] at hT hm ⊢
    rw [updPop_eq_set hp]
    have hlen : (s.pops.set (idx i) { p with hi := .fin (4 * N0 * q) }).length = s.pops.length := by simp
    have hml : (zeroRC s.mat s.pops.length (idx i)).length = s.pops.length := by unfold zeroRC; simp
    have hmr : ∀ row ∈ zeroRC s.mat s.pops.length (idx i), row.length ≤ s.pops.length := by
      intro row hr
      unfold zeroRC at hr
      obtain ⟨a, _, rfl⟩ := List.mem_map.1 hr
      simp
    obtain ⟨c1, c2, c3, c4⟩ := snoc_snap (pops' := s.pops.set (idx i) { p with hi := .fin (4 * N0 * q) })
      (m' := zeroRC s.mat s.pops.length (idx i)) h hT (Nat.le_of_eq hlen.symm) (by rw [hlen, hml]) (by rw [hlen]; exact hmr)
    have hcase : ∀ p' ∈ s.pops.set (idx i) { p with hi := .fin (4 * N0 * q) },
        p' ∈ s.pops ∨ p' = { p with hi := .fin (4 * N0 * q) } :=
      fun p' hp' => List.mem_or_eq_of_mem_set hp'
    refine ⟨?_, ?_, ?_, ?_, c1, c2, c3, by rw [hlen, hml], c4⟩
    · intro p' hp'
      rcases hcase p' hp' with hp' | rfl
      · exact hm.sorted p' hp'
      · exact hm.sorted p hpm
    · intro p' hp'
      rcases hcase p' hp' with hp' | rfl
      · exact hm.head p' hp'
      · exact hm.head p hpm
    · intro p' hp' u hu
      rcases hcase p' hp' with hp' | rfl
      · exact hm.le p' hp' u hu
      · exact hm.le p hpm u hu
    · intro p' hp' u hu
      rcases hcase p' hp' with hp' | rfl
      · exact hm.hi p' hp' u hu
      · exact hm.le p hpm u hu
  | growthRateChange => exact he.elim
  | sizeChange => exact he.elim
  | migRateChange => exact he.elim
  | migMatrixChange => exact he.elim

/-- a list of options in time order -/
theorem fold_inv {N0 : Q} (hN : 0 < N0) : ∀ (l : List (Event Growth)) (s s' : StG) (T : Q),
    l.foldlM (stepSt N0) s = .ok s' → (∀ e ∈ l, EvG e) → l.Pairwise (fun a b => evT a ≤ evT b) →
    (∀ e ∈ l, T ≤ 4 * N0 * evT e) → RunInvV T s.pops s.mat s.snaps →
    ∃ T', RunInvV T' s'.pops s'.mat s'.snaps ∧ (T' = T ∨ ∃ e ∈ l, T' = 4 * N0 * evT e)
  | [], s, s', T, h, _, _, _, hinv => by cases h; exact ⟨T, hinv, Or.inl rfl⟩
  | e :: r, s, s', T, h, he, hs, hT, hinv => by
    rw [List.foldlM_cons] at h
    cases h1 : stepSt N0 s e with
    | error err => rw [h1] at h; cases h
    | ok s1 =>
      rw [h1] at h
      obtain ⟨hok, rfl⟩ := stepSt_inv (he e List.mem_cons_self) h1
      have hinv1 := stepP_inv (he e List.mem_cons_self) hok (hT e List.mem_cons_self) hinv
      obtain ⟨T', h2, h3⟩ := fold_inv hN r _ s' (4 * N0 * evT e) h (fun x hx => he x (List.mem_cons_of_mem _ hx))
        (List.pairwise_cons.1 hs).2 (fun x hx => by
          have := (List.pairwise_cons.1 hs).1 x hx
          have h4 : (0 : Q) ≤ 4 * N0 := by linarith
          exact mul_le_mul_of_nonneg_left this h4) hinv1
      refine ⟨T', h2, ?_⟩
      rcases h3 with h3 | ⟨x, hx, h3⟩
      · exact Or.inr ⟨e, List.mem_cons_self, h3⟩
      · exact Or.inr ⟨x, List.mem_cons_of_mem _ hx, h3⟩

/-- the time groups of a command in time order -/
theorem groups_invV {N0 : Q} (hN : 0 < N0) : ∀ (gs : List (List (Event Growth))) (s s' : StG) (T : Q),
    gs.foldlM (stepGroupG N0) s = .ok s' → (∀ e ∈ gs.flatten, EvG e) →
    gs.flatten.Pairwise (fun a b => evT a ≤ evT b) → (∀ e ∈ gs.flatten, T ≤ 4 * N0 * evT e) →
    RunInvV T s.pops s.mat s.snaps → ∃ T', RunInvV T' s'.pops s'.mat s'.snaps
  | [], s, s', T, h, _, _, _, hinv => by cases h; exact ⟨T, hinv⟩
  | grp :: gs, s, s', T, h, he, hs, hT, hinv => by
    rw [List.foldlM_cons] at h
    cases h1 : stepGroupG N0 s grp with
    | error err => rw [h1] at h; cases h
    | ok s1 =>
      rw [h1] at h
      rw [List.flatten_cons] at he hs hT
      -- the group itself
      unfold stepGroupG at h1
      cases h2 : grp.foldlM (stepSt N0) s with
      | error err => rw [h2] at h1; cases h1
      | ok s2 =>
        rw [h2] at h1
        obtain ⟨T', hinv2, hT'⟩ := fold_inv hN grp s s2 T h2 (fun e hx => he e (List.mem_append_left _ hx))
          (List.pairwise_append.1 hs).1 (fun e hx => hT e (List.mem_append_left _ hx)) hinv
        have hcore : s1.pops = s2.pops ∧ s1.mat = s2.mat ∧ s1.snaps = s2.snaps := by
          simp only [bind, Except.bind, pure, Except.pure] at h1
          split at h1
          · split at h1 <;> (cases h1; exact ⟨rfl, rfl, rfl⟩)
          · cases h1; exact ⟨rfl, rfl, rfl⟩
        have hinv1 : RunInvV T' s1.pops s1.mat s1.snaps := by rw [hcore.1, hcore.2.1, hcore.2.2]; exact hinv2
        refine groups_invV hN gs s1 s' T' h (fun e hx => he e (List.mem_append_right _ hx))
          (List.pairwise_append.1 hs).2.1 ?_ hinv1
        intro e hx
        rcases hT' with rfl | ⟨x, hxg, rfl⟩
        · exact hT e (List.mem_append_right _ hx)
        · have := (List.pairwise_append.1 hs).2.2 x hxg e hx
          have h4 : (0 : Q) ≤ 4 * N0 := by linarith
          exact mul_le_mul_of_nonneg_left this h4


end Demes.Proofs.MsGrow
