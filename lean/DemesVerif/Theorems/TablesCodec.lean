/-
  The configuration of the third-party text codecs in demes/load_dump.py, re-read from the source on every run
  (Generated/Codec.lean), is the one the codec laws were tested under (C04's `CodecLaws` hypothesis; C16's strict JSON):
  leaves in flow style, ASCII-only output with escapes, insertion-ordered mappings, document markers for streams,
  the safe loader and dumper; `json.dump(allow_nan=False, indent=2)`, `json.load` without hooks.
-/
import DemesVerif.Generated.Codec
namespace Demes.Tables

/-- `_load_yaml_asdict` is `with ruamel.yaml.YAML(typ='safe') as yaml: return yaml.load(fp)` -/
theorem tables_codec_yaml_load : Generated.codecYamlLoad =
    ("p0", ["with ruamel.yaml.YAML(typ='safe') as v0:", "  return v0.load(p0)"]) := by decide +kernel

/-- `_dump_yaml_fromdict`: the safe dumper writing to the given stream with exactly three settings
(`default_flow_style = None`, `allow_unicode = False`, `sort_base_mapping_type_on_output = False`), the two document
markers switched on only for streams, then one `dump` -/
theorem tables_codec_yaml_dump : Generated.codecYamlDump =
    ("p0, p1, multidoc=False",
     ["with ruamel.yaml.YAML(typ='safe', output=p1) as v0:", "  v0.default_flow_style = None", "  v0.allow_unicode = False",
      "  v0.sort_base_mapping_type_on_output = False", "  if multidoc:", "    v0.explicit_start = True",
      "    v0.explicit_end = True", "  v0.dump(p0)"]) := by decide +kernel

/-- every use of `json` / `ruamel.yaml` in the module, with its keywords: JSON is written strictly
(`allow_nan=False`) and read without hooks; YAML always through the safe loader / dumper -/
theorem tables_codec_calls : Generated.codecCalls =
    [("_dump_yaml_fromdict", "ruamel.yaml.YAML", 0, "output=p1, typ='safe'"),
     ("_load_yaml_asdict", "ruamel.yaml.YAML", 0, "typ='safe'"),
     ("dump", "json.dump", 2, "allow_nan=False, indent=2"),
     ("load_all", "ruamel.yaml.YAML", 0, "typ='safe'"),
     ("load_asdict", "json.load", 1, "")] := by decide +kernel

end Demes.Tables
