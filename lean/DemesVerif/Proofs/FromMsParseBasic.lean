/-
  C08 — agreement of the two parsers, basics.

  * the classification of the strings of a plain command line (`clsOf`, `tag`) and the argparse
    loop with its canonical fuel (`ML`), one option group at a time (`ML_fixed`, `ML_plus`,
    `ML_skip`);
  * the converters of the two sides on one string (`idx` / `cInt` + `positive`, `num` / `cFloat`,
    `nonneg` / `cFloat` + `non_negative`);
  * the constructors of the option records on finite arguments.
-/
import DemesVerif.Proofs.FromMsIgnores
import DemesVerif.Proofs.FromMsSpecStep
namespace Demes.Proofs.FromMsParse
open Demes.Proofs.FromMs
open Demes Demes.Ms Demes.Spec Demes.Spec.MsSem Demes.Spec.C08
open Demes.Proofs.RV (bind_ok pure_ok)

/-! ### the classes of plain strings -/

/-- the class of a plain string -/
def clsOf (s : String) : Cls :=
  if C08.isArgTok s then .arg else if C08.knownFlags.contains s then .opt s none else .unknown

def tag (l : List String) : List (String × Cls) := l.map (fun s => (s, clsOf s))

def clsIs (s : String) (c : Cls) : Bool :=
  match classify s with
  | .ok c' => decide (c' = c)
  | _ => false

theorem clsIs_classify {s : String} {c : Cls} (h : clsIs s c = true) : classify s = .ok c := by
  unfold clsIs at h
  split at h
  · rename_i c' hc
    rw [hc, of_decide_eq_true h]
  · cases h

theorem known_cls : C08.knownFlags.all (fun s => clsIs s (.opt s none)) = true := by decide +kernel
theorem ignored_cls : C08.ignoredFlags.all (fun s => clsIs s .unknown) = true := by decide +kernel

theorem classify_known {s : String} (h : s ∈ C08.knownFlags) : classify s = .ok (.opt s none) :=
  clsIs_classify (List.all_eq_true.1 known_cls s h)

theorem classify_ignored {s : String} (h : s ∈ C08.ignoredFlags) : classify s = .ok .unknown :=
  clsIs_classify (List.all_eq_true.1 ignored_cls s h)

theorem isArgTok_false_of_classify {s : String} {c : Cls} (h : classify s = .ok c) (hc : c ≠ .arg) :
    C08.isArgTok s = false := by
  unfold C08.isArgTok
  rw [h]
  cases c with
  | arg => exact absurd rfl hc
  | opt _ _ => rfl
  | unknown => rfl

theorem known_not_arg {s : String} (h : s ∈ C08.knownFlags) : C08.isArgTok s = false :=
  isArgTok_false_of_classify (classify_known h) (by intro h; cases h)

theorem ignored_not_arg {s : String} (h : s ∈ C08.ignoredFlags) : C08.isArgTok s = false :=
  isArgTok_false_of_classify (classify_ignored h) (by intro h; cases h)

theorem clsOf_known {s : String} (h : s ∈ C08.knownFlags) : clsOf s = .opt s none := by
  unfold clsOf
  rw [known_not_arg h]
  simp [h]

theorem ignored_not_known : ∀ s ∈ C08.ignoredFlags, s ∉ C08.knownFlags := by decide +kernel

theorem clsOf_ignored {s : String} (h : s ∈ C08.ignoredFlags) : clsOf s = .unknown := by
  unfold clsOf
  rw [ignored_not_arg h]
  simp [ignored_not_known s h]

theorem clsOf_arg {s : String} (h : C08.isArgTok s = true) : clsOf s = .arg := by
  unfold clsOf
  rw [h]; rfl

/-- a plain string that is not an argument is an option of one of the two tables -/
theorem plain_cases {s : String} (h : C08.plainTok s = true) (ha : C08.isArgTok s = false) :
    s ∈ C08.knownFlags ∨ s ∈ C08.ignoredFlags := by
  unfold C08.plainTok at h
  rw [ha] at h
  simp only [Bool.false_or, Bool.or_eq_true, List.contains_iff_mem] at h
  exact h

theorem classify_plain {s : String} (h : C08.plainTok s = true) : classify s = .ok (clsOf s) := by
  cases ha : C08.isArgTok s with
  | true => rw [clsOf_arg ha]; exact IsArgTok.classify ha
  | false =>
    rcases plain_cases h ha with hk | hi
    · rw [clsOf_known hk]; exact classify_known hk
    · rw [clsOf_ignored hi]; exact classify_ignored hi

theorem mapM_classify_plain : ∀ (l : List String), (∀ s ∈ l, C08.plainTok s = true) →
    l.mapM classify = .ok (l.map clsOf) := by
  intro l
  induction l with
  | nil => intro _; rfl
  | cons s l ih =>
    intro h
    rw [List.mapM_cons, classify_plain (h s (List.mem_cons_self ..)),
      ih (fun t ht => h t (List.mem_cons_of_mem _ ht))]
    rfl

theorem zip_map_clsOf (l : List String) : l.zip (l.map clsOf) = tag l := by
  induction l with
  | nil => rfl
  | cons s l ih => simp only [List.map_cons, List.zip_cons_cons, ih, tag]

theorem tag_length (l : List String) : (tag l).length = l.length := by simp [tag]

theorem tag_take_fst (l : List String) (n : Nat) : ((tag l).take n).map (·.1) = l.take n := by
  simp [tag, ← List.map_take, Function.comp_def]

theorem tag_drop (l : List String) (n : Nat) : (tag l).drop n = tag (l.drop n) := by
  simp [tag, List.map_drop]

/-! ### the run of arguments after an option -/

theorem argRun_le (l : List String) : C08.argRun l ≤ l.length := by
  induction l with
  | nil => simp [C08.argRun]
  | cons s l ih =>
    simp only [C08.argRun, List.length_cons]
    split <;> omega

theorem argRun_take_args (l : List String) : ∀ s ∈ l.take (C08.argRun l), C08.isArgTok s = true := by
  induction l with
  | nil => intro s hs; simp [C08.argRun] at hs
  | cons t l ih =>
    intro s hs
    simp only [C08.argRun] at hs
    split at hs
    · rename_i ht
      rw [List.take_succ_cons, List.mem_cons] at hs
      rcases hs with rfl | hs
      · exact ht
      · exact ih s hs
    · simp at hs

theorem argRun_drop_head (l : List String) :
    ∀ s, (l.drop (C08.argRun l)).head? = some s → C08.isArgTok s = false := by
  induction l with
  | nil => intro s hs; simp [C08.argRun] at hs
  | cons t l ih =>
    intro s hs
    simp only [C08.argRun] at hs
    split at hs
    · rw [List.drop_succ_cons] at hs
      exact ih s hs
    · rename_i ht
      simp only [List.drop_zero, List.head?_cons, Option.some.injEq] at hs
      subst hs
      simpa using ht

theorem leadingArgs_tag (l : List String) : leadingArgs ((tag l).map (·.2)) = C08.argRun l := by
  induction l with
  | nil => rfl
  | cons s l ih =>
    simp only [tag, List.map_cons, C08.argRun] at ih ⊢
    cases ha : C08.isArgTok s with
    | true =>
      rw [clsOf_arg ha]
      simp only [leadingArgs, if_true]
      rw [← ih]
    | false =>
      have : clsOf s ≠ .arg := by
        unfold clsOf
        rw [ha]
        simp only [Bool.false_eq_true, if_false]
        split <;> (intro h; cases h)
      cases hc : clsOf s with
      | arg => exact absurd hc this
      | opt _ _ => simp [leadingArgs]
      | unknown => simp [leadingArgs]

/-! ### the argparse loop with its canonical fuel, one group at a time -/

/-- `parse_known_args` on the remaining strings `l` with the arguments collected so far -/
def ML (l : List String) (a : Args) : Except Err Args := parseLoop l.length (tag l) a

theorem plainTok_dd : C08.plainTok "--" = false := by decide +kernel

theorem parseKnownArgs_plain {tokens : List String} (h : ∀ s ∈ tokens, C08.plainTok s = true) :
    parseKnownArgs tokens = ML tokens {} := by
  have hdd : tokens.contains "--" = false := by
    cases hc : tokens.contains "--" with
    | false => rfl
    | true =>
      have := h "--" (List.contains_iff_mem.1 hc)
      rw [plainTok_dd] at this
      cases this
  unfold parseKnownArgs ML
  rw [hdd]
  simp only [Bool.false_eq_true, if_false]
  show (tokens.mapM classify >>= fun cls => parseLoop tokens.length (tokens.zip cls) {}) = _
  rw [mapM_classify_plain tokens h]
  show parseLoop tokens.length (tokens.zip (tokens.map clsOf)) {} = _
  rw [zip_map_clsOf]

theorem ML_nil (a : Args) : ML [] a = .ok a := rfl

theorem ML_arg {s : String} (r : List String) (a : Args) (h : C08.isArgTok s = true) :
    ML (s :: r) a = ML r { a with unknown := a.unknown ++ [s] } := by
  unfold ML
  simp only [tag, List.map_cons, List.length_cons, clsOf_arg h, parseLoop]

theorem ML_unknown {s : String} (r : List String) (a : Args) (h : clsOf s = .unknown) :
    ML (s :: r) a = ML r { a with unknown := a.unknown ++ [s] } := by
  unfold ML
  simp only [tag, List.map_cons, List.length_cons, h, parseLoop]

/-- the strings argparse cannot place are skipped -/
theorem ML_skip : ∀ (k : Nat) (l : List String) (a : Args), (∀ s ∈ l.take k, C08.isArgTok s = true) →
    ∃ u, ML l a = ML (l.drop k) { a with unknown := u } := by
  intro k
  induction k with
  | zero => intro l a _; exact ⟨a.unknown, rfl⟩
  | succ k ih =>
    intro l a h
    cases l with
    | nil => exact ⟨a.unknown, rfl⟩
    | cons s l =>
      rw [ML_arg l a (h s (by simp))]
      obtain ⟨u, hu⟩ := ih l { a with unknown := a.unknown ++ [s] }
        (fun t ht => h t (by rw [List.take_succ_cons]; exact List.mem_cons_of_mem _ ht))
      exact ⟨u, by rw [hu, List.drop_succ_cons]⟩

theorem ML_fuel (l : List String) (f : Nat) (a : Args) (hf : l.length ≤ f) : parseLoop f (tag l) a = ML l a :=
  parseLoop_fuel (tag l) f l.length a (by rw [tag_length]; exact hf) (by rw [tag_length]; exact Nat.le_refl _)

/-- an option with a fixed number of arguments, followed by exactly that many -/
theorem ML_fixed {flag : String} {n : Nat} (rest : List String) (a : Args) (hc : clsOf flag = .opt flag none)
    (har : arity.lookup flag = some (.fixed n)) (hk : C08.argRun rest = n) :
    ML (flag :: rest) a = takeAction a flag (rest.take n) >>= fun a' => ML (rest.drop n) a' := by
  unfold ML
  simp only [tag, List.map_cons, List.length_cons, hc, parseLoop, har]
  have hl := leadingArgs_tag rest
  simp only [tag] at hl
  rw [hl, hk, if_neg (Nat.lt_irrefl _)]
  have h1 := tag_take_fst rest n
  have h2 := tag_drop rest n
  simp only [tag] at h1 h2
  rw [h1, h2]
  congr 1
  funext a'
  have := ML_fuel (rest.drop n) rest.length a' (by simp)
  simp only [tag, ML] at this
  exact this

/-- an option with `nargs='+'`: it takes the whole run of arguments -/
theorem ML_plus {flag : String} (rest : List String) (a : Args) (hc : clsOf flag = .opt flag none)
    (har : arity.lookup flag = some .plus) (hk : 1 ≤ C08.argRun rest) :
    ML (flag :: rest) a
      = takeAction a flag (rest.take (C08.argRun rest)) >>= fun a' => ML (rest.drop (C08.argRun rest)) a' := by
  unfold ML
  simp only [tag, List.map_cons, List.length_cons, hc, parseLoop, har]
  have hl := leadingArgs_tag rest
  simp only [tag] at hl
  rw [hl, if_neg (by omega)]
  have h1 := tag_take_fst rest (C08.argRun rest)
  have h2 := tag_drop rest (C08.argRun rest)
  simp only [tag] at h1 h2
  rw [h1, h2]
  congr 1
  funext a'
  have := ML_fuel (rest.drop (C08.argRun rest)) rest.length a' (by simp)
  simp only [tag, ML] at this
  exact this

/-! ### one string, read by both sides -/

theorem idx_ok {s : String} {i : Nat} : idx s = .ok i ↔ ∃ j, pyInt s = some j ∧ 1 ≤ j ∧ i = j.toNat := by
  unfold idx
  cases h : pyInt s with
  | none => simp [throw, throwThe, MonadExceptOf.throw]
  | some j =>
    by_cases hj : j ≥ 1
    · show (if j ≥ 1 then _ else _) = _ ↔ _
      rw [if_pos hj]
      constructor
      · intro h; cases h; exact ⟨j, rfl, hj, rfl⟩
      · rintro ⟨j', hj', _, rfl⟩; cases hj'; rfl
    · show (if j ≥ 1 then _ else _) = _ ↔ _
      rw [if_neg hj]
      constructor
      · intro h; cases h
      · rintro ⟨j', hj', h1, _⟩; cases hj'; exact absurd h1 hj

theorem num_ok {s : String} {q : Q} : num s = .ok q ↔ pyFloat s = some (.fin q) := by
  unfold num
  cases h : pyFloat s with
  | none => simp [throw, throwThe, MonadExceptOf.throw]
  | some x => cases x <;> simp [throw, throwThe, MonadExceptOf.throw, pure, Except.pure]

theorem nonneg_ok {s : String} {q : Q} : nonneg s = .ok q ↔ pyFloat s = some (.fin q) ∧ 0 ≤ q := by
  unfold nonneg
  constructor
  · intro h
    obtain ⟨q', hq', h⟩ := sbind_ok.1 h
    split at h
    · exact (sthrow_ok.1 h).elim
    · rw [spure_ok] at h
      subst h
      exact ⟨num_ok.1 hq', by rename_i hn; exact Rat.not_lt.1 hn⟩
  · rintro ⟨h1, h2⟩
    rw [num_ok.2 h1]
    show (if q < 0 then _ else _) = _
    rw [if_neg (Rat.not_lt.2 h2)]
    rfl

theorem cInt_some {s : String} {j : Int} (h : pyInt s = some j) : cInt s = .ok j := by
  unfold cInt; rw [h]; rfl

theorem cFloat_some {s : String} {x : Num} (h : pyFloat s = some x) : cFloat s = .ok x := by
  unfold cFloat; rw [h]; rfl

theorem cFloat_ok {s : String} {x : Num} (h : cFloat s = .ok x) : pyFloat s = some x := by
  unfold cFloat at h
  cases hp : pyFloat s with
  | none => rw [hp] at h; cases h
  | some y => rw [hp] at h; cases h; rfl

theorem vPosInt_ok {j : Int} : vPosInt j = .ok () ↔ 1 ≤ j := by
  unfold vPosInt
  by_cases h : j ≤ 0
  · simp [h, valueErr]; omega
  · simp [h, pure, Except.pure]; omega

theorem vNonNegative_fin {q : Q} : vNonNegative (.fin q) = .ok () ↔ 0 ≤ q := by
  unfold vNonNegative
  simp only [Num.lt, Num.zero, decide_eq_true_eq]
  by_cases h : q < 0
  · simp [h, valueErr, Rat.not_le.2 h]
  · simp [h, pure, Except.pure, Rat.not_lt.1 h]

theorem vFinite_fin (q : Q) : vFinite (.fin q) = .ok () := rfl

theorem vUnitInterval_fin {q : Q} : vUnitInterval (.fin q) = .ok () ↔ 0 ≤ q ∧ q ≤ 1 := by
  unfold vUnitInterval
  simp only [Num.le, Num.zero, Num.one]
  by_cases h : 0 ≤ q ∧ q ≤ 1
  · simp [h, pure, Except.pure]
  · simp only [h, iff_false]
    have : (decide (0 ≤ q) && decide (q ≤ 1)) = false := by
      simpa [Bool.and_eq_true] using h
    simp only [this]
    simp [valueErr]

end Demes.Proofs.FromMsParse
