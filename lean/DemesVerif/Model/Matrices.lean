/-
  `Graph.migration_matrices` and `Graph._check_migration_rates` (demes/demes.py).
-/
import DemesVerif.Model.Graph
namespace Demes

abbrev Matrix := List (List Q)

/-- insert into a strictly descending list, dropping duplicates
    (`sorted(set(...), reverse=True)`) -/
def insertDesc (x : Q) : List Q → List Q
  | [] => [x]
  | y :: ys => if x > y then x :: y :: ys else if x = y then y :: ys else y :: insertDesc x ys

def sortDescUniq (xs : List Q) : List Q := xs.foldr insertDesc []

def migrationTimes (ms : List Migration) : List Q :=
  ms.filterMap (fun m => match m.startTime with | .fin q => some q | .inf => none)
    ++ ms.map (·.endTime)

/-- `end_times` of `migration_matrices` -/
def mmEndTimes (ms : List Migration) : List Q :=
  let s := sortDescUniq (migrationTimes ms)
  if s.getLast? = some 0 then s else s ++ [0]

def zeroMatrix (n : Nat) : Matrix := List.replicate n (List.replicate n 0)

def Matrix.get (m : Matrix) (i j : Nat) : Q := (m.getD i []).getD j 0

def Matrix.set (m : Matrix) (i j : Nat) (v : Q) : Matrix :=
  m.modify i (fun row => row.set j v)

/-- the inner `for k, end_time in enumerate(end_times)` loop for one migration;
`start` is the loop-carried `start_time` -/
def sweep (mig : Migration) (src dst : Nat) : ETime → List Q → List Matrix → Except Err (List Matrix)
  | _, [], mms => pure mms
  | _, _ :: _, [] => pure []
  | start, e :: es, mm :: mms =>
    if start ≤ ETime.fin mig.endTime then pure (mm :: mms)
    else do
      let mm' ←
        if ETime.fin e < mig.startTime then
          (if mm.get dst src > 0 then
             valueErr s!"multiple migrations defined for source={mig.source}, dest={mig.dest}"
           else pure (mm.set dst src mig.rate))
        else pure mm
      let rest ← sweep mig src dst (ETime.fin e) es mms
      pure (mm' :: rest)

/-- `Graph.migration_matrices()` -/
def migrationMatrices (g : Graph) : Except Err (List Matrix × List Q) := do
  let ends := mmEndTimes g.migrations
  let n := g.demes.length
  let init : List Matrix := List.replicate ends.length (zeroMatrix n)
  let mms ← g.migrations.foldlM (fun mms mig =>
    match g.demeId? mig.source, g.demeId? mig.dest with
    | some s, some d => sweep mig s d ETime.inf ends mms
    | _, _ => keyErr "deme_id") init
  pure (mms, ends)

def rowSum (row : List Q) : Q := row.foldl (· + ·) 0

/-- `Graph._check_migration_rates()` -/
def checkMigrationRates (g : Graph) : Except Err Unit := do
  let (mms, _) ← migrationMatrices g
  mms.forM (fun mm => mm.forM (fun row =>
    let s := rowSum row
    if s > 1 && !(iscloseQ s 1 relTol 0) then
      valueErr "sum of migration rates into deme is greater than 1"
    else pure ()))

end Demes
