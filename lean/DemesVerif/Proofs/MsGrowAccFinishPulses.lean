/-
  C09 §8 (acceptance with exponential epochs), after the event loop — the pulse clauses V11, V12 of
  `validGraph (docGraph tab doc)` from `DocWFV doc`: the proofs of `MsAccFinishPulses.lean` (they use
  `DocWF.pulses` and `DocWF.nodup` only, which `DocWFV` has unchanged).
-/
import DemesVerif.Proofs.MsGrowAccFinishDefs
import DemesVerif.Proofs.MsAccFinishPulses
namespace Demes.Proofs.MsGrow
open Demes Demes.Ms Demes.Spec Demes.Spec.C08 Demes.Proofs.FromMs
open Demes.Proofs.Accepts (sortDescStable_stable sortDescStable_perm)
open Demes.Proofs.MsAcc (DAncWF DMigsWF DPulseWF docGraph docDeme findDeme_doc docDeme_endTime
  pairwiseB_of_pairwise mem_docGraph_pulses pulse_source_ok)

/-! ## V12 -/

theorem docwf_v12 {doc : MsDoc} (_h : DocWFV doc) (tab : List (Sz × Q)) : v12 (docGraph tab doc) = true := by
  unfold v12
  apply pairwiseB_of_pairwise
  show (sortDescStable (fun p : Pulse => p.time) ((doc.pulses.getD []).map bp2p)).Pairwise _
  refine (sortDescStable_stable (fun p : Pulse => p.time) ((doc.pulses.getD []).map bp2p)).sorted.imp ?_
  intro a b hab
  exact decide_eq_true hab

/-! ## V11 -/

/-- the V11 body on one well-formed pulse of the document -/
theorem pulse_ok {doc : MsDoc} (h : DocWFV doc) (tab : List (Sz × Q)) {p : BPulse}
    (hp : DPulseWF doc.demes p) :
    (!(bp2p p).sources.isEmpty && decide ((bp2p p).sources.Nodup) && !(bp2p p).sources.contains (bp2p p).dest
    && (bp2p p).sources.length == (bp2p p).proportions.length
    && (bp2p p).proportions.all (fun x => decide (0 < x) && decide (x ≤ 1))
    && decide (qsumS (bp2p p).proportions ≤ 1)
    && decide (0 < (bp2p p).time)
    && match findDeme (docGraph tab doc) (bp2p p).dest with
       | none => false
       | some d =>
         (bp2p p).time != d.endTime &&
         (bp2p p).sources.all (fun s =>
           match findDeme (docGraph tab doc) s with
           | none => false
           | some sd =>
             let (lo, hi) := coexist sd d
             decide (lo ≤ (bp2p p).time) && decide (ETime.fin (bp2p p).time ≤ hi)
               && (ETime.fin (bp2p p).time != sd.startTime))) = true := by
  obtain ⟨q, dj, hdj, dk, hdk, hsrc, hdst, hne, hprop, hq0, hq1, ht0, hej, hek, hsj, hsk⟩ := hp.shape
  show (!p.sources.isEmpty && decide (p.sources.Nodup) && !p.sources.contains p.dest
    && p.sources.length == p.proportions.length
    && p.proportions.all (fun x => decide (0 < x) && decide (x ≤ 1))
    && decide (qsumS p.proportions ≤ 1)
    && decide (0 < p.time)
    && match findDeme (docGraph tab doc) p.dest with
       | none => false
       | some d =>
         p.time != d.endTime &&
         p.sources.all (fun s =>
           match findDeme (docGraph tab doc) s with
           | none => false
           | some sd =>
             let (lo, hi) := coexist sd d
             decide (lo ≤ p.time) && decide (ETime.fin p.time ≤ hi)
               && (ETime.fin p.time != sd.startTime))) = true
  rw [hsrc, hdst, hprop, findDeme_doc tab h.nodup hdj]
  have hsum : qsumS [q] ≤ 1 := by
    show q + 0 ≤ 1
    rw [Rat.add_zero]; exact hq1
  have hc : ([dk.name].contains dj.name) = false := by
    rw [List.contains_eq_mem, decide_eq_false_iff_not, List.mem_singleton]
    exact fun e => hne e.symm
  have hend : (p.time != (docDeme tab dj).endTime) = true := by
    rw [docDeme_endTime, bne_iff_ne]
    exact fun e => by rw [e] at hej; exact absurd hej (Rat.lt_irrefl)
  have hsrcs : ([dk.name].all (fun s =>
           match findDeme (docGraph tab doc) s with
           | none => false
           | some sd =>
             let (lo, hi) := coexist sd (docDeme tab dj)
             decide (lo ≤ p.time) && decide (ETime.fin p.time ≤ hi)
               && (ETime.fin p.time != sd.startTime))) = true := by
    rw [List.all_cons, List.all_nil, Bool.and_true, findDeme_doc tab h.nodup hdk]
    apply pulse_source_ok
    · rw [docDeme_endTime]; exact hek
    · rw [docDeme_endTime]; exact Rat.le_of_lt hej
    · exact hsk
    · exact hsj
  dsimp only
  rw [hc, hend, hsrcs, decide_eq_true hsum, decide_eq_true ht0]
  simp [hq0, hq1]

theorem docwf_v11 {doc : MsDoc} (h : DocWFV doc) (tab : List (Sz × Q)) : v11 (docGraph tab doc) = true := by
  unfold v11
  rw [List.all_eq_true]
  intro p' hp'
  obtain ⟨p, hp, rfl⟩ := mem_docGraph_pulses hp'
  exact pulse_ok h tab (h.pulses p hp)

#print axioms docwf_v11
#print axioms docwf_v12

end Demes.Proofs.MsGrow
