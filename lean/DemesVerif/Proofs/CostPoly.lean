/-
  C20, part 1: polynomial upper bounds for the step counts of `Model/Cost.lean`
  (`costMatrices`, `costCheckRates`, `costResolve`, `costAsdict`, `costInGenerations`),
  each by induction following the recursion of the cost function.
-/
import DemesVerif.Spec.C20
import Mathlib.Tactic.Linarith
import Mathlib.Tactic.Ring
namespace Demes.Proofs
open Demes Demes.Cost Demes.Spec

/-! ### sums over lists -/

theorem sum_map_le_mul {α} (f : α → Nat) (c : Nat) :
    ∀ l : List α, (∀ x ∈ l, f x ≤ c) → (l.map f).sum ≤ l.length * c
  | [], _ => by simp
  | x :: xs, h => by
    have h1 := h x (by simp)
    have h2 := sum_map_le_mul f c xs (fun y hy => h y (by simp [hy]))
    simp only [List.map_cons, List.sum_cons, List.length_cons]
    nlinarith

/-! ### sorting the boundary times -/

theorem length_insertDesc_le (x : Q) : ∀ l : List Q, (insertDesc x l).length ≤ l.length + 1
  | [] => by simp [insertDesc]
  | y :: ys => by
    have ih := length_insertDesc_le x ys
    simp only [insertDesc]
    split
    · simp
    · split
      · simp
      · simp only [List.length_cons]; omega

theorem length_sortDescUniq_le : ∀ l : List Q, (sortDescUniq l).length ≤ l.length
  | [] => by simp [sortDescUniq]
  | x :: xs => by
    have ih := length_sortDescUniq_le xs
    have h := length_insertDesc_le x (sortDescUniq xs)
    have e : sortDescUniq (x :: xs) = insertDesc x (sortDescUniq xs) := rfl
    rw [e]; simp only [List.length_cons]; omega

theorem costInsertDesc_le (x : Q) : ∀ l : List Q, costInsertDesc x l ≤ l.length + 1
  | [] => by simp [costInsertDesc]
  | y :: ys => by
    have ih := costInsertDesc_le x ys
    simp only [costInsertDesc]
    split
    · simp
    · split
      · simp
      · simp only [List.length_cons]; omega

theorem costSortDescUniq_le : ∀ l : List Q, costSortDescUniq l ≤ l.length * l.length
  | [] => by simp [costSortDescUniq]
  | x :: xs => by
    have ih := costSortDescUniq_le xs
    have h1 := costInsertDesc_le x (sortDescUniq xs)
    have h2 := length_sortDescUniq_le xs
    simp only [costSortDescUniq, List.length_cons]
    nlinarith

theorem length_migrationTimes_le (ms : List Migration) : (migrationTimes ms).length ≤ 2 * ms.length := by
  simp only [migrationTimes, List.length_append, List.length_map]
  exact le_trans (Nat.add_le_add_right (List.length_filterMap_le _ _) _) (by omega)

theorem length_mmEndTimes_le (ms : List Migration) : (mmEndTimes ms).length ≤ 2 * ms.length + 1 := by
  have h1 := length_sortDescUniq_le (migrationTimes ms)
  have h2 := length_migrationTimes_le ms
  simp only [mmEndTimes]
  split
  · omega
  · simp only [List.length_append, List.length_cons, List.length_nil]; omega

theorem costSweep_le (mig : Migration) : ∀ (es : List Q) (start : ETime), costSweep mig start es ≤ es.length + 1
  | [], _ => by simp [costSweep]
  | e :: es, start => by
    have ih := costSweep_le mig es (ETime.fin e)
    simp only [costSweep]
    split
    · simp
    · simp only [List.length_cons]; omega

/-! ### `migration_matrices` -/

theorem cost_matrices_poly (g : Graph) :
    costMatrices g ≤ polyMatrices (nDemes g) (nMigrations g) := by
  have hT := length_migrationTimes_le g.migrations
  have hS := costSortDescUniq_le (migrationTimes g.migrations)
  have hE := length_mmEndTimes_le g.migrations
  have hW : (g.migrations.map (fun mig => 2 * g.demes.length + costSweep mig ETime.inf (mmEndTimes g.migrations))).sum
      ≤ g.migrations.length * (2 * g.demes.length + 2 * g.migrations.length + 2) := by
    apply sum_map_le_mul
    intro mig _
    have := costSweep_le mig (mmEndTimes g.migrations) ETime.inf
    omega
  have hS' : costSortDescUniq (migrationTimes g.migrations) ≤ (2 * g.migrations.length) * (2 * g.migrations.length) :=
    le_trans hS (Nat.mul_le_mul hT hT)
  have hA : (mmEndTimes g.migrations).length * (g.demes.length * g.demes.length)
      ≤ (2 * g.migrations.length + 1) * (g.demes.length * g.demes.length) :=
    Nat.mul_le_mul_right _ hE
  simp only [costMatrices, polyMatrices, nDemes, nMigrations]
  omega

theorem cost_checkRates_poly (g : Graph) :
    costCheckRates g ≤ polyCheckRates (nDemes g) (nMigrations g) := by
  have hE := length_mmEndTimes_le g.migrations
  simp only [costCheckRates, polyCheckRates, nDemes, nMigrations]
  exact Nat.mul_le_mul_right _ hE

/-! ### `Graph.fromdict` -/

theorem sum_costDeme_le (D : Nat) : ∀ ds : List Deme,
    (ds.map (costDeme D)).sum ≤ ds.length * (1 + D)
      + (ds.map (·.ancestors.length)).sum * (3 * D + (ds.map (·.ancestors.length)).sum)
      + (ds.map (·.proportions.length)).sum + (ds.map (·.epochs.length)).sum
  | [] => by simp
  | d :: ds => by
    have ih := sum_costDeme_le D ds
    simp only [List.map_cons, List.sum_cons, List.length_cons, costDeme]
    generalize (ds.map (·.ancestors.length)).sum = A at ih ⊢
    generalize (ds.map (·.proportions.length)).sum = Pr at ih ⊢
    generalize (ds.map (·.epochs.length)).sum = E at ih ⊢
    generalize (ds.map (costDeme D)).sum = C at ih ⊢
    generalize d.ancestors.length = a
    nlinarith [Nat.zero_le (a * A)]

theorem sum_costPulse_le (D P : Nat) : ∀ ps : List Pulse,
    (ps.map (costPulse D P)).sum ≤ ps.length * (1 + 2 * D + P)
      + 3 * D * (ps.map (·.sources.length)).sum
      + (ps.map (·.sources.length)).sum * (ps.map (·.sources.length)).sum
      + (ps.map (·.proportions.length)).sum
  | [] => by simp
  | p :: ps => by
    have ih := sum_costPulse_le D P ps
    simp only [List.map_cons, List.sum_cons, List.length_cons, costPulse]
    generalize (ps.map (·.sources.length)).sum = S at ih ⊢
    generalize (ps.map (·.proportions.length)).sum = Pr at ih ⊢
    generalize (ps.map (costPulse D P)).sum = C at ih ⊢
    generalize p.sources.length = s
    nlinarith [Nat.zero_le (s * S)]

theorem cost_resolve_poly (g : Graph) :
    costResolve g ≤ polyResolve (nDemes g) (nEpochs g) (nAncestors g) (nProportions g)
      (nMigrations g) (nPulses g) (nSources g) (nPulseProportions g) (nHeader g) := by
  have h1 := sum_costDeme_le g.demes.length g.demes
  have h2 := sum_costPulse_le g.demes.length g.pulses.length g.pulses
  have h3 := cost_matrices_poly g
  have h4 := cost_checkRates_poly g
  simp only [nDemes, nMigrations] at h3 h4
  simp only [costResolve, polyResolve, nDemes, nEpochs, nAncestors, nProportions, nMigrations,
    nPulses, nSources, nPulseProportions, costMigration]
  omega

/-! ### `Graph.asdict` -/

theorem sum_costDemeAsdict (ds : List Deme) :
    (ds.map costDemeAsdict).sum = 6 * ds.length + (ds.map (·.ancestors.length)).sum
      + (ds.map (·.proportions.length)).sum + 6 * (ds.map (·.epochs.length)).sum := by
  induction ds with
  | nil => simp
  | cons d ds ih =>
    simp only [List.map_cons, List.sum_cons, List.length_cons, costDemeAsdict, ih]; omega

theorem sum_costPulseAsdict (ps : List Pulse) :
    (ps.map costPulseAsdict).sum = 4 * ps.length + (ps.map (·.sources.length)).sum
      + (ps.map (·.proportions.length)).sum := by
  induction ps with
  | nil => simp
  | cons p ps ih =>
    simp only [List.map_cons, List.sum_cons, List.length_cons, costPulseAsdict, ih]; omega

theorem cost_asdict_eq (g : Graph) :
    costAsdict g = polyAsdict (nDemes g) (nEpochs g) (nAncestors g) (nProportions g)
      (nMigrations g) (nPulses g) (nSources g) (nPulseProportions g) (nHeader g) := by
  simp only [costAsdict, polyAsdict, nDemes, nEpochs, nAncestors, nProportions, nMigrations,
    nPulses, nSources, nPulseProportions, sum_costDemeAsdict, sum_costPulseAsdict]

theorem cost_asdict_poly (g : Graph) :
    costAsdict g ≤ polyAsdict (nDemes g) (nEpochs g) (nAncestors g) (nProportions g)
      (nMigrations g) (nPulses g) (nSources g) (nPulseProportions g) (nHeader g) :=
  le_of_eq (cost_asdict_eq g)

/-! ### `Graph.in_generations` -/

theorem sum_costDemeScale (ds : List Deme) :
    (ds.map costDemeScale).sum = ds.length + (ds.map (·.epochs.length)).sum := by
  induction ds with
  | nil => simp
  | cons d ds ih =>
    simp only [List.map_cons, List.sum_cons, List.length_cons, costDemeScale, ih]; omega

theorem cost_inGenerations_poly (g : Graph) :
    costInGenerations g ≤ polyInGenerations (nDemes g) (nEpochs g) (nMigrations g) (nPulses g) := by
  simp only [costInGenerations, polyInGenerations, nDemes, nEpochs, nMigrations, nPulses,
    sum_costDemeScale]
  omega

end Demes.Proofs
