/-
  Proofs for C03, part 3a — one call of `_add_asymmetric_migration` / `_add_symmetric_migration`
  on raw values against the Spec's `fillMigrationPair`: what the Model accepts reads to the
  migration the Spec prescribes (soundness), and every migration the Spec prescribes that passes
  the checks `MigOk` is accepted (completeness).
-/
import DemesVerif.Proofs.AcceptsBasic
import DemesVerif.Proofs.ResolveMigrations
namespace Demes.Proofs.Accepts
open Demes Demes.Obj Demes.Spec

/-! ### what depends on which part of the graph -/

theorem deme?_congr {G G' : Graph} (hd : G'.demes = G.demes) (hi : G'.index = G.index) (a : String) :
    G'.deme? a = G.deme? a := by
  unfold Graph.deme? Graph.indexLookup
  rw [hd, hi]

theorem fillMigrationPair_congr {G G' : Graph} (hd : G'.demes = G.demes) (hi : G'.index = G.index)
    (rate : Q) (st et : Option Value) (sd : String × String) :
    fillMigrationPair G' rate st et sd = fillMigrationPair G rate st et sd := by
  unfold fillMigrationPair
  rw [deme?_congr hd hi, deme?_congr hd hi]

/-- `fillMigration` only looks at the demes and the name index -/
theorem fillMigration_congr {MD : Obj} {G G' : Graph} (hd : G'.demes = G.demes) (hi : G'.index = G.index)
    (m : Obj) : fillMigration MD G' m = fillMigration MD G m := by
  unfold fillMigration
  have : ∀ rate st et, fillMigrationPair G' rate st et = fillMigrationPair G rate st et :=
    fun rate st et => funext (fillMigrationPair_congr hd hi rate st et)
  simp only [this]

/-- `MigOk` only looks at the demes, the name index and the migrations -/
theorem migOk_congr {G G' : Graph} {m : Migration} {s d : Deme} (h : Asdict.MigOk G m s d)
    (hd : G'.demes = G.demes) (hi : G'.index = G.index) (hm : G'.migrations = G.migrations) :
    Asdict.MigOk G' m s d :=
  { src := by rw [deme?_congr hd hi]; exact h.src
    dst := by rw [deme?_congr hd hi]; exact h.dst
    srcId := h.srcId
    dstId := h.dstId
    ne := h.ne
    order := h.order
    lo := h.lo
    hi := h.hi
    rate0 := h.rate0
    rate1 := h.rate1
    nonneg := h.nonneg
    free := by rw [hm]; exact h.free }

/-! ### readers on the default bounds -/

theorem timeOf_num_ofETime (t : ETime) : timeOf (.num (Num.ofETime t)) = some t :=
  timeOf_eq_some.2 rfl

theorem finOf_num_fin (q : Q) : finOf (.num (.fin q)) = some q := rfl

/-! ### one ordered pair: soundness -/

/-- the start time of a migration between `s` and `d`: the given one, else the older end of their
coexistence interval -/
def startBound (st : Option Value) (s d : Deme) : Option ETime :=
  match st with
  | some v => timeOf v
  | none => some (coexist s d).2

/-- the end time of a migration between `s` and `d`: the given one, else the younger end of their
coexistence interval -/
def endBound (et : Option Value) (s d : Deme) : Option Q :=
  match et with
  | some v => finOf v
  | none => some (coexist s d).1

/-- `fillMigrationPair` without the join points of its `do` block -/
theorem fillMigrationPair_unfold (g : Graph) (rate : Q) (st et : Option Value) (sd : String × String) :
    fillMigrationPair g rate st et sd =
      (g.deme? sd.1).bind fun s => (g.deme? sd.2).bind fun d =>
        (startBound st s d).bind fun startTime =>
          (endBound et s d).bind fun endTime =>
            some { source := sd.1, dest := sd.2, startTime, endTime, rate } := by
  unfold fillMigrationPair
  cases g.deme? sd.1 <;> cases g.deme? sd.2 <;> cases st <;> cases et <;> rfl

theorem fillMigrationPair_eq {g : Graph} {s d : Deme} {src dst : String} {rate : Q} {st et : Option Value}
    {startTime : ETime} {endTime : Q}
    (hs : g.deme? src = some s) (hd : g.deme? dst = some d)
    (h1 : (startBound st s d) = some startTime)
    (h2 : (endBound et s d) = some endTime) :
    fillMigrationPair g rate st et (src, dst)
      = some { source := src, dest := dst, startTime, endTime, rate } := by
  rw [fillMigrationPair_unfold]
  simp only [hs, hd, h1, h2, Option.bind_some]

/-- what `_add_asymmetric_migration` accepts reads to the Spec's migration for the pair -/
theorem addAsymmetricMigration_fill {g g' : Graph} {sV dV rateV : Value} {stV etV : Option Value}
    (h : addAsymmetricMigration g sV dV rateV stV etV = .ok g') :
    ∃ s d mg rate, sV = .str s ∧ dV = .str d ∧ finOf rateV = some rate ∧
      fillMigrationPair g rate stV etV (s, d) = some mg ∧
      g' = { g with migrations := g.migrations ++ [mg] } := by
  unfold addAsymmetricMigration at h
  obtain ⟨source, hsource, h⟩ := RV.bind_ok.1 h
  obtain ⟨dest, hdest, h⟩ := RV.bind_ok.1 h
  obtain ⟨⟨lo, hi⟩, hti, h⟩ := RV.bind_ok.1 h
  dsimp -zeta only at h
  extract_lets startV jp1 at h
  obtain ⟨d1, d2, hd1, hd2, hlo, hhi, _⟩ := RV.timeIntersection_ok hti
  subst hlo hhi
  have hstartV : ∀ t, timeOf startV = some t →
      startBound stV d1 d2 = some t := by
    intro t ht
    cases stV with
    | none =>
      have : timeOf startV = some (ETime.min d1.startTime d2.startTime) := timeOf_num_ofETime _
      rw [this] at ht
      exact ht
    | some v => exact ht
  have h1 : ∃ endV : Value, (∀ q, finOf endV = some q →
      endBound etV d1 d2 = some q)
      ∧ jp1 endV = .ok g' := by
    cases etV with
    | none =>
      refine ⟨_, ?_, RV.pbind h⟩
      intro q hq
      rw [finOf_num_fin] at hq
      exact hq
    | some v =>
      obtain ⟨_, _, h⟩ := RV.bind_ok.1 h
      exact ⟨v, fun q hq => hq, RV.pbind h⟩
  clear h
  obtain ⟨endV, hendV, h⟩ := h1
  dsimp -zeta only [jp1] at h
  extract_lets jp3 jp2 at h
  obtain ⟨_, h⟩ := RV.ite_verr h
  dsimp -zeta only [jp2] at h
  obtain ⟨_, h⟩ := RV.ite_verr h
  dsimp -zeta only [jp3] at h
  obtain ⟨startTime, hstartTime, h⟩ := RV.bind_ok.1 h
  obtain ⟨endTime, hendTime, h⟩ := RV.bind_ok.1 h
  obtain ⟨rate, hrate, h⟩ := RV.bind_ok.1 h
  extract_lets jp4 jp5 jp6 at h
  obtain ⟨_, h⟩ := RV.ite_verr h
  dsimp -zeta only [jp6] at h
  obtain ⟨_, h⟩ := RV.ite_verr h
  dsimp -zeta only [jp5] at h
  obtain ⟨_, h⟩ := RV.ite_verr h
  dsimp -zeta only [jp4] at h
  rw [RV.pure_ok] at h
  refine ⟨source, dest, _, rate, (RV.existingName_ok hsource).1, (RV.existingName_ok hdest).1,
    ((unitQ_ok_iff _ _).1 hrate).1, ?_, h.symm⟩
  exact fillMigrationPair_eq hd1 hd2 (hstartV _ ((nonNegTime_ok_iff _ _).1 hstartTime).1)
    (hendV _ ((nonNegFiniteQ_ok_iff _ _).1 hendTime).1)

/-! ### one ordered pair: completeness -/

theorem fillMigrationPair_some {g : Graph} {s d : Deme} {rate : Q} {st et : Option Value}
    {sd : String × String} {mg : Migration}
    (hs : g.deme? sd.1 = some s) (hd : g.deme? sd.2 = some d)
    (h : fillMigrationPair g rate st et sd = some mg) :
    mg.source = sd.1 ∧ mg.dest = sd.2 ∧ mg.rate = rate ∧
    (startBound st s d) = some mg.startTime ∧
    (endBound et s d) = some mg.endTime := by
  rw [fillMigrationPair_unfold] at h
  simp only [hs, hd, Option.bind_some] at h
  obtain ⟨t, ht, h⟩ := obind_some' h
  obtain ⟨q, hq, h⟩ := obind_some' h
  cases h
  exact ⟨rfl, rfl, rfl, ht, hq⟩

/-- source, destination and rate of the Spec's migration for a pair (whatever the demes are) -/
theorem fillMigrationPair_fields {g : Graph} {rate : Q} {st et : Option Value}
    {sd : String × String} {mg : Migration}
    (h : fillMigrationPair g rate st et sd = some mg) :
    mg.source = sd.1 ∧ mg.dest = sd.2 ∧ mg.rate = rate := by
  rw [fillMigrationPair_unfold] at h
  obtain ⟨s, hs, h⟩ := obind_some' h
  obtain ⟨d, hd, h⟩ := obind_some' h
  obtain ⟨t, ht, h⟩ := obind_some' h
  obtain ⟨q, hq, h⟩ := obind_some' h
  cases h
  exact ⟨rfl, rfl, rfl⟩

/-- every migration the Spec prescribes for a pair that passes the checks is accepted, whatever
raw values it was read from -/
theorem addAsymmetricMigration_complete {g : Graph} {mg : Migration} {s d : Deme} {rateV : Value}
    {stV etV : Option Value} (hr : finOf rateV = some mg.rate)
    (hf : fillMigrationPair g mg.rate stV etV (mg.source, mg.dest) = some mg)
    (h : Asdict.MigOk g mg s d) :
    addAsymmetricMigration g (.str mg.source) (.str mg.dest) rateV stV etV
      = .ok { g with migrations := g.migrations ++ [mg] } := by
  obtain ⟨_, _, _, hst, het⟩ := fillMigrationPair_some (sd := (mg.source, mg.dest)) h.src h.dst hf
  have e1 : existingName g (.str mg.source) = .ok mg.source := by
    simp only [existingName, Asdict.hasName_of_deme? h.src, if_true]; rfl
  have e2 : existingName g (.str mg.dest) = .ok mg.dest := by
    simp only [existingName, Asdict.hasName_of_deme? h.dst, if_true]; rfl
  have t1 : timeIntersection g mg.source mg.dest stV
      = .ok (qmax s.endTime d.endTime, ETime.min s.startTime d.startTime) := by
    cases stV with
    | none =>
      simp only [timeIntersection, getDeme, h.src, h.dst, Asdict.pure_bind']
      rfl
    | some v =>
      have a1 : v.asNumRaw? = some (Num.ofETime mg.startTime) := asNumRaw_of_timeOf hst
      simp only [timeIntersection, getDeme, h.src, h.dst, Asdict.pure_bind', a1, Asdict.num_le_fin_ofETime,
        Asdict.num_le_ofETime, decide_eq_true (Asdict.et_fin_le_of_le_of_lt h.lo h.order),
        decide_eq_true h.hi, Bool.and_self, if_true]
      rfl
  have t2 : ∀ v, etV = some v → timeIntersection g mg.source mg.dest (some v)
      = .ok (qmax s.endTime d.endTime, ETime.min s.startTime d.startTime) := by
    intro v hv
    rw [hv] at het
    have a1 : v.asNumRaw? = some (Num.fin mg.endTime) := asNumRaw_of_finOf het
    simp only [timeIntersection, getDeme, h.src, h.dst, Asdict.pure_bind', a1, Asdict.num_le_fin_ofETime,
      Asdict.num_le_fin, decide_eq_true h.lo,
      decide_eq_true (Asdict.et_fin_le_of_lt_of_le h.order h.hi), Bool.and_self, if_true]
    rfl
  have n1 : nonNegTime (stV.getD (.num (Num.ofETime (ETime.min s.startTime d.startTime))))
      = .ok mg.startTime := by
    refine (nonNegTime_ok_iff _ _).2 ⟨?_, Asdict.et_not_lt_zero h.nonneg h.order⟩
    cases stV with
    | none => rw [Option.getD_none, timeOf_num_ofETime]; exact hst
    | some v => exact hst
  have hany : (g.migrations.any (fun o => o.source = mg.source && o.dest = mg.dest
      && decide (ETime.fin mg.endTime < o.startTime) && decide (ETime.fin o.endTime < mg.startTime))) = false := by
    rw [List.any_eq_false]
    intro o ho
    rw [h.free o ho]; exact Bool.false_ne_true
  have n3 : unitQ rateV = .ok mg.rate := (unitQ_ok_iff _ _).2 ⟨hr, h.rate0, h.rate1⟩
  unfold addAsymmetricMigration
  cases etV with
  | none =>
    have n2 : nonNegFiniteQ (.num (.fin (qmax s.endTime d.endTime))) = .ok mg.endTime :=
      (nonNegFiniteQ_ok_iff _ _).2 ⟨het, h.nonneg⟩
    simp only [e1, e2, t1, Asdict.bind_ok, Asdict.pure_bind', h.srcId, h.dstId, Bool.not_true,
      Bool.false_eq_true, ↓reduceIte, n1, n2, n3, h.ne, h.order, decide_true, hany]
    rfl
  | some v =>
    have n2 : nonNegFiniteQ v = .ok mg.endTime := (nonNegFiniteQ_ok_iff _ _).2 ⟨het, h.nonneg⟩
    simp only [e1, e2, t1, t2 v rfl, Asdict.bind_ok, Asdict.pure_bind', h.srcId, h.dstId, Bool.not_true,
      Bool.false_eq_true, ↓reduceIte, n1, n2, n3, h.ne, h.order, decide_true, hany]
    rfl

end Demes.Proofs.Accepts
