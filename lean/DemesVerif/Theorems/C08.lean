/-
  C08 — a graph built from an ms command line describes the same demography.

  `fromMs tokens N0 names` (Model/Ms.lean) is the Model of `demes.from_ms` on `command.split()`;
  `msSem` (Spec/MsSem.lean) is the independent backwards-time interpreter of an ms command;
  `resultSem mg` is the demography of a `from_ms` result read with "population k is the deme
  named deme{k}"; `SemAgree` (Spec/C08.lean) says that both demographies exist and are equal
  (same populations and lifetimes, same sizes and growth rates at every cut point, same
  migration step function, same lineage-movement matrices).

  The full property is FALSE of the unchanged code: see the `_counterexample` theorems (known
  findings F4, F5, F21, F22, F6b).  (The unchecked `deme_names`, F23, is repaired:
  `Graph.rename_demes` now validates the resulting names, see `fromMs_valid_all`.)  What is proved:

  1. `fromMs_valid`, `fromMs_valid_all`: the result is a valid graph, with or without
     `deme_names` (C01);
  2. `fromMs_ignores_option`, `fromMs_ignores_samples`: unknown options and sample counts;
  3. `fromMs_deme_k_is_population_k`, `fromMs_names`: deme `k` is population `k`;
  4. the counterexamples;
  5. the stage lemmas of the semantic refinement: the event loop of `build_graph` simulates the
     ms interpreter option by option — populations, liveness, size functions and growth rates
     (`build_sizes`), migration-matrix history (`build_migrations`), lineage-movement matrices of
     every time group (`build_movements_matrix`) — for **every** command both sides accept, tame
     or not.  Not proved (see the end of the file): the agreement of the two parsers (assumed as
     `parsersAgree` / `ArgsAgree`, checked by evaluation on the examples), and the steps after
     the event loop (`applyParams` → ancestry / pulses, `finaliseGrowth`,
     `_add_migrations_from_matrices`, transient demes, sort, `resolve`, `graphSem`), hence the
     assembled `fromMs_sem_partial`.
-/
import DemesVerif.Proofs.FromMsValid
import DemesVerif.Proofs.FromMsIgnores
import DemesVerif.Proofs.FromMsNames
import DemesVerif.Proofs.FromMsSem
import DemesVerif.Proofs.FromMsFinal
namespace Demes.Theorems.C08
open Demes Demes.Ms Demes.Spec Demes.Spec.MsSem Demes.Spec.C08

/-! ### 1. the result is a valid graph (this is also part of C01) -/

/-- Whenever `from_ms` (without `deme_names`) returns a graph, it satisfies every clause of the
fully-resolved data model. -/
theorem fromMs_valid (c : List String) (N0 : Q) (mg : MsGraph) (h : fromMs c N0 none = .ok mg) :
    validGraph mg.graph = true :=
  Proofs.FromMs.fromMs_valid h

/-- With `deme_names`, the two checks of `from_ms` (`len(set(deme_names)) == len(graph.demes)` and
"the keys `deme1 … deme{n}` are exactly the graph's deme names") and the validation at the end of
`Graph.rename_demes` (repair of F23) establish every clause of `RenameOK`: the result is the
renamed result of the call without names; the keys of the name map are pairwise distinct names
of demes; the new names are pairwise distinct; the supplied names are pairwise distinct, as many
as there are demes, are exactly the names of the result, and are identifiers. -/
theorem fromMs_names_checked (c : List String) (N0 : Q) (names : List String) (mg' : MsGraph)
    (h : fromMs c N0 (some names) = .ok mg') :
    ∃ mg, fromMs c N0 none = .ok mg ∧ mg'.graph = renameDemes mg.graph (Proofs.FromMs.nameMap names)
      ∧ mg'.doc = mg.doc ∧ mg'.table = mg.table
      ∧ ((Proofs.FromMs.nameMap names).map (·.1)).Nodup
      ∧ (∀ k ∈ (Proofs.FromMs.nameMap names).map (·.1), k ∈ mg.graph.demes.map (·.name))
      ∧ (mg.graph.demes.map (fun d => (Proofs.FromMs.nameMap names).apply d.name)).Nodup
      ∧ names.Nodup ∧ names.length = mg.graph.demes.length
      ∧ (mg'.graph.demes.map (·.name)).Perm names
      ∧ (∀ n ∈ names, isIdentifier n = true) :=
  Proofs.FromMs.fromMs_names_checked h

/-- The same as one predicate: the name map is a legitimate renaming (`RenameOK`, Spec/C15.lean) of
the result without names — so every theorem of C15 (lookups by the new names, renaming back)
applies to the result of `from_ms(…, deme_names=…)`. -/
theorem fromMs_renameOK (c : List String) (N0 : Q) (names : List String) (mg' : MsGraph)
    (h : fromMs c N0 (some names) = .ok mg') :
    ∃ mg, fromMs c N0 none = .ok mg ∧ mg'.graph = renameDemes mg.graph (Proofs.FromMs.nameMap names)
      ∧ RenameOK mg.graph (Proofs.FromMs.nameMap names) :=
  Proofs.FromMs.fromMs_renameOK h

/-- **Whenever `from_ms` returns a graph — with or without `deme_names`, whatever the names — it
satisfies every clause of the fully-resolved data model.** -/
theorem fromMs_valid_all (c : List String) (N0 : Q) (names : Option (List String)) (mg : MsGraph)
    (h : fromMs c N0 names = .ok mg) : validGraph mg.graph = true :=
  Proofs.FromMs.fromMs_valid_all h

/-- A supplied name that is not an identifier makes `from_ms` fail, whatever the command. -/
theorem fromMs_bad_names_rejected (c : List String) (N0 : Q) (names : List String)
    (hbad : ∃ n ∈ names, isIdentifier n = false) : ∃ e, fromMs c N0 (some names) = .error e :=
  Proofs.FromMs.fromMs_bad_names_rejected hbad

def twoPops : List String := ["-I", "2", "1", "1", "-ej", "1.0", "2", "1"]

/-- the former finding F23 (`from_ms(…, deme_names=["1x", "b c"])` returned a graph whose deme
names are not identifiers, i.e. an invalid graph): the call is now rejected with the
`ValueError` of `Graph.rename_demes` -/
example : (match fromMs twoPops 1 (some ["1x", "b c"]) with
    | .error e => decide (e.kind = .value) && e.msg == "invalid or colliding deme names after renaming"
    | .ok _ => false) = true := by
  decide +kernel
example : (fromMs twoPops 1 (some ["1x", "b c"])).toOption.isSome = false := by decide +kernel
/-- one bad name is enough; so is the empty string -/
example : (fromMs twoPops 1 (some ["A", "b c"])).toOption.isSome = false
    ∧ (fromMs twoPops 1 (some ["A", ""])).toOption.isSome = false := by decide +kernel

/-- non-vacuity: the hypotheses of `fromMs_valid` and `fromMs_valid_all` are satisfiable -/
example : (fromMs twoPops 1 none).toOption.map (fun mg => validGraph mg.graph) = some true := by
  decide +kernel
example : (fromMs twoPops 1 (some ["A", "B"])).toOption.map (fun mg => (validGraph mg.graph, mg.graph.demes.map (·.name)))
    = some (true, ["A", "B"]) := by
  decide +kernel
/-- swapping the default names is a legitimate `deme_names` -/
example : (fromMs twoPops 1 (some ["deme2", "deme1"])).toOption.map (fun mg => (validGraph mg.graph, mg.graph.demes.map (·.name)))
    = some (true, ["deme2", "deme1"]) := by
  decide +kernel

/-! ### 2. what has no effect -/

/-- An option that argparse does not know (`isUnknownTok`: no registered option matches it, not
even as a prefix — `-t`, `-T`, `-r`, `-seeds`, `-p`, `-s`, `-L`, `-c`, …) followed by any number
of strings that argparse takes for arguments (`isArgTok`: numbers, negative numbers, words),
inserted at an option boundary (after any prefix `pre`, before a rest `post` that is empty or
starts with an option), changes nothing: the same graph or the same error. -/
theorem fromMs_ignores_option (pre post args : List String) (flag : String) (N0 : Q) (names : Option (List String))
    (hf : isUnknownTok flag = true) (ha : ∀ a ∈ args, isArgTok a = true)
    (hp : ∀ p, post.head? = some p → isArgTok p = false) :
    fromMs (pre ++ post) N0 names = fromMs (pre ++ flag :: args ++ post) N0 names :=
  Proofs.FromMs.fromMs_ignores_option pre post args flag N0 names hf ha
    (fun p hpp h => by unfold Proofs.FromMs.IsArgTok at h; rw [hp p hpp] at h; cases h)

/-- The sample counts `n₁ … nₖ` of `-I npop n₁ … nₖ …` (at most `npop` strings that argparse
takes for arguments, replaced by as many others) change nothing: the same graph or the same
error.  (The Model never converts them; a count that is not a number is accepted alike.) -/
theorem fromMs_ignores_samples (pre post ns ns' : List String) (npopS : String) (N0 : Q) (names : Option (List String))
    (hlen : ns.length = ns'.length) (ha : ∀ a ∈ ns, isArgTok a = true) (ha' : ∀ a ∈ ns', isArgTok a = true)
    (hk : ∀ k, pyInt npopS = some k → (ns.length : Int) ≤ k) :
    fromMs (pre ++ "-I" :: npopS :: (ns ++ post)) N0 names = fromMs (pre ++ "-I" :: npopS :: (ns' ++ post)) N0 names :=
  Proofs.FromMs.fromMs_ignores_samples pre post ns ns' npopS N0 names hlen ha ha' hk

/-- the options the ms manual lists without demographic meaning are unknown to argparse, and
their arguments are arguments -/
example : ["-t", "-T", "-r", "-seeds", "-p", "-s", "-L", "-c"].all isUnknownTok = true := by decide +kernel
example : ["5", "5.0", "2e-3", "100", "-1", "-0.5", "tbs"].all isArgTok = true := by decide +kernel
example : ["-ej", "-I", "-t", "-eN"].any isArgTok = false := by decide +kernel

/-- an instance: `-t 5 -T` and `-seeds 1 2 3` inserted, sample counts changed -/
example : fromMs ["-I", "2", "1", "1", "-ej", "1.0", "2", "1"] 1 none
    = fromMs ["-I", "2", "1", "1", "-seeds", "1", "2", "3", "-ej", "1.0", "2", "1"] 1 none :=
  fromMs_ignores_option ["-I", "2", "1", "1"] ["-ej", "1.0", "2", "1"] ["1", "2", "3"] "-seeds" 1 none
    (by decide +kernel) (by decide +kernel) (by decide +kernel)
example : fromMs ["-I", "2", "1", "1", "-ej", "1.0", "2", "1"] 1 none
    = fromMs ["-I", "2", "10", "0", "-ej", "1.0", "2", "1"] 1 none :=
  fromMs_ignores_samples [] ["-ej", "1.0", "2", "1"] ["1", "1"] ["10", "0"] "2" 1 none rfl
    (by decide +kernel) (by decide +kernel) (by decide +kernel)

/-! ### 3. deme `k` is population `k` -/

/-- The demes of the graph are, in order and by name, those of the document `build_graph` hands
to `resolve` (`mg.doc`).  Those are the surviving Builder demes `ds` — populations `ks` out of
`0 … numPops-1` in increasing order, each at most once (`_remove_transient_demes` drops the
others), the deme of population `k` (0-based) being called `deme{k+1}` — **stably sorted by start
time, oldest first** (`_sort_demes_by_ancestry`): the correspondence deme ↔ population is by
name, not by position; among demes with the same start time (e.g. all initial populations that
are never joined) population order is kept. -/
theorem fromMs_deme_k_is_population_k (c : List String) (N0 : Q) (mg : MsGraph)
    (h : fromMs c N0 none = .ok mg) :
    ∃ (ks : List Nat) (ds : List BDeme), ks.Sublist (List.range mg.doc.numPops)
      ∧ ds.map (·.name) = ks.map Ms.demeName
      ∧ StableSortedDescE (fun d : BDeme => d.startTime) ds mg.doc.demes
      ∧ mg.graph.demes.map (·.name) = mg.doc.demes.map (·.name)
      ∧ (mg.graph.demes.map (·.name)).Perm (ks.map Ms.demeName) :=
  Proofs.FromMs.fromMs_deme_k_is_population_k h

/-- With `deme_names`, the result is the result without names in which, position by position,
the deme `deme{k+1}` of population `k` (0-based) is called `names[k]`; the supplied names are
exactly the names of the result. -/
theorem fromMs_names (c : List String) (N0 : Q) (names : List String) (mg' : MsGraph)
    (h : fromMs c N0 (some names) = .ok mg') :
    ∃ mg, fromMs c N0 none = .ok mg
      ∧ mg'.graph.demes.length = mg.graph.demes.length
      ∧ names.length = mg.graph.demes.length
      ∧ (∀ (i : Nat) (d d' : Deme), mg.graph.demes[i]? = some d → mg'.graph.demes[i]? = some d' →
          ∃ (k : Nat) (hk : k < names.length), d.name = Ms.demeName k ∧ d'.name = names[k])
      ∧ (mg'.graph.demes.map (·.name)).Perm names :=
  Proofs.FromMs.fromMs_names h

/-- non-vacuity, and the sort at work: population 1 joins population 2, so deme2 (older) is
listed before deme1; the names follow the populations, not the positions -/
example : (fromMs ["-I", "2", "1", "1", "-ej", "1.0", "1", "2"] 1 none).toOption.map
    (fun mg => (mg.graph.demes.map (·.name), mg.doc.numPops)) = some (["deme2", "deme1"], 2) := by decide +kernel
example : (fromMs ["-I", "2", "1", "1", "-ej", "1.0", "1", "2"] 1 (some ["A", "B"])).toOption.map
    (fun mg => mg.graph.demes.map (·.name)) = some ["B", "A"] := by decide +kernel

/-! ### 4. the known findings, as counterexamples to the full property -/

def f4Rejected : List String := ["-I", "2", "1", "1", "-eN", "1.0", "2.0", "-ej", "1.0", "2", "1"]
def f4Accepted : List String := ["-I", "2", "1", "1", "-ej", "1.0", "2", "1", "-eN", "1.0", "2.0"]

/-- **F4**: two same-time options (`-eN 1.0 2.0` and `-ej 1.0 2 1`) that denote the same
demography in either order (the ms interpreter gives both commands the same meaning) are
rejected in one order and accepted in the other -/
theorem fromMs_order_counterexample :
    (fromMs f4Rejected 1 none).toOption.isSome = false
    ∧ (fromMs f4Accepted 1 none).toOption.isSome = true
    ∧ (msSem f4Rejected 1).toOption.isSome = true
    ∧ msSem f4Rejected 1 = msSem f4Accepted 1 := by
  decide +kernel

/-- the accepted order is converted correctly -/
example : (fromMs f4Accepted 1 none).toOption.map (fun mg => SemAgree (msSem f4Accepted 1) (resultSem mg))
    = some true := by decide +kernel

def f5 : List String := ["-I", "2", "1", "1", "-es", "1.0", "2", "0.5", "-es", "1.0", "3", "0.5"]

/-- **F5**: a split of a population created at the same time.  `from_ms` returns a graph, the
command has a meaning, and the two differ in a lineage movement: at time 4 a lineage of
population 2 stays with probability 1/2, moves to population 3 with 1/4 and to population 4
with 1/4; the graph has a single pulse of 1/2 from deme3 -/
theorem fromMs_split_of_new_population_counterexample :
    (fromMs f5 1 none).toOption.map (fun mg => SemAgree (msSem f5 1) (resultSem mg)) = some false
    ∧ movesOf (msSem f5 1) = some [{ time := 4, rows := [(2, [(2, 1/2), (3, 1/4), (4, 1/4)])] }]
    ∧ (fromMs f5 1 none).toOption.map (fun mg => movesOf (resultSem mg))
        = some (some [{ time := 4, rows := [(2, [(2, 1/2), (3, 1/2)])] }]) := by
  decide +kernel

def f21 : List String :=
  ["-I", "3", "1", "1", "1", "-es", "1.0", "2", "0.75", "-es", "1.0", "1", "0.125", "-ej", "1.0", "4", "1", "-ej", "1.0", "5", "3"]

/-- **F21**: interleaved same-time `-es`/`-ej` pairs: the lineage movements differ -/
theorem fromMs_interleaved_pairs_counterexample :
    (fromMs f21 1 none).toOption.map (fun mg => SemAgree (msSem f21 1) (resultSem mg)) = some false
    ∧ (fromMs f21 1 none).toOption.map (fun mg => decide (movesOf (resultSem mg) = movesOf (msSem f21 1))) = some false
    ∧ (movesOf (msSem f21 1)).isSome = true := by
  decide +kernel

def f22 : List String :=
  ["-I", "3", "1", "1", "1", "-ej", "1.0", "2", "3", "-ej", "1.0", "3", "1", "-es", "1.0", "1", "0.25"]

/-- **F22**: a chain of same-time joins followed by a split of its target: the lineage
movements differ -/
theorem fromMs_join_chain_counterexample :
    (fromMs f22 1 none).toOption.map (fun mg => SemAgree (msSem f22 1) (resultSem mg)) = some false
    ∧ (fromMs f22 1 none).toOption.map (fun mg => decide (movesOf (resultSem mg) = movesOf (msSem f22 1))) = some false
    ∧ (movesOf (msSem f22 1)).isSome = true := by
  decide +kernel

def f6b : List String :=
  ["-I", "2", "2", "10", "-es", "0.375", "2", "0.0", "-ej", "0.375", "3", "1", "-ej", "0.75", "2", "1", "-eN", "0.75", "2.0"]

/-- **F6b**: `-es` with `p = 0`: every lineage of population 2 moves to population 1 at time
3/2; the graph has lost that movement -/
theorem fromMs_split_p0_counterexample :
    (fromMs f6b 1 none).toOption.map (fun mg => SemAgree (msSem f6b 1) (resultSem mg)) = some false
    ∧ movesOf (msSem f6b 1)
        = some [{ time := 3/2, rows := [(2, [(1, 1)])] }, { time := 3, rows := [(2, [(1, 1)])] }]
    ∧ (fromMs f6b 1 none).toOption.map (fun mg => movesOf (resultSem mg))
        = some (some [{ time := 3, rows := [(2, [(1, 1)])] }]) := by
  decide +kernel

/-- the counterexamples lie outside the tame fragment -/
example : [f5, f21, f22, f6b].map (fun c => (parse c).toOption.map Tame) = [some false, some false, some false, some false] := by
  decide +kernel
example : (parse f4Rejected).toOption.map NoSizeAtJoin = some false := by decide +kernel

/-! ### non-vacuity of the semantic statement: msdoc-style examples, checked by evaluation -/

/-- `from_ms` succeeds and its graph has exactly the demography of the command -/
def Agrees (c : List String) (N0 : Q) : Bool :=
  match fromMs c N0 none, parse c with
  | .ok mg, .ok pr => Tame pr && NoSizeAtJoin pr && SemAgree (msSem c N0) (resultSem mg)
  | _, _ => false

/-- two populations that split 4·N0 generations ago -/
example : Agrees ["-I", "2", "1", "1", "-ej", "1.0", "2", "1"] 1 = true := by decide +kernel
/-- exponential growth until 0.5, then constant (symbolic sizes), N0 = 64 -/
example : Agrees ["-G", "1.0", "-eN", "0.5", "2"] 64 = true := by decide +kernel
/-- island migration, `-g`, `-en` (which resets the growth rate), a join, ignored `-t 5 -T` -/
example : Agrees ["-I", "2", "1", "1", "0.5", "-g", "1", "1.0", "-en", "0.5", "1", "2", "-ej", "1.0", "2", "1", "-t", "5", "-T"] 1
    = true := by decide +kernel
/-- `-n` does not reset the growth rate; N0 = 1/4 -/
example : Agrees ["-I", "2", "1", "1", "-n", "1", "2", "-g", "1", "-1.0", "-eg", "0.25", "1", "0.0", "-ej", "0.5", "2", "1"] (1/4)
    = true := by decide +kernel
/-- migration matrices: `-ma`, then `-ema` after a join (entries of the joined population ignored) -/
example : Agrees ["-I", "3", "1", "1", "1", "-ma", "x", "0.25", "0.5", "0.25", "x", "0.5", "0.25", "0.125", "x",
    "-ej", "0.5", "3", "2", "-ema", "0.75", "3", "x", "0.5", "x", "0.5", "x", "x", "x", "x", "x", "-ej", "1", "2", "1"] 1
    = true := by decide +kernel
/-- an admixture: `-es t i p -ej t n+1 j`, N0 = 2 -/
example : Agrees ["-I", "2", "1", "1", "-es", "1.0", "1", "0.25", "-ej", "1.0", "3", "2"] 2 = true := by decide +kernel

/-! ### 5. the semantic refinement, stage by stage

`buildState args N0` is the Builder state at the end of the event loop of `build_graph`
(`buildDoc = buildState ≫ finishDoc`, `Proofs.FromMs.buildDoc_eq`); `runState pr N0` is the final
state of the ms interpreter (`msSem = parse ≫ runState ≫ finishSem`, `Spec.C08.msSem_eq`);
`ArgsAgree args pr` says that the two parsers read the same options off the command line. -/

/-- **`build_sizes`.**  The epoch / growth bookkeeping of the event loop (`epoch_resolve`, the four
size / growth option kinds — `-en`, `-eN` reset the growth rate, `-n` does not — on one or on all
live populations, `-es` creating and `-ej` retiring a population) computes the size function of
every ms population: same number of populations; deme `j` and population `j+1` have the same
size at every time (`none` on both sides before the population exists), the same current
growth rate and the same end of lifetime (`start_time`: `∞` until joined); deme `j` is in `joined`
exactly when population `j+1` has been joined. -/
theorem build_sizes (args : Args) (pr : Parsed) (N0 : Q) (s : BState) (σ : St)
    (ha : ArgsAgree args pr) (hm : Proofs.FromMs.buildState args N0 = .ok s) (hs : runState pr N0 = .ok σ) :
    s.demes.length = σ.pops.length ∧ s.numDemes = σ.pops.length ∧
    ∀ (j : Nat) (d : BDeme) (p : Pop), s.demes[j]? = some d → σ.pops[j]? = some p →
      (∀ t, demeSizeAt d t = popSizeAt p t) ∧ curGrowth d = p.growth ∧ d.startTime = p.hi
          ∧ s.joined.contains j = !alive p :=
  Proofs.FromMs.build_sizes ha hm hs

/-- **`build_sizes`, finished.**  "Resolve/remove growth_rate in oldest epochs" (`finaliseGrowth`,
which turns the growth rate of the oldest epoch into its `start_size`) on deme `j`, and closing
the open piece of population `j+1` in the observable of `msSem` (`finalSegs`, as `finishSem`
does), give the same name, the same end of lifetime and the same size at every time below it. -/
theorem final_sizes (args : Args) (pr : Parsed) (N0 : Q) (s : BState) (σ : St)
    (ha : ArgsAgree args pr) (hm : Proofs.FromMs.buildState args N0 = .ok s) (hs : runState pr N0 = .ok σ)
    (j : Nat) (d d' : BDeme) (p : Pop) (hd : s.demes[j]? = some d) (hp : σ.pops[j]? = some p)
    (hf : finaliseGrowth d = .ok d') :
    d'.name = d.name ∧ d'.startTime = p.hi ∧
    ∀ t, ETime.fin t < p.hi → closedSizeAt d'.epochs d'.startTime t = segsSizeAt (finalSegs p) t :=
  Proofs.FromMs.final_sizes ha hm hs hd hp hf

/-- **`build_migrations`** (matrix history).  For every ordered pair of different populations and
every time, the rate in the Builder's matrix in force at that time (`mm_list`, `mm_end_times`
as maintained by `migration_matrix_at`; divided by `4 N0`) is the rate in the interpreter's last
snapshot at or before that time — through `-m`, `-ma`, `-eM`, `-em`, `-ema`, `-es` (a zero row
and column in every matrix) and `-ej` (row and column zeroed; later `-eM` / `-ema` do not revive
entries of a joined population). -/
theorem build_migrations (args : Args) (pr : Parsed) (N0 : Q) (s : BState) (σ : St)
    (ha : ArgsAgree args pr) (hm : Proofs.FromMs.buildState args N0 = .ok s) (hs : runState pr N0 = .ok σ) :
    s.mmList.length = s.mmEndTimes.length ∧ (∀ m ∈ s.mmList, Proofs.FromMs.Dim s.numDemes m)
    ∧ s.numDemes = σ.pops.length
    ∧ ∀ j k t, j ≠ k →
        (mmRateAt s.mmList s.mmEndTimes j k t).map (scaleRate N0) = (snapRateAt σ.snaps j k t).map Num.fin :=
  Proofs.FromMs.build_migrations ha hm hs

/-- **`build_movements`, matrix level.**  For every time group `evs` of the run (the groups before
it processed by both sides, giving `s` and `σ`): after the events of the group, the Builder's
`lineage_movements` matrix equals the interpreter's movement matrix, row by row — for every
command, including the shapes of F5, F21, F22, F6b.  (Those findings arise in the next step,
where `split_join_params` collapses the matrix into ancestry and pulses.) -/
theorem build_movements_matrix (args : Args) (pr : Parsed) (N0 : Q) (ha : ArgsAgree args pr) (hN : 0 < N0)
    (pre post : List (List (Event Num))) (evs : List (Event Num))
    (hsplit : Proofs.FromMs.eventGroups args = pre ++ evs :: post)
    (s s1 : BState) (g1 : GState) (σ σ1 : St) (L1 : List (Nat × Row)) (T' : Q)
    (hpre : pre.foldlM (Ms.stepGroup N0) (Proofs.FromMs.initState args N0) = .ok s)
    (hpreS : (pre.map (List.map Proofs.FromMs.cmdOfD)).foldlM (MsSem.stepGroup N0) (initSt pr N0) = .ok σ)
    (hT' : ∀ e ∈ evs, 4 * N0 * (Proofs.FromMs.cmdOfD e).t = T')
    (hm : evs.foldlM (stepEvent N0 T') (s, { lm := Proofs.FromMs.initLm s evs, params := [] }) = .ok (s1, g1))
    (hs : (evs.map Proofs.FromMs.cmdOfD).foldlM (MsSem.step N0) (σ, Proofs.FromMs.initL σ) = .ok (σ1, L1)) :
    ∀ ir ∈ L1, 1 ≤ ir.1 ∧ ∀ k, lmGet g1.lm (ir.1 - 1) k = ir.2.get (k + 1) :=
  Proofs.FromMs.run_group_lm ha hN hsplit hpre hpreS hT' hm hs

/-- the same anchored at `from_ms` and `msSem`: whenever `from_ms` returns a graph, the command has
a meaning and the two parsers agree on it (`parsersAgree`, decidable), the event loop of
`from_ms` and the interpreter run of `msSem` end in corresponding states -/
theorem fromMs_sizes (c : List String) (N0 : Q) (mg : MsGraph) (sem : DemogSem)
    (h : fromMs c N0 none = .ok mg) (hsem : msSem c N0 = .ok sem) (hp : parsersAgree c = true) :
    ∃ args s pr σ, parseKnownArgs c = .ok args ∧ Proofs.FromMs.buildState args N0 = .ok s
      ∧ Proofs.FromMs.finishDoc N0 s = .ok mg.doc
      ∧ parse c = .ok pr ∧ runState pr N0 = .ok σ ∧ sem = finishSem σ
      ∧ s.demes.length = σ.pops.length
      ∧ ∀ (j : Nat) (d : BDeme) (p : Pop), s.demes[j]? = some d → σ.pops[j]? = some p →
          (∀ t, demeSizeAt d t = popSizeAt p t) ∧ curGrowth d = p.growth ∧ d.startTime = p.hi
          ∧ s.joined.contains j = !alive p :=
  Proofs.FromMs.fromMs_sizes h hsem hp

theorem fromMs_migrations (c : List String) (N0 : Q) (mg : MsGraph) (sem : DemogSem)
    (h : fromMs c N0 none = .ok mg) (hsem : msSem c N0 = .ok sem) (hp : parsersAgree c = true) :
    ∃ args s pr σ, parseKnownArgs c = .ok args ∧ Proofs.FromMs.buildState args N0 = .ok s
      ∧ Proofs.FromMs.finishDoc N0 s = .ok mg.doc
      ∧ parse c = .ok pr ∧ runState pr N0 = .ok σ ∧ sem = finishSem σ
      ∧ s.mmList.length = s.mmEndTimes.length ∧ (∀ m ∈ s.mmList, Proofs.FromMs.Dim s.numDemes m)
      ∧ s.numDemes = σ.pops.length
      ∧ ∀ j k t, j ≠ k →
          (mmRateAt s.mmList s.mmEndTimes j k t).map (scaleRate N0) = (snapRateAt σ.snaps j k t).map Num.fin :=
  Proofs.FromMs.fromMs_migrations h hsem hp

/-- non-vacuity of the stage theorems: on the msdoc-style examples (and on the F5 command) both
sides accept and the two parsers agree -/
def StageHyps (c : List String) (N0 : Q) : Bool :=
  (fromMs c N0 none).toOption.isSome && (msSem c N0).toOption.isSome && parsersAgree c

example : StageHyps ["-I", "2", "1", "1", "-ej", "1.0", "2", "1"] 1 = true := by decide +kernel
example : StageHyps ["-G", "1.0", "-eN", "0.5", "2"] 64 = true := by decide +kernel
example : StageHyps ["-I", "2", "1", "1", "0.5", "-g", "1", "1.0", "-en", "0.5", "1", "2", "-ej", "1.0", "2", "1", "-t", "5", "-T"] 1
    = true := by decide +kernel
example : StageHyps ["-I", "3", "1", "1", "1", "-ma", "x", "0.25", "0.5", "0.25", "x", "0.5", "0.25", "0.125", "x",
    "-ej", "0.5", "3", "2", "-ema", "0.75", "3", "x", "0.5", "x", "0.5", "x", "x", "x", "x", "x", "-ej", "1", "2", "1"] 1
    = true := by decide +kernel
example : StageHyps ["-I", "2", "1", "1", "-es", "1.0", "1", "0.25", "-ej", "1.0", "3", "2"] 2 = true := by decide +kernel
example : StageHyps f5 1 = true := by decide +kernel

/-! ### what is missing for the assembled `fromMs_sem_partial`

`Tame pr → NoSizeAtJoin pr → fromMs c N0 none = .ok mg → SemAgree (msSem c N0) (resultSem mg)` is
checked by evaluation on the examples above (`Agrees`), not proved.  Missing links, in order:
1. `parseKnownArgs c = .ok args → parse c = .ok pr → ArgsAgree args pr` (argparse vs the manual's
   arities; both directions of "accepted");
2. `applyParams` on tame groups: the ancestry / pulses it writes encode the movement matrix of
   `build_movements_matrix` (this is where F5, F21, F22, F6b live);
3. `_add_migrations_from_matrices` (the sweep that merges equal consecutive rates),
   `_remove_transient_demes`, `_sort_demes_by_ancestry` keep the three functions (`finaliseGrowth`
   is done: `final_sizes`);
4. `resolve` of the explicit document, the placeholder table for symbolic sizes, and `graphSem` /
   `semEquiv` read these functions back. -/
