/-
  Proofs for C03, part 4a — completeness of `Graph._add_deme` (Model `addDemeHeader`) on raw
  values: whatever raw values *read* to the fields of a deme passing the checks of `_add_deme`
  (`Asdict.DemeOk`), explicit or inferred as `Spec/C02.lean` says, are accepted and give that deme.
-/
import DemesVerif.Proofs.AcceptsEpochs
namespace Demes.Proofs.Accepts
open Demes Demes.Obj Demes.Spec

/-! ### what `DemeOk` gives the body of `addDemeHeader`, for the start time as a number `n` -/

structure HdrFacts (g : Graph) (name : String) (st : ETime) (anc : List String) (props : List Q)
    (n : Num) : Prop where
  fresh : g.hasName name = false
  ident : isIdentifier name = true
  names : (anc.map Value.str).mapM (existingName g) = .ok anc
  interval : anc.forM (fun a => do
      let anc ← getDeme g a
      if Num.lt n (Num.ofETime anc.startTime) && Num.le (Num.fin anc.endTime) n then pure ()
      else valueErr s!"start_time is outside the interval of existence for ancestor '{a}'") = .ok ()
  inf : (anc.isEmpty && !n.isInf) = false
  pos : vPositive n = .ok ()
  time : toETime n = .ok st
  nodup : anc.Nodup
  notSelf : anc.contains name = false
  check : (props.map Num.fin).mapM (fun n => do vUnitInterval n; vPositive n; toQ n) = .ok props
  sum : (!props.isEmpty && !proportionsSumOk props) = false
  len : props.length = anc.length

theorem hdrFacts {g : Graph} {name desc : String} {st : ETime} {anc : List String} {props : List Q}
    {eps : List Epoch} (h : Asdict.DemeOk g ⟨name, desc, st, anc, props, eps⟩) {n : Num}
    (hn : n = Num.ofETime st) : HdrFacts g name st anc props n := by
  subst hn
  have hfresh := h.fresh
  have hident := h.ident
  have hanc := h.anc
  have hnodup := h.nodup
  have hnot := h.notSelf
  have hinf := h.inf
  have hpos := h.pos
  have hlen := h.len
  have hprops := h.props
  have hsum := h.sum
  dsimp only at hfresh hident hanc hnodup hnot hinf hpos hlen hprops hsum
  refine ⟨hfresh, hident, ?_, ?_, ?_, ?_, Asdict.toETime_ofETime st, hnodup, hnot, ?_, ?_, hlen⟩
  · exact Asdict.mapM_map_ok_id _ _ _ (fun a ha => by
      obtain ⟨dm, h1, _⟩ := hanc a ha
      simp only [existingName, Asdict.hasName_of_deme? h1, if_true]; rfl)
  · exact Asdict.forM_ok _ _ (fun a ha => by
      obtain ⟨dm, h1, h2, h3⟩ := hanc a ha
      simp only [getDeme, h1, Asdict.pure_eq_ok, Asdict.bind_ok, Asdict.num_lt_ofETime,
        Asdict.num_le_fin_ofETime, decide_eq_true h2, decide_eq_true h3, Bool.and_self, if_true])
  · rw [Asdict.isInf_ofETime, hinf]; cases st.isInf <;> rfl
  · have hle : Num.le (Num.ofETime st) Num.zero = false := by
      rw [Num.zero, Asdict.num_le_ofETime_fin]; exact decide_eq_false (Asdict.et_not_le_of_lt hpos)
    simp only [vPositive, hle, Bool.false_eq_true, ↓reduceIte]; rfl
  · exact Asdict.mapM_map_ok_id _ _ _ (fun p hp => by
      obtain ⟨p0, p1⟩ := hprops p hp
      have p0' : 0 ≤ p := by grind
      have p0'' : ¬ p ≤ 0 := by grind
      simp only [vUnitInterval, vPositive, Num.zero, Num.one, Asdict.num_le_fin, decide_eq_true p0',
        decide_eq_true p1, Bool.and_self, if_true, Asdict.pure_eq_ok, Asdict.bind_ok,
        decide_eq_true_eq, if_neg p0'', toQ])
  · rcases hsum with h1 | h1
    · rw [h1]; rfl
    · rw [proportionsSumOk, Asdict.qsum_eq, ← closeTo1_eq, h1]
      simp only [Bool.not_true, Bool.and_false]

/-! ### the three optional arguments, case by case -/

theorem mapM_intOrFloat_of_finOf : ∀ {ps : List Value} {qs : List Q},
    mapOpt finOf ps = some qs → ps.mapM intOrFloat = .ok (qs.map Num.fin)
  | [], qs, h => by cases h; rfl
  | p :: ps, qs, h => by
    obtain ⟨y, ys, h1, h2, rfl⟩ := mapOpt_cons_some.1 h
    rw [List.mapM_cons, intOrFloat_of_finOf h1, Proofs.ok_bind, mapM_intOrFloat_of_finOf h2,
      Proofs.ok_bind]
    rfl

/-- the ancestors in force: none (then there are none) or the list of names -/
theorem ancestors_cases {ancV : Option Value} {anc : List String}
    (h : specAncestors ancV = .list (anc.map Value.str)) :
    (ancV = none ∧ anc = []) ∨ ancV = some (.list (anc.map Value.str)) := by
  cases ancV with
  | none =>
    left
    refine ⟨rfl, ?_⟩
    simp only [specAncestors, Option.getD_none, Value.list.injEq] at h
    cases anc with
    | nil => rfl
    | cons a as => cases h
  | some v => right; rw [← h]; rfl

/-- the start time in force, or the one inferred from the ancestors, as a number `n` -/
theorem startTime_cases {g : Graph} {stV : Option Value} {anc : List String} {sv : Value} {st : ETime}
    {n : Num} (hn : n = Num.ofETime st)
    (h : specStartTime g stV anc = some sv) (h' : timeOf sv = some st) :
    (∃ v, stV = some v ∧ intOrFloat v = .ok n) ∨ (stV = none ∧ anc = [] ∧ n = Num.pinf) ∨
    (stV = none ∧ ∃ a dm, anc = [a] ∧ getDeme g a = .ok dm ∧ n = Num.fin dm.endTime) := by
  subst hn
  cases stV with
  | some v =>
    left
    simp only [specStartTime, Option.some.injEq] at h
    subst h
    exact ⟨v, rfl, intOrFloat_of_timeOf h'⟩
  | none =>
    right
    match anc, h with
    | [], h =>
      left
      simp only [specStartTime, Option.some.injEq] at h
      subst h
      cases h'
      exact ⟨rfl, rfl, rfl⟩
    | [a], h =>
      right
      simp only [specStartTime] at h
      cases hd : g.deme? a with
      | none => rw [hd] at h; cases h
      | some dm =>
        rw [hd] at h
        simp only [Option.map_some, Option.some.injEq] at h
        subst h
        cases h'
        refine ⟨rfl, a, dm, rfl, ?_, rfl⟩
        simp only [getDeme, hd]; rfl
    | _ :: _ :: _, h => simp only [specStartTime] at h; cases h

/-- the proportions in force, or the inferred ones -/
theorem proportions_cases {propV : Option Value} {anc : List String} {ps : List Value} {props : List Q}
    (h : specProportions propV anc = .list ps) (h' : mapOpt finOf ps = some props) :
    (propV = none ∧ props = if anc.length = 1 then [(1 : Q)] else []) ∨
    (propV = some (.list ps) ∧ ps.mapM intOrFloat = .ok (props.map Num.fin)) := by
  cases propV with
  | none =>
    left
    refine ⟨rfl, ?_⟩
    simp only [specProportions] at h
    by_cases hl : anc.length = 1
    · simp only [hl, if_true, Value.list.injEq] at h ⊢
      subst h
      cases h'
      rfl
    · simp only [hl, if_false, Value.list.injEq] at h ⊢
      subst h
      cases h'
      rfl
  | some v =>
    right
    simp only [specProportions] at h
    subst h
    exact ⟨rfl, mapM_intOrFloat_of_finOf h'⟩

theorem addDemeHeader_noAnc (g : Graph) (nameV descV : Value) (propV stV : Option Value) :
    addDemeHeader g nameV descV none propV stV
      = addDemeHeader g nameV descV (some (.list [])) propV stV := rfl

/-- completeness of `_add_deme` on raw values: `ancV`/`propV`/`stV` are the values in force (or
`none`), `sv`/`ps` the raw start time and proportions the Spec infers from them -/
theorem addDemeHeader_complete {g : Graph} {d : Deme} {ancV propV stV : Option Value} {sv : Value}
    {ps : List Value}
    (hanc : specAncestors ancV = .list (d.ancestors.map Value.str))
    (hst : specStartTime g stV d.ancestors = some sv) (hst' : timeOf sv = some d.startTime)
    (hprop : specProportions propV d.ancestors = .list ps) (hps : mapOpt finOf ps = some d.proportions)
    (hok : Asdict.DemeOk g d) :
    addDemeHeader g (.str d.name) (.str d.description) ancV propV stV = .ok { d with epochs := [] } := by
  obtain ⟨name, desc, st, anc, props, eps⟩ := d
  dsimp only at hanc hst hst' hprop hps ⊢
  -- a `none` for the ancestors is `[]`
  have hanc' : addDemeHeader g (.str name) (.str desc) ancV propV stV
      = addDemeHeader g (.str name) (.str desc) (some (.list (anc.map Value.str))) propV stV := by
    rcases ancestors_cases hanc with ⟨rfl, rfl⟩ | rfl
    · exact addDemeHeader_noAnc _ _ _ _ _
    · rfl
  rw [hanc']
  clear hanc' hanc
  generalize hn : Num.ofETime st = n
  have F := hdrFacts hok hn.symm
  have hS := startTime_cases hn.symm hst hst'
  have hP := proportions_cases hprop hps
  clear hst hst' hprop hps hok hn
  obtain ⟨f1, f2, f3, f4, f5, f6, f7, f8, f9, f10, f11, f12⟩ := F
  rcases hS with ⟨v, rfl, hv⟩ | ⟨rfl, rfl, rfl⟩ | ⟨rfl, a, dm, rfl, hdm, rfl⟩ <;>
    rcases hP with ⟨rfl, rfl⟩ | ⟨rfl, hq⟩ <;>
    (unfold addDemeHeader
     simp only [*, Bool.false_eq_true, ↓reduceIte, Asdict.pure_bind', Asdict.bind_ok,
       Asdict.instList_list, Bool.not_true, Asdict.instStr_str, decide_true, ne_eq,
       not_true_eq_false]
     rfl)

end Demes.Proofs.Accepts
