#!/usr/bin/env python3
"""Pin lean/DemesVerif/Model/Ident.lean (the Model's copy of the interpreter's identifier classes) from the
running interpreter.  Run BY HAND (never by a check); Theorems/TablesIdent.lean proves the tables regenerated on
every run equal to these."""
import os, sys
sys.path.insert(0, os.path.dirname(os.path.abspath(__file__)))
import extract_tables as X
LEAN = os.path.join(os.path.dirname(os.path.dirname(os.path.abspath(__file__))), "lean")
text = ("/-\n  `str.isidentifier` beyond ASCII: the interpreter's XID_Start / XID_Continue classes as closed ranges of\n"
        "  non-ASCII code points (pinned by harness/pin_ident.py from CPython " + sys.version.split()[0] + ";\n"
        "  `Theorems/TablesIdent.lean` proves the tables regenerated on every run equal to these).\n-/\nnamespace Demes.Ident\n\n"
        + X.ident_tables_text() +
        "\n/-- membership in a table of closed ranges -/\ndef inRanges (t : List (Nat × Nat)) (n : Nat) : Bool := t.any (fun r => r.1 ≤ n && n ≤ r.2)\n\nend Demes.Ident\n")
open(os.path.join(LEAN, "DemesVerif", "Model", "Ident.lean"), "w").write(text)
print("pinned")
