/-
  C08 — agreement of the two parsers: the invariant of the two loops, and the option records on
  finite arguments.
-/
import DemesVerif.Proofs.FromMsParseStruct
namespace Demes.Proofs.FromMsParse
open Demes.Proofs.FromMs
open Demes Demes.Ms Demes.Spec Demes.Spec.MsSem Demes.Spec.C08
open Demes.Proofs.RV (bind_ok pure_ok)

/-- what the two loops have collected so far agrees; `fs` is `findStructure` of what is left of
the command line: as long as no `-I` has been seen, it is still the result on the whole line -/
structure Inv (fs : Except String (Nat × Q)) (npop0 : Nat) (rate0 : Q) (a : Args) (acc : Parsed) : Prop where
  initial : a.initialState.map cmdOf = acc.initial.map some
  events : a.demographicEvents.map cmdOf = acc.events.map some
  initial0 : ∀ c ∈ acc.initial, c.t = 0
  nonneg : ∀ c ∈ acc.events, 0 ≤ c.t
  npop : acc.npop = npop0
  rate : acc.islandRate = rate0
  struct : match a.structure_ with
    | none => acc.sawI = false ∧ fs = .ok (npop0, rate0)
    | some st => acc.sawI = true ∧ st.npop.toNat = npop0 ∧ st.rate = .fin rate0

theorem Inv.skip {fs fs' : Except String (Nat × Q)} {npop0 : Nat} {rate0 : Q} {a : Args} {acc : Parsed}
    (h : Inv fs npop0 rate0 a acc) (hfs : fs' = fs) (u : List String) :
    Inv fs' npop0 rate0 { a with unknown := u } acc := by
  subst hfs
  exact ⟨h.initial, h.events, h.initial0, h.nonneg, h.npop, h.rate, h.struct⟩

theorem Inv.ini {fs fs' : Except String (Nat × Q)} {npop0 : Nat} {rate0 : Q} {a : Args} {acc : Parsed}
    (h : Inv fs npop0 rate0 a acc) (hfs : fs' = fs) {e : Event Num} {c : Cmd} (hc : cmdOf e = some c) (ht : c.t = 0) :
    Inv fs' npop0 rate0 { a with initialState := a.initialState ++ [e] } { acc with initial := acc.initial ++ [c] } := by
  subst hfs
  refine ⟨?_, h.events, ?_, h.nonneg, h.npop, h.rate, h.struct⟩
  · simp only [List.map_append, List.map_cons, List.map_nil, h.initial, hc]
  · intro d hd
    rcases List.mem_append.1 hd with hd | hd
    · exact h.initial0 d hd
    · simp only [List.mem_singleton] at hd; subst hd; exact ht

theorem Inv.ev {fs fs' : Except String (Nat × Q)} {npop0 : Nat} {rate0 : Q} {a : Args} {acc : Parsed}
    (h : Inv fs npop0 rate0 a acc) (hfs : fs' = fs) {e : Event Num} {c : Cmd} (hc : cmdOf e = some c) (ht : 0 ≤ c.t) :
    Inv fs' npop0 rate0 { a with demographicEvents := a.demographicEvents ++ [e] } { acc with events := acc.events ++ [c] } := by
  subst hfs
  refine ⟨h.initial, ?_, h.initial0, ?_, h.npop, h.rate, h.struct⟩
  · simp only [List.map_append, List.map_cons, List.map_nil, h.events, hc]
  · intro d hd
    rcases List.mem_append.1 hd with hd | hd
    · exact h.nonneg d hd
    · simp only [List.mem_singleton] at hd; subst hd; exact ht

/-! ### the option records on finite arguments -/

theorem mkGrowthRateChange_fin (o : String) {t al : Q} (ht : 0 ≤ t) :
    mkGrowthRateChange (fun x : Num => vFinite x) o (.fin t) (.fin al) = .ok (.growthRateChange o (.fin t) (.fin al)) := by
  unfold mkGrowthRateChange vT
  rw [vNonNegative_fin.2 ht]; rfl

theorem mkPopGrowthRateChange_fin (o : String) {t al : Q} {i : Int} (ht : 0 ≤ t) (hi : 1 ≤ i) :
    mkPopGrowthRateChange (fun x : Num => vFinite x) o (.fin t) i (.fin al)
      = .ok (.popGrowthRateChange o (.fin t) i (.fin al)) := by
  unfold mkPopGrowthRateChange vT
  rw [vNonNegative_fin.2 ht, vPosInt_ok.2 hi]; rfl

theorem mkSizeChange_fin (o : String) {t x : Q} (ht : 0 ≤ t) (hx : 0 ≤ x) :
    mkSizeChange (α := Num) o (.fin t) (.fin x) = .ok (.sizeChange o (.fin t) (.fin x)) := by
  unfold mkSizeChange vT
  rw [vNonNegative_fin.2 ht, vNonNegative_fin.2 hx]; rfl

theorem mkPopSizeChange_fin (o : String) {t x : Q} {i : Int} (ht : 0 ≤ t) (hi : 1 ≤ i) (hx : 0 ≤ x) :
    mkPopSizeChange (α := Num) o (.fin t) i (.fin x) = .ok (.popSizeChange o (.fin t) i (.fin x)) := by
  unfold mkPopSizeChange vT
  rw [vNonNegative_fin.2 ht, vPosInt_ok.2 hi, vNonNegative_fin.2 hx]; rfl

theorem mkMigRateChange_fin (o : String) {t x : Q} (ht : 0 ≤ t) (hx : 0 ≤ x) :
    mkMigRateChange (α := Num) o (.fin t) (.fin x) = .ok (.migRateChange o (.fin t) (.fin x)) := by
  unfold mkMigRateChange vT
  rw [vNonNegative_fin.2 ht, vNonNegative_fin.2 hx]; rfl

theorem mkMigEntryChange_fin (o : String) {t x : Q} {i j : Int} (ht : 0 ≤ t) (hi : 1 ≤ i) (hj : 1 ≤ j) (hx : 0 ≤ x) :
    mkMigEntryChange (α := Num) o (.fin t) i j (.fin x) = .ok (.migEntryChange o (.fin t) i j (.fin x)) := by
  unfold mkMigEntryChange vT
  rw [vNonNegative_fin.2 ht, vPosInt_ok.2 hi, vPosInt_ok.2 hj, vNonNegative_fin.2 hx]; rfl

theorem mkMigMatrixChange_fin (o : String) {t : Q} {n : Int} (mm : List String) (ht : 0 ≤ t) (hn : 1 ≤ n) :
    mkMigMatrixChange (α := Num) o (.fin t) n mm = .ok (.migMatrixChange o (.fin t) n mm) := by
  unfold mkMigMatrixChange vT
  rw [vNonNegative_fin.2 ht, vPosInt_ok.2 hn]; rfl

theorem mkSplit_fin (o : String) {t p : Q} {i : Int} (ht : 0 ≤ t) (hi : 1 ≤ i) (hp0 : 0 ≤ p) (hp1 : p ≤ 1) :
    mkSplit (α := Num) o (.fin t) i (.fin p) = .ok (.split o (.fin t) i (.fin p)) := by
  unfold mkSplit vT
  rw [vNonNegative_fin.2 ht, vPosInt_ok.2 hi, vUnitInterval_fin.2 ⟨hp0, hp1⟩]; rfl

theorem mkJoin_fin (o : String) {t : Q} {i j : Int} (ht : 0 ≤ t) (hi : 1 ≤ i) (hj : 1 ≤ j) :
    mkJoin (α := Num) o (.fin t) i j = .ok (.join o (.fin t) i j) := by
  unfold mkJoin vT
  rw [vNonNegative_fin.2 ht, vPosInt_ok.2 hi, vPosInt_ok.2 hj]; rfl

theorem eok_bind {α β} (a : α) (f : α → Except Err β) : (Except.ok a >>= f) = f a := rfl
theorem sok_bind {α β} (a : α) (f : α → Except String β) : (Except.ok a >>= f) = f a := rfl

theorem known_mem (s : String) (h : C08.knownFlags.contains s = true) : s ∈ C08.knownFlags :=
  List.contains_iff_mem.1 h

theorem need_ok {l : List String} {k : Nat} (m : String) (h : k ≤ l.length) :
    (if l.length < k then throw m else pure () : Except String Unit) = .ok () := by
  rw [if_neg (by omega)]; rfl

/-! ### from the Model's converters and validators to the interpreter's -/

theorem cInt_ok' {s : String} {j : Int} (h : cInt s = .ok j) : pyInt s = some j := cInt_ok h

theorem fin_of_finTok {s : String} {x : Num} (h : pyFloat s = some x) (hf : C08.finTok s = true) : ∃ q, x = .fin q := by
  unfold C08.finTok at hf
  rw [h] at hf
  cases x with
  | fin q => exact ⟨q, rfl⟩
  | pinf => cases hf
  | ninf => cases hf
  | nan => cases hf

theorem num_of {s : String} {x : Num} (h : cFloat s = .ok x) (hf : C08.finTok s = true) : ∃ q, num s = .ok q := by
  obtain ⟨q, rfl⟩ := fin_of_finTok (cFloat_ok h) hf
  exact ⟨q, num_ok.2 (cFloat_ok h)⟩

theorem nonneg_of {s : String} {x : Num} (h : cFloat s = .ok x) (hf : C08.finTok s = true)
    (hv : vNonNegative x = .ok ()) : ∃ q, nonneg s = .ok q := by
  obtain ⟨q, rfl⟩ := fin_of_finTok (cFloat_ok h) hf
  exact ⟨q, nonneg_ok.2 ⟨cFloat_ok h, vNonNegative_fin.1 hv⟩⟩

theorem idx_of {s : String} {j : Int} (h : cInt s = .ok j) (hv : vPosInt j = .ok ()) : idx s = .ok j.toNat :=
  idx_ok.2 ⟨j, cInt_ok h, vPosInt_ok.1 hv, rfl⟩

theorem mkGrowthRateChange_ok {fin : Num → Except Err Unit} {o : String} {t al : Num} {e : Event Num}
    (h : mkGrowthRateChange fin o t al = .ok e) : vNonNegative t = .ok () := by
  unfold mkGrowthRateChange vT at h
  obtain ⟨_, h1, h⟩ := bind_ok.1 h
  exact h1

theorem mkPopGrowthRateChange_ok {fin : Num → Except Err Unit} {o : String} {t al : Num} {i : Int} {e : Event Num}
    (h : mkPopGrowthRateChange fin o t i al = .ok e) : vNonNegative t = .ok () ∧ vPosInt i = .ok () := by
  unfold mkPopGrowthRateChange vT at h
  obtain ⟨_, h1, h⟩ := bind_ok.1 h
  obtain ⟨_, h2, h⟩ := bind_ok.1 h
  exact ⟨h1, h2⟩

theorem mkSizeChange_ok {o : String} {t x : Num} {e : Event Num}
    (h : mkSizeChange (α := Num) o t x = .ok e) : vNonNegative t = .ok () ∧ vNonNegative x = .ok () := by
  unfold mkSizeChange vT at h
  obtain ⟨_, h1, h⟩ := bind_ok.1 h
  obtain ⟨_, h2, h⟩ := bind_ok.1 h
  exact ⟨h1, h2⟩

theorem mkPopSizeChange_ok {o : String} {t x : Num} {i : Int} {e : Event Num}
    (h : mkPopSizeChange (α := Num) o t i x = .ok e) :
    vNonNegative t = .ok () ∧ vPosInt i = .ok () ∧ vNonNegative x = .ok () := by
  unfold mkPopSizeChange vT at h
  obtain ⟨_, h1, h⟩ := bind_ok.1 h
  obtain ⟨_, h2, h⟩ := bind_ok.1 h
  obtain ⟨_, h3, h⟩ := bind_ok.1 h
  exact ⟨h1, h2, h3⟩

theorem mkMigRateChange_ok {o : String} {t x : Num} {e : Event Num}
    (h : mkMigRateChange (α := Num) o t x = .ok e) : vNonNegative t = .ok () ∧ vNonNegative x = .ok () := by
  unfold mkMigRateChange vT at h
  obtain ⟨_, h1, h⟩ := bind_ok.1 h
  obtain ⟨_, h2, h⟩ := bind_ok.1 h
  exact ⟨h1, h2⟩

theorem mkMigEntryChange_ok {o : String} {t x : Num} {i j : Int} {e : Event Num}
    (h : mkMigEntryChange (α := Num) o t i j x = .ok e) :
    vNonNegative t = .ok () ∧ vPosInt i = .ok () ∧ vPosInt j = .ok () ∧ vNonNegative x = .ok () := by
  unfold mkMigEntryChange vT at h
  obtain ⟨_, h1, h⟩ := bind_ok.1 h
  obtain ⟨_, h2, h⟩ := bind_ok.1 h
  obtain ⟨_, h3, h⟩ := bind_ok.1 h
  obtain ⟨_, h4, h⟩ := bind_ok.1 h
  exact ⟨h1, h2, h3, h4⟩

theorem mkMigMatrixChange_ok {o : String} {t : Num} {n : Int} {mm : List String} {e : Event Num}
    (h : mkMigMatrixChange (α := Num) o t n mm = .ok e) : vNonNegative t = .ok () ∧ vPosInt n = .ok () := by
  unfold mkMigMatrixChange vT at h
  obtain ⟨_, h1, h⟩ := bind_ok.1 h
  obtain ⟨_, h2, h⟩ := bind_ok.1 h
  exact ⟨h1, h2⟩

theorem mkSplit_ok {o : String} {t p : Num} {i : Int} {e : Event Num}
    (h : mkSplit (α := Num) o t i p = .ok e) :
    vNonNegative t = .ok () ∧ vPosInt i = .ok () ∧ vUnitInterval p = .ok () := by
  unfold mkSplit vT at h
  obtain ⟨_, h1, h⟩ := bind_ok.1 h
  obtain ⟨_, h2, h⟩ := bind_ok.1 h
  obtain ⟨_, h3, h⟩ := bind_ok.1 h
  exact ⟨h1, h2, h3⟩

theorem mkJoin_ok {o : String} {t : Num} {i j : Int} {e : Event Num}
    (h : mkJoin (α := Num) o t i j = .ok e) :
    vNonNegative t = .ok () ∧ vPosInt i = .ok () ∧ vPosInt j = .ok () := by
  unfold mkJoin vT at h
  obtain ⟨_, h1, h⟩ := bind_ok.1 h
  obtain ⟨_, h2, h⟩ := bind_ok.1 h
  obtain ⟨_, h3, h⟩ := bind_ok.1 h
  exact ⟨h1, h2, h3⟩

/-! ### the induction hypotheses of the two directions -/

/-- interpreter ⟹ Model: if the manual's parser accepts what is left, so does the argparse loop,
and the two results agree -/
def CHyp (npop0 : Nat) (rate0 : Q) (f : Nat) (pr : Parsed) : Prop :=
  ∀ (l : List String) (a : Args) (acc : Parsed), l.length ≤ f → PSuf npop0 l →
    Inv (findStructure l) npop0 rate0 a acc → parseFrom npop0 f l acc = .ok pr →
    ∃ args, ML l a = .ok args ∧ Inv (.ok (1, 0)) npop0 rate0 args pr

/-- Model ⟹ interpreter: if the argparse loop accepts what is left and no string reads as `inf`
or `nan`, the manual's parser accepts it -/
def BHyp (npop0 : Nat) (f : Nat) (args : Args) : Prop :=
  ∀ (l : List String) (a : Args) (acc : Parsed), l.length ≤ f → PSuf npop0 l →
    (∀ s ∈ l, C08.finTok s = true) → (acc.sawI = true → "-I" ∉ l) → ML l a = .ok args →
    ∃ pr, parseFrom npop0 f l acc = .ok pr

end Demes.Proofs.FromMsParse
