/-
  C09, first sentence — the wider fragment `C08.Tame2` against the commands `to_ms` prints.

  `Tame2` (Theorems/C08.lean §11) allows, beyond `Tame'`, a time group in which a population is the source of a
  move after it was the TARGET OF A JOIN (`q = 1`).  In a command of `to_ms` the moves of one time `T` are
  (`MsRT.groupOps_ancEvs`, `ToMs.dpsEq_eq`): first the pulses of time `T`, last listed first, each a move
  `(dest, source, proportion)`; then the demes that start at `T`, each a run of moves `(deme, ancestor, q)` that
  ends with a join.  In a valid graph

  * the target of a deme's move is an ancestor, which starts strictly before `T`, so it is not the source of a
    later deme move (`demes_pairwise`);
  * the target of a pulse's move is the pulse's source, which does not start at `T`, so it is not the source of a
    later deme move (`pulse_deme_cross`); and pulses are printed before the demes;
  * hence the only "source after target" of a `to_ms` group is a pulse into the source of a pulse listed later —
    and there the earlier move is an `-es`/`-ej` pair with `q` = the pulse's proportion, which `GoodGroup2`'s own
    clause `0 < p` (`p = 1 - proportion`) forces to be `< 1`: not a join.

  So on `to_ms` output `GoodGroup2 = GoodGroup` group by group (`goodGroup2_eq_group`), `Tame2 = Tame'`
  (`tame2_eq_tame_finalEvs`), and both hold exactly when the pulses are `PulsesTame` (`tame_iff_pulsesTame`):
  the wider fragment contains no `to_ms` command that `Tame'` does not.
-/
import DemesVerif.Proofs.MsRTTame2
import DemesVerif.Proofs.FromMsWideRun
set_option linter.unusedSimpArgs false
set_option linter.unusedVariables false
namespace Demes.Proofs.MsTame2
open Demes Demes.Ms Demes.Spec Demes.Spec.C07 Demes.Spec.C09
open Demes.Spec.MsSem (Cmd Parsed isMove)
open Demes.Spec.C08 (groupOps groupOpsAux flushOp noSourceAfterTarget sourceAfterJoinOnly chainsEnd GoodGroup GoodGroup2
  goodGroups goodGroups2 Tame' Tame2 isSplitC cmdGroups)
open Demes.Proofs.ToMs Demes.Proofs.MsRT

/-! ### `sourceAfterJoinOnly` as a pairwise statement -/

theorem sajo_iff : ∀ (l : List (Nat × Nat × Q)),
    sourceAfterJoinOnly l = true ↔ l.Pairwise (fun o o' => o.2.1 ≠ o'.1 ∨ o.2.2 = 1)
  | [] => by simp [sourceAfterJoinOnly]
  | o :: r => by
    simp only [sourceAfterJoinOnly, Bool.and_eq_true, List.all_eq_true, Bool.or_eq_true, decide_eq_true_eq,
      List.pairwise_cons, sajo_iff r]

/-! ### the moves of one time of a valid graph -/

section
variable {g : Graph} (c : Clauses g) (hx : MsExpressible g = true)
include c hx

/-- the pulses of time `T`, last listed first, as moves -/
def pulseOps (g : Graph) (T : Q) : List (Nat × Nat × Q) :=
  ((g.pulses.filter (fun p => p.time = T)).reverse).map (pulseMove g)

/-- the demes that start at `T`, as moves -/
def demeOps (g : Graph) (T : Q) : List (Nat × Nat × Q) :=
  dpMoves g ((g.demes.filter (fun d => d.startTime = ETime.fin T)).map DemeOrPulse.deme)

omit c hx in
theorem dpMoves_dpsEq (T : Q) : dpMoves g (dpsEq g T) = pulseOps g T ++ demeOps g T := by
  rw [dpsEq_eq, dpMoves_append, dpMoves_pulses]
  rfl

omit hx in
/-- two moves of demes born at `T`: an ancestor starts strictly earlier -/
theorem demes_pairwise (T : Q) : (demeOps g T).Pairwise (fun o o' => o.2.1 ≠ o'.1) := by
  unfold demeOps
  rw [List.pairwise_iff_forall_sublist]
  intro o o' hsub
  have ho := hsub.subset List.mem_cons_self
  have ho' := hsub.subset (List.mem_cons_of_mem _ List.mem_cons_self)
  obtain ⟨d, hd, hod⟩ := mem_dpMoves_demes _ ho
  obtain ⟨d', hd', hod'⟩ := mem_dpMoves_demes _ ho'
  obtain ⟨hdm, hdt⟩ := List.mem_filter.1 hd
  obtain ⟨hdm', hdt'⟩ := List.mem_filter.1 hd'
  simp only [decide_eq_true_eq] at hdt hdt'
  obtain ⟨_, a, anc, h2, haid, hanc, hlt⟩ := demeMove_facts c hdm hdt hod
  obtain ⟨h1', _⟩ := demeMove_facts c hdm' hdt' hod'
  intro heq
  rw [h2, h1'] at heq
  have : a = d'.name := toNat_idOf_inj haid (demeId_isSome_of_mem c hdm') heq
  rw [this, findDeme_of_mem c hdm'] at hanc
  cases hanc
  rw [hdt'] at hlt
  exact et_lt_irrefl' hlt (et_le_refl _)

/-- a pulse, then a deme born at the time: the source of a pulse does not start at the pulse's time -/
theorem pulse_deme_cross (T : Q) : ∀ o ∈ pulseOps g T, ∀ o' ∈ demeOps g T, o.2.1 ≠ o'.1 := by
  intro o ho o' ho'
  obtain ⟨p, hp, rfl⟩ := List.mem_map.1 ho
  obtain ⟨hpm, hpt'⟩ := List.mem_filter.1 (List.mem_reverse.1 hp)
  simp only [decide_eq_true_eq] at hpt'
  obtain ⟨d', hd', hod'⟩ := mem_dpMoves_demes _ ho'
  obtain ⟨hdm', hdt'⟩ := List.mem_filter.1 hd'
  simp only [decide_eq_true_eq] at hdt'
  obtain ⟨h1', _⟩ := demeMove_facts c hdm' hdt' hod'
  obtain ⟨s, hs, hsid⟩ := (pulseOk_of_valid c hx hpm).src
  obtain ⟨dd, _, _, _, _, hsrc⟩ := pulse_facts c hpm
  obtain ⟨sd, hsd, _, _, hne, _, _⟩ := hsrc s (by rw [hs]; simp)
  simp only [pulseMove, hs, List.headD_cons]
  intro heq
  rw [h1'] at heq
  have : s = d'.name := toNat_idOf_inj hsid (demeId_isSome_of_mem c hdm') heq
  rw [this, findDeme_of_mem c hdm'] at hsd
  cases hsd
  rw [hdt', hpt'] at hne
  exact hne rfl

/-- **the only "source after target" of a `to_ms` group is between two pulses** -/
theorem nsat_dpMoves_iff (T : Q) :
    noSourceAfterTarget (dpMoves g (dpsEq g T)) = true ↔ (pulseOps g T).Pairwise (fun o o' => o.2.1 ≠ o'.1) := by
  rw [nsat_iff, dpMoves_dpsEq, List.pairwise_append]
  exact ⟨fun h => h.1, fun h => ⟨h, demes_pairwise c T, pulse_deme_cross c hx T⟩⟩

/-- the fraction moved by a pulse's `-es`/`-ej` pair is the pulse's proportion: when that is below one, the move
is not a join, and `sourceAfterJoinOnly` is `noSourceAfterTarget` -/
theorem nsat_of_sajo (T : Q) (hlt : ∀ p ∈ g.pulses, p.time = T → p.proportions.headD 0 < 1)
    (h : sourceAfterJoinOnly (dpMoves g (dpsEq g T)) = true) : noSourceAfterTarget (dpMoves g (dpsEq g T)) = true := by
  rw [nsat_dpMoves_iff c hx]
  rw [sajo_iff, dpMoves_dpsEq, List.pairwise_append] at h
  refine h.1.imp_of_mem ?_
  intro o o' ho _ hor
  rcases hor with hne | hq
  · exact hne
  · exfalso
    obtain ⟨p, hp, rfl⟩ := List.mem_map.1 ho
    obtain ⟨hpm, hpt'⟩ := List.mem_filter.1 (List.mem_reverse.1 hp)
    simp only [decide_eq_true_eq] at hpt'
    have := hlt p hpm hpt'
    simp only [pulseMove] at hq
    grind

/-- on the moves of one time of a valid graph whose pulses of that time have proportions below one, the two
conditions of `GoodGroup2` on the moves are the condition of `GoodGroup` -/
theorem good2_ops_eq (T : Q) (hlt : ∀ p ∈ g.pulses, p.time = T → p.proportions.headD 0 < 1) :
    (sourceAfterJoinOnly (dpMoves g (dpsEq g T)) && chainsEnd (dpMoves g (dpsEq g T)))
      = noSourceAfterTarget (dpMoves g (dpsEq g T)) := by
  rw [Bool.eq_iff_iff, Bool.and_eq_true]
  constructor
  · intro h; exact nsat_of_sajo c hx T hlt h.1
  · intro h
    exact ⟨Demes.Proofs.FromMs.sourceAfterJoinOnly_of_nsat _ h, Demes.Proofs.FromMs.chainsEnd_of_nsat _ h⟩

end

/-! ### `PulsesTame` from the moves -/

section
variable {g : Graph} (c : Clauses g) (hx : MsExpressible g = true)
include c hx

/-- a pulse of a valid ms-expressible graph has one source and one proportion -/
theorem pulse_single {p : Pulse} (hp : p ∈ g.pulses) :
    ∃ s p0, p.sources = [s] ∧ p.proportions = [p0] ∧ (g.demeId? s).isSome = true := by
  obtain ⟨s, hs, hsid⟩ := (pulseOk_of_valid c hx hp).src
  have h11 := c.h11
  simp only [v11, List.all_eq_true] at h11
  have := h11 p hp
  simp only [Bool.and_eq_true, decide_eq_true_eq, beq_iff_eq] at this
  obtain ⟨⟨⟨⟨⟨_, hlen⟩, _⟩, _⟩, _⟩, _⟩ := this
  rw [hs] at hlen
  cases hpp : p.proportions with
  | nil => rw [hpp] at hlen; simp at hlen
  | cons p0 r =>
    cases r with
    | nil => exact ⟨s, p0, hs, rfl, hsid⟩
    | cons _ _ => rw [hpp] at hlen; simp at hlen

/-- the order clause of `PulsesTame` is `noSourceAfterTarget` of the moves of every time -/
theorem order_of_nsat (h : ∀ T, (∃ p ∈ g.pulses, p.time = T) → noSourceAfterTarget (dpMoves g (dpsEq g T)) = true) :
    pairwiseB (fun a b => !(a.time == b.time) || !(b.sources.contains a.dest)) g.pulses = true := by
  rw [pairwiseB_iff, List.pairwise_iff_forall_sublist]
  intro a b hsub
  have ha : a ∈ g.pulses := hsub.subset List.mem_cons_self
  have hb : b ∈ g.pulses := hsub.subset (List.mem_cons_of_mem _ List.mem_cons_self)
  by_cases ht : a.time = b.time
  · have hn := (nsat_dpMoves_iff c hx b.time).1 (h b.time ⟨b, hb, rfl⟩)
    unfold pulseOps at hn
    rw [List.pairwise_map, List.pairwise_reverse] at hn
    have hsub' : List.Sublist [a, b] (g.pulses.filter (fun p => decide (p.time = b.time))) := by
      have := hsub.filter (fun p => decide (p.time = b.time))
      simpa [ht] using this
    have hab := (List.pairwise_iff_forall_sublist.1 hn) hsub'
    obtain ⟨s, _, hs, _, hsid⟩ := pulse_single c hx hb
    have hda := (pulseOk_of_valid c hx ha).dest
    simp only [pulseMove, hs, List.headD_cons] at hab
    have hne : s ≠ a.dest := fun hsa => hab (by rw [hsa])
    simp [ht, hs]
    exact fun h => hne h.symm
  · simp [ht]

end

#print axioms nsat_dpMoves_iff
#print axioms good2_ops_eq
#print axioms order_of_nsat

end Demes.Proofs.MsTame2
