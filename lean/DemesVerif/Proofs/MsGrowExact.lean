/-
  C09 §8 — what does not depend on the value of a growth rate is exact: at the times `exactAt` the demography
  with replaced growth rates (`regrow`) has the graph's own sizes, so `SemRefines A (regrow gv N0 gs)` gives
  `SemRefinesUpToGrowth A gs`.
-/
import DemesVerif.Proofs.MsGrowCompose
namespace Demes.Proofs.MsGrow
open Demes Demes.Ms Demes.Spec Demes.Spec.C07 Demes.Spec.C09
open Demes.Spec.MsSem (DemogSem PopSem Seg mkSeg)
open Demes.Spec.C08 (segOwns segValue segRate)
open Demes.Proofs.FromMs (segOwns_iff mulExp_neg_zero mulExp_neg_zero_mul)
open Demes.Proofs.MsRT (Tiles tiles_lower zip_mem_index zip_of_index)

/-- the value at `t` of a list of segments, by recursion -/
def origVal : List Seg → Q → Option Sz
  | [], _ => none
  | s :: ss, t => if segOwns s t then segValue s t else origVal ss t

theorem sizeAtL_orig : ∀ (segs : List Seg) (lo : Q) (hi : ETime) (t : Q), Tiles lo segs hi → lo ≤ t → ETime.fin t < hi →
    sizeAtL segs t = origVal segs t
  | [], lo, hi, t, h, h1, h2 => by
    have h' : hi = .fin lo := h
    rw [h'] at h2
    have : t < lo := h2
    grind
  | a :: r, lo, hi, t, h, hlo, hhi => by
    obtain ⟨h1, h3, h4⟩ := h
    by_cases hown : ETime.fin t < a.t1
    · have ho : segOwns a t = true := (segOwns_iff a t).mpr ⟨by rw [h1]; exact hlo, hown⟩
      have hrest : r.filter (segOwns · t) = [] := by
        apply List.filter_eq_nil_iff.mpr
        intro s hs hso
        obtain ⟨hs1, _⟩ := (segOwns_iff s t).mp hso
        cases hb : a.t1 with
        | inf => rw [hb] at h4; rw [h4.1] at hs; cases hs
        | fin b =>
          rw [hb] at h4 hown
          have := tiles_lower h4 s hs
          have : t < b := hown
          grind
      unfold sizeAtL origVal
      rw [List.filter_cons, if_pos ho, hrest, if_pos ho]
    · cases hb : a.t1 with
      | inf => rw [hb] at hown; exact absurd trivial hown
      | fin b =>
        rw [hb] at hown h4
        have hbt : b ≤ t := by
          have : ¬ t < b := hown
          grind
        have ho : segOwns a t = false := by
          cases hq : segOwns a t with
          | false => rfl
          | true =>
            have := ((segOwns_iff a t).mp hq).2
            rw [hb] at this
            exact absurd this hown
        have ih := sizeAtL_orig r b hi t h4 hbt hhi
        unfold sizeAtL origVal
        rw [List.filter_cons, ho]
        simp only [Bool.false_eq_true, if_false]
        exact ih

/-- "the size at the recent end of `s` is exact", as `exactSegs` computes it -/
def exE (prev : Option (Sz × Bool)) (s : Seg) : Bool :=
  match prev with
  | some (o, e) => o != s.size || e
  | none => true

theorem exactSegs_cons (prev : Option (Sz × Bool)) (s : Seg) (ss : List Seg) (t : Q) :
    exactSegs prev (s :: ss) t
      = if segOwns s t then exE prev s && ((s.sizeOld == some s.size) || t == s.t0)
        else exactSegs (s.sizeOld.map (fun o => (o, exE prev s && (s.sizeOld == some s.size)))) ss t := by
  cases prev with
  | none => rfl
  | some oe => rfl

/-- the pair `exactSegs` carries and the pair `regrowSegs` carries: where the former says "exact", the latter
hands the next segment its own size -/
def RelE (pe : Option (Sz × Bool)) (pr : Option (Sz × Sz)) : Prop :=
  ∀ s : Seg, exE pe s = true → sizeIn pr s = s.size

theorem relE_none : RelE none none := fun _ _ => rfl

/-- a segment with equal end sizes keeps the rate `0` -/
theorem segRateV_const {gv : Growth → Q} (hz : gv Growth.zero = 0) (N0 : Q) {s : Seg} (h : s.sizeOld = some s.size) :
    segRateV gv N0 s = 0 := by
  have hG : C07.segGrowth N0 s = some .zero ∨ C07.segGrowth N0 s = none := by
    unfold C07.segGrowth
    rw [h]
    simp only [Option.bind_some]
    split
    · cases hq : C07.szQ s.size with
      | none => right; rfl
      | some a => left; simp
    · right; rfl
  unfold segRateV
  rcases hG with e | e <;> rw [e] <;> simp [hz]

theorem relE_next {gv : Growth → Q} (hz : gv Growth.zero = 0) (N0 : Q) {pe : Option (Sz × Bool)} {pr : Option (Sz × Sz)}
    (h : RelE pe pr) (s : Seg) :
    RelE (s.sizeOld.map (fun o => (o, exE pe s && (s.sizeOld == some s.size)))) (nextPrev gv N0 pr s) := by
  intro s2 hex
  cases ho : s.sizeOld with
  | none =>
    unfold nextPrev
    rw [ho]
    rfl
  | some o =>
    rw [ho] at hex
    simp only [Option.map_some, exE, Bool.or_eq_true, bne_iff_ne, ne_eq, Bool.and_eq_true, beq_iff_eq] at hex
    unfold nextPrev
    rw [ho]
    cases ho' : (segV gv N0 pr s).sizeOld with
    | none => rfl
    | some o' =>
      show (if o = s2.size then o' else s2.size) = s2.size
      by_cases hos : o = s2.size
      · rw [if_pos hos]
        rcases hex with hne | ⟨hex1, hconst⟩
        · exact absurd hos hne
        · -- the segment is constant and starts from its own size
          have hsz : sizeIn pr s = s.size := h s hex1
          have hsize : o = s.size := by
            injection hconst
          have hr : segRateV gv N0 s = 0 := segRateV_const hz N0 (by rw [ho, hsize])
          have : (segV gv N0 pr s).sizeOld = some s.size := by
            unfold segV mkSeg
            rw [hsz, hr]
            cases s.t1 with
            | inf => simp
            | fin b => simp [Demes.Proofs.FromMs.mulExp_zero]
          rw [this] at ho'
          injection ho' with ho'
          rw [← ho', ← hsize, hos]
      · rw [if_neg hos]

/-- **at the times `exactSegs`, the regrown segments show the graph's own sizes** -/
theorem exact_regrowVal {gv : Growth → Q} (hz : gv Growth.zero = 0) (N0 : Q) :
    ∀ (segs : List Seg) (pe : Option (Sz × Bool)) (pr : Option (Sz × Sz)) (t : Q), RelE pe pr →
      (∀ s ∈ segs, s.growth = none) → exactSegs pe segs t = true →
      regrowVal gv N0 pr segs t = origVal segs t ∧ (origVal segs t).isSome = true
  | [], _, _, _, _, _, h => by simp [exactSegs] at h
  | s :: ss, pe, pr, t, hrel, hg, h => by
    rw [exactSegs_cons] at h
    unfold regrowVal origVal
    by_cases hown : segOwns s t = true
    · rw [if_pos hown] at h
      rw [if_pos hown, if_pos hown]
      simp only [Bool.and_eq_true, Bool.or_eq_true, beq_iff_eq] at h
      obtain ⟨hex, hc⟩ := h
      rw [hrel s hex]
      rcases hc with hc | hc
      · rw [segRateV_const hz N0 hc, mulExp_neg_zero_mul,
          MsRT.segValue_const (hg s (List.mem_cons_self ..)) hc]
        exact ⟨rfl, rfl⟩
      · subst hc
        rw [mulExp_neg_zero]
        unfold segValue
        rw [if_pos rfl]
        exact ⟨rfl, rfl⟩
    · have hown' : segOwns s t = false := by simpa using hown
      rw [hown'] at h ⊢
      simp only [Bool.false_eq_true, if_false] at h ⊢
      exact exact_regrowVal hz N0 ss _ _ t (relE_next hz N0 hrel s) (fun x hx => hg x (List.mem_cons_of_mem _ hx)) h

/-- at an `exactAt` time of the lifetime the regrown population has the graph's size -/
theorem exact_sizeAt {gv : Growth → Q} (hz : gv Growth.zero = 0) (N0 : Q) {p : PopSem}
    (htiles : Tiles p.lo p.segs p.hi) (hg : ∀ s ∈ p.segs, s.growth = none) {t : Q} (hlo : p.lo ≤ t)
    (hhi : ETime.fin t < p.hi) (hex : exactAt p t = true) :
    (C09.sizeAt p t).isSome = true ∧ C09.sizeAt (regrowPop gv N0 p) t = C09.sizeAt p t := by
  obtain ⟨e1, e2⟩ := exact_regrowVal hz N0 p.segs none none t relE_none hg hex
  obtain ⟨g1, _⟩ := sizeAt_regrowSegs (gv := gv) (N0 := N0) p.segs none p.lo p.hi t htiles hlo hhi
  have ho := sizeAtL_orig p.segs p.lo p.hi t htiles hlo hhi
  rw [sizeAt_eq_L, sizeAt_eq_L, ho]
  refine ⟨e2, ?_⟩
  show sizeAtL (regrowSegs gv N0 none p.segs) t = _
  rw [g1, e1]

/-- **`SemRefines` against the demography with replaced growth rates gives `SemRefinesUpToGrowth` against the
demography of the graph** -/
theorem semRefinesUpTo_of_regrow {gv : Growth → Q} (hz : gv Growth.zero = 0) {N0 : Q} {A gs : DemogSem}
    (h : SemRefines A (regrow gv N0 gs))
    (htiles : ∀ p ∈ gs.pops, Tiles p.lo p.segs p.hi ∧ ∀ s ∈ p.segs, s.growth = none) :
    SemRefinesUpToGrowth A gs := by
  have hzip : ∀ ab ∈ A.pops.zip gs.pops, (ab.1, regrowPop gv N0 ab.2) ∈ A.pops.zip (regrow gv N0 gs).pops := by
    intro ab hab
    obtain ⟨k, h1, h2⟩ := zip_mem_index hab
    exact zip_of_index h1 (by rw [regrow_pops, List.getElem?_map, h2]; rfl)
  refine ⟨?_, ?_, ?_, ?_, ?_⟩
  · rw [h.ids, regrow_pops, List.map_map]
    rfl
  · intro ab hab
    exact h.lives (ab.1, regrowPop gv N0 ab.2) (hzip ab hab)
  · intro ab hab t ht1 ht2 hex
    obtain ⟨s1, s2⟩ := h.sizes (ab.1, regrowPop gv N0 ab.2) (hzip ab hab) t ht1 ht2
    have hm : ab.2 ∈ gs.pops := (List.of_mem_zip hab).2
    obtain ⟨e1, e2⟩ := exact_sizeAt hz N0 (htiles ab.2 hm).1 (htiles ab.2 hm).2 ht1 ht2 hex
    exact ⟨e1, by rw [← e2]; exact s2⟩
  · rw [← migsRefine_regrow gv N0]; exact h.migs
  · have := h.moves
    rw [restrictMoves_regrow] at this
    exact this

#print axioms semRefinesUpTo_of_regrow
#print axioms exact_sizeAt

end Demes.Proofs.MsGrow
